import PelModel.Src
/-
  Vocabulary of the definitions that `harness/trans_src.py` regenerates from the SOURCE TEXT of pel/peltool/src.py
  (lean/PelGen/GenSrc.lean): the loop idioms of the Python text as combinators, and the three call sites whose callees are
  NAMED, not translated (`getErrorDetails`, `parse` + `json.loads`, `getProcedureDesc`).  Nothing here is about a particular
  width, mask, key or order: those are arguments the translator reads off the AST.
  PelProofs/TieSrc.lean relates the combinators to the recursive functions of PelModel/Src.lean.
-/
namespace Pel

/-- `get_value(stream.data, stream.index, n)` = `int.from_bytes(data[index : index + n], byteorder="big")`:
    big-endian value of up to `n` bytes at the cursor; never fails, does not advance -/
def peekInt (n : Nat) : Rd Nat := fun st => .ok (fromBE (st.take n), st)

/-- `for _ in range(n): L.append(<expression that reads>)`: the values appended, in order -/
def rdRepeat {α : Type} (r : Rd α) : Nat → Rd (List α)
  | 0 => pure []
  | n+1 => do let x ← r; let xs ← rdRepeat r n; pure (x :: xs)

/-- `while cond(state): body` where every path through `body` that continues the loop performs at least one stream read
    (a successful read consumes at least one byte, `get_mem(0)` raises): at most `remaining` iterations continue, so the
    fuel `remaining + 1` never runs out while the condition still holds.  `body` returns the new state and whether the loop
    continues (`false` = `break`). -/
def rdWhile {σ : Type} (cond : σ → Prop) [DecidablePred cond] (body : σ → Rd (σ × Bool)) : Nat → σ → Rd σ
  | 0, st => pure st
  | fuel+1, st =>
    if cond st then body st >>= fun r => if r.2 = true then rdWhile cond body fuel r.1 else pure r.1
    else pure st

/-- `L[i]` for a non-negative `i`: IndexError beyond the end -/
def rdIndex (l : List Nat) (i : Nat) : Rd Nat :=
  match l[i]? with
  | some x => pure x
  | none => Rd.fail .other

/-- `for i in range(a, b): body` (the body may raise) -/
def forRangeRd {σ : Type} (a b : Nat) (body : Nat → σ → Rd σ) (init : σ) : Rd σ :=
  ((List.range b).drop a).foldlM (fun st i => body i st) init

/-- a value whose computation may raise (AttributeError on an attribute that was never set) -/
def rdOfOption {α : Type} : Option α → Rd α
  | some x => pure x
  | none => Rd.fail .other

/-- `while len(L) < n: L.append(x)` -/
def padTo {α : Type} (n : Nat) (x : α) (l : List α) : List α := l ++ List.replicate (n - l.length) x

/-! ### call sites of functions that are named, not translated -/

/-- `self.getErrorDetails(out, code, srcType)` (src.py; the callee and `registry.py` are NOT translated, see REPORT):
    what the call does to `out`, as a function of its two string arguments and `self.hexData` -/
def errDetailsCall (reg : List RegEntry) (code ty : Text) (words : List Nat) : ErrDet :=
  match regLookup reg (s "0x" ++ code) ty with
  | none => .none
  | some e =>
    match buildMessage e words with
    | .fail => .fail
    | .unsupported => .unsupported
    | .ok msg =>
      if msg = [] then .none else
      match wordDescs words e.words [] with
      | .fail => .fail
      | .unsupported => .unsupported
      | .ok descs => .some (objUpdate [kv "Message" (jstr msg)] descs)

/-- the member the call adds to `out` under `key` (the key is the one the callee's last statement stores under), or the exception -/
def ErrDet.rd (key : Text) : ErrDet → Rd (List (Text × J))
  | .some ms => pure [(key, .obj ms)]
  | .none => pure []
  | .fail => Rd.fail .other
  | .unsupported => Rd.fail .unsupported

/-- `value = self.parse(hexwords)`, `if value != '' and value != 'null': out[key] = json.loads(value)`:
    the member added (`SRC.parse` and the parser modules are NOT translated, see REPORT) -/
def SrcDetails.rd (key : Text) : SrcDetails → Rd (List (Text × J))
  | .some j => pure [(key, j)]
  | .none => pure []
  | .fail => Rd.fail .other
  | .unsupported => Rd.fail .unsupported

/-- `self.getProcedureDesc(proc, d)` (NOT translated, see REPORT): the members the call adds to `d` when plug-ins are allowed -/
def procDescCall (env : SrcEnv) (creator : Text) (proc : Text) : List (Text × J) := procDescription env creator true proc

/-- a dictionary built by `d[k] = v` statements, in statement order (Python: an existing key keeps its place) -/
def dictOf (items : List (Text × J)) : List (Text × J) := items.foldl (fun acc p => objSet acc p.1 p.2) []

end Pel
