import PelModel.Sections
import PelModel.Src
import PelModel.UserData
import PelModel.Select
/-
  Model of `parsePEL`, `sectionFun`, `buildOutput` and `parsePELSummary` (peltool.py).
-/
namespace Pel

structure Env where
  T : Tables
  ud : UdEnv
  src : SrcEnv
  allowPlugins : Bool

inductive Outcome where
  | doc (eid : Text) (d : J)
  | filtered            -- considerPEL said no: ("", "")
  | badHeader           -- first/second section id is not PH/UH: ("", "") or exit(1)
  | error (e : Err)
deriving Repr

def sidPH : Nat := 0x5048
def sidUH : Nat := 0x5548
def sidPS : Nat := 0x5053
def sidSS : Nat := 0x5353
def sidEH : Nat := 0x4548
def sidMT : Nat := 0x4D54
def sidLP : Nat := 0x4C50
def sidUD : Nat := 0x5544
def sidED : Nat := 0x4544

/-- `sectionFun`: one optional section (header already read); also returns the reference code of an SRC -/
def decodeSection (env : Env) (creator : Text) (h : SecHdr) : Rd (J × Option Text) :=
  if h.id = sidPS ∨ h.id = sidSS then do
    let (j, rc) ← decodeSRC env.T env.src h creator env.allowPlugins
    pure (j, some rc)
  else if h.id = sidEH then do let j ← decodeEH env.T h creator; pure (j, none)
  else if h.id = sidMT then do let j ← decodeMT env.T h creator; pure (j, none)
  else if h.id = sidED then do let j ← decodeED env.T env.ud env.allowPlugins h; pure (j, none)
  else if h.id = sidUD then do let j ← decodeUD env.T env.ud env.allowPlugins h creator; pure (j, none)
  else if h.id = sidLP then do let j ← decodeLP env.T h creator; pure (j, none)
  else do let j ← decodeDefault h; pure (j, none)

/-- the loop `for _ in range(2, ph.sectionCount)` -/
def decodeSections (env : Env) (creator : Text) : Nat → Rd (List (Text × J))
  | 0 => pure []
  | n+1 => do
    let h ← parseHeader
    let (j, _) ← decodeSection env creator h
    let rest ← decodeSections env creator n
    pure ((sectionName env.T h.id, j) :: rest)

/-- `buildOutput`: names that occur more than once get " 0", " 1", … in order of appearance -/
def countName (name : Text) (l : List (Text × J)) : Nat := (l.filter (fun p => p.1 == name)).length

def buildOutputGo (all : List (Text × J)) : List (Text × J) → List (Text × Nat) → List (Text × J) → List (Text × J)
  | [], _, out => out
  | (name, j) :: r, counters, out =>
    if countName name all = 1 then buildOutputGo all r counters (objSet out name j)
    else
      let m := ((counters.find? (fun p => p.1 == name)).map (·.2)).getD 0
      let counters' := (name, m + 1) :: counters.filter (fun p => p.1 != name)
      buildOutputGo all r counters' (objSet out (name ++ [32] ++ natDec m) j)

def buildOutput (sections : List (Text × J)) (out : List (Text × J)) : List (Text × J) :=
  buildOutputGo sections sections [] out

/-- the decoder proper, as a reader over the whole file -/
def parsePELRd (env : Env) (cfg : SelCfg) : Rd Outcome := do
  let h1 ← parseHeader
  if h1.id ≠ sidPH then pure .badHeader else do
  let (phJ, ph) ← decodePH env.T h1
  let h2 ← parseHeader
  if h2.id ≠ sidUH then pure .badHeader else do
  let (uhJ, uh) ← decodeUH env.T h2 ph.creator
  if !considerPEL uh.severity uh.actionFlags cfg then pure .filtered else do
  let secs ← decodeSections env ph.creator (ph.sectionCount - 2)
  let out0 := objSet (objSet [] (sectionName env.T h1.id) phJ) (sectionName env.T h2.id) uhJ
  pure (.doc (fmtHex 2 ph.eid) (.obj (buildOutput secs out0)))

/-- `parsePEL(stream, config, exit_on_error=False)` on the bytes of a file -/
def parsePEL (env : Env) (cfg : SelCfg) (b : Bytes) : Outcome :=
  match parsePELRd env cfg b with
  | .ok (o, _) => o
  | .error e => .error e

/-! ### summary decoder (`parsePELSummary`), used by --list / --plid / --src -/

structure Summary where
  eid : Text               -- "0x…"
  fields : List (Text × J)
deriving Repr

/-- `k in d` for a string `k` on a decoded JSON value: key of a dictionary, substring of a string, element of a list;
    `none` = TypeError -/
def jIn (k : Text) : J → Option Bool
  | .obj l => some (objGet? l k).isSome
  | .str t => some (isInfix k t)
  | .arr l => some (l.any fun v => match v with | .str t => t == k | _ => false)
  | _ => none

/-- `d[k]` for a string `k`: `none` = KeyError (absent key) / TypeError (not a dictionary) -/
def jItem (k : Text) : J → Option J
  | .obj l => objGet? l k
  | _ => none

/-- `if "Error Details" in d: summary["Message"] = d["Error Details"]["Message"]` on the document `d` of the primary SRC:
    the value of the `Message` member, if any; an exception of the look-ups leaves `parsePELSummary` -/
def summaryMessage (d : J) : Rd (Option J) :=
  match jIn (s "Error Details") d with
  | none => Rd.fail .other
  | some false => pure none
  | some true =>
    match (jItem (s "Error Details") d).bind (jItem (s "Message")) with
    | some m => pure (some m)
    | none => Rd.fail .other

/-- sections up to and including the primary SRC: its reference code and its registry message, if any -/
def summarySections (env : Env) (creator : Text) : Nat → Rd (Option Text × Option J)
  | 0 => pure (none, none)
  | n+1 => do
    let h ← parseHeader
    let (j, rc) ← decodeSection env creator h
    if h.id = sidPS then do
      let msg ← summaryMessage j
      pure (rc, msg)
    else summarySections env creator n

inductive SummaryOutcome where
  | summary (s : Summary) (plid : Nat) (src : Option Text)
  | filtered
  | badHeader
  | error (e : Err)
deriving Repr

def parseSummaryRd (env : Env) (cfg : SelCfg) : Rd SummaryOutcome := do
  let h1 ← parseHeader
  if h1.id ≠ sidPH then pure .badHeader else do
  let (phJ, ph) ← decodePH env.T h1
  let h2 ← parseHeader
  if h2.id ≠ sidUH then pure .badHeader else do
  let (uhJ, uh) ← decodeUH env.T h2 ph.creator
  if !considerPEL uh.severity uh.actionFlags cfg then pure .filtered else do
  let (rc, msg) ← summarySections env ph.creator (ph.sectionCount - 2)
  let get (j : J) (k : String) : J := match j with
    | .obj l => (objGet? l (s k)).getD .null
    | _ => .null
  let fields : List (Text × J) :=
    (match rc with
      | some r => [kv "SRC" (jstr r)]
      | none => []) ++
    (match msg with
      | some m => [kv "Message" m]
      | none => []) ++
    [kv "PLID" (jstr (ox (fmtHex 2 ph.plid))), kv "CreatorID" (get phJ "Creator Subsystem"),
     kv "Subsystem" (get uhJ "Subsystem"), kv "Commit Time" (jstr ph.commitTime),
     kv "Sev" (get uhJ "Event Severity"), kv "CompID" (get phJ "Created by")]
  pure (.summary { eid := ox (fmtHex 2 ph.eid), fields } ph.plid rc)

def parseSummary (env : Env) (cfg : SelCfg) (b : Bytes) : SummaryOutcome :=
  match parseSummaryRd env cfg b with
  | .ok (o, _) => o
  | .error e => .error e

end Pel
