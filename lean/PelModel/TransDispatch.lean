import PelModel.Plugins
/-
  Vocabulary of the definitions that `harness/trans_dispatch.py` regenerates from the SOURCE TEXT of peltool.py (`sectionFun`, the
  `generate*` wrappers, the section loop of `parsePEL`), udparsers/m2c00/m2c00.py, srcparsers/osrc/osrc.py, src.py / parse_user_data.py
  (module names) and calloutparsers/ocallouts/ocallouts.py (lean/PelGen/GenDispatch.lean).  Nothing here is a model of its own: the three
  definitions only give names to Python idioms, so that the generated terms say what the source says.

  * `Rd.collect body n`  — `xs = []; for _ in range(a, b): …; xs.append(x)` over the data stream (n = b - a iterations, results in order);
  * `modPath pkg n`      — the dotted module name `pkg.n.n` that `importlib.import_module` is given.  The model indexes its environments
                           and module tables by the SHORT name `n` (PelModel/Plugins.lean); `modPath pkg` is injective in `n`
                           (PelProps/TieC18.lean, `modPath_injective`), so nothing is lost;
  * `namedBy T h rd`     — `out[getSectionName(sectionID)] = <section>.toJSON(…)` on a fresh dictionary: the one member as a pair.
-/
namespace Pel

/-- `for _ in range(n): xs.append(<body>)` -/
def Rd.collect {α : Type} (body : Rd α) : Nat → Rd (List α)
  | 0 => pure []
  | n+1 => do
    let x ← body
    let r ← Rd.collect body n
    pure (x :: r)

/-- `pkg + "." + n + "." + n` -/
def modPath (pkg n : Text) : Text := pkg ++ [46] ++ n ++ [46] ++ n

/-- a decoded section stored under the name of its id -/
def namedBy (T : Tables) (h : SecHdr) (rd : Rd J) : Rd (Text × J) := rd >>= fun j => pure (sectionName T h.id, j)

end Pel
