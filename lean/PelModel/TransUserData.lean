import PelModel.UserData
import PelModel.Plugins
/-
  Vocabulary of the definitions that `harness/trans_userdata.py` regenerates from the SOURCE TEXT of pel/datastream.py,
  pel/peltool/user_data.py, ext_user_data.py and parse_user_data.py (lean/PelGen/GenUserData.lean), where the Python values are
  finer than the model's.  Nothing here is used by the model or by the property theorems; PelProps/TieC05.lean and TieC04.lean
  prove the MODEL functions (`getMem`, `getInt`, `decodeUD`, `decodeED`, `builtinFormat`, `parseUserData`, `udLookup`) equal to
  what the generated definitions, written in this vocabulary, say.

  1. datastream.py keeps `data`, `size`, `index` (and the byte order / signedness the stream was constructed with) in an object;
     the model's reader (`Rd`, PelModel/Reader.lean) keeps only the bytes that are not consumed yet.  `DS` is the object, `DsM` the
     monad of its methods (state + exception), `DsM.abs` the view of a method as a reader over `DS.rest`, `DS.Inv` the invariant
     `__init__` establishes.  Python integers are `Int` here (a byte count can be negative: `sectionLen - 8`).
  2. parse_user_data.py: a Python `str` is either `json.dumps` of a value or some other text (`PyStr`; the model's `UdValue` adds
     "raised"), the module table `userDataParsers` is state that survives an exception (`PyM = ExceptT PyExc (StateM cache)`),
     the table is keyed by the full module name `udparsers.<n>.<n>` (the model's `Cache` / `UdEnv` by `<n>`).
-/
namespace Pel

/-! ### 1. pel/datastream.py -/

/-- a `DataStream` object -/
structure DS where
  data : Bytes
  size : Int
  index : Int
  byteOrder : Option Text
  isSigned : Option Bool
deriving Repr, DecidableEq

/-- the methods of `DataStream`: state + exception (no method catches anything) -/
abbrev DsM := StateT DS (Except Err)

/-- `self.<field>` read -/
def DsM.fld {α} (f : DS → α) : DsM α := fun d => .ok (f d, d)
/-- `self.<field> = …` -/
def DsM.upd (f : DS → DS) : DsM Unit := fun d => .ok ((), f d)
/-- `raise …` -/
def DsM.raise {α} (e : Err) : DsM α := fun _ => .error e

/-- which outcome of the model an `AssertionError(msg)` is: the reader tells the two explicit checks of datastream.py apart by
    their message (PelModel/Reader.lean: `Err.range` = "range check failure", `Err.assert` = "must provide a positive, non-zero
    integer"); any other text is some other exception as far as the model is concerned -/
def assertionErr (msg : Text) : Err :=
  if msg = s "range check failure" then .range
  else if msg = s "must provide a positive, non-zero integer" then .assert
  else .other

/-- an `assert c, msg` STATEMENT: a check only when the interpreter runs without `-O` (`opt = false`); with `-O` the statement
    does not exist.  A property that has to hold "also with assertions disabled" must hold for both values of `opt`. -/
def pyAssert (opt : Bool) (c : Prop) [Decidable c] (msg : Text) : DsM Unit :=
  if opt then pure () else if c then pure () else DsM.raise (assertionErr msg)

/-- Python slice bound: negative counts from the end, everything is clamped to `0..len` -/
def pyIdx (len : Nat) (i : Int) : Nat := if i < 0 then (i + len).toNat else min i.toNat len
/-- `l[a:b]` -/
def pySlice {α} (l : List α) (a b : Int) : List α := (l.take (pyIdx l.length b)).drop (pyIdx l.length a)

/-- `int.from_bytes(b, byteorder=bo, signed=sg)`: `byteorder=None` is a TypeError, a text other than 'big' / 'little' a
    ValueError, `signed=None` is false -/
def intFromBytes (b : Bytes) (bo : Option Text) (sg : Option Bool) : Except Err Int :=
  let fix (v : Nat) : Int :=
    if sg = some true ∧ 0 < b.length ∧ 2 ^ (8 * b.length - 1) ≤ v then (v : Int) - (2 ^ (8 * b.length) : Nat) else (v : Int)
  match bo with
  | none => .error .other
  | some o =>
    if o = s "big" then .ok (fix (fromBE b))
    else if o = s "little" then .ok (fix (fromBE b.reverse))
    else .error .other

def DsM.ofExcept {α} (x : Except Err α) : DsM α := fun d => match x with | .ok a => .ok (a, d) | .error e => .error e

/-- the bytes the stream has not handed out yet: the state of the model's reader -/
def DS.rest (d : DS) : Bytes := d.data.drop d.index.toNat
/-- what `__init__` establishes and every method keeps -/
def DS.Inv (d : DS) : Prop := d.size = d.data.length ∧ 0 ≤ d.index ∧ d.index ≤ d.size
/-- a method seen as a reader over the bytes not consumed yet -/
def DsM.abs {α} (p : DsM α) (d : DS) : Except Err (α × Bytes) :=
  match p d with
  | .ok (a, d') => .ok (a, d'.rest)
  | .error e => .error e
/-- a method moves only the cursor, and keeps the invariant -/
def DsM.Frame {α} (p : DsM α) (d : DS) : Prop :=
  ∀ a d', p d = .ok (a, d') →
    d'.Inv ∧ d'.data = d.data ∧ d'.size = d.size ∧ d'.byteOrder = d.byteOrder ∧ d'.isSigned = d.isSigned

/-! the four methods, written by hand statement by statement in the vocabulary above: the shape the translator produces from the
    current source text.  PelProofs/TieUserData.lean proves that they refine the model's reader; PelProps/TieC05.lean proves the
    generated definitions equal to them. -/

/-- `DataStream.__init__` -/
def DS.init (data : Bytes) (bo : Option Text) (sg : Option Bool) : DS :=
  { data := data, size := (data.length : Int), index := 0, byteOrder := bo, isSigned := sg }

/-- `DataStream.check_range` -/
def DS.checkRange (_opt : Bool) (n : Int) : DsM Bool :=
  if ¬ (0 < n) then DsM.raise (assertionErr (s "must provide a positive, non-zero integer")) else do
  let i ← DsM.fld (·.index)
  let sz ← DsM.fld (·.size)
  pure (if i + n ≤ sz then true else false)

/-- `DataStream.inc_index` -/
def DS.incIndex (opt : Bool) (n : Int) : DsM Unit := do
  let ok ← DS.checkRange opt n
  if ¬ (ok = true) then DsM.raise (assertionErr (s "range check failure")) else do
  let i ← DsM.fld (·.index)
  DsM.upd (fun d => { d with index := i + n })
  pure ()

/-- `DataStream.get_mem` -/
def DS.getMem (opt : Bool) (n : Int) : DsM Bytes := do
  let ok ← DS.checkRange opt n
  if ¬ (ok = true) then DsM.raise (assertionErr (s "range check failure")) else do
  let dat ← DsM.fld (·.data)
  let i ← DsM.fld (·.index)
  let j ← DsM.fld (·.index)
  let _ ← DS.incIndex opt n
  pure (pySlice dat i (j + n))

/-- `DataStream.get_int(n)`, called with the byte count only (as every decoder does) -/
def DS.getInt (opt : Bool) (n : Int) : DsM Int := do
  let bo ← (if (none : Option Text) = none then DsM.fld (·.byteOrder) else pure none)
  let sg ← (if (none : Option Bool) = none then DsM.fld (·.isSigned) else pure none)
  pyAssert opt (none ≠ bo) (s "byte_order not defined")
  pyAssert opt (none ≠ sg) (s "is_signed not defined")
  let m ← DS.getMem opt n
  let r ← DsM.ofExcept (intFromBytes m bo sg)
  pure r

end Pel

namespace Pel

/-! ### 2. pel/peltool/parse_user_data.py, user_data.py, ext_user_data.py -/

/-- a Python `str` as the user-data code handles it: `json.dumps` of a value, or any other text -/
inductive PyStr where
  | dumps (j : J)
  | raw (t : Text)
deriving Repr

/-- exception classes the code distinguishes -/
inductive ExcKind where
  | importError      -- ImportError (incl. ModuleNotFoundError)
  | unicodeDecode    -- UnicodeDecodeError
  | exception        -- any other subclass of Exception
deriving Repr, DecidableEq

/-- a raised exception: its class, and `str(e)` -/
structure PyExc where
  kind : ExcKind
  msg : Text
deriving Repr, DecidableEq

/-- `except ImportError` -/
def PyExc.isImportError (e : PyExc) : Bool := e.kind == .importError
/-- `except Exception` -/
def PyExc.isException (_ : PyExc) : Bool := true

/-- the monad of parse_user_data.py: the module table `userDataParsers` is state that SURVIVES an exception (an entry stored before
    a parser call raises stays stored) -/
def PyM (α : Type) := Cache UdPlugin → Except PyExc α × Cache UdPlugin

def PyM.pure {α} (a : α) : PyM α := fun c => (.ok a, c)
def PyM.bind {α β} (x : PyM α) (f : α → PyM β) : PyM β := fun c =>
  match x c with
  | (.ok a, c') => f a c'
  | (.error e, c') => (.error e, c')
instance : Monad PyM where
  pure := PyM.pure
  bind := PyM.bind
def PyM.raise {α} (e : PyExc) : PyM α := fun c => (.error e, c)

/-- `try: body except <class> [as e]: handler` -/
def pyTry {α} (body : PyM α) (catches : PyExc → Bool) (handler : PyExc → PyM α) : PyM α := fun c =>
  match body c with
  | (.ok a, c') => (.ok a, c')
  | (.error e, c') => if catches e then handler e c' else (.error e, c')

/-- how a statement list inside `try` ends: with `return r`, or by reaching its end -/
inductive Flow (α : Type) where
  | ret (r : α)
  | next
deriving Repr

/-- `bytes.decode(b)` -/
def pyDecode (b : Bytes) : PyM Text :=
  match utf8Decode b with
  | some t => PyM.pure t
  | none => PyM.raise ⟨.unicodeDecode, []⟩

/-- `K in userDataParsers` -/
def cacheHas (k : Text) : PyM Bool := fun c => (.ok (cacheGet c k).isSome, c)
/-- `userDataParsers[K]` (KeyError if absent) -/
def cacheLoad (k : Text) : PyM (Option UdPlugin) := fun c =>
  match cacheGet c k with
  | some v => (.ok v, c)
  | none => (.error ⟨.exception, k⟩, c)
/-- `userDataParsers[K] = v` (the convention of PelModel/Plugins.lean: look-ups read the first pair, a store puts a pair in front) -/
def cacheStore (k : Text) (v : Option UdPlugin) : PyM Unit := fun c => (.ok (), (k, v) :: c)

/-- the full module name the code imports for the environment's short name `n` -/
def udFullName (n : Text) : Text := s "udparsers." ++ n ++ s "." ++ n

/-- `udparsers.<n>.<n>` ↦ `n` -/
def udShortName (full : Text) : Option Text :=
  let p := s "udparsers."
  if p.isPrefixOf full then
    let r := full.drop p.length
    let n := r.take ((r.length - 1) / 2)
    if r = n ++ s "." ++ n then some n else none
  else none

/-- `importlib.import_module(M)` against the abstract environment: `absent` = the import raises ImportError (the module does not
    exist, or executing it raises an ImportError), `importRaises msg` = executing the module raises some other exception, anything
    else = the module object with that behaviour -/
def udImport (env : UdEnv) (full : Text) : PyM UdPlugin := fun c =>
  match udShortName full with
  | none => (.error ⟨.importError, full⟩, c)
  | some n =>
    match env n with
    | .absent => (.error ⟨.importError, full⟩, c)
    | .importRaises msg => (.error ⟨.exception, msg⟩, c)
    | b => (.ok b, c)

/-- `cls.parseUDToJson(subType, version, data)` of a module object with behaviour `b` (`None` or a `str` comes back, or it raises) -/
def udCall (b : UdPlugin) (sub ver : Nat) (data : Bytes) : PyM (Option PyStr) :=
  match b with
  | .echo => PyM.pure (some (.dumps (.obj [kv "subType" (jnum sub), kv "version" (jnum ver), kv "data" (jstr (bytesHexL data))])))
  | .raises msg => PyM.raise ⟨.exception, msg⟩
  | .returnsNone => PyM.pure none
  | .returnsText t => PyM.pure (some (.raw t))
  | .absent => PyM.raise ⟨.exception, []⟩            -- (never a module object)
  | .importRaises _ => PyM.raise ⟨.exception, []⟩    -- (never a module object)

/-- what `parse` hands to its caller, in the model's terms -/
def UdValue.ofPy : Except PyExc PyStr → UdValue
  | .ok (.dumps j) => .json j
  | .ok (.raw t) => .text t
  | .error e => .fail (if e.kind = .unicodeDecode then .decode else .other)

/-- `value = parser.parse(config)` inside the section decoder: an exception of `parse` leaves the decoder -/
def udRaise (v : UdValue) : Rd PyStr :=
  match v with
  | .json j => pure (.dumps j)
  | .text t => pure (.raw t)
  | .fail e => Rd.fail e

/-- `try: j = json.loads(v) except json.decoder.JSONDecodeError: j = alt(v)`: what `json.dumps` made loads back to the value it was
    made from; any other text goes through the model's `loads` (`.unsupported`: the text leaves the modelled JSON subset) -/
def PyStr.loadsOr (v : PyStr) (alt : Text → J) : Rd J :=
  match v with
  | .dumps j => pure j
  | .raw t =>
    match loads t with
    | .ok j => pure j
    | .bad => pure (alt t)
    | .unsupported => Rd.fail .unsupported

end Pel
