import PelModel.Basic
/-
  Model of pel/datastream.py: a cursor over the remaining bytes with explicit failure.
  `getMem 0` fails like `check_range(0)` (assertion); reading past the end fails (range check).
-/
namespace Pel

inductive Err where
  | range        -- "range check failure"
  | assert       -- "must provide a positive, non-zero integer"
  | decode       -- UnicodeDecodeError and friends
  | other        -- any other exception raised while decoding (KeyError, IndexError, AttributeError …)
  | unsupported  -- not an error of the code: the input leaves the modelled subset (floats in user JSON, % formats …)
deriving Repr, DecidableEq

abbrev Rd := StateT Bytes (Except Err)

def Rd.fail {α} (e : Err) : Rd α := fun _ => .error e

def getMem (n : Nat) : Rd Bytes := fun st =>
  if n = 0 then .error .assert
  else if n ≤ st.length then .ok (st.take n, st.drop n) else .error .range

def getInt (n : Nat) : Rd Nat := do let m ← getMem n; pure (fromBE m)

/-- `get_value(stream.data, stream.index, 2)`: big-endian value of up to two bytes, never fails, does not advance -/
def peek2 : Rd Nat := fun st => .ok (fromBE (st.take 2), st)

def remaining : Rd Nat := fun st => .ok (st.length, st)

end Pel
