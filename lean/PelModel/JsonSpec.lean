import PelModel.Json
/-
  Structural description of what the tool prints (C06): the same rendering as `json.dumps(indent=4)`, except
  that a member line may carry extra spaces between the colon that follows the key and the single space that
  precedes the value.  `aText n` with `n = 0` is `dumps`.
-/
namespace Pel

/-- the first printed line of a value (what shares the line with the key) -/
def firstLineOf : J → Text
  | .null => s "null"
  | .bool true => s "true"
  | .bool false => s "false"
  | .num n => intDec n
  | .str t => renderStr t
  | .arr [] => s "[]"
  | .arr (_ :: _) => s "["
  | .obj [] => s "{}"
  | .obj (_ :: _) => s "{"

/-- spaces inserted after the colon of the member `k : v` printed at nesting level `lvl` -/
def alignGap (n lvl : Nat) (k : Text) (v : J) : Text :=
  if (renderStr k ++ firstLineOf v).contains 123 then []
  else spaces (n - (4 * lvl + (renderStr k).length - 1))

mutual
  def aText (n : Nat) : J → Nat → Text
    | .null, _ => s "null"
    | .bool true, _ => s "true"
    | .bool false, _ => s "false"
    | .num k, _ => intDec k
    | .str t, _ => renderStr t
    | .arr [], _ => s "[]"
    | .arr (x :: xs), lvl => [91, 10] ++ aItems n (x :: xs) (lvl + 1) ++ [10] ++ indentOf lvl ++ [93]
    | .obj [], _ => s "{}"
    | .obj (kv :: kvs), lvl => [123, 10] ++ aMembers n (kv :: kvs) (lvl + 1) ++ [10] ++ indentOf lvl ++ [125]
  def aItems (n : Nat) : List J → Nat → Text
    | [], _ => []
    | [x], lvl => indentOf lvl ++ aText n x lvl
    | x :: y :: r, lvl => indentOf lvl ++ aText n x lvl ++ [44, 10] ++ aItems n (y :: r) lvl
  def aMembers (n : Nat) : List (Text × J) → Nat → Text
    | [], _ => []
    | [(k, v)], lvl => indentOf lvl ++ renderStr k ++ [58] ++ alignGap n lvl k v ++ [32] ++ aText n v lvl
    | (k, v) :: kv :: r, lvl =>
      indentOf lvl ++ renderStr k ++ [58] ++ alignGap n lvl k v ++ [32] ++ aText n v lvl ++ [44, 10] ++ aMembers n (kv :: r) lvl
end

mutual
  /-- objects as Python dicts build them: no key occurs twice in the same object -/
  def J.keysDistinct : J → Bool
    | .arr l => allDistinct l
    | .obj l => membersDistinct l []
    | _ => true
  def allDistinct : List J → Bool
    | [] => true
    | x :: r => x.keysDistinct && allDistinct r
  def membersDistinct : List (Text × J) → List Text → Bool
    | [], _ => true
    | (k, v) :: r, seen => !seen.contains k && v.keysDistinct && membersDistinct r (k :: seen)
end

/-- text as Python strings built by `bytes.decode()` / `json.loads` are: code points below 0x110000 and no high
    surrogate directly followed by a low surrogate (CPython's own `json` does not round-trip such a pair) -/
def strOk : Text → Bool
  | [] => true
  | [c] => c < 0x110000
  | c :: d :: r => c < 0x110000 && !((0xD800 ≤ c && c ≤ 0xDBFF) && (0xDC00 ≤ d && d ≤ 0xDFFF)) && strOk (d :: r)

mutual
  def J.stringsOk : J → Bool
    | .str t => strOk t
    | .arr l => allStringsOk l
    | .obj l => membersStringsOk l
    | _ => true
  def allStringsOk : List J → Bool
    | [] => true
    | x :: r => x.stringsOk && allStringsOk r
  def membersStringsOk : List (Text × J) → Bool
    | [] => true
    | (k, v) :: r => strOk k && v.stringsOk && membersStringsOk r
end

/-- documents the decoder can build -/
def J.wf (d : J) : Bool := d.keysDistinct && d.stringsOk

/-- the `-a` framing of peltool: `[`, the printed documents separated by `,` + newline, `]` -/
def listFraming (docs : List Text) : Text :=
  match docs with
  | [] => [91, 10, 93, 10]
  | _ => [91, 10] ++ joinWith [44, 10] docs ++ [10, 93, 10]

end Pel
