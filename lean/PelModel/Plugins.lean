import PelModel.Pel
import PelModel.Hlog
import PelModel.Ilog
import PelModel.Trace
import PelModel.HwDiags
/-
  Parser-module side of the decoder: the I/O-drawer plugin `udparsers.m2c00`, and the module caches of
  parse_user_data.py / src.py / osrc.py as explicit state (C18, C19).
-/
namespace Pel

/-! ### udparsers.m2c00 -/

structure DrawerTables where
  version : Nat                 -- user-data section version that selects this drawer type
  pte : List PteEntry
  strs : List TraceString
  fields : List HlogField
deriving Repr

def SUB_HLOG : Nat := 72
def SUB_ILOG : Nat := 73
def SUB_TRACE : Nat := 84

def linesJ (ls : List Text) : J := .arr (ls.map .str)

/-- `parseUDToJson(sub_type, version, data)` of the I/O-drawer plugin as a JSON value (`none` = a `%` format outside the
    modelled subset).  The result is always a JSON object. -/
def m2c00 (drawers : List DrawerTables) (sub ver : Nat) (data : Bytes) : Option J :=
  let drawer := drawers.find? (fun d => d.version == ver)
  let unexpected : J := .obj [(s "Error", .str (s "Unable to format data: Unexpected user data section version: " ++ natDec ver)),
                              (s "Data", hexdumpJ data)]
  if sub = SUB_HLOG then
    if data = [] then some (.obj [(s "History Log", .arr [])]) else
    match drawer with
    | none => some unexpected
    | some d => some (.obj [(s "History Log", linesJ (parseHlog d.fields data))])
  else if sub = SUB_ILOG then
    if data = [] then some (.obj [(s "ILOG", .arr [])]) else
    match drawer with
    | none => some unexpected
    | some d => (parseIlog d.pte data).map fun ls => .obj [(s "ILOG", linesJ ls)]
  else if sub = SUB_TRACE then
    if data = [] then some (.obj [(s "Trace", .arr [])]) else
    match drawer with
    | none => some unexpected
    | some d => (parseTrace d.strs data).map fun ls => .obj [(s "Trace", linesJ ls)]
  else some (.obj [(s "Data", if data = [] then .arr [] else hexdumpJ data)])

/-! ### module caches (C19) -/

/-- a cache: module name → what was stored for it (the module's behaviour; `absent` = `None` was stored) -/
abbrev UdCache := List (Text × UdPlugin)
abbrev SrcCache := List (Text × SrcPlugin)
abbrev CalloutCache := List (Text × CalloutPlugin)

structure Caches where
  ud : UdCache := []
  src : SrcCache := []
  callout : CalloutCache := []

def lookCache {β} (c : List (Text × β)) (env : Text → β) : Text → β := fun n =>
  match c.find? (fun p => p.1 == n) with
  | some (_, v) => v
  | none => env n

/-- the environment as seen through the caches: a cached entry wins over a fresh import
    (the message registry is module-level data loaded once, not a cache: it passes through unchanged) -/
def Env.through (env : Env) (c : Caches) : Env :=
  { env with ud := lookCache c.ud env.ud,
             src := { env.src with callout := lookCache c.callout env.src.callout, src := lookCache c.src env.src.src } }

/-- a correct cache update: the modules touched by a decode are stored with the result of importing them -/
def storeImports {β} (c : List (Text × β)) (env : Text → β) (touched : List Text) : List (Text × β) :=
  touched.foldl (fun acc n => if acc.any (fun p => p.1 == n) then acc else (n, env n) :: acc) c

structure Touched where
  ud : List Text := []
  src : List Text := []
  callout : List Text := []

/-- one decode in a long-running process: the result is computed through the caches, then the caches are updated
    for whatever modules the decode touched (any set: the theorems hold for all of them) -/
def decodeS (env : Env) (cfg : SelCfg) (c : Caches) (b : Bytes) (t : Touched) : Outcome × Caches :=
  (parsePEL (env.through c) cfg b,
   { ud := storeImports c.ud env.ud t.ud, src := storeImports c.src env.src.src t.src,
     callout := storeImports c.callout env.src.callout t.callout })

/-- every cached entry is what importing that module yields: looking a module up through the caches gives the same
    answer as importing it -/
def Coherent (env : Env) (c : Caches) : Prop :=
  (∀ n, lookCache c.ud env.ud n = env.ud n) ∧
  (∀ n, lookCache c.src env.src.src n = env.src.src n) ∧
  (∀ n, lookCache c.callout env.src.callout n = env.src.callout n)

/-- a history: the decodes performed before, each with the modules it touched -/
def runHistory (env : Env) (cfg : SelCfg) : Caches → List (Bytes × Touched) → Caches
  | c, [] => c
  | c, (b, t) :: h => runHistory env cfg (decodeS env cfg c b t).2 h

end Pel
