import PelModel.Pel
import PelModel.Hlog
import PelModel.Ilog
import PelModel.Trace
import PelModel.HwDiags
/-
  Parser-module side of the decoder: the I/O-drawer plugin `udparsers.m2c00`, and the module caches of
  parse_user_data.py / src.py / osrc.py as explicit state (C18, C19).
-/
namespace Pel

/-! ### udparsers.m2c00 -/

structure DrawerTables where
  version : Nat                 -- user-data section version that selects this drawer type
  pte : List PteEntry
  strs : List TraceString
  fields : List HlogField
deriving Repr

def SUB_HLOG : Nat := 72
def SUB_ILOG : Nat := 73
def SUB_TRACE : Nat := 84

def linesJ (ls : List Text) : J := .arr (ls.map .str)

/-- `parseUDToJson(sub_type, version, data)` of the I/O-drawer plugin as a JSON value (`none` = a `%` format outside the
    modelled subset).  The result is always a JSON object. -/
def m2c00 (drawers : List DrawerTables) (sub ver : Nat) (data : Bytes) : Option J :=
  let drawer := drawers.find? (fun d => d.version == ver)
  let unexpected : J := .obj [(s "Error", .str (s "Unable to format data: Unexpected user data section version: " ++ natDec ver)),
                              (s "Data", hexdumpJ data)]
  if sub = SUB_HLOG then
    if data = [] then some (.obj [(s "History Log", .arr [])]) else
    match drawer with
    | none => some unexpected
    | some d => some (.obj [(s "History Log", linesJ (parseHlog d.fields data))])
  else if sub = SUB_ILOG then
    if data = [] then some (.obj [(s "ILOG", .arr [])]) else
    match drawer with
    | none => some unexpected
    | some d => (parseIlog d.pte data).map fun ls => .obj [(s "ILOG", linesJ ls)]
  else if sub = SUB_TRACE then
    if data = [] then some (.obj [(s "Trace", .arr [])]) else
    match drawer with
    | none => some unexpected
    | some d => (parseTrace d.strs data).map fun ls => .obj [(s "Trace", linesJ ls)]
  else some (.obj [(s "Data", if data = [] then .arr [] else hexdumpJ data)])

/-! ### module caches (C19)

  State of the decoder that survives a decode, and the rules by which the code updates it, one function per place in the
  Python text where a table is consulted:

  * `parse_user_data.userDataParsers`  — `ParseUserData.parseCustom`      → `udLookup`
  * `src.srcParsers`                   — `SRC.parse`                       → `srcLookup`
  * `src.calloutParsers`               — `SRC.getProcedureDesc`            → `calloutLookup`
  * `osrc.osrcParsers`                 — `osrc.parseSRCToJson`             → `osrcLookup`
  * `comp_id.componentIDs`, `comp_id.attemptedToParseCompIDs` — `getDisplayCompID` / `getAllCreatorsCompIDs` → `compIdLookup`

  Every function returns what the decoder then works with and the table afterwards.  Keys are the short module names
  the environment is indexed by (`x1111` for `udparsers.x1111.x1111`, `xsrc` / `o8d00` for `srcparsers.….…`, the
  lower-case creator id `x` for `calloutparsers.xcallouts.xcallouts`).
-/

deriving instance DecidableEq for UdPlugin, SrcPlugin, CalloutPlugin

/-- a module-level dict `module name → module | None`: `none` = `None` is stored, `some b` = a module object with
    behaviour `b` is stored.  `name in d` / `d[name]` read the FIRST pair with that name, `d[name] = v` puts a pair in
    front (the rules below only ever assign to a name that is not a key: see `C19.cache_keys_distinct`). -/
abbrev Cache (β : Type) := List (Text × Option β)

/-- `d[name] if name in d` -/
def cacheGet {β} (c : Cache β) (n : Text) : Option (Option β) := (c.find? (fun p => p.1 == n)).map (·.2)

/-- why `importlib.import_module` fails for a module that the environment calls `absent` -/
inductive Fault where
  | notFound       -- there is no such module: ModuleNotFoundError
  | importError    -- the module exists, executing it raises an ImportError that is not a ModuleNotFoundError
  | other          -- the module exists, executing it raises any other exception
deriving DecidableEq, Repr

/-- outcome of `importlib.import_module` -/
inductive Imp (β : Type) where
  | failed (f : Fault)
  | module (b : β)
deriving DecidableEq, Repr

/-- a module object found in `srcParsers`: an SRC parser, or the shipped wrapper `srcparsers.osrc.osrc`, which forwards
    to the component parsers through a table of its own -/
inductive SrcMod where
  | parser (b : SrcPlugin)
  | osrcWrapper
deriving DecidableEq, Repr

/-- `componentIDs`: creator id → (component id → name); a Python dict (`dictSet` below) -/
abbrev CompTable := List (Text × List (Text × Text))
/-- a configuration directory in `os.listdir` order: (file name, the object in that JSON file) -/
abbrev ConfDir := List (Text × List (Text × Text))

structure CompIdState where
  attempted : Bool := false        -- `attemptedToParseCompIDs`
  table : CompTable := []          -- `componentIDs`
deriving DecidableEq, Repr

/-- the environment of a long-running process: `Env` (the module behaviours `parsePEL` is stated over), plus what only
    the cache rules can tell apart.
    For SRC and callout modules `absent` in `Env` means "the import does not yield a module"; `srcFault` / `calloutFault`
    say why (the decoder shows nothing in all three cases, the tables differ).  User-data modules need no such
    refinement: `UdPlugin.absent` = ImportError (of either kind), `UdPlugin.importRaises` = any other exception.
    The component-id table of a process comes from `confDir` (`none` = there is no configuration directory); the `T.compIds`
    member of the underlying `Env` is not looked at (see `ProcEnv.fresh`). -/
structure ProcEnv extends Env where
  srcFault : Text → Fault := fun _ => .notFound
  calloutFault : Text → Fault := fun _ => .notFound
  confDir : Option ConfDir := none

/-- importing `srcparsers.<n>.<n>` (the component modules of `osrc` and the `<creator>src` modules share the package) -/
def ProcEnv.srcImport (env : ProcEnv) (n : Text) : Imp SrcPlugin :=
  match env.src.src n with
  | .absent => .failed (env.srcFault n)
  | b => .module b

/-- … as seen from `SRC.parse`: for creator `o` the module is the wrapper, which exists in the repository
    (the assumption `srcDetails` makes as well) -/
def ProcEnv.srcSiteImport (env : ProcEnv) (n : Text) : Imp SrcMod :=
  if n = s "osrc" then .module .osrcWrapper else
  match env.srcImport n with
  | .failed f => .failed f
  | .module b => .module (.parser b)

/-- importing `calloutparsers.<n>callouts.<n>callouts` -/
def ProcEnv.calloutImport (env : ProcEnv) (n : Text) : Imp CalloutPlugin :=
  match env.src.callout n with
  | .absent => .failed (env.calloutFault n)
  | b => .module b

/-- `ParseUserData.parseCustom` up to the point where `cls` is known.  The result is the behaviour the rest of the method
    works with: `.absent` = `cls is None` (dump), `.importRaises msg` = the import's exception reaches `except Exception`
    (error note + dump), anything else = the module whose `parseUDToJson` is called. -/
def udLookup (env : ProcEnv) (c : Cache UdPlugin) (n : Text) : UdPlugin × Cache UdPlugin :=
  match cacheGet c n with
  | some none => (.absent, c)                        -- `cls = userDataParsers[mod]` is None
  | some (some b) => (b, c)                          -- … is a module
  | none =>                                          -- not a key: `importlib.import_module(mod)`
    match env.ud n with
    | .absent => (.absent, (n, none) :: c)           -- `except ImportError: cls = None`, then `userDataParsers[mod] = cls`
    | .importRaises msg => (.importRaises msg, c)    -- any other exception leaves the inner `try`: NOTHING is stored
    | b => (b, (n, some b) :: c)                     -- `userDataParsers[mod] = cls`
  -- (a parser CALL that raises comes later and stores nothing: the table is not touched again)

/-- `SRC.parse` up to the call: `none` = `return ""` -/
def srcLookup (env : ProcEnv) (c : Cache SrcMod) (n : Text) : Option SrcMod × Cache SrcMod :=
  match cacheGet c n with
  | some v => (v, c)                                 -- `cls = srcParsers[mod]`; `if cls is None: return ""`
  | none =>
    match env.srcSiteImport n with
    | .module m => (some m, (n, some m) :: c)        -- `srcParsers[mod] = cls`
    | .failed _ => (none, (n, none) :: c)            -- BARE `except:` — any exception: `srcParsers[mod] = None; return ""`
  -- (the call has its own `except Exception`: prints, returns '', stores nothing)

/-- `SRC.getProcedureDesc` up to the call: `none` = `return` -/
def calloutLookup (env : ProcEnv) (c : Cache CalloutPlugin) (n : Text) : Option CalloutPlugin × Cache CalloutPlugin :=
  match cacheGet c n with
  | some v => (v, c)                                 -- `cls = calloutParsers[mod]`
  | none =>
    match env.calloutImport n with
    | .module m => (some m, (n, some m) :: c)        -- `calloutParsers[mod] = cls` …
    | .failed _ => (none, (n, none) :: c)            -- … also after the BARE `except: cls = None`
  -- (the call is in a `try … except: pass` of its own)

/-- what a look-up hands on when the import's exception may also leave the function -/
inductive Got (β : Type) where
  | none                -- `None`
  | module (b : β)
  | raised              -- the exception of the import propagates to the caller
deriving DecidableEq, Repr

/-- `osrc.parseSRCToJson` up to the call of the component parser: `.none` = `json.dumps(None)`, `.raised` = the exception
    leaves the wrapper (and is caught by the `except Exception` around the call in `SRC.parse`: no details) -/
def osrcLookup (env : ProcEnv) (c : Cache SrcPlugin) (n : Text) : Got SrcPlugin × Cache SrcPlugin :=
  match cacheGet c n with
  | some none => (.none, c)                          -- "previously checked, is not found"
  | some (some b) => (.module b, c)
  | none =>
    match env.srcImport n with
    | .module b => (.module b, (n, some b) :: c)     -- `osrcParsers[mod] = module`
    | .failed .notFound => (.none, (n, none) :: c)   -- `except ModuleNotFoundError: osrcParsers[mod] = None`
    | .failed _ => (.raised, c)                      -- any other exception: not handled here, NOTHING is stored

/-- Python `d[k] = v` -/
def dictSet {α} : List (Text × α) → Text → α → List (Text × α)
  | [], k, v => [(k, v)]
  | (k', v') :: r, k, v => if k' = k then (k, v) :: r else (k', v') :: dictSet r k v

def compSuffix : Text := s "_component_ids.json"

/-- `file[0:file.find(suffix)]` for a name that contains the suffix -/
def beforeFirst (pat : Text) : Text → Text
  | [] => []
  | x :: r => if pat.isPrefixOf (x :: r) then [] else x :: beforeFirst pat r

/-- the loop of `getAllCreatorsCompIDs`: every file whose name CONTAINS `_component_ids.json` (anywhere) is loaded under
    the part of the name before the first occurrence; a later file with the same prefix replaces the earlier one -/
def loadFiles (acc : CompTable) (files : ConfDir) : CompTable :=
  files.foldl (fun acc f => if isInfix compSuffix f.1 then dictSet acc (beforeFirst compSuffix f.1) f.2 else acc) acc

/-- the table a fresh process ends up with -/
def loadConf : Option ConfDir → CompTable
  | none => []
  | some files => loadFiles [] files

/-- `getAllCreatorsCompIDs` -/
def loadAllCompIds (dir : Option ConfDir) (st : CompIdState) : CompIdState :=
  if st.attempted then st else                       -- `if attemptedToParseCompIDs: return`
  match dir with
  | none => { st with attempted := true }            -- no directory: message on stderr, `return`
  | some files => { attempted := true, table := loadFiles st.table files }

/-- `getDisplayCompID` for a creator that is not PHYP, up to the point where the name is looked up: the table it is
    looked up in -/
def compIdLookup (dir : Option ConfDir) (st : CompIdState) : CompTable × CompIdState :=
  let st' := if st.table.isEmpty then loadAllCompIds dir st else st     -- `if not componentIDs: getAllCreatorsCompIDs()`
  (st'.table, st')

structure Caches where
  ud : Cache UdPlugin := []
  src : Cache SrcMod := []
  callout : Cache CalloutPlugin := []
  osrc : Cache SrcPlugin := []
  comp : CompIdState := {}

/-- one consultation of a table, tagged with the place in the code -/
inductive Lookup where
  | ud (n : Text)          -- `parseCustom`, module `udparsers.n.n`
  | src (n : Text)         -- `SRC.parse`, module `srcparsers.n.n`
  | callout (n : Text)     -- `getProcedureDesc`, module `calloutparsers.<n>callouts.<n>callouts`
  | osrc (n : Text)        -- `osrc.parseSRCToJson`, component module `srcparsers.n.n`
  | compId                 -- `getDisplayCompID` of a creator that is not PHYP
deriving DecidableEq, Repr

def stepLookup (env : ProcEnv) (c : Caches) : Lookup → Caches
  | .ud n => { c with ud := (udLookup env c.ud n).2 }
  | .src n => { c with src := (srcLookup env c.src n).2 }
  | .callout n => { c with callout := (calloutLookup env c.callout n).2 }
  | .osrc n => { c with osrc := (osrcLookup env c.osrc n).2 }
  | .compId => { c with comp := (compIdLookup env.confDir c.comp).2 }

/-- the tables after the ORDERED list of look-ups a decode performed -/
def stepCaches (env : ProcEnv) (c : Caches) (touched : List Lookup) : Caches := touched.foldl (stepLookup env) c

/-- the environment a decode in a FRESH process works with: the component-id table is what the loader makes of the
    configuration directory -/
def ProcEnv.fresh (env : ProcEnv) : Env :=
  { env.toEnv with T := { env.T with compIds := loadConf env.confDir } }

/-- names `srcDetails` asks for on behalf of creator `o` end in "00" (`o<xx>00`); the hostboot parser `bsrc` is reached
    both directly (creator `b`) and through the wrapper (creator `o`, BC reference codes): it is shown as `SRC.parse`
    sees it (the two views differ only for tables that are not `Coherent`) -/
def isComponentName (n : Text) : Bool := n.reverse.take 2 == [48, 48]

/-- the SRC parser behaviour `srcDetails` works with for module `n`, through the tables -/
def seenSrc (env : ProcEnv) (c : Caches) (n : Text) : SrcPlugin :=
  if n = s "osrc" then env.src.src n else             -- never asked for (creator `o` is routed to a component)
  if isComponentName n then
    match (srcLookup env c.src (s "osrc")).1 with
    | some .osrcWrapper =>
      (match (osrcLookup env c.osrc n).1 with
        | .module b => b
        | .none => .absent                             -- 'null'
        | .raised => .absent)                          -- caught around the call in `SRC.parse`: ''
    | some (.parser b) => b
    | none => .absent
  else
    match (srcLookup env c.src n).1 with
    | some (.parser b) => b
    | some .osrcWrapper => .absent
    | none => .absent

def seenCallout (env : ProcEnv) (c : Caches) (n : Text) : CalloutPlugin :=
  match (calloutLookup env c.callout n).1 with
  | some b => b
  | none => .absent

/-- the environment as seen through the tables: every module and the component-id table are what the look-up functions
    hand to the decoder (the message registry is module-level data loaded once, not a cache: it passes through unchanged).
    One table state serves the whole decode: a look-up never changes what a later look-up of the same module hands on
    (`C19.lookups_stable`). -/
def ProcEnv.through (env : ProcEnv) (c : Caches) : Env :=
  { T := { env.T with compIds := (compIdLookup env.confDir c.comp).1 },
    ud := fun n => (udLookup env c.ud n).1,
    src := { env.src with callout := seenCallout env c, src := seenSrc env c },
    allowPlugins := env.allowPlugins }

/-- one decode in a long-running process: the result is computed through the tables, and the tables are updated by the
    look-ups the decode performed (any list: the theorems hold for all of them; the state is returned also when the decode
    fails) -/
def decodeS (env : ProcEnv) (cfg : SelCfg) (c : Caches) (b : Bytes) (t : List Lookup) : Outcome × Caches :=
  (parsePEL (env.through c) cfg b, stepCaches env c t)

/-- observational coherence: every look-up through the tables hands the decoder what the same look-up hands it in a fresh
    process (empty tables).  E.g. an SRC module whose import raises is stored as `None`; a fresh import raises again; both
    mean "no details". -/
def Coherent (env : ProcEnv) (c : Caches) : Prop :=
  (∀ n, (udLookup env c.ud n).1 = (udLookup env [] n).1) ∧
  (∀ n, (srcLookup env c.src n).1 = (srcLookup env [] n).1) ∧
  (∀ n, (calloutLookup env c.callout n).1 = (calloutLookup env [] n).1) ∧
  (∀ n, (osrcLookup env c.osrc n).1 = (osrcLookup env [] n).1) ∧
  (compIdLookup env.confDir c.comp).1 = (compIdLookup env.confDir {}).1

/-- a history: the decodes performed before, each with the look-ups it made -/
def runHistory (env : ProcEnv) (cfg : SelCfg) : Caches → List (Bytes × List Lookup) → Caches
  | c, [] => c
  | c, (b, t) :: h => runHistory env cfg (decodeS env cfg c b t).2 h

/-! what an entry of a table may be, stated against the import system (used by `C19.cache_contents`) -/

/-- `userDataParsers`: `None` only for a module whose import raises an ImportError; a module object only with that module's
    behaviour — and never for a module whose execution raises something else -/
def UdEntryOk (env : ProcEnv) (n : Text) (v : Option UdPlugin) : Prop :=
  match v with
  | none => env.ud n = .absent
  | some b => env.ud n = b ∧ b ≠ .absent ∧ ∀ msg, b ≠ .importRaises msg

/-- `srcParsers`: `None` for ANY failure of the import -/
def SrcEntryOk (env : ProcEnv) (n : Text) (v : Option SrcMod) : Prop :=
  match v with
  | none => ∃ f, env.srcSiteImport n = .failed f
  | some m => env.srcSiteImport n = .module m

/-- `calloutParsers`: `None` for ANY failure of the import -/
def CalloutEntryOk (env : ProcEnv) (n : Text) (v : Option CalloutPlugin) : Prop :=
  match v with
  | none => ∃ f, env.calloutImport n = .failed f
  | some m => env.calloutImport n = .module m

/-- `osrcParsers`: `None` only for ModuleNotFoundError -/
def OsrcEntryOk (env : ProcEnv) (n : Text) (v : Option SrcPlugin) : Prop :=
  match v with
  | none => env.srcImport n = .failed .notFound
  | some b => env.srcImport n = .module b

/-- `componentIDs` is empty until the one attempt to load it, and what the loader makes of the directory afterwards -/
def CompStateOk (env : ProcEnv) (st : CompIdState) : Prop :=
  (st.attempted = false ∧ st.table = []) ∨ (st.attempted = true ∧ st.table = loadConf env.confDir)

/-! the repaired defect D9, for the record: the rules as they were before the fix -/

/-- pre-fix `parseCustom`: an ImportError that left the parser CALL was handled by the same `except ImportError` as a
    failed import — `userDataParsers[mod] = None`, over whatever the table held (`callImportError` = the module's
    `parseUDToJson` raised an ImportError this time) -/
def udLookupOld (env : ProcEnv) (c : Cache UdPlugin) (n : Text) (callImportError : Bool) : UdPlugin × Cache UdPlugin :=
  let r := udLookup env c n
  match r.1 with
  | .raises _ => if callImportError then (.absent, (n, none) :: r.2) else r
  | _ => r

/-- pre-fix `getProcedureDesc`: ANY exception, also one raised while describing a single procedure, ended in
    `calloutParsers[mod] = None` -/
def calloutLookupOld (env : ProcEnv) (c : Cache CalloutPlugin) (n : Text) (callRaised : Bool) :
    Option CalloutPlugin × Cache CalloutPlugin :=
  let r := calloutLookup env c n
  match r.1 with
  | some _ => if callRaised then (r.1, (n, none) :: r.2) else r
  | none => r

end Pel
