import PelModel.TransPeltool
import PelModel.TransDispatch
/-
  Vocabulary of the definitions that `harness/trans_dirmodes.py` regenerates from the SOURCE TEXT of the directory modes of
  peltool.py that only READ (lean/PelGen/GenDirModes.lean): `getFileList`, `printPELInHexFormat`, `extractAndSummarizePEL`,
  `listOption`, `extractAllPELsData`, `printPELCount`, `parseAndPrintPELFile`, `parsePelFromID`, `parsePelFromBmcID`,
  `parsePelFromPLID`, `parsePelFromSRCID`.  Nothing here is used by the model or by the property theorems;
  PelProps/TieC08.lean, TieC09.lean and TieC10.lean prove the MODEL modes of PelModel/Cli.lean (`getFileList`, `listMode`, `allMode`,
  `countMode`, `idMode`, `bmcIdMode`, `plidMode`, `srcMode`, `printOne`) equal to what the generated definitions, written in this
  vocabulary, say.

  The Python functions print, catch exceptions per file, mutate locals inside `try` and loops, `break`, `continue`, `return`
  from inside `try`/`with`, and leave through `sys.exit`.  The model is a pure function `Dir → CliOut`.  The bridge:

  1. `OutM σ α` — one function activation: state = the function's MUTABLE locals `σ` (the variables that are assigned inside a loop
     or a `try` and live outside it; they survive an exception, as in Python) + what the process has written so far (stdout as
     text, number of diagnostic `print(…, file=sys.stderr)` calls); result = a value, an exception that `except Exception`
     catches (class and text are not modelled: no handler of these functions looks at them except to print them), or `SystemExit`
     (NOT caught by `except Exception`).
  2. `Ctl ρ` — how a statement list ends: falls through, `continue`, `break`, `return r`.  `seqC` = "statement; rest",
     `forEach` = a `for` loop over a list in order, `tryExcept` = `try … except Exception [as e]: …`.
  3. name-mapped primitives with the model's result types: `parsePELSummary`, `parsePEL`, `generatePH`, `generateUH`
     (`pyParsePELSummary` … below: document | "" | raises, in terms of the model's `parseSummary` / `parsePEL` / `parseHeader` +
     `decodePH` / `decodeUH`), dictionary and string operations on the values those return.
  4. `DirCfg` — the `Config` object as these functions see it: the selection switches, the five id members kept apart (the model's
     `SelCfg.lookup` is their disjunction, TieC07.considerPEL), `hex`, `rev`, `extension`.

  Convention of the model that the vocabulary shares: the diagnostics counted are the ones the MODES write (their `except` handlers
  and `sys.exit(<message>)`); the line `generatePH`/`generateUH` print for a wrong section id is not counted (PelModel/Cli.lean,
  `summaryOf`).
-/
namespace Pel

/-! ### the `Config` object -/

structure DirCfg where
  sel : SelCfg := {}            -- the switches; the member `lookup` of this record is NOT read (see `selCfg`)
  ids : LookupIds := {}         -- plid, src, srcExcludeFile, bmcID, pelID: `None` or a string
  hex : Bool := false
  rev : Bool := false
  ext : Option Text := none     -- `config.extension`: `None` or a string
deriving Repr

/-- what `considerPEL(uh, config)` sees (TieC07.considerPEL): the switches, and "some id member is a non-empty string" -/
def DirCfg.selCfg (c : DirCfg) : SelCfg := { c.sel with lookup := c.ids.any }
/-- the options of the model's modes -/
def DirCfg.opts (c : DirCfg) : CliOpts := { cfg := c.selCfg, hex := c.hex, rev := c.rev, ext := c.ext }

/-! ### the output monad -/

structure PySt (σ : Type) where
  loc : σ            -- mutable locals of the running function
  out : Text         -- stdout so far
  errs : Nat         -- diagnostics on stderr so far

inductive PyRes (α : Type) where
  | ok (a : α)
  | exc                      -- an exception (a subclass of `Exception`)
  | exit (status : Nat)      -- `SystemExit`
deriving Repr

def OutM (σ α : Type) := PySt σ → PyRes α × PySt σ

namespace OutM
variable {σ α β : Type}

def pure' (a : α) : OutM σ α := fun st => (.ok a, st)
def bind' (x : OutM σ α) (f : α → OutM σ β) : OutM σ β := fun st =>
  match x st with
  | (.ok a, st') => f a st'
  | (.exc, st') => (.exc, st')
  | (.exit n, st') => (.exit n, st')
instance : Monad (OutM σ) where
  pure := pure'
  bind := bind'

/-- `print(t, end=e)` -/
def printEnd (t e : Text) : OutM σ Unit := fun st => (.ok (), { st with out := st.out ++ t ++ e })
/-- `print(t)` -/
def print (t : Text) : OutM σ Unit := printEnd t nl
/-- `print(<anything>, file=sys.stderr)`: one diagnostic -/
def diag : OutM σ Unit := fun st => (.ok (), { st with errs := st.errs + 1 })
/-- `raise` of anything `except Exception` catches (also: NameError for a name that is bound nowhere, KeyError, TypeError, …) -/
def raise : OutM σ α := fun st => (.exc, st)
/-- `sys.exit(<int>)` -/
def sysExit (status : Nat) : OutM σ α := fun st => (.exit status, st)
/-- `sys.exit(<str>)`: the message goes to stderr, status 1 -/
def sysExitMsg : OutM σ α := fun st => (.exit 1, { st with errs := st.errs + 1 })
/-- read / write the mutable locals -/
def getL : OutM σ σ := fun st => (.ok st.loc, st)
def modL (f : σ → σ) : OutM σ Unit := fun st => (.ok (), { st with loc := f st.loc })

/-- `try: body  except Exception [as e]: handler` — `SystemExit` passes; what the body did before it raised stays done -/
def tryExcept (body handler : OutM σ α) : OutM σ α := fun st =>
  match body st with
  | (.exc, st') => handler st'
  | r => r

end OutM

/-- how a statement list ends -/
inductive Ctl (ρ : Type) where
  | next            -- reached its end
  | cont            -- `continue`
  | brk             -- `break`
  | ret (r : ρ)     -- `return r`
deriving Repr

/-- `stmt; rest` where `stmt` is a compound statement (`for`, `try`) -/
def seqC {σ ρ} (stmt rest : OutM σ (Ctl ρ)) : OutM σ (Ctl ρ) := fun st =>
  match stmt st with
  | (.ok .next, st') => rest st'
  | r => r

/-- `for x in l: body` -/
def forEach {σ α ρ} (l : List α) (body : α → OutM σ (Ctl ρ)) : OutM σ (Ctl ρ) :=
  match l with
  | [] => pure .next
  | x :: xs => fun st =>
    match body x st with
    | (.ok .next, st') => forEach xs body st'
    | (.ok .cont, st') => forEach xs body st'
    | (.ok .brk, st') => (.ok .next, st')
    | r => r

/-- a call of a function of the same module whose body is `body` (translated in place): fresh locals, shared process output.  Every
    translated body ends in `return` on all paths; any other ending cannot occur and is mapped to an exception. -/
def OutM.call {σ σ' ρ} (init : σ') (body : OutM σ' (Ctl ρ)) : OutM σ ρ := fun st =>
  match body { loc := init, out := st.out, errs := st.errs } with
  | (.ok (.ret r), st') => (.ok r, { st with out := st'.out, errs := st'.errs })
  | (.ok _, st') => (.exc, { st with out := st'.out, errs := st'.errs })
  | (.exc, st') => (.exc, { st with out := st'.out, errs := st'.errs })
  | (.exit n, st') => (.exit n, { st with out := st'.out, errs := st'.errs })

/-- a whole mode, started by `main()` with nothing written yet: what it wrote and the exit status.  (An uncaught exception would be
    a traceback and status 1; no model mode has such a path, so a generated function that had one could not be proved equal.) -/
def OutM.run {σ} (init : σ) (body : OutM σ (Ctl Unit)) : CliOut :=
  match body { loc := init, out := [], errs := 0 } with
  | (.ok _, st) => { stdout := st.out, stderrLines := st.errs, exit := 0 }
  | (.exit n, st) => { stdout := st.out, stderrLines := st.errs, exit := n }
  | (.exc, st) => { stdout := st.out, stderrLines := st.errs + 1, exit := 1 }

/-- a function that writes nothing and only computes (`getFileList`): its return value -/
def OutM.value {σ ρ} [Inhabited ρ] (init : σ) (body : OutM σ (Ctl ρ)) : ρ :=
  match body { loc := init, out := [], errs := 0 } with
  | (.ok (.ret r), _) => r
  | _ => default

instance : Inhabited FileEntry := ⟨{ name := [], data := [] }⟩

/-! ### primitives (name maps of the translator) -/

variable {σ : Type}

/-- `list.sort(reverse=r)` on the names of a directory listing (distinct strings): ascending by code point, reversed iff `r`.
    (For equal elements Python's reverse sort keeps the original order instead; names of one directory are distinct.) -/
def pySortNames (rev : Bool) (l : List FileEntry) : List FileEntry := if rev then (sortByName l).reverse else sortByName l

/-- a `None`-or-`str` value used where a `str` is needed (`x.upper()`, `len(x)`): `None` raises -/
def pyOptStr (o : Option Text) : OutM σ Text := match o with
  | some t => pure t
  | none => OutM.raise

/-- `processId(x)`: the processed id, or `sys.exit(<message>)` (TieC10.processId) -/
def pyProcessId (x : Text) : OutM σ Text := match processId x with
  | some v => pure v
  | none => OutM.sysExitMsg

/-- `parsePELSummary(stream, config)` on a fresh stream over `b`: `(eid, summary)`, `("", "")`, or it raises -/
def pyParsePELSummary (env : Env) (c : DirCfg) (b : Bytes) : OutM σ (Text × J) :=
  match parseSummary env c.selCfg b with
  | .summary sm _ _ => pure (sm.eid, .obj sm.fields)
  | .filtered => pure ([], .str [])
  | .badHeader => pure ([], .str [])
  | .error _ => OutM.raise

/-- `parsePEL(stream, config, exit_on_error)` on a fresh stream over `b`: `(eid, prettyPrint(json.dumps(out, indent=4)))` with the
    default width `w` of `prettyPrint`, `("", "")`, `sys.exit(1)`, or it raises -/
def pyParsePEL (env : Env) (c : DirCfg) (w : Nat) (b : Bytes) (exitOnError : Bool) : OutM σ (Text × Text) :=
  match parsePEL env c.selCfg b with
  | .doc eid j => pure (eid, prettyPrint w (dumps j))
  | .filtered => pure ([], [])
  | .badHeader => if exitOnError then OutM.sysExit 1 else pure ([], [])
  | .error _ => OutM.raise

/-- what `generatePH(stream, out)` does to the stream -/
def generatePHRd (env : Env) : Rd (Option PHInfo) := do
  let h ← parseHeader
  if h.id ≠ sidPH then pure none else do
  let (_, ph) ← decodePH env.T h
  pure (some ph)

/-- what `generateUH(stream, creatorID, out)` does to the stream -/
def generateUHRd (env : Env) (creator : Text) : Rd (Option UHInfo) := do
  let h ← parseHeader
  if h.id ≠ sidUH then pure none else do
  let (_, uh) ← decodeUH env.T h creator
  pure (some uh)

/-- a reader step on a stream object whose unread bytes are `b`: the value and the bytes left, or the reader's exception -/
def pyRd {α} (r : Rd α) (b : Bytes) : OutM σ (α × Bytes) :=
  match r b with
  | .ok x => pure x
  | .error _ => OutM.raise

/-- `ret, ph = generatePH(stream, out)`: `(False, None)` = `none`, `(True, ph)` = `some ph` -/
def pyGeneratePH (env : Env) (b : Bytes) : OutM σ (Option PHInfo × Bytes) := pyRd (generatePHRd env) b
/-- `ret, uh = generateUH(stream, creatorID, out)` -/
def pyGenerateUH (env : Env) (creator : Text) (b : Bytes) : OutM σ (Option UHInfo × Bytes) := pyRd (generateUHRd env creator) b

/-- `x.<attribute>` where `x` may be `None` (AttributeError) -/
def pyDeref {α} (o : Option α) : OutM σ α := match o with
  | some a => pure a
  | none => OutM.raise

/-- `d[k]` with a string key on a decoded JSON value (`jItem` of PelModel/Pel.lean): KeyError for an absent key, TypeError for
    `""[k]` -/
def pyGetItem (j : J) (k : Text) : OutM σ J := match jItem k j with
  | some v => pure v
  | none => OutM.raise

/-- a value used where only a `str` does not raise (`x in <str>`, `int(x, 16)`) -/
def pyAsStr (j : J) : OutM σ Text := match j with
  | .str t => pure t
  | _ => OutM.raise

/-- `needle in x` for a string `needle` (`jIn` of PelModel/Pel.lean): key of a dictionary, substring of a string, element of a
    list; TypeError otherwise -/
def pyStrIn (needle : Text) (x : J) : OutM σ Bool := match jIn needle x with
  | some b => pure b
  | none => OutM.raise

/-- `int(t, 16)` on the texts `[0x|0X]<hex digits>+` (exact there); any other text is taken as a ValueError.  (Python also accepts
    surrounding blanks, a sign and single underscores; the summary's `PLID` member is always `0x%08X`.) -/
def pyIntHex (t : Text) : OutM σ Nat :=
  let d := if (s "0x").isPrefixOf t || (s "0X").isPrefixOf t then t.drop 2 else t
  if d ≠ [] ∧ d.all isHexDigit then pure (parseHexText d) else OutM.raise

/-! ### `parsePELSummary`: the stream is one of the mutable locals (it is read inside a loop) -/

/-- a reader step on the stream object kept in the mutable locals (`get` / `set`: where): the value, the stream moves on; the
    reader's exception is raised -/
def pyRdL {α} (r : Rd α) (get : σ → Bytes) (set : σ → Bytes → σ) : OutM σ α := fun st =>
  match r (get st.loc) with
  | .ok (a, b) => (.ok a, { st with loc := set st.loc b })
  | .error _ => (.exc, st)

/-- `generatePH(stream, out)` with what it stores in `out` (under `getSectionName(<the id>)`): `none` = `(False, None)` -/
def generatePHRdJ (env : Env) : Rd (Option (J × PHInfo)) := do
  let h ← parseHeader
  if h.id ≠ sidPH then pure none else do
  let r ← decodePH env.T h
  pure (some r)

/-- `generateUH(stream, creatorID, out)` with what it stores in `out` -/
def generateUHRdJ (env : Env) (creator : Text) : Rd (Option (J × UHInfo)) := do
  let h ← parseHeader
  if h.id ≠ sidUH then pure none else do
  let r ← decodeUH env.T h creator
  pure (some r)

/-- a function that only computes and reads its stream (`parsePELSummary`): what it returns or raises, and what it wrote (nothing) -/
def OutM.result {σ ρ} (init : σ) (body : OutM σ (Ctl ρ)) : PyRes ρ × Text × Nat :=
  match body { loc := init, out := [], errs := 0 } with
  | (.ok (.ret r), st) => (.ok r, st.out, st.errs)
  | (.ok _, st) => (.exc, st.out, st.errs)
  | (.exc, st) => (.exc, st.out, st.errs)
  | (.exit n, st) => (.exit n, st.out, st.errs)

/-- what `parsePELSummary` hands back for the model's outcome: `(eid, summary)`, `("", "")`, or the exception -/
def summaryResult : SummaryOutcome → PyRes (Text × J)
  | .summary sm _ _ => .ok (sm.eid, .obj sm.fields)
  | .filtered => .ok ([], .str [])
  | .badHeader => .ok ([], .str [])
  | .error _ => .exc

end Pel
