import PelModel.Cli
import PelModel.Clean
import PelModel.Main
/-
  Vocabulary of the definitions that `harness/trans_effects.py` regenerates from the SOURCE TEXT of the four functions of
  pel/peltool/peltool.py that CHANGE files or whose result decides a removal:
      deletePELFromPELId, deleteAllPELs, parseAndPrintPELFile, parseAndWriteOutput      (lean/PelGen/GenEffects.lean).
  Nothing here is used by the model or by the property theorems; PelProps/TieC11.lean and TieC12.lean prove the MODEL
  (`deleteMode`, `deleteAllMode`, one step of `jsonMode`, `printOne` + `printedOf`, and the event traces `cleanJsonTrace` /
  `cleanFileTrace` of PelModel/Clean.lean) equal to what the generated definitions, written in this vocabulary, say.

  The effect monad `Eff.M`: a Python function body is a computation that
    * performs I/O STEPS in source order.  The faultable steps are exactly the events of PelModel/Clean.lean
      (`Ev.openOut`, `write`, `closeOut`, `print`, `flushStdout`, `removeIn`); step number `k` (counted from the start of the
      run, one per attempted step) fails iff the fault plan says `fault k`, exactly as `runSteps` counts.  A failing step
      raises (`Exc.osError`), is recorded with `false`, and has no effect; a succeeding step is recorded with `true` and has
      its effect on the log (`St`): text on stdout, a file created / extended, a path removed.
    * may raise and catch exceptions (`tryExcept`), and leaves blocks the way Python does: a `with open(…, "w")` closes the
      file when its body ends normally (a `closeOut` step of the trace) AND when an exception propagates out of the body (the
      close is then recorded in `St.unwind`, not in `St.trace`: PelModel/Clean.lean says "a step that faults raises: the
      procedure performs no further step", and the clean-up close is not a step of the procedure — PelProps/TieC12.lean
      proves that nothing but such `closeOut` records ever gets there).
    * writes diagnostics (`print(…, file=sys.stderr)`): not a faultable step (Clean.lean has no such event), a line in `St.stderr`.
  Reading the input (`open(…, 'rb')`, `fd.read()`, the implicit close) is not an event either: `Sys.read` answers with the
  content or the file cannot be opened (an `OSError`).
-/
namespace Pel.Eff

/-- a raised exception, as far as the four functions can tell exceptions apart -/
inductive Exc where
  | osError (ev : Ev)     -- a faultable I/O step failed (an `OSError`)
  | noFile                -- `open(path, 'rb')` failed (an `OSError`)
  | decode (e : Err)      -- the decoder raised (a subclass of `Exception`)
  | exit (code : Nat)     -- `sys.exit(<int>)`: `SystemExit`, NOT a subclass of `Exception`
  | exitMsg               -- `sys.exit(<str>)`: message on stderr, status 1
deriving Repr, DecidableEq

/-- `except Exception` -/
def Exc.isException : Exc → Bool
  | .exit _ => false
  | .exitMsg => false
  | _ => true

/-- what the functions can ask of the world around them (parameters of every generated definition) -/
structure Sys where
  env : Env                      -- the decoders' environment (tables, parser modules, `allow_plugins`)
  isFile : Text → Bool           -- `os.path.isfile`
  read : Text → Option Bytes     -- `open(p, 'rb').read()`: the content, or the file cannot be opened
  walk : Text → Dir              -- `os.walk(p)`, first item: the non-directory entries of directory `p`, in that order
  excStr : Exc → Text            -- `str(e)` of a caught exception (not modelled: diagnostics are counted, see `St.stderr`)

/-- the log of one run -/
structure St where
  k : Nat := 0                                  -- number of faultable steps attempted so far (= index of the next one)
  trace : List (Ev × Bool) := []                -- the steps of the procedure in order, with whether each succeeded
  unwind : List (Ev × Bool) := []               -- `close()` calls made by a `with` while an exception propagates
  stdout : Text := []
  stderr : List Text := []                      -- diagnostic lines
  created : List (Text × Text) := []            -- files opened for writing (path, what was written so far), most recent first
  removed : List (Text × Option FileEntry) := []  -- `os.remove(path)` calls that succeeded, in order; with the directory entry
                                                  -- the path names when the call is `os.remove(os.path.join(root, file))` of a walk
deriving Repr

/-- a computation: fault plan → log so far → outcome × log -/
@[reducible] def M (α : Type) := (Nat → Bool) → St → Except Exc α × St

def M.pure {α} (a : α) : M α := fun _ st => (.ok a, st)
def M.bind {α β} (x : M α) (f : α → M β) : M β := fun fault st =>
  match x fault st with
  | (.ok a, st') => f a fault st'
  | (.error e, st') => (.error e, st')
instance : Monad M where
  pure := M.pure
  bind := M.bind

/-- `raise` -/
def raise {α} (e : Exc) : M α := fun _ st => (.error e, st)

/-- the log after step `ev` was attempted and succeeded / failed (before its effect) -/
def St.ok (st : St) (ev : Ev) : St := { st with k := st.k + 1, trace := st.trace ++ [(ev, true)] }
def St.fail (st : St) (ev : Ev) : St := { st with k := st.k + 1, trace := st.trace ++ [(ev, false)] }

/-- one faultable step -/
def step (ev : Ev) (effect : St → St) : M Unit := fun fault st =>
  if fault st.k then (.error (.osError ev), st.fail ev)
  else (.ok (), effect (st.ok ev))

/-- run from the empty log -/
def M.run {α} (m : M α) (fault : Nat → Bool) : Except Exc α × St := m fault {}

/-! ### control flow -/

/-- how a delimited block (`with` body, `try` statement, function body) ends: by reaching its end (with the values of the
    locals it rebinds), or with `return r` -/
inductive Flow (ρ σ : Type) where
  | next (s : σ)
  | ret (r : ρ)
deriving Repr

/-- how one pass through a loop body ends: end of body / `continue`, or `break` (with the values of the loop-carried locals) -/
inductive Loop (σ : Type) where
  | next (s : σ)
  | brk (s : σ)
deriving Repr

/-- a delimited block followed by the rest of the statement list -/
def thenF {ρ σ τ} (b : M (Flow ρ σ)) (k : σ → M (Flow ρ τ)) : M (Flow ρ τ) :=
  b >>= fun c => match c with
    | .next s => k s
    | .ret r => pure (.ret r)

/-- a function body; `dflt` = what falling off the end returns (`None`) -/
def runFn {ρ} (b : M (Flow ρ Unit)) (dflt : ρ) : M ρ :=
  b >>= fun c => match c with
    | .next _ => pure dflt
    | .ret r => pure r

/-- `for x in xs: body` with loop-carried locals `s` -/
def forEachS {α σ} : List α → σ → (α → σ → M (Loop σ)) → M σ
  | [], s, _ => pure s
  | x :: xs, s, body => fun fault st =>
    match body x s fault st with
    | (.ok (.next s'), st') => forEachS xs s' body fault st'
    | (.ok (.brk s'), st') => (.ok s', st')
    | (.error e, st') => (.error e, st')

/-- `try: body except <class> [as e]: handler` -/
def tryExcept {α} (body : M α) (catches : Exc → Bool) (handler : Exc → M α) : M α := fun fault st =>
  match body fault st with
  | (.ok a, st') => (.ok a, st')
  | (.error e, st') => if catches e then handler e fault st' else (.error e, st')

/-! ### files -/

/-- `with open(path, 'rb') as fd: body` — `fd` is identified with the content (the only method used is `read()`) -/
def withOpenR {α} (y : Sys) (path : Text) (body : Bytes → M α) : M α := fun fault st =>
  match y.read path with
  | none => (.error .noFile, st)
  | some data => body data fault st

/-- `fd.read()` -/
def fdRead (fd : Bytes) : M Bytes := pure fd

/-- `with open(path, "w") as out: body` — open (step), body, close (step).  When an exception propagates out of the body the file is
    closed all the same; that close may fail as well (its `OSError` then replaces the exception) -/
def withOpenW {α} (path : Text) (body : M α) : M α := fun fault st =>
  match step .openOut (fun s => { s with created := (path, []) :: s.created }) fault st with
  | (.error e, st1) => (.error e, st1)
  | (.ok _, st1) =>
    match body fault st1 with
    | (.ok a, st2) =>
      (match step .closeOut id fault st2 with
       | (.ok _, st3) => (.ok a, st3)
       | (.error e, st3) => (.error e, st3))
    | (.error e, st2) =>
      (.error (if fault st2.k then .osError .closeOut else e),
       { st2 with k := st2.k + 1, unwind := st2.unwind ++ [(Ev.closeOut, !fault st2.k)] })

/-- the file opened last receives `t` -/
def appendCur (t : Text) (s : St) : St :=
  match s.created with
  | [] => s
  | (p, c) :: r => { s with created := (p, c ++ t) :: r }

/-- `out.writelines(<str>)`: a `str` is iterated character by character, one `write` per character -/
def writelinesStr : Text → M Unit
  | [] => pure ()
  | c :: cs => fun fault st =>
    match step .write (appendCur [c]) fault st with
    | (.ok _, st') => writelinesStr cs fault st'
    | (.error e, st') => (.error e, st')

/-- `os.remove(path)` -/
def osRemove (path : Text) (entry : Option FileEntry) : M Unit :=
  step .removeIn (fun s => { s with removed := s.removed ++ [(path, entry)] })

/-! ### standard streams -/

/-- `print(t)` -/
def printOut (t : Text) : M Unit := step .print (fun s => { s with stdout := s.stdout ++ t ++ nl })
/-- `printPELInHexFormat(data)`: the hex display of the file, one print event -/
def printHex (data : Bytes) : M Unit := step .print (fun s => { s with stdout := s.stdout ++ linesOut (pelHexDisplay data) })
/-- `sys.stdout.flush()` -/
def flushStdout : M Unit := step .flushStdout id
/-- `print(t, file=sys.stderr)` -/
def diag (t : Text) : M Unit := fun _ st => (.ok (), { st with stderr := st.stderr ++ [t] })

/-! ### callees -/

/-- `parsePEL(DataStream(data, byte_order='big', is_signed=False), config, exit_on_error)` as Python sees it: the pair
    `(eid, json_string)`; `("", "")` when the PEL is filtered out or (without `exit_on_error`) does not begin with the two headers;
    `sys.exit(1)` in that case with `exit_on_error`; an exception when decoding raises -/
def pyParsePEL (y : Sys) (cfg : SelCfg) (data : Bytes) (exitOnError : Bool) : M (Text × Text) :=
  match parsePEL y.env cfg data with
  | .doc eid j => pure (eid, prettyPrint 34 (dumps j))
  | .filtered => pure ([], [])
  | .badHeader => if exitOnError then raise (.exit 1) else pure ([], [])
  | .error e => raise (.decode e)

/-- `processId(x)` (PelProps/TieC10.lean ties `Pel.processId` to its source): the id, or `sys.exit(<message>)` -/
def pyProcessId (x : Text) : M Text :=
  match processId x with
  | some v => pure v
  | none => raise .exitMsg

/-- `os.path.basename(p)`: what follows the last `/` -/
def basename (p : Text) : Text := (p.reverse.takeWhile (· != 47)).reverse

/-! ### reading a finished run -/

/-- what the process shows for an outcome: stdout, diagnostics (a `sys.exit(<str>)` message or a traceback is one more), status -/
def cliOut {α} (r : Except Exc α × St) : CliOut :=
  { stdout := r.2.stdout,
    stderrLines := r.2.stderr.length + (match r.1 with
      | .ok _ => 0
      | .error (.exit _) => 0
      | .error _ => 1),
    exit := match r.1 with
      | .ok _ => 0
      | .error (.exit n) => n
      | .error _ => 1 }

/-- the directory after the run: every successfully removed entry is gone -/
def dirAfter (d : Dir) (st : St) : Dir := (st.removed.filterMap (·.2)).foldl List.erase d

end Pel.Eff
