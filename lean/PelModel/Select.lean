import PelModel.Basic
/-
  Model of `considerPEL`, `considerPELIfSeverityMatches` (peltool.py) and
  `UserHeader.isHidden / isServiceable` (user_header.py), and the declarative
  selection rule of property C07.
-/
namespace Pel

structure SelCfg where
  every : Bool := false
  term : Bool := false        -- critSysTerm
  serviceable : Bool := false
  nonServiceable : Bool := false
  hidden : Bool := false
  only : Bool := false
  severities : List Nat := []  -- group digits as given by -S (order and duplicates preserved)
  lookup : Bool := false       -- any of plid / src / bmcID / pelID is set
deriving Repr, DecidableEq

/-- constants of the live code; regenerated into `PelGen.Live` and pinned against these -/
def hiddenFlag : Nat := 0x4000
def reportFlag : Nat := 0x2000
def serviceActionFlag : Nat := 0x8000
def infoSeverity : Nat := 0x00
def critSysTermSeverity : Nat := 0x51

/-! #### the code, as written -/

def isHidden (af : Nat) : Bool := af &&& hiddenFlag != 0

def isServiceable (sev af : Nat) : Bool :=
  if sev != infoSeverity then
    if af &&& reportFlag != 0 then
      if !isHidden af then true else false
    else false
  else if af &&& serviceActionFlag != 0 then true
  else false

def sevMatches (sev : Nat) : List Nat → Bool
  | [] => false
  | g :: gs => if sev >>> 4 == g then true else sevMatches sev gs

/-- `considerPEL` with its chain of early returns -/
def considerPEL (sev af : Nat) (c : SelCfg) : Bool :=
  if c.every then true
  else if c.term && sev == critSysTermSeverity then true
  else if c.serviceable && isServiceable sev af then
    if c.only && !c.severities.isEmpty && !sevMatches sev c.severities then false else true
  else if c.nonServiceable && !isServiceable sev af then
    if c.only && !c.severities.isEmpty && !sevMatches sev c.severities then false else true
  else if c.hidden && isHidden af then
    if c.only && !c.severities.isEmpty && !sevMatches sev c.severities then false else true
  else if !c.severities.isEmpty && sevMatches sev c.severities then
    if c.only && (c.serviceable || c.nonServiceable || c.hidden) then false else true
  else if c.only || isHidden af || !isServiceable sev af then
    if c.lookup then true else false
  else true

/-! #### the rule of the property, written from its statement -/

def specHidden (af : Nat) : Bool := af &&& 0x4000 != 0

def specServiceable (sev af : Nat) : Bool :=
  if sev != 0 then (af &&& 0x2000 != 0) && !specHidden af
  else af &&& 0x8000 != 0

/-- group membership: high hex digit of the severity byte -/
def specInGroup (sev : Nat) (groups : List Nat) : Bool := groups.contains (sev / 16)

def specInChosenClass (sev af : Nat) (c : SelCfg) : Bool :=
  (c.serviceable && specServiceable sev af) ||
  (c.nonServiceable && !specServiceable sev af) ||
  (c.hidden && specHidden af)

def anyClass (c : SelCfg) : Bool := c.serviceable || c.nonServiceable || c.hidden

/-- the documented selection rule (no look-up flag) -/
def selected (sev af : Nat) (c : SelCfg) : Bool :=
  if c.every then true
  else if !c.only then
    specServiceable sev af   -- default set: serviceable (which already implies customer-viewable
                              -- for non-informational PELs) … see `default_set` below
      && !specHidden af
    || (c.term && sev == 0x51)
    || specInChosenClass sev af c
    || specInGroup sev c.severities
  else
    (c.term && sev == 0x51) ||
    ((anyClass c || !c.severities.isEmpty)
      && (!anyClass c || specInChosenClass sev af c)
      && (c.severities.isEmpty || specInGroup sev c.severities))

end Pel
