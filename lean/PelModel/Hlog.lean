import PelModel.HexDump
/-
  Model of modules/io_drawer/hlog.py `parse_hlog_data` over an abstract field table
  (name, size); the header-file regex is covered by correspondence.
-/
namespace Pel

abbrev HlogField := Text × Nat

def hlogFieldLine (name : Text) (size v : Nat) : Text := name ++ s ": 0x" ++ fmtHex (size * 2) v

/-- the field loop with its `break` -/
def hlogFields : List HlogField → Bytes → List Text
  | [], _ => []
  | (name, size) :: fs, b =>
    if size ≤ b.length then
      let v := fromBE (b.take size)
      (if v ≠ 0 then [hlogFieldLine name size v] else []) ++ hlogFields fs (b.drop size)
    else []

/-- `parse_hlog_data`; field sizes must be positive (the header regex only admits 1 and 2) -/
def parseHlog (fields : List HlogField) (b : Bytes) : List Text :=
  [s "Hex Dump", s "--------"] ++ hexdump16 b ++ [[]] ++
  [s "Non-Zero Field Values", s "---------------------"] ++ hlogFields fields b

/-! ### declarative reading (C16): offsets are prefix sums, listing stops at the first field that does not fit -/

def fieldOffsets : Nat → List HlogField → List (Nat × HlogField)
  | _, [] => []
  | o, f :: fs => (o, f) :: fieldOffsets (o + f.2) fs

def specHlogFields (fields : List HlogField) (b : Bytes) : List Text :=
  ((fieldOffsets 0 fields).takeWhile (fun (o, f) => o + f.2 ≤ b.length)).filterMap fun (o, f) =>
    let v := fromBE ((b.drop o).take f.2)
    if v ≠ 0 then some (f.1 ++ s ": 0x" ++ hexFix (2 * f.2) v) else none

end Pel
