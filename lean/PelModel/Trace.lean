import PelModel.HexDump
import PelModel.PyFmt
import PelModel.Ilog
/-
  Model of modules/io_drawer/trace.py: buffer header, entry reader, entry loop, trace-string
  choice, formatting.  The string file is abstract: a list of (hash, format, location).
-/
namespace Pel

structure TraceString where
  hash : Nat
  fmt : Text
  location : Text
deriving Repr, DecidableEq

structure TraceHeader where
  ver : Nat
  comp : Bytes       -- the 12 raw bytes
  size : Nat
  timesWrap : Nat
  nextFree : Nat
deriving Repr, DecidableEq

structure TraceEntry where
  tbh : Nat
  tbl : Nat
  length : Nat
  tag : Nat
  hash : Nat
  line : Nat
  data : Bytes
deriving Repr, DecidableEq

def typeFieldBin : Nat := 0x4644
def maxDataLen : Nat := 1024
def maxArgs : Nat := 5
def traceHdrSize : Nat := 32
def traceFixedSize : Nat := 16

/-- `TraceBufferHeader.read` (needs 32 bytes) -/
def readTraceHeader (b : Bytes) : Option TraceHeader :=
  if b.length < traceHdrSize then none else
  some { ver := b.getD 0 0, comp := (b.drop 4).take 12, size := fromBE ((b.drop 20).take 4),
         timesWrap := fromBE ((b.drop 24).take 4), nextFree := fromBE ((b.drop 28).take 4) }

/-- `str(comp, 'ascii', 'ignore').rstrip('\0').rstrip(' ')` -/
def compName (c : Bytes) : Text := rstripChar 32 (rstripChar 0 (c.filter (· < 128)))

def padOf (len : Nat) : Nat := if len % 4 = 0 then 0 else 4 - len % 4

/-- `TraceEntry.read` on the remaining bytes: the entry and the number of bytes consumed -/
def readTraceEntry (r : Bytes) : Option (TraceEntry × Nat) :=
  if r.length < traceFixedSize then none else
  let len := fromBE ((r.drop 4).take 2)
  if len > maxDataLen then none else
  if r.length < 16 + len then none else
  let pad := padOf len
  if r.length < 16 + len + pad then none else
  if r.length < 16 + len + pad + 4 then none else
  let total := 16 + len + pad + 4
  if fromBE ((r.drop (16 + len + pad)).take 4) ≠ total then none else
  some ({ tbh := fromBE (r.take 2), tbl := fromBE ((r.drop 2).take 2), length := len,
          tag := fromBE ((r.drop 6).take 2), hash := fromBE ((r.drop 8).take 4),
          line := fromBE ((r.drop 12).take 4), data := (r.drop 16).take len }, total)

theorem readTraceEntry_consumed (r : Bytes) (e : TraceEntry) (n : Nat) (h : readTraceEntry r = some (e, n)) :
    20 ≤ n ∧ n ≤ r.length := by
  unfold readTraceEntry at h
  simp only at h
  split at h; · simp at h
  split at h; · simp at h
  split at h; · simp at h
  split at h; · simp at h
  split at h; · simp at h
  split at h; · simp at h
  simp only [Option.some.injEq, Prod.mk.injEq] at h
  omega

/-- `while stream.index < header.size: read an entry or break`; `idx` = absolute stream index -/
def traceLoop (size : Nat) (idx : Nat) (r : Bytes) : List TraceEntry :=
  if idx < size then
    match h : readTraceEntry r with
    | some (e, n) => e :: traceLoop size (idx + n) (r.drop n)
    | none => []
  else []
termination_by r.length
decreasing_by
  have := readTraceEntry_consumed r e n h
  simp only [List.length_drop]; omega

def isBinaryTrace (e : TraceEntry) : Bool := e.tag == typeFieldBin

/-- `get_args`: up to five big-endian words -/
def wordsOf : Nat → Bytes → List Nat
  | 0, _ => []
  | k+1, d => if 4 ≤ d.length then fromBE (d.take 4) :: wordsOf k (d.drop 4) else []

def traceArgs (e : TraceEntry) : List Nat := if isBinaryTrace e then [] else wordsOf maxArgs e.data

def isPartialMatch (t : TraceString) (h : Nat) : Bool := t.hash != h && t.hash % 100000 == h % 100000

/-- `get_trace_string`: first exact match, else the last partial match -/
def getTraceStringGo : List TraceString → Nat → Option TraceString → Option TraceString
  | [], _, partial_ => partial_
  | t :: ts, h, partial_ =>
    if t.hash == h then some t
    else if isPartialMatch t h then getTraceStringGo ts h (some t)
    else getTraceStringGo ts h partial_

def getTraceString (ss : List TraceString) (h : Nat) : Option TraceString := getTraceStringGo ss h none

def traceIndent : Text := spaces 20

/-- `_format_trace_entry`; `none` = format outside the modelled `%` subset -/
def formatTraceEntry (ss : List TraceString) (e : TraceEntry) : Option (List Text) :=
  let ts := getTraceString ss e.hash
  let msgp : Option (Text × Bool) := match ts with
    | some t => (pyFmtOrRaw t.fmt (traceArgs e)).map (fun m => (m, isPartialMatch t e.hash))
    | none => some (s "No trace string found with hash value " ++ natDec e.hash, false)
  msgp.map fun (msg, part) =>
    [formatTimestamp e.tbh ++ [32] ++ fmtHex 4 e.tbl ++ [32] ++ fmtDecSp 5 e.line ++ [32] ++ msg] ++
    (match ts with
      | some t => if part then [traceIndent ++ s "Warning: Partial match with trace string from " ++ t.location] else []
      | none => []) ++
    (if isBinaryTrace e || ts.isNone || part then (hexdump16 e.data).map (traceIndent ++ ·) else [])

def traceHeading : List Text := [s "HH:MM:SS Seq  Line  Entry Data", s "-------- ---- ----- ----------"]

/-- `parse_trace_data` -/
def parseTrace (ss : List TraceString) (b : Bytes) : Option (List Text) :=
  match readTraceHeader b with
  | none => some ([s "Unable to parse trace data."] ++ hexdump16 b)
  | some h =>
    let entries := traceLoop h.size traceHdrSize (b.drop traceHdrSize)
    (optAll (entries.map (formatTraceEntry ss))).map fun ls =>
      [s "Component: " ++ compName h.comp, s "Version: " ++ natDec h.ver, s "Size: " ++ natDec h.size,
       s "Times Wrapped: " ++ natDec h.timesWrap, []] ++ traceHeading ++ ls.flatten

/-! ### declarative reading (C15) -/

structure TraceHeaderRaw where
  ver : Nat
  hdrLen : Nat
  timeFlg : Nat
  endianFlg : Nat
  comp : Bytes        -- 12 bytes
  reserved : Bytes    -- 4 bytes
  size : Nat
  timesWrap : Nat
  nextFree : Nat
deriving Repr, DecidableEq

def TraceHeaderRaw.WF (h : TraceHeaderRaw) : Prop :=
  h.ver < 256 ∧ h.hdrLen < 256 ∧ h.timeFlg < 256 ∧ h.endianFlg < 256 ∧ h.comp.length = 12 ∧
  (∀ x ∈ h.comp, x < 256) ∧ h.reserved.length = 4 ∧ h.size < 2^32 ∧ h.timesWrap < 2^32 ∧ h.nextFree < 2^32

def TraceHeaderRaw.enc (h : TraceHeaderRaw) : Bytes :=
  [h.ver, h.hdrLen, h.timeFlg, h.endianFlg] ++ h.comp ++ h.reserved ++ toBE 4 h.size ++ toBE 4 h.timesWrap ++
    toBE 4 h.nextFree

def TraceEntry.WF (e : TraceEntry) : Prop :=
  e.tbh < 2^16 ∧ e.tbl < 2^16 ∧ e.tag < 2^16 ∧ e.hash < 2^32 ∧ e.line < 2^32 ∧
  e.length = e.data.length ∧ e.length ≤ 1024 ∧ (∀ x ∈ e.data, x < 256)

def TraceEntry.size (e : TraceEntry) : Nat := 16 + e.length + padOf e.length + 4

/-- encoding of a well-formed entry (pad bytes are free: `pad` supplies them) -/
def TraceEntry.enc (e : TraceEntry) (pad : Bytes) : Bytes :=
  toBE 2 e.tbh ++ toBE 2 e.tbl ++ toBE 2 e.length ++ toBE 2 e.tag ++ toBE 4 e.hash ++ toBE 4 e.line ++
    e.data ++ pad.take (padOf e.length) ++ List.replicate (padOf e.length - pad.length) 0 ++ toBE 4 e.size

/-- the entries shown: those that start before the declared buffer size -/
def specShown (size : Nat) : Nat → List TraceEntry → List TraceEntry
  | _, [] => []
  | idx, e :: es => if idx < size then e :: specShown size (idx + e.size) es else []

/-- the string for a hash: the first with the same hash, else the last whose hash agrees modulo 100000 -/
def specChoice (ss : List TraceString) (h : Nat) : Option TraceString :=
  match ss.find? (fun t => t.hash == h) with
  | some t => some t
  | none => (ss.filter (fun t => t.hash % 100000 == h % 100000)).getLast?

def specEntryLines (ss : List TraceString) (e : TraceEntry) : Option (List Text) :=
  let head := specTimestamp e.tbh ++ [32] ++ hexFix 4 e.tbl ++ [32] ++ fmtDecSp 5 e.line ++ [32]
  let dump := (hexdump16 e.data).map (traceIndent ++ ·)
  match specChoice ss e.hash with
  | none => some ([head ++ s "No trace string found with hash value " ++ natDec e.hash] ++ dump)
  | some t =>
    let args := if e.tag = 0x4644 then [] else wordsOf 5 e.data
    (pyFmtOrRaw t.fmt args).map fun m =>
      if t.hash = e.hash then [head ++ m] ++ (if e.tag = 0x4644 then dump else [])
      else [head ++ m, traceIndent ++ s "Warning: Partial match with trace string from " ++ t.location] ++ dump

def specTrace (ss : List TraceString) (h : TraceHeaderRaw) (es : List TraceEntry) : Option (List Text) :=
  (optAll ((specShown h.size 32 es).map (specEntryLines ss))).map fun ls =>
    [s "Component: " ++ compName h.comp, s "Version: " ++ natDec h.ver, s "Size: " ++ natDec h.size,
     s "Times Wrapped: " ++ natDec h.timesWrap, []] ++ traceHeading ++ ls.flatten

end Pel
