import PelModel.HexDump
import PelModel.Dump
/-
  Vocabulary of the definitions that `harness/trans_hexdump.py` regenerates from the SOURCE TEXT of modules/pel/hexdump.py and
  modules/io_drawer/dump.py (lean/PelGen/GenHexdump.lean).  The generated definitions are Lean `do` blocks in the `Option` monad
  that follow the Python statements one by one (`let mut`, `for … in … do`, `break`, `continue`, `return`); `none` stands for
  "Python raises an exception here, or an integer drops below zero" (outside the modelled value domain).  What is defined here is
  the meaning of the Python built-ins those blocks call — the TRUSTED reading of the idiom table at the head of the translator.
  Every function is total and structurally recursive (the kernel evaluates the examples at the end of the file).
-/
namespace Pel.Py

/-- the elements `a, a+step, …` below `n`, at most `fuel` of them -/
def rangeAux (n step : Nat) : Nat → Nat → List Nat
  | 0, _ => []
  | fuel + 1, a => if a < n then a :: rangeAux n step fuel (a + step) else []

/-- `range(a, n, step)` for non-negative `a`, `n`, `step`; `step = 0` raises ValueError -/
def range3 (a n step : Nat) : Option (List Nat) :=
  if step = 0 then none else some (rangeAux n step (n - a) a)

/-- `enumerate(xs)`: pairs (index, element) -/
def enumFrom {α} : Nat → List α → List (Nat × α)
  | _, [] => []
  | k, x :: xs => (k, x) :: enumFrom (k + 1) xs
def enumerate {α} (xs : List α) : List (Nat × α) := enumFrom 0 xs

/-- `xs[a:b]` for non-negative `a`, `b` (Python clamps both bounds to the length) -/
def slice {α} (xs : List α) (a b : Nat) : List α := (xs.take b).drop a

/-- `a % b`; `b = 0` raises ZeroDivisionError -/
def mod (a b : Nat) : Option Nat := if b = 0 then none else some (a % b)

/-- `a - b`; `none` when the result would be negative (negative integers are not modelled) -/
def sub (a b : Nat) : Option Nat := if b ≤ a then some (a - b) else none

/-- `math.ceil(a / b)` for non-negative ints (`/` is exact for the sizes that occur: both operands pass an `assert … <= 256` first;
    in general it is the ceiling of the correctly rounded quotient); `b = 0` raises ZeroDivisionError -/
def ceilDiv (a b : Nat) : Option Nat := if b = 0 then none else some (Pel.ceilDiv a b)

/-- `chr(n)`: the one-character string; ValueError from 0x110000 on -/
def chr (n : Nat) : Option Text := if n < 0x110000 then some [n] else none

/-- `assert c` (an interpreter started without -O) -/
def assert (c : Bool) : Option Unit := if c then some () else none

/-- pairs of hex digits -/
def hexPairs : Text → Option Bytes
  | [] => some []
  | [_] => none
  | h :: l :: r =>
    if isHexDigit h && isHexDigit l then (hexPairs r).map (fun bs => (16 * hexVal h + hexVal l) :: bs) else none

/-- `bytes.fromhex(t)` for a string WITHOUT white space: pairs of hex digits, anything else raises ValueError.
    (Python skips ASCII white space between the pairs; a string with white space is answered `none` here = not modelled.) -/
def fromHex (t : Text) : Option Bytes := hexPairs t

/-- membership of a code point in a regular-expression character class given as a list of inclusive ranges -/
def inClass (cls : List (Nat × Nat)) (c : Nat) : Bool := cls.any fun r => r.1 ≤ c && c ≤ r.2

example : range3 0 10 4 = some [0, 4, 8] := by decide
example : range3 0 8 4 = some [0, 4] := by decide
example : range3 3 3 1 = some [] := by decide
example : range3 0 5 0 = none := by decide
example : enumerate [7, 8, 9] = [(0, 7), (1, 8), (2, 9)] := by decide
example : slice [0, 1, 2, 3, 4] 1 3 = [1, 2] := by decide
example : slice [0, 1, 2] 2 9 = [2] := by decide
example : slice [0, 1, 2] 2 1 = ([] : List Nat) := by decide
example : fromHex (s "dE0a") = some [0xde, 0x0a] := by decide
example : fromHex (s "d") = none := by decide

end Pel.Py
