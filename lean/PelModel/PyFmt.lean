import PelModel.Basic
/-
  Python `fmt % args` for the subset used by the shipped PTE tables and trace string files:
    %[flags][width][.precision][h|l|L](d|i|u|x|X|c|s|%)
  with flags `0` and `-`, non-negative integer arguments.  Anything else is `unsupported`
  (the correspondence counts and skips such inputs); CPython's errors (too few / too many
  arguments, %c out of range, incomplete or unknown conversion) are `error`, on which both
  callers fall back to the raw format string.
-/
namespace Pel

inductive FmtResult where
  | ok (t : Text)
  | error          -- CPython raises (TypeError / ValueError / OverflowError)
  | unsupported    -- outside the modelled subset
deriving Repr, DecidableEq

def isDigitC (c : Nat) : Bool := 48 ≤ c && c ≤ 57

def takeDigits : Text → Nat → Nat × Text
  | [], acc => (acc, [])
  | c :: r, acc => if isDigitC c then takeDigits r (acc * 10 + (c - 48)) else (acc, c :: r)

structure Spec where
  zero : Bool
  left : Bool
  width : Nat
  prec : Option Nat

def padField (sp : Spec) (body : Text) (numeric : Bool) : Text :=
  if sp.left then body ++ spaces (sp.width - body.length)
  else if sp.zero && numeric then List.replicate (sp.width - body.length) 48 ++ body
  else spaces (sp.width - body.length) ++ body

def zeroPadTo (n : Nat) (t : Text) : Text := List.replicate (n - t.length) 48 ++ t

def natHexU (v : Nat) : Text := fmtHex 1 v
def natHexL (v : Nat) : Text := fmtHexL 1 v

/-- parse flags; returns none for a flag outside {0,-} -/
def takeFlags : Text → Bool → Bool → Option (Bool × Bool × Text)
  | [], z, l => some (z, l, [])
  | c :: r, z, l =>
    if c = 48 then takeFlags r true l
    else if c = 45 then takeFlags r z true
    else if c = 32 ∨ c = 43 ∨ c = 35 then none
    else some (z, l, c :: r)

/-- one conversion starting after the `%`; returns rendered text, remaining format, remaining args -/
def convOne (rest : Text) (args : List Nat) : Except FmtResult (Text × Text × List Nat) :=
  match takeFlags rest false false with
  | none => .error .unsupported
  | some (z, l, r1) =>
    match r1 with
    | 42 :: _ => .error .unsupported      -- `*` width
    | _ =>
    let (w, r2) := takeDigits r1 0
    let (prec, r3) : Option Nat × Text := match r2 with
      | 46 :: r' => (match r' with
          | 42 :: _ => (none, 42 :: r')
          | _ => let (p, r'') := takeDigits r' 0; (some p, r''))
      | _ => (none, r2)
    match r3 with
    | 42 :: _ => .error .unsupported
    | _ =>
    let r4 := match r3 with
      | c :: r' => if c = 104 ∨ c = 108 ∨ c = 76 then r' else r3
      | [] => []
    match r4 with
    | [] => .error .error                  -- incomplete format
    | c :: r5 =>
      let sp : Spec := { zero := z, left := l, width := w, prec := prec }
      if c = 37 then
        -- "%%": CPython accepts flags/width here but it is not used by the tables; keep the plain case
        if w = 0 ∧ prec.isNone ∧ !z ∧ !l then .ok ([37], r5, args) else .error .unsupported
      else
        let numConv (digits : Nat → Text) : Except FmtResult (Text × Text × List Nat) :=
          match args with
          | [] => .error .error            -- not enough arguments
          | a :: as =>
            match prec with
            | some p => if z then .error .unsupported
                        else .ok (padField sp (zeroPadTo p (digits a)) false, r5, as)
            | none => .ok (padField sp (digits a) true, r5, as)
        if c = 100 ∨ c = 105 ∨ c = 117 then numConv natDec
        else if c = 120 then numConv natHexL
        else if c = 88 then numConv natHexU
        else if c = 99 then
          match args with
          | [] => .error .error
          | a :: as =>
            if prec.isSome then .error .unsupported
            else if a < 0x110000 then .ok (padField sp [a] false, r5, as) else .error .error
        else if c = 115 ∨ c = 114 then
          match args with
          | [] => .error .error
          | a :: as => if prec.isSome then .error .unsupported else .ok (padField sp (natDec a) false, r5, as)
        else if c = 111 ∨ c = 101 ∨ c = 69 ∨ c = 102 ∨ c = 70 ∨ c = 103 ∨ c = 71 ∨ c = 97 then .error .unsupported
        else .error .error                 -- unsupported format character ⇒ ValueError

def pyFmtGo : Nat → Text → List Nat → Text → FmtResult
  | 0, _, _, _ => .unsupported
  | fuel+1, fmt, args, acc =>
    match fmt with
    | [] => if args.isEmpty then .ok acc else .error    -- not all arguments converted
    | c :: r =>
      if c = 37 then
        match convOne r args with
        | .ok (t, r', args') => pyFmtGo fuel r' args' (acc ++ t)
        | .error e => e
      else pyFmtGo fuel r args (acc ++ [c])

/-- `fmt % tuple(args)` -/
def pyFmt (fmt : Text) (args : List Nat) : FmtResult := pyFmtGo (fmt.length + 1) fmt args []

/-- the callers' `try: fmt % args  except Exception: fmt` -/
def pyFmtOrRaw (fmt : Text) (args : List Nat) : Option Text :=
  match pyFmt fmt args with
  | .ok t => some t
  | .error => some fmt
  | .unsupported => none

end Pel
