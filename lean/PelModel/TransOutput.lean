import PelModel.Pel
/-
  Vocabulary of the definitions that `harness/trans_output.py` regenerates from the SOURCE TEXT of `buildOutput`, `keyEndIndex`
  and `prettyPrint` (pel/peltool/peltool.py) into lean/PelGen/GenOutput.lean.  Nothing here is used by the model or by the
  property theorems, and nothing here knows a literal, an operator, a branch order or a key of those functions: all of that is an
  argument the translator reads off the AST.

  These three functions are imperative Python: index loops over mutable locals, a dictionary of two-element lists updated in
  place, `return` from inside a `while`.  The translation is state passing.  A Python computation is a value of `Option α`:
  `none` = "raises (IndexError, KeyError) or, for a fuelled loop, does not finish within the fuel".  The model functions are total
  and never raise, so every tie theorem has the form `g … = some (model …)`: a translated function that raises or runs out of fuel on
  some input of the domain cannot be proved equal.

  Python integers are `Int` (an index can be negative: Python then counts from the end; a repetition count can be negative);
  `str` is `Text` (code points); `s[i]` on a `str` is a one-character `str`; a `dict` is an association list in insertion order.
  PelProofs/TieOutput.lean relates the combinators to recursive functions (loop rules with invariant and variant).
-/
namespace Pel

/-- `len(x)` -/
def pyLen {α : Type} (l : List α) : Int := (l.length : Int)

/-- `l[i]`: IndexError = `none`; a negative index counts from the end -/
def pyAt? {α : Type} (l : List α) (i : Int) : Option α :=
  if 0 ≤ i then l[i.toNat]? else if -i ≤ (l.length : Int) then l[(i + (l.length : Int)).toNat]? else none

/-- `s[i]` on a `str`: the one-character string -/
def pyCharAt (t : Text) (i : Int) : Option Text := (pyAt? t i).map (fun c => [c])

/-- a slice bound: negative counts from the end, everything is clamped to `0..len` -/
def pyBound (len : Nat) (i : Int) : Nat := if i < 0 then (i + (len : Int)).toNat else min i.toNat len

/-- `l[a:b]` (`none` = the bound is omitted) -/
def pySl {α : Type} (l : List α) (a b : Option Int) : List α :=
  (l.take ((b.map (pyBound l.length)).getD l.length)).drop ((a.map (pyBound l.length)).getD 0)

/-- `l[i] = v`: IndexError = `none` -/
def pyListSet? {α : Type} (l : List α) (i : Int) (v : α) : Option (List α) :=
  if 0 ≤ i then (if i.toNat < l.length then some (l.set i.toNat v) else none)
  else if -i ≤ (l.length : Int) then some (l.set (i + (l.length : Int)).toNat v) else none

/-- `s.lstrip(chars)` -/
def pyLstrip (chars : Text) (t : Text) : Text := t.dropWhile (fun c => chars.contains c)

/-- `needle in hay` for strings (substring test) -/
def pyInStr (needle : Text) : Text → Bool
  | [] => needle.isEmpty
  | c :: r => needle.isPrefixOf (c :: r) || pyInStr needle r

/-- `s.split(sep)` for a one-character separator `sep = chr c` -/
def pySplit1 (c : Nat) : Text → List Text
  | [] => [[]]
  | x :: r =>
    match pySplit1 c r with
    | [] => [[]]   -- unreachable
    | l :: ls => if x = c then [] :: l :: ls else (x :: l) :: ls

/-- `n * s` / `s * n` for a string: a count ≤ 0 gives the empty string -/
def pyMulStr (n : Int) (t : Text) : Text := (List.replicate n.toNat t).flatten

/-- `range(n)` -/
def pyRange (n : Int) : List Int := (List.range n.toNat).map Int.ofNat

/-- `k in d` -/
def pyDictHas {κ ν : Type} [DecidableEq κ] (d : List (κ × ν)) (k : κ) : Bool := d.any (fun p => p.1 = k)

/-- `d[k]`: KeyError = `none` -/
def pyDictGet? {κ ν : Type} [DecidableEq κ] : List (κ × ν) → κ → Option ν
  | [], _ => none
  | (k', v') :: r, k => if k' = k then some v' else pyDictGet? r k

/-- `d[k] = v`: an existing key keeps its place -/
def pyDictSet {κ ν : Type} [DecidableEq κ] : List (κ × ν) → κ → ν → List (κ × ν)
  | [], k, v => [(k, v)]
  | (k', v') :: r, k, v => if k' = k then (k, v) :: r else (k', v') :: pyDictSet r k v

/-- `list(d.keys())` -/
def pyKeys {κ ν : Type} (d : List (κ × ν)) : List κ := d.map Prod.fst

/-- `for x in xs: body` without `return` / `break` / `continue`: the mutable locals of the body are the state -/
def pyFor {α σ : Type} (xs : List α) (body : α → σ → Option σ) (init : σ) : Option σ :=
  xs.foldlM (fun st x => body x st) init

/-- what one pass through the body of a `while` ends with -/
inductive LoopStep (σ ρ : Type) where
  | next (st : σ)     -- fell through the end of the body: test the condition again
  | ret (r : ρ)       -- `return r`

/-- `while cond: body` followed by the rest of the function `k`.  `fuel` bounds the number of iterations; the translator
    passes `len(text) + 1` after checking syntactically that every path through the body that does not return increases
    the index the condition compares with `len(text)`.  Running out of fuel is `none`, never a value. -/
def pyWhile {σ ρ : Type} (cond : σ → Option Bool) (body : σ → Option (LoopStep σ ρ)) (k : σ → Option ρ) : Nat → σ → Option ρ
  | 0, _ => none
  | fuel+1, st =>
    cond st >>= fun c =>
      if c = true then
        body st >>= fun r =>
          match r with
          | .next st' => pyWhile cond body k fuel st'
          | .ret v => some v
      else k st

end Pel
