import PelModel.Cli
import PelModel.Clean
/-
  Model of `main()` of peltool.py OUTSIDE a BMC (`inBMC = False`: the parser has `-p`, not `-A`):
  the parsed argument namespace (`Args`), the block of `if args.x: config.x = …` statements (`mkConfig`), and the
  priority chain of `if`s that decides which ONE function is called with which arguments (`dispatch`).
  Every test of the chain is a Python truthiness test: a valued option given as the empty string counts as not given.
  The functions that `main` calls are modelled elsewhere (PelModel/Cli.lean, PelModel/Clean.lean); here an `Action`
  only says which of them is reached and what it receives.
-/
namespace Pel

/-- the namespace `parser.parse_args()` returns (one field per option; `dest` names in comments where they differ) -/
structure Args where
  path : Option Text := none            -- -p / --path
  skipPlugins : Bool := false           -- -P / --skip-parser-plugins   (skip_plugins)
  file : Option Text := none            -- -f / --file
  list : Bool := false                  -- -l / --list
  all : Bool := false                   -- -a / --all-pels
  count : Bool := false                 -- -n / --show-pel-count        (show_pel_count)
  delete : Option Text := none          -- -d / --delete                (IDToDelete)
  deleteAll : Bool := false             -- -D / --delete-all
  pelID : Option Text := none           -- -i / --id
  bmcID : Option Text := none           -- --bmc-id
  plid : Option Text := none            -- --plid                       (plID)
  src : Option Text := none             -- --src
  srcExclude : Option Text := none      -- --src-exclude                (src_exclude_file)
  hex : Bool := false                   -- -x / --hex
  reverse : Bool := false               -- -r / --reverse
  extension : Option Text := none       -- -e / --extension
  every : Bool := false                 -- -E / --every-pel
  serviceable : Bool := false           -- -s / --serviceable
  nonServiceable : Bool := false        -- -N / --non-serviceable
  hidden : Bool := false                -- -H / --hidden
  term : Bool := false                  -- -t / --termination           (critSysTerm)
  severities : List Text := []          -- -S / --severities NAME+      (`None` = `[]`: nargs='+' never yields an empty list)
  only : Bool := false                  -- -O / --only
  json : Bool := false                  -- -j / --json
  outputDir : Option Text := none       -- -o / --output-dir
  clean : Bool := false                 -- -c / --clean
deriving Repr, DecidableEq

/-- what the `Config` object holds after the assignments.  `sel.lookup` stands for "one of `pelID`, `bmcID`, `plid`, `src`,
    `srcExcludeFile` is set" (the only way `considerPEL` looks at them); the value itself is carried by the `Action`. -/
structure MainCfg where
  sel : SelCfg := {}
  allowPlugins : Bool := true
  hex : Bool := false
  rev : Bool := false
  ext : Option Text := none             -- `config.extension`; only ever set to a non-empty string
deriving Repr, DecidableEq

/-- Python truthiness of an optional string: `None` and `""` are false.  Returns the value when it is truthy. -/
def tv : Option Text → Option Text
  | some (c :: cs) => some (c :: cs)
  | _ => none

def truthy (o : Option Text) : Bool := (tv o).isSome

/-- the seven `-S` choices and their group digits (pinned against the live `severityGroupValues` in PelProps/C07.lean) -/
def severityGroupTable : List (Text × Nat) :=
  [(s "Informational", 0), (s "Recovered", 1), (s "Predictive", 2), (s "Unrecoverable", 4),
   (s "Critical", 5), (s "Diagnostic", 6), (s "Symptom", 7)]

/-- `severityGroupValues[name]`; argparse's `choices` guarantees that the name is a key -/
def sevLookup (t : List (Text × Nat)) (name : Text) : Option Nat := t.lookup name

/-- one statement `if <test>: config.<member> = <value>` -/
def MainCfg.when (c : MainCfg) (test : Bool) (assign : MainCfg → MainCfg) : MainCfg := if test then assign c else c

/-- the block `config = Config(); if args.skip_plugins: config.allow_plugins = False; …`, statement by statement, in the order
    of the source -/
def mkConfig (sevTable : List (Text × Nat)) (a : Args) : MainCfg :=
  ({} : MainCfg)
    |>.when a.skipPlugins (fun c => { c with allowPlugins := false })
    |>.when a.serviceable (fun c => { c with sel := { c.sel with serviceable := true } })
    |>.when a.nonServiceable (fun c => { c with sel := { c.sel with nonServiceable := true } })
    |>.when a.term (fun c => { c with sel := { c.sel with term := true } })
    |>.when a.hidden (fun c => { c with sel := { c.sel with hidden := true } })
    |>.when a.only (fun c => { c with sel := { c.sel with only := true } })
    |>.when a.every (fun c => { c with sel := { c.sel with every := true } })
    -- `if args.severities: config.severities.extend(severityGroupValues[sev] for sev in args.severities)`
    |>.when (!a.severities.isEmpty) (fun c =>
        { c with sel := { c.sel with severities := c.sel.severities ++ a.severities.filterMap (sevLookup sevTable) } })
    |>.when a.hex (fun c => { c with hex := true })
    |>.when a.reverse (fun c => { c with rev := true })
    -- `if args.extension: config.extension = args.extension`
    |>.when (truthy a.extension) (fun c => { c with ext := a.extension })

/-- the four `sys.exit("<message>")` sites of `main` (message on stderr, exit status 1) -/
inductive ExitSite where
  | noPath                       -- `-p` missing (or empty)
  | notDir (path : Text)         -- `-p` is not a directory
  | noOutputDir (dir : Text)     -- `-j -o dir`: dir is not a directory
  | noExcludeFile (file : Text)  -- `--src-exclude file`: file is not a regular file
deriving Repr, DecidableEq

def exitText : ExitSite → Text
  | .noPath => s "Outside the BMC environment, please provide the path to the PELs using the -p option."
  | .notDir p => p ++ s " is not a valid directory"
  | .noOutputDir d => s "Output directory " ++ d ++ s " doesn't exist"
  | .noExcludeFile f => s "Input " ++ f ++ s " file doesn't exist!"

/-- what `main()` ends up doing: which function it calls and with which arguments (the `Config` is the second component
    of `dispatch`) -/
inductive Action where
  | fileMode (path : Text) (clean : Bool)           -- parseAndPrintPELFile(path, config, True); os.remove(path) iff clean ∧ printed
  | exitMsg (site : ExitSite)                       -- sys.exit(message)
  | jsonMode (dir outDir : Text) (clean : Bool)     -- for each top-level file: parseAndWriteOutput(dir/file, outDir, config, clean)
  | idMode (dir e : Text)                           -- config.pelID = e; parsePelFromID(dir, config)
  | bmcIdMode (dir n : Text)                        -- config.bmcID = n; parsePelFromBmcID(dir, config)
  | plidMode (dir x : Text)                         -- config.plid = x; parsePelFromPLID(dir, config)
  | srcMode (dir sv : Text)                         -- config.src = sv; parsePelFromSRCID(dir, config)
  | srcExcludeMode (dir file : Text)                -- config.srcExcludeFile = file; parsePelFromSRCID(dir, config)
  | listMode (dir : Text)                           -- listOption(dir, config)
  | countMode (dir : Text)                          -- printPELCount(dir, config)
  | allMode (dir : Text)                            -- extractAllPELsData(dir, config)
  | deleteMode (dir e : Text)                       -- deletePELFromPELId(dir, e)
  | deleteAllMode (dir : Text)                      -- deleteAllPELs(dir)
  | nothing                                         -- no mode option: falls off the end of main
deriving Repr, DecidableEq

/-- what `os.path.isdir` / `os.path.isfile` answer -/
structure FsView where
  isDir : Text → Bool
  isFile : Text → Bool

/-- `config.pelID = …` etc.: from then on `considerPEL` sees a look-up -/
def MainCfg.withLookup (c : MainCfg) : MainCfg := { c with sel := { c.sel with lookup := true } }

/-- the priority chain of `main()` after the `Config` has been filled -/
def dispatch (fs : FsView) (a : Args) : Action × MainCfg :=
  let c := mkConfig severityGroupTable a
  match tv a.file with
  | some f => (.fileMode f a.clean, c)
  | none =>
  match tv a.path with
  | none => (.exitMsg .noPath, c)
  | some p =>
  if !fs.isDir p then (.exitMsg (.notDir p), c) else
  if a.json then
    match tv a.outputDir with
    | some o => if !fs.isDir o then (.exitMsg (.noOutputDir o), c) else (.jsonMode p o a.clean, c)
    | none => (.jsonMode p p a.clean, c)
  else
  match tv a.pelID with
  | some e => (.idMode p e, c.withLookup)
  | none =>
  match tv a.bmcID with
  | some n => (.bmcIdMode p n, c.withLookup)
  | none =>
  match tv a.plid with
  | some x => (.plidMode p x, c.withLookup)
  | none =>
  match tv a.src with
  | some sv => (.srcMode p sv, c.withLookup)
  | none =>
  match tv a.srcExclude with
  | some f =>
    -- `config.srcExcludeFile` is assigned BEFORE the existence test
    if !fs.isFile f then (.exitMsg (.noExcludeFile f), c.withLookup) else (.srcExcludeMode p f, c.withLookup)
  | none =>
  if a.list then (.listMode p, c) else
  if a.count then (.countMode p, c) else
  if a.all then (.allMode p, c) else
  match tv a.delete with
  | some e => (.deleteMode p e, c)
  | none =>
  if a.deleteAll then (.deleteAllMode p, c) else
  (.nothing, c)

/-- The priority chain, declaratively: one rule per branch of `main()`, each listing the tests that failed before it and the test that
    succeeded.  `Chain fs a act lk`: `main` ends up doing `act`, and `lk` says whether a look-up id was stored in the `Config`. -/
inductive Chain (fs : FsView) (a : Args) : Action → Bool → Prop where
  | file {f} (hf : tv a.file = some f) : Chain fs a (.fileMode f a.clean) false
  | noPath (hf : tv a.file = none) (hp : tv a.path = none) : Chain fs a (.exitMsg .noPath) false
  | notDir {p} (hf : tv a.file = none) (hp : tv a.path = some p) (hd : fs.isDir p = false) : Chain fs a (.exitMsg (.notDir p)) false
  | jsonNoOut {p o} (hf : tv a.file = none) (hp : tv a.path = some p) (hd : fs.isDir p = true) (hj : a.json = true)
      (ho : tv a.outputDir = some o) (hod : fs.isDir o = false) : Chain fs a (.exitMsg (.noOutputDir o)) false
  | jsonOut {p o} (hf : tv a.file = none) (hp : tv a.path = some p) (hd : fs.isDir p = true) (hj : a.json = true)
      (ho : tv a.outputDir = some o) (hod : fs.isDir o = true) : Chain fs a (.jsonMode p o a.clean) false
  | jsonIn {p} (hf : tv a.file = none) (hp : tv a.path = some p) (hd : fs.isDir p = true) (hj : a.json = true)
      (ho : tv a.outputDir = none) : Chain fs a (.jsonMode p p a.clean) false
  | id {p e} (hf : tv a.file = none) (hp : tv a.path = some p) (hd : fs.isDir p = true) (hj : a.json = false)
      (hi : tv a.pelID = some e) : Chain fs a (.idMode p e) true
  | bmcId {p n} (hf : tv a.file = none) (hp : tv a.path = some p) (hd : fs.isDir p = true) (hj : a.json = false)
      (hi : tv a.pelID = none) (hb : tv a.bmcID = some n) : Chain fs a (.bmcIdMode p n) true
  | plid {p x} (hf : tv a.file = none) (hp : tv a.path = some p) (hd : fs.isDir p = true) (hj : a.json = false)
      (hi : tv a.pelID = none) (hb : tv a.bmcID = none) (hl : tv a.plid = some x) : Chain fs a (.plidMode p x) true
  | src {p sv} (hf : tv a.file = none) (hp : tv a.path = some p) (hd : fs.isDir p = true) (hj : a.json = false)
      (hi : tv a.pelID = none) (hb : tv a.bmcID = none) (hl : tv a.plid = none) (hs : tv a.src = some sv) : Chain fs a (.srcMode p sv) true
  | noExclude {p f} (hf : tv a.file = none) (hp : tv a.path = some p) (hd : fs.isDir p = true) (hj : a.json = false)
      (hi : tv a.pelID = none) (hb : tv a.bmcID = none) (hl : tv a.plid = none) (hs : tv a.src = none)
      (hx : tv a.srcExclude = some f) (hxf : fs.isFile f = false) : Chain fs a (.exitMsg (.noExcludeFile f)) true
  | srcExclude {p f} (hf : tv a.file = none) (hp : tv a.path = some p) (hd : fs.isDir p = true) (hj : a.json = false)
      (hi : tv a.pelID = none) (hb : tv a.bmcID = none) (hl : tv a.plid = none) (hs : tv a.src = none)
      (hx : tv a.srcExclude = some f) (hxf : fs.isFile f = true) : Chain fs a (.srcExcludeMode p f) true
  | list {p} (hf : tv a.file = none) (hp : tv a.path = some p) (hd : fs.isDir p = true) (hj : a.json = false)
      (hi : tv a.pelID = none) (hb : tv a.bmcID = none) (hl : tv a.plid = none) (hs : tv a.src = none)
      (hx : tv a.srcExclude = none) (hli : a.list = true) : Chain fs a (.listMode p) false
  | count {p} (hf : tv a.file = none) (hp : tv a.path = some p) (hd : fs.isDir p = true) (hj : a.json = false)
      (hi : tv a.pelID = none) (hb : tv a.bmcID = none) (hl : tv a.plid = none) (hs : tv a.src = none)
      (hx : tv a.srcExclude = none) (hli : a.list = false) (hn : a.count = true) : Chain fs a (.countMode p) false
  | all {p} (hf : tv a.file = none) (hp : tv a.path = some p) (hd : fs.isDir p = true) (hj : a.json = false)
      (hi : tv a.pelID = none) (hb : tv a.bmcID = none) (hl : tv a.plid = none) (hs : tv a.src = none)
      (hx : tv a.srcExclude = none) (hli : a.list = false) (hn : a.count = false) (ha : a.all = true) : Chain fs a (.allMode p) false
  | delete {p e} (hf : tv a.file = none) (hp : tv a.path = some p) (hd : fs.isDir p = true) (hj : a.json = false)
      (hi : tv a.pelID = none) (hb : tv a.bmcID = none) (hl : tv a.plid = none) (hs : tv a.src = none)
      (hx : tv a.srcExclude = none) (hli : a.list = false) (hn : a.count = false) (ha : a.all = false)
      (hde : tv a.delete = some e) : Chain fs a (.deleteMode p e) false
  | deleteAll {p} (hf : tv a.file = none) (hp : tv a.path = some p) (hd : fs.isDir p = true) (hj : a.json = false)
      (hi : tv a.pelID = none) (hb : tv a.bmcID = none) (hl : tv a.plid = none) (hs : tv a.src = none)
      (hx : tv a.srcExclude = none) (hli : a.list = false) (hn : a.count = false) (ha : a.all = false)
      (hde : tv a.delete = none) (hD : a.deleteAll = true) : Chain fs a (.deleteAllMode p) false
  | nothing {p} (hf : tv a.file = none) (hp : tv a.path = some p) (hd : fs.isDir p = true) (hj : a.json = false)
      (hi : tv a.pelID = none) (hb : tv a.bmcID = none) (hl : tv a.plid = none) (hs : tv a.src = none)
      (hx : tv a.srcExclude = none) (hli : a.list = false) (hn : a.count = false) (ha : a.all = false)
      (hde : tv a.delete = none) (hD : a.deleteAll = false) : Chain fs a .nothing false

/-- the directory a directory mode is called with -/
def Action.dir? : Action → Option Text
  | .jsonMode d _ _ | .idMode d _ | .bmcIdMode d _ | .plidMode d _ | .srcMode d _ | .srcExcludeMode d _
  | .listMode d | .countMode d | .allMode d | .deleteMode d _ | .deleteAllMode d => some d
  | .fileMode _ _ | .exitMsg _ | .nothing => none

/-- the five look-up modes -/
def Action.isLookup : Action → Bool
  | .idMode _ _ | .bmcIdMode _ _ | .plidMode _ _ | .srcMode _ _ | .srcExcludeMode _ _ => true
  | _ => false

/-- actions through which `main` can reach `os.remove`: the two delete functions, and the two `--clean` paths -/
def Action.mayRemove : Action → Bool
  | .deleteMode _ _ | .deleteAllMode _ | .fileMode _ true | .jsonMode _ _ true => true
  | _ => false

/-- the status `main()` itself ends with when the function it called returns normally (`sys.exit(0)`, falling off the end, or
    `sys.exit(str)`).  A callee that exits on its own (`processId`: "Invalid length of ID is provided!") is modelled in
    PelModel/Cli.lean. -/
def mainExit : Action → Nat
  | .exitMsg _ => 1
  | _ => 0

/-- what main writes on stderr itself -/
def mainStderr : Action → Option Text
  | .exitMsg m => some (exitText m)
  | _ => none

/-- continuation of the `-f` branch: `printed = parseAndPrintPELFile(...)`; `if args.clean and printed: os.remove(args.file)`.
    Returns the path handed to `os.remove`, if any.  No other branch of `main` calls `os.remove` itself. -/
def Action.afterPrint : Action → Bool → Option Text
  | .fileMode p clean, printed => if clean && printed then some p else none
  | _, _ => none

/-- what `parseAndPrintPELFile` returns in terms of the C12 event model: `True` iff there was a document and both printing it
    and flushing stdout (steps 0 and 1 of `filePlan`) succeeded -/
def printedOf (d : DecodeResult) (fault : Nat → Bool) : Bool :=
  match d with
  | .doc => !fault 0 && !fault 1
  | _ => false

/-- `os.path.join(a, b)` -/
def pathJoin (a b : Text) : Text :=
  if b.head? = some 47 then b
  else if a.isEmpty || a.getLast? == some 47 then a ++ b
  else a ++ [47] ++ b

/-- the `-j` loop over `files` = the file names `os.walk(dir)` yields for the top level, in that order:
    the `(file, output_dir, delete_after_parsing)` of every `parseAndWriteOutput` call -/
def jsonCalls (c : MainCfg) (files : List Text) : Action → List (Text × Text × Bool)
  | .jsonMode dir out clean =>
    (files.filter fun f => match c.ext with
      | some e => splitext f == e
      | none => true).map fun f => (pathJoin dir f, out, clean)
  | _ => []

end Pel
