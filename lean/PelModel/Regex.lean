import PelModel.Basic
/-
  A small, total, executable BACKTRACKING regular-expression matcher with the semantics of CPython's `re`
  (module `_sre`) for the constructs that the seven patterns of modules/io_drawer/{ilog,hlog,trace}.py use:

    literal character, character class / negated class, `\s`, `[0-9]`, `[12]`, `.`, concatenation,
    ordered alternation `(?:a|b)`, greedy `*` `+` `?`, capturing groups, `fullmatch`.

  Regexes are values of the AST `Re` (there is no parser for regex syntax).

  Semantics.  `Re.m r inp caps k` tries the ways in which `r` can match a prefix of `inp` IN PRIORITY ORDER
  (left alternative first, one more iteration of a greedy repeat before stopping, the optional item present before
  absent) and hands the rest of the input and the captures to the continuation `k`; the first way for which `k`
  succeeds is the answer.  `fullmatch` uses the continuation "the rest is empty", which is how `_sre` implements
  `fullmatch` (the SUCCESS opcode fails unless the end of the string is reached, which makes the engine backtrack).
  The FIRST successful path is the answer, so the captures are those of that path.

  Termination.  `Re.m` is structurally recursive on the regex.  A repeat `a*` runs the auxiliary `starM` with
  fuel = length of the input that is left when the repeat is entered; an iteration is only continued when it consumed at
  least one character, so the fuel cannot run out: `starM_fuel` (PelProofs/Regex.lean) proves that every fuel
  ≥ the remaining length gives the same answer (`Re.m_star_unfold` is the resulting fuel-free unfolding equation).
  The "consumed at least one character" guard is never false for the seven patterns: no repeated item can match
  the empty string.  (CPython has extra rules for repeats of items that can match empty; they are outside the
  modelled subset because no such item can be written down below without being visible in the pattern.)
-/
namespace Pel

/-- what a single pattern character / class accepts (code points) -/
inductive CSet where
  | lit (c : Nat)            -- a literal character; `\{` `\}` `\,` `\=` `\|` are literals too
  | notLit (c : Nat)         -- `[^c]` (matches `\n` as well)
  | oneOf (l : List Nat)     -- `[12]`
  | digit                    -- `[0-9]`: in a `str` pattern this is the code-point range 48..57, ASCII only
  | space                    -- `\s` in a `str` pattern without re.ASCII: `Py_UNICODE_ISSPACE`, the set of `str.isspace()`
  | dot                      -- `.` without re.DOTALL: anything but `\n`
deriving Repr, DecidableEq

def CSet.test : CSet → Nat → Bool
  | .lit c, x => x == c
  | .notLit c, x => x != c
  | .oneOf l, x => l.contains x
  | .digit, x => 48 ≤ x && x ≤ 57
  | .space, x => isPySpace x
  | .dot, x => x != 10

inductive Re where
  | eps
  | chr (p : CSet)
  | seq (a b : Re)
  | alt (a b : Re)           -- `a|b`, `a` is tried first
  | star (a : Re)            -- greedy `a*`
  | opt (a : Re)             -- greedy `a?`
  | grp (i : Nat) (a : Re)   -- capturing group number `i`
deriving Repr, DecidableEq

/-- captures, most recently closed group first (a group that is closed twice shadows its older value, like `re`) -/
abbrev Caps := List (Nat × Text)
abbrev Kont := Text → Caps → Option Caps

/-- greedy repeat of `step`: one more iteration first (only continued if it consumed something), then stop -/
def starM (step : Text → Caps → Kont → Option Caps) : Nat → Text → Caps → Kont → Option Caps
  | 0, inp, c, k => k inp c
  | n+1, inp, c, k =>
    match step inp c (fun r c' => if r.length < inp.length then starM step n r c' k else none) with
    | some x => some x
    | none => k inp c

def Re.m : Re → Text → Caps → Kont → Option Caps
  | .eps, inp, c, k => k inp c
  | .chr p, inp, c, k =>
    match inp with
    | [] => none
    | x :: r => if p.test x then k r c else none
  | .seq a b, inp, c, k => a.m inp c (fun r c' => b.m r c' k)
  | .alt a b, inp, c, k =>
    match a.m inp c k with
    | some x => some x
    | none => b.m inp c k
  | .opt a, inp, c, k =>
    match a.m inp c k with
    | some x => some x
    | none => k inp c
  | .star a, inp, c, k => starM a.m inp.length inp c k
  | .grp i a, inp, c, k => a.m inp c (fun r c' => k r ((i, inp.take (inp.length - r.length)) :: c'))

/-- continuation of `fullmatch`: succeed only at the end of the input -/
def kEnd : Kont := fun r c => if r.isEmpty then some c else none

/-- `pattern.fullmatch(inp)`: the captures of the first successful path, `none` = no match -/
def Re.fullmatch (r : Re) (inp : Text) : Option Caps := r.m inp [] kEnd

/-- `match.group(i)` -/
def capGet (c : Caps) (i : Nat) : Option Text := (c.find? (fun p => p.1 == i)).map (·.2)

/-! ### building blocks -/
def Re.cat : List Re → Re
  | [] => .eps
  | a :: rest => .seq a (Re.cat rest)
def Re.plus (a : Re) : Re := .seq a (.star a)
def Re.c (ch : Char) : Re := .chr (.lit ch.toNat)
/-- the characters of a literal string, one `Re` each (the patterns below are FLAT concatenations) -/
def Re.lits (x : String) : List Re := x.toList.map Re.c
/-- `\s*` -/
def Re.ws : Re := .star (.chr .space)
/-- `\s+` -/
def Re.ws1 : Re := Re.plus (.chr .space)

/-! ### the seven patterns (the quoted text is `X.pattern` as printed by Python for the compiled object; adjacent
    string literals are concatenated by Python, and in the non-raw second literals `\=`, `\s`, `\{`, `\,`, `\}` are
    unknown string escapes that Python keeps as backslash + character, so they reach `re` as regex escapes) -/

/-- ilog.py `TBL_START_RE`:
    `(\s*static\s+)?\s*struct\s+pte_entry_struct\s+static_pte_entry_table.*\=\s*\{?\s*` -/
def tblStartRe : Re := Re.cat (
  [.opt (.grp 1 (Re.cat ([Re.ws] ++ Re.lits "static" ++ [Re.ws1]))), Re.ws] ++ Re.lits "struct" ++ [Re.ws1] ++
  Re.lits "pte_entry_struct" ++ [Re.ws1] ++ Re.lits "static_pte_entry_table" ++
  [.star (.chr .dot), Re.c '=', Re.ws, .opt (Re.c '{'), Re.ws])

/-- ilog.py `TBL_ENTRY_RE`:
    `\s*\{\s*"([^"]+)"\s*\,\s*"((?:[^"]|\\")*)"\s*\,\s*\{([^}]*)\}\s*\,\s*"([^"]*)"\s*\,\s*([0-9]+)\s*\}\s*\,\s*` -/
def tblEntryRe : Re := Re.cat [
  Re.ws, Re.c '{', Re.ws, Re.c '"', .grp 1 (Re.plus (.chr (.notLit 34))), Re.c '"', Re.ws, Re.c ',', Re.ws,
  Re.c '"', .grp 2 (.star (.alt (.chr (.notLit 34)) (.seq (Re.c '\\') (Re.c '"')))), Re.c '"', Re.ws, Re.c ',', Re.ws,
  Re.c '{', .grp 3 (.star (.chr (.notLit 125))), Re.c '}', Re.ws, Re.c ',', Re.ws,
  Re.c '"', .grp 4 (.star (.chr (.notLit 34))), Re.c '"', Re.ws, Re.c ',', Re.ws,
  .grp 5 (Re.plus (.chr .digit)), Re.ws, Re.c '}', Re.ws, Re.c ',', Re.ws]

/-- ilog.py `TBL_END_RE`:  `\s*\{\s*""\s*\,\s*"The End".*\s*` -/
def tblEndRe : Re := Re.cat (
  [Re.ws, Re.c '{', Re.ws, Re.c '"', Re.c '"', Re.ws, Re.c ',', Re.ws] ++ Re.lits "\"The End\"" ++ [.star (.chr .dot), Re.ws])

/-- hlog.py `HLOG_START_RE`:
    `(\s*static\s+)?\s*struct\s+mex_hlog_field\s+mex_hlog_fields.*\=\s*\{?\s*` -/
def hlogStartRe : Re := Re.cat (
  [.opt (.grp 1 (Re.cat ([Re.ws] ++ Re.lits "static" ++ [Re.ws1]))), Re.ws] ++ Re.lits "struct" ++ [Re.ws1] ++
  Re.lits "mex_hlog_field" ++ [Re.ws1] ++ Re.lits "mex_hlog_fields" ++
  [.star (.chr .dot), Re.c '=', Re.ws, .opt (Re.c '{'), Re.ws])

/-- hlog.py `HLOG_FIELD_RE`:  `\s*\{\s*([12])\s*\,\s*"([^"]+)"\s*\}\s*\,?\s*` -/
def hlogFieldRe : Re := Re.cat [
  Re.ws, Re.c '{', Re.ws, .grp 1 (.chr (.oneOf [49, 50])), Re.ws, Re.c ',', Re.ws,
  Re.c '"', .grp 2 (Re.plus (.chr (.notLit 34))), Re.c '"', Re.ws, Re.c '}', Re.ws, .opt (Re.c ','), Re.ws]

/-- hlog.py `HLOG_END_RE`:  `\s*\}\s*;\s*` -/
def hlogEndRe : Re := Re.cat [Re.ws, Re.c '}', Re.ws, Re.c ';', Re.ws]

/-- trace.py `TraceStringFile.LINE_RE`:  `\s*([0-9]+)\s*\|\|(.*)\|\|(.*)\n?` -/
def traceLineRe : Re := Re.cat [
  Re.ws, .grp 1 (Re.plus (.chr .digit)), Re.ws, Re.c '|', Re.c '|', .grp 2 (.star (.chr .dot)),
  Re.c '|', Re.c '|', .grp 3 (.star (.chr .dot)), .opt (.chr (.lit 10))]

end Pel
