import PelModel.Basic
/-
  Line protocol of the driver.  A request is one line of space separated tokens:
    decimal number            123
    bytes                     x48656c6c6f   (x alone = empty)
    text (code points)        t72.101.108   (t alone = empty)
  Lists are count-prefixed.  Replies use the same token syntax.
-/
namespace Pel.Proto

open Pel

def hexNib (c : Char) : Option Nat :=
  let n := c.toNat
  if 48 ≤ n ∧ n ≤ 57 then some (n - 48)
  else if 97 ≤ n ∧ n ≤ 102 then some (n - 87)
  else if 65 ≤ n ∧ n ≤ 70 then some (n - 55)
  else none

def parseHexBytes : List Char → Option Bytes
  | [] => some []
  | [_] => none
  | a :: b :: r => do
    let h ← hexNib a
    let l ← hexNib b
    let t ← parseHexBytes r
    pure ((16 * h + l) :: t)

inductive Tok where
  | num (n : Nat)
  | bytes (b : Bytes)
  | text (t : Text)
  | word (w : String)
deriving Repr

def parseTok (w : String) : Tok :=
  match w.toList with
  | 'x' :: r => match parseHexBytes r with
    | some b => .bytes b
    | none => .word w
  | 't' :: r =>
    let body := String.ofList r
    if body.isEmpty then .text [] else
    let parts := body.splitOn "."
    match parts.mapM (·.toNat?) with
    | some ns => .text ns
    | none => .word w
  | _ => match w.toNat? with
    | some n => .num n
    | none => .word w

def tokenize (line : String) : List Tok :=
  ((line.splitOn " ").filter (· ≠ "")).map parseTok

/-- a small parser monad over token lists -/
abbrev P := StateT (List Tok) Option

def pNum : P Nat := fun s => match s with
  | .num n :: r => some (n, r)
  | _ => none
def pBytes : P Bytes := fun s => match s with
  | .bytes b :: r => some (b, r)
  | _ => none
def pText : P Text := fun s => match s with
  | .text b :: r => some (b, r)
  | _ => none
def pBool : P Bool := do let n ← pNum; pure (n ≠ 0)
def pWord : P String := fun s => match s with
  | .word w :: r => some (w, r)
  | _ => none

def pRep {α} (p : P α) : Nat → P (List α)
  | 0 => pure []
  | n+1 => do let x ← p; let xs ← pRep p n; pure (x :: xs)
def pList {α} (p : P α) : P (List α) := do let n ← pNum; pRep p n
def pEnd : P Unit := fun s => match s with
  | [] => some ((), [])
  | _ => none

/-! output -/
def hexChars : Array Char := #['0','1','2','3','4','5','6','7','8','9','a','b','c','d','e','f']
def outBytes (b : Bytes) : String :=
  "x" ++ String.ofList (b.flatMap fun v => [hexChars[(v / 16) % 16]!, hexChars[v % 16]!])
def outText (t : Text) : String := "t" ++ ".".intercalate (t.map toString)
def outNum (n : Nat) : String := toString n
def outBool (b : Bool) : String := if b then "1" else "0"
def outList {α} (f : α → String) (l : List α) : String :=
  " ".intercalate (toString l.length :: l.map f)
def outLines (l : List Text) : String := outList outText l

end Pel.Proto

