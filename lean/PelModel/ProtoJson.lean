import PelModel.Proto
import PelModel.Json
/- JSON documents on the wire: a prefix encoding so that neither side needs the other's JSON parser. -/
namespace Pel.Proto
open Pel

partial def outJ : J → String
  | .null => "Z"
  | .bool true => "T"
  | .bool false => "F"
  | .num (.ofNat n) => "N " ++ toString n
  | .num (.negSucc n) => "M " ++ toString (n + 1)
  | .str t => "S " ++ outText t
  | .arr l => " ".intercalate (("A " ++ toString l.length) :: l.map outJ)
  | .obj l => " ".intercalate (("O " ++ toString l.length) :: l.map fun (k, v) => outText k ++ " " ++ outJ v)

def pJFuel : Nat → P J
  | 0 => failure
  | fuel+1 => do
    let w ← pWord
    match w with
    | "Z" => pure .null
    | "T" => pure (.bool true)
    | "F" => pure (.bool false)
    | "N" => do let n ← pNum; pure (.num n)
    | "M" => do let n ← pNum; pure (.num (-(n : Int)))
    | "S" => do let t ← pText; pure (.str t)
    | "A" => do let n ← pNum; let l ← pRep (pJFuel fuel) n; pure (.arr l)
    | "O" => do
        let n ← pNum
        let l ← pRep (do let k ← pText; let v ← pJFuel fuel; pure (k, v)) n
        pure (.obj l)
    | _ => failure

def pJ : P J := fun st => pJFuel (st.length + 1) st

end Pel.Proto
