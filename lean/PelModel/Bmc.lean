import PelModel.Top
/-
  `main()` INSIDE a BMC (`inBMC = os.path.isdir(PELsPath)` is true): the parser has `-A` (`--archive`) instead of `-p` (`--path`),

      if not inBMC: …path checks…
      else:
          if args.archive: PELsPath = PELsArchivePath

  and everything after that is the same chain on `PELsPath`.  So the BMC command is the outside-BMC command with the directory
  name fixed and no directory test — which is how it is modelled: `runMainBmcF` = `runMainF` on `Args.inBmc` / the `World` that the
  chosen directory presents.  What is new is the SHAPE of the world: the archive is a subdirectory of the log directory.
-/
namespace Pel

/-- `PELsPath` and `PELsArchivePath` of `main()` -/
def bmcLogsPath : Text := s "/var/lib/phosphor-logging/extensions/pels/logs/"
def bmcArchivePath : Text := s "/var/lib/phosphor-logging/extensions/pels/logs/archive"

def bmcPath (archive : Bool) : Text := if archive then bmcArchivePath else bmcLogsPath

/-- what a BMC holds, as far as one invocation can see or change it -/
structure BmcWorld where
  logs : Dir := []                    -- top-level regular files of the log directory, in `os.walk` order
  logSubdirs : List Text := []        -- its subdirectories other than `archive`
  archive : Option Dir := none        -- top-level regular files of `logs/archive`, if that directory exists
  archiveSubdirs : List Text := []
  file : Option Bytes := none         -- as in `World`
  exclude : Option Text := none
  out : Option Dir := none
deriving Repr, DecidableEq

/-- the command line as the rest of `main()` sees it: `PELsPath` is fixed by `-A` -/
def Args.inBmc (a : Args) (archive : Bool) : Args := { a with path := some (bmcPath archive) }

/-- the directory the invocation works on, as a `World` (never tested with `isdir`: a missing archive walks as empty) -/
def BmcWorld.view (b : BmcWorld) (archive : Bool) : World :=
  if archive then
    { pathIsDir := true, dir := b.archive.getD [], subdirs := b.archiveSubdirs, file := b.file, exclude := b.exclude, out := b.out }
  else
    { pathIsDir := true, dir := b.logs, subdirs := (if b.archive.isSome then [s "archive"] else []) ++ b.logSubdirs,
      file := b.file, exclude := b.exclude, out := b.out }

/-- the BMC after the invocation: only the directory worked on (and the `-f` file / the `-o` directory) can differ -/
def BmcWorld.update (b : BmcWorld) (archive : Bool) (w' : World) : BmcWorld :=
  if archive then { b with archive := b.archive.map (fun _ => w'.dir), file := w'.file, out := w'.out }
  else { b with logs := w'.dir, file := w'.file, out := w'.out }

structure BmcResult where
  stdout : Text
  diagnostics : Nat
  message : Option Text
  exit : Nat
  world : BmcWorld
deriving Repr, DecidableEq

/-- the whole command inside a BMC: `peltool [-A] <a>` -/
def runMainBmcF (fault : Nat → Bool) (env : Env) (a : Args) (archive : Bool) (b : BmcWorld) : BmcResult :=
  let r := runMainF fault env (a.inBmc archive) (b.view archive)
  { stdout := r.stdout, diagnostics := r.diagnostics, message := r.message, exit := r.exit, world := b.update archive r.world }

def runMainBmc (env : Env) (a : Args) (archive : Bool) (b : BmcWorld) : BmcResult := runMainBmcF noFault env a archive b

end Pel
