/-
  Basic vocabulary of the model.  Bytes and characters are natural numbers
  (`Bytes = List Nat` with every element < 256 where it matters, text is a
  list of code points).  Python string/number formatting used by the decoders
  is modelled function by function.
-/
namespace Pel

abbrev Bytes := List Nat
abbrev Text := List Nat          -- code points

/-- every element is a byte -/
def allBytes (b : Bytes) : Bool := b.all (· < 256)

/-- Lean `String` → code points (only used for literals and at the driver boundary) -/
def s (x : String) : Text := x.toList.map Char.toNat

def textToString (t : Text) : String := String.ofList (t.map Char.ofNat)

/-! ### big-endian integers -/

def toBE : Nat → Nat → Bytes
  | 0, _ => []
  | n+1, v => toBE n (v / 256) ++ [v % 256]

def fromBE (bs : Bytes) : Nat := bs.foldl (fun a b => a * 256 + b) 0

/-! ### hexadecimal / decimal rendering -/

/-- upper-case hex digit of `n % 16` -/
def hexU (n : Nat) : Nat := if n % 16 < 10 then 48 + n % 16 else 55 + n % 16
/-- lower-case hex digit of `n % 16` -/
def hexL (n : Nat) : Nat := if n % 16 < 10 then 48 + n % 16 else 87 + n % 16

/-- exactly `w` upper-case hex digits of `v` (low `4w` bits) -/
def hexFix : Nat → Nat → Text
  | 0, _ => []
  | n+1, v => hexFix n (v / 16) ++ [hexU v]

def hexFixL : Nat → Nat → Text
  | 0, _ => []
  | n+1, v => hexFixL n (v / 16) ++ [hexL v]

def hexLenAux : Nat → Nat → Nat
  | 0, _ => 1
  | f+1, v => if v < 16 then 1 else 1 + hexLenAux f (v / 16)
/-- number of hex digits of `v` (at least one) -/
def hexLen (v : Nat) : Nat := hexLenAux v v

/-- Python `"%0wX" % v` / `"{:0wX}".format(v)`: at least `w` digits, more if needed -/
def fmtHex (w v : Nat) : Text := hexFix (max w (hexLen v)) v
/-- Python `"%0wx" % v` -/
def fmtHexL (w v : Nat) : Text := hexFixL (max w (hexLen v)) v

def decFix : Nat → Nat → Text
  | 0, _ => []
  | n+1, v => decFix n (v / 10) ++ [48 + v % 10]
def decLenAux : Nat → Nat → Nat
  | 0, _ => 1
  | f+1, v => if v < 10 then 1 else 1 + decLenAux f (v / 10)
def decLen (v : Nat) : Nat := decLenAux v v
/-- Python `str(v)` for a non-negative int -/
def natDec (v : Nat) : Text := decFix (decLen v) v
/-- Python `"%0wd" % v` -/
def fmtDec0 (w v : Nat) : Text := decFix (max w (decLen v)) v
/-- Python `"%wd" % v` (space padded on the left) -/
def fmtDecSp (w v : Nat) : Text :=
  let d := natDec v
  List.replicate (w - d.length) 32 ++ d

/-- `int(t)` for a string of ASCII digits -/
def decVal (t : Text) : Nat := t.foldl (fun a c => a * 10 + (c - 48)) 0

/-- bytes.hex(): two lower-case digits per byte -/
def bytesHexL (b : Bytes) : Text := b.flatMap (fun x => [hexL (x / 16), hexL x])
def bytesHexU (b : Bytes) : Text := b.flatMap (fun x => [hexU (x / 16), hexU x])

def isHexDigit (c : Nat) : Bool :=
  (48 ≤ c && c ≤ 57) || (65 ≤ c && c ≤ 70) || (97 ≤ c && c ≤ 102)

def hexVal (c : Nat) : Nat :=
  if 48 ≤ c ∧ c ≤ 57 then c - 48 else if 65 ≤ c ∧ c ≤ 70 then c - 55 else c - 87

/-- int(text, 16) for a string of hex digits -/
def parseHexText (t : Text) : Nat := t.foldl (fun a c => a * 16 + hexVal c) 0

/-! ### Python string helpers -/

def ljust (w : Nat) (fill : Nat) (t : Text) : Text := t ++ List.replicate (w - t.length) fill

def rstripChar (c : Nat) (t : Text) : Text := (t.reverse.dropWhile (· == c)).reverse
def lstripChar (c : Nat) (t : Text) : Text := t.dropWhile (· == c)
/-- `str.strip("\0")` -/
def stripNul (t : Text) : Text := rstripChar 0 (lstripChar 0 t)

/-- ASCII whitespace as used by `str.strip()` on the text the decoders see
    (space, \t \n \v \f \r, and the separators FS GS RS US, plus \x85 / \xa0 that
    Python's str.isspace also accepts for non-ASCII text). -/
def isPySpace (c : Nat) : Bool :=
  c == 32 || (9 ≤ c && c ≤ 13) || (28 ≤ c && c ≤ 31) || c == 0x85 || c == 0xA0 ||
  c == 0x1680 || (0x2000 ≤ c && c ≤ 0x200A) || c == 0x2028 || c == 0x2029 || c == 0x202F ||
  c == 0x205F || c == 0x3000
def rstripSp (t : Text) : Text := (t.reverse.dropWhile isPySpace).reverse
def lstripSp (t : Text) : Text := t.dropWhile isPySpace
def stripSp (t : Text) : Text := rstripSp (lstripSp t)

def toLowerAscii (c : Nat) : Nat := if 65 ≤ c ∧ c ≤ 90 then c + 32 else c
def toUpperAscii (c : Nat) : Nat := if 97 ≤ c ∧ c ≤ 122 then c - 32 else c

/-- `needle in hay` -/
def isInfix (needle hay : Text) : Bool :=
  match hay with
  | [] => needle.isEmpty
  | _ :: t => needle.isPrefixOf hay || isInfix needle t

/-- join lines with a separator -/
def joinWith (sep : Text) : List Text → Text
  | [] => []
  | [x] => x
  | x :: xs => x ++ sep ++ joinWith sep xs

def spaces (n : Nat) : Text := List.replicate n 32

end Pel
