import PelModel.Basic
/- `bytes.decode()` (strict UTF-8) and `str.encode('utf-8')`. -/
namespace Pel

def isCont (b : Nat) : Bool := 0x80 ≤ b && b ≤ 0xBF

/-- strict UTF-8 decoder: rejects overlongs, surrogates and code points above U+10FFFF -/
def utf8Decode : Bytes → Option Text
  | [] => some []
  | b0 :: r =>
    if b0 < 0x80 then (utf8Decode r).map (b0 :: ·)
    else if 0xC2 ≤ b0 ∧ b0 ≤ 0xDF then
      match r with
      | b1 :: r' => if isCont b1 then (utf8Decode r').map (((b0 - 0xC0) * 64 + (b1 - 0x80)) :: ·) else none
      | _ => none
    else if 0xE0 ≤ b0 ∧ b0 ≤ 0xEF then
      match r with
      | b1 :: b2 :: r' =>
        let lo := if b0 = 0xE0 then 0xA0 else 0x80
        let hi := if b0 = 0xED then 0x9F else 0xBF
        if lo ≤ b1 ∧ b1 ≤ hi ∧ isCont b2 then
          (utf8Decode r').map (((b0 - 0xE0) * 4096 + (b1 - 0x80) * 64 + (b2 - 0x80)) :: ·)
        else none
      | _ => none
    else if 0xF0 ≤ b0 ∧ b0 ≤ 0xF4 then
      match r with
      | b1 :: b2 :: b3 :: r' =>
        let lo := if b0 = 0xF0 then 0x90 else 0x80
        let hi := if b0 = 0xF4 then 0x8F else 0xBF
        if lo ≤ b1 ∧ b1 ≤ hi ∧ isCont b2 ∧ isCont b3 then
          (utf8Decode r').map (((b0 - 0xF0) * 262144 + (b1 - 0x80) * 4096 + (b2 - 0x80) * 64 + (b3 - 0x80)) :: ·)
        else none
      | _ => none
    else none

def utf8EncodeChar (c : Nat) : Bytes :=
  if c < 0x80 then [c]
  else if c < 0x800 then [0xC0 + c / 64, 0x80 + c % 64]
  else if c < 0x10000 then [0xE0 + c / 4096, 0x80 + c / 64 % 64, 0x80 + c % 64]
  else [0xF0 + c / 262144, 0x80 + c / 4096 % 64, 0x80 + c / 64 % 64, 0x80 + c % 64]

def utf8Encode (t : Text) : Bytes := t.flatMap utf8EncodeChar

end Pel
