import PelModel.PyFmt
/-
  Model of modules/io_drawer/ilog.py (PTETableEntry, PTETable.get_entry, parse_ilog_data) and
  modules/io_drawer/utils.py (format_timestamp), plus the declarative reading of property C14.
  The table is abstract (the regex that reads it from the C header is covered by correspondence).
-/
namespace Pel

structure PteEntry where
  pattern : Text            -- as in the header file, `*` = any one character
  fmt : Text                -- message format (stripped, `\"` unescaped)
  params : List Nat         -- as read from the header (before the 1..4 filter)
deriving Repr, DecidableEq

/-- `format_timestamp` -/
def formatTimestamp (t : Nat) : Text :=
  if t ≥ 0xFFFF then s "--------"
  else
    let hh := t / 3600
    let mm := (t - hh * 3600) / 60
    let ss := t - hh * 3600 - mm * 60
    fmtDecSp 2 hh ++ [58] ++ fmtDec0 2 mm ++ [58] ++ fmtDec0 2 ss

def isReportedError (pte : Nat) : Bool :=
  (pte &&& 0xF0000000 == 0xE0000000) && (pte &&& 0x00040000 == 0x00040000)

/-- pattern characters the model understands: hex digits and `*` -/
def patternSupported (p : Text) : Bool := p.all (fun c => isHexDigit c || c == 42)

/-- position-wise, case-insensitive match of a pattern against the 8 upper-case hex digits -/
def wildMatch : Text → Text → Bool
  | [], [] => true
  | p :: ps, h :: hs => (p == 42 || toUpperAscii p == h) && wildMatch ps hs
  | _, _ => false

def isExactMatch (e : PteEntry) (pte : Nat) : Bool := wildMatch e.pattern (fmtHex 8 pte)

/-- `PTETableEntry.matches` -/
def pteMatches (e : PteEntry) (pte : Nat) : Bool :=
  if isExactMatch e pte then true
  else if isReportedError pte then
    isExactMatch e (pte &&& (0xFFFFFFFF - 0x00040000))   -- `pte &= ~REPORTED_MASK` on a 32-bit value
  else false

/-- `PTETable.get_entry`: first match in header-file order -/
def getEntry : List PteEntry → Nat → Option PteEntry
  | [], _ => none
  | e :: es, pte => if pteMatches e pte then some e else getEntry es pte

def pteByte (pte : Nat) (p : Nat) : Nat := (toBE 4 (pte % 2^32)).getD (p - 1) 0

def validParams (ps : List Nat) : List Nat := ps.filter (fun p => 1 ≤ p && p ≤ 4)

/-- `PTETableEntry.get_message`; `none` = format outside the modelled `%` subset -/
def pteMessage (e : PteEntry) (pte : Nat) : Option Text :=
  match pyFmtOrRaw e.fmt ((validParams e.params).map (pteByte pte)) with
  | none => none
  | some m => some (if isReportedError pte then m ++ s " - PEL entry created" else m)

def ilogHeading : List Text :=
  [s "hh:mm:ss seq  pppppppp description", s "-------- ---- -------- ------------------------------------"]

def ilogLine (tbl : List PteEntry) (ts seq pte : Nat) : Option Text :=
  let msg : Option Text := match getEntry tbl pte with
    | none => some (s "Undefined")
    | some e => pteMessage e pte
  msg.map fun m => formatTimestamp ts ++ [32] ++ fmtHex 4 seq ++ [32] ++ fmtHex 8 pte ++ [32] ++ m

/-- the `while stream.check_range(8)` loop; `none` anywhere = unsupported format met -/
def ilogLoop (tbl : List PteEntry) (b : Bytes) : Option (List Text) :=
  if h : 8 ≤ b.length then
    let ts := fromBE (b.take 2)
    let seq := fromBE ((b.drop 2).take 2)
    let pte := fromBE ((b.drop 4).take 4)
    match ilogLoop tbl (b.drop 8) with
    | none => none
    | some rest =>
      if ts = 0 ∧ seq = 0 ∧ pte = 0 then some rest
      else match ilogLine tbl ts seq pte with
        | none => none
        | some l => some (l :: rest)
  else some []
termination_by b.length
decreasing_by simp only [List.length_drop]; omega

/-- `parse_ilog_data` -/
def parseIlog (tbl : List PteEntry) (b : Bytes) : Option (List Text) :=
  (ilogLoop tbl b).map (ilogHeading ++ ·)

/-! ### the declarative reading (C14) -/

structure IlogEntry where
  ts : Nat
  seq : Nat
  pte : Nat
deriving Repr, DecidableEq

def IlogEntry.WF (e : IlogEntry) : Prop := e.ts < 2^16 ∧ e.seq < 2^16 ∧ e.pte < 2^32
def IlogEntry.enc (e : IlogEntry) : Bytes := toBE 2 e.ts ++ toBE 2 e.seq ++ toBE 4 e.pte
def IlogEntry.isZero (e : IlogEntry) : Bool := e.ts == 0 && e.seq == 0 && e.pte == 0

/-- description by the property's rule: first table entry whose pattern matches the PTE as is, or - for a
    reported error - with the reported flag cleared; its format filled from the designated PTE bytes;
    `Undefined` if none; suffix exactly for reported errors -/
def specMatches (e : PteEntry) (pte : Nat) : Bool :=
  wildMatch e.pattern (hexFix 8 pte) ||
    (isReportedError pte && wildMatch e.pattern (hexFix 8 (pte &&& 0xFFFBFFFF)))

def specDescription (tbl : List PteEntry) (pte : Nat) : Option Text :=
  match tbl.find? (fun e => specMatches e pte) with
  | none => some (s "Undefined")
  | some e =>
    (pyFmtOrRaw e.fmt ((e.params.filter (fun p => 1 ≤ p && p ≤ 4)).map (fun p => (toBE 4 pte).getD (p - 1) 0))).map
      fun m => if isReportedError pte then m ++ s " - PEL entry created" else m

def specTimestamp (t : Nat) : Text :=
  if t = 0xFFFF then s "--------"
  else fmtDecSp 2 (t / 3600) ++ [58] ++ fmtDec0 2 (t % 3600 / 60) ++ [58] ++ fmtDec0 2 (t % 60)

def specIlogLine (tbl : List PteEntry) (e : IlogEntry) : Option Text :=
  (specDescription tbl e.pte).map fun m =>
    specTimestamp e.ts ++ [32] ++ hexFix 4 e.seq ++ [32] ++ hexFix 8 e.pte ++ [32] ++ m

def optAll {α} : List (Option α) → Option (List α)
  | [] => some []
  | none :: _ => none
  | some x :: r => (optAll r).map (x :: ·)

def specIlog (tbl : List PteEntry) (es : List IlogEntry) : Option (List Text) :=
  (optAll ((es.filter (fun e => !e.isZero)).map (specIlogLine tbl))).map (ilogHeading ++ ·)

end Pel
