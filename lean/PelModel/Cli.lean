import PelModel.Pel
import PelModel.JsonSpec
import PelModel.HexDump
/-
  Model of the directory / file modes of peltool.py `main()`: file list, --list, --show-pel-count,
  --all-pels, --plid, --src, --src-exclude, --id, --bmc-id, --delete, --delete-all, --json, --file, --clean.
  A PEL directory is the list of its top-level regular files IN os.walk ORDER (a parameter of the model);
  subdirectories are never entered by any mode and are not represented.
-/
namespace Pel

structure FileEntry where
  name : Text
  data : Bytes
deriving Repr, DecidableEq

abbrev Dir := List FileEntry

/-- Python `str <` on names: lexicographic by code point -/
def textLt : Text → Text → Bool
  | [], [] => false
  | [], _ :: _ => true
  | _ :: _, [] => false
  | a :: as, b :: bs => if a < b then true else if b < a then false else textLt as bs

def insertByName (f : FileEntry) : List FileEntry → List FileEntry
  | [] => [f]
  | g :: gs => if textLt g.name f.name then g :: insertByName f gs else f :: g :: gs

/-- `list.sort()` on the names (names in a directory are distinct) -/
def sortByName : List FileEntry → List FileEntry
  | [] => []
  | f :: fs => insertByName f (sortByName fs)

/-- `os.path.splitext(name)[1]`: from the last dot, unless only dots precede it -/
def splitext (name : Text) : Text :=
  let r := name.reverse
  let afterDot := r.dropWhile (· != 46)       -- reversed: ".<stem reversed>"
  match afterDot with
  | [] => []
  | _ :: stemRev => if stemRev.all (· == 46) then [] else (r.takeWhile (· != 46)).reverse |> (46 :: ·)

/-- `getFileList(path, extension, rev)` -/
def getFileList (d : Dir) (ext : Option Text) (rev : Bool) : List FileEntry :=
  let l := d.filter (fun f => match ext with
    | some e => if e = [] then true else splitext f.name == e
    | none => true)
  let sorted := sortByName l
  if rev then sorted.reverse else sorted

structure CliOpts where
  cfg : SelCfg := {}
  hex : Bool := false
  rev : Bool := false
  ext : Option Text := none
deriving Repr

/-- what a mode writes: stdout as text, number of diagnostic lines on stderr, exit status -/
structure CliOut where
  stdout : Text
  stderrLines : Nat
  exit : Nat
deriving Repr, DecidableEq

def nl : Text := [10]
def linesOut (ls : List Text) : Text := ls.flatMap (· ++ nl)

/-- one file of --list / --plid / --src: `(eid, summary)` if selected and decodable; `inl` = a diagnostic -/
inductive FileRes (α : Type) where
  | some (x : α)
  | skip            -- filtered / bad header id: nothing printed, no diagnostic from this loop
  | diag            -- an exception was caught and reported on stderr
deriving Repr

def summaryOf (env : Env) (cfg : SelCfg) (f : FileEntry) : FileRes (Summary × Nat × Option Text) :=
  match parseSummary env cfg f.data with
  | .summary s plid src => .some (s, plid, src)
  | .filtered => .skip
  | .badHeader => .skip      -- generatePH/UH print their own line on stderr; counted separately by the harness as "≥ 1"
  | .error _ => .diag

def summaryObj (entries : List Summary) : J :=
  .obj (entries.foldl (fun acc e => objSet acc e.eid (.obj e.fields)) [])

def countDiag {α} (l : List (FileRes α)) : Nat := (l.filter (fun r => match r with | .diag => true | _ => false)).length
def keepSome {α} (l : List (FileRes α)) : List α := l.filterMap (fun r => match r with | .some x => some x | _ => none)

/-- `--list` -/
def listMode (env : Env) (o : CliOpts) (d : Dir) : CliOut :=
  let files := getFileList d o.ext o.rev
  let rs := files.map (fun f => (f, summaryOf env o.cfg f))
  let ok := rs.filterMap (fun p => match p.2 with | .some x => some (p.1, x) | _ => none)
  let out := if o.hex then (ok.flatMap fun p => linesOut (pelHexDisplay p.1.data))
             else prettyPrint 29 (dumps (summaryObj (ok.map (·.2.1)))) ++ nl
  { stdout := out, stderrLines := countDiag (rs.map (·.2)), exit := 0 }

/-- `--show-pel-count`: only the two headers are read (never reversed) -/
def countOne (env : Env) (cfg : SelCfg) (f : FileEntry) : FileRes Unit :=
  let r : Rd (FileRes Unit) := do
    let h1 ← parseHeader
    if h1.id ≠ sidPH then pure .skip else do
    let (_, ph) ← decodePH env.T h1
    let h2 ← parseHeader
    if h2.id ≠ sidUH then pure .skip else do
    let (_, uh) ← decodeUH env.T h2 ph.creator
    if considerPEL uh.severity uh.actionFlags cfg then pure (.some ()) else pure .skip
  match r f.data with
  | .ok (x, _) => x
  | .error _ => .diag

def countMode (env : Env) (o : CliOpts) (d : Dir) : CliOut :=
  let rs := (getFileList d o.ext false).map (countOne env o.cfg)
  { stdout := s "{\n    \"Number of PELs found\": " ++ natDec (keepSome rs).length ++ s "\n}\n",
    stderrLines := countDiag rs, exit := 0 }

def fullOf (env : Env) (cfg : SelCfg) (f : FileEntry) : FileRes (Text × J) :=
  match parsePEL env cfg f.data with
  | .doc eid j => .some (eid, j)
  | .filtered => .skip
  | .badHeader => .skip
  | .error _ => .diag

/-- `--all-pels` -/
def allMode (env : Env) (o : CliOpts) (d : Dir) : CliOut :=
  let files := getFileList d o.ext o.rev
  let rs := files.map (fun f => (f, fullOf env o.cfg f))
  let ok := rs.filterMap (fun p => match p.2 with | .some x => some (p.1, x) | _ => none)
  let out := if o.hex then (ok.flatMap fun p => linesOut (pelHexDisplay p.1.data))
             else listFraming (ok.map fun p => prettyPrint 34 (dumps p.2.2))
  { stdout := out, stderrLines := countDiag (rs.map (·.2)), exit := 0 }

/-- `processId`: upper-case, drop a leading "0X", must then have eight characters -/
def processId (t : Text) : Option Text :=
  let u := t.map toUpperAscii
  let v := if (s "0X").isPrefixOf u then u.drop 2 else u
  if v.length = 8 then some v else none

/-- `--plid X` -/
def plidMode (env : Env) (o : CliOpts) (x : Text) (d : Dir) : CliOut :=
  match processId x with
  | none => { stdout := [], stderrLines := 1, exit := 1 }
  | some pid =>
    let files := getFileList d o.ext o.rev
    let rs := files.map (fun f => (f, summaryOf env { o.cfg with lookup := true } f))
    let ok := rs.filterMap (fun p => match p.2 with
      | .some (sm, plid, _) => if pid = fmtHex 8 plid then some (p.1, sm) else none
      | _ => none)
    let out := if o.hex then (ok.flatMap fun p => linesOut (pelHexDisplay p.1.data))
               else prettyPrint 29 (dumps (summaryObj (ok.map (·.2)))) ++ nl
    { stdout := out, stderrLines := countDiag (rs.map (·.2)), exit := 0 }

/-- `--src S` / `--src-exclude file`: a PEL without a primary SRC raises KeyError and is reported on stderr -/
def srcMode (env : Env) (o : CliOpts) (needle : Option Text) (excludeText : Option Text) (d : Dir) : CliOut :=
  if (match needle with | some n => decide (n.length > 32) | none => false) then { stdout := [], stderrLines := 1, exit := 1 } else
  let files := getFileList d o.ext o.rev
  let rs : List (FileEntry × FileRes (List Summary)) := files.map fun f =>
    match summaryOf env { o.cfg with lookup := true } f with
    | .some (sm, _, some rc) =>
      let a := match needle with
        | some n => if n ≠ [] ∧ isInfix n rc then [sm] else []
        | none => []
      let b := match excludeText with
        | some t => if !isInfix rc t then [sm] else []
        | none => []
      (f, .some (a ++ b))
    | .some (_, _, none) => (f, .diag)
    | .skip => (f, .skip)
    | .diag => (f, .diag)
  let ok := rs.filterMap (fun p => match p.2 with | .some l => some (p.1, l) | _ => none)
  let out := if o.hex then (ok.flatMap fun p => p.2.flatMap fun _ => linesOut (pelHexDisplay p.1.data))
             else prettyPrint 29 (dumps (summaryObj (ok.flatMap (·.2)))) ++ nl
  { stdout := out, stderrLines := countDiag (rs.map (·.2)), exit := 0 }

/-- `parseAndPrintPELFile` for one file: printed text (if any), whether a diagnostic was written -/
def printOne (env : Env) (o : CliOpts) (cfg : SelCfg) (f : FileEntry) : Text × Nat :=
  match fullOf env cfg f with
  | .some (_, j) => (if o.hex then linesOut (pelHexDisplay f.data) else prettyPrint 34 (dumps j) ++ nl, 0)
  | .skip => ([], 0)
  | .diag => ([], 1)

/-- `--id E`: the first file in walk order whose name contains the processed id -/
def idMode (env : Env) (o : CliOpts) (e : Text) (d : Dir) : CliOut :=
  match processId e with
  | none => { stdout := [], stderrLines := 1, exit := 1 }
  | some pid =>
    match d.find? (fun f => isInfix pid f.name) with
    | none => { stdout := s "PEL not found\n", stderrLines := 0, exit := 0 }
    | some f => let (t, n) := printOne env o { o.cfg with lookup := true } f
                { stdout := t, stderrLines := n, exit := 0 }

/-- `--bmc-id N`: walk order; a file whose header cannot be read is reported and skipped -/
def bmcIdGo (env : Env) (o : CliOpts) (n : Text) : Dir → Nat → CliOut
  | [], errs => { stdout := s "PEL not found\n", stderrLines := errs, exit := 0 }
  | f :: fs, errs =>
    let r : Rd (Option Nat) := do
      let h1 ← parseHeader
      if h1.id ≠ sidPH then pure none else do
      let (_, ph) ← decodePH env.T h1
      pure (some ph.obmcLogID)
    match r f.data with
    | .ok (some id, _) =>
      if natDec id = n then
        let (t, k) := printOne env o { o.cfg with lookup := true } f
        -- a decode error inside the try block is reported and the walk goes on
        if k = 1 then bmcIdGo env o n fs (errs + 1) else { stdout := t, stderrLines := errs, exit := 0 }
      else bmcIdGo env o n fs errs
    | _ => bmcIdGo env o n fs (errs + 1)

def bmcIdMode (env : Env) (o : CliOpts) (n : Text) (d : Dir) : CliOut := bmcIdGo env o n d 0

/-! ### modes that change the directory -/

/-- `--delete E`: removes at most one file: the first in walk order whose name contains the id -/
def deleteMode (e : Text) (d : Dir) : CliOut × Dir :=
  match processId e with
  | none => ({ stdout := [], stderrLines := 1, exit := 1 }, d)
  | some pid =>
    match d.find? (fun f => isInfix pid f.name) with
    | none => ({ stdout := s "PEL not found\n", stderrLines := 0, exit := 0 }, d)
    | some f => ({ stdout := [], stderrLines := 0, exit := 0 }, d.erase f)

/-- `--delete-all`: every top-level regular file -/
def deleteAllMode (_d : Dir) : CliOut × Dir := ({ stdout := [], stderrLines := 0, exit := 0 }, [])

/-- `--json [-o out] [-c]`: files created (name, content) and inputs removed -/
structure JsonEffects where
  created : List (Text × Text)
  removed : List Text
  stderrLines : Nat
deriving Repr

def jsonMode (env : Env) (o : CliOpts) (clean : Bool) (d : Dir) : JsonEffects :=
  let files := d.filter (fun f => match o.ext with
    | some e => if e = [] then true else splitext f.name == e
    | none => true)
  let rs := files.map (fun f => (f, fullOf env o.cfg f))
  { created := rs.filterMap (fun p => match p.2 with
      | .some (eid, j) => some (p.1.name ++ [46] ++ eid ++ s ".json", prettyPrint 34 (dumps j))
      | _ => none),
    removed := if clean then rs.filterMap (fun p => match p.2 with | .some _ => some p.1.name | _ => none) else [],
    stderrLines := (rs.filter (fun p => match p.2 with | .some _ => false | _ => true)).length }

end Pel
