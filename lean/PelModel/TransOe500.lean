import PelModel.HwDiags
import PelModel.IoDrawerSem
import PelModel.TransSrc
/-
  Vocabulary of the definitions that `harness/trans_oe500.py` regenerates from the SOURCE TEXT of
  modules/udparsers/oe500/oe500.py and modules/srcparsers/oe500/oe500.py (lean/PelGen/GenOe500.lean).

  STATIC and TRUSTED: every definition below is the meaning the translator gives to one Python construct (name map /
  idiom table at the head of the translator).  Nothing here mentions what the functions under translation compute:
  widths, counts, keys, format strings, slice bounds, the order of reads and of statements, which sub-type goes to which
  function are arguments the translator takes from the AST.  A function body is a reader (`Rd`, PelModel/Reader.lean) that
  starts WITHOUT a stream; `DataStream(d, …)` puts `d` under the cursor.  The reader and loop vocabulary is the one of the
  earlier streams (`getInt`, `getMem`, `forRangeRd`, `rdOfOption`, `dictOf` of PelModel/TransSrc.lean, `IoSem.slice` and the
  assertion-guarded `ParserData` functions of PelModel/IoDrawerSem.lean).  PelProps/TieC20.lean proves the generated
  definitions equal to `oe500Ud` / `oe500Src`; the lemmas are in PelProofs/TieOe500.lean.
-/
namespace Pel.Oe

/-- `stream = DataStream(d, byte_order='big', is_signed=False)`: from here on the reads consume `d` -/
def «open» (d : Bytes) : Rd Unit := fun _ => .ok ((), d)

/-- a parser-module function whose body is the reader `r` and whose `return json.dumps(v)` is `pure v`: what the caller
    (peltool) gets.  Any exception is `raises`; `unsupported` is not a behaviour of the code (`json.loads` of a text outside
    the modelled JSON subset). -/
def out (r : Rd J) : PluginOut :=
  match r [] with
  | .ok (j, _) => .json j
  | .error .unsupported => .unsupported
  | .error _ => .raises

/-- `return f(…)` where `f` is a function of the same module that is translated at the call: its outcome is the caller's -/
def tail : PluginOut → Rd J
  | .json j => pure j
  | .raises => Rd.fail .other
  | .unsupported => Rd.fail .unsupported

/-- `json.loads(t)`: ValueError on malformed text -/
def jsonLoads (t : Text) : Rd J :=
  match loads t with
  | .ok j => pure j
  | .bad => Rd.fail .other
  | .unsupported => Rd.fail .unsupported

/-- `b.decode('utf8')`: UnicodeDecodeError on malformed input -/
def decodeUtf8 (b : Bytes) : Rd Text :=
  match utf8Decode b with
  | some t => pure t
  | none => Rd.fail .decode

/-- `range(a, b, k)` for a literal `k > 0` (`range(a, b)` is `k = 1`) -/
def pyRange (a b k : Nat) : List Nat := (List.range ((b - a + (k - 1)) / k)).map (fun j => a + j * k)

/-- `for i in range(a, b, k): body` where the body reads or may raise -/
def forStepRd {σ : Type} (a b k : Nat) (body : Nat → σ → Rd σ) (init : σ) : Rd σ :=
  (pyRange a b k).foldlM (fun st i => body i st) init

/-- `for i in range(a, b, k): body` where the body neither reads nor raises (state = the variables the body assigns) -/
def forPure {σ : Type} (a b k : Nat) (body : Nat → σ → σ) (init : σ) : σ :=
  (pyRange a b k).foldl (fun st i => body i st) init

end Pel.Oe
