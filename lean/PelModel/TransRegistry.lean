import PelModel.Src
/-
  Vocabulary of harness/trans_registry.py (the message-registry look-up as the source text writes it).
-/
namespace Pel

/-- what `Registry.getErrorMessage` hands to `SRC.getErrorDetails` for the entry it found (the dictionary `output`) -/
structure RegHit where
  message : Text
  argSources : Option (List Text)
  words : List RegWord
deriving Repr, DecidableEq

/-- `'Words6To9' in S and S['Words6To9']` (absent and empty coincide in `RegEntry`) -/
def RegEntry.wordsTruthy (e : RegEntry) : Bool := !e.words.isEmpty

/-- `out = {}; for e in reg: (skip unless keep e); fill out from e; return out` … `return out`: the first entry that is not skipped -/
def firstHit (reg : List RegEntry) (keep : RegEntry → Bool) (copy : RegEntry → RegHit) : Option RegHit := (reg.find? keep).map copy

/-- the model's look-up (`regLookup`, PelModel/Src.lean) in the same terms -/
def regHit (reg : List RegEntry) (code ty : Text) : Option RegHit :=
  (regLookup reg code ty).map fun e => { message := e.message, argSources := e.argSources, words := e.words }

end Pel
