import PelModel.Reader
import PelModel.Utf8
import PelModel.Json
import PelModel.HexDump
/-
  Model of the header-type PEL sections (private_header.py, user_header.py, extend_user_header.py,
  failing_mtms.py, imp_partition.py, default.py, comp_id.py) as the code reads them.
-/
namespace Pel

/-- the published name tables (pel_values.py) and the component-id registry files, as parameters -/
structure Tables where
  creators : List (Text × Text)
  sectionNames : List (Text × Text)
  subsystems : List (Nat × Text)
  severities : List (Nat × Text)
  eventTypes : List (Nat × Text)
  eventScopes : List (Nat × Text)
  actionFlags : List (Nat × Text)
  transStates : List (Nat × Text)
  failingCompTypes : List (Nat × Text)
  calloutPriorities : List (Nat × Text)
  compIds : List (Text × List (Text × Text))      -- creator id → ("E500" → name)
deriving Repr

def lookupT (tbl : List (Text × Text)) (k : Text) : Option Text := (tbl.find? (fun p => p.1 == k)).map (·.2)
def lookupN (tbl : List (Nat × Text)) (k : Nat) : Option Text := (tbl.find? (fun p => p.1 == k)).map (·.2)

/-- Python `bytes.decode()` inside the reader -/
def getText (n : Nat) : Rd Text := do
  let m ← getMem n
  match utf8Decode m with
  | some t => pure t
  | none => Rd.fail .decode

/-- `getDisplayCompID(componentID, creatorID)` -/
def displayCompID (T : Tables) (comp : Nat) (creator : Text) : Text :=
  if lookupT T.creators creator = some (s "PHYP") then
    let first := (comp / 256) % 256
    let second := comp % 256
    if first ≠ 0 ∧ second ≠ 0 then [first, second] else fmtHex 4 comp
  else
    let cs := fmtHex 4 comp
    match (T.compIds.find? (fun p => p.1 == creator)) with
    | some (_, m) => (match lookupT m cs with
        | some nm => nm
        | none => cs)
    | none => cs

/-- `getTimestamp`: MM/DD/YYYY HH:MM:SS from eight BCD bytes -/
def getTimestamp : Rd Text := do
  let year ← getMem 2
  let month ← getMem 1
  let day ← getMem 1
  let hour ← getMem 1
  let min ← getMem 1
  let sec ← getMem 1
  let _ ← getMem 1
  pure (bytesHexL month ++ [47] ++ bytesHexL day ++ [47] ++ bytesHexL year ++ [32] ++ bytesHexL hour ++ [58] ++
    bytesHexL min ++ [58] ++ bytesHexL sec)

structure SecHdr where
  id : Nat
  len : Nat
  ver : Nat
  sub : Nat
  comp : Nat
deriving Repr, DecidableEq

/-- `parseHeader` -/
def parseHeader : Rd SecHdr := do
  let id ← getInt 2
  let len ← getInt 2
  let ver ← getInt 1
  let sub ← getInt 1
  let comp ← getInt 2
  pure { id, len, ver, sub, comp }

def kv (k : String) (v : J) : Text × J := (s k, v)
def jstr (t : Text) : J := .str t
def jnum (n : Nat) : J := .num n
def ox (t : Text) : Text := s "0x" ++ t

/-- what the Private Header contributes to later processing -/
structure PHInfo where
  creator : Text
  sectionCount : Nat
  obmcLogID : Nat
  plid : Nat
  eid : Nat
  commitTime : Text
deriving Repr

/-- `PrivateHeader.toJSON` -/
def decodePH (T : Tables) (h : SecHdr) : Rd (J × PHInfo) := do
  let createTime ← getTimestamp
  let commitTime ← getTimestamp
  let creator ← getText 1
  let _ ← getInt 1
  let _ ← getInt 1
  let sectionCount ← getInt 1
  let obmc ← getInt 4
  let cver ← getInt 8
  let plid ← getInt 4
  let eid ← getInt 4
  let out := J.obj [
    kv "Section Version" (jnum h.ver), kv "Sub-section type" (jnum h.sub),
    kv "Created by" (jstr (displayCompID T h.comp creator)),
    kv "Created at" (jstr createTime), kv "Committed at" (jstr commitTime),
    kv "Creator Subsystem" (jstr ((lookupT T.creators creator).getD (s "Unknown"))),
    kv "CSSVER" (jstr (ox (fmtHex 2 cver))),
    kv "Platform Log Id" (jstr (ox (fmtHex 2 plid))),
    kv "Entry Id" (jstr (ox (fmtHex 2 eid))),
    kv "BMC Event Log Id" (jstr (natDec obmc))]
  pure (out, { creator, sectionCount, obmcLogID := obmc, plid, eid, commitTime })

structure UHInfo where
  severity : Nat
  actionFlags : Nat
deriving Repr

/-- `UserHeader.toJSON` -/
def decodeUH (T : Tables) (h : SecHdr) (creator : Text) : Rd (J × UHInfo) := do
  let subsys ← getInt 1
  let scope ← getInt 1
  let sev ← getInt 1
  let etype ← getInt 1
  let _ ← getInt 4
  let _ ← getInt 1
  let _ ← getInt 1
  let af ← getInt 2
  let states ← getInt 4
  let flags := (T.actionFlags.filter (fun p => p.1 &&& af != 0)).map (fun p => jstr p.2)
  let out := J.obj [
    kv "Section Version" (jnum h.ver), kv "Sub-section type" (jnum h.sub),
    kv "Log Committed by" (jstr (displayCompID T h.comp creator)),
    kv "Subsystem" (jstr ((lookupN T.subsystems subsys).getD (s "Invalid"))),
    kv "Event Scope" (jstr ((lookupN T.eventScopes scope).getD (s "Invalid"))),
    kv "Event Severity" (jstr ((lookupN T.severities sev).getD (s "Invalid"))),
    kv "Event Type" (jstr ((lookupN T.eventTypes etype).getD (s "Invalid"))),
    kv "Action Flags" (.arr flags),
    kv "Host Transmission" (jstr ((lookupN T.transStates (states &&& 0xff)).getD (s "Unknown"))),
    kv "HMC Transmission" (jstr ((lookupN T.transStates ((states &&& 0xFF00) >>> 8)).getD (s "Unknown")))]
  pure (out, { severity := sev, actionFlags := af })

/-- `ExtendedUserHeader.toJSON` -/
def decodeEH (T : Tables) (h : SecHdr) (creator : Text) : Rd J := do
  let mt ← getText 8
  let sn ← getText 12
  let fw ← getText 16
  let subfw ← getText 16
  let _ ← getInt 4
  let refTime ← getTimestamp
  let _ ← getInt 1
  let _ ← getInt 1
  let _ ← getInt 1
  let symLen ← getInt 1
  let sym ← if symLen ≠ 0 then getText symLen else pure []
  pure (J.obj [
    kv "Section Version" (jnum h.ver), kv "Sub-section type" (jnum h.sub),
    kv "Created by" (jstr (displayCompID T h.comp creator)),
    kv "Reporting Machine Type" (jstr (stripNul mt)),
    kv "Reporting Serial Number" (jstr (stripNul sn)),
    kv "FW Released Ver" (jstr (stripNul fw)),
    kv "FW SubSys Version" (jstr (stripNul subfw)),
    kv "Common Ref Time" (jstr refTime),
    kv "Symptom Id Len" (jstr (natDec symLen)),
    kv "Symptom Id" (jstr (stripNul sym))])

/-- `FailingMTMS.toJSON` -/
def decodeMT (T : Tables) (h : SecHdr) (creator : Text) : Rd J := do
  let mt ← getText 8
  let sn ← getText 12
  pure (J.obj [
    kv "Section Version" (jnum h.ver), kv "Sub-section type" (jnum h.sub),
    kv "Created by" (jstr (displayCompID T h.comp creator)),
    kv "Machine Type Model" (jstr (stripNul mt)),
    kv "Serial Number" (jstr (stripNul sn))])

def getInts (width : Nat) : Nat → Rd (List Nat)
  | 0 => pure []
  | n+1 => do let x ← getInt width; let xs ← getInts width n; pure (x :: xs)

/-- `ImpactedPartition.toJSON` -/
def decodeLP (T : Tables) (h : SecHdr) (creator : Text) : Rd J := do
  let primary ← getInt 2
  let nameLen ← getInt 1
  let count ← getInt 1
  let logId ← getInt 4
  let name ← if nameLen ≠ 0 then (do let t ← getText nameLen; pure (rstripChar 0 t)) else pure []
  let targets ← getInts 2 count
  let _ ← if count % 2 ≠ 0 then getInt 2 else pure 0
  pure (J.obj ([
    kv "Section Version" (jnum h.ver), kv "Sub-section type" (jnum h.sub),
    kv "Created by" (jstr (displayCompID T h.comp creator)),
    kv "Primary Partition ID" (jstr (ox (fmtHex 4 primary))),
    kv "Length of LP Name" (jstr (ox (fmtHex 2 nameLen))),
    kv "Target LP Count" (jstr (ox (fmtHex 2 count))),
    kv "Logical Partition Log ID" (jstr (ox (fmtHex 8 logId))),
    kv "Primary Partition Name" (jstr name)] ++
    (if count ≠ 0 then [kv "Target LP" (.arr (targets.map fun t => jstr (ox (fmtHex 4 t))))] else [])))

def hexdumpJ (b : Bytes) : J := .arr ((hexdump16 b).map jstr)

/-- `Default`: payload by the declared length, hex-dumped -/
def decodeDefault (h : SecHdr) : Rd J := do
  let data ← getMem (h.len - 8)
  pure (J.obj [
    kv "Section Version" (jnum h.ver), kv "Sub-section type" (jnum h.sub),
    kv "Created by" (jstr (ox (fmtHex 2 h.comp))),
    kv "Data" (hexdumpJ data)])

/-- `getSectionName` -/
def sectionName (T : Tables) (id : Nat) : Text :=
  (lookupT T.sectionNames [(id / 256) % 256, id % 256]).getD (s "Unknown")

end Pel
