import PelModel.Main
/-
  The WHOLE command: `main()`'s dispatch (PelModel/Main.lean) composed with the mode functions it names (PelModel/Cli.lean)
  and the `-f … --clean` continuation (PelModel/Clean.lean), over a `World` = what one invocation of peltool can see or
  change outside a BMC.

  Nothing new is modelled here: `runMain` = `dispatch`, then the mode the `Action` names, called with the `Config` that
  `dispatch` produced (`MainCfg.opts` / `Env.withCfg` are the one place where a `MainCfg` becomes the `CliOpts` / `Env`
  the mode functions take).  The world has no path names of its own: the names are the ones on the command line
  (`-p`, `-f`, `--src-exclude`, `-o`), and `World.fsView` answers `os.path.isdir` / `isfile` for exactly those.

  Aliasing conventions (what the composed model assumes about the four names):
    * `-o` names the `-p` directory iff it is absent/empty or the SAME STRING as `-p`; otherwise it names `World.out`;
    * the `-f` file is not one of the top-level files of the `-p` directory (with `-f` the directory is never looked at);
    * `--json` is composed in batch form (`jsonMode` on the directory as it was when `os.walk` listed it): an output name
      `<file>.<eid>.json` that coincides with the name of another input file is outside what the composition is sure about.
-/
namespace Pel

/-- what one invocation can see / change -/
structure World where
  pathIsDir : Bool := true            -- `os.path.isdir(<-p value>)`
  dir : Dir := []                     -- top-level regular files of the `-p` directory, in `os.walk` order
  subdirs : List Text := []           -- names in the `-p` directory that are subdirectories (no mode ever enters them)
  file : Option Bytes := none         -- content of the `-f` file, if it exists
  exclude : Option Text := none       -- text of the `--src-exclude` file, if it is a regular file
  out : Option Dir := none            -- files of the `-o` directory (when it is a directory other than `-p`)
deriving Repr, DecidableEq

/-- what one invocation produces -/
structure Result where
  stdout : Text
  diagnostics : Nat                   -- "Exception: …" / "No PEL parsed …" lines on stderr, counted as the modes count them
  message : Option Text               -- the text of a `sys.exit("<message>")` of `main` itself
  exit : Nat
  world : World
deriving Repr, DecidableEq

/-- `os.path.isdir` / `os.path.isfile` for the names `main()` asks about (`-p`, `-o`; `--src-exclude`) -/
def World.fsView (w : World) (a : Args) : FsView where
  isDir p := if tv a.path = some p then w.pathIsDir else w.out.isSome
  isFile _ := w.exclude.isSome

/-- THE conversion `Config` → what the mode functions take: selection, `-x`, `-r`, `-e` … -/
def MainCfg.opts (c : MainCfg) : CliOpts := { cfg := c.sel, hex := c.hex, rev := c.rev, ext := c.ext }

/-- … and `config.allow_plugins` (the decoders' environment is otherwise a parameter of the command) -/
def Env.withCfg (env : Env) (c : MainCfg) : Env := { env with allowPlugins := c.allowPlugins }

/-- `open(name, "w")` + write + close in a directory: an existing file of that name is replaced in place, otherwise a new entry appears -/
def writeFile (d : Dir) (name : Text) (data : Bytes) : Dir :=
  if d.any (fun f => f.name == name) then d.map (fun f => if f.name == name then { f with data := data } else f)
  else d ++ [{ name := name, data := data }]

def writeFiles (d : Dir) (l : List (Text × Bytes)) : Dir := l.foldl (fun acc p => writeFile acc p.1 p.2) d

/-- `os.remove` of the named files -/
def removeNames (d : Dir) (names : List Text) : Dir := d.filter (fun f => !names.contains f.name)

/-- a mode's three outputs in a world it did not change -/
def ofCli (w : World) (c : CliOut) : Result :=
  { stdout := c.stdout, diagnostics := c.stderrLines, message := none, exit := c.exit, world := w }

/-- the C12 view of one file's decode -/
def decodeResultOf {α : Type} : FileRes α → DecodeResult
  | .some _ => .doc
  | .skip => .filtered
  | .diag => .failed

/-- the `-f` branch: `printed = parseAndPrintPELFile(args.file, config, True)`; `if args.clean and printed: os.remove(args.file)`;
    `sys.exit(0)`.  `fault k`: step `k` of `filePlan` (0 print, 1 flush of stdout, 2 os.remove) fails.  A wrong first/second section id
    makes `parsePEL(…, exit_on_error=True)` end the process with status 1; a file that cannot be opened is a caught exception. -/
def fileBranch (fault : Nat → Bool) (env : Env) (c : MainCfg) (act : Action) (path : Text) (w : World) : Result :=
  match w.file with
  | none => { stdout := [], diagnostics := 1, message := none, exit := mainExit act, world := w }
  | some data =>
    let f : FileEntry := { name := path, data := data }
    match parsePEL env c.sel data with
    | .badHeader => { stdout := [], diagnostics := 0, message := none, exit := 1, world := w }
    | _ =>
      let d := decodeResultOf (fullOf env c.sel f)
      let tn := printOne env c.opts c.sel f
      let printed := printedOf d fault
      let out : Text := if fault 0 then [] else tn.1
      let diags := tn.2 + (if d == .doc && !printed then 1 else 0)
      match act.afterPrint printed with
      | some _ =>
        -- `os.remove(args.file)`: an OSError here is not caught by anything (traceback, status 1), the file stays
        if fault 2 then { stdout := out, diagnostics := diags, message := none, exit := 1, world := w }
        else { stdout := out, diagnostics := diags, message := none, exit := mainExit act, world := { w with file := none } }
      | none => { stdout := out, diagnostics := diags, message := none, exit := mainExit act, world := w }

/-- the `-j` branch: `jsonMode` on the directory as walked; the inputs it removed are gone, the files it created appear in the output
    directory (the `-p` directory itself when `-o` is not given or is the same name) -/
def jsonBranch (env : Env) (c : MainCfg) (act : Action) (p out : Text) (clean : Bool) (w : World) : Result :=
  let e := jsonMode env c.opts clean w.dir
  let kept := removeNames w.dir e.removed
  let world' : World :=
    if out = p then { w with dir := writeFiles kept e.created }
    else { w with dir := kept, out := w.out.map (fun od => writeFiles od e.created) }
  { stdout := [], diagnostics := e.stderrLines, message := none, exit := mainExit act, world := world' }

/-- the function the action names, called with the `Config` `dispatch` produced.  `env` already carries `allow_plugins`. -/
def runAction (fault : Nat → Bool) (env : Env) (w : World) (act : Action) (c : MainCfg) : Result :=
  let o := c.opts
  match act with
  | .fileMode path _ => fileBranch fault env c act path w
  | .exitMsg _ => { stdout := [], diagnostics := 0, message := mainStderr act, exit := mainExit act, world := w }
  | .jsonMode p out clean => jsonBranch env c act p out clean w
  | .idMode _ e => ofCli w (idMode env o e w.dir)
  | .bmcIdMode _ n => ofCli w (bmcIdMode env o n w.dir)
  | .plidMode _ x => ofCli w (plidMode env o x w.dir)
  | .srcMode _ sv => ofCli w (srcMode env o (some sv) none w.dir)
  | .srcExcludeMode _ _ => ofCli w (srcMode env o none (some (w.exclude.getD [])) w.dir)
  | .listMode _ => ofCli w (listMode env o w.dir)
  | .countMode _ => ofCli w (countMode env o w.dir)
  | .allMode _ => ofCli w (allMode env o w.dir)
  | .deleteMode _ e => { ofCli w (deleteMode e w.dir).1 with world := { w with dir := (deleteMode e w.dir).2 } }
  | .deleteAllMode _ => { ofCli w (deleteAllMode w.dir).1 with world := { w with dir := (deleteAllMode w.dir).2 } }
  | .nothing => { stdout := [], diagnostics := 0, message := none, exit := mainExit act, world := w }

/-- the whole command under a fault plan for the `-f` branch's three I/O steps -/
def runMainF (fault : Nat → Bool) (env : Env) (a : Args) (w : World) : Result :=
  let ac := dispatch (w.fsView a) a
  runAction fault (env.withCfg ac.2) w ac.1 ac.2

def noFault : Nat → Bool := fun _ => false

/-- THE whole command: `peltool.py <a>` in world `w` -/
def runMain (env : Env) (a : Args) (w : World) : Result := runMainF noFault env a w

/-! ### vocabulary for statements about whole command lines -/

/-- "none of the higher-priority options present": nothing on the command line that outranks `-l`, `-n`, `-a`, `-d`, `-D` in the chain of
    `main()` (`-f`, `-j`, `-i`, `--bmc-id`, `--plid`, `--src`, `--src-exclude`; an empty value counts as absent) -/
structure Args.NoHigherMode (a : Args) : Prop where
  file : tv a.file = none
  json : a.json = false
  pelID : tv a.pelID = none
  bmcID : tv a.bmcID = none
  plid : tv a.plid = none
  src : tv a.src = none
  srcExclude : tv a.srcExclude = none

/-- none of `-l`, `-n`, `-a` -/
structure Args.NoDisplayMode (a : Args) : Prop where
  list : a.list = false
  count : a.count = false
  all : a.all = false

/-- no selection option (`-E -t -s -N -H -O -S`) -/
def Args.NoSelection (a : Args) : Prop :=
  a.every = false ∧ a.term = false ∧ a.serviceable = false ∧ a.nonServiceable = false ∧ a.hidden = false ∧
  a.only = false ∧ a.severities = []

end Pel
