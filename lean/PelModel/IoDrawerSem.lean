import PelModel.Ilog
import PelModel.Trace
import PelModel.Hlog
import PelModel.HwDiags
/-
  Vocabulary of the definitions that harness/trans_iodrawer.py regenerates from the SOURCE TEXT of
  modules/io_drawer/{utils,ilog,trace,hlog}.py and modules/pel/hwdiags/parserdata.py (lean/PelGen/GenIoDrawer.lean).

  STATIC and TRUSTED: every definition below is the meaning the translator gives to one Python construct (name map /
  idiom table at the top of the translator).  Nothing here mentions what the functions under translation compute: widths,
  masks, moduli, slice bounds, comparison operators, dictionary keys, format strings, the order of statements and of
  branches are arguments that the translator takes from the AST.  PelProps/TieC14|C15|C16|C20.lean prove the generated
  definitions equal to the hand-written model; the lemmas about this vocabulary are in PelProofs/TieIoDrawer.lean.
-/
namespace Pel.IoSem

/-! ### Python `int` (non-negative values are `Nat`; a subtraction makes an `Int`) -/

/-- `x & ~m` for non-negative `x`, `m`: the bits of `m` cleared in `x` (Python ints are unbounded two's complement) -/
def andNot (x m : Nat) : Nat := x ^^^ (x &&& m)

/-- `str(v)` / `{v}` / `{v:d}` / `%d` for an `int` that may be negative -/
def natDecI : Int → Text
  | .ofNat n => natDec n
  | .negSucc n => [45] ++ natDec (n + 1)

/-- `{v:0wd}` / `%0wd`: the sign counts towards the width, zeros go between sign and digits -/
def fmtDec0I (w : Nat) : Int → Text
  | .ofNat n => fmtDec0 w n
  | .negSucc n => [45] ++ fmtDec0 (w - 1) (n + 1)

/-- `{v:wd}` / `%wd` -/
def fmtDecSpI (w : Nat) (v : Int) : Text :=
  let d := natDecI v
  List.replicate (w - d.length) 32 ++ d

/-- `{v:0wX}` / `%0wX` -/
def fmtHexI (w : Nat) : Int → Text
  | .ofNat n => fmtHex w n
  | .negSucc n => [45] ++ fmtHex (w - 1) (n + 1)

/-! ### sequences and strings -/

/-- `l[a:b]` for literal `0 ≤ a`, `0 ≤ b` -/
def slice {α} (l : List α) (a b : Nat) : List α := (l.take b).drop a

/-- `l[i]` for an index that may be negative; `none` = IndexError -/
def index? {α} (l : List α) : Int → Option α
  | .ofNat n => l[n]?
  | .negSucc n => if n + 1 ≤ l.length then l[l.length - (n + 1)]? else none

/-- `str(b, encoding='ascii', errors='ignore')` -/
def asciiIgnore (b : Bytes) : Text := b.filter (· < 128)

/-- `self.pte_re.fullmatch(t)` where `__init__` set `self.pte_re = re.compile(self.pte_pattern.replace('*', '.'), re.IGNORECASE)`:
    `some ()` = a match object.  (Meaning of the compiled pattern for patterns made of hex digits and `*`,
    `Pel.patternSupported`, exactly as in the hand model; other patterns are outside the model and outside this tie.) -/
def wildFullmatch (p t : Text) : Option Unit := if wildMatch p t then some () else none

/-- `int.to_bytes(n, 'big')` of a value that fits (`v < 256^n`; the translator only emits it under `& (256^n - 1)`) -/
def toBytesBE (n v : Nat) : Bytes := toBE n v

/-! ### loops -/

/-- what one execution of a loop body does: go to the next iteration, `break`, or `return r` from the function -/
inductive Step (σ ρ : Type) where
  | next (s : σ)
  | brk (s : σ)
  | ret (r : ρ)

inductive LoopOut (σ ρ : Type) where
  | done (s : σ)     -- the loop ended (exhausted or `break`): the statements after the loop run with this state
  | ret (r : ρ)      -- `return r` inside the body

/-- what happens after the loop: `onRet` = the function returns, `onDone` = the statements after the loop -/
def LoopOut.elim {σ ρ β : Type} (onRet : ρ → β) (onDone : σ → β) : LoopOut σ ρ → β
  | .ret r => onRet r
  | .done s => onDone s

/-- `for x in xs: body` (no `else` clause); `σ` = the variables the body assigns -/
def forEach {α σ ρ : Type} : List α → σ → (α → σ → Step σ ρ) → LoopOut σ ρ
  | [], s, _ => .done s
  | x :: xs, s, f =>
    match f x s with
    | .next s' => forEach xs s' f
    | .brk s' => .done s'
    | .ret r => .ret r

/-- `for _ in range(n): body` where the body does not mention the loop variable -/
def repeatN {σ ρ : Type} : Nat → σ → (σ → Step σ ρ) → LoopOut σ ρ
  | 0, s, _ => .done s
  | n + 1, s, f =>
    match f s with
    | .next s' => repeatN n s' f
    | .brk s' => .done s'
    | .ret r => .ret r

/-- `while c: body`, written as `loop: if not c: break; body`, run for at most `fuel` iterations; `none` = the fuel ran out.
    The translator chooses the fuel (remaining bytes + 1); a wrong choice cannot make a tie provable, only unprovable. -/
def whileLoop {σ ρ : Type} : Nat → σ → (σ → Step σ ρ) → Option (LoopOut σ ρ)
  | 0, _, _ => none
  | fuel + 1, s, f =>
    match f s with
    | .next s' => whileLoop fuel s' f
    | .brk s' => some (.done s')
    | .ret r => some (.ret r)

def LoopOut.elimW {σ ρ β : Type} (onFuel : β) (onRet : ρ → β) (onDone : σ → β) : Option (LoopOut σ ρ) → β
  | none => onFuel
  | some (.ret r) => onRet r
  | some (.done s) => onDone s

/-! ### `pel.datastream.DataStream` (big endian, unsigned) -/

structure Stream where
  data : Bytes
  index : Nat
deriving Repr, DecidableEq

/-- `DataStream(data, byte_order='big', is_signed=False)` -/
def Stream.new (data : Bytes) : Stream := { data := data, index := 0 }

/-- the bytes from the cursor on -/
def Stream.rest (st : Stream) : Bytes := st.data.drop st.index

def Stream.advance (st : Stream) (n : Nat) : Stream := { st with index := st.index + n }

/-- outcome of a function that works on a stream: a value, `return False` (a reader that gives up: the caller drops
    the half-filled object and does not use the stream again), or an exception -/
inductive Res (α : Type) where
  | ok (a : α)
  | no
  | raised
  | unknown      -- not a behaviour of the code: a callee left the modelled subset (`%` formats), or a `while` loop used up its fuel
deriving Repr, DecidableEq

def Res.bind {α β : Type} (r : Res α) (f : α → Res β) : Res β :=
  match r with
  | .ok a => f a
  | .no => .no
  | .raised => .raised
  | .unknown => .unknown

/-- result of a model function whose `none` means "outside the modelled subset" (`pyFmtOrRaw`, `pteMessage`) -/
def Res.ofOpt {α : Type} : Option α → Res α
  | some a => .ok a
  | none => .unknown

/-- the same inside a loop body: `return False` and exceptions leave the loop and the function -/
def Res.bindStep {α β σ : Type} (r : Res α) (f : α → Step σ (Res β)) : Step σ (Res β) :=
  match r with
  | .ok a => f a
  | .no => .ret .no
  | .raised => .ret .raised
  | .unknown => .ret .unknown

/-- `stream.check_range(n)`: AssertionError unless `0 < n` -/
def checkRange (st : Stream) (n : Int) : Res Bool :=
  if n ≤ 0 then .raised else .ok (decide ((st.index : Int) + n ≤ (st.data.length : Int)))

/-- `stream.inc_index(n)` -/
def incIndex (st : Stream) (n : Int) : Res Stream :=
  match checkRange st n with
  | .ok true => .ok (st.advance n.toNat)
  | _ => .raised

/-- `stream.get_mem(n)` -/
def getMem (st : Stream) (n : Int) : Res (Bytes × Stream) :=
  match checkRange st n with
  | .ok true => .ok (st.rest.take n.toNat, st.advance n.toNat)
  | _ => .raised

/-- `stream.get_int(n)` (big endian, unsigned) -/
def getInt (st : Stream) (n : Int) : Res (Nat × Stream) :=
  match getMem st n with
  | .ok (m, st') => .ok (fromBE m, st')
  | .no => .no
  | .raised => .raised
  | .unknown => .unknown

/-- the eight members `TraceBufferHeader.__init__` declares, in that order, as `read` leaves them -/
structure TraceHeaderPy where
  ver : Nat
  hdrLen : Nat
  timeFlg : Nat
  endianFlg : Nat
  comp : Text
  size : Nat
  timesWrap : Nat
  nextFree : Nat
deriving Repr, DecidableEq

/-! ### `pel.hwdiags.parserdata.ParserData` -/

/-- `self._data[k]` (`none` = KeyError); files loaded later replace earlier ones with the same id -/
def dataGet (cd : List ChipData) (k : Text) : Option ChipData := cd.reverse.find? (fun c => c.id == k)

/-- `self._check_hex(t, n)` does not raise: `[0-9A-Fa-f]{2n}` matches all of `t` -/
def checkHex (t : Text) (n : Nat) : Bool := t.length == 2 * n && t.all isHexDigit

/-- `self._check_int(v, n)` does not raise: `0 <= v <= (1 << (8 * n)) - 1` (tied to the source as `hw_check_int`) -/
def checkInt (v n : Nat) : Bool := decide (v < 2 ^ (8 * n))

/-! The functions of `ParserData` start with assertions on their parameters; the hand model has the function behind the
    assertions.  `none` = AssertionError.  (That these are the assertions the source makes is part of what the ties prove.) -/

def attnDescA (cd : List ChipData) (ec : Text) (attn : Nat) : Option Text :=
  if checkHex ec 4 then some (attnDesc cd ec attn) else none

def chipDescA (cd : List ChipData) (ec : Text) (node chip : Nat) : Option Text :=
  if checkHex ec 4 && checkInt node 1 && checkInt chip 2 then some (chipDesc cd ec node chip) else none

def sigDescA (cd : List ChipData) (ec sid : Text) (inst bit : Nat) : Option Text :=
  if checkHex ec 4 && checkHex sid 2 && checkInt inst 1 && checkInt bit 1 then some (sigDesc cd ec sid inst bit) else none

def getSignatureA (cd : List ChipData) (a b c : Text) : Option J :=
  if checkHex a 4 && checkHex b 4 && checkHex c 4 then some (getSignature cd a b c) else none

def regDataA (cd : List ChipData) (ec rid : Text) (inst : Nat) : Option (Text × Text) :=
  if checkHex ec 4 && checkHex rid 3 && checkInt inst 1 then some (regData cd ec rid inst) else none

end Pel.IoSem
