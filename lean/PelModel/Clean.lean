import PelModel.Basic
/-
  Model of the two `--clean` procedures of peltool.py as event traces under a fault plan.
  `--json --clean` (parseAndWriteOutput):  decode; open output; write…; close; remove input.
  `--file --clean` (parseAndPrintPELFile + main): decode; print; flush stdout; remove input.
  A step that faults raises: the procedure reports it and performs no further step.  A process that dies
  at some point has executed a prefix of the trace.
-/
namespace Pel

inductive Ev where
  | openOut | write | closeOut | print | flushStdout | removeIn
deriving Repr, DecidableEq

inductive DecodeResult where
  | doc          -- decoded and selected: there is a document to emit
  | filtered     -- valid PEL, not selected by the options
  | failed       -- decoding raised / bad header
deriving Repr, DecidableEq

/-- execute the planned steps in order until the first one that faults; each executed step is recorded with
    whether it succeeded.  `fault k` = the step with index `k` faults. -/
def runSteps : List Ev → Nat → (Nat → Bool) → List (Ev × Bool)
  | [], _, _ => []
  | e :: es, k, fault => if fault k then [(e, false)] else (e, true) :: runSteps es (k + 1) fault

def jsonPlan (n : Nat) (clean : Bool) : List Ev :=
  [Ev.openOut] ++ List.replicate n Ev.write ++ [Ev.closeOut] ++ (if clean then [Ev.removeIn] else [])

def filePlan (clean : Bool) : List Ev := [Ev.print, Ev.flushStdout] ++ (if clean then [Ev.removeIn] else [])

/-- `--json [--clean]` for one input file whose document is written with `n` writes -/
def cleanJsonTrace (d : DecodeResult) (n : Nat) (clean : Bool) (fault : Nat → Bool) : List (Ev × Bool) :=
  match d with
  | .doc => runSteps (jsonPlan n clean) 0 fault
  | _ => []

/-- `--file [--clean]` -/
def cleanFileTrace (d : DecodeResult) (clean : Bool) (fault : Nat → Bool) : List (Ev × Bool) :=
  match d with
  | .doc => runSteps (filePlan clean) 0 fault
  | _ => []

/-- the input file is gone iff a successful `removeIn` was executed -/
def inputRemoved (tr : List (Ev × Bool)) : Bool := tr.contains (Ev.removeIn, true)

end Pel
