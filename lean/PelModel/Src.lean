import PelModel.Sections
/-
  Model of pel/peltool/src.py: SRC section, callout subsection (FRU identity, PCE identity, MRU),
  procedure descriptions and SRC parser plugins as an abstract environment.
-/
namespace Pel

structure Fru where
  flags : Nat
  pnOrProc : Text
  ccin : Text
  sn : Text
  flatSize : Nat
deriving Repr

structure Pce where
  declaredSize : Nat
  mtm : Text
  sn : Text
  name : Option Text      -- none: size byte < 24 (the code leaves the attribute unset)
deriving Repr

structure Mru where
  declaredSize : Nat
  ids : List (Nat × Nat)  -- (priority, id)
deriving Repr

structure Callout where
  size : Nat
  flags : Nat
  priority : Nat
  locSize : Nat
  loc : Text
  fru : Option Fru
  pce : Option Pce
  mru : Option Mru
deriving Repr

def readFru : Rd Fru := do
  let _ ← getInt 2
  let _ ← getInt 1
  let flags ← getInt 1
  let pn ← if flags &&& 0x08 ≠ 0 ∨ flags &&& 0x02 ≠ 0 then (do let t ← getText 8; pure (some (stripNul t))) else pure none
  let ccin ← if flags &&& 0x04 ≠ 0 then (do let t ← getText 4; pure (some (stripNul t))) else pure none
  let sn ← if flags &&& 0x01 ≠ 0 then (do let t ← getText 12; pure (some (stripNul t))) else pure none
  pure { flags, pnOrProc := pn.getD [], ccin := ccin.getD [], sn := sn.getD [],
         flatSize := 4 + (if pn.isSome then 8 else 0) + (if ccin.isSome then 4 else 0) + (if sn.isSome then 12 else 0) }

def readPce : Rd Pce := do
  let _ ← getInt 2
  let size ← getInt 1
  let _ ← getInt 1
  let mtm ← getText 8
  let sn ← getText 12
  if size < 24 then pure { declaredSize := size, mtm := stripNul mtm, sn := stripNul sn, name := none }
  else do
    let nm ← getText (size - 24)
    pure { declaredSize := size, mtm := stripNul mtm, sn := stripNul sn, name := some (stripNul nm) }

def readMruItems : Nat → Rd (List (Nat × Nat))
  | 0 => pure []
  | n+1 => do let p ← getInt 4; let i ← getInt 4; let r ← readMruItems n; pure ((p, i) :: r)

def readMru : Rd Mru := do
  let _ ← getInt 2
  let size ← getInt 1
  let flags ← getInt 1
  let _ ← getInt 4
  let ids ← readMruItems (flags &&& 0xf)
  pure { declaredSize := size, ids }

/-- the substructure walk `while self.size > currentSize`; fuel = remaining bytes (every iteration reads ≥ 4) -/
def readSubs : Nat → Nat → Nat → Option Fru → Option Pce → Option Mru → Rd (Option Fru × Option Pce × Option Mru)
  | 0, _, _, f, p, m => pure (f, p, m)
  | fuel+1, size, cur, f, p, m =>
    if size > cur then do
      let ty ← peek2
      if ty = 0x4944 then do
        let x ← readFru
        readSubs fuel size (cur + x.flatSize) (some x) p m
      else if ty = 0x5045 then do
        let x ← readPce
        readSubs fuel size (cur + x.declaredSize) f (some x) m
      else if ty = 0x4D52 then do
        let x ← readMru
        readSubs fuel size (cur + x.declaredSize) f p (some x)
      else pure (f, p, m)
    else pure (f, p, m)

/-- `Callout.__init__` -/
def readCallout : Rd Callout := do
  let size ← getInt 1
  let flags ← getInt 1
  let priority ← getInt 1
  let locSize ← getInt 1
  let loc ← if locSize > 0 then (do let t ← getText locSize; pure (stripNul t)) else pure []
  let rem ← remaining
  let (f, p, m) ← readSubs (rem + 1) size (4 + locSize) none none none
  pure { size, flags, priority, locSize, loc, fru := f, pce := p, mru := m }

def Callout.flattenedSize (c : Callout) : Nat :=
  4 + c.locSize + (c.fru.map (·.flatSize)).getD 0 + (c.pce.map (·.declaredSize)).getD 0 + (c.mru.map (·.declaredSize)).getD 0

/-- `while subsectionWordLength * 4 > currentLength` -/
def readCallouts : Nat → Nat → Nat → Rd (List Callout)
  | 0, _, _ => pure []
  | fuel+1, total, cur =>
    if total > cur then do
      let c ← readCallout
      let r ← readCallouts fuel total (cur + c.flattenedSize)
      pure (c :: r)
    else pure []

/-- behaviour of `calloutparsers.<creator>callouts` -/
inductive CalloutPlugin where
  | absent
  | table (procs : List (Text × List Text))   -- procedure id → description lines (ocallouts-like)
  | raises                                    -- getMaintProcDesc raises
deriving Repr

/-- behaviour of an SRC parser module as seen from `SRC.parse` -/
inductive SrcPlugin where
  | absent
  | echo             -- returns json.dumps({"refcode": …, "words": [w2..w9]})
  | raises
  | returnsText (t : Text)
deriving Repr

/-- one word of a registry entry's `SRC.Words6To9` dict: key, `Description`, `AdditionalDataPropSource` -/
structure RegWord where
  num : Text
  desc : Option Text
  prop : Option Text
deriving Repr, DecidableEq

/-- one entry of the message registry (`registry.pels`): `SRC.ReasonCode`, `SRC.Type`, `Documentation.Message`,
    `Documentation.MessageArgSources`, `SRC.Words6To9` (absent or empty = `[]`; in insertion order) -/
structure RegEntry where
  reasonCode : Option Text
  type : Option Text
  message : Text
  argSources : Option (List Text)
  words : List RegWord
deriving Repr, DecidableEq

structure SrcEnv where
  callout : Text → CalloutPlugin      -- by lower-case creator id
  /-- for creator `o` the module `osrc` forwards to `srcparsers.o<xx>00` (or `bsrc` for BC codes): by that module name;
      for other creators: by `<creator>src` -/
  src : Text → SrcPlugin
  /-- `pel.peltool.src.registry.pels` -/
  registry : List RegEntry := []

def procDescription (env : SrcEnv) (creator : Text) (allowPlugins : Bool) (proc : Text) : List (Text × J) :=
  if !allowPlugins then [] else
  match env.callout (creator.map toLowerAscii) with
  | .table procs => (match lookupT' procs proc with
      | some lines => [kv "Description" (.arr (lines.map jstr))]
      | none => [])
  | _ => []
where lookupT' (tbl : List (Text × List Text)) (k : Text) : Option (List Text) := (tbl.find? (fun p => p.1 == k)).map (·.2)

/-- JSON of one callout; `none` models the AttributeError on a PCE whose size byte is below 24 -/
def calloutJson (T : Tables) (env : SrcEnv) (creator : Text) (allowPlugins : Bool) (c : Callout) : Option J :=
  let fruPart : List (Text × J) := match c.fru with
    | none => []
    | some f =>
      [kv "FRU Type" (jstr ((lookupN T.failingCompTypes (f.flags &&& 0xf0)).getD (s "Invalid"))),
       kv "Priority" (jstr ((lookupN T.calloutPriorities c.priority).getD (s "Invalid")))] ++
      (if c.loc.length > 0 then [kv "Location Code" (jstr c.loc)] else []) ++
      (if f.flags &&& 0x08 ≠ 0 then [kv "Part Number" (jstr f.pnOrProc)] else []) ++
      (if f.flags &&& 0x02 ≠ 0 then [kv "Procedure" (jstr f.pnOrProc)] ++ procDescription env creator allowPlugins f.pnOrProc else []) ++
      (if f.flags &&& 0x04 ≠ 0 then [kv "CCIN" (jstr f.ccin)] else []) ++
      (if f.flags &&& 0x01 ≠ 0 then [kv "Serial Number" (jstr f.sn)] else [])
  let pcePart : Option (List (Text × J)) := match c.pce with
    | none => some []
    | some p => match p.name with
      | none => none
      | some nm => some ((if p.mtm.length > 0 then [kv "PCE MTMS" (jstr (p.mtm ++ [95] ++ p.sn))] else []) ++
          (if nm.length > 0 then [kv "PCE Name" (jstr nm)] else []))
  let mruPart : List (Text × J) := match c.mru with
    | none => []
    | some m => [kv "MRU Id" (jstr (joinWith [44] (m.ids.map fun pi => fmtHex 8 pi.2)))]
  pcePart.map fun pp => .obj (objFromList (fruPart ++ pp ++ mruPart))
where objFromList (l : List (Text × J)) : List (Text × J) := l.foldl (fun acc p => objSet acc p.1 p.2) []

def optAllJ : List (Option J) → Option (List J)
  | [] => some []
  | none :: _ => none
  | some x :: r => (optAllJ r).map (x :: ·)

/-- `getCallouts` -/
def decodeCallouts (T : Tables) (env : SrcEnv) (creator : Text) (allowPlugins : Bool) : Rd J := do
  let _ ← getInt 1
  let _ ← getInt 1
  let wordLen ← getInt 2
  let rem ← remaining
  let cs ← readCallouts (rem + 1) (wordLen * 4) 4
  match optAllJ (cs.map (calloutJson T env creator allowPlugins)) with
  | none => Rd.fail .other
  | some js => pure (.obj [kv "Callout Count" (jnum cs.length), kv "Callouts" (.arr js)])

def boolStr (b : Bool) : J := jstr (if b then s "True" else s "False")

inductive SrcDetails where
  | none                 -- no "SRC Details" key
  | some (j : J)
  | fail                 -- json.loads of the plugin's text raises: the whole PEL is rejected
  | unsupported

/-- `SRC.parse` + the `json.loads` of its result -/
def srcDetails (env : SrcEnv) (creator : Text) (ascii : Text) (hexwords : List Text) : SrcDetails :=
  let lc := creator.map toLowerAscii
  let modName : Text :=
    if lc = s "o" then
      (if ascii.take 2 = s "BC" then s "bsrc" else s "o" ++ ((ascii.drop 4).take 2).map toLowerAscii ++ s "00")
    else lc ++ s "src"
  -- for creator `o` the wrapper `osrc` exists in the repository; a missing component module yields 'null'
  match env.src modName with
  | .absent => .none
  | .raises => .none
  | .echo => .some (.obj [kv "refcode" (jstr ascii), kv "words" (.arr (hexwords.map jstr))])
  | .returnsText t =>
    if t = [] ∨ t = s "null" then .none else
    match loads t with
    | .ok j => .some j
    | .bad => .fail
    | .unsupported => .unsupported

/-! ### the message registry ("Error Details") -/

/-- outcome of a piece of Python code: a value, an exception, or a construct outside the modelled subset -/
inductive PyR (α : Type) where
  | ok (a : α)
  | fail
  | unsupported
deriving Repr, DecidableEq

/-- the test of `Registry.getErrorMessage` for one entry -/
def RegEntry.isMatch (e : RegEntry) (code ty : Text) : Bool :=
  match e.reasonCode with
  | none => false                                         -- "ReasonCode" not in pel["SRC"]
  | some rc => e.type.getD (s "BD") == ty && isInfix code rc   -- .get("Type", "BD") == srcType; `code in ReasonCode`

/-- `Registry.getErrorMessage`: the first matching entry in list order -/
def regLookup (reg : List RegEntry) (code ty : Text) : Option RegEntry := reg.find? (fun e => e.isMatch code ty)

/-- `self.hexData[n - 2]` for a non-negative `n` (Python indexing: a negative index counts from the end, out of range
    raises IndexError = `none`) -/
def pyWord (words : List Nat) (n : Nat) : Option Nat :=
  if 2 ≤ n then words[n - 2]?
  else if 2 ≤ words.length + n then words[words.length + n - 2]?
  else none

/-- Python `hex(v)` for a non-negative int -/
def pyHex (v : Nat) : Text := ox (fmtHexL 1 v)

/-- `hex(self.hexData[int(arg[-1]) - 2])` -/
def argWord (words : List Nat) (src : Text) : PyR Text :=
  match src.getLast? with
  | none => .fail                                 -- arg[-1] on '': IndexError
  | some c =>
    if 128 ≤ c then .unsupported                  -- int() accepts non-ASCII decimal digits: not modelled
    else if 48 ≤ c ∧ c ≤ 57 then
      match pyWord words (c - 48) with
      | some w => .ok (pyHex w)
      | none => .fail                             -- IndexError
    else .fail                                    -- ValueError

def argWords (words : List Nat) : List Text → PyR (List Text)
  | [] => .ok []
  | src :: r =>
    match argWord words src with
    | .ok a => (match argWords words r with
      | .ok as => .ok (a :: as)
      | .fail => .fail
      | .unsupported => .unsupported)
    | .fail => .fail
    | .unsupported => .unsupported

/-- `re.sub(r'%[1-9]', "{}", message).format(*args)` for a message without `{` and `}`: the k-th placeholder (by
    occurrence) receives the k-th argument; `none` = IndexError (more placeholders than arguments) -/
def fillMsg : Text → List Text → Option Text
  | [], _ => some []
  | [c], _ => some [c]
  | c :: d :: rest, args =>
    if c = 37 ∧ 49 ≤ d ∧ d ≤ 57 then
      match args with
      | [] => none
      | a :: as => (fillMsg rest as).map (a ++ ·)
    else (fillMsg (d :: rest) args).map (c :: ·)

def hasBrace (t : Text) : Bool := t.any (fun c => c == 123 || c == 125)

/-- `SRC.buildMessage` for the entry found -/
def buildMessage (e : RegEntry) (words : List Nat) : PyR Text :=
  match e.argSources with
  | none => .ok e.message
  | some srcs =>
    match argWords words srcs with
    | .fail => .fail
    | .unsupported => .unsupported
    | .ok args =>
      if hasBrace e.message then .unsupported     -- str.format field syntax beyond the substituted `{}`: not modelled
      else match fillMsg e.message args with
        | some m => .ok m
        | none => .fail

/-- `int(num)` for a non-empty string of ASCII digits (anything else: `none`) -/
def parseDigits (t : Text) : Option Nat :=
  if t ≠ [] ∧ t.all (fun c => 48 ≤ c && c ≤ 57) then some (t.foldl (fun a c => a * 10 + (c - 48)) 0) else none

/-- the loop of `SRC.buildHexwordDescs` (`acc` = the OrderedDict `descriptions`) -/
def wordDescs (words : List Nat) : List RegWord → List (Text × J) → PyR (List (Text × J))
  | [], acc => .ok acc
  | w :: r, acc =>
    match w.desc with
    | none => wordDescs words r acc                   -- no "Description": skipped before anything is evaluated
    | some d =>
      match parseDigits w.num with
      | none => .unsupported                          -- int() of signs, blanks, underscores, other digits: not modelled
      | some n =>
        match pyWord words n with
        | none => .fail                               -- IndexError
        | some v =>
          match w.prop with
          | none => .fail                             -- KeyError 'AdditionalDataPropSource'
          | some p => wordDescs words r (objSet acc p (.arr [jnum v, jstr d]))

inductive ErrDet where
  | none                                   -- no "Error Details" member
  | some (members : List (Text × J))
  | fail                                   -- an exception leaves `toJSON`: the whole PEL is rejected
  | unsupported

/-- `SRC.getErrorDetails(out, asciiString[4:8], asciiString[0:2])`: the value of `out["Error Details"]`, if any -/
def errorDetails (reg : List RegEntry) (ascii : Text) (words : List Nat) : ErrDet :=
  match regLookup reg (s "0x" ++ (ascii.drop 4).take 4) (ascii.take 2) with
  | none => .none                                     -- details = {}: message '' 
  | some e =>
    match buildMessage e words with
    | .fail => .fail
    | .unsupported => .unsupported
    | .ok msg =>
      if msg = [] then .none else
      match wordDescs words e.words [] with
      | .fail => .fail
      | .unsupported => .unsupported
      | .ok descs => .some (objUpdate [kv "Message" (jstr msg)] descs)

/-- the member list contributed to the SRC document -/
def ErrDet.members : ErrDet → List (Text × J)
  | .some ms => [kv "Error Details" (.obj ms)]
  | _ => []

/-- `SRC.toJSON`; the message registry is `env.registry` -/
def decodeSRC (T : Tables) (env : SrcEnv) (h : SecHdr) (creator : Text) (allowPlugins : Bool) : Rd (J × Text) := do
  let verB ← getMem 1
  let flags ← getInt 1
  let _ ← getInt 1
  let wordCount ← getInt 1
  let _ ← getInt 2
  let _ ← getInt 2
  let words ← getInts 4 8
  let ascii ← getText 32
  let srcType := ascii.take 2
  let isBmc := srcType = s "BD" ∨ srcType = s "11"
  let isHb := srcType = s "BC"
  let w (i : Nat) : Nat := words.getD i 0
  let ed : ErrDet := if isBmc ∨ isHb then errorDetails env.registry ascii words else .none
  let base : List (Text × J) := [
    kv "Section Version" (jnum h.ver), kv "Sub-section type" (jnum h.sub),
    kv "Created by" (jstr (displayCompID T h.comp creator)),
    kv "SRC Version" (jstr (ox (bytesHexL verB))),
    kv "SRC Format" (jstr (ox (fmtHex 2 (w 0 &&& 0xFF)))),
    kv "Virtual Progress SRC" (boolStr (flags &&& 0x80 != 0)),
    kv "I5/OS Service Event Bit" (boolStr (flags &&& 0x10 != 0)),
    kv "Hypervisor Dump Initiated" (boolStr (flags &&& 0x04 != 0))] ++
    (if isBmc then [kv "Backplane CCIN" (jstr (fmtHex 4 (w 1 >>> 16))),
                    kv "Terminate FW Error" (boolStr (w 3 &&& 0x20000000 != 0))] else []) ++
    (if isBmc ∨ isHb then [kv "Deconfigured" (boolStr (w 3 &&& 0x02000000 != 0)),
                           kv "Guarded" (boolStr (w 3 &&& 0x01000000 != 0))] ++ ed.members else []) ++
    [kv "Valid Word Count" (jstr (ox (fmtHex 2 wordCount))),
     kv "Reference Code" (jstr (stripSp ascii))]
  -- an exception in `getErrorDetails` is raised before anything below is evaluated
  match ed with
  | .fail => Rd.fail .other
  | .unsupported => Rd.fail .unsupported
  | _ =>
  -- `for i in range(2, wordCount + 1)`: i ≥ 10 indexes hexData[i] out of range
  if wordCount ≥ 10 then Rd.fail .other else
  let idxs := (List.range (wordCount + 1)).drop 2
  let hexw := idxs.map fun i => (s "Hex Word " ++ natDec i, fmtHex 8 (w (i - 2)))
  let hexwords := (hexw.map (·.2)) ++ List.replicate (8 - hexw.length) (s "00000000")
  let withWords := base ++ hexw.map fun p => (p.1, jstr p.2)
  let withCallouts ← if flags &&& 0x01 ≠ 0 then (do
      let c ← decodeCallouts T env creator allowPlugins
      pure (withWords ++ [kv "Callout Section" c])) else pure withWords
  if allowPlugins then
    match srcDetails env creator ascii hexwords with
    | .none => pure (.obj withCallouts, stripSp ascii)
    | .some j => pure (.obj (withCallouts ++ [kv "SRC Details" j]), stripSp ascii)
    | .fail => Rd.fail .other
    | .unsupported => Rd.fail .unsupported
  else pure (.obj withCallouts, stripSp ascii)

end Pel
