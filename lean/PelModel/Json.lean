import PelModel.Basic
/-
  JSON documents as the decoder builds them (Python dict/list/str/int/bool/None), `json.dumps(…, indent=4)`
  (ensure_ascii), `json.loads` (CPython's strict scanner; floats are outside the model) and the text-level
  aligner `prettyPrint` of peltool.py.
-/
namespace Pel

inductive J where
  | null
  | bool (b : Bool)
  | num (n : Int)
  | str (t : Text)
  | arr (l : List J)
  | obj (l : List (Text × J))
deriving Repr, Inhabited

/-- Python `d[k] = v`: overwrite in place if the key exists, else append -/
def objSet : List (Text × J) → Text → J → List (Text × J)
  | [], k, v => [(k, v)]
  | (k', v') :: r, k, v => if k' = k then (k, v) :: r else (k', v') :: objSet r k v

/-- Python `d.update(other)` -/
def objUpdate (d other : List (Text × J)) : List (Text × J) := other.foldl (fun acc kv => objSet acc kv.1 kv.2) d

def objGet? : List (Text × J) → Text → Option J
  | [], _ => none
  | (k', v') :: r, k => if k' = k then some v' else objGet? r k

/-! ### dumps -/

def hex4L (c : Nat) : Text := [hexL (c / 4096), hexL (c / 256), hexL (c / 16), hexL c]

/-- one character inside a JSON string, `ensure_ascii=True` -/
def escChar (c : Nat) : Text :=
  if c = 34 then [92, 34] else if c = 92 then [92, 92]
  else if c = 10 then [92, 110] else if c = 13 then [92, 114] else if c = 9 then [92, 116]
  else if c = 12 then [92, 102] else if c = 8 then [92, 98]
  else if 32 ≤ c ∧ c ≤ 126 then [c]
  else if c < 65536 then 92 :: 117 :: hex4L c
  else (92 :: 117 :: hex4L (55296 + (c - 65536) / 1024)) ++ (92 :: 117 :: hex4L (56320 + (c - 65536) % 1024))

def renderStr (t : Text) : Text := [34] ++ t.flatMap escChar ++ [34]

def intDec (n : Int) : Text :=
  match n with
  | .ofNat k => natDec k
  | .negSucc k => 45 :: natDec (k + 1)

def indentOf (lvl : Nat) : Text := spaces (4 * lvl)

/-- append `suffix` to the last line -/
def appendLast (ls : List Text) (suffix : Text) : List Text :=
  match ls.reverse with
  | [] => [suffix]
  | l :: r => (( l ++ suffix) :: r).reverse

mutual
  /-- lines of `json.dumps(v, indent=4)` at nesting level `lvl`; the first line carries no indentation
      (it continues the line of the key or of the list item) -/
  def dumpsLines : J → Nat → List Text
    | .null, _ => [s "null"]
    | .bool true, _ => [s "true"]
    | .bool false, _ => [s "false"]
    | .num n, _ => [intDec n]
    | .str t, _ => [renderStr t]
    | .arr [], _ => [s "[]"]
    | .arr (x :: xs), lvl => [s "["] ++ dumpsItems (x :: xs) (lvl + 1) ++ [indentOf lvl ++ s "]"]
    | .obj [], _ => [s "{}"]
    | .obj (kv :: kvs), lvl => [s "{"] ++ dumpsMembers (kv :: kvs) (lvl + 1) ++ [indentOf lvl ++ s "}"]
  def dumpsItems : List J → Nat → List Text
    | [], _ => []
    | [x], lvl => (match dumpsLines x lvl with
        | [] => []
        | h :: t => (indentOf lvl ++ h) :: t)
    | x :: y :: r, lvl => (match dumpsLines x lvl with
        | [] => []
        | h :: t => appendLast ((indentOf lvl ++ h) :: t) [44]) ++ dumpsItems (y :: r) lvl
  def dumpsMembers : List (Text × J) → Nat → List Text
    | [], _ => []
    | [(k, v)], lvl => (match dumpsLines v lvl with
        | [] => []
        | h :: t => (indentOf lvl ++ renderStr k ++ s ": " ++ h) :: t)
    | (k, v) :: kv :: r, lvl => (match dumpsLines v lvl with
        | [] => []
        | h :: t => appendLast ((indentOf lvl ++ renderStr k ++ s ": " ++ h) :: t) [44]) ++ dumpsMembers (kv :: r) lvl
end

/-- `json.dumps(v, indent=4)` as text -/
def dumps (v : J) : Text := joinWith [10] (dumpsLines v 0)

/-! ### prettyPrint (after the repair of the key scan) -/

/-- `keyEndIndex`: index of the closing quote of the key that starts the line, if the line starts with a key -/
def keyScan : Text → Nat → Option Nat
  | [], _ => none
  | c :: r, i =>
    if c = 92 then
      match r with
      | [] => none
      | _ :: r' => keyScan r' (i + 2)
    else if c = 34 then (match r with
      | 58 :: _ => some i
      | _ => none)
    else keyScan r (i + 1)

def keyEndIndex (line : Text) : Option Nat :=
  let body := line.dropWhile (· == 32)
  let i := line.length - body.length
  match body with
  | 34 :: r => keyScan r (i + 1)
  | _ => none

def ppLine (desired : Nat) (line : Text) : Text :=
  if line.contains 123 then line else
  match keyEndIndex line with
  | none => line
  | some ind => line.take (ind + 2) ++ spaces (desired - ind) ++ line.drop (ind + 2)

/-- `str.split("\n")` -/
def splitNL : Text → List Text
  | [] => [[]]
  | c :: r =>
    match splitNL r with
    | [] => [[]]   -- unreachable
    | l :: ls => if c = 10 then [] :: l :: ls else (c :: l) :: ls

/-- `prettyPrint(text, desiredSpace)` -/
def prettyPrint (desired : Nat) (t : Text) : Text := joinWith [10] ((splitNL t).map (ppLine desired))

/-! ### loads -/

inductive PR (α : Type) where
  | ok (v : α) (rest : Text)
  | bad            -- json.JSONDecodeError
  | unsupported    -- a float / NaN / Infinity: outside the model
deriving Repr

def isJsonWs (c : Nat) : Bool := c == 32 || c == 9 || c == 10 || c == 13

def skipWs (t : Text) : Text := t.dropWhile isJsonWs

def hex4Val : Text → Option (Nat × Text)
  | a :: b :: c :: d :: r =>
    if isHexDigit a && isHexDigit b && isHexDigit c && isHexDigit d
    then some (hexVal a * 4096 + hexVal b * 256 + hexVal c * 16 + hexVal d, r) else none
  | _ => none

/-- body of a string after the opening quote -/
def scanString : Nat → Text → Text → PR Text
  | 0, _, _ => .bad
  | fuel+1, t, acc =>
    match t with
    | [] => .bad
    | c :: r =>
      if c = 34 then .ok acc r
      else if c = 92 then
        match r with
        | [] => .bad
        | e :: r' =>
          if e = 34 then scanString fuel r' (acc ++ [34])
          else if e = 92 then scanString fuel r' (acc ++ [92])
          else if e = 47 then scanString fuel r' (acc ++ [47])
          else if e = 98 then scanString fuel r' (acc ++ [8])
          else if e = 102 then scanString fuel r' (acc ++ [12])
          else if e = 110 then scanString fuel r' (acc ++ [10])
          else if e = 114 then scanString fuel r' (acc ++ [13])
          else if e = 116 then scanString fuel r' (acc ++ [9])
          else if e = 117 then
            match hex4Val r' with
            | none => .bad
            | some (u, r'') =>
              if 0xD800 ≤ u ∧ u ≤ 0xDBFF then
                match r'' with
                | 92 :: 117 :: r3 =>
                  match hex4Val r3 with
                  | some (u2, r4) =>
                    if 0xDC00 ≤ u2 ∧ u2 ≤ 0xDFFF
                    then scanString fuel r4 (acc ++ [0x10000 + (u - 0xD800) * 1024 + (u2 - 0xDC00)])
                    else scanString fuel r'' (acc ++ [u])
                  | none => scanString fuel r'' (acc ++ [u])
                | _ => scanString fuel r'' (acc ++ [u])
              else scanString fuel r'' (acc ++ [u])
          else .bad
      else if c < 32 then .bad
      else scanString fuel r (acc ++ [c])

def takeWhileDigits (t : Text) : Text × Text := (t.takeWhile isDigitC', t.dropWhile isDigitC')
where isDigitC' (c : Nat) : Bool := 48 ≤ c && c ≤ 57

/-- a number: `-? (0 | [1-9][0-9]*)`; a fraction or exponent makes it a float (unsupported) -/
def scanNumber (t : Text) : PR Int :=
  let (neg, t1) := match t with
    | 45 :: r => (true, r)
    | _ => (false, t)
  let (ds, t2) := takeWhileDigits t1
  match ds with
  | [] => .bad
  | d :: dr =>
    if d = 48 ∧ dr ≠ [] then
      -- "0" followed by digits: CPython matches just "0" and then fails on the extra data / separator
      .bad
    else
      match t2 with
      | 46 :: c :: _ => if 48 ≤ c ∧ c ≤ 57 then .unsupported else .ok (if neg then -(decVal ds : Int) else decVal ds) t2
      | 101 :: _ => .unsupported
      | 69 :: _ => .unsupported
      | _ => .ok (if neg then -(decVal ds : Int) else decVal ds) t2

mutual
  def parseValue : Nat → Text → PR J
    | 0, _ => .bad
    | fuel+1, t =>
      match t with
      | [] => .bad
      | c :: r =>
        if c = 34 then
          match scanString (r.length + 1) r [] with
          | .ok str rest => .ok (.str str) rest
          | .bad => .bad
          | .unsupported => .unsupported
        else if c = 123 then
          match skipWs r with
          | 125 :: rest => .ok (.obj []) rest
          | r' => parseMembers fuel r' []
        else if c = 91 then
          match skipWs r with
          | 93 :: rest => .ok (.arr []) rest
          | r' => parseItems fuel r' []
        else if (s "null").isPrefixOf t then .ok .null (t.drop 4)
        else if (s "true").isPrefixOf t then .ok (.bool true) (t.drop 4)
        else if (s "false").isPrefixOf t then .ok (.bool false) (t.drop 5)
        else if (s "NaN").isPrefixOf t ∨ (s "Infinity").isPrefixOf t ∨ (s "-Infinity").isPrefixOf t then .unsupported
        else if c = 45 ∨ (48 ≤ c ∧ c ≤ 57) then
          match scanNumber t with
          | .ok n rest => .ok (.num n) rest
          | .bad => .bad
          | .unsupported => .unsupported
        else .bad
  /-- after `[` and whitespace, at the start of an item -/
  def parseItems : Nat → Text → List J → PR J
    | 0, _, _ => .bad
    | fuel+1, t, acc =>
      match parseValue fuel t with
      | .ok v rest =>
        match skipWs rest with
        | 44 :: r => parseItems fuel (skipWs r) (acc ++ [v])
        | 93 :: r => .ok (.arr (acc ++ [v])) r
        | _ => .bad
      | .bad => .bad
      | .unsupported => .unsupported
  /-- after `{` and whitespace, at the start of a member -/
  def parseMembers : Nat → Text → List (Text × J) → PR J
    | 0, _, _ => .bad
    | fuel+1, t, acc =>
      match t with
      | 34 :: r =>
        match scanString (r.length + 1) r [] with
        | .ok k rest =>
          match skipWs rest with
          | 58 :: r2 =>
            match parseValue fuel (skipWs r2) with
            | .ok v rest2 =>
              match skipWs rest2 with
              | 44 :: r3 => parseMembers fuel (skipWs r3) (objSet acc k v)
              | 125 :: r3 => .ok (.obj (objSet acc k v)) r3
              | _ => .bad
            | .bad => .bad
            | .unsupported => .unsupported
          | _ => .bad
        | .bad => .bad
        | .unsupported => .unsupported
      | _ => .bad
end

inductive LoadResult where
  | ok (v : J)
  | bad
  | unsupported
deriving Repr

/-- `json.loads(text)` -/
def loads (t : Text) : LoadResult :=
  match parseValue (t.length + 2) (skipWs t) with
  | .ok v rest => if (skipWs rest).isEmpty then .ok v else .bad
  | .bad => .bad
  | .unsupported => .unsupported

end Pel
