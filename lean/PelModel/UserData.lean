import PelModel.Sections
/-
  Model of pel/peltool/parse_user_data.py, user_data.py, ext_user_data.py:
  built-in formats, parser modules as an abstract environment, fallbacks.
-/
namespace Pel

/-- behaviour of `udparsers.<name>.<name>` -/
inductive UdPlugin where
  | absent                      -- import fails with ImportError / ModuleNotFoundError
  | echo                        -- returns json.dumps({"subType":…, "version":…, "data": hex})
  | raises (msg : Text)         -- parseUDToJson raises Exception(msg)
  | importRaises (msg : Text)   -- the module exists but executing it raises an exception that is not an ImportError
  | returnsNone
  | returnsText (t : Text)      -- returns this text verbatim
deriving Repr

abbrev UdEnv := Text → UdPlugin   -- by module name `<creator lower><comp %04x>`

/-- what `ParseUserData.parse` hands to `json.loads` -/
inductive UdValue where
  | json (j : J)        -- produced by `json.dumps` of a Python value: `json.loads` gives it back
  | text (t : Text)     -- arbitrary text: must be parsed
  | fail (e : Err)

def errorWithData (msg : Text) (data : Bytes) : J :=
  .obj ([kv "Error" (jstr msg)] ++ (if data ≠ [] then [kv "Data" (hexdumpJ data)] else []))

/-- the built-in text format: lines of the stripped text, non-printables replaced by '.' -/
def textLinesGo : Text → Text → List Text
  | [], line => if line ≠ [] then [line] else []
  | ch :: r, line =>
    if ch ≠ 10 then textLinesGo r (line ++ [if ch < 32 ∨ ch > 126 then 46 else ch])
    else line :: textLinesGo r []

def builtinText (t : Text) : List Text := textLinesGo (rstripChar 0 (stripSp t)) []

/-- `getBuiltinFormatJSON` -/
def builtinFormat (sub : Nat) (data : Bytes) : UdValue :=
  if sub = 1 then
    match utf8Decode data with
    | none => .fail .decode
    | some t => .text (rstripChar 0 (stripSp t))
  else if sub = 3 then
    match utf8Decode data with
    | none => .fail .decode
    | some t => .json (.arr ((builtinText t).map jstr))
  else .json (hexdumpJ data)

def udModuleName (creator : Text) (comp : Nat) : Text := (creator.map toLowerAscii ++ fmtHex 4 comp).map toLowerAscii

/-- `ParseUserData.parse` -/
def parseUserData (T : Tables) (env : UdEnv) (allowPlugins : Bool) (creator : Text) (comp sub ver : Nat) (data : Bytes) : UdValue :=
  if lookupT T.creators creator = some (s "BMC") ∧ comp = 0x2000 then builtinFormat sub data
  else if !allowPlugins then .json (.obj (if data ≠ [] then [kv "Data" (hexdumpJ data)] else []))
  else
    match env (udModuleName creator comp) with
    | .absent => .json (hexdumpJ data)
    | .echo => .json (.obj [kv "subType" (jnum sub), kv "version" (jnum ver), kv "data" (jstr (bytesHexL data))])
    | .raises msg =>
      .json (errorWithData (s "Failed parsing user data for creator=" ++ creator ++ s " compID=0x" ++ fmtHex 4 comp ++
        s " subType=0x" ++ fmtHex 1 sub ++ s " version=" ++ natDec ver ++ s " Exception=" ++ msg) data)
    | .importRaises msg =>
      -- `importlib.import_module` raises inside the `try`: handled by the same `except Exception` as a failing call
      -- (nothing is cached: `sys.modules` keeps no entry for a module whose execution failed)
      .json (errorWithData (s "Failed parsing user data for creator=" ++ creator ++ s " compID=0x" ++ fmtHex 4 comp ++
        s " subType=0x" ++ fmtHex 1 sub ++ s " version=" ++ natDec ver ++ s " Exception=" ++ msg) data)
    | .returnsNone =>
      .json (errorWithData (s "Parser returned a value of None for creatorID=" ++ creator ++ s " compID=0x" ++ fmtHex 4 comp ++
        s " subType=" ++ natDec sub ++ s " version=" ++ natDec ver) data)
    | .returnsText t => .text t

/-- the tail of `UserData.toJSON`: `json.loads`, fall back to a dump of the TEXT, merge -/
def udToJson (T : Tables) (h : SecHdr) (creator : Text) (v : UdValue) : Except Err J :=
  let head : List (Text × J) := [
    kv "Section Version" (jnum h.ver), kv "Sub-section type" (jnum h.sub),
    kv "Created by" (jstr (displayCompID T h.comp creator))]
  let merge (j : J) : J := match j with
    | .obj members => .obj (objUpdate head members)
    | other => .obj (objSet head (s "Data") other)
  match v with
  | .fail e => .error e
  | .json j => .ok (merge j)
  | .text t =>
    match loads t with
    | .ok j => .ok (merge j)
    | .bad => .ok (merge (hexdumpJ (utf8Encode t)))
    | .unsupported => .error .unsupported

/-- `UserData(...)` + `toJSON` -/
def decodeUD (T : Tables) (env : UdEnv) (allowPlugins : Bool) (h : SecHdr) (creator : Text) : Rd J := do
  let data ← getMem (h.len - 8)
  match udToJson T h creator (parseUserData T env allowPlugins creator h.comp h.sub h.ver data) with
  | .ok j => pure j
  | .error e => Rd.fail e

/-- `ExtUserData(...)` + `toJSON`: the section carries its own creator id -/
def decodeED (T : Tables) (env : UdEnv) (allowPlugins : Bool) (h : SecHdr) : Rd J := do
  let c ← getInt 1
  let _ ← getInt 1
  let _ ← getInt 2
  let data ← getMem (h.len - 4 - 8)
  let creator : Text := [c]
  match udToJson T h creator (parseUserData T env allowPlugins creator h.comp h.sub h.ver data) with
  | .ok j => pure j
  | .error e => Rd.fail e

end Pel
