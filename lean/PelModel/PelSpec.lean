import PelModel.Pel
/-
  Declarative side of C01–C05: abstract PELs, their byte encoding (the notion of "well-formed") and the
  document the properties say must be displayed (`render`).  Written field by field from the PEL layout,
  not from the decoder's control flow.
-/
namespace Pel

structure AHdr where
  ver : Nat
  sub : Nat
  comp : Nat
deriving Repr, DecidableEq

def AHdr.WF (h : AHdr) : Prop := h.ver < 256 ∧ h.sub < 256 ∧ h.comp < 65536

def encHdr (id : Nat) (bodyLen : Nat) (h : AHdr) : Bytes :=
  toBE 2 id ++ toBE 2 (8 + bodyLen) ++ toBE 1 h.ver ++ toBE 1 h.sub ++ toBE 2 h.comp

structure APH where
  hdr : AHdr
  create : Bytes      -- 8 BCD bytes
  commit : Bytes      -- 8 BCD bytes
  creator : Nat       -- one ASCII byte
  resv0 : Nat
  resv1 : Nat
  obmc : Nat
  cver : Nat
  plid : Nat
  eid : Nat
deriving Repr, DecidableEq

def APH.WF (p : APH) : Prop :=
  p.hdr.WF ∧ p.create.length = 8 ∧ p.commit.length = 8 ∧ (∀ x ∈ p.create, x < 256) ∧ (∀ x ∈ p.commit, x < 256) ∧
  p.creator < 128 ∧ p.resv0 < 256 ∧ p.resv1 < 256 ∧ p.obmc < 2^32 ∧ p.cver < 2^64 ∧ p.plid < 2^32 ∧ p.eid < 2^32

def APH.encBody (p : APH) (sectionCount : Nat) : Bytes :=
  p.create ++ p.commit ++ [p.creator] ++ [p.resv0] ++ [p.resv1] ++ toBE 1 sectionCount ++ toBE 4 p.obmc ++
    toBE 8 p.cver ++ toBE 4 p.plid ++ toBE 4 p.eid

structure AUH where
  hdr : AHdr
  subsys : Nat
  scope : Nat
  sev : Nat
  etype : Nat
  resv : Nat
  pd : Nat
  pv : Nat
  af : Nat
  states : Nat
deriving Repr, DecidableEq

def AUH.WF (u : AUH) : Prop :=
  u.hdr.WF ∧ u.subsys < 256 ∧ u.scope < 256 ∧ u.sev < 256 ∧ u.etype < 256 ∧ u.resv < 2^32 ∧ u.pd < 256 ∧ u.pv < 256 ∧
  u.af < 65536 ∧ u.states < 2^32

def AUH.encBody (u : AUH) : Bytes :=
  toBE 1 u.subsys ++ toBE 1 u.scope ++ toBE 1 u.sev ++ toBE 1 u.etype ++ toBE 4 u.resv ++ toBE 1 u.pd ++ toBE 1 u.pv ++
    toBE 2 u.af ++ toBE 4 u.states

/-! #### callouts -/

structure AFru where
  flags : Nat        -- bits 0x08 pn, 0x04 ccin, 0x02 maint proc, 0x01 sn; high nibble = component type
  pn : Bytes         -- 8 bytes, present iff flags & 0x0A
  ccin : Bytes       -- 4 bytes, present iff flags & 0x04
  sn : Bytes         -- 12 bytes, present iff flags & 0x01
deriving Repr, DecidableEq

def isAscii (b : Bytes) : Prop := ∀ x ∈ b, x < 128

def AFru.hasPn (f : AFru) : Bool := f.flags &&& 0x08 != 0 || f.flags &&& 0x02 != 0
def AFru.hasCcin (f : AFru) : Bool := f.flags &&& 0x04 != 0
def AFru.hasSn (f : AFru) : Bool := f.flags &&& 0x01 != 0

def AFru.WF (f : AFru) : Prop :=
  f.flags < 256 ∧ f.pn.length = (if f.hasPn then 8 else 0) ∧ f.ccin.length = (if f.hasCcin then 4 else 0) ∧
  f.sn.length = (if f.hasSn then 12 else 0) ∧ isAscii f.pn ∧ isAscii f.ccin ∧ isAscii f.sn

def AFru.size (f : AFru) : Nat := 4 + f.pn.length + f.ccin.length + f.sn.length
def AFru.enc (f : AFru) : Bytes := [0x49, 0x44, f.size, f.flags] ++ f.pn ++ f.ccin ++ f.sn

structure APce where
  flags : Nat
  mtm : Bytes        -- 8
  sn : Bytes         -- 12
  name : Bytes       -- at least one byte
deriving Repr, DecidableEq

def APce.WF (p : APce) : Prop :=
  p.flags < 256 ∧ p.mtm.length = 8 ∧ p.sn.length = 12 ∧ 1 ≤ p.name.length ∧ p.name.length ≤ 200 ∧
  isAscii p.mtm ∧ isAscii p.sn ∧ isAscii p.name
def APce.size (p : APce) : Nat := 24 + p.name.length
def APce.enc (p : APce) : Bytes := [0x50, 0x45, p.size, p.flags] ++ p.mtm ++ p.sn ++ p.name

structure AMru where
  flagsHi : Nat      -- high nibble of the flags byte (low nibble = number of MRUs)
  resv : Nat
  items : List (Nat × Nat)   -- (priority, id)
deriving Repr, DecidableEq

def AMru.WF (m : AMru) : Prop :=
  m.flagsHi < 16 ∧ m.resv < 2^32 ∧ m.items.length ≤ 15 ∧ ∀ p ∈ m.items, p.1 < 2^32 ∧ p.2 < 2^32
def AMru.size (m : AMru) : Nat := 8 + 8 * m.items.length
def AMru.enc (m : AMru) : Bytes :=
  [0x4D, 0x52, m.size, m.flagsHi * 16 + m.items.length] ++ toBE 4 m.resv ++ m.items.flatMap (fun p => toBE 4 p.1 ++ toBE 4 p.2)

structure ACallout where
  flags : Nat
  priority : Nat
  loc : Bytes
  fru : AFru               -- every displayed callout carries a FRU identity
  pce : Option APce
  mru : Option AMru
deriving Repr, DecidableEq

def ACallout.size (c : ACallout) : Nat :=
  4 + c.loc.length + c.fru.size + (c.pce.map (·.size)).getD 0 + (c.mru.map (·.size)).getD 0

def ACallout.WF (c : ACallout) : Prop :=
  c.flags < 256 ∧ c.priority < 256 ∧ c.loc.length ≤ 80 ∧ isAscii c.loc ∧ c.fru.WF ∧
  (∀ p ∈ c.pce, p.WF) ∧ (∀ m ∈ c.mru, m.WF) ∧ c.size < 256

def ACallout.enc (c : ACallout) : Bytes :=
  [c.size, c.flags, c.priority, c.loc.length] ++ c.loc ++ c.fru.enc ++ ((c.pce.map (·.enc)).getD []) ++ ((c.mru.map (·.enc)).getD [])

structure ACalloutSec where
  subId : Nat
  subFlags : Nat
  callouts : List ACallout
deriving Repr, DecidableEq

def ACalloutSec.total (cs : ACalloutSec) : Nat := 4 + (cs.callouts.map (·.size)).sum
def ACalloutSec.WF (cs : ACalloutSec) : Prop :=
  cs.subId < 256 ∧ cs.subFlags < 256 ∧ (∀ c ∈ cs.callouts, c.WF) ∧ cs.total % 4 = 0 ∧ cs.total / 4 < 65536
def ACalloutSec.enc (cs : ACalloutSec) : Bytes :=
  [cs.subId, cs.subFlags] ++ toBE 2 (cs.total / 4) ++ cs.callouts.flatMap (·.enc)

structure ASrc where
  version : Nat
  flagsHi : Nat        -- the flags byte without bit 0x01 (which says "callouts present")
  resv1 : Nat
  wordCount : Nat
  resv2 : Nat
  size : Nat
  words : List Nat     -- hex words 2..9
  ascii : Bytes        -- 32 bytes
  callouts : Option ACalloutSec
deriving Repr, DecidableEq

def ASrc.flags (x : ASrc) : Nat := x.flagsHi + (if x.callouts.isSome then 1 else 0)
def ASrc.WF (x : ASrc) : Prop :=
  x.version < 256 ∧ x.flagsHi < 256 ∧ x.flagsHi % 2 = 0 ∧ x.resv1 < 256 ∧ x.wordCount ≤ 9 ∧ x.resv2 < 65536 ∧ x.size < 65536 ∧
  x.words.length = 8 ∧ (∀ w ∈ x.words, w < 2^32) ∧ x.ascii.length = 32 ∧ isAscii x.ascii ∧ (∀ cs ∈ x.callouts, cs.WF)
def ASrc.encBody (x : ASrc) : Bytes :=
  [x.version, x.flags, x.resv1, x.wordCount] ++ toBE 2 x.resv2 ++ toBE 2 x.size ++ x.words.flatMap (toBE 4) ++ x.ascii ++
    ((x.callouts.map (·.enc)).getD [])

/-! #### the other section types -/

structure AEH where
  mtm : Bytes          -- 8
  sn : Bytes           -- 12
  fw : Bytes           -- 16
  subfw : Bytes        -- 16
  resv : Nat
  refTime : Bytes      -- 8 BCD bytes
  resv3 : Bytes        -- 3
  sym : Bytes          -- 0..255
deriving Repr, DecidableEq

def AEH.WF (e : AEH) : Prop :=
  e.mtm.length = 8 ∧ e.sn.length = 12 ∧ e.fw.length = 16 ∧ e.subfw.length = 16 ∧ e.resv < 2^32 ∧ e.refTime.length = 8 ∧
  (∀ x ∈ e.refTime, x < 256) ∧ e.resv3.length = 3 ∧ (∀ x ∈ e.resv3, x < 256) ∧ e.sym.length < 256 ∧
  isAscii e.mtm ∧ isAscii e.sn ∧ isAscii e.fw ∧ isAscii e.subfw ∧ isAscii e.sym
def AEH.encBody (e : AEH) : Bytes :=
  e.mtm ++ e.sn ++ e.fw ++ e.subfw ++ toBE 4 e.resv ++ e.refTime ++ e.resv3 ++ [e.sym.length] ++ e.sym

structure AMT where
  mtm : Bytes
  sn : Bytes
deriving Repr, DecidableEq
def AMT.WF (m : AMT) : Prop := m.mtm.length = 8 ∧ m.sn.length = 12 ∧ isAscii m.mtm ∧ isAscii m.sn
def AMT.encBody (m : AMT) : Bytes := m.mtm ++ m.sn

structure ALP where
  primary : Nat
  logId : Nat
  name : Bytes
  targets : List Nat
  pad : Nat            -- the two alignment bytes present when the target count is odd
deriving Repr, DecidableEq
def ALP.WF (l : ALP) : Prop :=
  l.primary < 65536 ∧ l.logId < 2^32 ∧ l.name.length < 256 ∧ isAscii l.name ∧ l.targets.length < 256 ∧
  (∀ t ∈ l.targets, t < 65536) ∧ l.pad < 65536
def ALP.encBody (l : ALP) : Bytes :=
  toBE 2 l.primary ++ [l.name.length] ++ [l.targets.length] ++ toBE 4 l.logId ++ l.name ++ l.targets.flatMap (toBE 2) ++
    (if l.targets.length % 2 = 1 then toBE 2 l.pad else [])

inductive ABody where
  | src (primary : Bool) (x : ASrc)
  | eh (e : AEH)
  | mt (m : AMT)
  | lp (l : ALP)
  | ud (payload : Bytes)
  | ed (creator resv1 resv2 : Nat) (payload : Bytes)
  | other (id : Nat) (payload : Bytes)
deriving Repr, DecidableEq

structure ASection where
  hdr : AHdr
  body : ABody
deriving Repr, DecidableEq

def ABody.id : ABody → Nat
  | .src true _ => sidPS
  | .src false _ => sidSS
  | .eh _ => sidEH
  | .mt _ => sidMT
  | .lp _ => sidLP
  | .ud _ => sidUD
  | .ed .. => sidED
  | .other id _ => id

def ABody.enc : ABody → Bytes
  | .src _ x => x.encBody
  | .eh e => e.encBody
  | .mt m => m.encBody
  | .lp l => l.encBody
  | .ud p => p
  | .ed c r1 r2 p => [c, r1] ++ toBE 2 r2 ++ p
  | .other _ p => p

def isSpecialId (id : Nat) : Bool :=
  id == sidPH || id == sidUH || id == sidPS || id == sidSS || id == sidEH || id == sidMT || id == sidLP || id == sidUD || id == sidED

def ABody.WF : ABody → Prop
  | .src _ x => x.WF
  | .eh e => e.WF
  | .mt m => m.WF
  | .lp l => l.WF
  | .ud p => 1 ≤ p.length ∧ ∀ x ∈ p, x < 256
  | .ed c r1 r2 p => c < 256 ∧ r1 < 256 ∧ r2 < 65536 ∧ 1 ≤ p.length ∧ ∀ x ∈ p, x < 256
  | .other id p => id < 65536 ∧ isSpecialId id = false ∧ 1 ≤ p.length ∧ ∀ x ∈ p, x < 256

def ASection.WF (sec : ASection) : Prop := sec.hdr.WF ∧ sec.body.WF ∧ 8 + sec.body.enc.length < 65536
def ASection.enc (sec : ASection) : Bytes := encHdr sec.body.id sec.body.enc.length sec.hdr ++ sec.body.enc

structure APel where
  ph : APH
  uh : AUH
  sections : List ASection
deriving Repr, DecidableEq

def APel.WF (p : APel) : Prop := p.ph.WF ∧ p.uh.WF ∧ p.sections.length ≤ 253 ∧ ∀ sec ∈ p.sections, sec.WF

def APel.enc (p : APel) : Bytes :=
  encHdr sidPH 40 p.ph.hdr ++ p.ph.encBody (p.sections.length + 2) ++
  encHdr sidUH 16 p.uh.hdr ++ p.uh.encBody ++ p.sections.flatMap (·.enc)

/-! ### what must be displayed -/

def bcdTime (b : Bytes) : Text :=
  bytesHexL ((b.drop 2).take 1) ++ [47] ++ bytesHexL ((b.drop 3).take 1) ++ [47] ++ bytesHexL (b.take 2) ++ [32] ++
  bytesHexL ((b.drop 4).take 1) ++ [58] ++ bytesHexL ((b.drop 5).take 1) ++ [58] ++ bytesHexL ((b.drop 6).take 1)

def hdrMembers (T : Tables) (h : AHdr) (creator : Text) (createdKey : String) : List (Text × J) :=
  [kv "Section Version" (jnum h.ver), kv "Sub-section type" (jnum h.sub),
   kv createdKey (jstr (displayCompID T h.comp creator))]

def renderPH (T : Tables) (p : APH) : J :=
  .obj (hdrMembers T p.hdr [p.creator] "Created by" ++ [
    kv "Created at" (jstr (bcdTime p.create)), kv "Committed at" (jstr (bcdTime p.commit)),
    kv "Creator Subsystem" (jstr ((lookupT T.creators [p.creator]).getD (s "Unknown"))),
    kv "CSSVER" (jstr (ox (fmtHex 2 p.cver))),
    kv "Platform Log Id" (jstr (ox (fmtHex 2 p.plid))),
    kv "Entry Id" (jstr (ox (fmtHex 2 p.eid))),
    kv "BMC Event Log Id" (jstr (natDec p.obmc))])

def renderUH (T : Tables) (u : AUH) (creator : Text) : J :=
  .obj (hdrMembers T u.hdr creator "Log Committed by" ++ [
    kv "Subsystem" (jstr ((lookupN T.subsystems u.subsys).getD (s "Invalid"))),
    kv "Event Scope" (jstr ((lookupN T.eventScopes u.scope).getD (s "Invalid"))),
    kv "Event Severity" (jstr ((lookupN T.severities u.sev).getD (s "Invalid"))),
    kv "Event Type" (jstr ((lookupN T.eventTypes u.etype).getD (s "Invalid"))),
    kv "Action Flags" (.arr ((T.actionFlags.filter (fun p => p.1 &&& u.af != 0)).map (fun p => jstr p.2))),
    kv "Host Transmission" (jstr ((lookupN T.transStates (u.states % 256)).getD (s "Unknown"))),
    kv "HMC Transmission" (jstr ((lookupN T.transStates (u.states / 256 % 256)).getD (s "Unknown")))])

def renderEH (T : Tables) (h : AHdr) (creator : Text) (e : AEH) : J :=
  .obj (hdrMembers T h creator "Created by" ++ [
    kv "Reporting Machine Type" (jstr (stripNul e.mtm)),
    kv "Reporting Serial Number" (jstr (stripNul e.sn)),
    kv "FW Released Ver" (jstr (stripNul e.fw)),
    kv "FW SubSys Version" (jstr (stripNul e.subfw)),
    kv "Common Ref Time" (jstr (bcdTime e.refTime)),
    kv "Symptom Id Len" (jstr (natDec e.sym.length)),
    kv "Symptom Id" (jstr (stripNul e.sym))])

def renderMT (T : Tables) (h : AHdr) (creator : Text) (m : AMT) : J :=
  .obj (hdrMembers T h creator "Created by" ++ [
    kv "Machine Type Model" (jstr (stripNul m.mtm)), kv "Serial Number" (jstr (stripNul m.sn))])

def renderLP (T : Tables) (h : AHdr) (creator : Text) (l : ALP) : J :=
  .obj (hdrMembers T h creator "Created by" ++ [
    kv "Primary Partition ID" (jstr (ox (hexFix 4 l.primary))),
    kv "Length of LP Name" (jstr (ox (hexFix 2 l.name.length))),
    kv "Target LP Count" (jstr (ox (hexFix 2 l.targets.length))),
    kv "Logical Partition Log ID" (jstr (ox (hexFix 8 l.logId))),
    kv "Primary Partition Name" (jstr (rstripChar 0 l.name))] ++
    (if l.targets ≠ [] then [kv "Target LP" (.arr (l.targets.map fun t => jstr (ox (hexFix 4 t))))] else []))

def renderCallout (T : Tables) (env : SrcEnv) (creator : Text) (allowPlugins : Bool) (c : ACallout) : J :=
  .obj (
    [kv "FRU Type" (jstr ((lookupN T.failingCompTypes (c.fru.flags / 16 * 16)).getD (s "Invalid"))),
     kv "Priority" (jstr ((lookupN T.calloutPriorities c.priority).getD (s "Invalid")))] ++
    (if stripNul c.loc ≠ [] then [kv "Location Code" (jstr (stripNul c.loc))] else []) ++
    (if c.fru.flags &&& 0x08 ≠ 0 then [kv "Part Number" (jstr (stripNul c.fru.pn))] else []) ++
    (if c.fru.flags &&& 0x02 ≠ 0 then [kv "Procedure" (jstr (stripNul c.fru.pn))] ++
        procDescription env creator allowPlugins (stripNul c.fru.pn) else []) ++
    (if c.fru.flags &&& 0x04 ≠ 0 then [kv "CCIN" (jstr (stripNul c.fru.ccin))] else []) ++
    (if c.fru.flags &&& 0x01 ≠ 0 then [kv "Serial Number" (jstr (stripNul c.fru.sn))] else []) ++
    (match c.pce with
      | none => []
      | some p => (if stripNul p.mtm ≠ [] then [kv "PCE MTMS" (jstr (stripNul p.mtm ++ [95] ++ stripNul p.sn))] else []) ++
                  (if stripNul p.name ≠ [] then [kv "PCE Name" (jstr (stripNul p.name))] else [])) ++
    (match c.mru with
      | none => []
      | some m => [kv "MRU Id" (jstr (joinWith [44] (m.items.map fun pi => hexFix 8 pi.2)))]))

/-! #### registry messages, declaratively -/

/-- `seg0 ++ a0 ++ seg1 ++ a1 ++ … ++ segN`: the segments of a message with one argument between consecutive ones
    (arguments beyond the last gap are ignored) -/
def interleave : List Text → List Text → Text
  | [], _ => []
  | [seg], _ => seg
  | seg :: segs, [] => seg ++ interleave segs []
  | seg :: segs, a :: as => seg ++ a ++ interleave segs as

/-- a message text: the segments with a placeholder `%d` (digit value `d`, character `48 + d`) between consecutive ones -/
def joinPlaceholders : List Text → List Nat → Text
  | [], _ => []
  | [seg], _ => seg
  | seg :: segs, [] => seg ++ joinPlaceholders segs []
  | seg :: segs, d :: ds => seg ++ [37, 48 + d] ++ joinPlaceholders segs ds

/-- what an argument source `…N` (last character the ASCII digit `N`, 2 ≤ N ≤ 9) stands for: Python's `hex()` of SRC
    word `N`, i.e. "0x" followed by the lower-case hex digits of the word without leading zeros -/
def srcWordHex (words : List Nat) (src : Text) : Text :=
  s "0x" ++ fmtHexL 1 (words.getD (src.getLast?.getD 48 - 48 - 2) 0)

def renderSrc (T : Tables) (env : SrcEnv) (h : AHdr) (creator : Text) (allowPlugins : Bool) (x : ASrc) : J :=
  let w (i : Nat) : Nat := x.words.getD i 0
  let ty := x.ascii.take 2
  let isBmc := ty = s "BD" ∨ ty = s "11"
  let isHb := ty = s "BC"
  let hexw := ((List.range (x.wordCount + 1)).drop 2).map fun i => hexFix 8 (w (i - 2))
  .obj (hdrMembers T h creator "Created by" ++ [
    kv "SRC Version" (jstr (ox (hexFixL 2 x.version))),
    kv "SRC Format" (jstr (ox (hexFix 2 (w 0 % 256)))),
    kv "Virtual Progress SRC" (boolStr (x.flags / 128 % 2 = 1)),
    kv "I5/OS Service Event Bit" (boolStr (x.flags / 16 % 2 = 1)),
    kv "Hypervisor Dump Initiated" (boolStr (x.flags / 4 % 2 = 1))] ++
    (if isBmc then [kv "Backplane CCIN" (jstr (hexFix 4 (w 1 / 65536))),
                    kv "Terminate FW Error" (boolStr (w 3 / 2^29 % 2 = 1))] else []) ++
    (if isBmc ∨ isHb then [kv "Deconfigured" (boolStr (w 3 / 2^25 % 2 = 1)),
                           kv "Guarded" (boolStr (w 3 / 2^24 % 2 = 1))] ++
                          (match errorDetails env.registry x.ascii x.words with
                            | .some ms => [kv "Error Details" (.obj ms)]
                            | _ => []) else []) ++
    [kv "Valid Word Count" (jstr (ox (hexFix 2 x.wordCount))),
     kv "Reference Code" (jstr (stripSp x.ascii))] ++
    (((List.range (x.wordCount + 1)).drop 2).map fun i => (s "Hex Word " ++ natDec i, jstr (hexFix 8 (w (i - 2))))) ++
    (match x.callouts with
      | none => []
      | some cs => [kv "Callout Section" (.obj [kv "Callout Count" (jnum cs.callouts.length),
          kv "Callouts" (.arr (cs.callouts.map (renderCallout T env creator allowPlugins)))])]) ++
    (if allowPlugins then
      (match srcDetails env creator x.ascii (hexw ++ List.replicate (8 - hexw.length) (s "00000000")) with
        | .some j => [kv "SRC Details" j]
        | _ => [])
     else []))

/-- whether the message registry lets this SRC be displayed: for BMC / power / hostboot SRCs building the "Error Details"
    must neither raise (a malformed registry entry rejects the PEL) nor leave the modelled subset of Python -/
def registryDisplayable (env : SrcEnv) (x : ASrc) : Bool :=
  let ty := x.ascii.take 2
  if ty = s "BD" ∨ ty = s "11" ∨ ty = s "BC" then
    match errorDetails env.registry x.ascii x.words with
    | .fail => false
    | .unsupported => false
    | _ => true
  else true

/-- whether the SRC parser environment lets this SRC be displayed at all (a plugin returning invalid JSON rejects the PEL;
    so does a registry entry whose message cannot be built) -/
def srcDisplayable (env : SrcEnv) (creator : Text) (allowPlugins : Bool) (x : ASrc) : Bool :=
  registryDisplayable env x &&
  (if !allowPlugins then true else
  let w (i : Nat) : Nat := x.words.getD i 0
  let hexw := ((List.range (x.wordCount + 1)).drop 2).map fun i => hexFix 8 (w (i - 2))
  match srcDetails env creator x.ascii (hexw ++ List.replicate (8 - hexw.length) (s "00000000")) with
  | .fail => false
  | .unsupported => false
  | _ => true)

def renderDefault (h : AHdr) (payload : Bytes) : J :=
  .obj [kv "Section Version" (jnum h.ver), kv "Sub-section type" (jnum h.sub),
        kv "Created by" (jstr (ox (fmtHex 2 h.comp))), kv "Data" (hexdumpJ payload)]

/-- user data: the entry is computed from exactly the section's payload (what it contains is C04's subject) -/
def renderUD (env : Env) (h : AHdr) (len : Nat) (creator : Text) (payload : Bytes) : Except Err J :=
  udToJson env.T { id := 0, len := len, ver := h.ver, sub := h.sub, comp := h.comp } creator
    (parseUserData env.T env.ud env.allowPlugins creator h.comp h.sub h.ver payload)

def renderSection (env : Env) (creator : Text) (sec : ASection) : Except Err J :=
  match sec.body with
  | .src _ x => if srcDisplayable env.src creator env.allowPlugins x
      then .ok (renderSrc env.T env.src sec.hdr creator env.allowPlugins x) else .error .other
  | .eh e => .ok (renderEH env.T sec.hdr creator e)
  | .mt m => .ok (renderMT env.T sec.hdr creator m)
  | .lp l => .ok (renderLP env.T sec.hdr creator l)
  | .ud p => renderUD env sec.hdr (8 + p.length) creator p
  | .ed c _ _ p => renderUD env sec.hdr (12 + p.length) [c] p
  | .other _ p => .ok (renderDefault sec.hdr p)

/-- display names in log order; a name occurring more than once is numbered 0,1,2… in order of appearance -/
def numberNames : List Text → List Text → List Text
  | _, [] => []
  | all, n :: r =>
    (if (all.filter (· == n)).length = 1 then n
     else n ++ [32] ++ natDec (((all.take (all.length - (n :: r).length)).filter (· == n)).length)) :: numberNames all r

def exceptAll {α} : List (Except Err α) → Except Err (List α)
  | [] => .ok []
  | .error e :: _ => .error e
  | .ok x :: r => match exceptAll r with
    | .ok l => .ok (x :: l)
    | .error e => .error e

/-- the document the properties prescribe for a well-formed, selected PEL -/
def render (env : Env) (p : APel) : Except Err J :=
  let creator : Text := [p.ph.creator]
  let names := p.sections.map (fun sec => sectionName env.T sec.body.id)
  match exceptAll (p.sections.map (renderSection env creator)) with
  | .error e => .error e
  | .ok js =>
    .ok (.obj ([(sectionName env.T sidPH, renderPH env.T p.ph), (sectionName env.T sidUH, renderUH env.T p.uh creator)] ++
      (numberNames names names).zip js))

end Pel
