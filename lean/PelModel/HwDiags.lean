import PelModel.Json
import PelModel.Reader
import PelModel.Utf8
/-
  Model of pel/hwdiags/parserdata.py (signature decoding, chip-data look-ups) and of the two
  openpower-hw-diags parser modules udparsers/oe500 and srcparsers/oe500.  Chip data files are an
  abstract, well-typed map; any level of it may be missing.
-/
namespace Pel

structure ChipData where
  id : Text                                                      -- "model_ec"."id" (the dictionary key)
  type : Option Text
  desc : Option Text
  attnTypes : Option (List (Text × Text))                        -- str(attn) → description
  signatures : Option (List (Text × Text × List (Text × Text)))  -- sig id → (name, str(bit) → description)
  registers : Option (List (Text × Text × List (Text × Text)))   -- reg id → (name, str(inst) → hex address)
deriving Repr

def lookup3 (l : List (Text × Text × List (Text × Text))) (k : Text) : Option (Text × List (Text × Text)) :=
  (l.find? (fun p => p.1 == k)).map (·.2)
def lookupTT (l : List (Text × Text)) (k : Text) : Option Text := (l.find? (fun p => p.1 == k)).map (·.2)

/-- `self._data[model_ec.lower()]`; later files with the same id replace earlier ones (dict assignment) -/
def chipFor (cd : List ChipData) (modelEc : Text) : Option ChipData :=
  (cd.reverse.find? (fun c => c.id == modelEc.map toLowerAscii))

def upperT (t : Text) : Text := t.map toUpperAscii
def lowerT (t : Text) : Text := t.map toLowerAscii

/-- `get_chip_desc` -/
def chipDesc (cd : List ChipData) (modelEc : Text) (node chip : Nat) : Text :=
  let c := chipFor cd modelEc
  let ty := (c.bind (·.type)).getD (s "unknown")
  let ds := (c.bind (·.desc)).getD (upperT (lowerT modelEc))
  s "node " ++ natDec node ++ [32] ++ ty ++ [32] ++ natDec chip ++ s " (" ++ ds ++ s ")"

/-- `get_sig_desc` -/
def sigDesc (cd : List ChipData) (modelEc sigId : Text) (inst bit : Nat) : Text :=
  let entry := ((chipFor cd modelEc).bind (·.signatures)).bind (fun m => lookup3 m (lowerT sigId))
  let name := (entry.map (·.1)).getD (s "id:" ++ upperT (lowerT sigId))
  let dsc := (entry.bind (fun e => lookupTT e.2 (natDec bit))).getD []
  name ++ s "(" ++ natDec inst ++ s ")[" ++ natDec bit ++ s "] " ++ dsc

/-- `get_attn_desc` -/
def attnDesc (cd : List ChipData) (modelEc : Text) (attn : Nat) : Text :=
  (((chipFor cd modelEc).bind (·.attnTypes)).bind (fun m => lookupTT m (natDec attn))).getD (natDec attn)

/-- `get_signature(word_a, word_b, word_c)` on three 8-hex-digit words (either case) -/
def getSignature (cd : List ChipData) (a b c : Text) : J :=
  let chipPos := parseHexText (b.take 4)
  let nodePos := parseHexText ((b.drop 4).take 2)
  let attn := parseHexText ((b.drop 6).take 2)
  let sigId := c.take 4
  let inst := parseHexText ((c.drop 4).take 2)
  let bit := parseHexText ((c.drop 6).take 2)
  .obj [(s "Chip Desc", .str (chipDesc cd a nodePos chipPos)),
        (s "Signature", .str (sigDesc cd a sigId inst bit)),
        (s "Attn Type", .str (attnDesc cd a attn))]

/-- `get_reg_data`; `none` = the address text in the data file is not hexadecimal (int() raises) -/
def regData (cd : List ChipData) (modelEc regId : Text) (inst : Nat) : Text × Text :=
  let entry := ((chipFor cd modelEc).bind (·.registers)).bind (fun m => lookup3 m (lowerT regId))
  let name := (entry.map (·.1)).getD (s "id:" ++ upperT (lowerT regId) ++ s " inst:" ++ natDec inst)
  let addr := ((entry.bind (fun e => lookupTT e.2 (natDec inst))).map parseHexText).getD 0
  (name, s "0x" ++ fmtHex 8 addr)

/-! #### udparsers.oe500 -/

def readSigs (cd : List ChipData) : Nat → Rd (List J)
  | 0 => pure []
  | n+1 => do
    let a ← getMem 4; let b ← getMem 4; let c ← getMem 4
    let rest ← readSigs cd n
    pure (getSignature cd (bytesHexL a) (bytesHexL b) (bytesHexL c) :: rest)

/-- 4-hex-digit groups separated by a space, upper case -/
def chunk4 : Nat → Text → List Text
  | 0, _ => []
  | fuel+1, t => if t = [] then [] else t.take 4 :: chunk4 fuel (t.drop 4)

def readRegs (cd : List ChipData) (modelEc : Text) : Nat → Rd (List Text)
  | 0 => pure []
  | n+1 => do
    let rid ← getMem 3
    let inst ← getInt 1
    let size ← getInt 1
    let buf ← getMem size
    let (name, addr) := regData cd modelEc (bytesHexL rid) inst
    let nm := ljust 25 32 (name.take 25)
    let hex := bytesHexL buf
    let line := s "  " ++ nm ++ s " (" ++ addr ++ s ") " ++ upperT (joinWith [32] (chunk4 (hex.length + 1) hex))
    let rest ← readRegs cd modelEc n
    pure (line :: rest)

def readChips (cd : List ChipData) : Nat → Rd (List Text)
  | 0 => pure []
  | n+1 => do
    let ec ← getMem 4
    let chipPos ← getInt 2
    let nodePos ← getInt 1
    let numRegs ← getInt 4
    let modelEc := bytesHexL ec
    let head := ljust 60 42 (chipDesc cd modelEc nodePos chipPos ++ [32])
    let regs ← readRegs cd modelEc numRegs
    let rest ← readChips cd n
    pure (head :: regs ++ rest)

inductive PluginOut where
  | json (j : J)      -- the module returned json.dumps(j)
  | raises            -- the module raised
  | unsupported
deriving Repr

/-- `udparsers.oe500.parseUDToJson(subtype, version, data)` as a JSON value -/
def oe500Ud (cd : List ChipData) (sub : Nat) (data : Bytes) : PluginOut :=
  let run {α} (r : Rd α) (f : α → PluginOut) : PluginOut :=
    match r data with
    | .ok (x, _) => f x
    | .error _ => .raises
  if sub = 1 then run (do let n ← getInt 4; readSigs cd n) (fun l => .json (.obj [(s "Signature List", .arr l)]))
  else if sub = 2 then run (do let n ← getInt 4; readChips cd n) (fun l => .json (.obj [(s "Register Dump", .arr (l.map .str))]))
  else if sub = 3 then
    match utf8Decode (rstripChar 0 data) with
    | none => .raises
    | some t => (match loads t with
      | .ok j => .json (.obj [(s "Callout List FFDC", j)])
      | .bad => .raises
      | .unsupported => .unsupported)
  else if sub = 4 then
    run (do let a ← getMem 4; let b ← getMem 4; let c ← getMem 8; let d ← getMem 8; pure (a, b, c, d)) (fun (a, b, c, d) =>
      .json (.obj [(s "Hostboot Scratch Registers",
        .obj (objSet [(s "0x" ++ bytesHexL a, .str (s "0x" ++ bytesHexL b))] (s "0x" ++ bytesHexL c) (.str (s "0x" ++ bytesHexL d))))]))
  else if sub = 5 then
    run (do let a ← getMem 4; let b ← getMem 4; pure (a, b)) (fun (a, b) =>
      .json (.obj [(s "Scratch Register Error Signature",
        .obj [(s "Chip ID", .str (s "0x" ++ bytesHexL a)), (s "Signature ID", .str (s "0x" ++ bytesHexL b))])]))
  else .json .null

/-- `srcparsers.oe500.parseSRCToJson(refcode, word2 … word9)` -/
def oe500Src (cd : List ChipData) (refcode w6 w7 w8 : Text) : J :=
  .obj [(s "Primary Attention", .str (if (refcode.drop 6).take 2 = s "10" then s "system checkstop" else s "secondary analysis")),
        (s "Signature Description", getSignature cd w6 w7 w8)]

/-! #### declarative reading (C20): the fields of a 12-byte signature by arithmetic on the three words -/

structure SigFields where
  modelEc : Nat
  chipPos : Nat
  nodePos : Nat
  attn : Nat
  sigId : Nat
  inst : Nat
  bit : Nat
deriving Repr, DecidableEq

def sigFields (a b c : Nat) : SigFields :=
  { modelEc := a, chipPos := b / 65536, nodePos := b / 256 % 256, attn := b % 256,
    sigId := c / 65536, inst := c / 256 % 256, bit := c % 256 }

/-- the three strings when no chip data exists -/
def specSignatureNoData (a b c : Nat) : J :=
  let f := sigFields a b c
  .obj [(s "Chip Desc", .str (s "node " ++ natDec f.nodePos ++ s " unknown " ++ natDec f.chipPos ++ s " (" ++ hexFix 8 f.modelEc ++ s ")")),
        (s "Signature", .str (s "id:" ++ hexFix 4 f.sigId ++ s "(" ++ natDec f.inst ++ s ")[" ++ natDec f.bit ++ s "] ")),
        (s "Attn Type", .str (natDec f.attn))]

end Pel
