import PelModel.Regex
import PelModel.Ilog
import PelModel.Hlog
import PelModel.Trace
/-
  Model of the three table LOADERS of the I/O-drawer decoders, statement by statement:

    ilog.py   PTETable._parse_header_file / _add_entry / PTETableEntry.__init__      → `loadPteRows`, `loadPteTable`
    hlog.py   get_hlog_fields                                                         → `loadHlogFields`
    trace.py  TraceStringFile.__init__ / _add_trace_string                            → `loadTraceStrings`

  Input = the lines of the file as Python's `for line in file` yields them (text mode: each line includes its
  terminating `\n` if there is one; `\r\n` and a lone `\r` have already been translated to `\n` by universal newlines).
  Output `none` = UNSUPPORTED (outside the modelled subset), never a guess:
    * a non-ASCII character in a parameter list (`str.isdecimal()` / `int()` accept other Unicode decimal digits),
    * a decimal number of more than 4300 digits (CPython's `int()` raises ValueError: int_max_str_digits),
    * a PTE pattern containing one of `\ + ? { ( ) [`: `PTETableEntry.__init__` compiles the pattern (with `*` → `.`) as a
      regular expression, and these are the characters that can make `re.compile` raise (`{5}EF08…`: "nothing to repeat").
  The second half of the file contains the PRINTERS (canonical files written from abstract tables) that the
  round-trip theorems of C14/C15/C16 are about.
-/
namespace Pel

/-- CPython's limit on `int(str)`: more than 4300 digits raise ValueError (leading zeros count) -/
def intMaxStrDigits : Nat := 4300

/-- `t.replace('\\"', '"')`: left to right, non-overlapping -/
def unescapeQuote : Text → Text
  | [] => []
  | [a] => [a]
  | a :: b :: r => if a = 92 ∧ b = 34 then 34 :: unescapeQuote r else a :: unescapeQuote (b :: r)

/-- `tuple(int(p) for p in params_str if p.isdecimal())` for ASCII text: one parameter per decimal CHARACTER -/
def paramsOfText (t : Text) : List Nat := (t.filter (fun c => 48 ≤ c && c ≤ 57)).map (· - 48)

/-- the characters of a PTE pattern that can make `re.compile(pattern.replace('*', '.'))` raise -/
def reMetaChar (c : Nat) : Bool := c == 92 || c == 43 || c == 63 || c == 123 || c == 40 || c == 41 || c == 91

/-- one loaded PTE table entry with all five fields of `PTETableEntry` (`entry.params` is AFTER the 1..4 filter of `__init__`) -/
structure PteRow where
  entry : PteEntry
  file : Text
  line : Nat
deriving Repr, DecidableEq

/-- `PTETable._add_entry(match.groups())` followed by `PTETableEntry.__init__`; `none` = unsupported.
    (`len(fields) != 5` cannot happen: `TBL_ENTRY_RE` has five groups and all of them take part in every match.) -/
def addPteEntry (caps : Caps) : Option PteRow :=
  match capGet caps 1, capGet caps 2, capGet caps 3, capGet caps 4, capGet caps 5 with
  | some pat, some msg, some ptxt, some file, some line =>
    if line.length > intMaxStrDigits then none            -- int(fields[4]) raises
    else if ptxt.any (· ≥ 128) then none                  -- isdecimal()/int() on non-ASCII characters
    else if pat.any reMetaChar then none                  -- re.compile in PTETableEntry.__init__ may raise
    else some { entry := { pattern := pat, fmt := unescapeQuote (stripSp msg), params := validParams (paramsOfText ptxt) },
                file := file, line := decVal line }
  | _, _, _, _, _ => none

/-- the line loop of `_parse_header_file` with its `in_table` flag (`if` START / `elif` END / `elif in_table`) -/
def loadPteGo : Bool → List Text → Option (List PteRow)
  | _, [] => some []
  | inTable, l :: ls =>
    if (tblStartRe.fullmatch l).isSome then loadPteGo true ls
    else if (tblEndRe.fullmatch l).isSome then loadPteGo false ls
    else if inTable then
      match tblEntryRe.fullmatch l with
      | some caps =>
        match addPteEntry caps with
        | none => none
        | some e => (loadPteGo true ls).map (e :: ·)
      | none => loadPteGo true ls
    else loadPteGo false ls

/-- `PTETable(path).entries` with all five fields -/
def loadPteRows (lines : List Text) : Option (List PteRow) := loadPteGo false lines
/-- `PTETable(path).entries` as the table the ILOG model works on -/
def loadPteTable (lines : List Text) : Option (List PteEntry) := (loadPteRows lines).map (·.map (·.entry))

/-! ### history-log fields -/

/-- the body of `if match:` in `get_hlog_fields` (`len(properties) == 2` always holds; `int()` of `1` or `2`) -/
def addHlogField (caps : Caps) : Option HlogField :=
  match capGet caps 1, capGet caps 2 with
  | some size, some name => some (name, decVal size)
  | _, _ => none

def loadHlogGo : Bool → List Text → Option (List HlogField)
  | _, [] => some []
  | inside, l :: ls =>
    if (hlogStartRe.fullmatch l).isSome then loadHlogGo true ls
    else if (hlogEndRe.fullmatch l).isSome then loadHlogGo false ls
    else if inside then
      match hlogFieldRe.fullmatch l with
      | some caps =>
        match addHlogField caps with
        | none => none
        | some f => (loadHlogGo true ls).map (f :: ·)
      | none => loadHlogGo true ls
    else loadHlogGo false ls

/-- `get_hlog_fields(path)` -/
def loadHlogFields (lines : List Text) : Option (List HlogField) := loadHlogGo false lines

/-! ### trace strings -/

/-- `_add_trace_string(match.groups())`; `fields[0]` consists of ASCII digits, so `.strip()` does nothing to it -/
def addTraceString (caps : Caps) : Option TraceString :=
  match capGet caps 1, capGet caps 2, capGet caps 3 with
  | some h, some fmt, some loc =>
    if (stripSp h).length > intMaxStrDigits then none
    else some { hash := decVal (stripSp h), fmt := stripSp fmt, location := stripSp loc }
  | _, _, _ => none

/-- the constructor's line loop -/
def loadTraceStrings : List Text → Option (List TraceString)
  | [] => some []
  | l :: ls =>
    match traceLineRe.fullmatch l with
    | some caps =>
      match addTraceString caps with
      | none => none
      | some t => (loadTraceStrings ls).map (t :: ·)
    | none => loadTraceStrings ls

/-! ### printers: canonical files from abstract tables -/

/-- one entry of the C table as its author means it: `msg` is the C string's VALUE (quotes not escaped), `params` the
    byte numbers between the braces (one decimal digit each), `file`/`line` the source position fields -/
structure PteSrc where
  pattern : Text
  msg : Text
  params : List Nat
  file : Text
  line : Nat
deriving Repr, DecidableEq

/-- C escaping of the double quote: `"` ↦ `\"` -/
def escapeQuote (t : Text) : Text := t.flatMap (fun c => if c = 34 then [92, 34] else [c])

/-- `1, 2, 3` -/
def renderParams : List Nat → Text
  | [] => []
  | [p] => [48 + p]
  | p :: ps => (48 + p) :: 44 :: 32 :: renderParams ps

/-- `  { "0200****", "This PEROM level = %c%c", {3, 4}, "states.cpp", 254 },` + newline (the documented example format) -/
def renderPteLine (e : PteSrc) : Text :=
  [32, 32, 123, 32, 34] ++ (e.pattern ++ (34 :: 44 :: 32 :: 34 :: (escapeQuote e.msg ++ (34 :: 44 :: 32 :: 123 :: (renderParams e.params ++
    (125 :: 44 :: 32 :: 34 :: (e.file ++ (34 :: 44 :: 32 :: (natDec e.line ++ [32, 125, 44, 10])))))))))

def pteStartLine : Text := s "static struct pte_entry_struct static_pte_entry_table[PTE_TABLE_SIZE] =\n"
def openBraceLine : Text := s "{\n"
def pteEndLine : Text := s "  { \"\"        , \"The End\" }\n"
def closeBraceLine : Text := s "};\n"

/-- start line, `{`, one line per entry, the "The End" entry, `};` -/
def renderPteHeader (tbl : List PteSrc) : List Text :=
  pteStartLine :: openBraceLine :: (tbl.map renderPteLine ++ [pteEndLine, closeBraceLine])

/-- what `_add_entry` + `__init__` store for a source entry: message stripped, parameters filtered to 1..4 -/
def normalisePte (e : PteSrc) : PteRow :=
  { entry := { pattern := e.pattern, fmt := stripSp e.msg, params := validParams e.params }, file := e.file, line := e.line }

/-- a quote inside a message is followed by something that reads like the rest of an entry up to the opening brace of
    the parameter list: blanks, a comma, blanks, `{` -/
def looksLikeParams (t : Text) : Bool :=
  match lstripSp t with
  | [] => false
  | y :: r => y == 44 && (match lstripSp r with | [] => false | z :: _ => z == 123)

/-- no `"` in the message is followed by `\s*,\s*{` (see `C14.pte_header_roundtrip` for why this is needed) -/
def quoteTailsOk : Text → Bool
  | [] => true
  | c :: r => (c != 34 || !looksLikeParams r) && quoteTailsOk r

/-- well-formedness of a source entry for the round trip (decidable) -/
def PteSrc.wf (e : PteSrc) : Bool :=
  !e.pattern.isEmpty && !e.pattern.contains 34 && !e.pattern.any reMetaChar &&
  quoteTailsOk e.msg &&
  e.params.all (· < 10) &&
  !e.file.contains 34 &&
  decide ((natDec e.line).length ≤ intMaxStrDigits)

/-! history log -/

def hlogStartLine : Text := s "static struct mex_hlog_field mex_hlog_fields[MEX_HLOG_FIELD_COUNT] =\n"

/-- `  { 1, "hl_net_block_crc_failures" },` + newline -/
def renderHlogLine (f : HlogField) : Text :=
  [32, 32, 123, 32, 48 + f.2, 44, 32, 34] ++ (f.1 ++ [34, 32, 125, 44, 10])

def renderHlogHeader (fields : List HlogField) : List Text :=
  hlogStartLine :: openBraceLine :: (fields.map renderHlogLine ++ [closeBraceLine])

def hlogFieldWf (f : HlogField) : Bool := (f.2 == 1 || f.2 == 2) && !f.1.isEmpty && !f.1.contains 34

/-! trace strings -/

/-- `92602121||I> ADT7470: trace_level = %u||adt7470_fan_ctl.cpp(926)` + newline -/
def renderStringLine (t : TraceString) : Text :=
  natDec t.hash ++ (124 :: 124 :: (t.fmt ++ (124 :: 124 :: (t.location ++ [10]))))

def renderStringFile (strs : List TraceString) : List Text := strs.map renderStringLine

/-- no two adjacent `|` -/
def noBarBar : Text → Bool
  | [] => true
  | [_] => true
  | a :: b :: r => !(a == 124 && b == 124) && noBarBar (b :: r)

/-- format and location on one line; the greedy `(.*)\|\|(.*)` splits at the LAST `||`, so `|` + location must not
    contain `||` (no `||` inside the location, and the location does not begin with `|`) -/
def traceStringWf (t : TraceString) : Bool :=
  !t.fmt.contains 10 && !t.location.contains 10 && noBarBar (124 :: t.location) &&
  decide ((natDec t.hash).length ≤ intMaxStrDigits)

/-- what the constructor stores -/
def normaliseTraceString (t : TraceString) : TraceString :=
  { hash := t.hash, fmt := stripSp t.fmt, location := stripSp t.location }

end Pel
