import PelModel.Basic
/-
  Model of modules/pel/hexdump.py: `hexdump` and the template driven `parse`,
  the two I/O-drawer dump templates of io_drawer/dump.py, and reference writers
  for those two formats (the notion of "the same bytes rendered in either
  supported I/O-drawer dump format").
-/
namespace Pel

/-- a hex column: two digits per byte, `w` spaces before every `c`-byte chunk but the first -/
def rawSep (w c : Nat) : Nat → Bytes → Text
  | _, [] => []
  | j, b :: bs =>
    (if j ≠ 0 ∧ j % c = 0 then spaces w else []) ++ [hexU (b / 16), hexU b] ++ rawSep w c (j+1) bs

/-- the hex column of one `hexdump` line: two spaces between chunks -/
def rawFrom (c : Nat) (j : Nat) (bs : Bytes) : Text := rawSep 2 c j bs

def asciiCell (b : Nat) : Nat := if 0x20 ≤ b ∧ b < 0x7f then b else 46

/-- `math.ceil(l / c)` -/
def ceilDiv (l c : Nat) : Nat := (l + c - 1) / c

def charPerLine (l c : Nat) : Nat := l * 2 + 2 * ceilDiv l c - 2

/-- one output line for the chunk `ck` located at offset `off` -/
def dumpLine (l c off : Nat) (ck : Bytes) : Text :=
  fmtHex 8 off ++ spaces 5 ++ ljust (charPerLine l c) 32 (rawFrom c 0 ck) ++ spaces 5 ++
    ljust l 32 (ck.map asciiCell)

/-- `hexdump(data, l, c)` from offset `off` on; `hexdump` itself starts at 0 -/
def hexdumpFrom (l c : Nat) (off : Nat) (b : Bytes) : List Text :=
  if h : b = [] ∨ l = 0 then [] else
    dumpLine l c off (b.take l) :: hexdumpFrom l c (off + l) (b.drop l)
termination_by b.length
decreasing_by
  have h1 : b ≠ [] := fun e => h (Or.inl e)
  have h2 : l ≠ 0 := fun e => h (Or.inr e)
  have : 0 < b.length := List.length_pos_iff.mpr h1
  simp only [List.length_drop]; omega

/-- Python `hexdump(data, bytes_per_line=l, bytes_per_chunk=c)`; the asserts on l and c are the
    caller's obligation (`1 ≤ l,c ≤ 256`), the driver answers `err` outside that range. -/
def hexdump (l c : Nat) (b : Bytes) : List Text := hexdumpFrom l c 0 b

/-- default layout -/
def hexdump16 (b : Bytes) : List Text := hexdump 16 4 b

/-! ### parse -/

def chA : Nat := 65
def chD : Nat := 68
def chC : Nat := 67

/-- state of the per-line scan: pending high nibble (the previous char, if it opened a byte) -/
def parseGo : Text → Text → Option Nat → Bytes → Bytes
  | _, [], _, acc => acc
  | [], _ :: _, _, acc => acc            -- unreachable when |line| ≤ |fmt|
  | f :: fs, ch :: ls, hi, acc =>
    if f = chA then
      if isHexDigit ch then parseGo fs ls hi acc else acc
    else if f = chD then
      if isHexDigit ch then
        match hi with
        | some h => parseGo fs ls none (acc ++ [16 * hexVal h + hexVal ch])
        | none => parseGo fs ls (some ch) acc
      else acc
    else if f = chC then parseGo fs ls hi acc
    else if f = ch then parseGo fs ls hi acc
    else acc

/-- `line.rstrip('\n')` -/
def rstripNL (t : Text) : Text := rstripChar 10 t

/-- bytes contributed by one line -/
def parseLine (fmt line : Text) : Bytes :=
  let ln := rstripNL line
  if ln.length ≤ fmt.length then parseGo fmt ln none [] else []

/-- `pel.hexdump.parse(lines, fmt)` -/
def parseDump (fmt : Text) (lines : List Text) : Bytes := lines.flatMap (parseLine fmt)

def fmtDefault : Text := s "AAAAAAAA     DDDDDDDD  DDDDDDDD  DDDDDDDD  DDDDDDDD     CCCCCCCCCCCCCCCC"
def fmtBmc : Text := s "AAAA:  DDDDDDDD DDDDDDDD DDDDDDDD DDDDDDDD  <CCCCCCCCCCCCCCCC>"
def fmtPre : Text := s "DD DD DD DD DD DD DD DD DD DD DD DD DD DD DD DD CCCCCCCCCCCCCCCC"

/-- The model's `parseGo` pairs a low nibble with the previous *data* character; the code slices
    `line[i-1:i+1]`.  They agree when every second `D` directly follows its partner. -/
def pairedD : Text → Bool
  | [] => true
  | [f] => f != chD
  | f :: g :: gs => if f = chD then (g == chD && pairedD gs) else pairedD (g :: gs)

/-! ### reference writers for the two I/O-drawer formats -/

/-- BMC format: `AAAA:  ` then four 4-byte groups separated by one space, two spaces, `<ascii>`.
    `pad = true` pads a short last line with spaces to full width (as BMC dumps do),
    `pad = false` stops after the last byte (text column omitted). -/
def bmcRaw (j : Nat) (bs : Bytes) : Text := rawSep 1 4 j bs

def bmcLine (pad : Bool) (off : Nat) (ck : Bytes) : Text :=
  if pad then
    hexFix 4 off ++ s ":  " ++ ljust 35 32 (bmcRaw 0 ck) ++ s "  <" ++ ljust 16 32 (ck.map asciiCell) ++ s ">"
  else hexFix 4 off ++ s ":  " ++ bmcRaw 0 ck

def renderBmcFrom (pad : Bool) (off : Nat) (b : Bytes) : List Text :=
  if h : b = [] then [] else
    bmcLine pad off (b.take 16) :: renderBmcFrom pad (off + 16) (b.drop 16)
termination_by b.length
decreasing_by
  have : 0 < b.length := List.length_pos_iff.mpr h
  simp only [List.length_drop]; omega

def renderBmc (pad : Bool) (b : Bytes) : List Text := renderBmcFrom pad 0 b

/-- pre-BMC format: `DD ` per byte, then the ASCII column -/
def preRaw : Bytes → Text
  | [] => []
  | b :: bs => [hexU (b / 16), hexU b, 32] ++ preRaw bs

def preLine (pad : Bool) (ck : Bytes) : Text :=
  if pad then ljust 48 32 (preRaw ck) ++ ljust 16 32 (ck.map asciiCell)
  else preRaw ck

def renderPre (pad : Bool) (b : Bytes) : List Text :=
  if h : b = [] then [] else preLine pad (b.take 16) :: renderPre pad (b.drop 16)
termination_by b.length
decreasing_by
  have : 0 < b.length := List.length_pos_iff.mpr h
  simp only [List.length_drop]; omega

/-- a line the parsers must ignore: empty, or not starting with a hex digit -/
def isNoise (t : Text) : Bool :=
  match t with
  | [] => true
  | c :: _ => !isHexDigit c

/-- `peltool -x`: begin marker, dump, end marker -/
def pelHexDisplay (b : Bytes) : List Text :=
  [s "-------------- PEL Begin  ----------------"] ++ hexdump16 b ++ [s "-------------- PEL End    ----------------"]

end Pel
