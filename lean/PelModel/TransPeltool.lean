import PelModel.Main
/-
  Vocabulary of the definitions that `harness/trans_peltool.py` regenerates from the SOURCE TEXT of peltool.py / user_header.py /
  config.py (lean/PelGen/GenPeltool.lean), where the Python values are finer than the model's:

  * `considerPEL` reads five separate `Config` members (`plid`, `src`, `srcExcludeFile`, `bmcID`, `pelID`) for their truthiness only;
    the model's `SelCfg.lookup` stands for their disjunction.  `LookupIds` keeps the five members apart, so that the generated
    function says which members the source tests, and the tie (PelProps/TieC07.lean) proves the model's member to be their `any`.
  * `main()` either calls one function or leaves through `sys.exit(<message>)`; the model names the four exit sites
    (`ExitSite`) and gives their text separately (`exitText`).  The source only has the text.  `PyOutcome` is what is observable:
    the callee reached (an `Action` other than `.exitMsg`) or the message; `Action.outcome` maps the model's answer to it.
    `exitText` is injective (PelProofs/TiePeltool.lean), so nothing is lost.
-/
namespace Pel

/-- the five look-up members of `Config` (config.py), each `None` or a string -/
structure LookupIds where
  plid : Option Text := none
  src : Option Text := none
  srcExcludeFile : Option Text := none
  bmcID : Option Text := none
  pelID : Option Text := none
deriving Repr, DecidableEq

/-- what the model's `SelCfg.lookup` stands for -/
def LookupIds.any (l : LookupIds) : Bool :=
  truthy l.plid || truthy l.src || truthy l.srcExcludeFile || truthy l.bmcID || truthy l.pelID

/-- what one run of `main()` does, as far as `main` itself is concerned -/
inductive PyOutcome where
  | call (a : Action)        -- the function reached, with its arguments
  | exit (msg : Text)        -- `sys.exit(msg)`: the message goes to stderr, status 1
deriving Repr, DecidableEq

def Action.outcome : Action → PyOutcome
  | .exitMsg site => .exit (exitText site)
  | a => .call a

/-- `dispatch` in observable terms -/
def dispatchOutcome (fs : FsView) (a : Args) : PyOutcome × MainCfg := ((dispatch fs a).1.outcome, (dispatch fs a).2)

end Pel
