import PelModel.Ilog
import PelModel.Trace
/-
  Model of modules/io_drawer/dump.py: header search, region slicing, composition,
  and `parse_dump_file` (template auto-detection).
-/
namespace Pel

def traceHeaderStart : Bytes := [0x02, 0x20, 0x01, 0x42]
def bufferNames : List Bytes := [s "IICS", s "IICM", s "POWR", s "FANS", s "INFO", s "ERRL"]
def dividerLine : Text := List.replicate 73 45

/-- `bytes.find`: least index at which `pat` occurs in `b` (offset `i` of the head) -/
def findSub (pat : Bytes) : Bytes → Nat → Option Nat
  | [], i => if pat.isEmpty then some i else none
  | x :: r, i => if pat.isPrefixOf (x :: r) then some i else findSub pat r (i + 1)

/-- insertion sort (the offsets are at most six numbers) -/
def insertSorted (x : Nat) : List Nat → List Nat
  | [] => [x]
  | y :: ys => if x ≤ y then x :: y :: ys else y :: insertSorted x ys
def sortNat : List Nat → List Nat
  | [] => []
  | x :: xs => insertSorted x (sortNat xs)

/-- first occurrence of each of the six header patterns, sorted -/
def bufferOffsets (b : Bytes) : List Nat :=
  sortNat (bufferNames.filterMap fun nm => findSub (traceHeaderStart ++ nm) b 0)

/-- slices `[o₀,o₁) [o₁,o₂) … [oₙ, end)` -/
def traceRegions (b : Bytes) : List Nat → List Bytes
  | [] => []
  | [o] => [b.drop o]
  | o :: o' :: os => (b.drop o).take (o' - o) :: traceRegions b (o' :: os)

def ilogRegion (b : Bytes) (offs : List Nat) : Bytes :=
  match offs with
  | [] => b
  | o :: _ => b.take o

def formatIlogSection (ls : List Text) : List Text := [s "ILOG", []] ++ ls ++ [[], dividerLine, []]
def formatTraceSection (ls : List Text) : List Text := [s "Trace", []] ++ ls ++ [[], dividerLine, []]

/-- `parse_dump_data` -/
def parseDumpData (tbl : List PteEntry) (ss : List TraceString) (b : Bytes) : Option (List Text) :=
  if b.isEmpty then some [] else
  let offs := bufferOffsets b
  match parseIlog tbl (ilogRegion b offs) with
  | none => none
  | some il =>
    (optAll ((traceRegions b offs).map (parseTrace ss))).map fun ts =>
      formatIlogSection il ++ (ts.map formatTraceSection).flatten

/-- `parse_dump_file` on the lines of the file: BMC template first, then pre-BMC -/
def parseDumpFile (tbl : List PteEntry) (ss : List TraceString) (lines : List Text) : Option (List Text) :=
  let d1 := parseDump fmtBmc lines
  let d := if d1.isEmpty then parseDump fmtPre lines else d1
  if d.isEmpty then some [] else parseDumpData tbl ss d

end Pel
