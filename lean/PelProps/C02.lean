namespace Pel.C02
end Pel.C02
