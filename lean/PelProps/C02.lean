import PelProofs.FramesPel
import PelProofs.PelPropsAux
import PelGen.Live
import PelProps.Golden
/-
  C02 — Header-type sections display exactly the values encoded in the log.
  `renderPH/UH/EH/MT/LP` are written field by field from the PEL layout (PelModel/PelSpec.lean); the theorems say
  that decoding the encoding of any field values (within their widths, any name tables) yields exactly that rendering
  and consumes exactly the section's bytes.
-/
namespace Pel.C02

/-! Pins: every published table entry is still mapped to the same name by the live tables -/
theorem pin_subsystems : ∀ p ∈ Golden.subsystemValues, ∀ live ∈ Live.subsystemValues, lookupN live p.1 = some p.2 := by decide
theorem pin_severities : ∀ p ∈ Golden.severityValues, ∀ live ∈ Live.severityValues, lookupN live p.1 = some p.2 := by decide
theorem pin_event_types : ∀ p ∈ Golden.eventTypeValues, ∀ live ∈ Live.eventTypeValues, lookupN live p.1 = some p.2 := by decide
theorem pin_event_scopes : ∀ p ∈ Golden.eventScopeValues, ∀ live ∈ Live.eventScopeValues, lookupN live p.1 = some p.2 := by decide
theorem pin_action_flags : ∀ p ∈ Golden.actionFlagsValues, ∀ live ∈ Live.actionFlagsValues, lookupN live p.1 = some p.2 := by decide
theorem pin_transmission : ∀ p ∈ Golden.transmissionStates, ∀ live ∈ Live.transmissionStates, lookupN live p.1 = some p.2 := by decide
theorem pin_creators : ∀ p ∈ Golden.creatorIDs, ∀ live ∈ Live.creatorIDs, lookupT live p.1 = some p.2 := by decide
/-- every key of the live action-flag table is a single bit -/
theorem pin_action_flags_single_bits : ∀ live ∈ Live.actionFlagsValues, ∀ p ∈ live, ∃ k, k < 16 ∧ p.1 = 2 ^ k := by
  decide

/-- ★ Private Header: for all field values within their widths and all tables -/
theorem ph_fields (T : Tables) (p : APH) (hp : p.WF) (count : Nat) (hc : count < 256) (len : Nat) (rest : Bytes) :
    decodePH T (mkSecHdr sidPH len p.hdr) (p.encBody count ++ rest) =
      .ok ((renderPH T p, { creator := [p.creator], sectionCount := count, obmcLogID := p.obmc, plid := p.plid,
                            eid := p.eid, commitTime := bcdTime p.commit }), rest) :=
  (frames_PH T p hp count hc len).exact rest

/-- ★ User Header -/
theorem uh_fields (T : Tables) (u : AUH) (hu : u.WF) (creator : Text) (len : Nat) (rest : Bytes) :
    decodeUH T (mkSecHdr sidUH len u.hdr) creator (u.encBody ++ rest) =
      .ok ((renderUH T u creator, { severity := u.sev, actionFlags := u.af }), rest) :=
  (frames_UH T u hu creator len).exact rest

/-- ★ Extended User Header -/
theorem eh_fields (T : Tables) (h : AHdr) (creator : Text) (e : AEH) (he : e.WF) (id len : Nat) (rest : Bytes) :
    decodeEH T (mkSecHdr id len h) creator (e.encBody ++ rest) = .ok (renderEH T h creator e, rest) :=
  (frames_EH T h creator e he id len).exact rest

/-- ★ Failing MTMS -/
theorem mt_fields (T : Tables) (h : AHdr) (creator : Text) (m : AMT) (hm : m.WF) (id len : Nat) (rest : Bytes) :
    decodeMT T (mkSecHdr id len h) creator (m.encBody ++ rest) = .ok (renderMT T h creator m, rest) :=
  (frames_MT T h creator m hm id len).exact rest

/-- ★ Impacted Partition: every target partition id is displayed -/
theorem lp_fields (T : Tables) (h : AHdr) (creator : Text) (l : ALP) (hl : l.WF) (id len : Nat) (rest : Bytes) :
    decodeLP T (mkSecHdr id len h) creator (l.encBody ++ rest) = .ok (renderLP T h creator l, rest) :=
  (frames_LP T h creator l hl id len).exact rest

/-- ★ the displayed numeric text determines the encoded value: hexadecimal ids … -/
theorem hex_display_injective (w v v' : Nat) (hv : v < 16 ^ w) (hv' : v' < 16 ^ w) (h : hexFix w v = hexFix w v') : v = v' := by
  have h1 := parseHexText_hexFix w v hv
  have h2 := parseHexText_hexFix w v' hv'
  rw [h] at h1
  omega
/-- … ids printed with `{:02X}` (at least two digits, no padding to eight) … -/
theorem id_display_injective (v v' : Nat) (h : fmtHex 2 v = fmtHex 2 v') : v = v' := by
  exact fmtHex_injective 2 v v' h
/-- … and decimal counts -/
theorem dec_display_injective (v v' : Nat) (h : natDec v = natDec v') : v = v' := by
  have h1 := decVal_natDec' v
  rw [h, decVal_natDec'] at h1
  exact h1.symm

/-- ★ action flags: the displayed list is exactly the names of the defined bits that are on, in table order -/
theorem action_flags_exact (T : Tables) (u : AUH) (creator : Text)
    (hbits : ∀ p ∈ T.actionFlags, ∃ k, p.1 = 2 ^ k) :
    ∃ rest1 rest2, renderUH T u creator = .obj (rest1 ++ [(s "Action Flags",
        .arr ((T.actionFlags.filter (fun p => u.af / p.1 % 2 = 1)).map (fun p => .str p.2)))] ++ rest2) := by
  have hf : T.actionFlags.filter (fun p => p.1 &&& u.af != 0) =
      T.actionFlags.filter (fun p => decide (u.af / p.1 % 2 = 1)) := by
    apply List.filter_congr
    intro p hp
    obtain ⟨k, hk⟩ := hbits p hp
    rw [hk, Nat.and_comm, and_pow_ne_zero]
  refine ⟨hdrMembers T u.hdr creator "Log Committed by" ++ [
    kv "Subsystem" (jstr ((lookupN T.subsystems u.subsys).getD (s "Invalid"))),
    kv "Event Scope" (jstr ((lookupN T.eventScopes u.scope).getD (s "Invalid"))),
    kv "Event Severity" (jstr ((lookupN T.severities u.sev).getD (s "Invalid"))),
    kv "Event Type" (jstr ((lookupN T.eventTypes u.etype).getD (s "Invalid")))],
    [kv "Host Transmission" (jstr ((lookupN T.transStates (u.states % 256)).getD (s "Unknown"))),
     kv "HMC Transmission" (jstr ((lookupN T.transStates (u.states / 256 % 256)).getD (s "Unknown")))], ?_⟩
  unfold renderUH
  rw [hf]
  rfl

/-- the BCD time stamp is displayed as MM/DD/YYYY HH:MM:SS from the stored digits -/
theorem bcd_time (cc yy mo dd hh mi ss hs : Nat) :
    bcdTime [cc, yy, mo, dd, hh, mi, ss, hs] =
      [hexL (mo / 16), hexL mo, 47, hexL (dd / 16), hexL dd, 47, hexL (cc / 16), hexL cc, hexL (yy / 16), hexL yy, 32,
       hexL (hh / 16), hexL hh, 58, hexL (mi / 16), hexL mi, 58, hexL (ss / 16), hexL ss] := by
  simp [bcdTime, bytesHexL]

/-- text fields are displayed without their NUL padding, characters otherwise unchanged -/
theorem text_without_padding (body : Text) (k : Nat) (hb : body ≠ [] → body.head? ≠ some 0 ∧ body.getLast? ≠ some 0) :
    stripNul (body ++ List.replicate k 0) = body := by
  unfold stripNul rstripChar lstripChar
  cases body with
  | nil => simp
  | cons a b =>
    obtain ⟨h1, h2⟩ := hb (by simp)
    have ha : (a == 0) = false := by simpa using h1
    rw [List.cons_append, List.dropWhile_cons, ha]
    simp only [Bool.false_eq_true, if_false]
    rw [← List.cons_append, List.reverse_append, List.reverse_replicate, dropWhile_replicate_append]
    have hl : (a :: b).reverse.head? ≠ some 0 := by rwa [List.head?_reverse]
    cases hr : (a :: b).reverse with
    | nil => simp at hr
    | cons x r =>
      rw [hr] at hl
      have hx : (x == 0) = false := by simpa using hl
      rw [List.dropWhile_cons, hx]
      simp only [Bool.false_eq_true, if_false]
      rw [← hr, List.reverse_reverse]

/-- PHYP component ids are two ASCII characters when both bytes are non-zero, else four hex digits -/
theorem compid_phyp (T : Tables) (comp : Nat) (creator : Text) (h : lookupT T.creators creator = some (s "PHYP")) :
    displayCompID T comp creator =
      (if comp / 256 % 256 ≠ 0 ∧ comp % 256 ≠ 0 then [comp / 256 % 256, comp % 256] else fmtHex 4 comp) := by
  unfold displayCompID
  rw [if_pos h]

/-- other creators: the registry name for `%04X` of the id if there is one, else the four hex digits -/
theorem compid_other (T : Tables) (comp : Nat) (creator : Text) (h : lookupT T.creators creator ≠ some (s "PHYP")) :
    displayCompID T comp creator =
      (((T.compIds.find? (fun p => p.1 == creator)).bind (fun e => lookupT e.2 (fmtHex 4 comp))).getD (fmtHex 4 comp)) := by
  unfold displayCompID
  rw [if_neg h]
  cases T.compIds.find? (fun p => p.1 == creator) with
  | none => rfl
  | some e =>
    obtain ⟨c, m⟩ := e
    simp only [Option.bind_some]
    cases lookupT m (fmtHex 4 comp) <;> rfl

end Pel.C02
