import PelModel.HwDiags
import PelModel.JsonSpec
import PelProofs.HwDiags
/-
  C20 — Hardware-diagnostics signatures and register dumps are decoded field-exactly.
-/
namespace Pel.C20

/-- ★ a signature given as three 8-digit UPPER-case hex words (as the SRC parser receives hex words 6..8):
    chip position, node, attention type, signature id, instance and bit are taken from exactly the stated byte
    positions; the look-ups are made with those numbers -/
theorem signature_fields_upper (cd : List ChipData) (a b c : Nat) (ha : a < 2^32) (hb : b < 2^32) (hc : c < 2^32) :
    getSignature cd (hexFix 8 a) (hexFix 8 b) (hexFix 8 c) =
      .obj [(s "Chip Desc", .str (chipDesc cd (hexFix 8 a) (sigFields a b c).nodePos (sigFields a b c).chipPos)),
            (s "Signature", .str (sigDesc cd (hexFix 8 a) (hexFix 4 (sigFields a b c).sigId) (sigFields a b c).inst (sigFields a b c).bit)),
            (s "Attn Type", .str (attnDesc cd (hexFix 8 a) (sigFields a b c).attn))] := by
  rw [getSignature_upper cd a b c hb]; rfl

/-- ★ the same for lower-case words (as the signature-list parser produces them with `bytes.hex()`) -/
theorem signature_fields_lower (cd : List ChipData) (a b c : Nat) (ha : a < 2^32) (hb : b < 2^32) (hc : c < 2^32) :
    getSignature cd (hexFixL 8 a) (hexFixL 8 b) (hexFixL 8 c) =
      .obj [(s "Chip Desc", .str (chipDesc cd (hexFixL 8 a) (sigFields a b c).nodePos (sigFields a b c).chipPos)),
            (s "Signature", .str (sigDesc cd (hexFixL 8 a) (hexFixL 4 (sigFields a b c).sigId) (sigFields a b c).inst (sigFields a b c).bit)),
            (s "Attn Type", .str (attnDesc cd (hexFixL 8 a) (sigFields a b c).attn))] := by
  rw [getSignature_lower cd a b c hb]; rfl

/-- ★ with no chip data the three strings contain exactly the raw numbers, for all 2^96 signatures, either case -/
theorem no_data_upper (a b c : Nat) (ha : a < 2^32) (hb : b < 2^32) (hc : c < 2^32) :
    getSignature [] (hexFix 8 a) (hexFix 8 b) (hexFix 8 c) = specSignatureNoData a b c := by
  exact getSignature_nil_upper a b c hb
theorem no_data_lower (a b c : Nat) (ha : a < 2^32) (hb : b < 2^32) (hc : c < 2^32) :
    getSignature [] (hexFixL 8 a) (hexFixL 8 b) (hexFixL 8 c) = specSignatureNoData a b c := by
  exact getSignature_nil_lower a b c hb

/-- ★ look-ups are case-insensitive in the model/EC word and the signature id -/
theorem lookups_case_insensitive (cd : List ChipData) (ec sid : Text) (node chip inst bit attn : Nat) :
    chipDesc cd (upperT ec) node chip = chipDesc cd (lowerT ec) node chip ∧
    sigDesc cd (upperT ec) (upperT sid) inst bit = sigDesc cd (lowerT ec) (lowerT sid) inst bit ∧
    attnDesc cd (upperT ec) attn = attnDesc cd (lowerT ec) attn := by
  exact ⟨chipDesc_case cd ec node chip, sigDesc_case cd ec sid inst bit, attnDesc_case cd ec attn⟩

/-- ★ fall-backs to the raw numbers (never an error): chip unknown -/
theorem fallback_unknown_chip (cd : List ChipData) (ec sid : Text) (node chip inst bit attn : Nat)
    (h : chipFor cd ec = none) :
    chipDesc cd ec node chip = s "node " ++ natDec node ++ s " unknown " ++ natDec chip ++ s " (" ++ upperT (lowerT ec) ++ s ")" ∧
    sigDesc cd ec sid inst bit = s "id:" ++ upperT (lowerT sid) ++ s "(" ++ natDec inst ++ s ")[" ++ natDec bit ++ s "] " ∧
    attnDesc cd ec attn = natDec attn := by
  exact ⟨chipDesc_none cd ec node chip h, sigDesc_noentry cd ec sid inst bit (by rw [h]; rfl), attnDesc_none cd ec attn h⟩

/-- partial chip data: a missing `signatures` table or signature id falls back to the id -/
theorem fallback_missing_signature (cd : List ChipData) (ec sid : Text) (inst bit : Nat) (c : ChipData)
    (hc : chipFor cd ec = some c) (hs : c.signatures = none ∨ ∃ m, c.signatures = some m ∧ lookup3 m (lowerT sid) = none) :
    sigDesc cd ec sid inst bit = s "id:" ++ upperT (lowerT sid) ++ s "(" ++ natDec inst ++ s ")[" ++ natDec bit ++ s "] " := by
  apply sigDesc_noentry
  rw [hc]
  rcases hs with hs | ⟨m, hm, hl⟩
  · simp only [Option.bind_some, hs, Option.bind_none]
  · simp only [Option.bind_some, hm, hl]

/-- ★ the SRC parser decodes hex words 6, 7, 8 and reads the reason from characters 6..7 of the reference code -/
theorem src_words (cd : List ChipData) (rc w6 w7 w8 : Text) :
    oe500Src cd rc w6 w7 w8 =
      .obj [(s "Primary Attention", .str (if (rc.drop 6).take 2 = s "10" then s "system checkstop" else s "secondary analysis")),
            (s "Signature Description", getSignature cd w6 w7 w8)] := by
  rfl

/-- ★ a signature list of any length is listed completely and in order -/
theorem siglist_roundtrip (cd : List ChipData) (sigs : List (Nat × Nat × Nat)) (rest : Bytes)
    (hs : ∀ x ∈ sigs, x.1 < 2^32 ∧ x.2.1 < 2^32 ∧ x.2.2 < 2^32) (hn : sigs.length < 2^32) :
    oe500Ud cd 1 (toBE 4 sigs.length ++ sigs.flatMap (fun x => toBE 4 x.1 ++ toBE 4 x.2.1 ++ toBE 4 x.2.2) ++ rest) =
      .json (.obj [(s "Signature List",
        .arr (sigs.map fun x => getSignature cd (hexFixL 8 x.1) (hexFixL 8 x.2.1) (hexFixL 8 x.2.2)))]) := by
  apply oe500Ud_1 cd _ _ rest
  rw [List.append_assoc, getInt_toBE_bind 4 _ _ _ (by omega) hn]
  exact readSigs_ok cd sigs rest hs

structure AReg where
  id : Nat          -- 24 bit
  inst : Nat
  data : Bytes      -- 1..255 bytes
deriving Repr
structure AChip where
  ec : Nat
  chipPos : Nat
  nodePos : Nat
  regs : List AReg
deriving Repr

def AReg.WF (r : AReg) : Prop := r.id < 2^24 ∧ r.inst < 256 ∧ 1 ≤ r.data.length ∧ r.data.length < 256 ∧ ∀ x ∈ r.data, x < 256
def AChip.WF (c : AChip) : Prop := c.ec < 2^32 ∧ c.chipPos < 65536 ∧ c.nodePos < 256 ∧ c.regs.length < 2^32 ∧ ∀ r ∈ c.regs, r.WF
def AReg.enc (r : AReg) : Bytes := toBE 3 r.id ++ [r.inst, r.data.length] ++ r.data
def AChip.enc (c : AChip) : Bytes :=
  toBE 4 c.ec ++ toBE 2 c.chipPos ++ [c.nodePos] ++ toBE 4 c.regs.length ++ c.regs.flatMap (·.enc)

def regLine (cd : List ChipData) (ec : Text) (r : AReg) : Text :=
  let nd := regData cd ec (hexFixL 6 r.id) r.inst
  s "  " ++ ljust 25 32 (nd.1.take 25) ++ s " (" ++ nd.2 ++ s ") " ++
    upperT (joinWith [32] (chunk4 ((bytesHexL r.data).length + 1) (bytesHexL r.data)))

def chipLines (cd : List ChipData) (c : AChip) : List Text :=
  ljust 60 42 (chipDesc cd (hexFixL 8 c.ec) c.nodePos c.chipPos ++ [32]) :: c.regs.map (regLine cd (hexFixL 8 c.ec))

/-- ★ a register dump lists every chip and every register in order with its id, instance and data -/
theorem regdump_roundtrip (cd : List ChipData) (chips : List AChip) (rest : Bytes)
    (hw : ∀ c ∈ chips, c.WF) (hn : chips.length < 2^32) :
    oe500Ud cd 2 (toBE 4 chips.length ++ chips.flatMap (·.enc) ++ rest) =
      .json (.obj [(s "Register Dump", .arr ((chips.flatMap (chipLines cd)).map .str))]) := by
  apply oe500Ud_2 cd _ _ rest
  rw [List.append_assoc, getInt_toBE_bind 4 _ _ _ (by omega) hn]
  exact readChips_ok AChip.ec AChip.chipPos AChip.nodePos AChip.regs AReg.id AReg.inst AReg.data cd chips rest
    (fun c hc => ⟨(hw c hc).2.1, (hw c hc).2.2.1, (hw c hc).2.2.2.1,
      fun r hr => ⟨((hw c hc).2.2.2.2 r hr).2.1, ((hw c hc).2.2.2.2 r hr).2.2.1, ((hw c hc).2.2.2.2 r hr).2.2.2.1⟩⟩)

/-- ★ the data column is exactly the register's data bytes: removing the grouping spaces gives their hex digits -/
theorem regline_data_exact (t : Text) (h : ∀ x ∈ t, x ≠ 32) :
    (joinWith [32] (chunk4 (t.length + 1) t)).filter (· != 32) = t := by
  exact chunk4_join_filter (t.length + 1) t (Nat.lt_succ_self _) h

/-- the scratch-register sections reproduce their encoded values -/
theorem scratch_regs (cd : List ChipData) (a b c d rest : Bytes)
    (ha : a.length = 4) (hb : b.length = 4) (hc : c.length = 8) (hd : d.length = 8) :
    oe500Ud cd 4 (a ++ b ++ c ++ d ++ rest) =
      .json (.obj [(s "Hostboot Scratch Registers",
        .obj [(s "0x" ++ bytesHexL a, .str (s "0x" ++ bytesHexL b)), (s "0x" ++ bytesHexL c, .str (s "0x" ++ bytesHexL d))])]) := by
  have hne : s "0x" ++ bytesHexL a ≠ s "0x" ++ bytesHexL c := by
    intro he
    have := congrArg List.length he
    simp only [List.length_append, bytesHexL_length, ha, hc] at this
    omega
  simp only [List.append_assoc]
  rw [oe500Ud_4 cd a b c d rest ha hb hc hd]
  simp only [objSet, if_neg hne]

theorem scratch_sig (cd : List ChipData) (a b rest : Bytes) (ha : a.length = 4) (hb : b.length = 4) :
    oe500Ud cd 5 (a ++ b ++ rest) =
      .json (.obj [(s "Scratch Register Error Signature",
        .obj [(s "Chip ID", .str (s "0x" ++ bytesHexL a)), (s "Signature ID", .str (s "0x" ++ bytesHexL b))])]) := by
  simp only [List.append_assoc]
  exact oe500Ud_5 cd a b rest ha hb

/-- the callout FFDC section reproduces the JSON value stored in it (NUL terminated text) -/
theorem callout_ffdc (cd : List ChipData) (d : J) (n pad : Nat) (hw : d.wf = true) :
    oe500Ud cd 3 (aText n d 0 ++ List.replicate pad 0) = .json (.obj [(s "Callout List FFDC", d)]) := by
  exact oe500Ud_3 cd _ _ d (callout_decode n d pad) (loads_aText n d hw)

end Pel.C20
