namespace Pel.C20
end Pel.C20
