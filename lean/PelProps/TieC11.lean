import PelGen.GenPeltool
import PelProofs.TiePeltool
import PelProps.C11
/-
  Source tie for C11 (stream `peltool`): the priority chain of `main()` in peltool.py (outside a BMC: the first branch of
  `if not inBMC: … else: …`), regenerated from the source text, is the model's `dispatch` (PelModel/Main.lean) — which callee
  is reached with which arguments, with which `Config`, and where `main` leaves through `sys.exit(<message>)` with which text.
  The source has messages, not exit sites: the comparison is through `Action.outcome` (`dispatchOutcome`), which loses
  nothing because the four messages determine the site (`dispatch_of_outcome` below).
-/
set_option linter.unusedSimpArgs false
namespace Pel.Tie

/-- ★ the `if` cascade of `main()` is `dispatch`: same callee, same arguments, same `Config` (with the look-up flag exactly
    where an id member has been stored), same exit messages, for every answer of `os.path.isdir` / `isfile` and every namespace -/
theorem dispatch (g : FsView → Args → PyOutcome × MainCfg) (h : Gen.dispatch? = some g) : g = dispatchOutcome := by
  cases h <;> (
    apply eq_dispatchOutcome_of_chain
    intro fs a act lk hc
    -- the inlined `Config` block is `mkConfig`
    have hb : ∀ mk, Gen.mkConfig? = some mk → mk severityGroupTable a = mkConfig severityGroupTable a := by
      intro mk hmk; cases hmk; tie_config_block
    have hb' := hb _ rfl
    simp only at hb'
    simp only [hb']
    generalize mkConfig severityGroupTable a = c
    cases hc <;>
      simp only [*, Bool.not_true, Bool.not_false, Bool.false_eq_true, if_true, if_false] <;>
      first
      | rfl
      | (simp [Action.outcome, exitText, MainCfg.withLookup]; done))

/-- the translated chain determines `dispatch` itself -/
theorem dispatch_of_outcome (g : FsView → Args → PyOutcome × MainCfg) (h : Gen.dispatch? = some g)
    (fs : FsView) (a : Args) (act : Action) (c : MainCfg) (hg : g fs a = (act.outcome, c)) : Pel.dispatch fs a = (act, c) :=
  dispatchOutcome_determines fs a act c (by rw [← dispatch g h]; exact hg)

/-- `if args.clean and printed: os.remove(args.file)` after the `-f` call is the model's `Action.afterPrint` of the action the
    chain produced for that file -/
theorem fileAfterPrint (g : Args → Text → Bool → Option Text) (h : Gen.fileAfterPrint? = some g) :
    g = fun a f printed => (Action.fileMode f a.clean).afterPrint printed := by
  cases h <;> first
  | rfl
  | (funext a f printed; simp only [Action.afterPrint]; cases a.clean <;> cases printed <;> simp)

/-- the `-j` loop: the `parseAndWriteOutput` calls are the model's `jsonCalls`, for every `Config` whose extension is not the
    empty string (the model's `jsonCalls` treats `some ""` as a filter, the source as "no filter"; `main` never stores `""`:
    `jsonCalls_dispatch`) -/
theorem jsonCalls (g : MainCfg → List Text → Text → Text → Bool → List (Text × Text × Bool)) (h : Gen.jsonCalls? = some g)
    (c : MainCfg) (hc : c.ext ≠ some []) (files : List Text) (dir out : Text) (clean : Bool) :
    g c files dir out clean = Pel.jsonCalls c files (.jsonMode dir out clean) := by
  cases h <;> (
    simp only [Pel.jsonCalls]
    congr 1
    apply List.filter_congr
    intro f _
    cases he : c.ext with
    | none => simp [truthy, tv]
    | some e =>
      cases e with
      | nil => exact absurd he hc
      | cons x xs => simp [truthy, tv, bne]; try exact BEq.comm)

/-- … in particular for the `Config` that `main` built -/
theorem jsonCalls_dispatch (g : MainCfg → List Text → Text → Text → Bool → List (Text × Text × Bool)) (h : Gen.jsonCalls? = some g)
    (fs : FsView) (a : Args) (files : List Text) (dir out : Text) (clean : Bool) :
    g (Pel.dispatch fs a).2 files dir out clean = Pel.jsonCalls (Pel.dispatch fs a).2 files (.jsonMode dir out clean) :=
  jsonCalls g h _ (dispatch_ext_ne_empty fs a) files dir out clean

/-- C11 ★`main_removes_only_on_request`-style reading for the translated chain: when it reaches a callee, that callee is one that can
    remove files only if `-d`, `-D` or `--clean` was given -/
theorem translated_chain_removes_only_on_request (g : FsView → Args → PyOutcome × MainCfg) (h : Gen.dispatch? = some g)
    (fs : FsView) (a : Args) (act : Action) (hg : (g fs a).1 = .call act)
    (hd : truthy a.delete = false) (hD : a.deleteAll = false) (hc : a.clean = false) : act.mayRemove = false := by
  rw [dispatch g h] at hg
  simp only [dispatchOutcome] at hg
  have hact : (Pel.dispatch fs a).1 = act := by
    cases hx : (Pel.dispatch fs a).1 <;> rw [hx] at hg <;> simp [Action.outcome] at hg <;> try exact hg
  rw [← hact]
  exact (C11.main_readonly_without_delete_clean fs a hd hD hc).2.2.2.2

end Pel.Tie
