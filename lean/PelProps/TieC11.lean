import PelGen.GenPeltool
import PelProofs.TiePeltool
import PelProps.C11
import PelGen.GenEffects
import PelProofs.TieEffects
/-
  Source tie for C11 (stream `peltool`): the priority chain of `main()` in peltool.py (outside a BMC: the first branch of
  `if not inBMC: … else: …`), regenerated from the source text, is the model's `dispatch` (PelModel/Main.lean) — which callee
  is reached with which arguments, with which `Config`, and where `main` leaves through `sys.exit(<message>)` with which text.
  The source has messages, not exit sites: the comparison is through `Action.outcome` (`dispatchOutcome`), which loses
  nothing because the four messages determine the site (`dispatch_of_outcome` below).
-/
set_option linter.unusedSimpArgs false
namespace Pel.Tie

/-- ★ the `if` cascade of `main()` is `dispatch`: same callee, same arguments, same `Config` (with the look-up flag exactly
    where an id member has been stored), same exit messages, for every answer of `os.path.isdir` / `isfile` and every namespace -/
theorem dispatch (g : FsView → Args → PyOutcome × MainCfg) (h : Gen.dispatch? = some g) : g = dispatchOutcome := by
  cases h <;> (
    apply eq_dispatchOutcome_of_chain
    intro fs a act lk hc
    -- the inlined `Config` block is `mkConfig`
    have hb : ∀ mk, Gen.mkConfig? = some mk → mk severityGroupTable a = mkConfig severityGroupTable a := by
      intro mk hmk; cases hmk; tie_config_block
    have hb' := hb _ rfl
    simp only at hb'
    simp only [hb']
    generalize mkConfig severityGroupTable a = c
    cases hc <;>
      simp only [*, Bool.not_true, Bool.not_false, Bool.false_eq_true, if_true, if_false] <;>
      first
      | rfl
      | (simp [Action.outcome, exitText, MainCfg.withLookup]; done))

/-- the translated chain determines `dispatch` itself -/
theorem dispatch_of_outcome (g : FsView → Args → PyOutcome × MainCfg) (h : Gen.dispatch? = some g)
    (fs : FsView) (a : Args) (act : Action) (c : MainCfg) (hg : g fs a = (act.outcome, c)) : Pel.dispatch fs a = (act, c) :=
  dispatchOutcome_determines fs a act c (by rw [← dispatch g h]; exact hg)

/-- `if args.clean and printed: os.remove(args.file)` after the `-f` call is the model's `Action.afterPrint` of the action the
    chain produced for that file -/
theorem fileAfterPrint (g : Args → Text → Bool → Option Text) (h : Gen.fileAfterPrint? = some g) :
    g = fun a f printed => (Action.fileMode f a.clean).afterPrint printed := by
  cases h <;> first
  | rfl
  | (funext a f printed; simp only [Action.afterPrint]; cases a.clean <;> cases printed <;> simp)

/-- the `-j` loop: the `parseAndWriteOutput` calls are the model's `jsonCalls`, for every `Config` whose extension is not the
    empty string (the model's `jsonCalls` treats `some ""` as a filter, the source as "no filter"; `main` never stores `""`:
    `jsonCalls_dispatch`) -/
theorem jsonCalls (g : MainCfg → List Text → Text → Text → Bool → List (Text × Text × Bool)) (h : Gen.jsonCalls? = some g)
    (c : MainCfg) (hc : c.ext ≠ some []) (files : List Text) (dir out : Text) (clean : Bool) :
    g c files dir out clean = Pel.jsonCalls c files (.jsonMode dir out clean) := by
  cases h <;> (
    simp only [Pel.jsonCalls]
    congr 1
    apply List.filter_congr
    intro f _
    cases he : c.ext with
    | none => simp [truthy, tv]
    | some e =>
      cases e with
      | nil => exact absurd he hc
      | cons x xs => simp [truthy, tv, bne]; try exact BEq.comm)

/-- … in particular for the `Config` that `main` built -/
theorem jsonCalls_dispatch (g : MainCfg → List Text → Text → Text → Bool → List (Text × Text × Bool)) (h : Gen.jsonCalls? = some g)
    (fs : FsView) (a : Args) (files : List Text) (dir out : Text) (clean : Bool) :
    g (Pel.dispatch fs a).2 files dir out clean = Pel.jsonCalls (Pel.dispatch fs a).2 files (.jsonMode dir out clean) :=
  jsonCalls g h _ (dispatch_ext_ne_empty fs a) files dir out clean

/-- C11 ★`main_removes_only_on_request`-style reading for the translated chain: when it reaches a callee, that callee is one that can
    remove files only if `-d`, `-D` or `--clean` was given -/
theorem translated_chain_removes_only_on_request (g : FsView → Args → PyOutcome × MainCfg) (h : Gen.dispatch? = some g)
    (fs : FsView) (a : Args) (act : Action) (hg : (g fs a).1 = .call act)
    (hd : truthy a.delete = false) (hD : a.deleteAll = false) (hc : a.clean = false) : act.mayRemove = false := by
  rw [dispatch g h] at hg
  simp only [dispatchOutcome] at hg
  have hact : (Pel.dispatch fs a).1 = act := by
    cases hx : (Pel.dispatch fs a).1 <;> rw [hx] at hg <;> simp [Action.outcome] at hg <;> try exact hg
  rw [← hact]
  exact (C11.main_readonly_without_delete_clean fs a hd hD hc).2.2.2.2

/-! ### stream `effects`: the functions that change the directory, regenerated as computations of the effect monad `Eff.M`
    (PelModel/TransEffects.lean: I/O steps in source order, each of which may fail under a fault plan; `with`, `try`, loops with
    `continue` / `break`).  `M.run noFault` = the run in which no step fails; `cliOut` = what the process shows for the outcome,
    `dirAfter d` = the directory `d` without the entries whose `os.remove` succeeded. -/

open Pel.Eff in
/-- ★ `deletePELFromPELId(path, id)` is `deleteMode`: `processId` (or its exit), the FIRST top-level entry of the walk whose name contains
    the processed id is removed — that entry itself, `os.path.join(root, file)` — and nothing else; "PEL not found" otherwise -/
theorem deletePELFromPELId (g : Sys → Text → Text → M Unit) (h : Gen.deletePELFromPELId? = some g) (y : Sys) (path e : Text) :
    (cliOut ((g y path e).run noFault), dirAfter (y.walk path) ((g y path e).run noFault).2) = deleteMode e (y.walk path) := by
  cases h <;> (
    simp only [M.run, runFn, thenF, run_bind, pyProcessId, deleteMode]
    cases hp : processId e with
    | none => simp [cliOut, dirAfter]
    | some pid =>
      simp only [run_pure]
      rw [forEachS_find_run (P := fun f => isInfix pid f.name)
        (post := fun f st => (.ok true, { st.ok .removeIn with removed := st.removed ++ [(pathJoin path f.name, some f)] }))]
      · cases hf : (y.walk path).find? (fun f => isInfix pid f.name) with
        | none => simp [cliOut, dirAfter, printOut, St.ok, nl]; try decide
        | some f => simp [cliOut, dirAfter, St.ok]
      · intro x st hx
        simp [hx]
      · intro x st hx
        simp [hx, osRemove, St.ok])

open Pel.Eff in
/-- ★ `deleteAllPELs(path)`: exactly the top-level entries of the walk for which `os.path.isfile(os.path.join(root, file))` holds are
    removed (each by its own joined name), in walk order; nothing is printed -/
theorem deleteAllPELs (g : Sys → Text → M Unit) (h : Gen.deleteAllPELs? = some g) (y : Sys) (path : Text) :
    ((g y path).run noFault).1 = .ok () ∧
    ((g y path).run noFault).2.removed =
      ((y.walk path).filter (fun f => y.isFile (pathJoin path f.name))).map (fun f => (pathJoin path f.name, some f)) ∧
    cliOut ((g y path).run noFault) = (deleteAllMode (y.walk path)).1 := by
  cases h <;> (
    simp only [M.run, runFn, thenF, run_bind]
    rw [forEachS_all_run (post := fun x st => if y.isFile (pathJoin path x.name) then st.rmEntry path x else st)]
    · have := foldl_rmEntry path (fun f => y.isFile (pathJoin path f.name)) (y.walk path) {}
      simp only at this
      obtain ⟨h1, h2, h3, h4, h5⟩ := this
      simp [cliOut, deleteAllMode, h1, h2, h3]
    · intro x st
      cases hx : y.isFile (pathJoin path x.name) <;> simp [hx, osRemove, St.rmEntry])

open Pel.Eff in
/-- … which is `deleteAllMode` on a directory whose top-level non-directory entries are all regular files (what the model's `Dir` holds) -/
theorem deleteAllPELs_all (g : Sys → Text → M Unit) (h : Gen.deleteAllPELs? = some g) (y : Sys) (path : Text)
    (hreg : ∀ f ∈ y.walk path, y.isFile (pathJoin path f.name) = true) :
    (cliOut ((g y path).run noFault), dirAfter (y.walk path) ((g y path).run noFault).2) = deleteAllMode (y.walk path) := by
  obtain ⟨_, h2, h3⟩ := deleteAllPELs g h y path
  have hf : (y.walk path).filter (fun f => y.isFile (pathJoin path f.name)) = y.walk path :=
    List.filter_eq_self.mpr hreg
  rw [hf] at h2
  simp only [h3, dirAfter, h2, List.filterMap_map]
  show (_, List.foldl List.erase (y.walk path) (List.filterMap (fun x => some x) (y.walk path))) = _
  simp [foldl_erase_self, deleteAllMode]

open Pel.Eff in
/-- ★ one `parseAndWriteOutput(file, out, config, clean)` call, when nothing faults, adds to the log (from ANY log `st`) what `jsonMode` says
    for the one-file directory: the output file `<out>/<basename(file)>.<eid>.json` with the whole document, the input removed iff
    `clean` and a document was written, one diagnostic iff there was no document (`main` applies the extension filter before the call) -/
theorem parseAndWriteOutput (g : Sys → Text → Text → CliOpts → Bool → M Unit) (h : Gen.parseAndWriteOutput? = some g)
    (y : Sys) (file out : Text) (c : CliOpts) (clean : Bool) (f : FileEntry) (hr : y.read file = some f.data)
    (hname : basename file = f.name) (st : St) :
    let m := jsonMode y.env { c with ext := none } clean [f]
    let r := g y file out c clean noFault st
    r.1 = .ok () ∧
    r.2.created = (m.created.map (fun p => (pathJoin out p.1, p.2))).reverse ++ st.created ∧
    r.2.removed = st.removed ++ m.removed.map (fun _ => (file, none)) ∧
    r.2.stderr.length = st.stderr.length + m.stderrLines ∧
    r.2.stdout = st.stdout ∧ r.2.unwind = st.unwind := by
  cases h <;> (
    simp only [runFn, thenF, tryExcept, withOpenR, hr, fdRead, run_bind, run_pure, pyParsePEL, jsonMode, fullOf]
    obtain ⟨o, ho⟩ : ∃ o, parsePEL y.env c.cfg f.data = o := ⟨_, rfl⟩
    simp only [ho]
    cases o with
    | doc eid j =>
      cases clean <;>
        simp [ho, hname, withOpenW, osRemove, prettyPrint_dumps_length, prettyPrint_dumps_length_eq, prettyPrint_dumps_isEmpty, writelinesStr_ok, appendCur, diag, s]
    | filtered => simp [ho, diag]
    | badHeader => simp [ho, diag]
    | error e => simp [ho, diag])

open Pel.Eff in
/-- the calls of the `-j` loop one after the other are `jsonMode` on the files they are made for -/
theorem json_loop (g : Sys → Text → Text → CliOpts → Bool → M Unit) (h : Gen.parseAndWriteOutput? = some g)
    (y : Sys) (dir out : Text) (c : CliOpts) (clean : Bool) (files : List FileEntry)
    (hfs : ∀ f ∈ files, y.read (pathJoin dir f.name) = some f.data ∧ basename (pathJoin dir f.name) = f.name) (st : St) :
    let m := jsonMode y.env { c with ext := none } clean files
    let r := runCalls g y c (files.map fun f => (pathJoin dir f.name, out, clean)) noFault st
    r.1 = .ok () ∧
    r.2.created.reverse = st.created.reverse ++ m.created.map (fun p => (pathJoin out p.1, p.2)) ∧
    r.2.removed = st.removed ++ m.removed.map (fun n => (pathJoin dir n, none)) ∧
    r.2.stderr.length = st.stderr.length + m.stderrLines ∧
    r.2.stdout = st.stdout ∧ r.2.unwind = st.unwind := by
  induction files generalizing st with
  | nil => simp [runCalls, jsonMode]
  | cons f fs ih =>
    obtain ⟨hrd, hbn⟩ := hfs f (by simp)
    have h1 := parseAndWriteOutput g h y (pathJoin dir f.name) out c clean f hrd hbn st
    obtain ⟨a1, a2, a3, a4, a5, a6⟩ := h1
    obtain ⟨c1, c2, c3⟩ := jsonMode_cons y.env { c with ext := none } rfl clean f fs
    simp only [List.map_cons, runCalls, run_bind]
    rcases hg : g y (pathJoin dir f.name) out c clean noFault st with ⟨r1, st1⟩
    rw [hg] at a1 a2 a3 a4 a5 a6
    simp only at a1 a2 a3 a4 a5 a6
    subst a1
    have h2 := ih (fun f' hf' => hfs f' (by simp [hf'])) st1
    obtain ⟨b1, b2, b3, b4, b5, b6⟩ := h2
    refine ⟨b1, ?_, ?_, ?_, ?_, ?_⟩
    · rw [b2, a2, c1]; simp
    · rw [b3, a3, c2]
      have : (jsonMode y.env { c with ext := none } clean [f]).removed.map (fun _ => (pathJoin dir f.name, (none : Option FileEntry))) =
          (jsonMode y.env { c with ext := none } clean [f]).removed.map (fun n => (pathJoin dir n, none)) := by
        simp only [jsonMode, filter_noext, List.map_cons, List.map_nil]
        cases clean <;> cases fullOf y.env c.cfg f <;> simp
      rw [this]; simp
    · rw [b4, a4, c3]; omega
    · rw [b5, a5]
    · rw [b6, a6]

open Pel.Eff in
/-- ★ the whole `-j` branch as the source has it NOW — the loop of `main()` (`Gen.jsonCalls?`, tied above) making its
    `parseAndWriteOutput` calls (`Gen.parseAndWriteOutput?`) — is `jsonMode` on the directory: the same output files with the same content in
    the same order, the same inputs removed, the same number of diagnostics; for every directory whose entries can be read under their
    joined names and whose names contain no `/`, and every `Config` `main` can build (`config.extension` is never `""`) -/
theorem json_command (gc : MainCfg → List Text → Text → Text → Bool → List (Text × Text × Bool)) (hgc : Gen.jsonCalls? = some gc)
    (gw : Sys → Text → Text → CliOpts → Bool → M Unit) (hgw : Gen.parseAndWriteOutput? = some gw)
    (y : Sys) (mc : MainCfg) (hc : mc.ext ≠ some []) (d : Dir) (dir out : Text) (clean : Bool)
    (hfs : ∀ f ∈ d, y.read (pathJoin dir f.name) = some f.data ∧ basename (pathJoin dir f.name) = f.name) :
    let m := jsonMode y.env mc.opts clean d
    let r := (runCalls gw y mc.opts (gc mc (d.map (·.name)) dir out clean)).run noFault
    r.1 = .ok () ∧
    r.2.created.reverse = m.created.map (fun p => (pathJoin out p.1, p.2)) ∧
    r.2.removed = m.removed.map (fun n => (pathJoin dir n, none)) ∧
    r.2.stderr.length = m.stderrLines ∧ r.2.stdout = [] := by
  simp only [M.run]
  rw [jsonCalls gc hgc mc hc, jsonMode_inputs_are_jsonCalls mc hc d dir out clean, jsonMode_prefiltered y.env mc.opts clean d]
  have key : ∀ files : List FileEntry, (∀ f ∈ files, f ∈ d) →
      (runCalls gw y mc.opts (files.map fun f => (pathJoin dir f.name, out, clean)) noFault {}).1 = .ok () ∧
      (runCalls gw y mc.opts (files.map fun f => (pathJoin dir f.name, out, clean)) noFault {}).2.created.reverse =
        (jsonMode y.env { mc.opts with ext := none } clean files).created.map (fun p => (pathJoin out p.1, p.2)) ∧
      (runCalls gw y mc.opts (files.map fun f => (pathJoin dir f.name, out, clean)) noFault {}).2.removed =
        (jsonMode y.env { mc.opts with ext := none } clean files).removed.map (fun n => (pathJoin dir n, none)) ∧
      (runCalls gw y mc.opts (files.map fun f => (pathJoin dir f.name, out, clean)) noFault {}).2.stderr.length =
        (jsonMode y.env { mc.opts with ext := none } clean files).stderrLines ∧
      (runCalls gw y mc.opts (files.map fun f => (pathJoin dir f.name, out, clean)) noFault {}).2.stdout = [] := by
    intro files hsub
    have hl := json_loop gw hgw y dir out mc.opts clean files (fun f hf => hfs f (hsub f hf)) {}
    simp only at hl
    obtain ⟨h1, h2, h3, h4, h5, _⟩ := hl
    refine ⟨h1, ?_, ?_, ?_, h5⟩
    · simpa only [List.reverse_nil, List.nil_append] using h2
    · simpa only [List.nil_append] using h3
    · simpa only [List.length_nil, Nat.zero_add] using h4
  exact key _ (fun f hf => (List.mem_filter.mp hf).1)

/-- C11 ★`delete_at_most_one`, transported: the regenerated `deletePELFromPELId` leaves the directory as it was or removes exactly one
    top-level entry whose name contains the processed id -/
theorem translated_delete_at_most_one (g : Eff.Sys → Text → Text → Eff.M Unit) (h : Gen.deletePELFromPELId? = some g)
    (y : Eff.Sys) (path e : Text) :
    Eff.dirAfter (y.walk path) ((g y path e).run noFault).2 = y.walk path ∨
    ∃ pid f, processId e = some pid ∧ f ∈ y.walk path ∧ isInfix pid f.name = true ∧
      Eff.dirAfter (y.walk path) ((g y path e).run noFault).2 = (y.walk path).erase f := by
  have := congrArg Prod.snd (deletePELFromPELId g h y path e)
  simp only at this
  rw [this]
  exact C11.delete_at_most_one e (y.walk path)

/-- C11 ★`json_removes_only`, transported to the `-j` branch as regenerated: an input is removed only with `--clean`, and only one whose
    document was produced -/
theorem translated_json_removes_only (gc : MainCfg → List Text → Text → Text → Bool → List (Text × Text × Bool)) (hgc : Gen.jsonCalls? = some gc)
    (gw : Eff.Sys → Text → Text → CliOpts → Bool → Eff.M Unit) (hgw : Gen.parseAndWriteOutput? = some gw)
    (y : Eff.Sys) (mc : MainCfg) (hc : mc.ext ≠ some []) (d : Dir) (dir out : Text) (clean : Bool)
    (hfs : ∀ f ∈ d, y.read (pathJoin dir f.name) = some f.data ∧ Eff.basename (pathJoin dir f.name) = f.name) :
    let r := (Eff.runCalls gw y mc.opts (gc mc (d.map (·.name)) dir out clean)).run noFault
    (clean = false → r.2.removed = []) ∧
    ∀ p ∈ r.2.removed, ∃ f ∈ d, p = (pathJoin dir f.name, none) ∧ ∃ eid j, parsePEL y.env mc.opts.cfg f.data = .doc eid j := by
  intro r
  obtain ⟨_, _, h3, _, _⟩ := json_command gc hgc gw hgw y mc hc d dir out clean hfs
  have hm := C11.json_removes_only y.env mc.opts clean d
  refine ⟨fun hcl => ?_, fun p hp => ?_⟩
  · show r.2.removed = []
    rw [h3, hm.1 hcl]; rfl
  · have hp' : p ∈ (jsonMode y.env mc.opts clean d).removed.map (fun n => (pathJoin dir n, (none : Option FileEntry))) := by
      rw [← h3]; exact hp
    obtain ⟨n, hn, rfl⟩ := List.mem_map.mp hp'
    obtain ⟨f, hf, hfn, eid, j, hdoc⟩ := hm.2 n hn
    exact ⟨f, hf, by rw [hfn], eid, j, hdoc⟩

end Pel.Tie
