import PelGen.GenIoDrawer
import PelGen.GenOe500
import PelProofs.HwDiags
import PelProofs.TieIoDrawer
import PelProofs.TieOe500
import PelProps.C20
/-
  C20, source tie: the functions of modules/pel/hwdiags/parserdata.py that harness/trans_iodrawer.py regenerates from the
  CURRENT source text (lean/PelGen/GenIoDrawer.lean) are equal to the hand-written model functions the C20 theorems are about,
  BEHIND THE ASSERTIONS the Python functions start with (`IoSem.chipDescA` … = "AssertionError unless the words are hex words of
  the right length / the numbers fit their width, else the model function").  The hand model has no assertions: it is only
  ever applied to words that `bytes.hex()` / the SRC hex words produce.  The corollaries at the end state the ties without
  the wrapper.
-/
set_option linter.unusedSimpArgs false
set_option linter.unusedVariables false
namespace Pel.Tie
open Pel

/-- `ParserData._check_int` returns normally exactly for `v < 2^(8n)` (`1 << (8*n)`, `- 1`, `<=` all read from the source) -/
theorem hw_check_int (g) (h : Pel.Gen.hw_check_int? = some g) : g = IoSem.checkInt := by
  cases h <;> (
  funext v n
  simp only [IoSem.checkInt, Nat.one_shiftLeft]
  have hp : 0 < 2 ^ (8 * n) := Nat.pow_pos (by decide)
  generalize 2 ^ (8 * n) = P at *
  by_cases hv : v < P
  · have : ((v : Nat) : Int) ≤ ((P : Nat) : Int) - 1 := by omega
    simp [hv, this]
  · have : ¬ ((v : Nat) : Int) ≤ ((P : Nat) : Int) - 1 := by omega
    simp [hv, this]
  )

theorem dataGet_lower (cd : List ChipData) (ec : Text) : IoSem.dataGet cd (lowerT ec) = chipFor cd ec := rfl

theorem hw_get_attn_desc (g) (h : Pel.Gen.hw_get_attn_desc? = some g) : g = IoSem.attnDescA := by
  cases h <;> (
  funext cd ec attn
  simp only [IoSem.attnDescA, attnDesc, dataGet_lower]
  )

theorem hw_get_chip_desc (g) (h : Pel.Gen.hw_get_chip_desc? = some g) : g = IoSem.chipDescA := by
  cases h <;> (
  funext cd ec node chip
  simp only [IoSem.chipDescA, chipDesc, dataGet_lower]
  cases IoSem.checkHex ec 4 <;> cases IoSem.checkInt node 1 <;> cases IoSem.checkInt chip 2 <;> simp [s]
  )

theorem hw_get_sig_desc (g) (h : Pel.Gen.hw_get_sig_desc? = some g) : g = IoSem.sigDescA := by
  cases h <;> (
  funext cd ec sid inst bit
  simp only [IoSem.sigDescA, sigDesc, dataGet_lower]
  cases IoSem.checkHex ec 4 <;> cases IoSem.checkHex sid 2 <;> cases IoSem.checkInt inst 1 <;> cases IoSem.checkInt bit 1 <;> simp [s]
  generalize ((chipFor cd ec).bind fun x => x.signatures) = o
  cases o with
  | none => rfl
  | some m => simp only [Option.bind_some, Function.comp]; cases lookup3 m (lowerT sid) <;> rfl
  )

theorem hw_get_reg_data (g) (h : Pel.Gen.hw_get_reg_data? = some g) : g = IoSem.regDataA := by
  cases h <;> (
  funext cd ec rid inst
  simp only [IoSem.regDataA, regData, dataGet_lower]
  cases IoSem.checkHex ec 4 <;> cases IoSem.checkHex rid 3 <;> cases IoSem.checkInt inst 1 <;> simp [s]
  generalize ((chipFor cd ec).bind fun x => x.registers) = o
  cases o with
  | none => rfl
  | some m => simp only [Option.bind_some, Function.comp]; cases lookup3 m (lowerT rid) <;> rfl
  )

theorem hw_get_signature (g) (h : Pel.Gen.hw_get_signature? = some g) : g = IoSem.getSignatureA := by
  cases h <;> (
  funext cd a b c
  simp only [IoSem.getSignatureA, getSignature]
  cases ha : IoSem.checkHex a 4 <;> cases hb : IoSem.checkHex b 4 <;> cases hc : IoSem.checkHex c 4 <;> simp
  simp (disch := first | assumption | omega) only [IoSem.chipDescA, IoSem.sigDescA, IoSem.attnDescA, ha,
    IoSem.checkInt_parse_slice b 4 _ _ 1 hb, IoSem.checkInt_parse_slice b 4 _ _ 2 hb, IoSem.checkInt_parse_slice c 4 _ _ 1 hc,
    IoSem.checkHex_slice c 4 _ _ 2 hc, Bool.and_self, if_true, Option.bind_some]
  simp [IoSem.slice_eq, s]
  )

/-- without the wrapper: on hex words of eight digits `get_signature` does not raise and returns the model's object -/
theorem hw_get_signature_hex (g) (h : Pel.Gen.hw_get_signature? = some g) (cd : List ChipData) (a b c : Text)
    (ha : IoSem.checkHex a 4 = true) (hb : IoSem.checkHex b 4 = true) (hc : IoSem.checkHex c 4 = true) :
    g cd a b c = some (getSignature cd a b c) := by
  rw [hw_get_signature g h]
  simp [IoSem.getSignatureA, ha, hb, hc]

theorem checkHex_hexFix8 (v : Nat) : IoSem.checkHex (hexFix 8 v) 4 = true := by
  rw [IoSem.checkHex_iff]
  exact ⟨hexFix_length 8 v, hexFix_all_hex 8 v⟩

/-- ★ `C20.signature_fields_upper` transported to the regenerated `get_signature`: the slice bounds in the source text are the
    byte positions of chip, node, attention type, signature id, instance and bit -/
theorem hw_get_signature_fields_upper (g) (h : Pel.Gen.hw_get_signature? = some g) (cd : List ChipData) (a b c : Nat)
    (ha : a < 2^32) (hb : b < 2^32) (hc : c < 2^32) :
    g cd (hexFix 8 a) (hexFix 8 b) (hexFix 8 c) = some
      (.obj [(s "Chip Desc", .str (chipDesc cd (hexFix 8 a) (sigFields a b c).nodePos (sigFields a b c).chipPos)),
             (s "Signature", .str (sigDesc cd (hexFix 8 a) (hexFix 4 (sigFields a b c).sigId) (sigFields a b c).inst (sigFields a b c).bit)),
             (s "Attn Type", .str (attnDesc cd (hexFix 8 a) (sigFields a b c).attn))]) := by
  rw [hw_get_signature_hex g h cd _ _ _ (checkHex_hexFix8 a) (checkHex_hexFix8 b) (checkHex_hexFix8 c),
    C20.signature_fields_upper cd a b c ha hb hc]

end Pel.Tie

/-
  C20, source tie, second half (stream `oe500`): the two shipped parser modules modules/udparsers/oe500/oe500.py and
  modules/srcparsers/oe500/oe500.py, regenerated from the CURRENT source text by harness/trans_oe500.py
  (lean/PelGen/GenOe500.lean), are equal to `oe500Ud` / `oe500Src`, the functions the ★ theorems `siglist_roundtrip`,
  `regdump_roundtrip`, `src_words` (and `scratch_regs/sig`, `callout_ffdc`) are about.  Calls of `ParserData` methods appear in
  the generated terms as the functions BEHIND THEIR ASSERTIONS (`IoSem.getSignatureA` …, tied to parserdata.py above); the
  proofs show that the assertions hold on what the user-data parser passes:
    * the hex words are `bytes.hex()` of `get_mem(n)` results, so they have the asserted length and consist of hex digits;
    * the numbers are `get_int(n)` results, which are below `256^n` PROVIDED every element of the section data is a byte.
  The model's `Bytes` is `List Nat`; on a list with an element above 255 `oe500Ud cd 2` (which has no assertions) and the source
  (which would raise AssertionError) differ, so the register-dump tie carries the hypothesis `allBytes data` (the domain of the
  model); the other sub-types need none.  The SRC parser hands its hex words to `get_signature` unchecked, so its tie states
  the AssertionError explicitly (`.raises` unless words 6..8 are eight hex digits each).
-/
namespace Pel.Tie
open Pel Pel.Oe

/-- the body of the signature loop: three 4-byte words, `get_signature` does not raise on their `hex()` -/
macro "oe_sig" : tactic => `(tactic| (
  rw [oe500Ud_1_out]
  refine counted_collect suffix_true _ trivial 4 (sigStep _) (Keeps.sigStep suffix_true _) _ (fun n i acc => ?_) _ _ (fun l => by first | rfl | simp [s])
  simp only [sigStep, bind_assoc, pure_bind]
  refine EqOn.bind_getMem suffix_true 4 fun a ha => ?_
  refine EqOn.bind_getMem suffix_true 4 fun b hb => ?_
  refine EqOn.bind_getMem suffix_true 4 fun c hc => ?_
  simp only [getSignatureA_hex _ a b c ha hb hc, rdOfOption_some, pure_bind]
  exact EqOn.refl))

/-- `_parse_signature_list`: the count (width from the source), then per signature three reads (widths and order from the source), `hex()`,
    `get_signature` with the words in source order, collected under the key the source uses -/
theorem oe500_parse_signature_list (g) (h : Pel.Gen.oe500_parse_signature_list? = some g) :
    g = fun cd _ver data => oe500Ud cd 1 data := by
  cases h <;> (
  funext cd ver data
  oe_sig
  )

/-- the register dump: per chip four reads and `get_chip_desc` (no AssertionError: the numbers are `get_int` results of a byte stream),
    the padded heading, then per register four reads, `get_reg_data`, the cropped / padded name and the data column in groups of four -/
macro "oe_reg" : tactic => `(tactic| (
  rw [oe500Ud_2_out]
  refine counted_extend suffix_allBytes _ (by assumption) 4 (chipStep _) (Keeps.chipStep suffix_allBytes _) _ (fun n i acc => ?_) _ _
    (fun l => by first | rfl | simp [s])
  simp only [chipStep, bind_assoc, pure_bind]
  refine EqOn.bind_getMem suffix_allBytes 4 fun ec hec => ?_
  refine EqOn.bind_getInt 2 fun chip hchip => ?_
  refine EqOn.bind_getInt 1 fun node hnode => ?_
  refine EqOn.bind_getInt 4 fun nregs _ => ?_
  simp only [chipDescA_hex _ ec node chip hec hnode hchip, rdOfOption_some, pure_bind, bind_pure]
  refine inner_collect (regStep _ _) (Keeps.regStep suffix_allBytes _ _) _ _ _ _ (fun i acc => ?_)
    (fun xs => by simp [chipHead, List.append_assoc])
  simp only [regStep, bind_assoc, pure_bind]
  refine EqOn.bind_getMem suffix_allBytes 3 fun rid hrid => ?_
  refine EqOn.bind_getInt 1 fun inst hinst => ?_
  refine EqOn.bind_getInt 1 fun size _ => ?_
  refine EqOn.bind_getMem suffix_allBytes _ fun buf _ => ?_
  simp only [regDataA_hex _ ec rid inst hec hrid hinst, rdOfOption_some, pure_bind]
  refine EqOn.of_eq ?_
  rw [forPure_chunks (bytesHexL buf) _ (fun _ _ => rfl)]
  first | rfl | simp [regLineOf, IoSem.slice, s]))

/-- `_parse_register_dump`, for section data that consists of bytes -/
theorem oe500_parse_register_dump (g) (h : Pel.Gen.oe500_parse_register_dump? = some g) :
    ∀ cd ver data, allBytes data = true → g cd ver data = oe500Ud cd 2 data := by
  cases h <;> (
  intro cd ver data hd
  oe_reg
  )

/-- straight-line functions: the generated reader is the model's, up to the spelling of text literals and `dictOf` -/
macro "oe_same" : tactic => `(tactic| first
  | with_reducible rfl
  | (simp [dictOf, objSet, s]; done)
  | (simp only [dictOf, List.foldl, objSet]; with_reducible rfl))

/-- `_parse_callout_ffdc`: trailing NULs stripped, UTF-8, `json.loads`, under the key the source uses -/
theorem oe500_parse_callout_ffdc (g) (h : Pel.Gen.oe500_parse_callout_ffdc? = some g) :
    g = fun cd _ver data => oe500Ud cd 3 data := by
  cases h <;> (
  funext cd ver data
  rw [oe500Ud_3_out]
  oe_same
  )

/-- `_parse_hb_scratch_regs`: four reads (widths and order from the source), "0x" + `hex()`, the two pairs as a dictionary
    (Python's rule for a repeated key) -/
theorem oe500_parse_hb_scratch_regs (g) (h : Pel.Gen.oe500_parse_hb_scratch_regs? = some g) :
    g = fun cd _ver data => oe500Ud cd 4 data := by
  cases h <;> (
  funext cd ver data
  rw [oe500Ud_4_out]
  oe_same
  )

theorem oe500_parse_scratch_reg_sig (g) (h : Pel.Gen.oe500_parse_scratch_reg_sig? = some g) :
    g = fun cd _ver data => oe500Ud cd 5 data := by
  cases h <;> (
  funext cd ver data
  rw [oe500Ud_5_out]
  oe_same
  )

/-- `_parse_default`: `json.dumps(None)` -/
theorem oe500_parse_default (g) (h : Pel.Gen.oe500_parse_default? = some g) :
    g = fun _cd _ver _data => .json .null := by
  cases h <;> (
  funext cd ver data
  rfl
  )

/-- `parseUDToJson`: the sub-type numbers, which function each selects and the default are the source's; the six functions are
    translated again where they are called (so this tie does not depend on their names) -/
theorem oe500_parseUDToJson (g) (h : Pel.Gen.oe500_parseUDToJson? = some g) :
    ∀ cd sub ver data, (sub = 2 → allBytes data = true) → g cd sub ver data = oe500Ud cd sub data := by
  cases h <;> (
  intro cd sub ver data hd
  simp only [out_ite, out_tail, beq_iff_eq]
  by_cases h1 : sub = 1
  · subst h1; simp only [if_true]; oe_sig
  by_cases h2 : sub = 2
  · subst h2
    have hd' : allBytes data = true := hd rfl
    simp only [show (2 : Nat) = 1 ↔ False by decide, if_false, if_true]; oe_reg
  by_cases h3 : sub = 3
  · subst h3; simp only [show (3 : Nat) = 1 ↔ False by decide, show (3 : Nat) = 2 ↔ False by decide, if_false, if_true]
    rw [oe500Ud_3_out]; oe_same
  by_cases h4 : sub = 4
  · subst h4
    simp only [show (4 : Nat) = 1 ↔ False by decide, show (4 : Nat) = 2 ↔ False by decide, show (4 : Nat) = 3 ↔ False by decide, if_false, if_true]
    rw [oe500Ud_4_out]; oe_same
  by_cases h5 : sub = 5
  · subst h5
    simp only [show (5 : Nat) = 1 ↔ False by decide, show (5 : Nat) = 2 ↔ False by decide, show (5 : Nat) = 3 ↔ False by decide,
      show (5 : Nat) = 4 ↔ False by decide, if_false, if_true]
    rw [oe500Ud_5_out]; oe_same
  simp only [h1, h2, h3, h4, h5, if_false]
  rw [oe500Ud_other cd sub data h1 h2 h3 h4 h5]
  )

/-- `srcparsers.oe500.parseSRCToJson`: characters 6..7 of the reference code against the literal of the source, the two texts, the
    two keys in source order, `get_signature` on words 6, 7, 8 (AssertionError unless each is eight hex digits) -/
theorem oe500_parseSRCToJson (g) (h : Pel.Gen.oe500_parseSRCToJson? = some g) :
    g = fun cd rc _w2 _w3 _w4 _w5 w6 w7 w8 _w9 =>
      if IoSem.checkHex w6 4 && IoSem.checkHex w7 4 && IoSem.checkHex w8 4 then .json (oe500Src cd rc w6 w7 w8) else .raises := by
  cases h <;> (
  funext cd rc w2 w3 w4 w5 w6 w7 w8 w9
  simp only [IoSem.getSignatureA, oe500Src, IoSem.slice_eq, beq_iff_eq, bne_iff_ne, ne_eq]
  have hs : (s "10" : Text) = [49, 48] := rfl
  simp only [hs, Nat.reduceSub, eq_comm (a := ([49, 48] : Text))]
  by_cases hc : (IoSem.checkHex w6 4 && IoSem.checkHex w7 4 && IoSem.checkHex w8 4) = true <;>
  by_cases hr : List.take 2 (List.drop 6 rc) = [49, 48] <;>
  first
    | (simp only [hc, hr, if_true, if_false, not_true_eq_false, not_false_eq_true, rdOfOption_some, pure_bind, Bool.false_eq_true]
       rfl)
    | (simp [hc, hr, rdOfOption, Oe.out, s]; try rfl)
  )

/-! ### ★ theorems of PelProps/C20.lean transported to the regenerated entry points -/

/-- ★ `C20.siglist_roundtrip` for the regenerated `parseUDToJson`: a signature list of any length is listed completely and in order -/
theorem oe500_siglist_roundtrip (g) (h : Pel.Gen.oe500_parseUDToJson? = some g) (cd : List ChipData) (ver : Nat)
    (sigs : List (Nat × Nat × Nat)) (rest : Bytes)
    (hs : ∀ x ∈ sigs, x.1 < 2^32 ∧ x.2.1 < 2^32 ∧ x.2.2 < 2^32) (hn : sigs.length < 2^32) :
    g cd 1 ver (toBE 4 sigs.length ++ sigs.flatMap (fun x => toBE 4 x.1 ++ toBE 4 x.2.1 ++ toBE 4 x.2.2) ++ rest) =
      .json (.obj [(s "Signature List",
        .arr (sigs.map fun x => getSignature cd (hexFixL 8 x.1) (hexFixL 8 x.2.1) (hexFixL 8 x.2.2)))]) := by
  rw [oe500_parseUDToJson g h cd 1 ver _ (fun e => absurd e (by decide))]
  exact C20.siglist_roundtrip cd sigs rest hs hn

theorem allBytes_regEnc (r : C20.AReg) (h : r.WF) : allBytes r.enc = true := by
  obtain ⟨_, h2, _, h4, h5⟩ := h
  simp only [C20.AReg.enc, allBytes_append, allBytes_toBE, Bool.true_and]
  simp only [allBytes, List.all_cons, List.all_nil, decide_eq_true h2, decide_eq_true h4, Bool.true_and, Bool.and_true, List.all_eq_true,
    decide_eq_true_eq]
  exact h5

theorem allBytes_chipEnc (c : C20.AChip) (h : c.WF) : allBytes c.enc = true := by
  obtain ⟨_, _, h3, _, h5⟩ := h
  simp only [C20.AChip.enc, allBytes_append, allBytes_toBE, Bool.true_and]
  rw [allBytes_flatMap _ _ (fun r hr => allBytes_regEnc r (h5 r hr))]
  simp [allBytes, h3]

/-- ★ `C20.regdump_roundtrip` for the regenerated `parseUDToJson`: a register dump lists every chip and every register in order -/
theorem oe500_regdump_roundtrip (g) (h : Pel.Gen.oe500_parseUDToJson? = some g) (cd : List ChipData) (ver : Nat)
    (chips : List C20.AChip) (rest : Bytes) (hw : ∀ c ∈ chips, c.WF) (hn : chips.length < 2^32) (hr : allBytes rest = true) :
    g cd 2 ver (toBE 4 chips.length ++ chips.flatMap (·.enc) ++ rest) =
      .json (.obj [(s "Register Dump", .arr ((chips.flatMap (C20.chipLines cd)).map .str))]) := by
  rw [oe500_parseUDToJson g h cd 2 ver _ (fun _ => by
    simp only [allBytes_append, allBytes_toBE, hr, allBytes_flatMap _ _ (fun c hc => allBytes_chipEnc c (hw c hc)), Bool.and_self])]
  exact C20.regdump_roundtrip cd chips rest hw hn

/-- ★ `C20.src_words` for the regenerated `parseSRCToJson`, on hex words as `SRC.parse` passes them -/
theorem oe500_src_words (g) (h : Pel.Gen.oe500_parseSRCToJson? = some g) (cd : List ChipData) (rc w2 w3 w4 w5 w6 w7 w8 w9 : Text)
    (h6 : IoSem.checkHex w6 4 = true) (h7 : IoSem.checkHex w7 4 = true) (h8 : IoSem.checkHex w8 4 = true) :
    g cd rc w2 w3 w4 w5 w6 w7 w8 w9 =
      .json (.obj [(s "Primary Attention", .str (if (rc.drop 6).take 2 = s "10" then s "system checkstop" else s "secondary analysis")),
                   (s "Signature Description", getSignature cd w6 w7 w8)]) := by
  rw [oe500_parseSRCToJson g h]
  simp only [h6, h7, h8, Bool.and_self, if_true, C20.src_words]

/-- the hex words of an SRC (`hexFix 8` of a 32-bit word) pass the assertions -/
theorem oe500_src_words_hex (g) (h : Pel.Gen.oe500_parseSRCToJson? = some g) (cd : List ChipData) (rc w2 w3 w4 w5 w9 : Text) (a b c : Nat) :
    g cd rc w2 w3 w4 w5 (hexFix 8 a) (hexFix 8 b) (hexFix 8 c) w9 = .json (oe500Src cd rc (hexFix 8 a) (hexFix 8 b) (hexFix 8 c)) := by
  rw [oe500_parseSRCToJson g h]
  simp only [checkHex_hexFix8, Bool.and_self, if_true]

end Pel.Tie
