import PelGen.GenIoDrawer
import PelProofs.HwDiags
import PelProofs.TieIoDrawer
import PelProps.C20
/-
  C20, source tie: the functions of modules/pel/hwdiags/parserdata.py that harness/trans_iodrawer.py regenerates from the
  CURRENT source text (lean/PelGen/GenIoDrawer.lean) are equal to the hand-written model functions the C20 theorems are about,
  BEHIND THE ASSERTIONS the Python functions start with (`IoSem.chipDescA` … = "AssertionError unless the words are hex words of
  the right length / the numbers fit their width, else the model function").  The hand model has no assertions: it is only
  ever applied to words that `bytes.hex()` / the SRC hex words produce.  The corollaries at the end state the ties without
  the wrapper.
-/
set_option linter.unusedSimpArgs false
set_option linter.unusedVariables false
namespace Pel.Tie
open Pel

/-- `ParserData._check_int` returns normally exactly for `v < 2^(8n)` (`1 << (8*n)`, `- 1`, `<=` all read from the source) -/
theorem hw_check_int (g) (h : Pel.Gen.hw_check_int? = some g) : g = IoSem.checkInt := by
  cases h <;> (
  funext v n
  simp only [IoSem.checkInt, Nat.one_shiftLeft]
  have hp : 0 < 2 ^ (8 * n) := Nat.pow_pos (by decide)
  generalize 2 ^ (8 * n) = P at *
  by_cases hv : v < P
  · have : ((v : Nat) : Int) ≤ ((P : Nat) : Int) - 1 := by omega
    simp [hv, this]
  · have : ¬ ((v : Nat) : Int) ≤ ((P : Nat) : Int) - 1 := by omega
    simp [hv, this]
  )

theorem dataGet_lower (cd : List ChipData) (ec : Text) : IoSem.dataGet cd (lowerT ec) = chipFor cd ec := rfl

theorem hw_get_attn_desc (g) (h : Pel.Gen.hw_get_attn_desc? = some g) : g = IoSem.attnDescA := by
  cases h <;> (
  funext cd ec attn
  simp only [IoSem.attnDescA, attnDesc, dataGet_lower]
  )

theorem hw_get_chip_desc (g) (h : Pel.Gen.hw_get_chip_desc? = some g) : g = IoSem.chipDescA := by
  cases h <;> (
  funext cd ec node chip
  simp only [IoSem.chipDescA, chipDesc, dataGet_lower]
  cases IoSem.checkHex ec 4 <;> cases IoSem.checkInt node 1 <;> cases IoSem.checkInt chip 2 <;> simp [s]
  )

theorem hw_get_sig_desc (g) (h : Pel.Gen.hw_get_sig_desc? = some g) : g = IoSem.sigDescA := by
  cases h <;> (
  funext cd ec sid inst bit
  simp only [IoSem.sigDescA, sigDesc, dataGet_lower]
  cases IoSem.checkHex ec 4 <;> cases IoSem.checkHex sid 2 <;> cases IoSem.checkInt inst 1 <;> cases IoSem.checkInt bit 1 <;> simp [s]
  generalize ((chipFor cd ec).bind fun x => x.signatures) = o
  cases o with
  | none => rfl
  | some m => simp only [Option.bind_some, Function.comp]; cases lookup3 m (lowerT sid) <;> rfl
  )

theorem hw_get_reg_data (g) (h : Pel.Gen.hw_get_reg_data? = some g) : g = IoSem.regDataA := by
  cases h <;> (
  funext cd ec rid inst
  simp only [IoSem.regDataA, regData, dataGet_lower]
  cases IoSem.checkHex ec 4 <;> cases IoSem.checkHex rid 3 <;> cases IoSem.checkInt inst 1 <;> simp [s]
  generalize ((chipFor cd ec).bind fun x => x.registers) = o
  cases o with
  | none => rfl
  | some m => simp only [Option.bind_some, Function.comp]; cases lookup3 m (lowerT rid) <;> rfl
  )

theorem hw_get_signature (g) (h : Pel.Gen.hw_get_signature? = some g) : g = IoSem.getSignatureA := by
  cases h <;> (
  funext cd a b c
  simp only [IoSem.getSignatureA, getSignature]
  cases ha : IoSem.checkHex a 4 <;> cases hb : IoSem.checkHex b 4 <;> cases hc : IoSem.checkHex c 4 <;> simp
  simp (disch := first | assumption | omega) only [IoSem.chipDescA, IoSem.sigDescA, IoSem.attnDescA, ha,
    IoSem.checkInt_parse_slice b 4 _ _ 1 hb, IoSem.checkInt_parse_slice b 4 _ _ 2 hb, IoSem.checkInt_parse_slice c 4 _ _ 1 hc,
    IoSem.checkHex_slice c 4 _ _ 2 hc, Bool.and_self, if_true, Option.bind_some]
  simp [IoSem.slice_eq, s]
  )

/-- without the wrapper: on hex words of eight digits `get_signature` does not raise and returns the model's object -/
theorem hw_get_signature_hex (g) (h : Pel.Gen.hw_get_signature? = some g) (cd : List ChipData) (a b c : Text)
    (ha : IoSem.checkHex a 4 = true) (hb : IoSem.checkHex b 4 = true) (hc : IoSem.checkHex c 4 = true) :
    g cd a b c = some (getSignature cd a b c) := by
  rw [hw_get_signature g h]
  simp [IoSem.getSignatureA, ha, hb, hc]

theorem checkHex_hexFix8 (v : Nat) : IoSem.checkHex (hexFix 8 v) 4 = true := by
  rw [IoSem.checkHex_iff]
  exact ⟨hexFix_length 8 v, hexFix_all_hex 8 v⟩

/-- ★ `C20.signature_fields_upper` transported to the regenerated `get_signature`: the slice bounds in the source text are the
    byte positions of chip, node, attention type, signature id, instance and bit -/
theorem hw_get_signature_fields_upper (g) (h : Pel.Gen.hw_get_signature? = some g) (cd : List ChipData) (a b c : Nat)
    (ha : a < 2^32) (hb : b < 2^32) (hc : c < 2^32) :
    g cd (hexFix 8 a) (hexFix 8 b) (hexFix 8 c) = some
      (.obj [(s "Chip Desc", .str (chipDesc cd (hexFix 8 a) (sigFields a b c).nodePos (sigFields a b c).chipPos)),
             (s "Signature", .str (sigDesc cd (hexFix 8 a) (hexFix 4 (sigFields a b c).sigId) (sigFields a b c).inst (sigFields a b c).bit)),
             (s "Attn Type", .str (attnDesc cd (hexFix 8 a) (sigFields a b c).attn))]) := by
  rw [hw_get_signature_hex g h cd _ _ _ (checkHex_hexFix8 a) (checkHex_hexFix8 b) (checkHex_hexFix8 c),
    C20.signature_fields_upper cd a b c ha hb hc]

end Pel.Tie
