import PelGen.GenHexdump
import PelProofs.TieHexdump
import PelProps.C13
/-
  Source tie for C13 (stream `hexdump`): `hexdump` and `parse` of modules/pel/hexdump.py, regenerated from the source text by
  harness/trans_hexdump.py (PelGen/GenHexdump.lean) as `do` blocks in the `Option` monad (`none` = Python raises / an integer drops
  below zero), are the model's `hexdump` and `parseDump` (PelModel/HexDump.lean) — the functions C13's theorems are about.

  Where the equality needs a hypothesis, it is the domain on which the MODEL claims to follow the code:
  * `hexdump`: the data is a bytes-like object (`∀ x ∈ b, x < 256`: the code formats a cell with `"%02X"`, which would widen for a larger
    number; the model always writes two digits).  The two `assert`s are part of the statement: outside `1 ≤ l, c ≤ 256` the code raises
    (AssertionError in an interpreter started without -O; with -O the asserts are gone and that branch of the statement says nothing
    about the code — inside the range, which is where the model's `hexdump` is specified, -O makes no difference).
  * `parse`: the template is `pairedD` (every second `D` directly follows its partner: the code pairs a low nibble with the character
    just before it, `line[i-1:i+1]`, the model with the previous DATA character; PelModel/HexDump.lean states this, and
    `C13.templates_paired` proves it for the three templates in use).  On such templates the code never raises.
-/
set_option linter.unusedSimpArgs false
set_option linter.unusedVariables false
namespace Pel.Tie
open Pel.TieHex

/-- normal form of the monadic glue of a generated `do` block -/
macro "py_norm" : tactic => `(tactic|
  simp only [Option.bind_eq_bind, Option.bind_some, Option.pure_def, bind, pure, Option.bind_fun_some, Option.bind_none])

/-- closes a pointwise goal about one round of the cell loop of `hexdump` -/
macro "cell_round" j:ident c:ident x:ident : tactic => `(tactic|
  (by_cases h0 : $j = 0 <;> by_cases hm : $j % $c = 0 <;> by_cases h1 : 32 ≤ $x <;> by_cases h2 : $x < 127 <;>
     simp [h0, hm, h1, h2, zero_eq_iff, spaces, asciiCell, List.append_assoc] <;>
     (try simp_all) <;> (try omega)))

/-- `hexdump(data, bytes_per_line, bytes_per_chunk)` of the source text: the two asserts, then one `dumpLine` per started line -/
theorem hexdump (g : Bytes → Nat → Nat → Option (List Text)) (h : Gen.hexdump? = some g) :
    ∀ (b : Bytes) (l c : Nat), (∀ x ∈ b, x < 256) →
      g b l c = if (1 ≤ l ∧ l ≤ 256) ∧ (1 ≤ c ∧ c ≤ 256) then some (Pel.hexdump l c b) else none := by
  cases h
  all_goals
    intro b l c hb
    by_cases hl : 1 ≤ l ∧ l ≤ 256
    · by_cases hc : 1 ≤ c ∧ c ≤ 256
      · have hl0 : l ≠ 0 := by omega
        have hc0 : c ≠ 0 := by omega
        have hcd : 1 ≤ Pel.ceilDiv l c := by
          unfold Pel.ceilDiv; exact (Nat.le_div_iff_mul_le (by omega)).mpr (by omega)
        have hcpl : 2 ≤ l * 2 + 2 * Pel.ceilDiv l c := by omega
        have hcpl' : 2 ≤ 2 * l + 2 * Pel.ceilDiv l c := by omega
        -- the straight-line part: asserts, `math.ceil`, the width of the hex column, `range`
        simp only [Py.assert, Py.ceilDiv, Py.sub, Py.range3, hl, hc, hl0, hc0, hcd, hcpl, hcpl', and_self, decide_true, Bool.and_self, if_true,
          if_false, Option.bind_eq_bind, Option.bind_some, Option.pure_def, bind, pure, Option.bind_fun_some, ge_iff_le, Bool.and_true,
          Bool.true_and, Nat.sub_zero]
        -- the line loop
        rw [forIn_lines (l := l) (c := c) (b := b) hl.1 ?_ b.length 0 [] (by omega)]
        · simp [Pel.hexdump]
        · intro i acc
          have hs : ∀ x ∈ Py.slice b i (i + l), x < 256 := by
            intro x hx; apply hb; unfold Py.slice at hx; exact List.mem_of_mem_take (List.mem_of_mem_drop hx)
          -- the cell loop, for either order of the two strings in the loop state
          first
          | (rw [Py.enumerate, forIn_cells (fun r t => (r, t)) (c := c) ?_ _ 0 [] [] hs]
             · (first
                | done
                | (simp [dumpLine, charPerLine, spaces, rawFrom]; done)
                | (simp [dumpLine, charPerLine, spaces, rawFrom]; omega)
                | (simp [dumpLine, charPerLine, spaces, rawFrom]; congr 2; omega))
             · intro j x raw text hx
               have hx' : x < 1114112 := by omega
               simp only [Py.mod, hc0, Py.chr, hx', fmtHex2_byte x hx, bne_iff_ne, beq_iff_eq, ne_eq, if_false, if_true,
                 Option.bind_eq_bind, Option.bind_some, Option.pure_def, bind, pure, Bool.and_eq_true, decide_eq_true_eq]
               cell_round j c x)
          | (rw [Py.enumerate, forIn_cells (fun r t => (t, r)) (c := c) ?_ _ 0 [] [] hs]
             · (first
                | done
                | (simp [dumpLine, charPerLine, spaces, rawFrom]; done)
                | (simp [dumpLine, charPerLine, spaces, rawFrom]; omega)
                | (simp [dumpLine, charPerLine, spaces, rawFrom]; congr 2; omega))
             · intro j x raw text hx
               have hx' : x < 1114112 := by omega
               simp only [Py.mod, hc0, Py.chr, hx', fmtHex2_byte x hx, bne_iff_ne, beq_iff_eq, ne_eq, if_false, if_true,
                 Option.bind_eq_bind, Option.bind_some, Option.pure_def, bind, pure, Bool.and_eq_true, decide_eq_true_eq]
               cell_round j c x)
      · have : ¬ (1 ≤ c ∧ c ≤ 256) := hc
        simp [Py.assert, hl, hc]
        try omega
    · simp [Py.assert, hl]
      try omega

/-- the default arguments of `hexdump` in the source text: 16 bytes per line, 4 per chunk -/
theorem hexdumpDefaults (g : Nat × Nat) (h : Gen.hexdumpDefaults? = some g) : g = (16, 4) := by
  cases h <;> rfl

/-- `hexdump(data)` with the defaults of the source text is the model's `hexdump16` -/
theorem hexdump16 (g : Bytes → Nat → Nat → Option (List Text)) (h : Gen.hexdump? = some g)
    (d : Nat × Nat) (hd : Gen.hexdumpDefaults? = some d) (b : Bytes) (hb : ∀ x ∈ b, x < 256) :
    g b d.1 d.2 = some (Pel.hexdump16 b) := by
  rw [hexdumpDefaults d hd, hexdump g h b 16 4 hb]
  simp [Pel.hexdump16]

/-- `parse(lines, line_format)` of the source text: per line, the template walk with `break`/`continue` is the model's `parseGo` -/
theorem parse (g : List Text → Text → Option Bytes) (h : Gen.parse? = some g) :
    ∀ (lines : List Text) (fmt : Text), pairedD fmt = true → g lines fmt = some (parseDump fmt lines) := by
  cases h
  all_goals
    intro lines fmt hp
    py_norm
    rw [forIn_flatMap (parseLine fmt) ?_ lines []]
    · simp [parseDump]
    · intro line acc
      simp only [parseLine, rstripNL]
      by_cases hlen : (rstripChar 10 line).length ≤ fmt.length
      · have hgt : ¬ (fmt.length < (rstripChar 10 line).length) := by omega
        have hge : fmt.length ≥ (rstripChar 10 line).length := hlen
        simp only [hlen, hgt, hge, if_true, if_false, decide_true, decide_false, gt_iff_lt, ge_iff_le, Bool.false_eq_true, Bool.not_true,
          Bool.not_false, not_true_eq_false, not_false_eq_true, Option.bind_eq_bind, Option.bind_some, Option.pure_def, bind, pure]
        first
        | rw [forIn_parse (fun d p => (d, p)) ?_ hlen hp acc]
        | rw [forIn_parse (fun d p => (p, d)) ?_ hlen hp acc]
        · simp [parseGo_acc _ _ _ acc]
        · intro i fc ch data prev hfc hch hpi
          have hsub : Py.sub i 1 = if prev = true then some (i - 1) else Py.sub i 1 := by
            split
            · rename_i hp1; have := hpi hp1; simp [Py.sub, this]
            · rfl
          simp only [hfc, hch, Option.bind_some, Option.bind_eq_bind, Option.pure_def, bind, pure]
          -- the compiled character class of the source is the model's `isHexDigit`
          try (
            generalize hcl : Py.inClass _ ch = t
            have ht : t = isHexDigit ch := by
              rw [← hcl]
              simp only [Py.inClass, List.any_cons, List.any_nil, isHexDigit, Bool.or_false]
              rw [Bool.eq_iff_iff]; simp; omega
            subst ht)
          have c65 : (65 = fc) = (fc = 65) := propext eq_comm
          have c68 : (68 = fc) = (fc = 68) := propext eq_comm
          have c67 : (67 = fc) = (fc = 67) := propext eq_comm
          have cch : (ch = fc) = (fc = ch) := propext eq_comm
          simp only [stepSpec, chA, chD, chC, beq_iff_eq, bne_iff_ne, ne_eq, Bool.not_eq_true', ite_not, c65, c68, c67, cch]
          by_cases hA : fc = 65 <;> by_cases hD : fc = 68 <;> by_cases hC : fc = 67 <;> by_cases hL : fc = ch <;>
            cases hx : isHexDigit ch <;> cases prev <;> simp_all [Py.sub] <;>
              (try subst_vars) <;> (try simp_all) <;> (try omega)
      · have hgt : fmt.length < (rstripChar 10 line).length := by omega
        simp [hlen, hgt]

/-- the default template of `parse` in the source text, and the module constant it names -/
theorem parseDefaultFormat (g : Text) (h : Gen.parseDefaultFormat? = some g) : g = fmtDefault := by
  cases h <;> decide

theorem defaultLineFormat (g : Text) (h : Gen.defaultLineFormat? = some g) : g = fmtDefault := by
  cases h <;> decide

/-- C13 ★`parse_hexdump` for the functions of the source text: `parse(hexdump(data))` returns `data`
    (defaults of both functions as written in the source; any byte string shorter than 4 GiB) -/
theorem parse_hexdump (gh : Bytes → Nat → Nat → Option (List Text)) (hh : Gen.hexdump? = some gh)
    (d : Nat × Nat) (hd : Gen.hexdumpDefaults? = some d)
    (gp : List Text → Text → Option Bytes) (hp : Gen.parse? = some gp)
    (f : Text) (hf : Gen.parseDefaultFormat? = some f)
    (b : Bytes) (hb : ∀ x ∈ b, x < 256) (hlen : b.length ≤ 2 ^ 32) :
    (gh b d.1 d.2).bind (fun dump => gp dump f) = some b := by
  rw [hexdump16 gh hh d hd b hb, parseDefaultFormat f hf]
  simp only [Option.bind_some]
  rw [parse gp hp _ _ C13.templates_paired.1]
  exact congrArg some (C13.parse_hexdump b hb hlen)

/-- C13 `line_count` for the `hexdump` of the source text -/
theorem line_count (g : Bytes → Nat → Nat → Option (List Text)) (h : Gen.hexdump? = some g)
    (b : Bytes) (l c : Nat) (hb : ∀ x ∈ b, x < 256) (hl : 1 ≤ l ∧ l ≤ 256) (hc : 1 ≤ c ∧ c ≤ 256) :
    ∃ dump, g b l c = some dump ∧ dump.length = ceilDiv b.length l := by
  refine ⟨Pel.hexdump l c b, ?_, C13.line_count l c b hl.1⟩
  rw [hexdump g h b l c hb]; simp [hl, hc]

end Pel.Tie
