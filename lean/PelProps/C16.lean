namespace Pel.C16
end Pel.C16
