import PelProofs.Hlog
import PelProofs.Loaders
import PelGen.Live
/-
  C16 — History logs show a full hex dump and exactly the non-zero fields.
-/
namespace Pel.C16

/-- ★ lines 2 … 2+⌈|b|/16⌉ are the hex dump of all the bytes, and it parses back to them -/
theorem dump_lossless (fields : List HlogField) (b : Bytes) (hb : ∀ x ∈ b, x < 256) (hlen : b.length ≤ 2 ^ 32) :
    (parseHlog fields b).take 2 = [s "Hex Dump", s "--------"] ∧
    ((parseHlog fields b).drop 2).take (ceilDiv b.length 16) = hexdump16 b ∧
    parseDump fmtDefault (hexdump16 b) = b := by
  rw [parseHlog_eq]
  refine ⟨rfl, ?_, parseDump_hexdump16 b hb hlen⟩
  simp only [List.drop_succ_cons, List.drop_zero]
  exact List.take_left' (hexdump16_length b)

/-- after the dump: a blank line, the two heading lines, then the field lines -/
theorem layout (fields : List HlogField) (b : Bytes) :
    (parseHlog fields b).drop (2 + ceilDiv b.length 16) =
      [[], s "Non-Zero Field Values", s "---------------------"] ++ hlogFields fields b := by
  rw [parseHlog_eq, Nat.add_comm 2]
  simp only [List.drop_succ_cons]
  exact List.drop_left' (hexdump16_length b)

/-- ★ the cursor loop with its `break` is the declarative rule: fields are consumed contiguously from offset 0
    (offset = sum of the preceding widths), listing stops at the first field that does not fit, and a field
    is listed iff its big-endian value is non-zero, shown zero-padded to twice its width -/
theorem fields_spec (fields : List HlogField) (b : Bytes) (hb : ∀ x ∈ b, x < 256) :
    hlogFields fields b = specHlogFields fields b := by
  exact hlogFields_eq_spec fields b hb

/-- the shown value has exactly `2·size` digits and parses back to the field's value -/
theorem value_roundtrip (size : Nat) (bs : Bytes) (hlen : bs.length = size) (hb : ∀ x ∈ bs, x < 256) :
    (hexFix (2 * size) (fromBE bs)).length = 2 * size ∧ parseHexText (hexFix (2 * size) (fromBE bs)) = fromBE bs := by
  exact ⟨hexFix_length _ _, parseHexText_hexFix _ _ (fromBE_lt_16 size bs hlen hb)⟩

/-! ### the field-table LOADER (`get_hlog_fields`, modelled in PelModel/Regex.lean + Loaders.lean) -/

/-- ★ Printing a field table as a C header (start line, `{`, one `  { size, "name" },` line per field, `};`) and loading it
    with the model of the repo's loader gives the table back, for sizes in {1, 2} and non-empty names without `"`
    (`hlogFieldWf`, decidable; names may contain anything else, newlines and backslashes included) -/
theorem hlog_header_roundtrip (fs : List HlogField) (hwf : ∀ f ∈ fs, hlogFieldWf f = true) :
    loadHlogFields (renderHlogHeader fs) = some fs := by
  have := hlog_header_loaded fs hwf [] (by intro l hl; cases hl)
  rw [List.append_nil] at this
  exact this

def demoFields : List HlogField := [(s "hl_isolated_standby", 1), (s "hl_power_ups", 2), (s "odd \\ name, } ;", 1)]

example : (∀ f ∈ demoFields, hlogFieldWf f = true) ∧
    renderHlogHeader demoFields =
      [s "static struct mex_hlog_field mex_hlog_fields[MEX_HLOG_FIELD_COUNT] =\n", s "{\n", s "  { 1, \"hl_isolated_standby\" },\n",
       s "  { 2, \"hl_power_ups\" },\n", s "  { 1, \"odd \\ name, } ;\" },\n", s "};\n"] ∧
    loadHlogFields (renderHlogHeader demoFields) = some demoFields := by decide +kernel

/-- ★ the groups of a field line in any layout (arbitrary blank runs where the pattern has `\s*`, trailing comma present) -/
theorem field_line_groups (w0 w1 w2 w3 w4 w5 w6 : Text) (h0 : AllSp w0) (h1 : AllSp w1) (h2 : AllSp w2) (h3 : AllSp w3)
    (h4 : AllSp w4) (h5 : AllSp w5) (h6 : AllSp w6) (sz : Nat) (hsz : sz = 49 ∨ sz = 50) (n : Nat) (name : Text)
    (hn : n ≠ 34) (hname : ∀ x ∈ name, x ≠ 34) :
    hlogFieldRe.fullmatch (w0 ++ 123 :: (w1 ++ sz :: (w2 ++ 44 :: (w3 ++ 34 :: n :: (name ++ 34 :: (w4 ++ 125 :: (w5 ++ 44 :: (w6 ++ []))))))))
      = some [(2, n :: name), (1, [sz])] :=
  hlogField_fullmatch w0 w1 w2 w3 w4 w5 w6 h0 h1 h2 h3 h4 h5 h6 sz hsz n name hn hname

/-- the shipped layout: two blanks, a blank after the closing comma (the CR of CRLF files is already translated) -/
example : (s "  ") ++ 123 :: ((s " ") ++ 50 :: ([] ++ 44 :: ((s " ") ++ 34 :: 104 :: ((s "l_power_ups") ++ 34 :: ((s " ") ++ 125 :: ([] ++ 44 :: ((s " \n") ++ [])))))))
    = s "  { 2, \"hl_power_ups\" }, \n" ∧
    hlogFieldRe.fullmatch (s "  { 2, \"hl_power_ups\" }, \n") = some [(2, s "hl_power_ups"), (1, s "2")] := by decide +kernel

/-- ★ lines outside the array never contribute fields (as long as none of them is itself a start line) -/
theorem lines_outside_table_ignored (fs : List HlogField) (hwf : ∀ f ∈ fs, hlogFieldWf f = true) (pre post : List Text)
    (hpre : ∀ l ∈ pre, hlogStartRe.fullmatch l = none) (hpost : ∀ l ∈ post, hlogStartRe.fullmatch l = none) :
    loadHlogFields (pre ++ renderHlogHeader fs ++ post) = some fs := by
  unfold loadHlogFields
  rw [List.append_assoc, loadHlogGo_before pre _ hpre]
  exact hlog_header_loaded fs hwf post hpost

theorem lines_before_start_ignored (pre rest : List Text) (hpre : ∀ l ∈ pre, hlogStartRe.fullmatch l = none) :
    loadHlogFields (pre ++ rest) = loadHlogFields rest :=
  loadHlogGo_before pre rest hpre

/-- the shipped headers contain `struct mex_hlog_field` + `{ uint8_t size; … };` in front of the array and PTE entries
    further up: such lines are not start lines -/
example : let pre := [s "struct mex_hlog_field\n", s "{\n", s "  uint8_t size;\n", s "};\n", s "  { 1, \"before\" },\n"]
    let post := [s "\n", s "  { 2, \"after\" },\n", s "};\n"]
    (∀ l ∈ pre, hlogStartRe.fullmatch l = none) ∧ (∀ l ∈ post, hlogStartRe.fullmatch l = none) ∧
    loadHlogFields (pre ++ renderHlogHeader demoFields ++ post) = some demoFields := by decide +kernel

/-- ★ a line that matches none of the three patterns contributes nothing and does not disturb its neighbours -/
theorem non_matching_lines_skipped (a b : List Text) (bad : Text) (h1 : hlogStartRe.fullmatch bad = none)
    (h2 : hlogEndRe.fullmatch bad = none) (h3 : hlogFieldRe.fullmatch bad = none) :
    loadHlogFields (a ++ bad :: b) = loadHlogFields (a ++ b) :=
  loadHlogGo_bad_line bad h1 h2 h3 a b false

example : ∀ bad ∈ [s "  { 3, \"three\" },\n", s "  { 1, \"\" },\n", s "  // c\n", s "  { 1, \"a\" }, // c\n"],
    hlogStartRe.fullmatch bad = none ∧ hlogEndRe.fullmatch bad = none ∧ hlogFieldRe.fullmatch bad = none := by decide +kernel

/-- ★ end to end, header file → field lines: decoding with the loaded table is decoding with the printed table -/
theorem header_file_to_field_lines (fs : List HlogField) (hwf : ∀ f ∈ fs, hlogFieldWf f = true) (b : Bytes) (hb : ∀ x ∈ b, x < 256) :
    (loadHlogFields (renderHlogHeader fs)).map (fun t => hlogFields t b) = some (specHlogFields fs b) := by
  rw [hlog_header_roundtrip fs hwf]
  simp only [Option.map_some]
  rw [fields_spec fs b hb]

/-- record `01 0002 00`: the two non-zero fields are listed, the third (zero) is not -/
example : (loadHlogFields (renderHlogHeader demoFields)).map (fun t => hlogFields t [1, 0, 2, 0]) =
    some [s "hl_isolated_standby: 0x01", s "hl_power_ups: 0x0002"] := by decide +kernel

end Pel.C16
