import PelProofs.Hlog
import PelGen.Live
/-
  C16 — History logs show a full hex dump and exactly the non-zero fields.
-/
namespace Pel.C16

/-- ★ lines 2 … 2+⌈|b|/16⌉ are the hex dump of all the bytes, and it parses back to them -/
theorem dump_lossless (fields : List HlogField) (b : Bytes) (hb : ∀ x ∈ b, x < 256) (hlen : b.length ≤ 2 ^ 32) :
    (parseHlog fields b).take 2 = [s "Hex Dump", s "--------"] ∧
    ((parseHlog fields b).drop 2).take (ceilDiv b.length 16) = hexdump16 b ∧
    parseDump fmtDefault (hexdump16 b) = b := by
  rw [parseHlog_eq]
  refine ⟨rfl, ?_, parseDump_hexdump16 b hb hlen⟩
  simp only [List.drop_succ_cons, List.drop_zero]
  exact List.take_left' (hexdump16_length b)

/-- after the dump: a blank line, the two heading lines, then the field lines -/
theorem layout (fields : List HlogField) (b : Bytes) :
    (parseHlog fields b).drop (2 + ceilDiv b.length 16) =
      [[], s "Non-Zero Field Values", s "---------------------"] ++ hlogFields fields b := by
  rw [parseHlog_eq, Nat.add_comm 2]
  simp only [List.drop_succ_cons]
  exact List.drop_left' (hexdump16_length b)

/-- ★ the cursor loop with its `break` is the declarative rule: fields are consumed contiguously from offset 0
    (offset = sum of the preceding widths), listing stops at the first field that does not fit, and a field
    is listed iff its big-endian value is non-zero, shown zero-padded to twice its width -/
theorem fields_spec (fields : List HlogField) (b : Bytes) (hb : ∀ x ∈ b, x < 256) :
    hlogFields fields b = specHlogFields fields b := by
  exact hlogFields_eq_spec fields b hb

/-- the shown value has exactly `2·size` digits and parses back to the field's value -/
theorem value_roundtrip (size : Nat) (bs : Bytes) (hlen : bs.length = size) (hb : ∀ x ∈ bs, x < 256) :
    (hexFix (2 * size) (fromBE bs)).length = 2 * size ∧ parseHexText (hexFix (2 * size) (fromBE bs)) = fromBE bs := by
  exact ⟨hexFix_length _ _, parseHexText_hexFix _ _ (fromBE_lt_16 size bs hlen hb)⟩

end Pel.C16
