import PelGen.GenHexdump
import PelProofs.TieHexdump
import PelProps.C17
import PelProps.TieC13
/-
  Source tie for C17 (stream `hexdump`): `parse_dump_data` (with `_format_ilog_data` / `_format_trace_data` inlined) and
  `parse_dump_file` of modules/io_drawer/dump.py and the constants they use, regenerated from the source text by
  harness/trans_hexdump.py (PelGen/GenHexdump.lean), are the model's `parseDumpData` / `parseDumpFile` (PelModel/Dump.lean) and the
  constants C17's theorems are about.  Equality of functions, no hypotheses: the header search, the slicing into the ILOG region and
  the trace regions, the order and the headings of the output, and the template auto-detection are all in the statement.
  (`none` on either side: a `%` format outside the model's subset inside the ILOG / trace decoders, see PelModel/Ilog.lean.)
-/
set_option linter.unusedSimpArgs false
set_option linter.unusedVariables false
namespace Pel.Tie
open Pel.TieHex

/-! ### the constants, from their assignments in the source text -/

theorem hexDumpLineFormats (g : List Text) (h : Gen.hexDumpLineFormats? = some g) : g = [fmtBmc, fmtPre] := by
  cases h <;> decide

theorem traceBufferHeaderStart (g : Bytes) (h : Gen.traceBufferHeaderStart? = some g) : g = traceHeaderStart := by
  cases h <;> decide

theorem dividerLine (g : Text) (h : Gen.dividerLine? = some g) : g = Pel.dividerLine := by
  cases h <;> decide

theorem bufferNames (g : List Text) (h : Gen.bufferNames? = some g) : g = Pel.bufferNames := by
  cases h <;> decide

/-! ### `parse_dump_data` -/

/-- closes the pointwise goal about one round of the trace-buffer loop -/
macro "region_round" b:ident offs:term : tactic => `(tactic|
  (intro i o' st L hio hk
   have hL : st.fst = L := by simpa using hk
   subst hL
   unfold regionEnd
   by_cases hlt : i + 1 < ($offs).length
   · obtain ⟨e, he⟩ : ∃ e, ($offs)[i + 1]? = some e := ⟨_, List.getElem?_eq_getElem hlt⟩
     have hlt' := hlt
     simp only [List.length_cons] at hlt'
     simp only [List.length_cons, hlt', he, decide_true, if_true, Option.bind_some, Option.getD_some, Option.bind_eq_bind, Option.pure_def, bind, pure]
     exact ⟨_, rfl, fun t => by simp [formatTraceSection, s_Trace, dividerLine_eq]⟩
   · have he : ($offs)[i + 1]? = none := List.getElem?_eq_none (by omega)
     have hlt' := hlt
     simp only [List.length_cons] at hlt'
     simp only [List.length_cons, hlt', he, decide_false, if_false, Option.getD_none, Bool.false_eq_true, Option.bind_some, Option.bind_eq_bind,
       Option.pure_def, bind, pure]
     exact ⟨_, rfl, fun t => by simp [formatTraceSection, s_Trace, dividerLine_eq]⟩))

theorem parseDumpData (g : Bytes → List PteEntry → List TraceString → Option (List Text)) (h : Gen.parseDumpData? = some g) :
    g = fun b tbl ss => Pel.parseDumpData tbl ss b := by
  cases h
  all_goals
    funext b tbl ss
    unfold Pel.parseDumpData
    by_cases he : b.isEmpty = true
    · have hb0 : b = [] := by simpa using he
      subst hb0
      simp
    · have hne : ¬ b = [] := by simpa using he
      have hl0 : ¬ b.length = 0 := fun e => hne (List.length_eq_zero_iff.mp e)
      have hl1 : 0 < b.length := by omega
      simp only [he, hne, hl0, hl1, beq_iff_eq, bne_iff_ne, ne_eq, not_true_eq_false, not_false_eq_true, decide_true, decide_false,
        gt_iff_lt, ge_iff_le, List.length_eq_zero_iff, Option.bind_eq_bind, Option.bind_some, Option.pure_def, bind, pure, if_false, Bool.false_eq_true, Bool.not_not,
        Bool.not_true, Bool.not_false]
      -- the header search: one `find` per buffer name, the hits kept in name order, then sorted
      rw [forIn_filterMap (fun nm => findSub (traceHeaderStart ++ nm) b 0) ?_ _ []]
      · have hoff : sortNat (List.filterMap (fun nm => findSub (traceHeaderStart ++ nm) b 0)
            [[73, 73, 67, 83], [73, 73, 67, 77], [80, 79, 87, 82], [70, 65, 78, 83], [73, 78, 70, 79], [69, 82, 82, 76]]) = bufferOffsets b := by
          unfold bufferOffsets; rw [bufferNames_eq]
        simp only [Option.bind_some, List.nil_append, hoff]
        generalize bufferOffsets b = offs
        cases offs with
        | nil =>
          -- no trace buffer: everything is ILOG data
          simp [Py.enumerate, Py.enumFrom, ilogRegion, Py.slice, traceRegions, optAll]
          cases parseIlog tbl b <;> simp [formatIlogSection, s_ILOG, dividerLine_eq]
        | cons o r =>
          simp only [List.isEmpty_cons, Bool.not_false, Bool.not_true, Bool.not_not, Bool.false_eq_true, if_true, if_false,
            List.getElem?_cons_zero, Option.bind_some, List.length_cons, Nat.succ_pos, decide_true, gt_iff_lt, Nat.zero_lt_succ,
            Nat.add_one_ne_zero, beq_iff_eq, bne_iff_ne, ne_eq, not_false_eq_true, not_true_eq_false, decide_false, reduceCtorEq,
            Option.bind_eq_bind, Option.pure_def, bind, pure]
          have hil : Py.slice b 0 o = ilogRegion b (o :: r) := by simp [Py.slice, ilogRegion]
          rw [hil]
          cases parseIlog tbl (ilogRegion b (o :: r)) with
          | none => simp
          | some il =>
            simp only [Option.bind_some]
            rw [Py.enumerate, forIn_regions (b := b) (ss := ss) (offs := o :: r) ?_ (o :: r) 0 _ (formatIlogSection il) rfl ?_]
            · region_round b (o :: r)
            · simp [formatIlogSection, s_ILOG, dividerLine_eq]
      · intro nm acc
        simp only [traceHeaderStart_eq]
        generalize findSub _ b 0 = hit
        cases hit <;> rfl

/-! ### `parse_dump_file` -/

theorem parseDumpFile (g : List Text → List PteEntry → List TraceString → Option (List Text)) (h : Gen.parseDumpFile? = some g) :
    g = fun lines tbl ss => Pel.parseDumpFile tbl ss lines := by
  cases h
  all_goals
    funext lines tbl ss
    unfold Pel.parseDumpFile
    simp only [fmtBmc_lit, fmtPre_lit, List.forIn_cons, List.forIn_nil, Option.bind_eq_bind, Option.bind_some, Option.pure_def, bind, pure]
    generalize parseDump _ lines = d1
    generalize parseDump _ lines = d2
    cases d1 <;> cases d2 <;> simp <;> (try (cases Pel.parseDumpData tbl ss _ <;> simp))

/-! ### ★ theorems of C17 for the functions of the source text -/

/-- C17 ★`composition` for the `parse_dump_data` of the source text: the ILOG region and every trace region, each under its own
    heading, decoded as the stand-alone decoders decode those bytes -/
theorem composition (g : Bytes → List PteEntry → List TraceString → Option (List Text)) (h : Gen.parseDumpData? = some g)
    (tbl : List PteEntry) (ss : List TraceString) (b : Bytes) (hne : b ≠ []) :
    g b tbl ss =
      (match parseIlog tbl (ilogRegion b (bufferOffsets b)) with
       | none => none
       | some il => (optAll ((traceRegions b (bufferOffsets b)).map (parseTrace ss))).map fun ts =>
           ([s "ILOG", []] ++ il ++ [[], Pel.dividerLine, []]) ++
             (ts.map fun t => [s "Trace", []] ++ t ++ [[], Pel.dividerLine, []]).flatten) := by
  rw [parseDumpData g h]
  exact C17.composition tbl ss b hne

/-- C17 ★`file_equals_raw_bmc` for the two functions of the source text -/
theorem file_equals_raw_bmc (gf : List Text → List PteEntry → List TraceString → Option (List Text)) (hf : Gen.parseDumpFile? = some gf)
    (gd : Bytes → List PteEntry → List TraceString → Option (List Text)) (hd : Gen.parseDumpData? = some gd)
    (tbl : List PteEntry) (ss : List TraceString) (pad : Bool) (b : Bytes) (hb : ∀ x ∈ b, x < 256) (text : List Text)
    (htext : (text.map rstripNL).filter (fun t => !isNoise t) = renderBmc pad b) :
    gf text tbl ss = gd b tbl ss := by
  rw [parseDumpFile gf hf, parseDumpData gd hd]
  exact C17.file_equals_raw_bmc tbl ss pad b hb text htext

/-- the template walk that `parse_dump_file` relies on is the translated `parse` on both templates of the source text -/
theorem file_templates_paired (fs : List Text) (hfs : Gen.hexDumpLineFormats? = some fs) : ∀ f ∈ fs, pairedD f = true := by
  rw [hexDumpLineFormats fs hfs]
  intro f hf
  rcases List.mem_cons.mp hf with rfl | hf
  · exact C13.templates_paired.2.1
  · rcases List.mem_cons.mp hf with rfl | hf
    · exact C13.templates_paired.2.2
    · simp at hf

end Pel.Tie
