import PelProofs.FramesPel
import PelProofs.PelPropsAux
/-
  C05 — Malformed PELs are rejected cleanly: never a hang, crash or fabricated decode.
  (Termination: every function of the model is total – structural or fuelled recursion – so `parsePEL` returns
  one of the four outcomes for every byte string; the real code's exit status / traceback / timing is observed.)
-/
namespace Pel.C05

/-- ★ every proper prefix of a well-formed (selected) PEL is rejected with an error: nothing is decoded from
    missing bytes -/
theorem prefix_rejected (env : Env) (cfg : SelCfg) (p : APel) (hp : p.WF)
    (hsel : considerPEL p.uh.sev p.uh.af cfg = true) (d : J) (hr : render env p = .ok d)
    (hnames : (sectionName env.T sidPH :: sectionName env.T sidUH ::
        numberNames (p.sections.map (fun sec => sectionName env.T sec.body.id))
                    (p.sections.map (fun sec => sectionName env.T sec.body.id))).Nodup)
    (k : Nat) (hk : k < p.enc.length) :
    ∃ e, parsePEL env cfg (p.enc.take k) = .error e := by
  obtain ⟨e, he⟩ := (frames_pel env cfg p hp hsel d hr hnames).strict k hk
  exact ⟨e, by simp only [parsePEL, he]⟩

/-- the same at the level of one section: a section cut short is rejected -/
theorem section_prefix_rejected (env : Env) (creator : Text) (sec : ASection) (hs : sec.WF) (j : J)
    (hr : renderSection env creator sec = .ok j) (k : Nat) (hk : k < sec.enc.length) :
    ∃ e, decodeOne env creator (sec.enc.take k) = .error e :=
  (frames_section env creator sec hs j hr).strict k hk

/-- ★ reads never go past the end of the input: a successful read returns exactly the next `n` bytes and leaves
    exactly the rest -/
theorem reads_in_bounds (n : Nat) (st m r : Bytes) (h : getMem n st = .ok (m, r)) :
    st = m ++ r ∧ m.length = n ∧ 0 < n := by
  unfold getMem at h
  split at h
  · cases h
  · rename_i hn
    split at h
    · rename_i hle
      cases h
      exact ⟨(List.take_append_drop n st).symm, by simp [List.length_take]; omega, by omega⟩
    · cases h

/-- a read of more bytes than remain fails (it does not return a short slice) -/
theorem read_past_end_fails (n : Nat) (st : Bytes) (h : st.length < n) : ∃ e, getMem n st = .error e := by
  refine ⟨.range, ?_⟩
  unfold getMem
  rw [if_neg (by omega), if_neg (by omega)]

/-- ★ whatever the input, the decoder consumes a prefix of it: the bytes it has not consumed are a suffix of the
    input (no read ever addresses bytes outside the file) -/
theorem consumes_prefix (env : Env) (cfg : SelCfg) (b : Bytes) (o : Outcome) (rest : Bytes)
    (h : parsePELRd env cfg b = .ok (o, rest)) : ∃ used, b = used ++ rest :=
  Suffixing.parsePELRd env cfg b o rest h

/-- the command line maps every outcome to exit status 0 or 1: only a wrong first/second section id under
    `--file` exits with 1, every other outcome (document, filtered, caught exception) exits with 0 -/
def fileModeExit : Outcome → Nat
  | .badHeader => 1
  | _ => 0

theorem exit_status_0_or_1 (env : Env) (cfg : SelCfg) (b : Bytes) :
    fileModeExit (parsePEL env cfg b) = 0 ∨ fileModeExit (parsePEL env cfg b) = 1 := by
  cases parsePEL env cfg b <;> simp [fileModeExit]

end Pel.C05
