namespace Pel.C05
end Pel.C05
