import PelModel.Cli
import PelProofs.Cli
import PelProps.C07
import PelProofs.Top
/-
  C10 — Look-ups by platform log id, BMC id, entry id and SRC return exactly the matches.
-/
namespace Pel.C10

/-- ★ every spelling of a 32-bit id (eight hex digits in either case, with or without 0x / 0X) is normalised to the
    eight upper-case digits of that id -/
theorem processId_spellings (v : Nat) (hv : v < 2 ^ 32) :
    processId (hexFix 8 v) = some (hexFix 8 v) ∧ processId (hexFixL 8 v) = some (hexFix 8 v) ∧
    processId (s "0x" ++ hexFix 8 v) = some (hexFix 8 v) ∧ processId (s "0x" ++ hexFixL 8 v) = some (hexFix 8 v) ∧
    processId (s "0X" ++ hexFix 8 v) = some (hexFix 8 v) ∧ processId (s "0X" ++ hexFixL 8 v) = some (hexFix 8 v) := by
  have hl : (hexFix 8 v).length = 8 := hexFix_length 8 v
  have hnp : (s "0X").isPrefixOf (hexFix 8 v) = false := hexFix_no_0X 6 v
  refine ⟨?_, ?_, ?_, ?_, ?_, ?_⟩
  · exact processId_plain _ _ (map_upper_hexFix 8 v) hnp hl
  · exact processId_plain _ _ (map_upper_hexFixL 8 v) hnp hl
  · exact processId_0X _ _ (by rw [List.map_append, map_upper_0x, map_upper_hexFix]) hl
  · exact processId_0X _ _ (by rw [List.map_append, map_upper_0x, map_upper_hexFixL]) hl
  · exact processId_0X _ _ (by rw [List.map_append, map_upper_0X, map_upper_hexFix]) hl
  · exact processId_0X _ _ (by rw [List.map_append, map_upper_0X, map_upper_hexFixL]) hl

/-- ★ the comparison made by `--plid` is equality of the 32-bit ids (also for values below 0x10000000) -/
theorem plid_match_exact (v w : Nat) (hv : v < 2 ^ 32) (hw : w < 2 ^ 32) : (hexFix 8 v = fmtHex 8 w) ↔ v = w := by
  exact hexFix8_eq_fmtHex_iff v w hv hw

/-- the summaries selected by `--plid`: exactly the decodable files whose platform log id is `v`, in list order -/
def plidMatches (env : Env) (o : CliOpts) (v : Nat) (d : Dir) : List Summary :=
  (getFileList d o.ext o.rev).filterMap fun f =>
    match parseSummary env { o.cfg with lookup := true } f.data with
    | .summary sm plid _ => if plid = v then some sm else none
    | _ => none

/-- ★ `--plid X` lists exactly the PELs whose platform log id equals X -/
theorem plid_exact (env : Env) (o : CliOpts) (v : Nat) (hv : v < 2 ^ 32) (d : Dir) (x : Text)
    (hx : processId x = some (hexFix 8 v)) (hnohex : o.hex = false)
    (hplids : ∀ f ∈ d, ∀ sm plid src, parseSummary env { o.cfg with lookup := true } f.data = .summary sm plid src → plid < 2 ^ 32) :
    (plidMode env o x d).stdout = prettyPrint 29 (dumps (summaryObj (plidMatches env o v d))) ++ nl ∧
    (plidMode env o x d).exit = 0 := by
  have hpl : ∀ f ∈ getFileList d o.ext o.rev, ∀ sm plid src,
      parseSummary env { o.cfg with lookup := true } f.data = .summary sm plid src → plid < 2 ^ 32 :=
    fun f hf => hplids f (mem_getFileList hf)
  have key := plid_filter_eq env { o.cfg with lookup := true } v hv (getFileList d o.ext o.rev) hpl
  simp only [plidMode, hx, hnohex, Bool.false_eq_true, if_false]
  refine ⟨?_, trivial⟩
  exact congrArg (fun l => prettyPrint 29 (dumps (summaryObj l)) ++ nl) key

/-- ★ hidden and non-serviceable PELs are found by the look-ups without extra options: with no selection option the
    look-up configuration selects every PEL -/
theorem lookups_consider_all (sev af : Nat) : considerPEL sev af { ({} : SelCfg) with lookup := true } = true := by
  exact Pel.C07.lookup_considers_all sev af

/-- ★ `--id E`: a PEL is displayed only from a file whose name contains the processed id; none ⇒ "PEL not found" -/
theorem id_lookup (env : Env) (o : CliOpts) (e pid : Text) (d : Dir) (hp : processId e = some pid) :
    (∀ f ∈ d, isInfix pid f.name = false) → (idMode env o e d).stdout = s "PEL not found\n" := by
  intro h
  have hf : d.find? (fun f => isInfix pid f.name) = none := by
    rw [List.find?_eq_none]
    intro f hfd
    simp [h f hfd]
  rw [idMode_notfound hp hf]

theorem id_lookup_found (env : Env) (o : CliOpts) (e pid : Text) (d : Dir) (hp : processId e = some pid) (f : FileEntry)
    (hf : d.find? (fun f => isInfix pid f.name) = some f) :
    (idMode env o e d).stdout = (printOne env o { o.cfg with lookup := true } f).1 := by
  exact idMode_found hp hf

/-- ★ `--bmc-id N`: when no file has that BMC event log id the answer is "PEL not found" -/
theorem bmcid_not_found (env : Env) (o : CliOpts) (n : Text) (d : Dir)
    (h : ∀ f ∈ d, ∀ j ph rest, (do let h1 ← parseHeader; decodePH env.T h1) f.data = .ok ((j, ph), rest) → natDec ph.obmcLogID ≠ n) :
    (bmcIdMode env o n d).stdout = s "PEL not found\n" := by
  exact bmcIdGo_notfound env o n d 0 h

/-- decimal ids identify: two BMC ids with the same decimal text are equal -/
theorem bmcid_text_injective (a b : Nat) (h : natDec a = natDec b) : a = b := by
  exact natDec_inj a b h

/-- the summaries selected by `--src S` -/
def srcMatches (env : Env) (o : CliOpts) (needle : Text) (d : Dir) : List Summary :=
  (getFileList d o.ext o.rev).filterMap fun f =>
    match parseSummary env { o.cfg with lookup := true } f.data with
    | .summary sm _ (some rc) => if isInfix needle rc then some sm else none
    | _ => none

/-- ★ `--src S` lists exactly the PELs whose reference code contains S -/
theorem src_exact (env : Env) (o : CliOpts) (needle : Text) (d : Dir) (hn : needle ≠ []) (hl : needle.length ≤ 32)
    (hnohex : o.hex = false) :
    (srcMode env o (some needle) none d).stdout = prettyPrint 29 (dumps (summaryObj (srcMatches env o needle d))) ++ nl := by
  exact srcMode_stdout env o needle d hn hl hnohex

/-- `isInfix` is "occurs as a contiguous substring" -/
theorem isInfix_iff (needle hay : Text) : isInfix needle hay = true ↔ ∃ a b, hay = a ++ needle ++ b := by
  exact isInfix_iff_exists needle hay

/-! ### the WHOLE command: `runMain` = `dispatch` followed by the mode it names, on a `World` (model: PelModel/Top.lean) -/

/-- ★ a command line that reaches one of the five look-ups (`--id`, `--bmc-id`, `--plid`, `--src`, `--src-exclude`) WITHOUT any selection
    option considers hidden and non-serviceable PELs: the selection the look-up function receives is "look-up id stored, nothing else",
    under which `considerPEL` accepts every severity / action-flag word (`lookups_consider_all` through `main_lookup_flag`), and therefore the
    WHOLE command — stdout, diagnostics, exit status, world — is the same as with `-E` added, in every world and under every fault plan -/
theorem command_lookup_ignores_class (fault : Nat → Bool) (env : Env) (a : Args) (w : World)
    (hs : a.NoSelection) (hl : (dispatch (w.fsView a) a).1.isLookup = true) :
    (dispatch (w.fsView a) a).2.sel = { lookup := true } ∧
    (∀ sev af, considerPEL sev af (dispatch (w.fsView a) a).2.sel = true) ∧
    runMainF fault env { a with every := true } w = runMainF fault env a w := by
  have hlk : (dispatch (w.fsView a) a).2.sel.lookup = true := (Pel.C07.main_lookup_flag (w.fsView a) a).1.mpr (Or.inl hl)
  have hsel : (dispatch (w.fsView a) a).2.sel = { lookup := true } := by
    rw [(Pel.C07.main_lookup_flag (w.fsView a) a).2, hlk, Pel.C07.main_default_config _ a hs]
  refine ⟨hsel, fun sev af => by rw [hsel]; exact lookups_consider_all sev af, ?_⟩
  unfold runMainF
  have hfs : w.fsView { a with every := true } = w.fsView a := rfl
  simp only [hfs, dispatch_every]
  refine runAction_lookup_congr fault _ w _ _ _ hl rfl rfl rfl (fun sev af => ?_)
  simp only [hsel]
  rw [Pel.C07.every_selects_all sev af _ rfl]
  exact (lookups_consider_all sev af).symm

/-- the look-up is reached, e.g., by `--plid X` (non-empty) on a `-p` directory with none of `-f -j -i --bmc-id` given -/
theorem plid_reached (a : Args) (w : World) (p x : Text) (hf : tv a.file = none) (hp : tv a.path = some p) (hd : w.pathIsDir = true)
    (hj : a.json = false) (hi : tv a.pelID = none) (hb : tv a.bmcID = none) (hx : tv a.plid = some x) :
    (dispatch (w.fsView a) a).1 = .plidMode p x :=
  (chain_unique (.plid hf hp ((fsView_isDir_path hp).trans hd) hj hi hb hx)).1

/-! Non-vacuity: `-p /pels --plid 50000001` and `-p /pels --src-exclude /ex.txt` reach a look-up in `wDemo` and carry no selection option. -/
example : (dispatch (wDemo.fsView { path := some (s "/pels"), plid := some (s "50000001") })
      { path := some (s "/pels"), plid := some (s "50000001") }).1.isLookup = true ∧
    ({ path := some (s "/pels"), plid := some (s "50000001") } : Args).NoSelection := ⟨by decide, ⟨rfl, rfl, rfl, rfl, rfl, rfl, rfl⟩⟩
example : (dispatch (wDemo.fsView { path := some (s "/pels"), srcExclude := some (s "/ex.txt"), deleteAll := true })
      { path := some (s "/pels"), srcExclude := some (s "/ex.txt"), deleteAll := true }).1 = .srcExcludeMode (s "/pels") (s "/ex.txt") := by decide
example : (runMain envDemo { path := some (s "/pels"), plid := some (s "5000") } wDemo).exit = 1 ∧
    (runMain envDemo { path := some (s "/pels"), pelID := some (s "0x5EED0000") } wDemo).stdout = s "PEL not found\n" := by decide

-- with real PELs (`wPels`): `--plid 50000001` and `--id 50000002` find the HIDDEN PEL (platform log id 0x50000001, entry id 0x50000002)
-- although the plain `-l` does not show it
example : (runMain envDemo { path := some (s "/pels"), plid := some (s "0x50000001"), hex := true } wPels).stdout =
      linesOut (pelHexDisplay pelDemo) ++ linesOut (pelHexDisplay pelHiddenDemo) ∧
    (runMain envDemo { path := some (s "/pels"), pelID := some (s "50000002"), hex := true } wPels).stdout = linesOut (pelHexDisplay pelHiddenDemo) ∧
    (runMain envDemo { path := some (s "/pels"), list := true, hex := true } wPels).stdout = linesOut (pelHexDisplay pelDemo) := by
  decide +kernel

end Pel.C10
