namespace Pel.C10
end Pel.C10
