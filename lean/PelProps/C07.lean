import PelProofs.Select
import PelGen.Live
/-
  C07 — PEL selection follows the documented class, severity and only-rules.
-/
namespace Pel.C07

/-! Pins: the constants the live code uses are the ones in the rule. -/
theorem pin_hidden : ∀ v ∈ Live.hiddenActionFlag, v = 0x4000 := by decide
theorem pin_report : ∀ v ∈ Live.reportFlag, v = 0x2000 := by decide
theorem pin_service_action : ∀ v ∈ Live.serviceActionFlag, v = 0x8000 := by decide
theorem pin_info_severity : ∀ v ∈ Live.infoSeverity, v = 0x00 := by decide
theorem pin_term_severity : ∀ v ∈ Live.critSysTermSeverity, v = 0x51 := by decide
/-- the seven `-S` choices and their group digits -/
theorem pin_severity_groups : ∀ v ∈ Live.severityGroupValues, v =
    [(s "Informational", 0), (s "Recovered", 1), (s "Predictive", 2), (s "Unrecoverable", 4),
     (s "Critical", 5), (s "Diagnostic", 6), (s "Symptom", 7)] := by decide

/-- ★ the early-return chain of `considerPEL` is the documented rule: for every severity byte, every
    action-flag word, every combination of the six switches and every list of chosen groups
    (any order, duplicates allowed), when no look-up id is set -/
theorem considerPEL_eq_spec (sev af : Nat) (c : SelCfg) (hl : c.lookup = false) :
    considerPEL sev af c = selected sev af c := by
  obtain ⟨every, term, sv, ns, hd, only, sevs, lookup⟩ := c
  simp only at hl; subst hl
  unfold considerPEL selected specInChosenClass anyClass
  simp only [isHidden_eq, isServiceable_eq, sevMatches_eq, specInGroup, critSysTermSeverity]
  generalize specServiceable sev af = s
  generalize specHidden af = h
  generalize (sev == 0x51) = t
  cases sevs with
  | nil =>
    simp only [List.isEmpty_nil, List.contains_nil]
    cases every <;> cases term <;> cases sv <;> cases ns <;> cases hd <;> cases only <;>
      cases s <;> cases h <;> cases t <;> rfl
  | cons g gs =>
    generalize (g :: gs).contains (sev / 16) = m
    simp only [List.isEmpty_cons]
    cases every <;> cases term <;> cases sv <;> cases ns <;> cases hd <;> cases only <;>
      cases s <;> cases h <;> cases t <;> cases m <;> rfl

/-- ★ an id / SRC look-up with no selection option considers every PEL, hidden and non-serviceable included -/
theorem lookup_considers_all (sev af : Nat) :
    considerPEL sev af { lookup := true } = true := by
  unfold considerPEL
  simp only [isHidden_eq, isServiceable_eq]
  generalize specServiceable sev af = s
  generalize specHidden af = h
  cases s <;> cases h <;> rfl

/-- with no option exactly the serviceable, customer-viewable PELs are selected -/
theorem default_is_serviceable_visible (sev af : Nat) :
    considerPEL sev af {} = (specServiceable sev af && !specHidden af) := by
  rw [considerPEL_eq_spec _ _ _ rfl]
  simp [selected, specInChosenClass, specInGroup]

theorem every_selects_all (sev af : Nat) (c : SelCfg) (h : c.every = true) : considerPEL sev af c = true := by
  unfold considerPEL; simp [h]

/-- without `--only`, turning on any class switch, `--termination` or adding severity groups never removes a PEL -/
theorem monotone_without_only (sev af : Nat) (c d : SelCfg)
    (hc : c.only = false) (hd : d.only = false) (hcl : c.lookup = false) (hdl : d.lookup = false)
    (h1 : c.every = true → d.every = true) (h2 : c.term = true → d.term = true)
    (h3 : c.serviceable = true → d.serviceable = true) (h4 : c.nonServiceable = true → d.nonServiceable = true)
    (h5 : c.hidden = true → d.hidden = true) (h6 : ∀ g ∈ c.severities, g ∈ d.severities)
    (hsel : considerPEL sev af c = true) : considerPEL sev af d = true := by
  rw [considerPEL_eq_spec _ _ _ hcl] at hsel
  rw [considerPEL_eq_spec _ _ _ hdl]
  have hg : c.severities.contains (sev / 16) = true → d.severities.contains (sev / 16) = true := by
    intro h; simp only [List.contains_iff_mem] at *; exact h6 _ h
  unfold selected specInChosenClass specInGroup at *
  simp only [hc, hd, Bool.not_false, if_true] at *
  generalize specServiceable sev af = s at *
  generalize specHidden af = h at *
  generalize (sev == 0x51) = t at *
  generalize c.severities.contains (sev / 16) = m1 at *
  generalize d.severities.contains (sev / 16) = m2 at *
  cases hde : d.every with
  | true => simp
  | false =>
    have hce : c.every = false := by
      cases hx : c.every with
      | false => rfl
      | true => rw [h1 hx] at hde; exact absurd hde (by decide)
    simp only [hce, Bool.false_eq_true, if_false, Bool.or_eq_true, Bool.and_eq_true] at hsel ⊢
    rcases hsel with ((hx | ⟨hx, ht⟩) | ((⟨hx, hs⟩ | ⟨hx, hs⟩) | ⟨hx, hs⟩)) | hx
    · exact Or.inl (Or.inl (Or.inl hx))
    · exact Or.inl (Or.inl (Or.inr ⟨h2 hx, ht⟩))
    · exact Or.inl (Or.inr (Or.inl (Or.inl ⟨h3 hx, hs⟩)))
    · exact Or.inl (Or.inr (Or.inl (Or.inr ⟨h4 hx, hs⟩)))
    · exact Or.inl (Or.inr (Or.inr ⟨h5 hx, hs⟩))
    · exact Or.inr (hg hx)

/-- group membership is "the high hex digit of the severity byte is the group's digit" -/
theorem group_is_high_digit (sev : Nat) (hs : sev < 256) (groups : List Nat) :
    specInGroup sev groups = groups.contains (hexVal ((hexFix 2 sev)[0]'(by simp))) := by
  have : hexVal ((hexFix 2 sev)[0]'(by simp)) = sev / 16 := by
    simp [hexFix, hexVal_hexU]; omega
  rw [this]; rfl

/-! Non-vacuity / documentation of the repaired defect: with the string-prefix test of the pre-fix code,
    severity 0x04 would have been in group 4; with the rule it is in group 0 only. -/
example : specInGroup 0x04 [4] = false ∧ specInGroup 0x04 [0] = true ∧ specInGroup 0x4F [4] = true := by decide
example : considerPEL 0x40 0xA000 {} = true ∧ considerPEL 0x40 0x6000 {} = false ∧
    considerPEL 0x40 0x6000 { hidden := true } = true ∧
    considerPEL 0x40 0xA000 { only := true, severities := [5] } = false ∧
    considerPEL 0x51 0x4000 { only := true, term := true } = true := by decide

end Pel.C07
