import PelProofs.Select
import PelProofs.Main
import PelProofs.Top
import PelGen.Live
/-
  C07 — PEL selection follows the documented class, severity and only-rules.
-/
namespace Pel.C07

/-! Pins: the constants the live code uses are the ones in the rule. -/
theorem pin_hidden : ∀ v ∈ Live.hiddenActionFlag, v = 0x4000 := by decide
theorem pin_report : ∀ v ∈ Live.reportFlag, v = 0x2000 := by decide
theorem pin_service_action : ∀ v ∈ Live.serviceActionFlag, v = 0x8000 := by decide
theorem pin_info_severity : ∀ v ∈ Live.infoSeverity, v = 0x00 := by decide
theorem pin_term_severity : ∀ v ∈ Live.critSysTermSeverity, v = 0x51 := by decide
/-- the seven `-S` choices and their group digits -/
theorem pin_severity_groups : ∀ v ∈ Live.severityGroupValues, v =
    [(s "Informational", 0), (s "Recovered", 1), (s "Predictive", 2), (s "Unrecoverable", 4),
     (s "Critical", 5), (s "Diagnostic", 6), (s "Symptom", 7)] := by decide

/-- ★ the early-return chain of `considerPEL` is the documented rule: for every severity byte, every
    action-flag word, every combination of the six switches and every list of chosen groups
    (any order, duplicates allowed), when no look-up id is set -/
theorem considerPEL_eq_spec (sev af : Nat) (c : SelCfg) (hl : c.lookup = false) :
    considerPEL sev af c = selected sev af c := by
  obtain ⟨every, term, sv, ns, hd, only, sevs, lookup⟩ := c
  simp only at hl; subst hl
  unfold considerPEL selected specInChosenClass anyClass
  simp only [isHidden_eq, isServiceable_eq, sevMatches_eq, specInGroup, critSysTermSeverity]
  generalize specServiceable sev af = s
  generalize specHidden af = h
  generalize (sev == 0x51) = t
  cases sevs with
  | nil =>
    simp only [List.isEmpty_nil, List.contains_nil]
    cases every <;> cases term <;> cases sv <;> cases ns <;> cases hd <;> cases only <;>
      cases s <;> cases h <;> cases t <;> rfl
  | cons g gs =>
    generalize (g :: gs).contains (sev / 16) = m
    simp only [List.isEmpty_cons]
    cases every <;> cases term <;> cases sv <;> cases ns <;> cases hd <;> cases only <;>
      cases s <;> cases h <;> cases t <;> cases m <;> rfl

/-- ★ an id / SRC look-up with no selection option considers every PEL, hidden and non-serviceable included -/
theorem lookup_considers_all (sev af : Nat) :
    considerPEL sev af { lookup := true } = true := by
  unfold considerPEL
  simp only [isHidden_eq, isServiceable_eq]
  generalize specServiceable sev af = s
  generalize specHidden af = h
  cases s <;> cases h <;> rfl

/-- with no option exactly the serviceable, customer-viewable PELs are selected -/
theorem default_is_serviceable_visible (sev af : Nat) :
    considerPEL sev af {} = (specServiceable sev af && !specHidden af) := by
  rw [considerPEL_eq_spec _ _ _ rfl]
  simp [selected, specInChosenClass, specInGroup]

theorem every_selects_all (sev af : Nat) (c : SelCfg) (h : c.every = true) : considerPEL sev af c = true := by
  unfold considerPEL; simp [h]

/-- without `--only`, turning on any class switch, `--termination` or adding severity groups never removes a PEL -/
theorem monotone_without_only (sev af : Nat) (c d : SelCfg)
    (hc : c.only = false) (hd : d.only = false) (hcl : c.lookup = false) (hdl : d.lookup = false)
    (h1 : c.every = true → d.every = true) (h2 : c.term = true → d.term = true)
    (h3 : c.serviceable = true → d.serviceable = true) (h4 : c.nonServiceable = true → d.nonServiceable = true)
    (h5 : c.hidden = true → d.hidden = true) (h6 : ∀ g ∈ c.severities, g ∈ d.severities)
    (hsel : considerPEL sev af c = true) : considerPEL sev af d = true := by
  rw [considerPEL_eq_spec _ _ _ hcl] at hsel
  rw [considerPEL_eq_spec _ _ _ hdl]
  have hg : c.severities.contains (sev / 16) = true → d.severities.contains (sev / 16) = true := by
    intro h; simp only [List.contains_iff_mem] at *; exact h6 _ h
  unfold selected specInChosenClass specInGroup at *
  simp only [hc, hd, Bool.not_false, if_true] at *
  generalize specServiceable sev af = s at *
  generalize specHidden af = h at *
  generalize (sev == 0x51) = t at *
  generalize c.severities.contains (sev / 16) = m1 at *
  generalize d.severities.contains (sev / 16) = m2 at *
  cases hde : d.every with
  | true => simp
  | false =>
    have hce : c.every = false := by
      cases hx : c.every with
      | false => rfl
      | true => rw [h1 hx] at hde; exact absurd hde (by decide)
    simp only [hce, Bool.false_eq_true, if_false, Bool.or_eq_true, Bool.and_eq_true] at hsel ⊢
    rcases hsel with ((hx | ⟨hx, ht⟩) | ((⟨hx, hs⟩ | ⟨hx, hs⟩) | ⟨hx, hs⟩)) | hx
    · exact Or.inl (Or.inl (Or.inl hx))
    · exact Or.inl (Or.inl (Or.inr ⟨h2 hx, ht⟩))
    · exact Or.inl (Or.inr (Or.inl (Or.inl ⟨h3 hx, hs⟩)))
    · exact Or.inl (Or.inr (Or.inl (Or.inr ⟨h4 hx, hs⟩)))
    · exact Or.inl (Or.inr (Or.inr ⟨h5 hx, hs⟩))
    · exact Or.inr (hg hx)

/-- group membership is "the high hex digit of the severity byte is the group's digit" -/
theorem group_is_high_digit (sev : Nat) (hs : sev < 256) (groups : List Nat) :
    specInGroup sev groups = groups.contains (hexVal ((hexFix 2 sev)[0]'(by simp))) := by
  have : hexVal ((hexFix 2 sev)[0]'(by simp)) = sev / 16 := by
    simp [hexFix, hexVal_hexU]; omega
  rw [this]; rfl

/-! Non-vacuity / documentation of the repaired defect: with the string-prefix test of the pre-fix code,
    severity 0x04 would have been in group 4; with the rule it is in group 0 only. -/
example : specInGroup 0x04 [4] = false ∧ specInGroup 0x04 [0] = true ∧ specInGroup 0x4F [4] = true := by decide
example : considerPEL 0x40 0xA000 {} = true ∧ considerPEL 0x40 0x6000 {} = false ∧
    considerPEL 0x40 0x6000 { hidden := true } = true ∧
    considerPEL 0x40 0xA000 { only := true, severities := [5] } = false ∧
    considerPEL 0x51 0x4000 { only := true, term := true } = true := by decide

/-! ### `main()`: from the command line to the `Config` that `considerPEL` receives (model: PelModel/Main.lean) -/

/-- the table `mkConfig` is applied to in `dispatch` is the live `severityGroupValues` (names, order, digits) -/
theorem pin_main_severity_table : ∀ v ∈ Live.severityGroupValues, v = severityGroupTable := by decide

/-- ★ the block of `if args.x: config.x = …` statements sets every selection member of the `Config` to exactly the corresponding
    switch; `-S` names are translated through the table in the order given, duplicates kept; no look-up id is set there; and the
    non-selection members are `-P`, `-x`, `-r` and a non-empty `-e` -/
theorem main_config_switches (t : List (Text × Nat)) (a : Args) :
    (mkConfig t a).sel.every = a.every ∧ (mkConfig t a).sel.term = a.term ∧
    (mkConfig t a).sel.serviceable = a.serviceable ∧ (mkConfig t a).sel.nonServiceable = a.nonServiceable ∧
    (mkConfig t a).sel.hidden = a.hidden ∧ (mkConfig t a).sel.only = a.only ∧
    (mkConfig t a).sel.severities = a.severities.filterMap (sevLookup t) ∧
    (mkConfig t a).sel.lookup = false ∧
    (mkConfig t a).allowPlugins = (!a.skipPlugins) ∧ (mkConfig t a).hex = a.hex ∧ (mkConfig t a).rev = a.reverse ∧
    (mkConfig t a).ext = tv a.extension := by
  rw [mkConfig_eq]
  exact ⟨rfl, rfl, rfl, rfl, rfl, rfl, rfl, rfl, rfl, rfl, rfl, rfl⟩

/-- argparse only admits names that are keys of the table (`choices`): then no name is dropped, position by position -/
theorem main_severities_all_translated (t : List (Text × Nat)) (a : Args)
    (h : ∀ n ∈ a.severities, ∃ g, sevLookup t n = some g) :
    (mkConfig t a).sel.severities.map some = a.severities.map (sevLookup t) := by
  rw [(main_config_switches t a).2.2.2.2.2.2.1]
  generalize a.severities = l at h
  induction l with
  | nil => rfl
  | cons n ns ih =>
    obtain ⟨g, hg⟩ := h n (List.mem_cons_self ..)
    rw [List.filterMap_cons, hg, List.map_cons, List.map_cons, hg, ih (fun m hm => h m (List.mem_cons_of_mem _ hm))]

/-- with no selection option on the command line the selection part of the `Config` is the default one … -/
theorem main_default_config (t : List (Text × Nat)) (a : Args)
    (h : a.every = false ∧ a.term = false ∧ a.serviceable = false ∧ a.nonServiceable = false ∧ a.hidden = false ∧
         a.only = false ∧ a.severities = []) :
    (mkConfig t a).sel = {} := by
  obtain ⟨h1, h2, h3, h4, h5, h6, h7⟩ := h
  rw [mkConfig_eq]
  simp [h1, h2, h3, h4, h5, h6, h7]

/-- ★ `config.pelID / bmcID / plid / src / srcExcludeFile` is set exactly in the five look-up branches (and in the `--src-exclude`
    branch the assignment precedes the file test, so it is also set when `main` exits there); everything else in the `Config` is
    what `mkConfig` computed -/
theorem main_lookup_flag (fs : FsView) (a : Args) :
    ((dispatch fs a).2.sel.lookup = true ↔
      ((dispatch fs a).1.isLookup = true ∨ ∃ f, (dispatch fs a).1 = .exitMsg (.noExcludeFile f))) ∧
    (dispatch fs a).2 = { mkConfig severityGroupTable a with
                          sel := { (mkConfig severityGroupTable a).sel with lookup := (dispatch fs a).2.sel.lookup } } := by
  constructor
  · have h := dispatch_chain fs a
    generalize (dispatch fs a).1 = act at h
    generalize (dispatch fs a).2.sel.lookup = lk at h
    cases h <;> simp [Action.isLookup]
  · rcases dispatch_cfg fs a with h | h
    · rw [h, mkConfig_lookup]
      have := mkConfig_lookup severityGroupTable a
      generalize mkConfig severityGroupTable a = c at this ⊢
      obtain ⟨⟨_, _, _, _, _, _, _, _⟩, _, _, _, _⟩ := c
      simp only at this; subst this; rfl
    · rw [h]; rfl

/-- whenever `main` actually calls a function, the look-up flag is set iff that function is one of the five look-ups -/
theorem main_lookup_flag_called (fs : FsView) (a : Args) (h : ∀ m, (dispatch fs a).1 ≠ .exitMsg m) :
    (dispatch fs a).2.sel.lookup = true ↔ (dispatch fs a).1.isLookup = true := by
  rw [(main_lookup_flag fs a).1]
  constructor
  · rintro (h1 | ⟨f, hf⟩)
    · exact h1
    · exact absurd hf (h _)
  · exact Or.inl

/-- … so for the plain command line (`-l`, `-n`, `-a`, `-j`, `-f` with no selection option) exactly the serviceable,
    customer-viewable PELs are selected: `default_is_serviceable_visible` applies to what `main` passes on -/
theorem main_plain_command_line (fs : FsView) (a : Args) (sev af : Nat)
    (h : a.every = false ∧ a.term = false ∧ a.serviceable = false ∧ a.nonServiceable = false ∧ a.hidden = false ∧
         a.only = false ∧ a.severities = [])
    (hl : (dispatch fs a).1.isLookup = false) (hx : ∀ f, (dispatch fs a).1 ≠ .exitMsg (.noExcludeFile f)) :
    considerPEL sev af (dispatch fs a).2.sel = (specServiceable sev af && !specHidden af) := by
  have hlk : (dispatch fs a).2.sel.lookup = false := by
    cases hb : (dispatch fs a).2.sel.lookup with
    | false => rfl
    | true =>
      rcases (main_lookup_flag fs a).1.mp hb with h1 | ⟨f, hf⟩
      · rw [hl] at h1; exact absurd h1 (by decide)
      · exact absurd hf (hx f)
  rw [(main_lookup_flag fs a).2, hlk, main_default_config _ a h]
  exact default_is_serviceable_visible sev af

/-- … and a look-up given without selection options considers every PEL (`lookup_considers_all` applies) -/
theorem main_lookup_command_line (fs : FsView) (a : Args) (sev af : Nat)
    (h : a.every = false ∧ a.term = false ∧ a.serviceable = false ∧ a.nonServiceable = false ∧ a.hidden = false ∧
         a.only = false ∧ a.severities = [])
    (hl : (dispatch fs a).1.isLookup = true) :
    considerPEL sev af (dispatch fs a).2.sel = true := by
  have hlk : (dispatch fs a).2.sel.lookup = true := (main_lookup_flag fs a).1.mpr (Or.inl hl)
  rw [(main_lookup_flag fs a).2, hlk, main_default_config _ a h]
  exact lookup_considers_all sev af

/-! Non-vacuity: `-p /pels -l -O -S Critical Informational Critical -r -e .pel`, and `-p /pels --plid 50000001 -H`. -/
example : mkConfig severityGroupTable { only := true, severities := [s "Critical", s "Informational", s "Critical"],
                                        reverse := true, extension := some (s ".pel"), skipPlugins := true } =
    { sel := { only := true, severities := [5, 0, 5] }, rev := true, ext := some (s ".pel"), allowPlugins := false } := by decide
example : mkConfig severityGroupTable { extension := some [] } = {} := by decide
example : dispatch { isDir := fun _ => true, isFile := fun _ => true } { path := some (s "/pels"), plid := some (s "50000001"), hidden := true } =
    (.plidMode (s "/pels") (s "50000001"), { sel := { hidden := true, lookup := true } }) := by decide
example : (dispatch { isDir := fun _ => true, isFile := fun _ => true } { path := some (s "/pels"), file := some (s "x"), plid := some (s "50000001") }).2.sel.lookup
    = false := by decide

/-! ### the WHOLE command: `runMain` = `dispatch` followed by the mode it names, on a `World` (model: PelModel/Top.lean) -/

/-- ★ `peltool -p DIR -l …` as a whole (no option of higher priority, `DIR` a directory) IS `listOption` run on the top-level files of `DIR`
    with the `Config` built from the command line — in every world, whatever the files contain — and the selection that `Config` carries is:
    with NO selection option exactly the serviceable, customer-viewable PELs (`default_is_serviceable_visible` through `mkConfig`);
    with `-E` every PEL (`every_selects_all` through `mkConfig`).  (`C08.command_default_selection_lists` spells the listed set out for a
    directory of well-formed PELs.) -/
theorem command_default_selection (env : Env) (a : Args) (w : World) (p : Text)
    (hh : a.NoHigherMode) (hp : tv a.path = some p) (hd : w.pathIsDir = true) (hl : a.list = true) :
    runMain env a w =
      ofCli w (listMode (env.withCfg (mkConfig severityGroupTable a)) (mkConfig severityGroupTable a).opts w.dir) ∧
    (a.NoSelection →
      (mkConfig severityGroupTable a).opts.cfg = {} ∧
      ∀ sev af, considerPEL sev af (mkConfig severityGroupTable a).opts.cfg = (specServiceable sev af && !specHidden af)) ∧
    (a.every = true → ∀ sev af, considerPEL sev af (mkConfig severityGroupTable a).opts.cfg = true) := by
  refine ⟨?_, ?_, ?_⟩
  · rw [runMain_of_chain (chain_list hh hp hd hl)]
    rfl
  · intro hs
    have hc : (mkConfig severityGroupTable a).opts.cfg = {} := main_default_config _ a hs
    refine ⟨hc, fun sev af => ?_⟩
    rw [hc]
    exact default_is_serviceable_visible sev af
  · intro he sev af
    exact every_selects_all sev af _ ((main_config_switches severityGroupTable a).1.trans he)

/-! Non-vacuity: `-p /pels -l` and `-p /pels -l -E` in `wDemo`. -/
example : ({ path := some (s "/pels"), list := true } : Args).NoHigherMode ∧ ({ path := some (s "/pels"), list := true } : Args).NoSelection ∧
    wDemo.pathIsDir = true := ⟨⟨rfl, rfl, rfl, rfl, rfl, rfl, rfl⟩, ⟨rfl, rfl, rfl, rfl, rfl, rfl, rfl⟩, rfl⟩
example : (runMain envDemo { path := some (s "/pels"), list := true } wDemo).stdout = s "{}\n" ∧
    (runMain envDemo { path := some (s "/pels"), list := true, every := true } wDemo).exit = 0 := by decide

-- with real PELs (`wPels`): the plain `-l` shows the serviceable, customer-viewable PEL only; `-l -E` and `-l -H` show the hidden one too
example : (runMain envDemo { path := some (s "/pels"), list := true, hex := true } wPels).stdout = linesOut (pelHexDisplay pelDemo) ∧
    (runMain envDemo { path := some (s "/pels"), list := true, hex := true, every := true } wPels).stdout =
      linesOut (pelHexDisplay pelDemo) ++ linesOut (pelHexDisplay pelHiddenDemo) ∧
    (runMain envDemo { path := some (s "/pels"), list := true, hex := true, hidden := true } wPels).stdout =
      linesOut (pelHexDisplay pelDemo) ++ linesOut (pelHexDisplay pelHiddenDemo) := by decide +kernel

end Pel.C07
