import PelGen.GenUserData
import PelProofs.TieUserData
import PelProps.C04
set_option linter.unusedSimpArgs false
/-
  Source tie for C04 (user-data sections).  `PelGen/GenUserData.lean` is regenerated on every run by harness/trans_userdata.py from the
  CURRENT text of user_data.py, ext_user_data.py and parse_user_data.py (`none` = the function left the translatable subset).

  * `udDecodeUD` / `udDecodeED`: the section decoders (`__init__` + `toJSON`) regenerated from the source ARE `decodeUD` / `decodeED`
    (which bytes are the payload, the creator byte of an ED section, `json.loads` with the dump of the text as fall-back, the merge into
    the three header members).  They call `parseUserData` by name; that name map is what the next theorems justify.
  * `udBuiltin`: `getBuiltinFormatJSON` regenerated from the source IS `builtinFormat` (sub-type constants, strip rules, the character loop).
  * `udParseCustom`, `udParse`: `parseCustom` / `parse` regenerated from the source, run in the exception-and-state monad with the module
    table keyed by full module names, give exactly `parseUserData` of the model for the behaviours that `udLookup` (PelModel/Plugins.lean,
    the model's rule for `userDataParsers`) hands on, and leave exactly the table `udLookup` says.  Hypotheses (both hold wherever the
    code can be reached): the payload is not empty (`get_mem(0)` raises; for an empty payload `parseCustom` returns `json.dumps("")`, which
    the model does not describe) and a module object in the table is a module (`CacheModulesOk`, proved of every reachable table by
    `C19.cache_contents`).  `udParse_fresh` is the statement for a fresh process: the `UdEnv` itself.
-/
namespace Pel.Tie

/-- after the reads both sides continue with the same `parseUserData` value: compare per kind of value -/
macro "ud_tail" : tactic => `(tactic| (
  repeat (refine bind_congr (fun _ => ?_))
  try dsimp only
  generalize parseUserData _ _ _ _ _ _ _ _ = v
  cases v with
  | fail e => rfl
  | json j => cases j <;> rfl
  | text t =>
    simp only [udRaise, PyStr.loadsOr, udToJson, pure_bind]
    cases loads t with
    | ok j => cases j <;> first | rfl | simp [hexdumpJ, hexdump16]
    | bad => first | rfl | simp [hexdumpJ, hexdump16]
    | unsupported => rfl))

theorem udDecodeUD (g) (h : Pel.Gen.decodeUD? = some g) : g = Pel.decodeUD := by
  cases h <;> first
  | rfl
  | (funext T env allow h creator; unfold Pel.decodeUD; ud_tail)
  | (funext T env allow h creator; unfold Pel.decodeUD; rd_norm; ud_tail)
theorem udDecodeED (g) (h : Pel.Gen.decodeED? = some g) : g = Pel.decodeED := by
  cases h <;> first
  | rfl
  | (funext T env allow h; unfold Pel.decodeED; ud_tail)
  | (funext T env allow h; unfold Pel.decodeED; rd_norm; ud_tail)

/-- `userDataParsers` starts empty -/
theorem udCacheInit (g) (h : Pel.Gen.udCacheInit? = some g) : g = [] := by
  cases h <;> rfl

/-- ★ `getBuiltinFormatJSON` regenerated from parse_user_data.py IS `builtinFormat` (it never touches the module table) -/
theorem udBuiltin (g) (h : Pel.Gen.udBuiltin? = some g) (creator : Text) (comp sub ver : Nat) (data : Bytes) (c : Cache UdPlugin) :
    UdValue.ofPy (g creator comp sub ver data c).1 = builtinFormat sub data ∧ (g creator comp sub ver data c).2 = c := by
  cases h <;> (
  unfold builtinFormat builtinText
  simp only [bind, pure, pyDecode]
  by_cases h1 : sub = 1
  · simp only [h1, if_true]
    cases utf8Decode data <;> simp [UdValue.ofPy]
  · by_cases h2 : sub = 2
    · have h3 : ¬ sub = 3 := by omega
      simp [h1, h2, h3, UdValue.ofPy, hexdumpJ, hexdump16]
    · by_cases h3 : sub = 3
      · simp only [h1, h2, h3, if_true, if_false]
        cases utf8Decode data with
        | none => simp [UdValue.ofPy]
        | some t =>
          simp only [PyM.pure_bind', PyM.pure_run, UdValue.ofPy]
          rw [textLoop_eq _ (by intro p c; by_cases hc : c = 10 <;> simp [hc])]
          simp
      · simp [h1, h2, h3, UdValue.ofPy, hexdumpJ, hexdump16])

/-- ★ `parseCustom` regenerated from parse_user_data.py: result and module table are what `udLookup` + the model say -/
theorem udParseCustom (g) (h : Pel.Gen.udParseCustom? = some g) (penv : ProcEnv) (c : Cache UdPlugin) (creator : Text) (comp sub ver : Nat)
    (data : Bytes) (hne : data ≠ []) (hc : CacheModulesOk c) :
    g penv.ud creator comp sub ver data (fullKeys c) =
      (customOutcome (udLookup penv c (udModuleName creator comp)).1 creator comp sub ver data,
       fullKeys (udLookup penv c (udModuleName creator comp)).2) := by
  cases h <;> (
  simp only [List.append_assoc, udKey_norm]
  have hc' := hc (udModuleName creator comp)
  generalize udModuleName creator comp = n at hc' ⊢
  unfold udLookup
  simp only [bind, pure, PyM.bind_run, pyTry_run, cacheHas_full, cacheLoad_full, cacheStore_full, udImport_full]
  rcases hg : cacheGet c n with _ | _ | b
  · cases he : penv.ud n <;>
      simp [hg, he, hne, PyM.bind_run, pyTry_run, cacheStore_full, udImport_full, udCall, customOutcome, PyExc.isImportError, PyExc.isException,
        hexdumpJ, hexdump16, errorWithData, failedNote, s]
  · simp [hg, hne, PyM.bind_run, pyTry_run, cacheLoad_full, customOutcome, hexdumpJ, hexdump16]
  · obtain ⟨h1, h2⟩ := hc' b hg
    cases b <;>
      simp [hg, hne, PyM.bind_run, pyTry_run, cacheLoad_full, udCall, customOutcome, PyExc.isException, hexdumpJ, hexdump16, errorWithData,
        failedNote, s] at h1 h2 ⊢)

/-- ★ `parse` (with `getBuiltinFormatJSON` and `parseCustom` inlined) regenerated from parse_user_data.py IS `parseUserData` of the model
    for the behaviours seen through the module table, and leaves the table `udLookup` says (untouched unless `parseCustom` ran) -/
theorem udParse (g) (h : Pel.Gen.udParse? = some g) (T : Tables) (penv : ProcEnv) (c : Cache UdPlugin) (allow : Bool) (creator : Text)
    (comp sub ver : Nat) (data : Bytes) (hne : data ≠ []) (hc : CacheModulesOk c) :
    UdValue.ofPy (g T penv.ud allow creator comp sub ver data (fullKeys c)).1 =
        parseUserData T (fun n => (udLookup penv c n).1) allow creator comp sub ver data ∧
      (g T penv.ud allow creator comp sub ver data (fullKeys c)).2 =
        fullKeys (if (lookupT T.creators creator = some (s "BMC") ∧ comp = 0x2000) ∨ allow = false then c
                  else (udLookup penv c (udModuleName creator comp)).2) := by
  -- the two methods `parse` calls are inlined in the generated term: the same text as the two generated definitions tied above
  cases h <;> (
  have hb := fun g' (h' : Pel.Gen.udBuiltin? = some g') => udBuiltin g' h' creator comp sub ver data (fullKeys c)
  have hcu := fun g' (h' : Pel.Gen.udParseCustom? = some g') => udParseCustom g' h' penv c creator comp sub ver data hne hc
  replace hb := hb _ rfl
  replace hcu := hcu _ rfl
  unfold parseUserData
  by_cases hA : lookupT T.creators creator = some (s "BMC") ∧ comp = 8192
  · simp only [hA, and_self, if_true, true_or]
    first | exact hb | (rw [PyM.bind_pure_run]; exact hb)
  · cases allow with
    | false =>
      simp [hA, hne, UdValue.ofPy, hexdumpJ, hexdump16, pure, PyM.pure_run]
    | true =>
      simp only [hA, if_false, if_true, false_or, Bool.true_eq_false, Bool.not_true, Bool.false_eq_true]
      rw [PyM.bind_run', hcu]
      generalize udLookup penv c (udModuleName creator comp) = r
      cases r.1 <;> simp [customOutcome, UdValue.ofPy, pure, PyM.pure_run, errorWithData, failedNote, hne, hexdumpJ, hexdump16, s])

/-- ★ in a fresh process (empty module table) `parse` regenerated from the source IS `parseUserData` for the environment itself -/
theorem udParse_fresh (g) (h : Pel.Gen.udParse? = some g) (gc) (hgc : Pel.Gen.udCacheInit? = some gc) (T : Tables) (penv : ProcEnv)
    (allow : Bool) (creator : Text) (comp sub ver : Nat) (data : Bytes) (hne : data ≠ []) :
    UdValue.ofPy (g T penv.ud allow creator comp sub ver data gc).1 = parseUserData T penv.ud allow creator comp sub ver data := by
  cases udCacheInit gc hgc
  have := (udParse g h T penv [] allow creator comp sub ver data hne cacheModulesOk_nil).1
  simp only [udLookup_nil_fst] at this
  exact this

/-- the model's section decoder on a well-framed payload is `C04.shown` of that payload: what every ★ theorem of C04 is about -/
theorem decodeUD_shown (T : Tables) (env : UdEnv) (allow : Bool) (h : SecHdr) (creator : Text) (data rest : Bytes)
    (hlen : h.len = 8 + data.length) (hne : 1 ≤ data.length) :
    Pel.decodeUD T env allow h creator (data ++ rest) =
      (match C04.shown T env allow h creator data with
        | .ok j => .ok (j, rest)
        | .error e => .error e) := by
  unfold Pel.decodeUD C04.shown
  have e : h.len - 8 = data.length := by omega
  have hn : ¬ data.length = 0 := by omega
  simp only [e, bind, StateT.bind, getMem, if_neg hn, List.length_append, Nat.le_add_right, if_true, Except.bind,
    List.take_left', List.drop_left']
  cases udToJson T h creator (parseUserData T env allow creator h.comp h.sub h.ver data) <;> rfl

/-- ★ `C04.never_dropped` for the section decoder regenerated from user_data.py: on a well-framed section the payload is decoded by a
    decoder (built-in format or parser module) or the displayed section contains its lossless dump -/
theorem never_dropped_src (g) (hg : Pel.Gen.decodeUD? = some g) (T : Tables) (env : UdEnv) (allow : Bool) (h : SecHdr) (creator : Text)
    (data rest : Bytes) (hlen : h.len = 8 + data.length) (hne : data ≠ []) :
    (C04.isBuiltin T creator h.comp ∧ (h.sub = 1 ∨ h.sub = 3)) ∨
    (allow = true ∧ ¬ C04.isBuiltin T creator h.comp ∧
      (env (udModuleName creator h.comp) = .echo ∨ ∃ t, env (udModuleName creator h.comp) = .returnsText t)) ∨
    (∃ pre, g T env allow h creator (data ++ rest) =
      .ok (.obj (C04.headMembers T h creator ++ pre ++ [kv "Data" (hexdumpJ data)]), rest)) := by
  rw [udDecodeUD g hg]
  have h1 : 1 ≤ data.length := by
    cases data with
    | nil => exact absurd rfl hne
    | cons a r => simp
  rcases C04.never_dropped T env allow h creator data hne with hx | hx | ⟨pre, hp⟩
  · exact Or.inl hx
  · exact Or.inr (Or.inl hx)
  · refine Or.inr (Or.inr ⟨pre, ?_⟩)
    rw [decodeUD_shown T env allow h creator data rest hlen h1, hp]

end Pel.Tie

