import PelModel.Plugins
import PelModel.PelSpec
import PelProofs.Plugins
import PelGen.Live
/-
  C18 — Parser modules are chosen by creator/component, fed the right data, contained.
  The import system is an environment `module name → behaviour`; statements quantify over ALL environments.
-/
namespace Pel.C18

/-! Pins -/
theorem pin_subtypes :
    (∀ v ∈ Live.m2c00_SUB_TYPE_HLOG, v = SUB_HLOG) ∧ (∀ v ∈ Live.m2c00_SUB_TYPE_ILOG, v = SUB_ILOG) ∧
    (∀ v ∈ Live.m2c00_SUB_TYPE_TRACE, v = SUB_TRACE) := by decide
theorem pin_drawer_versions : ∀ v ∈ Live.drawerVersions, v = [(s "mex", 1), (s "nimitz", 2)] := by decide
theorem pin_ud_formats :
    (∀ v ∈ Live.udf_json, v = 1) ∧ (∀ v ∈ Live.udf_text, v = 3) := by decide

/-- ★ the user-data parser consulted is `udparsers.<creator, lower case><component id in 4 lower-case hex digits>` -/
theorem ud_module_name (creator : Text) (comp : Nat) (hc : comp < 65536) :
    udModuleName creator comp = creator.map toLowerAscii ++ hexFixL 4 comp := by
  unfold udModuleName
  rw [List.map_append, map_lower_idem, fmtHex_eq_hexFix 4 comp (by simpa using hc) (by decide), hexFix_map_lower]

/-- ★ … and no other module matters: the result depends on the environment only through that one module -/
theorem ud_only_that_module (T : Tables) (env env' : UdEnv) (allow : Bool) (creator : Text) (comp sub ver : Nat) (data : Bytes)
    (h : env (udModuleName creator comp) = env' (udModuleName creator comp)) :
    parseUserData T env allow creator comp sub ver data = parseUserData T env' allow creator comp sub ver data := by
  unfold parseUserData
  rw [h]

/-- ★ the module receives that section's subtype, version and exact payload (the echo module shows what it was given) -/
theorem ud_arguments (T : Tables) (env : UdEnv) (creator : Text) (comp sub ver : Nat) (data : Bytes)
    (hnb : ¬ (lookupT T.creators creator = some (s "BMC") ∧ comp = 0x2000))
    (he : env (udModuleName creator comp) = .echo) :
    ∃ v, parseUserData T env true creator comp sub ver data = v ∧
      v = UdValue.json (.obj [(s "subType", .num sub), (s "version", .num ver), (s "data", .str (bytesHexL data))]) := by
  refine ⟨_, rfl, ?_⟩
  unfold parseUserData
  rw [if_neg hnb, he]
  rfl

/-- the SRC parser module consulted: `<creator>src`; for BMC SRCs the component named by characters 4..5 of the reference
    code, or the hostboot parser for BC codes -/
def srcModuleName (creator ascii : Text) : Text :=
  if creator.map toLowerAscii = s "o" then
    (if ascii.take 2 = s "BC" then s "bsrc" else s "o" ++ ((ascii.drop 4).take 2).map toLowerAscii ++ s "00")
  else creator.map toLowerAscii ++ s "src"

/-- ★ the SRC details depend on the environment only through that module -/
theorem src_only_that_module (env env' : SrcEnv) (creator ascii : Text) (hexwords : List Text)
    (h : env.src (srcModuleName creator ascii) = env'.src (srcModuleName creator ascii)) :
    (match srcDetails env creator ascii hexwords, srcDetails env' creator ascii hexwords with
      | .none, .none => True
      | .some a, .some b => a = b
      | .fail, .fail => True
      | .unsupported, .unsupported => True
      | _, _ => False) := by
  have e1 : ∀ e : SrcEnv, srcDetails e creator ascii hexwords =
      (match e.src (srcModuleName creator ascii) with
        | .absent => .none
        | .raises => .none
        | .echo => .some (.obj [kv "refcode" (jstr ascii), kv "words" (.arr (hexwords.map jstr))])
        | .returnsText t =>
          if t = [] ∨ t = s "null" then .none else
          match loads t with
          | .ok j => .some j
          | .bad => .fail
          | .unsupported => .unsupported) := fun _ => rfl
  rw [e1 env, e1 env', h]
  cases env'.src (srcModuleName creator ascii) with
  | absent => trivial
  | raises => trivial
  | echo => simp
  | returnsText t =>
    by_cases ht : t = [] ∨ t = s "null"
    · simp only [if_pos ht]
    · simp only [if_neg ht]
      cases loads t <;> simp

/-- ★ the SRC parser receives the reference code and hex words 2..9 in order (eight words, zero-filled beyond the word count) -/
theorem src_arguments (env : SrcEnv) (creator ascii : Text) (hexwords : List Text)
    (he : env.src (srcModuleName creator ascii) = .echo) :
    ∃ j, srcDetails env creator ascii hexwords = .some j ∧
      j = .obj [(s "refcode", .str ascii), (s "words", .arr (hexwords.map .str))] := by
  refine ⟨_, ?_, rfl⟩
  have e1 : srcDetails env creator ascii hexwords =
      (match env.src (srcModuleName creator ascii) with
        | .absent => .none
        | .raises => .none
        | .echo => .some (.obj [kv "refcode" (jstr ascii), kv "words" (.arr (hexwords.map jstr))])
        | .returnsText t =>
          if t = [] ∨ t = s "null" then .none else
          match loads t with
          | .ok j => .some j
          | .bad => .fail
          | .unsupported => .unsupported) := rfl
  rw [e1, he]
  rfl

theorem src_eight_words (x : ASrc) (hw : x.wordCount ≤ 9) :
    let w (i : Nat) : Nat := x.words.getD i 0
    let hexw := ((List.range (x.wordCount + 1)).drop 2).map fun i => hexFix 8 (w (i - 2))
    (hexw ++ List.replicate (8 - hexw.length) (s "00000000")).length = 8 ∧
    ∀ i, i < hexw.length → (hexw ++ List.replicate (8 - hexw.length) (s "00000000"))[i]? = some (hexFix 8 (x.words.getD i 0)) := by
  intro w hexw
  have hlen : hexw.length = x.wordCount - 1 := by
    simp only [hexw, List.length_map, List.length_drop, List.length_range]; omega
  refine ⟨by rw [List.length_append, List.length_replicate]; omega, ?_⟩
  intro i hi
  rw [List.getElem?_append_left hi]
  have hi2 : 2 + i < x.wordCount + 1 := by omega
  simp only [hexw, List.getElem?_map, List.getElem?_drop, List.getElem?_range hi2, Option.map_some, w]
  congr 3
  omega

/-- ★ containment (SRC): a parser that raises, is absent, or returns '' / 'null' yields no "SRC Details" – nothing else changes -/
theorem src_contained (T : Tables) (env : SrcEnv) (h : AHdr) (creator : Text) (x : ASrc)
    (hb : env.src (srcModuleName creator x.ascii) = .raises ∨ env.src (srcModuleName creator x.ascii) = .absent ∨
          env.src (srcModuleName creator x.ascii) = .returnsText [] ∨ env.src (srcModuleName creator x.ascii) = .returnsText (s "null")) :
    ∀ l, renderSrc T env h creator true x = .obj l → ∀ kv ∈ l, kv.1 ≠ s "SRC Details" := by
  intro l hl
  have e1 : ∀ hw, srcDetails env creator x.ascii hw =
      (match env.src (srcModuleName creator x.ascii) with
        | .absent => .none
        | .raises => .none
        | .echo => .some (.obj [kv "refcode" (jstr x.ascii), kv "words" (.arr (hw.map jstr))])
        | .returnsText t =>
          if t = [] ∨ t = s "null" then .none else
          match loads t with
          | .ok j => .some j
          | .bad => .fail
          | .unsupported => .unsupported) := fun _ => rfl
  have hnone : ∀ hw, srcDetails env creator x.ascii hw = .none := by
    intro hw
    rw [e1]
    rcases hb with hb | hb | hb | hb <;> rw [hb] <;> simp
  unfold renderSrc at hl
  simp only [hnone, if_true] at hl
  injection hl with hl
  subst hl
  simp only [List.forall_mem_append, List.forall_mem_cons, List.forall_mem_map, hdrMembers, kv]
  have hnil : ∀ (x : Text × J), x ∈ ([] : List (Text × J)) → x.fst ≠ s "SRC Details" := fun _ h => nomatch h
  refine ⟨⟨⟨⟨⟨⟨⟨⟨by decide, by decide, by decide, hnil⟩, by decide, by decide, by decide, by decide, by decide, hnil⟩, ?_⟩, ?_⟩,
    by decide, by decide, hnil⟩, fun j _ => hexword_ne_srcDetails _⟩, ?_⟩, hnil⟩
  · split
    · simp only [List.forall_mem_cons]; exact ⟨by decide, by decide, hnil⟩
    · exact hnil
  · split
    · simp only [List.forall_mem_append, List.forall_mem_cons]
      refine ⟨⟨by decide, by decide, hnil⟩, ?_⟩
      split
      · simp only [List.forall_mem_cons]; exact ⟨by decide, hnil⟩
      · exact hnil
    · exact hnil
  · split
    · exact hnil
    · simp only [List.forall_mem_cons]; exact ⟨by decide, hnil⟩

/-- ★ with --skip-parser-plugins no parser module is consulted: every environment gives the same result -/
theorem skip_plugins_ud (T : Tables) (env env' : UdEnv) (creator : Text) (comp sub ver : Nat) (data : Bytes) :
    parseUserData T env false creator comp sub ver data = parseUserData T env' false creator comp sub ver data := by
  unfold parseUserData
  simp
/-- (the message registry is data, not a parser module: `--skip-parser-plugins` does not switch it off, so the two
    environments are compared over the same registry) -/
theorem skip_plugins_src (T : Tables) (env env' : SrcEnv) (h : AHdr) (creator : Text) (x : ASrc)
    (hr : env.registry = env'.registry) :
    renderSrc T env h creator false x = renderSrc T env' h creator false x := by
  unfold renderSrc renderCallout procDescription
  rw [hr]
  simp

/-- ★ the I/O-drawer plugin always returns a JSON object -/
theorem m2c00_object (drawers : List DrawerTables) (sub ver : Nat) (data : Bytes) (j : J)
    (h : m2c00 drawers sub ver data = some j) : ∃ l, j = .obj l := by
  unfold m2c00 at h
  simp only at h
  split at h
  · split at h
    · exact ⟨_, (Option.some.inj h).symm⟩
    · split at h
      · exact ⟨_, (Option.some.inj h).symm⟩
      · exact ⟨_, (Option.some.inj h).symm⟩
  · split at h
    · split at h
      · exact ⟨_, (Option.some.inj h).symm⟩
      · split at h
        · exact ⟨_, (Option.some.inj h).symm⟩
        · rw [Option.map_eq_some_iff] at h
          obtain ⟨ls, _, h⟩ := h
          exact ⟨_, h.symm⟩
    · split at h
      · split at h
        · exact ⟨_, (Option.some.inj h).symm⟩
        · split at h
          · exact ⟨_, (Option.some.inj h).symm⟩
          · rw [Option.map_eq_some_iff] at h
            obtain ⟨ls, _, h⟩ := h
            exact ⟨_, h.symm⟩
      · exact ⟨_, (Option.some.inj h).symm⟩

/-- ★ … routing subtypes 72 / 73 / 84 to the history-log / ILOG / trace decoders of the drawer type given by the version -/
theorem m2c00_routing (drawers : List DrawerTables) (ver : Nat) (data : Bytes) (d : DrawerTables) (hne : data ≠ [])
    (hd : drawers.find? (fun d => d.version == ver) = some d) :
    m2c00 drawers 72 ver data = some (.obj [(s "History Log", linesJ (parseHlog d.fields data))]) ∧
    m2c00 drawers 73 ver data = (parseIlog d.pte data).map (fun ls => .obj [(s "ILOG", linesJ ls)]) ∧
    m2c00 drawers 84 ver data = (parseTrace d.strs data).map (fun ls => .obj [(s "Trace", linesJ ls)]) := by
  unfold m2c00
  simp only [hd, SUB_HLOG, SUB_ILOG, SUB_TRACE, if_neg hne]
  simp

theorem m2c00_other_subtype (drawers : List DrawerTables) (sub ver : Nat) (data : Bytes) (hne : data ≠ [])
    (h1 : sub ≠ 72) (h2 : sub ≠ 73) (h3 : sub ≠ 84) :
    m2c00 drawers sub ver data = some (.obj [(s "Data", hexdumpJ data)]) := by
  unfold m2c00
  simp only [SUB_HLOG, SUB_ILOG, SUB_TRACE, if_neg hne, if_neg h1, if_neg h2, if_neg h3]

theorem m2c00_unknown_version (drawers : List DrawerTables) (sub ver : Nat) (data : Bytes) (hne : data ≠ [])
    (hs : sub = 72 ∨ sub = 73 ∨ sub = 84) (hd : drawers.find? (fun d => d.version == ver) = none) :
    ∃ msg, m2c00 drawers sub ver data = some (.obj [(s "Error", .str msg), (s "Data", hexdumpJ data)]) := by
  refine ⟨s "Unable to format data: Unexpected user data section version: " ++ natDec ver, ?_⟩
  unfold m2c00
  simp only [hd, SUB_HLOG, SUB_ILOG, SUB_TRACE, if_neg hne]
  rcases hs with hs | hs | hs <;> subst hs <;> simp

end Pel.C18
