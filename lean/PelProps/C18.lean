namespace Pel.C18
end Pel.C18
