import PelGen.GenIoDrawer
import PelProofs.Trace
import PelProofs.TieIoDrawer
import PelProps.C15
/-
  C15, source tie: the functions of modules/io_drawer/trace.py that harness/trans_iodrawer.py regenerates from the CURRENT
  source text (lean/PelGen/GenIoDrawer.lean) are equal to the hand-written model functions the C15 theorems are about.
  The two readers are stated against the model's functions over the REMAINING bytes (`st.rest`): `return False` = `none`,
  `return True` = the members + the stream advanced by what the model says was consumed; no stream operation raises.
-/
set_option linter.unusedSimpArgs false
set_option linter.unusedVariables false
namespace Pel.Tie
open Pel

theorem io_ts_is_match (g) (h : Pel.Gen.io_ts_is_match? = some g) : g = fun t hv => t.hash == hv := by
  cases h <;> (first | rfl | (funext t hv; simp [Bool.eq_iff_iff, eq_comm]))
theorem io_ts_is_partial_match (g) (h : Pel.Gen.io_ts_is_partial_match? = some g) : g = isPartialMatch := by
  cases h <;> (first | rfl | (funext t hv; simp only [isPartialMatch, Bool.and_comm]) | (funext t hv; simp [isPartialMatch, Bool.eq_iff_iff]; omega))
theorem io_ts_get_message (g) (h : Pel.Gen.io_ts_get_message? = some g) : g = fun t args => pyFmtOrRaw t.fmt args := by
  cases h <;> (funext t args; simp)
theorem io_te_is_binary_trace (g) (h : Pel.Gen.io_te_is_binary_trace? = some g) : g = isBinaryTrace := by
  cases h <;> (first | rfl | (funext e; simp [isBinaryTrace, typeFieldBin, Bool.eq_iff_iff, eq_comm]))

theorem getTraceString_forEach (ss : List TraceString) (hv : Nat) (acc : Option TraceString)
    (f : TraceString → Option TraceString → IoSem.Step (Option TraceString) (Option TraceString))
    (hf : ∀ t a, f t a = if t.hash == hv then .ret (some t) else if isPartialMatch t hv then .next (some t) else .next a) :
    IoSem.LoopOut.elim (fun r => r) (fun a => a) (IoSem.forEach ss acc f) = getTraceStringGo ss hv acc := by
  induction ss generalizing acc with
  | nil => rfl
  | cons t ts ih =>
    by_cases h1 : (t.hash == hv) = true
    · simp [IoSem.forEach, getTraceStringGo, hf, h1]
    · by_cases h2 : isPartialMatch t hv = true
      · simp [IoSem.forEach, getTraceStringGo, hf, h1, h2]; exact ih _
      · simp [IoSem.forEach, getTraceStringGo, hf, h1, h2]; exact ih _

theorem io_get_trace_string (g) (h : Pel.Gen.io_get_trace_string? = some g) : g = getTraceString := by
  cases h <;> (
  funext ss hv
  exact getTraceString_forEach ss hv none _ (fun t a => by first | rfl | (simp only []; repeat' split; all_goals simp_all))
  )

theorem wordsOf_repeatN (n : Nat) (acc : List Nat) (st : IoSem.Stream)
    (f : List Nat × IoSem.Stream → IoSem.Step (List Nat × IoSem.Stream) (IoSem.Res (List Nat)))
    (hf : ∀ a s, f (a, s) = if s.index + 4 ≤ s.data.length then .next (a ++ [fromBE (s.rest.take 4)], s.advance 4) else .brk (a, s)) :
    IoSem.LoopOut.elim (fun r => r) (fun s => .ok s.1) (IoSem.repeatN n (acc, st) f) = .ok (acc ++ wordsOf n st.rest) := by
  induction n generalizing acc st with
  | zero => simp [IoSem.repeatN, wordsOf]
  | succ k ih =>
    by_cases h : st.index + 4 ≤ st.data.length
    · have h' : 4 ≤ st.rest.length := by rw [IoSem.rest_length]; omega
      simp only [IoSem.repeatN, hf, h, if_true, wordsOf, h']
      rw [ih, IoSem.advance_rest]
      simp
    · have h' : ¬ 4 ≤ st.rest.length := by rw [IoSem.rest_length]; omega
      simp [IoSem.repeatN, hf, h, wordsOf, h']

theorem io_te_get_args (g) (h : Pel.Gen.io_te_get_args? = some g) : g = fun e => .ok (traceArgs e) := by
  cases h <;> (
  funext e
  unfold traceArgs
  cases hb : isBinaryTrace e
  · simp only [Bool.not_false, Bool.and_true, if_true, Bool.false_eq_true, if_false]
    rw [wordsOf_repeatN]
    · simp [IoSem.Stream.new, IoSem.Stream.rest]; rfl
    · intro a s
      simp only [IoSem.checkRange_pos s 4 (by decide), IoSem.bindStep_ok]
      by_cases hc : s.index + 4 ≤ s.data.length
      · have hc' : (s.index : Int) + 4 ≤ (s.data.length : Int) := by omega
        simp [hc, hc', IoSem.getInt_ok s 4 (by decide) hc']
      · have hc' : ¬ (s.index : Int) + 4 ≤ (s.data.length : Int) := by omega
        simp [hc, hc']
  · simp
  )

theorem io_tbh_read (g) (h : Pel.Gen.io_tbh_read? = some g) : ∀ st : IoSem.Stream, g st =
    match readTraceHeader st.rest with
    | none => .no
    | some hd => .ok ({ ver := hd.ver, hdrLen := st.rest.getD 1 0, timeFlg := st.rest.getD 2 0, endianFlg := st.rest.getD 3 0,
                        comp := compName hd.comp, size := hd.size, timesWrap := hd.timesWrap, nextFree := hd.nextFree }, st.advance 32) := by
  cases h <;> (
  intro st
  unfold readTraceHeader
  simp only [traceHdrSize, IoSem.rest_length]
  by_cases hc : st.index + 32 ≤ st.data.length
  · have hc' : (st.index : Int) + 32 ≤ (st.data.length : Int) := by omega
    have hl : ¬ st.data.length - st.index < 32 := by omega
    simp (disch := stream_side) only
      [IoSem.checkRange_pos, IoSem.getInt_ok, IoSem.getMem_ok, IoSem.incIndex_ok, IoSem.bind_ok, hc', hl, decide_true, Bool.not_true, Bool.false_eq_true, if_false,
       Int.reduceToNat]
    have hr : 32 ≤ st.rest.length := by rw [IoSem.rest_length]; omega
    simp (disch := omega) only [IoSem.advance_advance, IoSem.advance_rest, Nat.reduceAdd, compName, IoSem.asciiIgnore, IoSem.fromBE_take1, IoSem.fromBE_take1_zero]
  · have hc' : ¬ (st.index : Int) + 32 ≤ (st.data.length : Int) := by omega
    have hl : st.data.length - st.index < 32 := by omega
    simp (disch := stream_side) [IoSem.checkRange_pos, hc', hl]
  )

theorem io_te_read (g) (h : Pel.Gen.io_te_read? = some g) : ∀ st : IoSem.Stream, g st =
    match readTraceEntry st.rest with
    | none => .no
    | some (e, n) => .ok (e, st.advance n) := by
  cases h <;> (
  intro st
  unfold readTraceEntry
  simp only [traceFixedSize, maxDataLen, IoSem.rest_length]
  by_cases hc : st.index + 16 ≤ st.data.length
  · have hc' : (st.index : Int) + 16 ≤ (st.data.length : Int) := by omega
    have hl : ¬ st.data.length - st.index < 16 := by omega
    rw [IoSem.checkRange_pos st 16 (by decide)]
    simp only [IoSem.bind_ok, hc', hl, decide_true, Bool.not_true, Bool.false_eq_true, if_false]
    rd_step; rd_step; rd_step; rd_step; rd_step; rd_step
    simp only [IoSem.advance_advance, IoSem.advance_rest, Nat.reduceAdd, List.drop_drop]
    generalize fromBE (List.take 2 (List.drop 4 st.rest)) = L
    by_cases h2 : L > 1024
    · simp [h2]
    · simp only [h2, decide_false, Bool.false_eq_true, if_false]
      by_cases h3 : L = 0
      · subst h3
        rw [IoSem.checkRange_pos _ 4 (by decide)]
        simp only [IoSem.bind_ok, IoSem.advance_index, IoSem.advance_data, padOf, Nat.zero_mod, if_true, Nat.add_zero, beq_self_eq_true, bne_self_eq_false,
          Bool.not_false, Bool.not_true, Bool.false_eq_true, if_false]
        by_cases h4 : st.index + 16 + 4 ≤ st.data.length
        · have h4' : ((st.index + 16 : Nat) : Int) + 4 ≤ (st.data.length : Int) := by omega
          have h4l : ¬ st.data.length - st.index < 16 + 4 := by omega
          simp only [h4', h4l, hl, decide_true, Bool.not_true, Bool.false_eq_true, if_false]
          rd_step
          simp only [IoSem.advance_advance, IoSem.advance_rest, Nat.reduceAdd, IoSem.advance_index, List.take_zero]
          rd_leaf
        · have h4' : ¬ ((st.index + 16 : Nat) : Int) + 4 ≤ (st.data.length : Int) := by omega
          have h4l : st.data.length - st.index < 16 + 4 := by omega
          simp only [h4', h4l, hl, decide_false, Bool.not_false, if_true, if_false]
      · have h3' : (0 : Int) < (L : Int) := by omega
        have h3b : (L == 0) = false := by simp [h3]
        have h3n : (L != 0) = true := by simp [h3]
        rw [IoSem.checkRange_pos _ _ h3']
        simp only [IoSem.bind_ok, IoSem.advance_index, IoSem.advance_data, h3b, h3n, Bool.not_true, Bool.not_false, Bool.false_eq_true, if_false, if_true]
        by_cases h5 : st.index + 16 + L ≤ st.data.length
        · have h5' : ((st.index + 16 : Nat) : Int) + (L : Int) ≤ (st.data.length : Int) := by omega
          have h5l : ¬ st.data.length - st.index < 16 + L := by omega
          simp only [h5', h5l, decide_true, Bool.not_true, Bool.false_eq_true, if_false]
          rd_step
          by_cases h6 : L % 4 = 0
          · have h6b : (L % 4 == 0) = true := by simp [h6]
            have h6n : (L % 4 != 0) = false := by simp [h6]
            simp only [padOf, h6, h6b, h6n, if_true, Nat.add_zero, bne_self_eq_false, Bool.false_eq_true, Bool.not_true, Bool.not_false, if_false]
            rw [IoSem.checkRange_pos _ 4 (by decide)]
            simp only [IoSem.bind_ok, IoSem.advance_index, IoSem.advance_data]
            by_cases h7 : st.index + 16 + L + 4 ≤ st.data.length
            · have h7' : ((st.index + 16 + L : Nat) : Int) + 4 ≤ (st.data.length : Int) := by omega
              have h7l : ¬ st.data.length - st.index < 16 + L + 4 := by omega
              simp only [h7', h7l, h5l, decide_true, Bool.not_true, Bool.false_eq_true, if_false]
              rd_step
              simp only [IoSem.advance_advance, IoSem.advance_rest, Nat.reduceAdd, IoSem.advance_index, List.drop_drop, Nat.add_assoc]
              rd_leaf
            · have h7' : ¬ ((st.index + 16 + L : Nat) : Int) + 4 ≤ (st.data.length : Int) := by omega
              have h7l : st.data.length - st.index < 16 + L + 4 := by omega
              simp only [h7', h7l, h5l, decide_false, Bool.not_false, if_true, if_false]
          · have hb : (L % 4 != 0) = true := by simp [h6]
            have hbe : (L % 4 == 0) = false := by simp [h6]
            have hp0 : (0 : Int) < 4 - ((L % 4 : Nat) : Int) := by omega
            simp only [padOf, h6, hb, hbe, Bool.not_true, Bool.not_false, Bool.false_eq_true, if_true, if_false]
            rw [IoSem.checkRange_pos _ _ hp0]
            simp only [IoSem.bind_ok, IoSem.advance_index, IoSem.advance_data]
            by_cases h8 : st.index + 16 + L + (4 - L % 4) ≤ st.data.length
            · have h8' : ((st.index + 16 + L : Nat) : Int) + (4 - ((L % 4 : Nat) : Int)) ≤ (st.data.length : Int) := by omega
              have h8l : ¬ st.data.length - st.index < 16 + L + (4 - L % 4) := by omega
              simp only [h8', h8l, decide_true, Bool.not_true, Bool.false_eq_true, if_false]
              rd_step
              have hpn : (4 - ((L % 4 : Nat) : Int)).toNat = 4 - L % 4 := by omega
              simp only [hpn]
              rw [IoSem.checkRange_pos _ 4 (by decide)]
              simp only [IoSem.bind_ok, IoSem.advance_index, IoSem.advance_data]
              by_cases h9 : st.index + 16 + L + (4 - L % 4) + 4 ≤ st.data.length
              · have h9' : ((st.index + 16 + L + (4 - L % 4) : Nat) : Int) + 4 ≤ (st.data.length : Int) := by omega
                have h9l : ¬ st.data.length - st.index < 16 + L + (4 - L % 4) + 4 := by omega
                simp only [h9', h9l, decide_true, Bool.not_true, Bool.false_eq_true, if_false]
                rd_step
                simp only [IoSem.advance_advance, IoSem.advance_rest, Nat.reduceAdd, IoSem.advance_index, List.drop_drop, Nat.add_assoc]
                rd_leaf
              · have h9' : ¬ ((st.index + 16 + L + (4 - L % 4) : Nat) : Int) + 4 ≤ (st.data.length : Int) := by omega
                have h9l : st.data.length - st.index < 16 + L + (4 - L % 4) + 4 := by omega
                simp only [h9', h9l, decide_false, Bool.not_false, if_true, if_false]
            · have h8' : ¬ ((st.index + 16 + L : Nat) : Int) + (4 - ((L % 4 : Nat) : Int)) ≤ (st.data.length : Int) := by omega
              have h8l : st.data.length - st.index < 16 + L + (4 - L % 4) := by omega
              simp only [h8', h8l, decide_false, Bool.not_false, if_true, if_false]
        · have h5' : ¬ ((st.index + 16 : Nat) : Int) + (L : Int) ≤ (st.data.length : Int) := by omega
          have h5l : st.data.length - st.index < 16 + L := by omega
          simp only [h5', h5l, decide_false, Bool.not_false, if_true]
  · have hc' : ¬ (st.index : Int) + 16 ≤ (st.data.length : Int) := by omega
    have hl : st.data.length - st.index < 16 := by omega
    rw [IoSem.checkRange_pos st 16 (by decide)]
    simp only [IoSem.bind_ok, hc', hl, decide_false, Bool.not_false, if_true]
  )


/-- ★ `C15.string_choice` transported to the regenerated `get_trace_string`: the first string with the same hash, else the LAST
    one whose hash agrees modulo the literal in the source -/
theorem io_get_trace_string_choice (g) (h : Pel.Gen.io_get_trace_string? = some g) (ss : List TraceString) (hv : Nat) :
    g ss hv = specChoice ss hv := by
  rw [io_get_trace_string g h]
  exact C15.string_choice ss hv

end Pel.Tie
