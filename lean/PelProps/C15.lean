import PelProofs.Trace
import PelProofs.Loaders
import PelGen.Live
/-
  C15 — Trace buffers decode entry by entry, stopping at the first malformed entry.
-/
namespace Pel.C15

/-! Pins -/
theorem pin_header_size : ∀ v ∈ Live.trace_HDR_SIZE, v = traceHdrSize := by decide
theorem pin_fixed_size : ∀ v ∈ Live.trace_FIXED_SIZE, v = traceFixedSize := by decide
theorem pin_max_data_len : ∀ v ∈ Live.trace_MAX_DATA_LEN, v = maxDataLen := by decide
theorem pin_type_fieldbin : ∀ v ∈ Live.trace_TYPE_FIELDBIN, v = typeFieldBin := by decide
theorem pin_max_args : ∀ v ∈ Live.trace_MAX_ARGS, v = maxArgs := by decide

/-- ★ if no 32-byte header can be read the whole input is hex-dumped, losslessly -/
theorem no_header_fallback (ss : List TraceString) (b : Bytes) (h : b.length < 32) (hb : ∀ x ∈ b, x < 256) :
    parseTrace ss b = some (s "Unable to parse trace data." :: hexdump16 b) ∧
    parseDump fmtDefault (hexdump16 b) = b := by
  refine ⟨?_, ?_⟩
  · unfold parseTrace readTraceHeader
    rw [if_pos (by simp only [traceHdrSize]; omega)]
    rfl
  · have h16 : (16:Nat) ^ 8 = 2 ^ 32 := by decide
    exact parseDump_hexdumpFrom b.length b 0 (Nat.le_refl _) hb (by intro; omega)

/-- ★ component, version, size and wrap count are read from bytes 4–15, 0, 20–23, 24–27 -/
theorem header_fields (h : TraceHeaderRaw) (hw : h.WF) (rest : Bytes) :
    readTraceHeader (h.enc ++ rest) =
      some { ver := h.ver, comp := h.comp, size := h.size, timesWrap := h.timesWrap, nextFree := h.nextFree } := by
  exact readTraceHeader_enc h hw rest

/-- a well-formed entry is read back exactly, consuming exactly its own bytes -/
theorem entry_read (e : TraceEntry) (he : e.WF) (pad rest : Bytes) :
    readTraceEntry (e.enc pad ++ rest) = some (e, e.size) ∧ (e.enc pad).length = e.size := by
  exact ⟨readTraceEntry_enc e he pad rest, e.enc_length he pad⟩

/-- ★ an entry is rejected exactly when it is truncated, oversized (> 1024 data bytes), or its trailing size
    word disagrees with its actual size -/
theorem read_none_iff (r : Bytes) :
    readTraceEntry r = none ↔
      (r.length < 16 ∨ fromBE ((r.drop 4).take 2) > 1024 ∨
       r.length < 16 + fromBE ((r.drop 4).take 2) + padOf (fromBE ((r.drop 4).take 2)) + 4 ∨
       fromBE ((r.drop (16 + fromBE ((r.drop 4).take 2) + padOf (fromBE ((r.drop 4).take 2)))).take 4) ≠
         16 + fromBE ((r.drop 4).take 2) + padOf (fromBE ((r.drop 4).take 2)) + 4) := by
  exact readTraceEntry_none_iff r

/-- ★ the entry loop shows, in order, the entries that start before the declared buffer size, then continues
    on what follows (and stops there if that is not a readable entry) -/
theorem entries_shown (size : Nat) : ∀ (es : List (TraceEntry × Bytes)) (idx : Nat) (rest : Bytes),
    (∀ p ∈ es, p.1.WF) →
    traceLoop size idx (es.flatMap (fun p => p.1.enc p.2) ++ rest) =
      specShown size idx (es.map (·.1)) ++
        (if (specShown size idx (es.map (·.1))).length = es.length
         then traceLoop size (idx + (es.map (·.1.size)).sum) rest else []) := by
  exact traceLoop_entries size

theorem stops_at_malformed (size idx : Nat) (r : Bytes) (h : readTraceEntry r = none) : traceLoop size idx r = [] := by
  exact traceLoop_none size idx r h

theorem stops_at_size (size idx : Nat) (r : Bytes) (h : size ≤ idx) : traceLoop size idx r = [] := by
  exact traceLoop_ge size idx r h

/-- ★ the trace string for a hash is the first with the same hash, else the LAST whose hash agrees modulo
    100000, else none -/
theorem string_choice (ss : List TraceString) (h : Nat) : getTraceString ss h = specChoice ss h := by
  exact getTraceString_eq ss h

/-- formatting of one entry is the declarative rendering -/
theorem entry_lines (ss : List TraceString) (e : TraceEntry) (he : e.WF) :
    formatTraceEntry ss e = specEntryLines ss e := by
  exact formatTraceEntry_eq ss e he

/-- ★ round trip: header + well-formed entries + whatever follows (nothing readable, or beyond the declared
    size) is displayed as header fields and exactly the entries that start before the declared size -/
theorem roundtrip (ss : List TraceString) (h : TraceHeaderRaw) (hw : h.WF) (es : List (TraceEntry × Bytes))
    (hes : ∀ p ∈ es, p.1.WF) (trailing : Bytes)
    (ht : readTraceEntry trailing = none ∨ h.size ≤ 32 + (es.map (·.1.size)).sum) :
    parseTrace ss (h.enc ++ es.flatMap (fun p => p.1.enc p.2) ++ trailing) = specTrace ss h (es.map (·.1)) := by
  exact parseTrace_roundtrip ss h hw es hes trailing ht

/-- the data shown for an entry parses back to the entry's data bytes -/
theorem entry_dump_lossless (e : TraceEntry) (he : e.WF) :
    parseDump fmtDefault (hexdump16 e.data) = e.data := by
  obtain ⟨_, _, _, _, _, hl, hm, hb⟩ := he
  have h16 : (16:Nat) ^ 8 = 2 ^ 32 := by decide
  exact parseDump_hexdumpFrom e.data.length e.data 0 (Nat.le_refl _) hb (by intro; omega)

/-! ### the string-file LOADER (`TraceStringFile.__init__` / `_add_trace_string`, modelled in PelModel/Regex.lean + Loaders.lean) -/

/-- ★ Printing trace strings as a string file (`hash||format||location` + newline, hash in decimal) and loading the file with
    the model of the repo's loader gives what the constructor stores: the hash, and format and location with blanks stripped.

    Well-formedness `traceStringWf` (decidable): format and location without newline; the hash has at most 4300 digits; and
    `|` + location contains no `||` (i.e. the location has no `||` and does not begin with `|`).  The last condition is exact for
    the split: `(.*)\|\|(.*)` is greedy, so the line is cut at its LAST `||` (see `split_at_last_bars`); the format itself may
    contain `||`, may end with `|`, and may be empty. -/
theorem string_file_roundtrip (ss : List TraceString) (hwf : ∀ t ∈ ss, traceStringWf t = true) :
    loadTraceStrings (renderStringFile ss) = some (ss.map normaliseTraceString) := by
  have := loadTraceStrings_rendered ss hwf []
  rw [List.append_nil] at this
  unfold renderStringFile
  rw [this]
  simp [loadTraceStrings]

def demoStrings : List TraceString :=
  [{ hash := 92602121, fmt := s "I> ADT7470: trace_level = %u", location := s "adt7470_fan_ctl.cpp(926)" },
   { hash := 0, fmt := s " a || b \\\"q\" | ", location := s " x|y " },
   { hash := 7, fmt := [], location := [] }]

example : (∀ t ∈ demoStrings, traceStringWf t = true) ∧
    renderStringFile demoStrings =
      [s "92602121||I> ADT7470: trace_level = %u||adt7470_fan_ctl.cpp(926)\n", s "0|| a || b \\\"q\" | || x|y \n", s "7||||\n"] ∧
    loadTraceStrings (renderStringFile demoStrings) = some
      [{ hash := 92602121, fmt := s "I> ADT7470: trace_level = %u", location := s "adt7470_fan_ctl.cpp(926)" },
       { hash := 0, fmt := s "a || b \\\"q\" |", location := s "x|y" },
       { hash := 7, fmt := [], location := [] }] := by decide +kernel

/-- the greedy `(.*)` cuts at the LAST `||`: a location containing `||`, or beginning with `|`, is not read back -/
theorem split_at_last_bars :
    loadTraceStrings [s "1||a||b||c\n"] = some [{ hash := 1, fmt := s "a||b", location := s "c" }] ∧
    loadTraceStrings [s "2||a|||b\n"] = some [{ hash := 2, fmt := s "a|", location := s "b" }] ∧
    traceStringWf { hash := 1, fmt := s "a", location := s "b||c" } = false ∧
    traceStringWf { hash := 2, fmt := s "a", location := s "|b" } = false := by decide +kernel

/-- ★ the groups of a string-file line in any layout: blanks around the hash, an optional final newline -/
theorem string_line_groups (w0 w1 : Text) (h0 : AllSp w0) (h1 : AllSp w1) (d : Nat) (ds fmt loc nl : Text)
    (hd : 48 ≤ d ∧ d ≤ 57) (hds : ∀ x ∈ ds, 48 ≤ x ∧ x ≤ 57) (hfmt : ∀ x ∈ fmt, x ≠ 10) (hloc : ∀ x ∈ loc, x ≠ 10)
    (hbar : noBarBar (124 :: loc) = true) (hnl : nl = [10] ∨ nl = []) :
    traceLineRe.fullmatch (w0 ++ (d :: (ds ++ (w1 ++ (124 :: 124 :: (fmt ++ (124 :: 124 :: (loc ++ nl))))))))
      = some [(3, loc), (2, fmt), (1, d :: ds)] :=
  traceLine_fullmatch w0 w1 h0 h1 d ds fmt loc nl hd hds hfmt hloc hbar hnl

/-- blanks around the hash (a form feed and a no-break space among them), no final newline -/
example : AllSp [32, 12] ∧ AllSp [160] ∧ noBarBar (124 :: s "b|c") = true ∧
    traceLineRe.fullmatch ([32, 12] ++ (49 :: (s "7" ++ ([160] ++ (124 :: 124 :: (s "a||" ++ (124 :: 124 :: (s "b|c" ++ []))))))))
      = some [(3, s "b|c"), (2, s "a||"), (1, s "17")] := by
  refine ⟨?_, ?_, by decide, by decide +kernel⟩
  · intro x hx; simp only [List.mem_cons, List.not_mem_nil, or_false] at hx; rcases hx with h | h <;> subst h <;> decide
  · intro x hx; simp only [List.mem_singleton] at hx; subst hx; decide

/-- ★ a line that does not match `LINE_RE` (the `#FSP_TRACE_v2|||…` heading of the shipped files, a blank hash, a line with a
    single `||`) contributes nothing and does not disturb its neighbours -/
theorem non_matching_lines_skipped (a b : List Text) (bad : Text) (h : traceLineRe.fullmatch bad = none) :
    loadTraceStrings (a ++ bad :: b) = loadTraceStrings (a ++ b) :=
  loadTraceStrings_bad_line bad h a b

example : ∀ bad ∈ [s "#FSP_TRACE_v2|||Thu Sep 24 12:55:43 2020|||BUILD:Release\n", s "||a||b\n", s "16||a\n", s "+9||a||b\n", s "\n"],
    traceLineRe.fullmatch bad = none := by decide +kernel

/-- ★ end to end, string file → chosen trace string: look-ups in the loaded file are look-ups in the normalised list -/
theorem string_file_to_choice (ss : List TraceString) (hwf : ∀ t ∈ ss, traceStringWf t = true) (h : Nat) :
    (loadTraceStrings (renderStringFile ss)).map (fun l => getTraceString l h) =
      some (specChoice (ss.map normaliseTraceString) h) := by
  rw [string_file_roundtrip ss hwf]
  simp only [Option.map_some]
  rw [string_choice]

/-- hash 192602121 is not in the demo file; the string with the same low five digits is chosen -/
example : (loadTraceStrings (renderStringFile demoStrings)).map (fun l => (getTraceString l 192602121).map (·.hash)) = some (some 92602121) := by
  decide +kernel

end Pel.C15
