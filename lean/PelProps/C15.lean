import PelProofs.Trace
import PelGen.Live
/-
  C15 — Trace buffers decode entry by entry, stopping at the first malformed entry.
-/
namespace Pel.C15

/-! Pins -/
theorem pin_header_size : ∀ v ∈ Live.trace_HDR_SIZE, v = traceHdrSize := by decide
theorem pin_fixed_size : ∀ v ∈ Live.trace_FIXED_SIZE, v = traceFixedSize := by decide
theorem pin_max_data_len : ∀ v ∈ Live.trace_MAX_DATA_LEN, v = maxDataLen := by decide
theorem pin_type_fieldbin : ∀ v ∈ Live.trace_TYPE_FIELDBIN, v = typeFieldBin := by decide
theorem pin_max_args : ∀ v ∈ Live.trace_MAX_ARGS, v = maxArgs := by decide

/-- ★ if no 32-byte header can be read the whole input is hex-dumped, losslessly -/
theorem no_header_fallback (ss : List TraceString) (b : Bytes) (h : b.length < 32) (hb : ∀ x ∈ b, x < 256) :
    parseTrace ss b = some (s "Unable to parse trace data." :: hexdump16 b) ∧
    parseDump fmtDefault (hexdump16 b) = b := by
  refine ⟨?_, ?_⟩
  · unfold parseTrace readTraceHeader
    rw [if_pos (by simp only [traceHdrSize]; omega)]
    rfl
  · have h16 : (16:Nat) ^ 8 = 2 ^ 32 := by decide
    exact parseDump_hexdumpFrom b.length b 0 (Nat.le_refl _) hb (by intro; omega)

/-- ★ component, version, size and wrap count are read from bytes 4–15, 0, 20–23, 24–27 -/
theorem header_fields (h : TraceHeaderRaw) (hw : h.WF) (rest : Bytes) :
    readTraceHeader (h.enc ++ rest) =
      some { ver := h.ver, comp := h.comp, size := h.size, timesWrap := h.timesWrap, nextFree := h.nextFree } := by
  exact readTraceHeader_enc h hw rest

/-- a well-formed entry is read back exactly, consuming exactly its own bytes -/
theorem entry_read (e : TraceEntry) (he : e.WF) (pad rest : Bytes) :
    readTraceEntry (e.enc pad ++ rest) = some (e, e.size) ∧ (e.enc pad).length = e.size := by
  exact ⟨readTraceEntry_enc e he pad rest, e.enc_length he pad⟩

/-- ★ an entry is rejected exactly when it is truncated, oversized (> 1024 data bytes), or its trailing size
    word disagrees with its actual size -/
theorem read_none_iff (r : Bytes) :
    readTraceEntry r = none ↔
      (r.length < 16 ∨ fromBE ((r.drop 4).take 2) > 1024 ∨
       r.length < 16 + fromBE ((r.drop 4).take 2) + padOf (fromBE ((r.drop 4).take 2)) + 4 ∨
       fromBE ((r.drop (16 + fromBE ((r.drop 4).take 2) + padOf (fromBE ((r.drop 4).take 2)))).take 4) ≠
         16 + fromBE ((r.drop 4).take 2) + padOf (fromBE ((r.drop 4).take 2)) + 4) := by
  exact readTraceEntry_none_iff r

/-- ★ the entry loop shows, in order, the entries that start before the declared buffer size, then continues
    on what follows (and stops there if that is not a readable entry) -/
theorem entries_shown (size : Nat) : ∀ (es : List (TraceEntry × Bytes)) (idx : Nat) (rest : Bytes),
    (∀ p ∈ es, p.1.WF) →
    traceLoop size idx (es.flatMap (fun p => p.1.enc p.2) ++ rest) =
      specShown size idx (es.map (·.1)) ++
        (if (specShown size idx (es.map (·.1))).length = es.length
         then traceLoop size (idx + (es.map (·.1.size)).sum) rest else []) := by
  exact traceLoop_entries size

theorem stops_at_malformed (size idx : Nat) (r : Bytes) (h : readTraceEntry r = none) : traceLoop size idx r = [] := by
  exact traceLoop_none size idx r h

theorem stops_at_size (size idx : Nat) (r : Bytes) (h : size ≤ idx) : traceLoop size idx r = [] := by
  exact traceLoop_ge size idx r h

/-- ★ the trace string for a hash is the first with the same hash, else the LAST whose hash agrees modulo
    100000, else none -/
theorem string_choice (ss : List TraceString) (h : Nat) : getTraceString ss h = specChoice ss h := by
  exact getTraceString_eq ss h

/-- formatting of one entry is the declarative rendering -/
theorem entry_lines (ss : List TraceString) (e : TraceEntry) (he : e.WF) :
    formatTraceEntry ss e = specEntryLines ss e := by
  exact formatTraceEntry_eq ss e he

/-- ★ round trip: header + well-formed entries + whatever follows (nothing readable, or beyond the declared
    size) is displayed as header fields and exactly the entries that start before the declared size -/
theorem roundtrip (ss : List TraceString) (h : TraceHeaderRaw) (hw : h.WF) (es : List (TraceEntry × Bytes))
    (hes : ∀ p ∈ es, p.1.WF) (trailing : Bytes)
    (ht : readTraceEntry trailing = none ∨ h.size ≤ 32 + (es.map (·.1.size)).sum) :
    parseTrace ss (h.enc ++ es.flatMap (fun p => p.1.enc p.2) ++ trailing) = specTrace ss h (es.map (·.1)) := by
  exact parseTrace_roundtrip ss h hw es hes trailing ht

/-- the data shown for an entry parses back to the entry's data bytes -/
theorem entry_dump_lossless (e : TraceEntry) (he : e.WF) :
    parseDump fmtDefault (hexdump16 e.data) = e.data := by
  obtain ⟨_, _, _, _, _, hl, hm, hb⟩ := he
  have h16 : (16:Nat) ^ 8 = 2 ^ 32 := by decide
  exact parseDump_hexdumpFrom e.data.length e.data 0 (Nat.le_refl _) hb (by intro; omega)

end Pel.C15
