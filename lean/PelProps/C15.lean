namespace Pel.C15
end Pel.C15
