import PelProofs.FramesPel
import PelProofs.PelPropsAux
import PelGen.Live
import PelProps.Golden
/-
  C03 — SRC sections display the encoded words, flags and every callout faithfully.
  `renderSrc` / `renderCallout` (PelModel/PelSpec.lean) spell out, field by field and by arithmetic on the encoded
  values, what must be shown; the theorems say the decoder shows exactly that for every well-formed SRC.
-/
namespace Pel.C03

/-! Pins -/
theorem pin_header_flags :
    (∀ v ∈ Live.hf_additionalSections, v = 0x01) ∧ (∀ v ∈ Live.hf_hypDumpInit, v = 0x04) ∧
    (∀ v ∈ Live.hf_i5OSServiceEventBit, v = 0x10) ∧ (∀ v ∈ Live.hf_virtualProgressSRC, v = 0x80) := by decide
theorem pin_error_status :
    (∀ v ∈ Live.es_terminateFwErr, v = 0x20000000) ∧ (∀ v ∈ Live.es_deconfigured, v = 0x02000000) ∧
    (∀ v ∈ Live.es_guarded, v = 0x01000000) := by decide
theorem pin_fru_flags :
    (∀ v ∈ Live.fru_pnSupplied, v = 0x08) ∧ (∀ v ∈ Live.fru_ccinSupplied, v = 0x04) ∧
    (∀ v ∈ Live.fru_maintProcSupplied, v = 0x02) ∧ (∀ v ∈ Live.fru_snSupplied, v = 0x01) := by decide
theorem pin_src_types :
    (∀ v ∈ Live.srcType_bmcError, v = s "BD") ∧ (∀ v ∈ Live.srcType_powerError, v = s "11") ∧
    (∀ v ∈ Live.srcType_hostbootError, v = s "BC") := by decide
theorem pin_fru_types : ∀ p ∈ Golden.failingComponentType, ∀ live ∈ Live.failingComponentType, lookupN live p.1 = some p.2 := by decide
theorem pin_priorities : ∀ p ∈ Golden.calloutPriorityValues, ∀ live ∈ Live.calloutPriorityValues, lookupN live p.1 = some p.2 := by decide

/-- ★ every well-formed primary or secondary SRC (all 32-bit words, all flag bytes, word counts 0..9, any number of
    callouts with any legal combination of FRU flags, optional PCE and MRU substructures, location codes 0..80)
    is displayed as `renderSrc` prescribes, consuming exactly its own bytes -/
theorem src_roundtrip (T : Tables) (env : SrcEnv) (h : AHdr) (creator : Text) (allow : Bool) (x : ASrc) (hx : x.WF)
    (id len : Nat) (hd : srcDisplayable env creator allow x = true) (rest : Bytes) :
    decodeSRC T env (mkSecHdr id len h) creator allow (x.encBody ++ rest) =
      .ok ((renderSrc T env h creator allow x, stripSp x.ascii), rest) :=
  exact_SRC T env h creator allow x hx id len hd rest

/-- ★ the callout subsection lists exactly the encoded callouts, in order, and Callout Count is their number -/
theorem callouts_listed (T : Tables) (env : SrcEnv) (h : AHdr) (creator : Text) (allow : Bool) (x : ASrc) (cs : ACalloutSec)
    (hc : x.callouts = some cs) :
    ∃ pre post, renderSrc T env h creator allow x = .obj (pre ++ [(s "Callout Section",
      .obj [(s "Callout Count", .num cs.callouts.length),
            (s "Callouts", .arr (cs.callouts.map (renderCallout T env creator allow)))])] ++ post) := by
  rw [renderSrc_eq, hc]
  exact ⟨_, _, rfl⟩

/-- without the callout flag no callout section is shown -/
theorem no_callout_section (T : Tables) (env : SrcEnv) (h : AHdr) (creator : Text) (allow : Bool) (x : ASrc)
    (hc : x.callouts = none) :
    ∀ l, renderSrc T env h creator allow x = .obj l → ∀ kv ∈ l, kv.1 ≠ s "Callout Section" := by
  intro l hl
  rw [renderSrc_eq, hc] at hl
  cases hl
  simp only [srcSpecMembers, hdrMembers, List.forall_mem_append, List.forall_mem_cons, List.forall_mem_map,
    List.not_mem_nil, kv_fst]
  repeat' apply And.intro
  all_goals try decide
  all_goals try (intro _ hf; exact hf.elim)
  · refine forall_mem_ite_nil ?_
    simp only [List.forall_mem_cons, kv_fst, List.not_mem_nil]
    refine ⟨by decide, by decide, fun _ hf => hf.elim⟩
  · refine forall_mem_ite_nil ?_
    simp only [List.forall_mem_cons, kv_fst, List.not_mem_nil]
    refine ⟨by decide, by decide, fun _ hf => hf.elim⟩
  · intro j _; exact hexword_ne_callout j
  · refine forall_mem_ite_nil ?_
    split
    · simp only [List.forall_mem_cons, kv_fst, List.not_mem_nil]
      exact ⟨by decide, fun _ hf => hf.elim⟩
    · intro _ hf; simp at hf

/-- ★ hex words: exactly words 2..wordCount are shown, each as the eight hex digits of the encoded word -/
theorem hex_words_shown (T : Tables) (env : SrcEnv) (h : AHdr) (creator : Text) (allow : Bool) (x : ASrc) (i : Nat)
    (hi : 2 ≤ i ∧ i ≤ x.wordCount) :
    ∃ l, renderSrc T env h creator allow x = .obj l ∧
      (s "Hex Word " ++ natDec i, J.str (hexFix 8 (x.words.getD (i - 2) 0))) ∈ l := by
  rw [renderSrc_eq]
  refine ⟨_, rfl, ?_⟩
  apply List.mem_append_left
  apply List.mem_append_left
  unfold srcSpecMembers
  apply List.mem_append_right
  rw [List.mem_map]
  exact ⟨i, mem_drop2_range i _ ⟨hi.1, by omega⟩, rfl⟩

/-- the header / error-status bits by arithmetic on the encoded bytes (what "bit k is on" means) -/
theorem bit_test (n k : Nat) : (n &&& 2 ^ k != 0) = (n / 2 ^ k % 2 == 1) := by
  rw [and_pow_ne_zero]
  rfl

/-- MRU ids are shown as the comma-joined eight-digit ids, in order -/
theorem mru_ids (T : Tables) (env : SrcEnv) (creator : Text) (allow : Bool) (c : ACallout) (m : AMru) (hm : c.mru = some m) :
    ∃ l, renderCallout T env creator allow c = .obj l ∧
      (s "MRU Id", J.str (joinWith [44] (m.items.map fun pi => hexFix 8 pi.2))) ∈ l := by
  unfold renderCallout
  refine ⟨_, rfl, ?_⟩
  rw [hm]
  exact List.mem_append_right _ (List.mem_singleton.2 rfl)

/-! Non-vacuity: a callout section with three callouts (one with PCE, one with MRUs) is well-formed. -/
def fruA : AFru := { flags := 0x28, pn := s "PN12345\x00", ccin := [], sn := [] }
def fruB : AFru := { flags := 0x2D, pn := s "PN00002\x00", ccin := s "CCIN", sn := s "SN1234567890" }
def fruC : AFru := { flags := 0x42, pn := s "BMC0001\x00", ccin := [], sn := [] }
def demoCallouts : ACalloutSec :=
  { subId := 0xC0, subFlags := 0, callouts := [
      { flags := 0x3E, priority := 0x48, loc := s "U78DA.ND1\x00\x00\x00", fru := fruA, pce := none, mru := none },
      { flags := 0x3E, priority := 0x4D, loc := [], fru := fruB,
        pce := some { flags := 0, mtm := s "9105-22A", sn := s "SN0000000001", name := s "pce1" }, mru := none },
      { flags := 0x3E, priority := 0x4C, loc := s "Ufcs", fru := fruC, pce := none,
        mru := some { flagsHi := 0, resv := 0, items := [(0x48, 0x11223344), (0x4C, 0xAABBCCDD)] } }] }
theorem demo_callouts_wf : demoCallouts.WF := by
  have e1 : s "PN12345\x00" = [80, 78, 49, 50, 51, 52, 53, 0] := by decide
  have e2 : s "PN00002\x00" = [80, 78, 48, 48, 48, 48, 50, 0] := by decide
  have e3 : s "CCIN" = [67, 67, 73, 78] := by decide
  have e4 : s "SN1234567890" = [83, 78, 49, 50, 51, 52, 53, 54, 55, 56, 57, 48] := by decide
  have e5 : s "BMC0001\x00" = [66, 77, 67, 48, 48, 48, 49, 0] := by decide
  have e6 : s "U78DA.ND1\x00\x00\x00" = [85, 55, 56, 68, 65, 46, 78, 68, 49, 0, 0, 0] := by decide
  have e7 : s "9105-22A" = [57, 49, 48, 53, 45, 50, 50, 65] := by decide
  have e8 : s "SN0000000001" = [83, 78, 48, 48, 48, 48, 48, 48, 48, 48, 48, 49] := by decide
  have e9 : s "pce1" = [112, 99, 101, 49] := by decide
  have e10 : s "Ufcs" = [85, 102, 99, 115] := by decide
  simp only [ACalloutSec.WF, ACalloutSec.total, ACallout.WF, ACallout.size, AFru.WF, AFru.size, APce.WF, APce.size,
    AMru.WF, AMru.size, demoCallouts, fruA, fruB, fruC, isAscii, AFru.hasPn, AFru.hasCcin, AFru.hasSn,
    e1, e2, e3, e4, e5, e6, e7, e8, e9, e10, List.forall_mem_cons, Option.mem_def]
  simp
  omega

end Pel.C03
