import PelProofs.FramesPel
import PelProofs.PelPropsAux
import PelProofs.Registry
import PelGen.Live
import PelProps.Golden
/-
  C03 — SRC sections display the encoded words, flags and every callout faithfully.
  `renderSrc` / `renderCallout` (PelModel/PelSpec.lean) spell out, field by field and by arithmetic on the encoded
  values, what must be shown; the theorems say the decoder shows exactly that for every well-formed SRC.
-/
namespace Pel.C03

/-! Pins -/
theorem pin_header_flags :
    (∀ v ∈ Live.hf_additionalSections, v = 0x01) ∧ (∀ v ∈ Live.hf_hypDumpInit, v = 0x04) ∧
    (∀ v ∈ Live.hf_i5OSServiceEventBit, v = 0x10) ∧ (∀ v ∈ Live.hf_virtualProgressSRC, v = 0x80) := by decide
theorem pin_error_status :
    (∀ v ∈ Live.es_terminateFwErr, v = 0x20000000) ∧ (∀ v ∈ Live.es_deconfigured, v = 0x02000000) ∧
    (∀ v ∈ Live.es_guarded, v = 0x01000000) := by decide
theorem pin_fru_flags :
    (∀ v ∈ Live.fru_pnSupplied, v = 0x08) ∧ (∀ v ∈ Live.fru_ccinSupplied, v = 0x04) ∧
    (∀ v ∈ Live.fru_maintProcSupplied, v = 0x02) ∧ (∀ v ∈ Live.fru_snSupplied, v = 0x01) := by decide
theorem pin_src_types :
    (∀ v ∈ Live.srcType_bmcError, v = s "BD") ∧ (∀ v ∈ Live.srcType_powerError, v = s "11") ∧
    (∀ v ∈ Live.srcType_hostbootError, v = s "BC") := by decide
theorem pin_fru_types : ∀ p ∈ Golden.failingComponentType, ∀ live ∈ Live.failingComponentType, lookupN live p.1 = some p.2 := by decide
theorem pin_priorities : ∀ p ∈ Golden.calloutPriorityValues, ∀ live ∈ Live.calloutPriorityValues, lookupN live p.1 = some p.2 := by decide

/-- ★ every well-formed primary or secondary SRC (all 32-bit words, all flag bytes, word counts 0..9, any number of
    callouts with any legal combination of FRU flags, optional PCE and MRU substructures, location codes 0..80)
    is displayed as `renderSrc` prescribes, consuming exactly its own bytes -/
theorem src_roundtrip (T : Tables) (env : SrcEnv) (h : AHdr) (creator : Text) (allow : Bool) (x : ASrc) (hx : x.WF)
    (id len : Nat) (hd : srcDisplayable env creator allow x = true) (rest : Bytes) :
    decodeSRC T env (mkSecHdr id len h) creator allow (x.encBody ++ rest) =
      .ok ((renderSrc T env h creator allow x, stripSp x.ascii), rest) :=
  exact_SRC T env h creator allow x hx id len hd rest

/-- ★ the callout subsection lists exactly the encoded callouts, in order, and Callout Count is their number -/
theorem callouts_listed (T : Tables) (env : SrcEnv) (h : AHdr) (creator : Text) (allow : Bool) (x : ASrc) (cs : ACalloutSec)
    (hc : x.callouts = some cs) :
    ∃ pre post, renderSrc T env h creator allow x = .obj (pre ++ [(s "Callout Section",
      .obj [(s "Callout Count", .num cs.callouts.length),
            (s "Callouts", .arr (cs.callouts.map (renderCallout T env creator allow)))])] ++ post) := by
  rw [renderSrc_eq, hc]
  exact ⟨_, _, rfl⟩

/-- without the callout flag no callout section is shown -/
theorem no_callout_section (T : Tables) (env : SrcEnv) (h : AHdr) (creator : Text) (allow : Bool) (x : ASrc)
    (hc : x.callouts = none) :
    ∀ l, renderSrc T env h creator allow x = .obj l → ∀ kv ∈ l, kv.1 ≠ s "Callout Section" := by
  intro l hl
  rw [renderSrc_eq, hc] at hl
  cases hl
  simp only [srcSpecMembers, hdrMembers, List.forall_mem_append, List.forall_mem_cons, List.forall_mem_map,
    List.not_mem_nil, kv_fst]
  repeat' apply And.intro
  all_goals try decide
  all_goals try (intro _ hf; exact hf.elim)
  · refine forall_mem_ite_nil ?_
    simp only [List.forall_mem_cons, kv_fst, List.not_mem_nil]
    refine ⟨by decide, by decide, fun _ hf => hf.elim⟩
  · refine forall_mem_ite_nil ?_
    simp only [List.forall_mem_append, List.forall_mem_cons, kv_fst, List.not_mem_nil]
    refine ⟨⟨by decide, by decide, fun _ hf => hf.elim⟩, ?_⟩
    split
    · simp only [List.forall_mem_cons, kv_fst, List.not_mem_nil]
      exact ⟨by decide, fun _ hf => hf.elim⟩
    · intro _ hf; simp at hf
  · intro j _; exact hexword_ne_callout j
  · refine forall_mem_ite_nil ?_
    split
    · simp only [List.forall_mem_cons, kv_fst, List.not_mem_nil]
      exact ⟨by decide, fun _ hf => hf.elim⟩
    · intro _ hf; simp at hf

/-- ★ hex words: exactly words 2..wordCount are shown, each as the eight hex digits of the encoded word -/
theorem hex_words_shown (T : Tables) (env : SrcEnv) (h : AHdr) (creator : Text) (allow : Bool) (x : ASrc) (i : Nat)
    (hi : 2 ≤ i ∧ i ≤ x.wordCount) :
    ∃ l, renderSrc T env h creator allow x = .obj l ∧
      (s "Hex Word " ++ natDec i, J.str (hexFix 8 (x.words.getD (i - 2) 0))) ∈ l := by
  rw [renderSrc_eq]
  refine ⟨_, rfl, ?_⟩
  apply List.mem_append_left
  apply List.mem_append_left
  unfold srcSpecMembers
  apply List.mem_append_right
  rw [List.mem_map]
  exact ⟨i, mem_drop2_range i _ ⟨hi.1, by omega⟩, rfl⟩

/-- the header / error-status bits by arithmetic on the encoded bytes (what "bit k is on" means) -/
theorem bit_test (n k : Nat) : (n &&& 2 ^ k != 0) = (n / 2 ^ k % 2 == 1) := by
  rw [and_pow_ne_zero]
  rfl

/-- MRU ids are shown as the comma-joined eight-digit ids, in order -/
theorem mru_ids (T : Tables) (env : SrcEnv) (creator : Text) (allow : Bool) (c : ACallout) (m : AMru) (hm : c.mru = some m) :
    ∃ l, renderCallout T env creator allow c = .obj l ∧
      (s "MRU Id", J.str (joinWith [44] (m.items.map fun pi => hexFix 8 pi.2))) ∈ l := by
  unfold renderCallout
  refine ⟨_, rfl, ?_⟩
  rw [hm]
  exact List.mem_append_right _ (List.mem_singleton.2 rfl)

/-! Non-vacuity: a callout section with three callouts (one with PCE, one with MRUs) is well-formed. -/
def fruA : AFru := { flags := 0x28, pn := s "PN12345\x00", ccin := [], sn := [] }
def fruB : AFru := { flags := 0x2D, pn := s "PN00002\x00", ccin := s "CCIN", sn := s "SN1234567890" }
def fruC : AFru := { flags := 0x42, pn := s "BMC0001\x00", ccin := [], sn := [] }
def demoCallouts : ACalloutSec :=
  { subId := 0xC0, subFlags := 0, callouts := [
      { flags := 0x3E, priority := 0x48, loc := s "U78DA.ND1\x00\x00\x00", fru := fruA, pce := none, mru := none },
      { flags := 0x3E, priority := 0x4D, loc := [], fru := fruB,
        pce := some { flags := 0, mtm := s "9105-22A", sn := s "SN0000000001", name := s "pce1" }, mru := none },
      { flags := 0x3E, priority := 0x4C, loc := s "Ufcs", fru := fruC, pce := none,
        mru := some { flagsHi := 0, resv := 0, items := [(0x48, 0x11223344), (0x4C, 0xAABBCCDD)] } }] }
theorem demo_callouts_wf : demoCallouts.WF := by
  have e1 : s "PN12345\x00" = [80, 78, 49, 50, 51, 52, 53, 0] := by decide
  have e2 : s "PN00002\x00" = [80, 78, 48, 48, 48, 48, 50, 0] := by decide
  have e3 : s "CCIN" = [67, 67, 73, 78] := by decide
  have e4 : s "SN1234567890" = [83, 78, 49, 50, 51, 52, 53, 54, 55, 56, 57, 48] := by decide
  have e5 : s "BMC0001\x00" = [66, 77, 67, 48, 48, 48, 49, 0] := by decide
  have e6 : s "U78DA.ND1\x00\x00\x00" = [85, 55, 56, 68, 65, 46, 78, 68, 49, 0, 0, 0] := by decide
  have e7 : s "9105-22A" = [57, 49, 48, 53, 45, 50, 50, 65] := by decide
  have e8 : s "SN0000000001" = [83, 78, 48, 48, 48, 48, 48, 48, 48, 48, 48, 49] := by decide
  have e9 : s "pce1" = [112, 99, 101, 49] := by decide
  have e10 : s "Ufcs" = [85, 102, 99, 115] := by decide
  simp only [ACalloutSec.WF, ACalloutSec.total, ACallout.WF, ACallout.size, AFru.WF, AFru.size, APce.WF, APce.size,
    AMru.WF, AMru.size, demoCallouts, fruA, fruB, fruC, isAscii, AFru.hasPn, AFru.hasCcin, AFru.hasSn,
    e1, e2, e3, e4, e5, e6, e7, e8, e9, e10, List.forall_mem_cons, Option.mem_def]
  simp
  omega

/-! ### the message registry ("Error Details") -/

/-- the SRC's registry key: `"0x" + asciiString[4:8]` and the type `asciiString[0:2]` -/
def regCode (ascii : Text) : Text := s "0x" ++ (ascii.drop 4).take 4
def regType (ascii : Text) : Text := ascii.take 2

/-- when an entry matches: it has a reason code that contains the SRC's code as a substring, and its type
    (BD when absent) is the SRC's type -/
theorem registry_match_iff (e : RegEntry) (code ty : Text) :
    e.isMatch code ty = true ↔ ∃ rc, e.reasonCode = some rc ∧ e.type.getD (s "BD") = ty ∧ isInfix code rc = true := by
  unfold RegEntry.isMatch
  cases e.reasonCode with
  | none => simp
  | some rc => simp

/-- what "the entry found" (`regLookup`, used by `registry_message_shown`) means: the first entry in list order that matches -/
theorem registry_lookup_first (pre post : List RegEntry) (e : RegEntry) (code ty : Text)
    (hpre : ∀ p ∈ pre, p.isMatch code ty = false) (he : e.isMatch code ty = true) :
    regLookup (pre ++ e :: post) code ty = some e := by
  rw [regLookup_append_of_no_match pre (e :: post) code ty hpre, regLookup_cons_match e post code ty he]

/-- ★ the placeholders `%1`..`%9` of a message are filled, in order of occurrence, with the arguments: for a message made of
    the segments `segs` with a placeholder between consecutive ones (no segment containing `{`, `}` or `%`) and as many
    arguments as placeholders, the result is the segments interleaved with the arguments -/
theorem registry_message (segs : List Text) (digits : List Nat) (args : List Text)
    (hlen : segs.length = digits.length + 1) (hd : ∀ d ∈ digits, 1 ≤ d ∧ d ≤ 9)
    (hs : ∀ seg ∈ segs, ∀ c ∈ seg, c ≠ 123 ∧ c ≠ 125 ∧ c ≠ 37)
    (ha : args.length = digits.length) :
    fillMsg (joinPlaceholders segs digits) args = some (interleave segs args) :=
  fillMsg_join segs digits args hlen hd (fun seg h c hc => (hs seg h c hc).2.2) (by omega)

example : fillMsg (joinPlaceholders [s "a ", s " b ", s "."] [2, 2]) [s "X", s "Y"] = some (s "a X b Y.") := by decide
example : joinPlaceholders [s "a ", s " b ", s "."] [2, 2] = s "a %2 b %2." := by decide

/-- surplus arguments are ignored; with fewer arguments than placeholders the message cannot be built (IndexError) -/
theorem registry_message_extra_args (segs : List Text) (digits : List Nat) (args : List Text)
    (hlen : segs.length = digits.length + 1) (hd : ∀ d ∈ digits, 1 ≤ d ∧ d ≤ 9)
    (hs : ∀ seg ∈ segs, ∀ c ∈ seg, c ≠ 123 ∧ c ≠ 125 ∧ c ≠ 37)
    (ha : digits.length ≤ args.length) :
    fillMsg (joinPlaceholders segs digits) args = some (interleave segs args) :=
  fillMsg_join segs digits args hlen hd (fun seg h c hc => (hs seg h c hc).2.2) ha
theorem registry_message_too_few_args (segs : List Text) (digits : List Nat) (args : List Text)
    (hlen : segs.length = digits.length + 1) (hd : ∀ d ∈ digits, 1 ≤ d ∧ d ≤ 9)
    (hs : ∀ seg ∈ segs, ∀ c ∈ seg, c ≠ 123 ∧ c ≠ 125 ∧ c ≠ 37)
    (ha : args.length < digits.length) :
    fillMsg (joinPlaceholders segs digits) args = none :=
  fillMsg_too_few segs digits args hlen hd (fun seg h c hc => (hs seg h c hc).2.2) ha

example : fillMsg (s "a %1 b %2") [s "X", s "Y", s "Z"] = some (s "a X b Y") := by decide
example : fillMsg (s "a %1 b %2") [s "X"] = none := by decide

/-- ★ the message shown for an SRC: let `e` be the first registry entry matching the SRC's code and type, with argument
    sources `srcs` each ending in an ASCII digit 2..9, and a message consisting of `segs` with one placeholder per source.
    If "Error Details" is shown at all (`errorDetails … = .some ms`) and no hex-word description is filed under the key
    "Message", then its first member is "Message" and its text is the segments interleaved with `"0x" + lower-case hex`
    of the SRC words the sources name.  (`buildMessage` itself always succeeds with that text.) -/
theorem registry_message_shown (reg : List RegEntry) (ascii : Text) (words : List Nat) (hw : words.length = 8)
    (e : RegEntry) (srcs : List Text) (segs : List Text) (digits : List Nat)
    (hfind : regLookup reg (regCode ascii) (regType ascii) = some e)
    (hsrc : e.argSources = some srcs) (hmsg : e.message = joinPlaceholders segs digits)
    (hlen : segs.length = digits.length + 1) (hd : ∀ d ∈ digits, 1 ≤ d ∧ d ≤ 9)
    (hs : ∀ seg ∈ segs, ∀ c ∈ seg, c ≠ 123 ∧ c ≠ 125 ∧ c ≠ 37)
    (hn : srcs.length = digits.length)
    (hdig : ∀ src ∈ srcs, ∃ c, src.getLast? = some c ∧ 50 ≤ c ∧ c ≤ 57) :
    buildMessage e words = .ok (interleave segs (srcs.map (srcWordHex words))) ∧
    ∀ ms, errorDetails reg ascii words = .some ms → (∀ w ∈ e.words, w.prop ≠ some (s "Message")) →
      ∃ rest, ms = (s "Message", .str (interleave segs (srcs.map (srcWordHex words)))) :: rest := by
  have hb : buildMessage e words = .ok (interleave segs (srcs.map (srcWordHex words))) := by
    unfold buildMessage
    rw [hsrc]
    simp only
    rw [argWords_digits words hw srcs hdig]
    simp only
    rw [hmsg, hasBrace_join segs digits hd (fun seg h c hc => ⟨(hs seg h c hc).1, (hs seg h c hc).2.1⟩)]
    simp only [Bool.false_eq_true, if_false]
    rw [fillMsg_join segs digits _ hlen hd (fun seg h c hc => (hs seg h c hc).2.2) (by rw [List.length_map]; omega)]
  refine ⟨hb, ?_⟩
  intro ms hms hprop
  rw [errorDetails_eq] at hms
  unfold regCode regType at hfind
  rw [hfind] at hms
  simp only [detailsOf, hb] at hms
  split at hms
  · cases hms
  · cases hwd : wordDescs words e.words [] with
    | fail => rw [hwd] at hms; cases hms
    | unsupported => rw [hwd] at hms; cases hms
    | ok descs =>
      rw [hwd] at hms
      simp only at hms
      injection hms with hms
      have hk : ∀ p ∈ descs, p.1 ≠ s "Message" := by
        intro p hp heq
        rcases wordDescs_keys words e.words [] descs hwd p hp with h | ⟨w, hw', hp'⟩
        · cases h
        · exact hprop w hw' (by rw [hp', heq])
      obtain ⟨r', hr'⟩ := objUpdate_head (s "Message") (.str (interleave segs (srcs.map (srcWordHex words)))) descs hk []
      exact ⟨r', by rw [← hms]; exact hr'⟩

/-- non-vacuity: an entry with two sources and a hex-word description, found behind a non-matching entry whose reason
    code has the SRC's code as a proper substring of another type -/
def demoReg : List RegEntry := [
  { reasonCode := some (s "0x26001234"), type := some (s "BC"), message := s "other", argSources := none, words := [] },
  { reasonCode := some (s "0x2600"), type := none, message := s "rc %1, then %2", argSources := some [s "SRCWord6", s "SRCWord9"],
    words := [{ num := s "6", desc := some (s "the rc"), prop := some (s "RC") }] },
  { reasonCode := some (s "0x2600"), type := some (s "BD"), message := s "shadowed", argSources := none, words := [] }]
theorem demo_registry_message :
    errorDetails demoReg (s "BD702600") [0, 0, 0, 0, 0xAB, 0, 0, 0x10] =
      .some [(s "Message", .str (s "rc 0xab, then 0x10")), (s "RC", .arr [.num 0xAB, .str (s "the rc")])] := rfl

/-- ★ first match: entries in front of the first matching entry are irrelevant … -/
theorem registry_first_match (pre post : List RegEntry) (e : RegEntry) (ascii : Text) (words : List Nat)
    (hpre : ∀ p ∈ pre, p.isMatch (regCode ascii) (regType ascii) = false) :
    errorDetails (pre ++ e :: post) ascii words = errorDetails (e :: post) ascii words := by
  rw [errorDetails_eq, errorDetails_eq]
  unfold regCode regType at hpre
  rw [regLookup_append_of_no_match pre (e :: post) _ _ hpre]

/-- ★ … and so is everything behind it: the first matching entry alone decides -/
theorem registry_first_match_only (pre post : List RegEntry) (e : RegEntry) (ascii : Text) (words : List Nat)
    (hpre : ∀ p ∈ pre, p.isMatch (regCode ascii) (regType ascii) = false)
    (he : e.isMatch (regCode ascii) (regType ascii) = true) :
    errorDetails (pre ++ e :: post) ascii words = errorDetails [e] ascii words := by
  rw [registry_first_match pre post e ascii words hpre, errorDetails_eq, errorDetails_eq]
  unfold regCode regType at he
  rw [regLookup_cons_match e post _ _ he, regLookup_cons_match e [] _ _ he]

/-- ★ … and when no entry matches there are no error details -/
theorem registry_no_match (reg : List RegEntry) (ascii : Text) (words : List Nat)
    (h : ∀ p ∈ reg, p.isMatch (regCode ascii) (regType ascii) = false) :
    errorDetails reg ascii words = .none := by
  rw [errorDetails_eq]
  unfold regCode regType at h
  rw [regLookup_none reg _ _ h]

example : errorDetails demoReg (s "BD702600") [0, 0, 0, 0, 0xAB, 0, 0, 0x10] =
    errorDetails (demoReg.drop 1) (s "BD702600") [0, 0, 0, 0, 0xAB, 0, 0, 0x10] := rfl
example : (demoReg.take 1).all (fun p => !p.isMatch (regCode (s "BD702600")) (regType (s "BD702600"))) = true := by decide
example : errorDetails demoReg (s "BD702601") [0, 0, 0, 0, 0xAB, 0, 0, 0x10] = .none := rfl

theorem hexword_ne_errorDetails (t : Text) : s "Hex Word " ++ t ≠ s "Error Details" := by
  have e1 : s "Hex Word " = [72, 101, 120, 32, 87, 111, 114, 100, 32] := by decide
  have e2 : s "Error Details" = [69, 114, 114, 111, 114, 32, 68, 101, 116, 97, 105, 108, 115] := by decide
  rw [e1, e2]
  intro h
  simp at h

/-- no error details (no match, an empty message, or an SRC type other than BD / 11 / BC): no "Error Details" member -/
theorem no_error_details (T : Tables) (env : SrcEnv) (h : AHdr) (creator : Text) (allow : Bool) (x : ASrc)
    (hn : errorDetails env.registry x.ascii x.words = .none ∨
          ¬ (x.ascii.take 2 = s "BD" ∨ x.ascii.take 2 = s "11" ∨ x.ascii.take 2 = s "BC")) :
    ∀ l, renderSrc T env h creator allow x = .obj l → ∀ kv ∈ l, kv.1 ≠ s "Error Details" := by
  intro l hl
  rw [renderSrc_eq] at hl
  cases hl
  simp only [srcSpecMembers, hdrMembers, List.forall_mem_append, List.forall_mem_cons, List.forall_mem_map,
    List.not_mem_nil, kv_fst]
  have hnil : ∀ (x : Text × J), x ∈ ([] : List (Text × J)) → x.fst ≠ s "Error Details" := fun _ h => nomatch h
  repeat' apply And.intro
  all_goals try decide
  all_goals try (intro _ hf; exact hf.elim)
  · refine forall_mem_ite_nil ?_
    simp only [List.forall_mem_cons, kv_fst, List.not_mem_nil]
    refine ⟨by decide, by decide, fun _ hf => hf.elim⟩
  · split
    · rename_i hc
      simp only [List.forall_mem_append, List.forall_mem_cons, kv_fst, List.not_mem_nil]
      refine ⟨⟨by decide, by decide, fun _ hf => hf.elim⟩, ?_⟩
      rcases hn with hn | hn
      · rw [hn]; exact hnil
      · exact absurd (by rcases hc with (hc | hc) | hc <;> simp [hc]) hn
    · exact hnil
  · intro j _; exact hexword_ne_errorDetails _
  · split
    · exact hnil
    · simp only [List.forall_mem_cons, kv_fst]; exact ⟨by decide, hnil⟩
  · refine forall_mem_ite_nil ?_
    split
    · simp only [List.forall_mem_cons, kv_fst]; exact ⟨by decide, hnil⟩
    · exact hnil

/-- with an empty registry (the situation of every theorem stated before the registry was modelled, and of this sandbox)
    there is never an "Error Details" member and the registry never prevents display -/
theorem registry_empty (T : Tables) (env : SrcEnv) (h : AHdr) (creator : Text) (allow : Bool) (x : ASrc)
    (hr : env.registry = []) :
    registryDisplayable env x = true ∧
    ∀ l, renderSrc T env h creator allow x = .obj l → ∀ kv ∈ l, kv.1 ≠ s "Error Details" := by
  have hnone : errorDetails env.registry x.ascii x.words = .none := by rw [hr]; rfl
  refine ⟨?_, no_error_details T env h creator allow x (Or.inl hnone)⟩
  unfold registryDisplayable
  simp only [hnone]
  split <;> rfl

/-- ★ error details that can be built are shown: a member "Error Details" holding exactly the registry's answer -/
theorem error_details_in_render (T : Tables) (env : SrcEnv) (h : AHdr) (creator : Text) (allow : Bool) (x : ASrc)
    (ms : List (Text × J)) (hty : x.ascii.take 2 = s "BD" ∨ x.ascii.take 2 = s "11" ∨ x.ascii.take 2 = s "BC")
    (he : errorDetails env.registry x.ascii x.words = .some ms) :
    ∃ l, renderSrc T env h creator allow x = .obj l ∧ (s "Error Details", J.obj ms) ∈ l := by
  rw [renderSrc_eq]
  refine ⟨_, rfl, ?_⟩
  apply List.mem_append_left
  apply List.mem_append_left
  unfold srcSpecMembers
  apply List.mem_append_left
  apply List.mem_append_left
  apply List.mem_append_right
  simp only
  rw [if_pos (by rcases hty with h | h | h <;> simp [h]), he]
  simp [kv]

/-- non-vacuity: the demo registry's answer appears in the rendering of a BD SRC, right after "Guarded" -/
def demoSrc : ASrc :=
  { version := 2, flagsHi := 0, resv1 := 0, wordCount := 9, resv2 := 0, size := 72,
    words := [0, 0, 0, 0, 0xAB, 0, 0, 0x10], ascii := s "BD702600" ++ List.replicate 24 32, callouts := none }
theorem demo_error_details :
    errorDetails demoReg demoSrc.ascii demoSrc.words =
      .some [(s "Message", .str (s "rc 0xab, then 0x10")), (s "RC", .arr [.num 0xAB, .str (s "the rc")])] ∧
    demoSrc.ascii.take 2 = s "BD" := ⟨rfl, by decide⟩
theorem demo_src_wf : demoSrc.WF := by
  have e : s "BD702600" = [66, 68, 55, 48, 50, 54, 48, 48] := by decide
  simp only [ASrc.WF, demoSrc, isAscii, e]
  simp

/-- non-vacuity of `registry_message_shown`: its hypotheses hold for the demo entry (two sources, two placeholders) -/
theorem demo_message_hyps :
    buildMessage { reasonCode := some (s "0x2600"), type := none, message := s "rc %1, then %2",
                   argSources := some [s "SRCWord6", s "SRCWord9"],
                   words := [{ num := s "6", desc := some (s "the rc"), prop := some (s "RC") }] }
        [0, 0, 0, 0, 0xAB, 0, 0, 0x10] =
      .ok (interleave [s "rc ", s ", then ", []] ([s "SRCWord6", s "SRCWord9"].map (srcWordHex [0, 0, 0, 0, 0xAB, 0, 0, 0x10]))) :=
  (registry_message_shown demoReg (s "BD702600") [0, 0, 0, 0, 0xAB, 0, 0, 0x10] rfl _ [s "SRCWord6", s "SRCWord9"]
    [s "rc ", s ", then ", []] [1, 2] (by decide) rfl (by decide) (by decide) (by decide) (by decide) (by decide)
    (by
      intro src hsrc
      rcases List.mem_cons.1 hsrc with h | h
      · exact ⟨54, by rw [h]; decide, by decide, by decide⟩
      · rcases List.mem_cons.1 h with h | h
        · exact ⟨57, by rw [h]; decide, by decide, by decide⟩
        · cases h)).1

def demoEnv : SrcEnv := { callout := fun _ => .absent, src := fun _ => .absent, registry := demoReg }
theorem demo_rendered (T : Tables) (h : AHdr) (creator : Text) (allow : Bool) :
    ∃ l, renderSrc T demoEnv h creator allow demoSrc = .obj l ∧
      (s "Error Details", J.obj [(s "Message", .str (s "rc 0xab, then 0x10")), (s "RC", .arr [.num 0xAB, .str (s "the rc")])]) ∈ l :=
  error_details_in_render T demoEnv h creator allow demoSrc _ (Or.inl demo_error_details.2) demo_error_details.1
theorem demo_displayable : srcDisplayable demoEnv (s "O") true demoSrc = true := by decide

end Pel.C03
