import PelGen.GenIoDrawer
import PelProofs.Ilog
import PelProofs.TieIoDrawer
import PelProps.C14
/-
  C14, source tie: the functions of modules/io_drawer/utils.py and ilog.py that harness/trans_iodrawer.py regenerates from
  the CURRENT source text (lean/PelGen/GenIoDrawer.lean) are equal to the hand-written model functions the C14 theorems are
  about.  `Pel.Gen.<f>? = none` (the source left the translatable subset) makes the theorem about <f> vacuous: then the
  correspondence run is the only tie for that function.
-/
set_option linter.unusedSimpArgs false
set_option linter.unusedVariables false
namespace Pel.Tie
open Pel

/-- `format_timestamp` (utils.py) = `formatTimestamp`, for every second counter -/
theorem io_format_timestamp (g) (h : Pel.Gen.io_format_timestamp? = some g) : g = formatTimestamp := by
  cases h <;> (
  funext t
  first
  | rfl
  | (unfold formatTimestamp
     by_cases hlt : t ≥ 0xFFFF
     · simp [hlt]; rfl
     · simp only [hlt, if_false, Bool.or_eq_true, Bool.and_eq_true, Bool.not_eq_true', decide_eq_true_eq, decide_eq_false_iff_not,
         Nat.not_lt_zero, or_self, false_or, or_false]
       try simp (disch := omega) only [IoSem.fmtDec0I_nonneg, IoSem.fmtDecSpI_nonneg, IoSem.natDecI_nonneg]
       tie_congr)
  )

/-- `PTETableEntry._is_reported_error_pte` = `isReportedError` (masks and values are the module constants' literals) -/
theorem io_pte_is_reported_error (g) (h : Pel.Gen.io_pte_is_reported_error? = some g) : g = isReportedError := by
  cases h <;> (
  first
  | rfl
  | (funext pte; simp [isReportedError, Bool.and_comm])
  )

/-- `PTETableEntry._is_exact_match` = `isExactMatch` -/
theorem io_pte_is_exact_match (g) (h : Pel.Gen.io_pte_is_exact_match? = some g) : g = isExactMatch := by
  cases h <;> (
  funext e pte
  simp only [isExactMatch, IoSem.wildFullmatch]
  cases wildMatch e.pattern (fmtHex 8 pte) <;> rfl
  )

/-- `PTETableEntry.matches` = `pteMatches` on 32-bit values (what `get_int(4)` yields).  The hypothesis is needed: Python clears
    the reported flag with `pte &= ~REPORTED_MASK` on an unbounded int, the model masks to 32 bits (`&&& (0xFFFFFFFF - mask)`);
    above 2^32 the two differ (the Python text then still has nine hex digits, the model's has eight). -/
theorem io_pte_matches (g) (h : Pel.Gen.io_pte_matches? = some g) :
    ∀ e pte, pte < 2 ^ 32 → g e pte = pteMatches e pte := by
  cases h <;> (
  intro e pte hp
  unfold pteMatches
  simp (disch := decide) only [IoSem.andNot_eq_and pte _ hp]
  repeat' split
  all_goals simp_all
  )

theorem getEntry_forEach (tbl : List PteEntry) (pte : Nat) (f : PteEntry → Unit → IoSem.Step Unit (Option PteEntry))
    (hf : ∀ e u, f e u = if pteMatches e pte then .ret (some e) else .next ()) :
    IoSem.LoopOut.elim (fun r => r) (fun _ => none) (IoSem.forEach tbl () f) = getEntry tbl pte := by
  induction tbl with
  | nil => rfl
  | cons e es ih =>
    by_cases hc : pteMatches e pte = true
    · simp [IoSem.forEach, getEntry, hf, hc]
    · simp [IoSem.forEach, getEntry, hf, hc]; exact ih

/-- `PTETable.get_entry` (the loop with its early return) = `getEntry` -/
theorem io_get_entry (g) (h : Pel.Gen.io_get_entry? = some g) : g = getEntry := by
  cases h <;> (
  funext tbl pte
  exact getEntry_forEach tbl pte _ (fun e u => by first | rfl | (simp only []; split <;> simp_all))
  )

theorem get_message_args (pte : Nat) (ps : List Nat) :
    optAll ((validParams ps).map (fun (p : Nat) => IoSem.index? (IoSem.toBytesBE 4 (pte &&& 4294967295)) ((p : Int) - 1)))
      = some ((validParams ps).map (pteByte pte)) := by
  apply IoSem.optAll_map_some
  intro p hp
  have hp' : 1 ≤ p ∧ p ≤ 4 := by
    simp only [validParams, List.mem_filter, Bool.and_eq_true, decide_eq_true_eq] at hp
    exact hp.2
  have e : pte &&& 4294967295 = pte % 2 ^ 32 := Nat.and_two_pow_sub_one_eq_mod pte 32
  rw [e]
  unfold pteByte IoSem.toBytesBE
  exact IoSem.index?_pos _ p 0 hp'.1 (by simp; exact hp'.2)

/-- `PTETableEntry.get_message` = `pteMessage` (`none` = the format leaves the modelled `%` subset; the proof shows that the byte
    indexing never raises: the parameters were restricted to 1..4 by `__init__`) -/
theorem io_pte_get_message (g) (h : Pel.Gen.io_pte_get_message? = some g) : g = pteMessage := by
  cases h <;> (
  funext e pte
  unfold pteMessage
  simp only []
  rw [show (List.filter (fun x1 => decide (x1 ≥ 1) && decide (x1 ≤ 4)) e.params) = validParams e.params from rfl,
    get_message_args]
  simp only [Option.bind_some]
  cases pyFmtOrRaw e.fmt (List.map (pteByte pte) (validParams e.params)) with
  | none => rfl
  | some m => simp only [Option.bind_some]; split <;> rfl
  )

/-- one iteration of `while stream.check_range(8)` as the model sees it -/
def ilogStep (tbl : List PteEntry) (acc : List Text) (st : IoSem.Stream) : IoSem.Step (List Text × IoSem.Stream) (IoSem.Res (List Text)) :=
  if st.index + 8 ≤ st.data.length then
    let ts := fromBE (st.rest.take 2)
    let seq := fromBE ((st.rest.drop 2).take 2)
    let pte := fromBE ((st.rest.drop 4).take 4)
    if ts = 0 ∧ seq = 0 ∧ pte = 0 then .next (acc, st.advance 8)
    else match ilogLine tbl ts seq pte with
      | none => .ret .unknown
      | some l => .next (acc ++ [l], st.advance 8)
  else .brk (acc, st)

theorem ilog_while (tbl : List PteEntry) (f : List Text × IoSem.Stream → IoSem.Step (List Text × IoSem.Stream) (IoSem.Res (List Text)))
    (hf : ∀ acc st, f (acc, st) = ilogStep tbl acc st) :
    ∀ (fuel : Nat) (acc : List Text) (st : IoSem.Stream), st.rest.length < fuel →
      IoSem.LoopOut.elimW .unknown (fun r => r) (fun s => .ok s.1) (IoSem.whileLoop fuel (acc, st) f) =
        match ilogLoop tbl st.rest with
        | none => .unknown
        | some ls => .ok (acc ++ ls) := by
  intro fuel
  induction fuel with
  | zero => intro acc st h; omega
  | succ k ih =>
    intro acc st h
    rw [ilogLoop]
    simp only [IoSem.whileLoop, hf, ilogStep, IoSem.rest_length]
    by_cases h8 : st.index + 8 ≤ st.data.length
    · have h8' : 8 ≤ st.data.length - st.index := by omega
      simp only [h8, h8', if_true, dite_true]
      have hlen : (st.advance 8).rest.length < k := by
        rw [IoSem.rest_length] at h ⊢; simp; omega
      have ihh := ih
      by_cases hz : fromBE (st.rest.take 2) = 0 ∧ fromBE ((st.rest.drop 2).take 2) = 0 ∧ fromBE ((st.rest.drop 4).take 4) = 0
      · simp only [hz, and_self, if_true]
        rw [ih acc _ hlen, IoSem.advance_rest]
        cases ilogLoop tbl (List.drop 8 st.rest) <;> rfl
      · simp only [hz, if_false]
        cases hl : ilogLine tbl (fromBE (st.rest.take 2)) (fromBE ((st.rest.drop 2).take 2)) (fromBE ((st.rest.drop 4).take 4)) with
        | none =>
          simp only [IoSem.LoopOut.elimW]
          cases ilogLoop tbl (List.drop 8 st.rest) <;> rfl
        | some l =>
          simp only []
          rw [ih _ _ hlen, IoSem.advance_rest]
          cases ilogLoop tbl (List.drop 8 st.rest) <;> simp
    · have h8' : ¬ 8 ≤ st.data.length - st.index := by omega
      simp [h8, h8', IoSem.LoopOut.elimW]

/-- `parse_ilog_data` (heading lines, the `while` loop with its all-zero `continue`, look-up, line format) = `parseIlog`;
    `.unknown` = a message format outside the modelled `%` subset (the model's `none`).  The loop fuel chosen by the translator
    (bytes + 1) is shown to suffice; no stream operation raises. -/
theorem io_parse_ilog_data (g) (h : Pel.Gen.io_parse_ilog_data? = some g) :
    g = fun tbl b => IoSem.Res.ofOpt (parseIlog tbl b) := by
  cases h <;> (
  funext tbl b
  simp only []
  rw [ilog_while tbl _ ?hf _ _ _ (by simp [IoSem.Stream.new, IoSem.Stream.rest])]
  case hf =>
    intro acc st
    unfold ilogStep
    rw [IoSem.checkRange_pos st 8 (by decide)]
    simp only [IoSem.bindStep_ok]
    by_cases h8 : st.index + 8 ≤ st.data.length
    · have h8' : (st.index : Int) + 8 ≤ (st.data.length : Int) := by omega
      simp only [h8, h8', decide_true, if_true]
      rd_step; rd_step; rd_step
      simp only [IoSem.advance_advance, IoSem.advance_rest, Nat.reduceAdd, List.drop_drop]
      generalize fromBE (List.take 2 st.rest) = ts
      generalize fromBE (List.take 2 (List.drop 2 st.rest)) = seq
      generalize fromBE (List.take 4 (List.drop 4 st.rest)) = pte
      by_cases hz : ts = 0 ∧ seq = 0 ∧ pte = 0
      · obtain ⟨h1, h2, h3⟩ := hz; subst h1 h2 h3; simp
      · have hz' : (ts == 0 && seq == 0 && pte == 0) = false := by
          simp only [Bool.and_eq_false_iff, beq_eq_false_iff_ne, ne_eq]; omega
        simp only [hz, hz', Bool.false_eq_true, if_false, ilogLine]
        cases getEntry tbl pte with
        | none => simp [s]
        | some e => simp only []; generalize pteMessage e pte = m; cases m <;> simp [IoSem.Res.ofOpt, IoSem.Res.bindStep]
    · have h8' : ¬ (st.index : Int) + 8 ≤ (st.data.length : Int) := by omega
      simp only [h8, h8', decide_false, Bool.false_eq_true, if_false]
  · simp only [parseIlog, IoSem.Stream.new, IoSem.Stream.rest, List.drop_zero]
    cases ilogLoop tbl b <;> simp [IoSem.Res.ofOpt, ilogHeading, s]
  )

/-- ★ `C14.entries_roundtrip` transported to the regenerated `parse_ilog_data`: on every sequence of well-formed entries followed
    by a partial entry the source text produces the lines the property describes -/
theorem io_parse_ilog_data_entries (g) (h : Pel.Gen.io_parse_ilog_data? = some g) (tbl : List PteEntry) (es : List IlogEntry)
    (tail : Bytes) (hes : ∀ e ∈ es, e.WF) (ht : tail.length < 8) :
    g tbl (es.flatMap IlogEntry.enc ++ tail) = IoSem.Res.ofOpt (specIlog tbl es) := by
  rw [io_parse_ilog_data g h]
  simp only [C14.entries_roundtrip tbl es tail hes ht]

/-- ★ `C14.first_match` transported to the regenerated `get_entry`: what the source text says is "first table entry, in header-file
    order, that matches as is or - for a reported error - with the reported flag cleared" -/
theorem io_get_entry_first_match (g) (h : Pel.Gen.io_get_entry? = some g) (tbl : List PteEntry) (pte : Nat) (hp : pte < 2 ^ 32) :
    g tbl pte = tbl.find? (fun e => specMatches e pte) := by
  rw [io_get_entry g h]
  exact C14.first_match tbl pte hp

end Pel.Tie
