import PelModel.Plugins
import PelProofs.Plugins
/-
  C19 — Decoding a PEL gives the same result whatever was decoded before it.
  The state that survives a decode is the four module tables (`userDataParsers`, `srcParsers`, `calloutParsers`,
  `osrcParsers`) and the component-id table with its "attempted" flag.  The model contains the UPDATE RULES of that state as
  the code has them (`udLookup`, `srcLookup`, `calloutLookup`, `osrcLookup`, `compIdLookup`: PelModel/Plugins.lean); a decode
  looks everything up THROUGH the state and leaves the state its look-ups produce (`stepCaches`, any ordered list of look-ups).
  Nothing is assumed about the rules: that they keep the state coherent is proved here.
-/
namespace Pel.C19

/-- a fresh process has coherent (empty) tables -/
theorem coherent_init (env : ProcEnv) : Coherent env {} :=
  ⟨fun _ => rfl, fun _ => rfl, fun _ => rfl, fun _ => rfl, rfl⟩

/-- ★ with coherent tables a decode gives exactly the result of a decode in a fresh process -/
theorem coherent_decode (env : ProcEnv) (cfg : SelCfg) (c : Caches) (b : Bytes) (hc : Coherent env c) :
    parsePEL (env.through c) cfg b = parsePEL env.fresh cfg b := by
  rw [through_eq_of_coherent env c hc]

/-! ### the update rules keep the tables coherent -/

/-- ★ `parseCustom` / `userDataParsers` -/
theorem ud_lookup_preserves_coherent (env : ProcEnv) (c : Cache UdPlugin) (m : Text)
    (hc : ∀ n, (udLookup env c n).1 = (udLookup env [] n).1) :
    ∀ n, (udLookup env (udLookup env c m).2 n).1 = (udLookup env [] n).1 :=
  fun n => (udLookup_stable env c m n).trans (hc n)

/-- ★ `SRC.parse` / `srcParsers` -/
theorem src_lookup_preserves_coherent (env : ProcEnv) (c : Cache SrcMod) (m : Text)
    (hc : ∀ n, (srcLookup env c n).1 = (srcLookup env [] n).1) :
    ∀ n, (srcLookup env (srcLookup env c m).2 n).1 = (srcLookup env [] n).1 :=
  fun n => (srcLookup_stable env c m n).trans (hc n)

/-- ★ `getProcedureDesc` / `calloutParsers` -/
theorem callout_lookup_preserves_coherent (env : ProcEnv) (c : Cache CalloutPlugin) (m : Text)
    (hc : ∀ n, (calloutLookup env c n).1 = (calloutLookup env [] n).1) :
    ∀ n, (calloutLookup env (calloutLookup env c m).2 n).1 = (calloutLookup env [] n).1 :=
  fun n => (calloutLookup_stable env c m n).trans (hc n)

/-- ★ `osrc.parseSRCToJson` / `osrcParsers` -/
theorem osrc_lookup_preserves_coherent (env : ProcEnv) (c : Cache SrcPlugin) (m : Text)
    (hc : ∀ n, (osrcLookup env c n).1 = (osrcLookup env [] n).1) :
    ∀ n, (osrcLookup env (osrcLookup env c m).2 n).1 = (osrcLookup env [] n).1 :=
  fun n => (osrcLookup_stable env c m n).trans (hc n)

/-- ★ `getDisplayCompID` / `componentIDs`, `attemptedToParseCompIDs` -/
theorem compid_lookup_preserves_coherent (dir : Option ConfDir) (st : CompIdState)
    (hc : (compIdLookup dir st).1 = (compIdLookup dir {}).1) :
    (compIdLookup dir (compIdLookup dir st).2).1 = (compIdLookup dir {}).1 := by
  rw [compIdLookup_idem]; exact hc

/-- ★ all five together: one look-up, at any site, of any module -/
theorem lookup_preserves_coherent (env : ProcEnv) (c : Caches) (l : Lookup) (hc : Coherent env c) :
    Coherent env (stepLookup env c l) :=
  hc.of_sameView (stepLookup_sameView env c l)

/-- ★ more than coherence: for ANY tables (coherent or not) the look-ups of a decode never change what a look-up hands to
    the decoder — an entry is written once, under a name that is not a key, and shows what the import showed.  (This is why
    `decodeS` may compute the whole decode through the tables as they were when it started.) -/
theorem lookups_stable (env : ProcEnv) (c : Caches) (t : List Lookup) :
    (∀ n, (udLookup env (stepCaches env c t).ud n).1 = (udLookup env c.ud n).1) ∧
    (∀ n, (srcLookup env (stepCaches env c t).src n).1 = (srcLookup env c.src n).1) ∧
    (∀ n, (calloutLookup env (stepCaches env c t).callout n).1 = (calloutLookup env c.callout n).1) ∧
    (∀ n, (osrcLookup env (stepCaches env c t).osrc n).1 = (osrcLookup env c.osrc n).1) ∧
    (compIdLookup env.confDir (stepCaches env c t).comp).1 = (compIdLookup env.confDir c.comp).1 :=
  let h := stepCaches_sameView env t c
  ⟨h.ud, h.src, h.callout, h.osrc, h.comp⟩

theorem through_stable (env : ProcEnv) (c : Caches) (t : List Lookup) :
    env.through (stepCaches env c t) = env.through c := by
  obtain ⟨h1, h2, h3, h4, h5⟩ := lookups_stable env c t
  have e1 : (fun n => (udLookup env (stepCaches env c t).ud n).1) = (fun n => (udLookup env c.ud n).1) := funext h1
  have e2 : seenSrc env (stepCaches env c t) = seenSrc env c := by
    funext n; unfold seenSrc; rw [h2 n, h2 (s "osrc"), h4 n]
  have e3 : seenCallout env (stepCaches env c t) = seenCallout env c := by
    funext n; unfold seenCallout; rw [h3 n]
  unfold ProcEnv.through
  rw [e1, e2, e3, h5]

/-- ★ coherence is preserved by every decode: well-formed, damaged or failing input, whatever it looked up, in whatever order -/
theorem inv_preserved (env : ProcEnv) (cfg : SelCfg) (c : Caches) (b : Bytes) (t : List Lookup) (hc : Coherent env c) :
    Coherent env (decodeS env cfg c b t).2 :=
  hc.of_sameView (stepCaches_sameView env t c)

theorem history_coherent (env : ProcEnv) (cfg : SelCfg) (h : List (Bytes × List Lookup)) (c : Caches) (hc : Coherent env c) :
    Coherent env (runHistory env cfg c h) := by
  induction h generalizing c with
  | nil => exact hc
  | cons p h ih =>
    obtain ⟨b, t⟩ := p
    unfold runHistory
    exact ih _ (inv_preserved env cfg c b t hc)

/-- ★ history independence: after ANY sequence of decodes the result for `b` is the result of decoding `b` first -/
theorem history_independent (env : ProcEnv) (cfg : SelCfg) (h : List (Bytes × List Lookup)) (b : Bytes) (t : List Lookup) :
    (decodeS env cfg (runHistory env cfg {} h) b t).1 = parsePEL env.fresh cfg b :=
  coherent_decode env cfg _ b (history_coherent env cfg h {} (coherent_init env))

/-- decoding the same input twice, or in another order of the directory, gives identical output -/
theorem repeat_same (env : ProcEnv) (cfg : SelCfg) (h h' : List (Bytes × List Lookup)) (b : Bytes) (t t' : List Lookup) :
    (decodeS env cfg (runHistory env cfg {} h) b t).1 = (decodeS env cfg (runHistory env cfg {} h') b t').1 := by
  rw [history_independent, history_independent]

/-! ### what the tables hold -/

theorem exact_history (env : ProcEnv) (cfg : SelCfg) (h : List (Bytes × List Lookup)) (c : Caches) (hc : Exact env c) :
    Exact env (runHistory env cfg c h) := by
  induction h generalizing c with
  | nil => exact hc
  | cons p h ih =>
    obtain ⟨b, t⟩ := p
    unfold runHistory
    exact ih _ (hc.steps env t c)

/-- ★ after any history from the empty tables: `(n, None)` only for modules whose import fails — user data: ImportError;
    SRC and callout: any failure; osrc: ModuleNotFoundError only — and `(n, module)` only with that module's behaviour; a
    user-data module whose import raises something that is not an ImportError is never stored; the component-id table is
    empty before the one attempt and the loader's result after it -/
theorem cache_contents (env : ProcEnv) (cfg : SelCfg) (h : List (Bytes × List Lookup)) :
    (∀ n v, (n, v) ∈ (runHistory env cfg {} h).ud → UdEntryOk env n v) ∧
    (∀ n msg, env.ud n = .importRaises msg → ∀ v, (n, v) ∉ (runHistory env cfg {} h).ud) ∧
    (∀ n v, (n, v) ∈ (runHistory env cfg {} h).src → SrcEntryOk env n v) ∧
    (∀ n v, (n, v) ∈ (runHistory env cfg {} h).callout → CalloutEntryOk env n v) ∧
    (∀ n v, (n, v) ∈ (runHistory env cfg {} h).osrc → OsrcEntryOk env n v) ∧
    CompStateOk env (runHistory env cfg {} h).comp := by
  have hx := exact_history env cfg h {} (Exact.init env)
  refine ⟨hx.ud, ?_, hx.src, hx.callout, hx.osrc, hx.comp⟩
  intro n msg he v hv
  have := hx.ud n v hv
  cases v with
  | none => unfold UdEntryOk at this; rw [he] at this; exact UdPlugin.noConfusion this
  | some b => exact this.2.2 msg (this.1.symm.trans he)

/-- the tables are dicts: no module name is stored twice (the rules only assign to a name that is not a key) -/
theorem cache_keys_distinct (env : ProcEnv) (cfg : SelCfg) (h : List (Bytes × List Lookup)) :
    ((runHistory env cfg {} h).ud.map (·.1)).Nodup ∧ ((runHistory env cfg {} h).src.map (·.1)).Nodup ∧
    ((runHistory env cfg {} h).callout.map (·.1)).Nodup ∧ ((runHistory env cfg {} h).osrc.map (·.1)).Nodup :=
  let hx := exact_history env cfg h {} (Exact.init env)
  ⟨hx.udKeys, hx.srcKeys, hx.calloutKeys, hx.osrcKeys⟩

/-! ### the repaired defect -/

/-- documentation of the repaired defect: a table that stored "not found" for a module that exists (as the code did after
    a failing parser call) is not coherent, and the module is then no longer consulted -/
theorem poisoned_cache_not_coherent (env : ProcEnv) (n : Text) (he : env.ud n = .echo) :
    ¬ Coherent env { ud := [(n, none)] } ∧ (env.through { ud := [(n, none)] }).ud n = .absent := by
  have hl : (udLookup env [(n, none)] n).1 = .absent := by
    rw [udLookup_fst]; unfold seenVia; rw [cacheGet_cons]; simp [udHit]
  refine ⟨?_, hl⟩
  intro hc
  have := hc.1 n
  rw [udLookup_nil, he] at this
  rw [show ({ ud := [(n, none)] } : Caches).ud = [(n, none)] from rfl, hl] at this
  exact UdPlugin.noConfusion this

/-! a concrete world: user-data, SRC, callout and component modules of every behaviour, a configuration directory -/

def exTables : Tables :=
  { creators := [], sectionNames := [], subsystems := [], severities := [], eventTypes := [], eventScopes := [],
    actionFlags := [], transStates := [], failingCompTypes := [], calloutPriorities := [], compIds := [] }

def exEnv : ProcEnv :=
  { T := exTables,
    ud := fun n => if n = s "x1111" then .echo else if n = s "x2222" then .raises (s "boom")
                   else if n = s "x8888" then .importRaises (s "load failure") else .absent,
    src := { callout := fun n => if n = s "x" then .table [(s "PROC0001", [s "line one"])] else .absent,
             src := fun n => if n = s "xsrc" then .echo else if n = s "o8d00" then .echo else .absent },
    allowPlugins := true,
    srcFault := fun n => if n = s "ysrc" then .other else if n = s "o7700" then .other
                         else if n = s "o7800" then .importError else .notFound,
    calloutFault := fun n => if n = s "y" then .other else .notFound,
    confDir := some [(s "O_component_ids.json", [(s "2000", s "bmc")]), (s "message_registry.json", []),
                     (s "B_component_ids.json.bak", [(s "2000", s "hb")]), (s "O_component_ids.json.orig", [(s "2000", s "old")])] }

/-- one decode that consulted every site: modules that exist, that are not there, whose import raises, twice -/
def exLookups : List Lookup :=
  [.compId, .ud (s "x1111"), .ud (s "x4444"), .ud (s "x8888"), .ud (s "x8888"), .ud (s "x2222"), .ud (s "x1111"),
   .src (s "xsrc"), .src (s "ysrc"), .src (s "zsrc"), .src (s "osrc"), .osrc (s "o8d00"), .osrc (s "o7700"), .osrc (s "o7800"),
   .osrc (s "o9900"), .osrc (s "o7700"), .callout (s "x"), .callout (s "y"), .callout (s "z"), .compId]

/-- ★ `old_rule_breaks_coherence`: the pre-fix rule (an ImportError that leaves the parser CALL stores `None`) applied to the
    coherent tables of a fresh process yields tables that are not coherent; so does the pre-fix callout rule -/
theorem old_rule_breaks_coherence :
    Coherent exEnv {} ∧
    ¬ Coherent exEnv { ud := (udLookupOld exEnv [] (s "x2222") true).2 } ∧
    ¬ Coherent exEnv { callout := (calloutLookupOld exEnv [] (s "x") true).2 } := by
  refine ⟨coherent_init _, ?_, ?_⟩
  · intro hc
    exact absurd (hc.1 (s "x2222")) (by decide)
  · intro hc
    exact absurd (hc.2.2.1 (s "x")) (by decide)

/-! ### non-vacuity -/

/-- the rules at work (`cache_contents`, `lookup_preserves_coherent` are about something): `x8888` (import raises) is looked
    up twice and stored never; `ysrc` (import raises) is stored as `None`; `o7700`, `o7800` (import raises) are not stored by
    the wrapper, `o9900` (not there) is -/
example : (stepCaches exEnv {} exLookups).ud =
    [(s "x2222", some (.raises (s "boom"))), (s "x4444", none), (s "x1111", some .echo)] := by decide
example : (stepCaches exEnv {} exLookups).src =
    [(s "osrc", some .osrcWrapper), (s "zsrc", none), (s "ysrc", none), (s "xsrc", some (.parser .echo))] := by decide
example : (stepCaches exEnv {} exLookups).osrc = [(s "o9900", none), (s "o8d00", some .echo)] := by decide
example : (stepCaches exEnv {} exLookups).callout =
    [(s "z", none), (s "y", none), (s "x", some (.table [(s "PROC0001", [s "line one"])]))] := by decide
/-- a file is loaded when its name CONTAINS the suffix; the later file of the same prefix wins -/
example : (stepCaches exEnv {} exLookups).comp =
    { attempted := true, table := [(s "O", [(s "2000", s "old")]), (s "B", [(s "2000", s "hb")])] } := by decide
example : (stepCaches exEnv {} [.compId]).comp = (stepCaches exEnv {} exLookups).comp := by decide

/-- `lookup_preserves_coherent`, `inv_preserved`, `history_coherent`: the hypothesis is met by tables that are not empty -/
example : Coherent exEnv (stepCaches exEnv {} exLookups) :=
  inv_preserved exEnv {} {} [] exLookups (coherent_init exEnv)
example : Coherent exEnv (stepLookup exEnv (stepCaches exEnv {} exLookups) (.ud (s "x8888"))) :=
  lookup_preserves_coherent _ _ _ (inv_preserved exEnv {} {} [] exLookups (coherent_init exEnv))

/-- `lookups_stable` on tables that are NOT coherent: the poisoned entry stays, and stays visible -/
example : (udLookup exEnv (stepCaches exEnv { ud := [(s "x1111", none)] } exLookups).ud (s "x1111")).1 = .absent := by decide

/-- `history_independent`, `repeat_same`: a history of two decodes, then a third -/
example (cfg : SelCfg) (b0 b1 b : Bytes) :
    (decodeS exEnv cfg (runHistory exEnv cfg {} [(b0, exLookups), (b1, [.ud (s "x8888"), .osrc (s "o7700")])]) b exLookups).1 =
    parsePEL exEnv.fresh cfg b := history_independent _ _ _ _ _
/-- … and the fresh environment of `exEnv` has the loaded component-id table -/
example : exEnv.fresh.T.compIds = [(s "O", [(s "2000", s "old")]), (s "B", [(s "2000", s "hb")])] := by decide

/-- `cache_contents` on a concrete history: the module whose import raises is in no table, the one that is not there is `None` -/
example (cfg : SelCfg) (b0 : Bytes) : ∀ v, (s "x8888", v) ∉ (runHistory exEnv cfg {} [(b0, exLookups)]).ud :=
  (cache_contents exEnv cfg [(b0, exLookups)]).2.1 (s "x8888") (s "load failure") (by decide)
example (cfg : SelCfg) (b0 : Bytes) : (s "x4444", none) ∈ (runHistory exEnv cfg {} [(b0, exLookups)]).ud := by
  show (s "x4444", none) ∈ (stepCaches exEnv {} exLookups).ud
  decide
/-- `cache_contents`: the import outcomes it speaks about all occur in `exEnv` -/
example : exEnv.srcSiteImport (s "ysrc") = .failed .other ∧ exEnv.srcImport (s "o7800") = .failed .importError ∧
    exEnv.srcImport (s "o9900") = .failed .notFound ∧ exEnv.calloutImport (s "y") = .failed .other ∧
    exEnv.ud (s "x8888") = .importRaises (s "load failure") := by decide

end Pel.C19
