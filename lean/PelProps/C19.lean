namespace Pel.C19
end Pel.C19
