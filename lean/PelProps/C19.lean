import PelModel.Plugins
import PelProofs.Plugins
/-
  C19 — Decoding a PEL gives the same result whatever was decoded before it.
  The only state that survives a decode in the model is the three module caches; a decode looks modules up THROUGH the
  caches and afterwards stores the import results of whatever modules it touched (any set).
-/
namespace Pel.C19

/-- a fresh process has coherent (empty) caches -/
theorem coherent_init (env : Env) : Coherent env {} :=
  ⟨fun n => lookCache_nil _ n, fun n => lookCache_nil _ n, fun n => lookCache_nil _ n⟩

/-- ★ with coherent caches a decode gives exactly the result of a decode in a fresh process -/
theorem coherent_decode (env : Env) (cfg : SelCfg) (c : Caches) (b : Bytes) (hc : Coherent env c) :
    parsePEL (env.through c) cfg b = parsePEL env cfg b := by
  rw [through_eq_of_coherent env c hc]

/-- ★ coherence is preserved by every decode: well-formed, damaged or failing input, whatever modules it touched -/
theorem inv_preserved (env : Env) (cfg : SelCfg) (c : Caches) (b : Bytes) (t : Touched) (hc : Coherent env c) :
    Coherent env (decodeS env cfg c b t).2 := by
  obtain ⟨h1, h2, h3⟩ := hc
  exact ⟨storeImports_coherent _ _ _ h1, storeImports_coherent _ _ _ h2, storeImports_coherent _ _ _ h3⟩

theorem history_coherent (env : Env) (cfg : SelCfg) (h : List (Bytes × Touched)) (c : Caches) (hc : Coherent env c) :
    Coherent env (runHistory env cfg c h) := by
  induction h generalizing c with
  | nil => exact hc
  | cons p h ih =>
    obtain ⟨b, t⟩ := p
    unfold runHistory
    exact ih _ (inv_preserved env cfg c b t hc)

/-- ★ history independence: after ANY sequence of decodes the result for `b` is the result of decoding `b` first -/
theorem history_independent (env : Env) (cfg : SelCfg) (h : List (Bytes × Touched)) (b : Bytes) (t : Touched) :
    (decodeS env cfg (runHistory env cfg {} h) b t).1 = parsePEL env cfg b :=
  coherent_decode env cfg _ b (history_coherent env cfg h {} (coherent_init env))

/-- decoding the same input twice, or in another order of the directory, gives identical output -/
theorem repeat_same (env : Env) (cfg : SelCfg) (h h' : List (Bytes × Touched)) (b : Bytes) (t t' : Touched) :
    (decodeS env cfg (runHistory env cfg {} h) b t).1 = (decodeS env cfg (runHistory env cfg {} h') b t').1 := by
  rw [history_independent, history_independent]

/-- documentation of the repaired defect: a cache that stored "not found" for a module that exists (as the code did after
    a failing parser call) is not coherent, and the module is then no longer consulted -/
theorem poisoned_cache_not_coherent (env : Env) (n : Text) (he : env.ud n = .echo) :
    ¬ Coherent env { ud := [(n, .absent)] } ∧ (env.through { ud := [(n, .absent)] }).ud n = .absent := by
  have hl : lookCache [(n, UdPlugin.absent)] env.ud n = .absent := by
    rw [lookCache_cons]; simp
  refine ⟨?_, hl⟩
  intro hc
  have := hc.1 n
  rw [he] at this
  rw [show ({ ud := [(n, .absent)] } : Caches).ud = [(n, UdPlugin.absent)] from rfl, hl] at this
  exact UdPlugin.noConfusion this

end Pel.C19
