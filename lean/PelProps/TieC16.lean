import PelGen.GenIoDrawer
import PelProofs.Hlog
import PelProofs.TieIoDrawer
import PelProps.C16
/-
  C16, source tie: `parse_hlog_data` (modules/io_drawer/hlog.py) as harness/trans_iodrawer.py regenerates it from the CURRENT
  source text - heading lines, hex dump, the cursor loop over the fields with its `break`, the `!= 0` test, the format of a field
  line - equals the hand-written `parseHlog`, PROVIDED EVERY FIELD SIZE IS POSITIVE.  The hypothesis is needed: for a field of
  size 0 `stream.check_range(0)` raises AssertionError, while the model function goes on (the header pattern `([12])` only
  allows sizes 1 and 2, see C16.hlog_header_roundtrip; the model says so in its comment).  No stream operation raises otherwise.
-/
set_option linter.unusedSimpArgs false
set_option linter.unusedVariables false
namespace Pel.Tie
open Pel

/-- one iteration of the field loop as the model sees it (size 0: the range check raises) -/
def hlogStep (f : HlogField) (acc : List Text) (st : IoSem.Stream) : IoSem.Step (List Text × IoSem.Stream) (IoSem.Res (List Text)) :=
  if f.2 = 0 then .ret .raised
  else if st.index + f.2 ≤ st.data.length then
    let v := fromBE (st.rest.take f.2)
    if v ≠ 0 then .next (acc ++ [hlogFieldLine f.1 f.2 v], st.advance f.2) else .next (acc, st.advance f.2)
  else .brk (acc, st)

theorem hlog_forEach (fn : HlogField → List Text × IoSem.Stream → IoSem.Step (List Text × IoSem.Stream) (IoSem.Res (List Text)))
    (hf : ∀ f acc st, fn f (acc, st) = hlogStep f acc st) :
    ∀ (fields : List HlogField) (acc : List Text) (st : IoSem.Stream), (∀ f ∈ fields, 0 < f.2) →
      IoSem.LoopOut.elim (fun r => r) (fun s => .ok s.1) (IoSem.forEach fields (acc, st) fn) = .ok (acc ++ hlogFields fields st.rest) := by
  intro fields
  induction fields with
  | nil => intro acc st _; simp [IoSem.forEach, hlogFields]
  | cons f fs ih =>
    intro acc st hpos
    obtain ⟨name, size⟩ := f
    have hs : 0 < size := hpos (name, size) (by simp)
    have hs' : size ≠ 0 := by omega
    have hrest := ih
    simp only [IoSem.forEach, hf, hlogStep, hs', if_false, hlogFields, IoSem.rest_length]
    by_cases hfit : st.index + size ≤ st.data.length
    · have hfit' : size ≤ st.data.length - st.index := by omega
      simp only [hfit, hfit', if_true]
      by_cases hv : fromBE (List.take size st.rest) = 0
      · simp only [hv, ne_eq, not_true, if_false, List.nil_append]
        rw [ih _ _ (fun f hf => hpos f (by simp [hf])), IoSem.advance_rest]
      · simp only [hv, ne_eq, not_false_eq_true, if_true]
        rw [ih _ _ (fun f hf => hpos f (by simp [hf])), IoSem.advance_rest]
        simp
    · have hfit' : ¬ size ≤ st.data.length - st.index := by omega
      simp [hfit, hfit']

theorem io_parse_hlog_data (g) (h : Pel.Gen.io_parse_hlog_data? = some g) :
    ∀ fields b, (∀ f ∈ fields, 0 < f.2) → g fields b = .ok (parseHlog fields b) := by
  cases h <;> (
  intro fields b hpos
  simp only []
  rw [hlog_forEach _ ?hf fields _ _ hpos]
  case hf =>
    intro f acc st
    obtain ⟨name, size⟩ := f
    unfold hlogStep
    simp only []
    by_cases hs : size = 0
    · subst hs; simp [IoSem.checkRange, IoSem.Res.bindStep]
    · have hs' : (0 : Int) < (size : Int) := by omega
      rw [IoSem.checkRange_pos st _ hs']
      simp only [IoSem.bindStep_ok, hs, if_false]
      by_cases hfit : st.index + size ≤ st.data.length
      · have hfit' : (st.index : Int) + (size : Int) ≤ (st.data.length : Int) := by omega
        simp only [hfit, hfit', decide_true, Bool.not_true, Bool.false_eq_true, if_false, if_true]
        rd_step
        by_cases hv : fromBE (List.take size st.rest) = 0
        · simp [hv]
        · simp [hv, hlogFieldLine, s, Nat.mul_comm]
      · have hfit' : ¬ (st.index : Int) + (size : Int) ≤ (st.data.length : Int) := by omega
        simp only [hfit, hfit', decide_false, Bool.not_false, if_true, if_false]
  · simp [parseHlog, IoSem.Stream.new, IoSem.Stream.rest, s]
  )


/-- ★ `C16.fields_spec` transported: what the source text computes is the declarative rule (contiguous offsets, stop at the first
    field that does not fit, listed iff non-zero) -/
theorem io_parse_hlog_data_spec (g) (h : Pel.Gen.io_parse_hlog_data? = some g) (fields : List HlogField) (b : Bytes)
    (hpos : ∀ f ∈ fields, 0 < f.2) (hb : ∀ x ∈ b, x < 256) :
    g fields b = .ok ([s "Hex Dump", s "--------"] ++ hexdump16 b ++ [[]] ++
      [s "Non-Zero Field Values", s "---------------------"] ++ specHlogFields fields b) := by
  rw [io_parse_hlog_data g h fields b hpos, parseHlog, C16.fields_spec fields b hb]

end Pel.Tie
