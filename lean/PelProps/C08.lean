namespace Pel.C08
end Pel.C08
