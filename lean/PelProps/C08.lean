import PelModel.Cli
import PelProofs.CliDir
import PelProofs.Top
import PelProps.C07
/-
  C08 — List, count and display-all agree on the same PELs in file-name order.
-/
namespace Pel.C08

/-- a directory given abstractly: file name and the PEL stored in it -/
abbrev AFiles := List (Text × APel)

def dirOf (files : AFiles) : Dir := files.map (fun np => { name := np.1, data := np.2.enc })

def displayNames (env : Env) (p : APel) : List Text :=
  sectionName env.T sidPH :: sectionName env.T sidUH ::
    numberNames (p.sections.map (fun sec => sectionName env.T sec.body.id)) (p.sections.map (fun sec => sectionName env.T sec.body.id))

/-- "a directory of well-formed PELs with distinct entry ids" -/
structure GoodDir (env : Env) (files : AFiles) : Prop where
  wf : ∀ np ∈ files, np.2.WF
  renders : ∀ np ∈ files, ∃ d, render env np.2 = .ok d
  names : ∀ np ∈ files, (displayNames env np.2).Nodup
  distinctFiles : (files.map (·.1)).Nodup
  distinctEids : (files.map (·.2.ph.eid)).Nodup

def renderD (env : Env) (p : APel) : J := match render env p with
  | .ok d => d
  | .error _ => .null

def extOk (ext : Option Text) (name : Text) : Bool := match ext with
  | some e => if e = [] then true else splitext name == e
  | none => true

def insertAbs (f : Text × APel) : AFiles → AFiles
  | [] => [f]
  | g :: gs => if textLt g.1 f.1 then g :: insertAbs f gs else f :: g :: gs
def sortAbs : AFiles → AFiles
  | [] => []
  | f :: fs => insertAbs f (sortAbs fs)

/-- the files a mode looks at, in presentation order -/
def presented (o : CliOpts) (rev : Bool) (files : AFiles) : AFiles :=
  let l := sortAbs (files.filter (fun np => extOk o.ext np.1))
  if rev then l.reverse else l

/-- the selected PELs, in presentation order -/
def selectedIn (o : CliOpts) (rev : Bool) (files : AFiles) : AFiles :=
  (presented o rev files).filter (fun np => considerPEL np.2.uh.sev np.2.uh.af o.cfg)

/-- the reference code of the primary SRC, if the PEL has one -/
def primaryRefcode (p : APel) : Option Text :=
  (p.sections.findSome? fun sec => match sec.body with
    | .src true x => some (stripSp x.ascii)
    | _ => none)

/-- the primary SRC of the PEL (the first one), if it has one -/
def primarySrc (p : APel) : Option ASrc :=
  p.sections.findSome? fun sec => match sec.body with
    | .src true x => some x
    | _ => none

/-- the registry message of the primary SRC: the `Message` member of its "Error Details", which only BMC / power / hostboot
    SRCs with a matching registry entry (and a non-empty message) have -/
def primaryMessage (env : Env) (p : APel) : Option J :=
  (primarySrc p).bind fun x =>
    if x.ascii.take 2 = s "BD" ∨ x.ascii.take 2 = s "11" ∨ x.ascii.take 2 = s "BC" then
      match errorDetails env.src.registry x.ascii x.words with
      | .some ms => objGet? ms (s "Message")
      | _ => none
    else none

/-- what a --list entry shows, written from the fields of the PEL (member order as `parsePELSummary` stores them: `SRC`,
    `Message` — only when the registry supplies one —, `PLID`, …) -/
def specSummary (env : Env) (p : APel) : List (Text × J) :=
  (match primaryRefcode p with
    | some rc => [(s "SRC", J.str rc)]
    | none => []) ++
  (match primaryMessage env p with
    | some m => [(s "Message", m)]
    | none => []) ++
  [(s "PLID", .str (ox (fmtHex 2 p.ph.plid))),
   (s "CreatorID", .str ((lookupT env.T.creators [p.ph.creator]).getD (s "Unknown"))),
   (s "Subsystem", .str ((lookupN env.T.subsystems p.uh.subsys).getD (s "Invalid"))),
   (s "Commit Time", .str (bcdTime p.ph.commit)),
   (s "Sev", .str ((lookupN env.T.severities p.uh.sev).getD (s "Invalid"))),
   (s "CompID", .str (displayCompID env.T p.ph.hdr.comp [p.ph.creator]))]

/-- the model's file list is the abstract one -/
theorem file_list (o : CliOpts) (rev : Bool) (files : AFiles) :
    getFileList (dirOf files) o.ext rev = dirOf (presented o rev files) := by
  have hsort := sortBy_unique Prod.fst insertAbs sortAbs (fun _ => rfl) (fun _ _ _ => rfl) rfl (fun _ _ => rfl)
  have hext : ∀ np : Text × APel, extP o.ext { name := np.1, data := np.2.enc } = extOk o.ext np.1 := by
    intro np; cases o.ext <;> rfl
  unfold dirOf presented
  rw [getFileList_map _ Prod.fst (fun _ => rfl)]
  simp only [hext, hsort]

/-- ★ the summary decoder (which stops at the primary SRC) shows exactly the corresponding fields of the PEL -/
theorem summary_fields (env : Env) (cfg : SelCfg) (p : APel) (hp : p.WF) (hr : ∃ d, render env p = .ok d)
    (hsel : considerPEL p.uh.sev p.uh.af cfg = true) :
    parseSummary env cfg p.enc =
      .summary { eid := ox (fmtHex 2 p.ph.eid), fields := specSummary env p } p.ph.plid (primaryRefcode p) := by
  exact parseSummary_sel env cfg p hp hr hsel

/-- ★ each --list entry's fields are the corresponding fields of the full decode -/
theorem summary_matches_full (env : Env) (p : APel) (ph uh : List (Text × J)) (l : List (Text × J)) (d : J)
    (hr : render env p = .ok d) (hd : d = .obj l) (hne : sectionName env.T sidPH ≠ sectionName env.T sidUH)
    (hph : objGet? l (sectionName env.T sidPH) = some (.obj ph)) (huh : objGet? l (sectionName env.T sidUH) = some (.obj uh)) :
    objGet? (specSummary env p) (s "PLID") = objGet? ph (s "Platform Log Id") ∧
    objGet? (specSummary env p) (s "CreatorID") = objGet? ph (s "Creator Subsystem") ∧
    objGet? (specSummary env p) (s "Commit Time") = objGet? ph (s "Committed at") ∧
    objGet? (specSummary env p) (s "CompID") = objGet? ph (s "Created by") ∧
    objGet? (specSummary env p) (s "Subsystem") = objGet? uh (s "Subsystem") ∧
    objGet? (specSummary env p) (s "Sev") = objGet? uh (s "Event Severity") := by
  obtain ⟨tail, hd'⟩ := render_obj env p d hr
  rw [hd'] at hd
  cases hd
  rw [objGet?_cons_eq, Option.some.injEq, renderPH_obj, J.obj.injEq] at hph
  rw [objGet?_cons_ne _ _ _ _ hne, objGet?_cons_eq, Option.some.injEq, renderUH_obj, J.obj.injEq] at huh
  subst hph huh
  obtain ⟨h1, h2, h3, h4, h5, h6⟩ := specFields_get env p (primaryRefcode p) (primaryMessage env p)
  rw [ph_get_plid, ph_get_creator, ph_get_commit, ph_get_createdby, uh_get_subsys, uh_get_sev]
  exact ⟨h1, h2, h3, h4, h5, h6⟩

/-- the `Message` member of a --list entry (present only when the message registry supplies one) is the `Message` of the
    "Error Details" of the full decode's Primary SRC: `x` is the primary SRC, `renderSrc …` what the full decode shows for it -/
theorem summary_message_matches_full (env : Env) (p : APel) (x : ASrc) (hx : primarySrc p = some x) (h : AHdr) (creator : Text) :
    ∃ l, renderSrc env.T env.src h creator env.allowPlugins x = .obj l ∧
      objGet? (specSummary env p) (s "Message") =
        (objGet? l (s "Error Details")).bind fun e => match e with
          | .obj ms => objGet? ms (s "Message")
          | _ => none := by
  obtain ⟨l, hl, hg⟩ := renderSrc_errorDetails env.T env.src h creator env.allowPlugins x
  refine ⟨l, hl, ?_⟩
  rw [hg]
  have hrest : ∀ (a : List (Text × J)) (m : Option J),
      objGet? ((match primaryRefcode p with
          | some rc => [(s "SRC", J.str rc)]
          | none => []) ++ (match m with
          | some m => [(s "Message", m)]
          | none => []) ++ a) (s "Message") = match m with
          | some m => some m
          | none => objGet? a (s "Message") := by
    intro a m
    cases primaryRefcode p <;> cases m <;>
      simp [objGet?, (by decide : s "SRC" ≠ s "Message")]
  unfold specSummary
  rw [hrest]
  rw [objGet?_none_of_keys _ (s "Message") (by
    intro q hq
    simp only [List.mem_cons, List.not_mem_nil, or_false] at hq
    rcases hq with rfl | rfl | rfl | rfl | rfl | rfl <;> (show s _ ≠ s "Message"; decide))]
  simp only [primaryMessage, hx, Option.bind_some]
  by_cases hc : x.ascii.take 2 = s "BD" ∨ x.ascii.take 2 = s "11" ∨ x.ascii.take 2 = s "BC"
  · simp only [hc, if_true]
    cases hed : errorDetails env.src.registry x.ascii x.words with
    | some ms =>
      simp only [Option.bind_some]
      cases hm : objGet? ms (s "Message") <;> rfl
    | none => rfl
    | fail => rfl
    | unsupported => rfl
  · simp only [hc, if_false]
    rfl

/-- non-vacuity: a registry with one entry, a BD SRC that matches it; the --list entry of a PEL with that primary SRC has the
    member `Message` with the text the registry builds, right after `SRC` -/
def msgReg : List RegEntry := [
  { reasonCode := some (s "0x2600"), type := none, message := s "rc %1, then %2", argSources := some [s "SRCWord6", s "SRCWord9"],
    words := [{ num := s "6", desc := some (s "the rc"), prop := some (s "RC") }] }]
def msgSrc : ASrc :=
  { version := 2, flagsHi := 0, resv1 := 0, wordCount := 9, resv2 := 0, size := 72,
    words := [0, 0, 0, 0, 0xAB, 0, 0, 0x10], ascii := s "BD702600" ++ List.replicate 24 32, callouts := none }
example (env : Env) (hr : env.src.registry = msgReg) (ph : APH) (uh : AUH) (h : AHdr) :
    (specSummary env { ph := ph, uh := uh, sections := [{ hdr := h, body := .src true msgSrc }] }).take 2 =
      [(s "SRC", .str (s "BD702600")), (s "Message", .str (s "rc 0xab, then 0x10"))] := by
  have h1 : errorDetails msgReg msgSrc.ascii msgSrc.words =
      .some [(s "Message", .str (s "rc 0xab, then 0x10")), (s "RC", .arr [.num 0xAB, .str (s "the rc")])] := rfl
  have h2 : msgSrc.ascii.take 2 = s "BD" := by decide
  have h3 : stripSp msgSrc.ascii = s "BD702600" := by decide
  simp [specSummary, primaryRefcode, primaryMessage, primarySrc, hr, h1, h2, h3, objGet?]

/-- ★ --show-pel-count reports the number of selected PELs -/
theorem count_eq (env : Env) (o : CliOpts) (files : AFiles) (hg : GoodDir env files) :
    (countMode env o (dirOf files)).stdout =
      s "{\n    \"Number of PELs found\": " ++ natDec (selectedIn o false files).length ++ s "\n}\n" := by
  have hsort := sortBy_unique Prod.fst insertAbs sortAbs (fun _ => rfl) (fun _ _ _ => rfl) rfl (fun _ _ => rfl)
  have hpres : ∀ rev, ∀ np ∈ presented o rev files, np ∈ files := by
    intro rev np h
    unfold presented at h
    simp only [hsort] at h
    exact ((mem_presentedGen _ _ _ _ _).1 h).1
  have key : keepSome ((dirOf (presented o false files)).map (countOne env o.cfg)) =
      (selectedIn o false files).map (fun _ => ()) := by
    unfold keepSome dirOf selectedIn
    rw [List.map_map]
    apply filterMap_sel
    · intro np hnp hs
      simp only [Function.comp, countOne_enc env o.cfg np.2 (hg.wf np (hpres _ np hnp)), hs, if_true]
    · intro np hnp hs
      simp only [Function.comp, countOne_enc env o.cfg np.2 (hg.wf np (hpres _ np hnp)), hs]
      rfl
  unfold countMode
  simp only [file_list, key, List.length_map]

/-- ★ --list shows exactly the selected PELs, in presentation order, keyed by entry id -/
theorem list_eq (env : Env) (o : CliOpts) (files : AFiles) (hg : GoodDir env files) (hnohex : o.hex = false) :
    (listMode env o (dirOf files)).stdout =
      prettyPrint 29 (dumps (.obj ((selectedIn o o.rev files).map fun np =>
        (ox (fmtHex 2 np.2.ph.eid), J.obj (specSummary env np.2))))) ++ nl := by
  have hsort := sortBy_unique Prod.fst insertAbs sortAbs (fun _ => rfl) (fun _ _ _ => rfl) rfl (fun _ _ => rfl)
  have hpres : ∀ rev, ∀ np ∈ presented o rev files, np ∈ files := by
    intro rev np h
    unfold presented at h
    simp only [hsort] at h
    exact ((mem_presentedGen _ _ _ _ _).1 h).1
  have hnd : ((selectedIn o o.rev files).map (fun np => ox (fmtHex 2 np.2.ph.eid))).Nodup := by
    have h1 : ((selectedIn o o.rev files).map (fun np => np.2.ph.eid)).Nodup := by
      unfold selectedIn presented
      simp only [hsort]
      exact nodup_presentedGen _ _ _ _ _ _ hg.distinctEids
    have h2 := nodup_map_inj (fun e => ox (fmtHex 2 e)) (ox_fmtHex_inj 2) _ h1
    rw [List.map_map] at h2
    exact h2
  unfold listMode
  simp only [file_list, hnohex, Bool.false_eq_true, if_false]
  unfold dirOf
  rw [List.map_map]
  rw [filterMap_sel (presented o o.rev files) (fun np => considerPEL np.2.uh.sev np.2.uh.af o.cfg) _ _
    (fun np => (({ name := np.1, data := np.2.enc } : FileEntry),
      ({ eid := ox (fmtHex 2 np.2.ph.eid), fields := specSummary env np.2 } : Summary), np.2.ph.plid, primaryRefcode np.2))]
  · rw [List.map_map, summaryObj_nodup, List.map_map]
    · rfl
    · rw [List.map_map]; exact hnd
  · intro np hnp hs
    have hf := hpres _ np hnp
    simp only [Function.comp, summaryOf_enc env o.cfg np.2 (hg.wf np hf) (hg.renders np hf), hs, if_true]
    rfl
  · intro np hnp hs
    have hf := hpres _ np hnp
    simp only [Function.comp, summaryOf_enc env o.cfg np.2 (hg.wf np hf) (hg.renders np hf), hs]
    rfl

/-- ★ --all-pels shows exactly the full decodes of the selected PELs, in presentation order -/
theorem all_eq (env : Env) (o : CliOpts) (files : AFiles) (hg : GoodDir env files) (hnohex : o.hex = false) :
    (allMode env o (dirOf files)).stdout =
      listFraming ((selectedIn o o.rev files).map fun np => prettyPrint 34 (dumps (renderD env np.2))) := by
  have hsort := sortBy_unique Prod.fst insertAbs sortAbs (fun _ => rfl) (fun _ _ _ => rfl) rfl (fun _ _ => rfl)
  have hpres : ∀ rev, ∀ np ∈ presented o rev files, np ∈ files := by
    intro rev np h
    unfold presented at h
    simp only [hsort] at h
    exact ((mem_presentedGen _ _ _ _ _).1 h).1
  unfold allMode
  simp only [file_list, hnohex, Bool.false_eq_true, if_false]
  unfold dirOf
  rw [List.map_map]
  rw [filterMap_sel (presented o o.rev files) (fun np => considerPEL np.2.uh.sev np.2.uh.af o.cfg) _ _
    (fun np => (({ name := np.1, data := np.2.enc } : FileEntry), fmtHex 2 np.2.ph.eid, renderD env np.2))]
  · rw [List.map_map]
    rfl
  · intro np hnp hs
    have hf := hpres _ np hnp
    obtain ⟨d, hd⟩ := hg.renders np hf
    have hD : renderD env np.2 = d := by simp only [renderD, hd]
    simp only [Function.comp, fullOf_enc env o.cfg np.2 (hg.wf np hf) d hd (hg.names np hf), hs, if_true, hD]
  · intro np hnp hs
    have hf := hpres _ np hnp
    obtain ⟨d, hd⟩ := hg.renders np hf
    simp only [Function.comp, fullOf_enc env o.cfg np.2 (hg.wf np hf) d hd (hg.names np hf), hs]
    rfl

/-- ★ the three modes agree on the number of PELs (with or without --reverse) -/
theorem same_number (o : CliOpts) (files : AFiles) :
    (selectedIn o true files).length = (selectedIn o false files).length ∧
    (selectedIn o o.rev files).length = (selectedIn o false files).length := by
  have h : ∀ rev, (selectedIn o rev files).length = (selectedIn o false files).length := by
    intro rev
    cases rev
    · rfl
    · unfold selectedIn presented
      simp only [if_true, Bool.false_eq_true, if_false, List.filter_reverse, List.length_reverse]
  exact ⟨h true, h o.rev⟩

/-- ★ presentation order is ascending file-name order; --reverse presents exactly the reverse sequence -/
theorem order_ascending (o : CliOpts) (files : AFiles) (hd : (files.map (·.1)).Nodup) :
    (presented o false files).Pairwise (fun a b => textLt a.1 b.1 = true) := by
  have hsort := sortBy_unique Prod.fst insertAbs sortAbs (fun _ => rfl) (fun _ _ _ => rfl) rfl (fun _ _ => rfl)
  unfold presented
  simp only [Bool.false_eq_true, if_false, hsort]
  exact sortBy_sorted Prod.fst _ (nodup_filter_names Prod.fst _ files hd)
theorem reverse_is_reverse (o : CliOpts) (files : AFiles) :
    selectedIn o true files = (selectedIn o false files).reverse := by
  unfold selectedIn presented
  simp only [if_true, Bool.false_eq_true, if_false, List.filter_reverse]

/-- ★ --extension restricts all three modes to the files with that extension, and loses none of them -/
theorem extension_restricts (o : CliOpts) (rev : Bool) (files : AFiles) (np : Text × APel) :
    np ∈ presented o rev files ↔ np ∈ files ∧ extOk o.ext np.1 = true := by
  have hsort := sortBy_unique Prod.fst insertAbs sortAbs (fun _ => rfl) (fun _ _ _ => rfl) rfl (fun _ _ => rfl)
  unfold presented
  cases rev <;> simp [hsort, mem_sortBy]

/-- `textLt` is Python's order on `str`: lexicographic by code point (a strict total order) -/
theorem textLt_total (a b : Text) : textLt a b = true ∨ a = b ∨ textLt b a = true := by
  exact textLt_tot a b
theorem textLt_irrefl (a : Text) : textLt a a = false := by
  exact textLt_irr a
theorem textLt_trans (a b c : Text) (h1 : textLt a b = true) (h2 : textLt b c = true) : textLt a c = true := by
  exact textLt_tr a b c h1 h2

/-- `splitext`: the extension starts at the last dot, unless only dots precede it -/
theorem splitext_simple (stem ext : Text) (hs : ∃ c ∈ stem, c ≠ 46) (he : ∀ c ∈ ext, c ≠ 46) :
    splitext (stem ++ [46] ++ ext) = 46 :: ext := by
  exact splitext_simple' stem ext hs he
theorem splitext_no_dot (name : Text) (h : ∀ c ∈ name, c ≠ 46) : splitext name = [] := by
  exact splitext_no_dot' name h

/-! ### the WHOLE command: `runMain` = `dispatch` followed by the mode it names, on a `World` (model: PelModel/Top.lean) -/

/-- `mkConfig` does not look at the mode options -/
theorem mkConfig_mode_irrelevant (t : List (Text × Nat)) (a : Args) (l n al : Bool) :
    mkConfig t { a with list := l, count := n, all := al } = mkConfig t a := by
  rw [mkConfig_eq, mkConfig_eq]

/-- ★ three command lines that differ ONLY in which of `-n`, `-l`, `-a` is given (`a` has none of the three and no option of higher
    priority; same `-p`, same selection switches, same `-r` / `-e`), run on the same world whose `-p` directory is a directory of well-formed
    PELs with distinct entry ids: there is ONE sequence `S` of selected PELs (ascending file-name order) such that `-n` prints `|S|`, `-l`
    prints one entry per element of `S` and `-a` prints one document per element of `S`, both in the order of `S` — reversed exactly when
    `-r` is on the command line; all three end with status 0 and leave the world as it was -/
theorem command_count_list_all_agree (env : Env) (a : Args) (w : World) (p : Text) (files : AFiles)
    (hh : a.NoHigherMode) (hnd : a.NoDisplayMode) (hp : tv a.path = some p) (hd : w.pathIsDir = true) (hx : a.hex = false)
    (hw : w.dir = dirOf files) (hg : GoodDir (env.withCfg (mkConfig severityGroupTable a)) files) :
    let env' := env.withCfg (mkConfig severityGroupTable a)
    let S := selectedIn (mkConfig severityGroupTable a).opts false files
    let S' := if a.reverse then S.reverse else S
    (runMain env { a with count := true } w).stdout = s "{\n    \"Number of PELs found\": " ++ natDec S.length ++ s "\n}\n" ∧
    (runMain env { a with list := true } w).stdout =
      prettyPrint 29 (dumps (.obj (S'.map fun np => (ox (fmtHex 2 np.2.ph.eid), J.obj (specSummary env' np.2))))) ++ nl ∧
    (runMain env { a with all := true } w).stdout = listFraming (S'.map fun np => prettyPrint 34 (dumps (renderD env' np.2))) ∧
    S'.length = S.length ∧
    (runMain env { a with count := true } w).exit = 0 ∧ (runMain env { a with list := true } w).exit = 0 ∧
    (runMain env { a with all := true } w).exit = 0 ∧
    (runMain env { a with count := true } w).world = w ∧ (runMain env { a with list := true } w).world = w ∧
    (runMain env { a with all := true } w).world = w := by
  intro env' S S'
  have hhex : (mkConfig severityGroupTable a).opts.hex = false := by
    show (mkConfig severityGroupTable a).hex = false
    rw [(Pel.mkConfig_eq severityGroupTable a)]; exact hx
  have hrev : (mkConfig severityGroupTable a).opts.rev = a.reverse := by
    show (mkConfig severityGroupTable a).rev = a.reverse
    rw [(Pel.mkConfig_eq severityGroupTable a)]
  have hS' : selectedIn (mkConfig severityGroupTable a).opts (mkConfig severityGroupTable a).opts.rev files = S' := by
    rw [hrev]
    show _ = if a.reverse = true then S.reverse else S
    cases a.reverse
    · rfl
    · simp only [if_true]; exact reverse_is_reverse _ files
  -- the three command lines reach the three modes
  have hc : Chain (w.fsView { a with count := true }) { a with count := true } (.countMode p) false :=
    chain_count (a := { a with count := true }) ⟨hh.file, hh.json, hh.pelID, hh.bmcID, hh.plid, hh.src, hh.srcExclude⟩ hp hd hnd.list rfl
  have hl : Chain (w.fsView { a with list := true }) { a with list := true } (.listMode p) false :=
    chain_list (a := { a with list := true }) ⟨hh.file, hh.json, hh.pelID, hh.bmcID, hh.plid, hh.src, hh.srcExclude⟩ hp hd rfl
  have ha : Chain (w.fsView { a with all := true }) { a with all := true } (.allMode p) false :=
    chain_all (a := { a with all := true }) ⟨hh.file, hh.json, hh.pelID, hh.bmcID, hh.plid, hh.src, hh.srcExclude⟩ hp hd hnd.list hnd.count rfl
  have hcc : cfgOf { a with count := true } false = mkConfig severityGroupTable a := by
    rw [cfgOf_false]; exact mkConfig_mode_irrelevant _ a a.list true a.all
  have hcl : cfgOf { a with list := true } false = mkConfig severityGroupTable a := by
    rw [cfgOf_false]; exact mkConfig_mode_irrelevant _ a true a.count a.all
  have hca : cfgOf { a with all := true } false = mkConfig severityGroupTable a := by
    rw [cfgOf_false]; exact mkConfig_mode_irrelevant _ a a.list a.count true
  rw [runMain_of_chain hc, runMain_of_chain hl, runMain_of_chain ha, hcc, hcl, hca]
  simp only [runAction, ofCli, hw]
  refine ⟨count_eq env' _ files hg, ?_, ?_, ?_, rfl, rfl, rfl, by simp⟩
  · rw [list_eq env' _ files hg hhex, hS']
  · rw [all_eq env' _ files hg hhex, hS']
  · show (if a.reverse = true then S.reverse else S).length = S.length
    split
    · exact List.length_reverse
    · rfl

/-- ★ (serves C07) which PELs a whole `-l` command line lists in a directory of well-formed PELs: with NO selection option exactly the
    serviceable, customer-viewable ones among the files with the requested extension; with `-E` all of them — in file-name order (reversed
    with `-r`), keyed by entry id -/
theorem command_default_selection_lists (env : Env) (a : Args) (w : World) (p : Text) (files : AFiles)
    (hh : a.NoHigherMode) (hp : tv a.path = some p) (hd : w.pathIsDir = true) (hl : a.list = true) (hx : a.hex = false)
    (hw : w.dir = dirOf files) (hg : GoodDir (env.withCfg (mkConfig severityGroupTable a)) files) :
    let env' := env.withCfg (mkConfig severityGroupTable a)
    let o := (mkConfig severityGroupTable a).opts
    (a.NoSelection → (runMain env a w).stdout =
      prettyPrint 29 (dumps (.obj (((presented o o.rev files).filter
        (fun np => specServiceable np.2.uh.sev np.2.uh.af && !specHidden np.2.uh.af)).map fun np =>
          (ox (fmtHex 2 np.2.ph.eid), J.obj (specSummary env' np.2))))) ++ nl) ∧
    (a.every = true → (runMain env a w).stdout =
      prettyPrint 29 (dumps (.obj ((presented o o.rev files).map fun np =>
          (ox (fmtHex 2 np.2.ph.eid), J.obj (specSummary env' np.2))))) ++ nl) := by
  intro env' o
  have hhex : o.hex = false := by
    show (mkConfig severityGroupTable a).hex = false
    rw [(Pel.mkConfig_eq severityGroupTable a)]; exact hx
  obtain ⟨hrun, hdef, hevery⟩ := Pel.C07.command_default_selection env a w p hh hp hd hl
  have hout : (runMain env a w).stdout = (listMode env' o (dirOf files)).stdout := by rw [hrun, hw]; rfl
  rw [hout, list_eq env' o files hg hhex]
  unfold selectedIn
  constructor
  · intro hs
    rw [List.filter_congr (fun np _ => (hdef hs).2 np.2.uh.sev np.2.uh.af)]
  · intro he
    rw [List.filter_eq_self.2 (fun np _ => hevery he np.2.uh.sev np.2.uh.af)]

/-! Non-vacuity: the hypotheses about the command line hold for `-p /pels -S Critical -e .pel -r`, and an empty directory is a `GoodDir`
    (for directories with PELs `GoodDir` is the hypothesis of `count_eq` / `list_eq` / `all_eq`; `C01.demo_wf` is a well-formed PEL). -/
example : ({ path := some (s "/pels"), severities := [s "Critical"], extension := some (s ".pel"), reverse := true } : Args).NoHigherMode ∧
    ({ path := some (s "/pels"), severities := [s "Critical"], extension := some (s ".pel"), reverse := true } : Args).NoDisplayMode :=
  ⟨⟨rfl, rfl, rfl, rfl, rfl, rfl, rfl⟩, ⟨rfl, rfl, rfl⟩⟩
example (env : Env) : GoodDir env [] :=
  ⟨fun _ h => (nomatch h), fun _ h => (nomatch h), fun _ h => (nomatch h), List.nodup_nil, List.nodup_nil⟩
example : (runMain envDemo { path := some (s "/pels"), count := true } { wDemo with dir := [] }).stdout =
    s "{\n    \"Number of PELs found\": 0\n}\n" ∧
    (runMain envDemo { path := some (s "/pels"), list := true } { wDemo with dir := [] }).stdout = s "{}\n" ∧
    (runMain envDemo { path := some (s "/pels"), all := true, reverse := true } { wDemo with dir := [] }).stdout = s "[\n]\n" := by decide

-- with real PELs (`wPels`: a hidden PEL, an undecodable file, a selected PEL): `-n` says 1 and `-l` has one entry; with `-E` 2 and two entries,
-- in file-name order (`a_…` before `b_…`), reversed by `-r`
example : (runMain envDemo { path := some (s "/pels"), count := true } wPels).stdout = s "{\n    \"Number of PELs found\": 1\n}\n" ∧
    (runMain envDemo { path := some (s "/pels"), count := true, every := true } wPels).stdout = s "{\n    \"Number of PELs found\": 2\n}\n" ∧
    (runMain envDemo { path := some (s "/pels"), all := true, every := true, hex := true } wPels).stdout =
      linesOut (pelHexDisplay pelDemo) ++ linesOut (pelHexDisplay pelHiddenDemo) ∧
    (runMain envDemo { path := some (s "/pels"), all := true, every := true, hex := true, reverse := true } wPels).stdout =
      linesOut (pelHexDisplay pelHiddenDemo) ++ linesOut (pelHexDisplay pelDemo) ∧
    (runMain envDemo { path := some (s "/pels"), list := true, hex := true } wPels).stdout = linesOut (pelHexDisplay pelDemo) := by
  decide +kernel

end Pel.C08
