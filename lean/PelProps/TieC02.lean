import PelGen.GenSections
import PelProofs.TieSections
import PelProps.C02
/-
  Source tie for C02 (header-type sections).  `PelGen/GenSections.lean` is regenerated on every run by
  harness/trans_sections.py from the CURRENT text of private_header.py, user_header.py, extend_user_header.py,
  failing_mtms.py, imp_partition.py, default.py and comp_id.py (`none` = the function left the translatable subset).
  Each theorem: whatever was generated IS the model function the C02 theorems are about (full extensional equality).
-/
namespace Pel.Tie

theorem getTimestamp (g) (h : Pel.Gen.getTimestamp? = some g) : g = Pel.getTimestamp := by
  cases h <;> tie_rd Pel.getTimestamp
theorem decodePH (g) (h : Pel.Gen.decodePH? = some g) : g = Pel.decodePH := by
  cases h <;> tie_rd Pel.decodePH
/-- `PHInfo` keeps the platform log id and the entry id as NUMBERS; peltool.py reads the TEXTS `ph.pLID` / `ph.lEID`.  What the source stores
    there, as a function of the number, is what PelModel/Pel.lean renders from `PHInfo` (`ox (fmtHex 2 ph.plid)`, `ox (fmtHex 2 ph.eid)`). -/
theorem phIdText (g) (h : Pel.Gen.phIdText? = some g) : g = fun n => (ox (fmtHex 2 n), ox (fmtHex 2 n)) := by
  cases h <;> first | rfl | (simp only [ox]; rfl)
theorem decodeUH (g) (h : Pel.Gen.decodeUH? = some g) : g = Pel.decodeUH := by
  cases h <;> tie_rd Pel.decodeUH
theorem decodeEH (g) (h : Pel.Gen.decodeEH? = some g) : g = Pel.decodeEH := by
  cases h <;> tie_rd Pel.decodeEH
theorem decodeMT (g) (h : Pel.Gen.decodeMT? = some g) : g = Pel.decodeMT := by
  cases h <;> tie_rd Pel.decodeMT
theorem decodeLP (g) (h : Pel.Gen.decodeLP? = some g) : g = Pel.decodeLP := by
  cases h <;> tie_rd Pel.decodeLP
theorem decodeDefault (g) (h : Pel.Gen.decodeDefault? = some g) : g = Pel.decodeDefault := by
  cases h <;> tie_rd Pel.decodeDefault
theorem displayCompID (g) (h : Pel.Gen.displayCompID? = some g) : g = Pel.displayCompID := by
  cases h <;> tie_rd Pel.displayCompID

/-! The ★ theorems of `PelProps/C02.lean`, transported to whatever the translator produced from the current source text -/

/-- ★ `C02.ph_fields` for the function regenerated from private_header.py -/
theorem ph_fields_src (g) (hg : Pel.Gen.decodePH? = some g) (T : Tables) (p : APH) (hp : p.WF) (count : Nat) (hc : count < 256)
    (len : Nat) (rest : Bytes) :
    g T (mkSecHdr sidPH len p.hdr) (p.encBody count ++ rest) =
      .ok ((renderPH T p, { creator := [p.creator], sectionCount := count, obmcLogID := p.obmc, plid := p.plid,
                            eid := p.eid, commitTime := bcdTime p.commit }), rest) := by
  rw [decodePH g hg]; exact C02.ph_fields T p hp count hc len rest

/-- ★ `C02.uh_fields` for the function regenerated from user_header.py -/
theorem uh_fields_src (g) (hg : Pel.Gen.decodeUH? = some g) (T : Tables) (u : AUH) (hu : u.WF) (creator : Text) (len : Nat) (rest : Bytes) :
    g T (mkSecHdr sidUH len u.hdr) creator (u.encBody ++ rest) =
      .ok ((renderUH T u creator, { severity := u.sev, actionFlags := u.af }), rest) := by
  rw [decodeUH g hg]; exact C02.uh_fields T u hu creator len rest

/-- ★ `C02.eh_fields` for the function regenerated from extend_user_header.py -/
theorem eh_fields_src (g) (hg : Pel.Gen.decodeEH? = some g) (T : Tables) (h : AHdr) (creator : Text) (e : AEH) (he : e.WF)
    (id len : Nat) (rest : Bytes) :
    g T (mkSecHdr id len h) creator (e.encBody ++ rest) = .ok (renderEH T h creator e, rest) := by
  rw [decodeEH g hg]; exact C02.eh_fields T h creator e he id len rest

/-- ★ `C02.mt_fields` for the function regenerated from failing_mtms.py -/
theorem mt_fields_src (g) (hg : Pel.Gen.decodeMT? = some g) (T : Tables) (h : AHdr) (creator : Text) (m : AMT) (hm : m.WF)
    (id len : Nat) (rest : Bytes) :
    g T (mkSecHdr id len h) creator (m.encBody ++ rest) = .ok (renderMT T h creator m, rest) := by
  rw [decodeMT g hg]; exact C02.mt_fields T h creator m hm id len rest

/-- ★ `C02.lp_fields` for the function regenerated from imp_partition.py -/
theorem lp_fields_src (g) (hg : Pel.Gen.decodeLP? = some g) (T : Tables) (h : AHdr) (creator : Text) (l : ALP) (hl : l.WF)
    (id len : Nat) (rest : Bytes) :
    g T (mkSecHdr id len h) creator (l.encBody ++ rest) = .ok (renderLP T h creator l, rest) := by
  rw [decodeLP g hg]; exact C02.lp_fields T h creator l hl id len rest

/-- `C02.compid_phyp` for the function regenerated from comp_id.py -/
theorem compid_phyp_src (g) (hg : Pel.Gen.displayCompID? = some g) (T : Tables) (comp : Nat) (creator : Text)
    (h : lookupT T.creators creator = some (s "PHYP")) :
    g T comp creator = (if comp / 256 % 256 ≠ 0 ∧ comp % 256 ≠ 0 then [comp / 256 % 256, comp % 256] else fmtHex 4 comp) := by
  rw [displayCompID g hg]; exact C02.compid_phyp T comp creator h

end Pel.Tie
