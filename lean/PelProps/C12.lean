import PelModel.Clean
import PelModel.Main
import PelProofs.Clean
import PelProofs.Main
import PelProofs.Top
/-
  C12 — `--clean` never deletes a PEL whose decoded output was not completely written.
  Statements quantify over every number of writes `n`, every fault plan and every prefix of the trace
  (a process that dies has executed a prefix).
-/
namespace Pel.C12

/-- ★ `--json --clean`: if a removal of the input appears anywhere in (a prefix of) the trace, then the PEL was decoded and
    selected, cleaning was requested, and the output was opened, written completely (all `n` writes) and closed,
    all without fault, strictly before the removal -/
theorem json_remove_after_complete (d : DecodeResult) (n : Nat) (clean : Bool) (fault : Nat → Bool)
    (pre : List (Ev × Bool)) (hpre : pre <+: cleanJsonTrace d n clean fault) (ok : Bool) (hrm : (Ev.removeIn, ok) ∈ pre) :
    d = .doc ∧ clean = true ∧
    pre = [(Ev.openOut, true)] ++ List.replicate n (Ev.write, true) ++ [(Ev.closeOut, true)] ++ [(Ev.removeIn, ok)] := by
  cases d with
  | doc =>
    simp only [cleanJsonTrace] at hpre
    cases clean with
    | false =>
      obtain ⟨t, ht⟩ := hpre
      have hm : (Ev.removeIn, ok) ∈ runSteps (jsonPlan n false) 0 fault := by
        rw [← ht]; exact List.mem_append_left _ hrm
      rw [jsonPlan_false] at hm
      exact absurd hm (runSteps_not_mem _ _ _ _ _ (jsonBody_no_remove n))
    | true =>
      rw [jsonPlan_true] at hpre
      have := runSteps_prefix_remove _ (jsonBody_no_remove n) 0 fault pre hpre ok hrm
      refine ⟨rfl, rfl, ?_⟩
      rw [this]
      simp [List.map_replicate]
  | filtered =>
    simp only [cleanJsonTrace, List.prefix_nil] at hpre
    subst hpre; simp at hrm
  | failed =>
    simp only [cleanJsonTrace, List.prefix_nil] at hpre
    subst hpre; simp at hrm

/-- ★ `--file --clean`: a removal happens only after the document was printed and stdout flushed, without fault -/
theorem file_remove_after_complete (d : DecodeResult) (clean : Bool) (fault : Nat → Bool)
    (pre : List (Ev × Bool)) (hpre : pre <+: cleanFileTrace d clean fault) (ok : Bool) (hrm : (Ev.removeIn, ok) ∈ pre) :
    d = .doc ∧ clean = true ∧ pre = [(Ev.print, true), (Ev.flushStdout, true), (Ev.removeIn, ok)] := by
  cases d with
  | doc =>
    simp only [cleanFileTrace] at hpre
    cases clean with
    | false =>
      obtain ⟨t, ht⟩ := hpre
      have hm : (Ev.removeIn, ok) ∈ runSteps (filePlan false) 0 fault := by
        rw [← ht]; exact List.mem_append_left _ hrm
      exact absurd hm (runSteps_not_mem _ _ _ _ _ (by simp [filePlan]))
    | true =>
      have hplan : filePlan true = [Ev.print, Ev.flushStdout] ++ [Ev.removeIn] := by simp [filePlan]
      rw [hplan] at hpre
      have := runSteps_prefix_remove _ (by simp) 0 fault pre hpre ok hrm
      refine ⟨rfl, rfl, ?_⟩
      rw [this]
      simp
  | filtered =>
    simp only [cleanFileTrace, List.prefix_nil] at hpre
    subst hpre; simp at hrm
  | failed =>
    simp only [cleanFileTrace, List.prefix_nil] at hpre
    subst hpre; simp at hrm

/-- ★ if decoding fails, the PEL is filtered out, or opening / any write / closing the output faults, the input is
    still present afterwards -/
theorem json_input_kept (d : DecodeResult) (n : Nat) (clean : Bool) (fault : Nat → Bool)
    (h : d ≠ .doc ∨ clean = false ∨ ∃ k, k ≤ n + 1 ∧ fault k = true) :
    inputRemoved (cleanJsonTrace d n clean fault) = false := by
  rw [inputRemoved_false_iff]
  cases d with
  | doc =>
    simp only [cleanJsonTrace]
    cases clean with
    | false =>
      rw [jsonPlan_false]
      exact runSteps_not_mem _ _ _ _ _ (jsonBody_no_remove n)
    | true =>
      rcases h with h | h | ⟨k, hk, hf⟩
      · exact absurd rfl h
      · exact absurd h (by decide)
      · rw [jsonPlan_true, runSteps_removed_iff _ (jsonBody_no_remove n), jsonBody_length]
        intro hall
        have := hall k (by omega)
        rw [Nat.zero_add, hf] at this
        exact absurd this (by decide)
  | filtered => simp [cleanJsonTrace]
  | failed => simp [cleanJsonTrace]

theorem file_input_kept (d : DecodeResult) (clean : Bool) (fault : Nat → Bool)
    (h : d ≠ .doc ∨ clean = false ∨ ∃ k, k ≤ 1 ∧ fault k = true) :
    inputRemoved (cleanFileTrace d clean fault) = false := by
  rw [inputRemoved_false_iff]
  cases d with
  | doc =>
    simp only [cleanFileTrace]
    cases clean with
    | false =>
      exact runSteps_not_mem _ _ _ _ _ (by simp [filePlan])
    | true =>
      rcases h with h | h | ⟨k, hk, hf⟩
      · exact absurd rfl h
      · exact absurd h (by decide)
      · have hplan : filePlan true = [Ev.print, Ev.flushStdout] ++ [Ev.removeIn] := by simp [filePlan]
        rw [hplan, runSteps_removed_iff _ (by simp)]
        intro hall
        have := hall k (by simpa using (by omega : k ≤ 2))
        rw [Nat.zero_add, hf] at this
        exact absurd this (by decide)
  | filtered => simp [cleanFileTrace]
  | failed => simp [cleanFileTrace]

/-- exactly when nothing faults (including the removal itself) the input is removed -/
theorem json_removed_iff (n : Nat) (fault : Nat → Bool) :
    inputRemoved (cleanJsonTrace .doc n true fault) = true ↔ ∀ k, k ≤ n + 2 → fault k = false := by
  rw [inputRemoved_iff]
  simp only [cleanJsonTrace]
  rw [jsonPlan_true, runSteps_removed_iff _ (jsonBody_no_remove n), jsonBody_length]
  simp only [Nat.zero_add]

/-- the procedures never touch the input in any other way: the only event that concerns the input is `removeIn` -/
theorem only_remove_touches_input (d : DecodeResult) (n : Nat) (clean : Bool) (fault : Nat → Bool) :
    ∀ e ∈ cleanJsonTrace d n clean fault, e.1 = Ev.openOut ∨ e.1 = Ev.write ∨ e.1 = Ev.closeOut ∨ e.1 = Ev.removeIn := by
  intro e he
  cases d with
  | doc =>
    simp only [cleanJsonTrace] at he
    have := runSteps_fst_mem _ _ _ e he
    cases clean with
    | false =>
      rw [jsonPlan_false] at this
      simp only [List.mem_append, List.mem_singleton, List.mem_replicate] at this
      rcases this with (h | h) | h
      · exact Or.inl h
      · exact Or.inr (Or.inl h.2)
      · exact Or.inr (Or.inr (Or.inl h))
    | true =>
      rw [jsonPlan_true] at this
      simp only [List.mem_append, List.mem_singleton, List.mem_replicate] at this
      rcases this with ((h | h) | h) | h
      · exact Or.inl h
      · exact Or.inr (Or.inl h.2)
      · exact Or.inr (Or.inr (Or.inl h))
      · exact Or.inr (Or.inr (Or.inr h))
  | filtered => simp [cleanJsonTrace] at he
  | failed => simp [cleanJsonTrace] at he

/-! Non-vacuity and the witness of the repaired defect: with the pre-fix order (`removeIn` before `closeOut`) a fault at
    close leaves a trace with a successful removal and a failed close. -/
example : cleanJsonTrace .doc 2 true (fun k => k == 3) =
    [(Ev.openOut, true), (Ev.write, true), (Ev.write, true), (Ev.closeOut, false)] := by decide
example : inputRemoved (runSteps ([Ev.openOut] ++ List.replicate 2 Ev.write ++ [Ev.removeIn, Ev.closeOut]) 0 (fun k => k == 4)) = true := by
  decide

/-! ### the `-f` branch of `main()`: `printed = parseAndPrintPELFile(...)`; `if args.clean and printed: os.remove(args.file)` -/

/-- ★ in the `-f` branch `main` hands a path to `os.remove` only if `--clean` was given AND `parseAndPrintPELFile` returned `True`; the path
    is then the `-f` value itself; and no other branch of `main` calls `os.remove` directly -/
theorem main_file_clean_needs_printed (fs : FsView) (a : Args) (printed : Bool) :
    (∀ p clean, (dispatch fs a).1 = .fileMode p clean →
      a.file = some p ∧ clean = a.clean ∧
      (dispatch fs a).1.afterPrint printed = (if a.clean && printed then some p else none)) ∧
    (∀ q, (dispatch fs a).1.afterPrint printed = some q →
      a.file = some q ∧ a.clean = true ∧ printed = true ∧ (dispatch fs a).1 = .fileMode q true) := by
  have key : ∀ p clean, (dispatch fs a).1 = .fileMode p clean → a.file = some p ∧ clean = a.clean := by
    intro p clean h
    have hc := dispatch_chain fs a
    rw [h] at hc
    generalize (dispatch fs a).2.sel.lookup = lk at hc
    cases hc
    rename_i hf
    exact ⟨(tv_some hf).1, rfl⟩
  constructor
  · intro p clean h
    obtain ⟨h1, h2⟩ := key p clean h
    refine ⟨h1, h2, ?_⟩
    rw [h, h2]; rfl
  · intro q hq
    cases hact : (dispatch fs a).1 with
    | fileMode p clean =>
      obtain ⟨h1, h2⟩ := key p clean hact
      rw [hact] at hq
      simp only [Action.afterPrint] at hq
      split at hq
      · rename_i hcp
        simp only [Option.some.injEq] at hq
        subst hq
        simp only [Bool.and_eq_true] at hcp
        obtain ⟨hc, hp⟩ := hcp
        subst hc
        exact ⟨h1, h2.symm, hp, rfl⟩
      · simp at hq
    | _ => rw [hact] at hq; simp [Action.afterPrint] at hq

/-- ★ tie to the event model of this property: with `printed` = what `parseAndPrintPELFile` returns (`printedOf`: a document was
    decoded, printed and stdout flushed without fault), `main` attempts the removal exactly when the trace `cleanFileTrace` contains a
    `removeIn` event — so `file_remove_after_complete` / `file_input_kept` speak about what `main` does -/
theorem main_file_remove_iff_trace (p : Text) (clean : Bool) (d : DecodeResult) (fault : Nat → Bool) :
    (Action.fileMode p clean).afterPrint (printedOf d fault) = some p ↔
      ∃ ok, (Ev.removeIn, ok) ∈ cleanFileTrace d clean fault := by
  cases d with
  | doc =>
    cases clean with
    | false =>
      simp only [Action.afterPrint, Bool.false_and, Bool.false_eq_true, if_false, reduceCtorEq, false_iff, not_exists]
      intro ok hm
      exact runSteps_not_mem _ _ _ _ _ (by simp [filePlan]) hm
    | true =>
      simp only [Action.afterPrint, printedOf, cleanFileTrace, filePlan, Bool.true_and, if_true, List.cons_append, List.nil_append, runSteps]
      cases h0 : fault 0 <;> cases h1 : fault 1 <;> cases h2 : fault 2 <;> simp
  | filtered => simp [Action.afterPrint, printedOf, cleanFileTrace]
  | failed => simp [Action.afterPrint, printedOf, cleanFileTrace]

/-! Non-vacuity: `-f /pels/a --clean`: removed iff printed; without `--clean` never; a flush fault means `printed = False`. -/
example : (dispatch { isDir := fun _ => false, isFile := fun _ => false } { file := some (s "/pels/a"), clean := true }).1.afterPrint true
    = some (s "/pels/a") := by decide
example : (dispatch { isDir := fun _ => false, isFile := fun _ => false } { file := some (s "/pels/a"), clean := true }).1.afterPrint false
    = none := by decide
example : (dispatch { isDir := fun _ => false, isFile := fun _ => false } { file := some (s "/pels/a") }).1.afterPrint true = none := by decide
example : printedOf .doc (fun k => k == 1) = false ∧ printedOf .filtered (fun _ => false) = false ∧
    printedOf .doc (fun k => k == 2) = true := by decide

/-! ### the WHOLE command: `runMain` = `dispatch` followed by the mode it names, on a `World` (model: PelModel/Top.lean) -/

/-- ★ `peltool -f F --clean …` as a whole, on a world in which `F` exists with content `data` (whatever else is on the command line: `-f` has
    the highest priority):
    (1) with no I/O fault, `F` is absent from the new world iff `data` decodes to a selected document;
    (2) under ANY fault plan, `F` is absent iff the C12 event trace `cleanFileTrace` of that decode under that plan contains a successful
        `removeIn` (so `file_remove_after_complete` / `file_input_kept` speak about the whole command);
    (3) under ANY fault plan, `F` is still there unless the document existed and print, flush (and the removal itself) all succeeded;
    (4) nothing else in the world changes -/
theorem command_file_clean (env : Env) (a : Args) (w : World) (f : Text) (data : Bytes) (fault : Nat → Bool)
    (hf : tv a.file = some f) (hc : a.clean = true) (hw : w.file = some data) :
    let c := mkConfig severityGroupTable a
    let env' := env.withCfg c
    let d := decodeResultOf (fullOf env' c.sel { name := f, data := data })
    ((runMain env a w).world.file = none ↔ ∃ eid j, parsePEL env' c.sel data = .doc eid j) ∧
    ((runMainF fault env a w).world.file = none ↔ inputRemoved (cleanFileTrace d true fault) = true) ∧
    ((runMainF fault env a w).world.file = none →
      (∃ eid j, parsePEL env' c.sel data = .doc eid j) ∧ fault 0 = false ∧ fault 1 = false ∧ fault 2 = false) ∧
    ((runMainF fault env a w).world = w ∨ (runMainF fault env a w).world = { w with file := none }) := by
  intro c env' d
  have hch : Chain (w.fsView a) a (.fileMode f a.clean) false := .file hf
  have hrun : ∀ ft, runMainF ft env a w = fileBranch ft env' c (.fileMode f true) f w := by
    intro ft
    rw [runMainF_of_chain hch, hc]
    rfl
  have hdoc : d = .doc ↔ ∃ eid j, parsePEL env' c.sel data = .doc eid j :=
    decodeResultOf_fullOf_doc_iff env' c.sel { name := f, data := data }
  refine ⟨?_, ?_, ?_, ?_⟩
  · show (runMainF noFault env a w).world.file = none ↔ _
    rw [hrun, fileBranch_clean_file noFault env' c f w data hw]
    simp [noFault]
  · rw [hrun, fileBranch_clean_file fault env' c f w data hw, cleanFileTrace_removed_iff, hdoc]
  · rw [hrun, fileBranch_clean_file fault env' c f w data hw]
    exact id
  · rw [hrun]
    exact fileBranch_frame fault env' c _ f w

/-! Non-vacuity: `-f /in/one.pel --clean` in `wDemo` (the file holds two bytes that are no PEL): the file stays, a diagnostic is written;
    and the hypotheses of `command_file_clean` hold there. -/
example : (runMain envDemo { file := some (s "/in/one.pel"), clean := true } wDemo).world = wDemo ∧
    (runMain envDemo { file := some (s "/in/one.pel"), clean := true } wDemo).diagnostics = 1 ∧
    tv ({ file := some (s "/in/one.pel"), clean := true } : Args).file = some (s "/in/one.pel") ∧ wDemo.file = some [88, 88] := by decide
-- a file that does not exist: reported, status 0
example : (runMain envDemo { file := some (s "/in/none"), clean := true, deleteAll := true } { wDemo with file := none }).exit = 0 := by decide

-- with real PELs (`wPels.file` = a selected two-section PEL): printed, then removed; its hidden twin is filtered out and stays;
-- with a fault at print / flush / remove the file stays
example : (runMain envDemo { file := some (s "/in/one.pel"), clean := true } wPels).world = { wPels with file := none } ∧
    (runMain envDemo { file := some (s "/in/one.pel"), clean := true } wPels).stdout ≠ [] ∧
    (runMain envDemo { file := some (s "/in/one.pel") } wPels).world = wPels ∧
    (runMain envDemo { file := some (s "/in/one.pel"), clean := true } { wPels with file := some pelHiddenDemo }).world.file = some pelHiddenDemo ∧
    (runMain envDemo { file := some (s "/in/one.pel"), clean := true, hidden := true } { wPels with file := some pelHiddenDemo }).world.file = none ∧
    (runMainF (fun k => k == 0) envDemo { file := some (s "/in/one.pel"), clean := true } wPels).world = wPels ∧
    (runMainF (fun k => k == 1) envDemo { file := some (s "/in/one.pel"), clean := true } wPels).world = wPels ∧
    (runMainF (fun k => k == 2) envDemo { file := some (s "/in/one.pel"), clean := true } wPels).world = wPels := by decide +kernel

end Pel.C12
