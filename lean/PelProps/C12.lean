namespace Pel.C12
end Pel.C12
