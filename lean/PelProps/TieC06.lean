import PelGen.GenOutput
import PelProofs.TieOutput
import PelProps.C06
/-
  Source tie for C06 (stream `output`): `keyEndIndex` and `prettyPrint` of peltool.py, regenerated from the source text by
  harness/trans_output.py (PelGen/GenOutput.lean), are the model's `keyEndIndex` (with `keyScan`) and `prettyPrint`
  (PelModel/Json.lean) — the functions C06's theorems are about.

  The Python functions are index loops over mutable locals; the generated terms are state-passing programs in the `Option` monad
  (`none` = raises or runs out of fuel, PelModel/TransOutput.lean).  The model never raises, so each tie says `g … = some (model …)`:
  in particular the regenerated loop terminates within its fuel and never indexes out of range, for every input.
  Python's `keyEndIndex` returns an `int` (-1 = no key): `encIdx` is that encoding of the model's `Option Nat`.
-/
set_option linter.unusedSimpArgs false
set_option linter.unusedVariables false
namespace Pel.Tie

/-- `keyEndIndex(line)`: skip the blanks, demand a quote, then the escape-aware `while` scan (index + 2 after a backslash, at a quote
    answer the index if a colon follows and -1 otherwise, else index + 1; -1 when the text ends) is the model's `keyEndIndex` -/
theorem keyEndIndex (g : Text → Option Int) (h : Gen.keyEndIndex? = some g) :
    g = fun line => some (encIdx (Pel.keyEndIndex line)) := by
  cases h <;> (
    funext line
    obtain ⟨n, hn, hd, hnl⟩ := lstrip_facts [32] line
    simp only [hn]
    rw [pyWhile_rule (fun i => 0 ≤ i) (fun i => ((line.length : Int) - i).toNat) (scanFrom line)]
    · -- before the loop
      rw [keyEndIndex_eq, ← hnl]
      simp only [pyLen]
      cases hb : pyLstrip [32] line with
      | nil =>
        have : line.length ≤ n := by
          have := congrArg List.length hd; simp [hb] at this; omega
        simp [this]
      | cons c r =>
        rw [hb] at hd
        have hlt : n < line.length := by
          have := congrArg List.length hd; simp at this; omega
        have hnl' : ¬ line.length ≤ n := by omega
        simp [pyCharAt_of_drop hd, hnl', scanFrom_add hd, opt_bind_ite]
        repeat' split
        all_goals tie_leaf
    · -- one pass through the body
      intro st hi
      obtain ⟨m, rfl⟩ := Int.eq_ofNat_of_zero_le hi
      by_cases hlt : m < line.length
      · right
        obtain ⟨c, r, hd⟩ : ∃ c r, line.drop m = c :: r := by
          cases h : line.drop m with
          | nil => simp at h; omega
          | cons c r => exact ⟨c, r, rfl⟩
        simp only [pyLen, pyCharAt_of_drop hd, Int.ofNat_lt, hlt, decide_true, Option.pure_def, Option.bind_eq_bind, Option.bind_some,
          true_and, opt_bind_ite, LoopStep.ok_ite]
        simp [pySl_of_drop hd, scanFrom_add hd, opt_bind_ite, LoopStep.ok_ite]
        rw [scanFrom_cons hd, keyScan_cons]
        repeat' split
        all_goals first
          | (refine ⟨by omega, by omega, ?_⟩; tie_leaf)
          | tie_leaf
      · left
        simp [pyLen, hlt, scanFrom_end (Nat.le_of_not_lt hlt)]
    · omega
    · omega)

/-- `prettyPrint(Mdata, desiredSpace)`: split at the newline, for every line index: unless the line contains `{`, find the key end
    with (the translated) `keyEndIndex`, and if it is not negative replace the line by `line[:ind+CHARACTER_SPACE]`, the padding
    `(desiredSpace - ind) * " "` and `line[ind+CHARACTER_SPACE:]`; join with the newline.  This is the model's `prettyPrint`, for the
    callee the source text defines. -/
theorem prettyPrint (g : (Text → Option Int) → Text → Int → Option Text) (k : Text → Option Int)
    (hk : Gen.keyEndIndex? = some k) (h : Gen.prettyPrint? = some g) :
    (fun (desired : Nat) (t : Text) => g k t (desired : Int)) = fun desired t => some (Pel.prettyPrint desired t) := by
  rw [keyEndIndex k hk]
  cases h <;> (
    funext desired t
    simp only [pySplit1_nl]
    refine bind_eq_of_sat (pyFor_range_rule (splitNL t).length (fun i st => st = mapPrefix (ppLine desired) i (splitNL t)) ?_ _ ?_) ?_
    · -- one pass through the body
      intro i st hi hinv
      subst hinv
      have hset := mapPrefix_set (ppLine desired) i (splitNL t) hi
      have hlen : i < (mapPrefix (ppLine desired) i (splitNL t)).length := by rw [mapPrefix_length]; exact hi
      generalize hl : (splitNL t)[i] = l at hset
      simp only [pyAt?_mapPrefix _ _ _ hi, hl, Option.pure_def, Option.bind_eq_bind, Option.bind_some, pyInStr_single]
      cases hc : l.contains 123
      · cases hke : Pel.keyEndIndex l with
        | none =>
          have hf : ppLine desired l = l := by simp only [ppLine, hc, hke, Bool.false_eq_true, if_false]
          simp [hc, hke]
          rw [← hl] at hf; exact (mapPrefix_fix _ _ _ hi hf).symm
        | some ind =>
          have hf : ppLine desired l = l.take (ind + 2) ++ spaces (desired - ind) ++ l.drop (ind + 2) := by
            simp only [ppLine, hc, hke, Bool.false_eq_true, if_false]
          have e1 : (ind : Int) + 2 = ((ind + 2 : Nat) : Int) := by omega
          have e2 : ((desired : Int) - (ind : Int)).toNat = desired - ind := by omega
          simp only [hc, hke, Bool.not_false, Bool.false_eq_true, if_true, if_false, encIdx_some, Option.bind_some, ge_iff_le, Int.natCast_nonneg,
            decide_true, opt_bind_ite]
          rw [e1]
          simp only [pySl_to_nat, pySl_from_nat, pyMulStr_single, e2, pyListSet?_nat _ _ _ hlen, Option.bind_some, OptSat_some]
          rw [← hset, hf]; simp [spaces]
      · have hf : ppLine desired l = l := by simp only [ppLine, hc, if_true]
        simp [hc]
        rw [← hl] at hf; exact (mapPrefix_fix _ _ _ hi hf).symm
    · exact (mapPrefix_zero _ _).symm
    · intro st hst
      subst hst
      simp [mapPrefix_all, Pel.prettyPrint])

/-- the default of `desiredSpace` is the column the model's callers of the full-PEL display pass (`prettyPrint 34`, PelModel/Cli.lean) -/
theorem prettyPrintDefaultSpace (d : Int) (h : Gen.prettyPrintDefaultSpace? = some d) : d = 34 := by
  cases h <;> rfl

/-- C06 ★`aligned_is_structural` for the functions of the source text: the translated `prettyPrint` (calling the translated
    `keyEndIndex`) applied to `json.dumps(doc, indent=4)` never raises and yields the structural rendering `aText` -/
theorem aligned_is_structural (g : (Text → Option Int) → Text → Int → Option Text) (k : Text → Option Int)
    (hk : Gen.keyEndIndex? = some k) (h : Gen.prettyPrint? = some g) (n : Nat) (d : J) :
    g k (dumps d) (n : Int) = some (aText n d 0) := by
  have := congrFun (congrFun (prettyPrint g k hk h) n) (dumps d)
  rw [this, C06.aligned_is_structural]

/-- C06 ★`printed_parses_back` for the functions of the source text -/
theorem printed_parses_back (g : (Text → Option Int) → Text → Int → Option Text) (k : Text → Option Int)
    (hk : Gen.keyEndIndex? = some k) (h : Gen.prettyPrint? = some g) (n : Nat) (d : J) (hw : d.wf = true) :
    (g k (dumps d) (n : Int)).map loads = some (.ok d) := by
  rw [aligned_is_structural g k hk h n d, Option.map_some, ← C06.aligned_is_structural, C06.printed_parses_back n d hw]

/-- C06 ★`key_scan_complete` for the translated `keyEndIndex`: on a member line (indentation, rendered key, colon) it answers the index
    of the closing quote of the COMPLETE key, whatever characters the key contains -/
theorem key_scan_complete (k : Text → Option Int) (hk : Gen.keyEndIndex? = some k) (m : Nat) (key rest : Text) :
    k (spaces m ++ 34 :: (key.flatMap escChar ++ 34 :: 58 :: rest)) = some ((m + 1 + (key.flatMap escChar).length : Nat) : Int) := by
  rw [keyEndIndex k hk]
  simp only [keyEndIndex_quote, C06.key_scan_complete, encIdx_some]

end Pel.Tie
