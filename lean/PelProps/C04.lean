import PelModel.PelSpec
import PelProofs.JsonParse
import PelProps.C13
import PelProofs.UserData
/-
  C04 — User data is rendered from its content or preserved byte-for-byte as a hex dump.
  Statements are about `parseUserData` + `udToJson` (the whole path from payload to the displayed section)
  and `decodeDefault`.
-/
namespace Pel.C04

def headMembers (T : Tables) (h : SecHdr) (creator : Text) : List (Text × J) :=
  [kv "Section Version" (jnum h.ver), kv "Sub-section type" (jnum h.sub), kv "Created by" (jstr (displayCompID T h.comp creator))]

def isBuiltin (T : Tables) (creator : Text) (comp : Nat) : Prop := lookupT T.creators creator = some (s "BMC") ∧ comp = 0x2000

/-- the section as displayed -/
def shown (T : Tables) (env : UdEnv) (allow : Bool) (h : SecHdr) (creator : Text) (data : Bytes) : Except Err J :=
  udToJson T h creator (parseUserData T env allow creator h.comp h.sub h.ver data)

/-- ★ the "Data" member of a fallback is a lossless dump: its lines parse back to exactly the payload -/
theorem dump_recovers_payload (data : Bytes) (hb : ∀ x ∈ data, x < 256) (hlen : data.length ≤ 2 ^ 32) :
    hexdumpJ data = .arr ((hexdump16 data).map jstr) ∧ parseDump fmtDefault (hexdump16 data) = data := by
  exact ⟨rfl, Pel.C13.parse_hexdump data hb hlen⟩

/-- ★ (ii) no parser module for this creator/component -/
theorem fallback_absent (T : Tables) (env : UdEnv) (h : SecHdr) (creator : Text) (data : Bytes)
    (hnb : ¬ isBuiltin T creator h.comp) (habs : env (udModuleName creator h.comp) = .absent) :
    shown T env true h creator data = .ok (.obj (headMembers T h creator ++ [kv "Data" (hexdumpJ data)])) := by
  unfold shown parseUserData udToJson headMembers
  unfold isBuiltin at hnb
  simp only [if_neg hnb, Bool.not_true, Bool.false_eq_true, if_false, habs, hexdumpJ]
  rw [objSet_head_data]

/-- ★ (iii) parser modules disabled -/
theorem fallback_disabled (T : Tables) (env : UdEnv) (h : SecHdr) (creator : Text) (data : Bytes)
    (hnb : ¬ isBuiltin T creator h.comp) (hne : data ≠ []) :
    shown T env false h creator data = .ok (.obj (headMembers T h creator ++ [kv "Data" (hexdumpJ data)])) := by
  unfold shown parseUserData udToJson headMembers
  unfold isBuiltin at hnb
  simp only [if_neg hnb, Bool.not_false, if_true, if_pos hne]
  rw [objUpdate_head_data]

/-- ★ (iv) the parser module raises: error note + dump -/
theorem fallback_raises (T : Tables) (env : UdEnv) (h : SecHdr) (creator : Text) (data : Bytes) (msg : Text)
    (hnb : ¬ isBuiltin T creator h.comp) (hne : data ≠ []) (hr : env (udModuleName creator h.comp) = .raises msg) :
    ∃ note, shown T env true h creator data =
      .ok (.obj (headMembers T h creator ++ [kv "Error" (jstr note), kv "Data" (hexdumpJ data)])) := by
  unfold shown parseUserData udToJson headMembers
  unfold isBuiltin at hnb
  simp only [if_neg hnb, Bool.not_true, Bool.false_eq_true, if_false, hr, errorWithData, if_pos hne, List.cons_append,
    List.nil_append]
  rw [objUpdate_head_error_data]
  exact ⟨_, rfl⟩

/-- ★ (iv') the parser module cannot be loaded for a reason other than "no such module" (executing it raises):
    error note + dump, exactly as for a failing call -/
theorem fallback_import_raises (T : Tables) (env : UdEnv) (h : SecHdr) (creator : Text) (data : Bytes) (msg : Text)
    (hnb : ¬ isBuiltin T creator h.comp) (hne : data ≠ []) (hr : env (udModuleName creator h.comp) = .importRaises msg) :
    ∃ note, shown T env true h creator data =
      .ok (.obj (headMembers T h creator ++ [kv "Error" (jstr note), kv "Data" (hexdumpJ data)])) := by
  unfold shown parseUserData udToJson headMembers
  unfold isBuiltin at hnb
  simp only [if_neg hnb, Bool.not_true, Bool.false_eq_true, if_false, hr, errorWithData, if_pos hne, List.cons_append,
    List.nil_append]
  rw [objUpdate_head_error_data]
  exact ⟨_, rfl⟩

/-- ★ (v) the parser module returns nothing: error note + dump -/
theorem fallback_none (T : Tables) (env : UdEnv) (h : SecHdr) (creator : Text) (data : Bytes)
    (hnb : ¬ isBuiltin T creator h.comp) (hne : data ≠ []) (hr : env (udModuleName creator h.comp) = .returnsNone) :
    ∃ note, shown T env true h creator data =
      .ok (.obj (headMembers T h creator ++ [kv "Error" (jstr note), kv "Data" (hexdumpJ data)])) := by
  unfold shown parseUserData udToJson headMembers
  unfold isBuiltin at hnb
  simp only [if_neg hnb, Bool.not_true, Bool.false_eq_true, if_false, hr, errorWithData, if_pos hne, List.cons_append,
    List.nil_append]
  rw [objUpdate_head_error_data]
  exact ⟨_, rfl⟩

/-- built-in component, sub-type other than JSON / text (CBOR, custom, …): dump -/
theorem builtin_other_subtype (T : Tables) (env : UdEnv) (allow : Bool) (h : SecHdr) (creator : Text) (data : Bytes)
    (hb : isBuiltin T creator h.comp) (h1 : h.sub ≠ 1) (h3 : h.sub ≠ 3) :
    shown T env allow h creator data = .ok (.obj (headMembers T h creator ++ [kv "Data" (hexdumpJ data)])) := by
  unfold shown parseUserData udToJson headMembers builtinFormat
  unfold isBuiltin at hb
  simp only [if_pos hb, if_neg h1, if_neg h3, hexdumpJ]
  rw [objSet_head_data]

/-- ★ (i) an unrecognised / hexdump-only section type: the entry carries the dump of exactly its payload -/
theorem unrecognised_type (h : SecHdr) (data rest : Bytes) (hlen : h.len = 8 + data.length) (hne : 1 ≤ data.length) :
    decodeDefault h (data ++ rest) =
      .ok (.obj [kv "Section Version" (jnum h.ver), kv "Sub-section type" (jnum h.sub),
                 kv "Created by" (jstr (ox (fmtHex 2 h.comp))), kv "Data" (hexdumpJ data)], rest) := by
  unfold decodeDefault
  have e : h.len - 8 = data.length := by omega
  have hn : ¬ data.length = 0 := by omega
  simp only [e, bind, StateT.bind, getMem, if_neg hn, List.length_append, Nat.le_add_right, if_true, Except.bind,
    List.take_left', List.drop_left', pure, StateT.pure, Except.pure]

/-- the lines of the built-in text format: the text is split at newlines, every character outside 0x20..0x7E is
    replaced by '.', all other characters are kept in order; a final empty line is not listed -/
def specLines (t : Text) : List Text :=
  let ls := (splitNL t).map (fun l => l.map (fun ch => if ch < 32 ∨ ch > 126 then 46 else ch))
  if ls.getLast? = some [] then ls.dropLast else ls

theorem text_lines_spec (t : Text) : textLinesGo t [] = specLines t := by
  obtain ⟨l, ls, e⟩ := splitNL_ne_nil t
  rw [textLinesGo_gen t [] l ls e]
  simp only [specLines, e, List.map_cons, List.nil_append, finLines]
  rfl

/-- ★ built-in text format: the lines of the (whitespace/NUL-stripped) text with only non-printables replaced -/
theorem builtin_text (T : Tables) (env : UdEnv) (allow : Bool) (h : SecHdr) (creator : Text) (data : Bytes) (t : Text)
    (hb : isBuiltin T creator h.comp) (h3 : h.sub = 3) (hd : utf8Decode data = some t) :
    shown T env allow h creator data =
      .ok (.obj (headMembers T h creator ++ [kv "Data" (.arr ((specLines (rstripChar 0 (stripSp t))).map jstr))])) := by
  unfold shown parseUserData udToJson headMembers builtinFormat
  unfold isBuiltin at hb
  have h31 : ¬ h.sub = 1 := by omega
  simp only [if_pos hb, if_neg h31, if_pos h3, hd, builtinText, text_lines_spec]
  rw [objSet_head_data]

/-- ★ built-in JSON format, object: every member of the user's object is displayed with its value
    (members whose key collides with a header key replace that key's value in place) -/
theorem builtin_json_object (T : Tables) (env : UdEnv) (allow : Bool) (h : SecHdr) (creator : Text) (data : Bytes) (t : Text)
    (members : List (Text × J))
    (hb : isBuiltin T creator h.comp) (h1 : h.sub = 1) (hd : utf8Decode data = some t)
    (hl : loads (rstripChar 0 (stripSp t)) = .ok (.obj members)) :
    shown T env allow h creator data = .ok (.obj (objUpdate (headMembers T h creator) members)) := by
  unfold shown parseUserData udToJson headMembers builtinFormat
  unfold isBuiltin at hb
  simp only [if_pos hb, if_pos h1, hd, hl]

theorem objUpdate_shows_all (head members : List (Text × J)) (hd : (members.map (·.1)).Nodup) :
    ∀ kv ∈ members, objGet? (objUpdate head members) kv.1 = some kv.2 := by
  exact objGet_objUpdate_mem members head hd

/-- built-in JSON format, any other JSON value: displayed under "Data" -/
theorem builtin_json_value (T : Tables) (env : UdEnv) (allow : Bool) (h : SecHdr) (creator : Text) (data : Bytes) (t : Text)
    (j : J) (hb : isBuiltin T creator h.comp) (h1 : h.sub = 1) (hd : utf8Decode data = some t)
    (hl : loads (rstripChar 0 (stripSp t)) = .ok j) (hno : ∀ m, j ≠ .obj m) :
    shown T env allow h creator data = .ok (.obj (headMembers T h creator ++ [kv "Data" j])) := by
  unfold shown parseUserData udToJson headMembers builtinFormat
  unfold isBuiltin at hb
  simp only [if_pos hb, if_pos h1, hd, hl]
  cases j with
  | obj m => exact absurd rfl (hno m)
  | _ => simp only [objSet_head_data]

/-- ★ round trip for the built-in JSON format: a payload that is the JSON text of a document `d` (as printed by
    `json.dumps`, any indentation column), optionally NUL padded, is displayed as that same value -/
theorem builtin_json_roundtrip (T : Tables) (env : UdEnv) (allow : Bool) (h : SecHdr) (creator : Text) (d : J) (n pad : Nat)
    (hb : isBuiltin T creator h.comp) (h1 : h.sub = 1) (hw : d.wf = true) :
    shown T env allow h creator (aText n d 0 ++ List.replicate pad 0) =
      .ok (match d with
        | .obj members => .obj (objUpdate (headMembers T h creator) members)
        | j => .obj (headMembers T h creator ++ [kv "Data" j])) := by
  obtain ⟨hd, hs⟩ := builtin_sees_aText n d pad
  have hl : loads (rstripChar 0 (stripSp (aText n d 0 ++ List.replicate pad 0))) = .ok d := by
    rw [hs]; exact loads_aText n d hw
  cases d with
  | obj m => exact builtin_json_object T env allow h creator _ _ m hb h1 hd hl
  | _ => exact builtin_json_value T env allow h creator _ _ _ hb h1 hd hl (by intro m hm; cases hm)

/-- ★ payload bytes are never silently dropped: whatever the environment does, the displayed section is computed
    from the payload by a decoder (built-in format or parser module) or contains the lossless dump of the payload -/
theorem never_dropped (T : Tables) (env : UdEnv) (allow : Bool) (h : SecHdr) (creator : Text) (data : Bytes) (hne : data ≠ []) :
    (isBuiltin T creator h.comp ∧ (h.sub = 1 ∨ h.sub = 3)) ∨
    (allow = true ∧ ¬ isBuiltin T creator h.comp ∧
      (env (udModuleName creator h.comp) = .echo ∨ ∃ t, env (udModuleName creator h.comp) = .returnsText t)) ∨
    (∃ pre, shown T env allow h creator data = .ok (.obj (headMembers T h creator ++ pre ++ [kv "Data" (hexdumpJ data)]))) := by
  by_cases hb : isBuiltin T creator h.comp
  · by_cases h1 : h.sub = 1
    · exact Or.inl ⟨hb, Or.inl h1⟩
    · by_cases h3 : h.sub = 3
      · exact Or.inl ⟨hb, Or.inr h3⟩
      · refine Or.inr (Or.inr ⟨[], ?_⟩)
        rw [List.append_nil]
        exact builtin_other_subtype T env allow h creator data hb h1 h3
  · cases allow with
    | false =>
      refine Or.inr (Or.inr ⟨[], ?_⟩)
      rw [List.append_nil]
      exact fallback_disabled T env h creator data hb hne
    | true =>
      cases he : env (udModuleName creator h.comp) with
      | absent =>
        refine Or.inr (Or.inr ⟨[], ?_⟩)
        rw [List.append_nil]
        exact fallback_absent T env h creator data hb he
      | echo => exact Or.inr (Or.inl ⟨rfl, hb, Or.inl rfl⟩)
      | raises msg =>
        obtain ⟨note, e⟩ := fallback_raises T env h creator data msg hb hne he
        exact Or.inr (Or.inr ⟨[kv "Error" (jstr note)], by rw [e, List.append_assoc]; rfl⟩)
      | importRaises msg =>
        obtain ⟨note, e⟩ := fallback_import_raises T env h creator data msg hb hne he
        exact Or.inr (Or.inr ⟨[kv "Error" (jstr note)], by rw [e, List.append_assoc]; rfl⟩)
      | returnsNone =>
        obtain ⟨note, e⟩ := fallback_none T env h creator data hb hne he
        exact Or.inr (Or.inr ⟨[kv "Error" (jstr note)], by rw [e, List.append_assoc]; rfl⟩)
      | returnsText t => exact Or.inr (Or.inl ⟨rfl, hb, Or.inr ⟨t, rfl⟩⟩)

end Pel.C04
