namespace Pel.C04
end Pel.C04
