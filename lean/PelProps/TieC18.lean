import PelGen.GenDispatch
import PelProofs.TieDispatch
import PelProps.C18
/-
  Source tie for C18 (stream `dispatch`, harness/trans_dispatch.py → PelGen/GenDispatch.lean): the parser-module routing, regenerated
  from the source text, is the model's.

  * udparsers/m2c00/m2c00.py `parseUDToJson` with `_get_drawer_type` and the four `_parse_*` functions inlined = `Pel.m2c00`
    (sub-type constants and keys, drawer chosen by version, empty data, the error object of an unexpected version);
  * srcparsers/osrc/osrc.py `parseSRCToJson`: the module name = `modPath "srcparsers" (C18.srcModuleName "o" refcode)`, the
    table look-up with its `except ModuleNotFoundError` = `Pel.osrcLookup`;
  * src.py `SRC.parse` and parse_user_data.py `ParseUserData.parseCustom`: the module names given to `importlib.import_module`;
  * calloutparsers/ocallouts/ocallouts.py `getMaintProcDesc` = the `table` behaviour of `CalloutPlugin` in `procDescription`.

  The model indexes environments and module tables by the short module name `n`; the code by `pkg.n.n` = `modPath pkg n`, which is
  injective in `n` (`modPath_injective`).
-/
set_option linter.unusedSimpArgs false
namespace Pel.Tie
open Pel.TieAux

/-! ### udparsers.m2c00 -/

/-- `parseUDToJson(sub_type, version, data)` of the I/O-drawer plugin -/
theorem m2c00 (g : List DrawerTables → Nat → Nat → Bytes → Option J) (hg : Gen.m2c00? = some g) : g = Pel.m2c00 := by
  cases hg <;> funext drawers sub ver data <;> first
  | with_reducible rfl
  | (unfold Pel.m2c00
     simp only [SUB_HLOG, SUB_ILOG, SUB_TRACE, linesJ, hexdumpJ, hexdump16, jstr, kv]
     tie_cases)

/-- what `parseUDToJson` does for the sub-type the source calls `SUB_TYPE_HLOG` (`_parse_hlog` under the `try` of its caller) -/
theorem m2c00Hlog (g : List DrawerTables → Nat → Bytes → Option J) (hg : Gen.m2c00Hlog? = some g) :
    g = fun drawers ver data => Pel.m2c00 drawers SUB_HLOG ver data := by
  cases hg <;> funext drawers ver data <;> first
  | with_reducible rfl
  | (unfold Pel.m2c00
     simp only [SUB_HLOG, SUB_ILOG, SUB_TRACE, linesJ, hexdumpJ, hexdump16, jstr, kv]
     tie_cases)

/-- … `SUB_TYPE_ILOG` (`_parse_ilog`) -/
theorem m2c00Ilog (g : List DrawerTables → Nat → Bytes → Option J) (hg : Gen.m2c00Ilog? = some g) :
    g = fun drawers ver data => Pel.m2c00 drawers SUB_ILOG ver data := by
  cases hg <;> funext drawers ver data <;> first
  | with_reducible rfl
  | (unfold Pel.m2c00
     simp only [SUB_HLOG, SUB_ILOG, SUB_TRACE, linesJ, hexdumpJ, hexdump16, jstr, kv]
     tie_cases)

/-- … `SUB_TYPE_TRACE` (`_parse_trace`) -/
theorem m2c00Trace (g : List DrawerTables → Nat → Bytes → Option J) (hg : Gen.m2c00Trace? = some g) :
    g = fun drawers ver data => Pel.m2c00 drawers SUB_TRACE ver data := by
  cases hg <;> funext drawers ver data <;> first
  | with_reducible rfl
  | (unfold Pel.m2c00
     simp only [SUB_HLOG, SUB_ILOG, SUB_TRACE, linesJ, hexdumpJ, hexdump16, jstr, kv]
     tie_cases)

/-- C18 ★`m2c00_object` for the translated function: the plugin always returns a JSON object -/
theorem m2c00_object (g : List DrawerTables → Nat → Nat → Bytes → Option J) (hg : Gen.m2c00? = some g)
    (drawers : List DrawerTables) (sub ver : Nat) (data : Bytes) (j : J) (h : g drawers sub ver data = some j) : ∃ l, j = .obj l := by
  rw [m2c00 g hg] at h
  exact C18.m2c00_object drawers sub ver data j h

/-- C18 ★`m2c00_routing` for the translated function -/
theorem m2c00_routing (g : List DrawerTables → Nat → Nat → Bytes → Option J) (hg : Gen.m2c00? = some g)
    (drawers : List DrawerTables) (ver : Nat) (data : Bytes) (d : DrawerTables) (hne : data ≠ [])
    (hd : drawers.find? (fun d => d.version == ver) = some d) :
    g drawers 72 ver data = some (.obj [(s "History Log", linesJ (parseHlog d.fields data))]) ∧
    g drawers 73 ver data = (parseIlog d.pte data).map (fun ls => .obj [(s "ILOG", linesJ ls)]) ∧
    g drawers 84 ver data = (parseTrace d.strs data).map (fun ls => .obj [(s "Trace", linesJ ls)]) := by
  rw [m2c00 g hg]
  exact C18.m2c00_routing drawers ver data d hne hd

/-! ### module names -/

/-- `pkg.n.n` determines `n` -/
theorem modPath_injective (pkg a b : Text) (h : modPath pkg a = modPath pkg b) : a = b := TieAux.modPath_injective pkg a b h

/-- `ParseUserData.parseCustom`: the module imported is `udparsers.<n>.<n>` with `n` the model's `udModuleName` -/
theorem udParserModule (g : Text → Nat → Text) (hg : Gen.udParserModule? = some g) :
    g = fun creator comp => modPath (s "udparsers") (udModuleName creator comp) := by
  cases hg <;> funext creator comp <;> first
  | with_reducible rfl
  | (simp only [modPath, joinWith, udModuleName]
     first | (simp; done) | (simp [s]; done))

/-- C18 ★`ud_module_name` for the translated name: creator in lower case, component id as four lower-case hex digits -/
theorem ud_module_name (g : Text → Nat → Text) (hg : Gen.udParserModule? = some g) (creator : Text) (comp : Nat) (hc : comp < 65536) :
    g creator comp = modPath (s "udparsers") (creator.map toLowerAscii ++ hexFixL 4 comp) := by
  rw [udParserModule g hg]
  show modPath (s "udparsers") (udModuleName creator comp) = _
  rw [C18.ud_module_name creator comp hc]

/-- `SRC.parse`: the module imported is `srcparsers.<creator, lower case>src.…` -/
theorem srcParserModule (g : Text → Text) (hg : Gen.srcParserModule? = some g) :
    g = fun creator => modPath (s "srcparsers") (creator.map toLowerAscii ++ s "src") := by
  cases hg <;> funext creator <;> first
  | with_reducible rfl
  | (simp only [modPath, joinWith]
     first | (simp; done) | (simp [s]; done))

/-- … which is the module `C18.srcModuleName` names for every creator other than `o` (for `o` it is the wrapper `osrc`) -/
theorem srcParserModule_spec (g : Text → Text) (hg : Gen.srcParserModule? = some g) (creator ascii : Text) :
    g creator = if creator.map toLowerAscii = s "o" then modPath (s "srcparsers") (s "osrc")
                else modPath (s "srcparsers") (C18.srcModuleName creator ascii) := by
  rw [srcParserModule g hg]
  unfold C18.srcModuleName
  split
  · next h => simp only [h]; rfl
  · rfl

/-- `osrc.parseSRCToJson`: the component module named by characters 4..5 of the reference code, `bsrc` for BC codes -/
theorem osrcModuleName (g : Text → Text) (hg : Gen.osrcModuleName? = some g) :
    g = fun ascii => modPath (s "srcparsers") (C18.srcModuleName (s "o") ascii) := by
  cases hg <;> funext ascii <;> first
  | with_reducible rfl
  | (simp only [modPath, C18.srcModuleName, joinWith, lower_o, if_true]
     repeat' split
     all_goals first | rfl | (simp_all; done) | (simp_all [s]; done))

/-- C18 ★`src_only_that_module` for BMC SRCs, in terms of the translated name: the SRC details depend on the import system only
    through the module whose dotted name the translated `osrc` code builds -/
theorem src_only_that_module (g : Text → Text) (hg : Gen.osrcModuleName? = some g) (env env' : SrcEnv) (creator ascii : Text)
    (hexwords : List Text) (hc : creator.map toLowerAscii = s "o")
    (h : ∀ n, modPath (s "srcparsers") n = g ascii → env.src n = env'.src n) :
    (match srcDetails env creator ascii hexwords, srcDetails env' creator ascii hexwords with
      | .none, .none => True
      | .some a, .some b => a = b
      | .fail, .fail => True
      | .unsupported, .unsupported => True
      | _, _ => False) := by
  apply C18.src_only_that_module
  apply h
  rw [osrcModuleName g hg]
  have e : C18.srcModuleName creator ascii = C18.srcModuleName (s "o") ascii := by
    unfold C18.srcModuleName
    simp only [hc, lower_o]
  rw [e]

/-! ### the module table of `osrc` -/

/-- `osrc.parseSRCToJson` up to the call of the component parser: table look-up, import, `except ModuleNotFoundError` -/
theorem osrcLookup (g : ProcEnv → Cache SrcPlugin → Text → Got SrcPlugin × Cache SrcPlugin) (hg : Gen.osrcLookup? = some g) :
    g = Pel.osrcLookup := by
  cases hg <;> funext env c n <;> first
  | with_reducible rfl
  | (unfold Pel.osrcLookup; tie_cases)

/-! ### calloutparsers.ocallouts -/

/-- `getMaintProcDesc(procedure)`: the description lines of a known procedure as a JSON array, nothing (`''`) otherwise -/
theorem getMaintProcDesc (g : List (Text × List Text) → Text → Option J) (hg : Gen.getMaintProcDesc? = some g) :
    g = fun procs proc => (procDescription.lookupT' procs proc).map fun lines => .arr (lines.map jstr) := by
  cases hg <;> funext procs proc <;> first
  | with_reducible rfl
  | tie_cases

/-- the `table` behaviour of the callout plugin model is the translated function: `procDescription` shows what it returns -/
theorem procDescription_table (g : List (Text × List Text) → Text → Option J) (hg : Gen.getMaintProcDesc? = some g)
    (env : SrcEnv) (creator proc : Text) (procs : List (Text × List Text))
    (he : env.callout (creator.map toLowerAscii) = .table procs) :
    procDescription env creator true proc = (match g procs proc with | some j => [kv "Description" j] | none => []) := by
  rw [getMaintProcDesc g hg]
  unfold procDescription
  simp only [he, Bool.not_true, Bool.false_eq_true, if_false]
  cases procDescription.lookupT' procs proc <;> rfl

end Pel.Tie
