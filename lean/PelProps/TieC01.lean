import PelGen.GenPeltool
import PelProofs.TiePeltool
import PelProofs.TieDispatch
import PelGen.GenOutput
import PelProofs.TieOutput
import PelProps.C01
/-
  Source tie for C01 (stream `peltool`): `parseHeader` and `getSectionName` of peltool.py, regenerated from the source text
  by harness/trans_peltool.py (PelGen/GenPeltool.lean), are the model's `parseHeader` and `sectionName`
  (PelModel/Sections.lean) — the functions C01's theorems are about.
-/
set_option linter.unusedSimpArgs false
namespace Pel.Tie

/-- `parseHeader(stream)`: five big-endian reads of widths 2, 2, 1, 1, 2, returned in this order -/
theorem parseHeader (g : Rd SecHdr) (h : Gen.parseHeader? = some g) : g = Pel.parseHeader := by
  cases h <;> first
  | rfl
  | (funext st; simp [Pel.parseHeader, bind, StateT.bind, pure, StateT.pure]; done)

/-- `getSectionName(sectionID)`: the two id bytes as characters, looked up in `sectionNames`, default "Unknown" -/
theorem getSectionName (g : Tables → Nat → Text) (h : Gen.getSectionName? = some g) : g = Pel.sectionName := by
  cases h <;> funext T id <;> first
  | rfl
  | (simp only [sectionName, Nat.shiftRight_eq_div_pow, and_255, s_Unknown, List.cons_append, List.nil_append, List.singleton_append]
     done)
  | (simp only [sectionName, Nat.shiftRight_eq_div_pow, and_255, s_Unknown, List.cons_append, List.nil_append, List.singleton_append]
     rfl)
  | (simp [sectionName, Nat.shiftRight_eq_div_pow, and_255, s_Unknown]; done)
  | (simp only [sectionName, s_Unknown]; congr 2; simp [Nat.shiftRight_eq_div_pow, and_255]; omega)

/-- C01 ★`frame_section` with the name function of the source text: each entry is decoded from exactly the bytes its section
    header delimits and stored under the name the translated `getSectionName` gives its id -/
theorem frame_section (gn : Tables → Nat → Text) (hn : Gen.getSectionName? = some gn)
    (env : Env) (creator : Text) (sec : ASection) (hs : sec.WF) (j : J)
    (hr : renderSection env creator sec = .ok j) (rest : Bytes) :
    decodeOne env creator (sec.enc ++ rest) = .ok ((gn env.T sec.body.id, j), rest) := by
  rw [getSectionName gn hn]
  exact C01.frame_section env creator sec hs j hr rest

/-- C01 `name_of_id` for the translated function -/
theorem name_of_id (gn : Tables → Nat → Text) (hn : Gen.getSectionName? = some gn) (T : Tables) (id : Nat) :
    gn T id = (lookupT T.sectionNames [(id / 256) % 256, id % 256]).getD (s "Unknown") := by
  rw [getSectionName gn hn]; rfl

/-! ### stream `dispatch` (harness/trans_dispatch.py, PelGen/GenDispatch.lean): `sectionFun`, the `generate*` wrappers and the section
    loop of `parsePEL`, regenerated from the source text, are the model's `decodeSection` / `decodeSections` (PelModel/Pel.lean).

    A wrapper is translated AS `sectionFun` CALLS IT (the parameters are bound by position to what the call passes); its value is the
    one member it stores in the fresh dictionary, as the pair (name, rendered section): `namedBy T h rd` (PelModel/TransDispatch.lean).
    The section ids are the VALUES of the `SectionID` enumeration read from pel_types.py. -/

open Pel.TieAux in
/-- `generateSRC`: `SRC(stream, <the five header fields in order>, creatorID).toJSON(config)` stored under `getSectionName(sectionID)` -/
theorem generateSRC (g : Env → Text → SecHdr → Rd (Text × J)) (hg : Gen.generateSRC? = some g) :
    g = fun env creator h => namedBy env.T h (Prod.fst <$> decodeSRC env.T env.src h creator env.allowPlugins) := by
  cases hg <;> funext env creator h <;> first
  | with_reducible rfl
  | (simp only [namedBy]; tie_cases)

/-- `generateEH`: `ExtendedUserHeader(…, creatorID).toJSON()` -/
theorem generateEH (g : Env → Text → SecHdr → Rd (Text × J)) (hg : Gen.generateEH? = some g) :
    g = fun env creator h => namedBy env.T h (decodeEH env.T h creator) := by
  cases hg <;> funext env creator h <;> first
  | with_reducible rfl
  | (simp only [namedBy]; tie_cases)

/-- `generateMT`: `FailingMTMS(…, creatorID).toJSON()` -/
theorem generateMT (g : Env → Text → SecHdr → Rd (Text × J)) (hg : Gen.generateMT? = some g) :
    g = fun env creator h => namedBy env.T h (decodeMT env.T h creator) := by
  cases hg <;> funext env creator h <;> first
  | with_reducible rfl
  | (simp only [namedBy]; tie_cases)

/-- `generateED`: `ExtUserData(…).toJSON(config)` (no creator id: the section carries its own) -/
theorem generateED (g : Env → Text → SecHdr → Rd (Text × J)) (hg : Gen.generateED? = some g) :
    g = fun env _ h => namedBy env.T h (decodeED env.T env.ud env.allowPlugins h) := by
  cases hg <;> funext env creator h <;> first
  | with_reducible rfl
  | (simp only [namedBy]; tie_cases)

/-- `generateUD`: `UserData(…, creatorID).toJSON(config)` -/
theorem generateUD (g : Env → Text → SecHdr → Rd (Text × J)) (hg : Gen.generateUD? = some g) :
    g = fun env creator h => namedBy env.T h (decodeUD env.T env.ud env.allowPlugins h creator) := by
  cases hg <;> funext env creator h <;> first
  | with_reducible rfl
  | (simp only [namedBy]; tie_cases)

/-- `generateIP`: `ImpactedPartition(…, creatorID).toJSON()` -/
theorem generateIP (g : Env → Text → SecHdr → Rd (Text × J)) (hg : Gen.generateIP? = some g) :
    g = fun env creator h => namedBy env.T h (decodeLP env.T h creator) := by
  cases hg <;> funext env creator h <;> first
  | with_reducible rfl
  | (simp only [namedBy]; tie_cases)

/-- `generateDefault`: `Default(…).toJSON()` -/
theorem generateDefault (g : Env → Text → SecHdr → Rd (Text × J)) (hg : Gen.generateDefault? = some g) :
    g = fun env _ h => namedBy env.T h (decodeDefault h) := by
  cases hg <;> funext env creator h <;> first
  | with_reducible rfl
  | (simp only [namedBy]; tie_cases)

/-- `sectionFun`: which section id goes to which decoder (`decodeSection`), the result stored under the name of the id -/
theorem sectionFun (g : Env → Text → SecHdr → Rd (Text × J)) (hg : Gen.sectionFun? = some g) :
    g = fun env creator h => namedBy env.T h (Prod.fst <$> decodeSection env creator h) := by
  cases hg <;> funext env creator h <;> first
  | with_reducible rfl
  | (simp only [namedBy, decodeSection, sidPS, sidSS, sidEH, sidMT, sidED, sidUD, sidLP]; tie_cases)

/-- the loop `for _ in range(2, ph.sectionCount): parseHeader; sectionFun; append` of `parsePEL` is the model's recursive
    `decodeSections`, called the way `parsePELRd` calls it -/
theorem sectionLoop (g : Env → PHInfo → Rd (List (Text × J))) (hg : Gen.sectionLoop? = some g) :
    g = fun env ph => decodeSections env ph.creator (ph.sectionCount - 2) := by
  cases hg <;> funext env ph <;> rw [TieAux.decodeSections_eq_collect, TieAux.decodeOne_eq] <;> first
  | with_reducible rfl
  | (congr 1
     first
     | with_reducible rfl
     | (congr 1; funext h
        simp only [namedBy, decodeSection, sidPS, sidSS, sidEH, sidMT, sidED, sidUD, sidLP]; tie_cases))

/-- header + translated `sectionFun` = the model's `decodeOne` (the function C01's framing theorem is about) -/
theorem sectionFun_decodeOne (g : Env → Text → SecHdr → Rd (Text × J)) (hg : Gen.sectionFun? = some g) (env : Env) (creator : Text) :
    (Pel.parseHeader >>= fun h => g env creator h) = decodeOne env creator := by
  rw [sectionFun g hg, TieAux.decodeOne_eq]

/-- C01 ★`frame_section` for the dispatch of the source text: a section header followed by the translated `sectionFun` decodes
    exactly the bytes the header delimits and yields the rendered section under the translated name -/
theorem frame_section_dispatch (g : Env → Text → SecHdr → Rd (Text × J)) (hg : Gen.sectionFun? = some g)
    (gn : Tables → Nat → Text) (hn : Gen.getSectionName? = some gn)
    (env : Env) (creator : Text) (sec : ASection) (hs : sec.WF) (j : J)
    (hr : renderSection env creator sec = .ok j) (rest : Bytes) :
    (Pel.parseHeader >>= fun h => g env creator h) (sec.enc ++ rest) = .ok ((gn env.T sec.body.id, j), rest) := by
  rw [sectionFun_decodeOne g hg]
  exact frame_section gn hn env creator sec hs j hr rest

/-! ### stream `output` (harness/trans_output.py, PelGen/GenOutput.lean): `buildOutput`, regenerated from the source text, is the
    model's `buildOutput` (PelModel/Pel.lean) — the numbering C01's ★`numbering_rule` and `entries` are about.

    The Python function makes two passes over `range(len(sections))` with a dictionary `counts[name] = [occurrences, next number]`
    that it updates in place; the generated term is the same program in state-passing form (PelModel/TransOutput.lean: `none` =
    IndexError / KeyError).  The model counts with `countName` and keeps the next numbers in an association list.  The tie is proved
    with two loop invariants (PelProofs/TieOutput.lean: `CountsInv`, `OutInv`).  The sections are the one-member dictionaries
    `sectionFun` leaves in each fresh `OrderedDict` (Tie.sectionFun: `namedBy`), hence `secs.map fun p => [p]`. -/

set_option linter.unusedVariables false in
/-- `buildOutput(sections, out)`: count the names, then store every section under its bare name if the name occurs once and under
    `name + ' ' + str(k)` otherwise, k = 0, 1, 2 … per name in order of appearance -/
theorem buildOutput (g : List (List (Text × J)) → List (Text × J) → Option (List (Text × J))) (h : Gen.buildOutput? = some g) :
    (fun (secs : List (Text × J)) (out : List (Text × J)) => g (secs.map fun p => [p]) out) =
      fun secs out => some (Pel.buildOutput secs out) := by
  cases h <;> (
    funext all out0
    have hlen : pyLen (all.map fun p => [p]) = (all.length : Int) := by simp [pyLen]
    simp only [hlen]
    refine bind_eq_of_sat (pyFor_range_rule all.length (CountsInv all) ?_ _ ?_) ?_
    · -- first pass
      intro i counts hi hinv
      have hget := hinv all[i].1
      have hstep := CountsInv_step all i hi counts hinv
      simp only [pyAt?_singletons all i hi, pyKeys, List.map_cons, List.map_nil, pyAt?_zero, pyAt?_one, List.getElem?_cons_zero, Option.pure_def,
        Option.bind_eq_bind, Option.bind_some, pyDictHas_eq, hget]
      by_cases h0 : countName all[i].1 (all.take i) = 0
      all_goals first
        | (simp [h0] at hstep ⊢; exact hstep)
        | (simp [h0, Int.add_comm] at hstep ⊢; exact hstep)
    · exact CountsInv_zero all
    · intro counts hc
      refine bind_eq_of_sat (pyFor_range_rule all.length (OutInv all out0) ?_ _ ?_) ?_
      · -- second pass
        intro i st hi hinv
        obtain ⟨out, cts⟩ := st
        have hinv' := hinv
        obtain ⟨counters, hrel, hgo⟩ := hinv'
        have hpos := countName_pos_of_getElem all i hi
        have hget := hrel all[i].1 hpos
        simp only [pyAt?_singletons all i hi, pyKeys, List.map_cons, List.map_nil, pyAt?_zero, pyAt?_one, List.getElem?_cons_zero, Option.pure_def,
          Option.bind_eq_bind, Option.bind_some, hget]
        by_cases h1 : countName all[i].1 all = 1
        · have hstep := OutInv_step_once all out0 i hi out cts hinv h1
          first
            | (simp [h1, pyDictGet?] at hstep ⊢; exact hstep)
            | (simp [h1, pyDictGet?, Int.add_comm] at hstep ⊢; exact hstep)
        · have hstep := OutInv_step_more all out0 i hi out cts counters hrel hgo h1
          have h1' : ¬ ((countName all[i].1 all : Int) = 1) := by omega
          have h1'' : ¬ ((1 : Int) = (countName all[i].1 all : Int)) := by omega
          first
            | (simp [h1, h1', h1'', pyDictGet?, pyListSet?] at hstep ⊢; exact hstep)
            | (simp [h1, h1', h1'', pyDictGet?, pyListSet?, Int.add_comm] at hstep ⊢; exact hstep)
      · exact OutInv_zero all out0 counts hc
      · intro st hst
        obtain ⟨out, cts⟩ := st
        simpa using OutInv_final all out0 _ hst)

/-- C01 numbering (`entries` / ★`numbering_rule`) for the translated `buildOutput`: when the numbered names are new and distinct,
    the sections are appended to `out` under `numberNames`, the declarative numbering ★`numbering_rule` characterises -/
theorem buildOutput_numbering (g : List (List (Text × J)) → List (Text × J) → Option (List (Text × J))) (h : Gen.buildOutput? = some g)
    (secs out : List (Text × J))
    (hnodup : ((out.map (·.1)) ++ numberNames (secs.map (·.1)) (secs.map (·.1))).Nodup) :
    g (secs.map fun p => [p]) out = some (out ++ (numberNames (secs.map (·.1)) (secs.map (·.1))).zip (secs.map (·.2))) := by
  have := congrFun (congrFun (buildOutput g h) secs) out
  rw [this, buildOutput_eq secs out hnodup]

end Pel.Tie
