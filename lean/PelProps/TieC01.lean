import PelGen.GenPeltool
import PelProofs.TiePeltool
import PelProps.C01
/-
  Source tie for C01 (stream `peltool`): `parseHeader` and `getSectionName` of peltool.py, regenerated from the source text
  by harness/trans_peltool.py (PelGen/GenPeltool.lean), are the model's `parseHeader` and `sectionName`
  (PelModel/Sections.lean) — the functions C01's theorems are about.
-/
set_option linter.unusedSimpArgs false
namespace Pel.Tie

/-- `parseHeader(stream)`: five big-endian reads of widths 2, 2, 1, 1, 2, returned in this order -/
theorem parseHeader (g : Rd SecHdr) (h : Gen.parseHeader? = some g) : g = Pel.parseHeader := by
  cases h <;> first
  | rfl
  | (funext st; simp [Pel.parseHeader, bind, StateT.bind, pure, StateT.pure]; done)

/-- `getSectionName(sectionID)`: the two id bytes as characters, looked up in `sectionNames`, default "Unknown" -/
theorem getSectionName (g : Tables → Nat → Text) (h : Gen.getSectionName? = some g) : g = Pel.sectionName := by
  cases h <;> funext T id <;> first
  | rfl
  | (simp only [sectionName, Nat.shiftRight_eq_div_pow, and_255, s_Unknown, List.cons_append, List.nil_append, List.singleton_append]
     done)
  | (simp only [sectionName, Nat.shiftRight_eq_div_pow, and_255, s_Unknown, List.cons_append, List.nil_append, List.singleton_append]
     rfl)
  | (simp [sectionName, Nat.shiftRight_eq_div_pow, and_255, s_Unknown]; done)
  | (simp only [sectionName, s_Unknown]; congr 2; simp [Nat.shiftRight_eq_div_pow, and_255]; omega)

/-- C01 ★`frame_section` with the name function of the source text: each entry is decoded from exactly the bytes its section
    header delimits and stored under the name the translated `getSectionName` gives its id -/
theorem frame_section (gn : Tables → Nat → Text) (hn : Gen.getSectionName? = some gn)
    (env : Env) (creator : Text) (sec : ASection) (hs : sec.WF) (j : J)
    (hr : renderSection env creator sec = .ok j) (rest : Bytes) :
    decodeOne env creator (sec.enc ++ rest) = .ok ((gn env.T sec.body.id, j), rest) := by
  rw [getSectionName gn hn]
  exact C01.frame_section env creator sec hs j hr rest

/-- C01 `name_of_id` for the translated function -/
theorem name_of_id (gn : Tables → Nat → Text) (hn : Gen.getSectionName? = some gn) (T : Tables) (id : Nat) :
    gn T id = (lookupT T.sectionNames [(id / 256) % 256, id % 256]).getD (s "Unknown") := by
  rw [getSectionName gn hn]; rfl

end Pel.Tie
