import PelProofs.Ilog
import PelProofs.Loaders
import PelGen.Live
/-
  C14 — ILOG decoding reports every entry with the first matching table message.
  Property theorems only; helper lemmas live in PelProofs/Ilog.lean.
-/
namespace Pel.C14

/-! Pins -/
theorem pin_entry_size : ∀ v ∈ Live.ilog_ILOG_ENTRY_SIZE, v = 8 := by decide
theorem pin_error_mask : ∀ v ∈ Live.ilog_ERROR_MASK, v = 0xF0000000 := by decide
theorem pin_error_value : ∀ v ∈ Live.ilog_ERROR_VALUE, v = 0xE0000000 := by decide
theorem pin_reported_mask : ∀ v ∈ Live.ilog_REPORTED_MASK, v = 0x00040000 := by decide
theorem pin_reported_value : ∀ v ∈ Live.ilog_REPORTED_VALUE, v = 0x00040000 := by decide

/-- ★ For every table and every sequence of entries followed by a partial entry (fewer than 8 bytes), the
    decoder outputs the two heading lines and exactly one line per entry that is not all zero, in order,
    each as the property describes (`specIlog`); the trailing partial entry is ignored. -/
theorem entries_roundtrip (tbl : List PteEntry) (es : List IlogEntry) (tail : Bytes)
    (hes : ∀ e ∈ es, e.WF) (ht : tail.length < 8) :
    parseIlog tbl (es.flatMap IlogEntry.enc ++ tail) = specIlog tbl es := by
  unfold parseIlog specIlog
  rw [ilogLoop_entries tbl es tail hes ht]

/-- every byte string is such a sequence: ⌊|b|/8⌋ entries and a tail -/
theorem decompose (b : Bytes) (hb : ∀ x ∈ b, x < 256) :
    ∃ (es : List IlogEntry) (tail : Bytes), (∀ e ∈ es, IlogEntry.WF e) ∧ tail.length < 8 ∧
      b = es.flatMap IlogEntry.enc ++ tail ∧ es.length = b.length / 8 := by
  exact decompose_aux b.length b (Nat.le_refl _) hb

/-- ★ the description is that of the FIRST table entry (header-file order) matching as is or, for a reported
    error, with the reported flag cleared -/
theorem first_match (tbl : List PteEntry) (pte : Nat) (h : pte < 2 ^ 32) :
    getEntry tbl pte = tbl.find? (fun e => specMatches e pte) := by
  exact getEntry_eq_find tbl pte h

/-- parameter `k ∈ 1..4` is byte `k` of the PTE, big-endian -/
theorem params_from_bytes (pte k : Nat) (h : pte < 2 ^ 32) (hk : 1 ≤ k ∧ k ≤ 4) :
    pteByte pte k = pte / 256 ^ (4 - k) % 256 := by
  exact pteByte_div pte k h hk

/-- the timestamp text is H:MM:SS of the stored second counter, dashes exactly for 0xFFFF -/
theorem timestamp_fields (t : Nat) (h : t < 0xFFFF) :
    ∃ hh mm ss, specTimestamp t = fmtDecSp 2 hh ++ [58] ++ fmtDec0 2 mm ++ [58] ++ fmtDec0 2 ss ∧
      hh * 3600 + mm * 60 + ss = t ∧ mm < 60 ∧ ss < 60 := by
  refine ⟨t / 3600, t % 3600 / 60, t % 60, ?_, by omega, by omega, by omega⟩
  unfold specTimestamp
  rw [if_neg (by omega)]

theorem timestamp_dashes : specTimestamp 0xFFFF = s "--------" := by
  rfl

/-- every line shows the sequence number and the PTE exactly as stored: the text at columns 9..12 and
    14..21 parses back to the stored values -/
theorem line_fields (tbl : List PteEntry) (e : IlogEntry) (he : e.WF) (l : Text)
    (h : specIlogLine tbl e = some l) :
    l.take 8 = specTimestamp e.ts ∧
    parseHexText ((l.drop 9).take 4) = e.seq ∧ parseHexText ((l.drop 14).take 8) = e.pte := by
  obtain ⟨hts, hseq, hpte⟩ := he
  have h16a : (16:Nat) ^ 4 = 2 ^ 16 := by decide
  have h16b : (16:Nat) ^ 8 = 2 ^ 32 := by decide
  unfold specIlogLine at h
  cases hd : specDescription tbl e.pte with
  | none => rw [hd] at h; simp at h
  | some m =>
    rw [hd] at h
    simp only [Option.map_some, Option.some.injEq] at h
    subst h
    obtain ⟨c1, c2, c3⟩ := columns (specTimestamp e.ts) (hexFix 4 e.seq) (hexFix 8 e.pte) m
      (specTimestamp_length e.ts hts) (hexFix_length _ _) (hexFix_length _ _)
    rw [c1, c2, c3, parseHexText_hexFix 4 e.seq (by omega), parseHexText_hexFix 8 e.pte (by omega)]
    exact ⟨rfl, rfl, rfl⟩

/-! ### the table LOADER (`PTETable._parse_header_file` / `_add_entry` / `PTETableEntry.__init__`, modelled in
    PelModel/Regex.lean + Loaders.lean) -/

/-- ★ Printing a table as a C header (start line, `{`, one entry line per entry in the documented example format, the
    "The End" entry, `};`) and loading it with the model of the repo's loader gives back exactly what `_add_entry` is meant to
    store: pattern, message with blanks stripped (escaped quotes unescaped again), parameters restricted to 1..4, file, line.

    Well-formedness `PteSrc.wf` (decidable): pattern non-empty, without `"` and without the seven characters that can make
    `re.compile` raise; file without `"`; parameters single decimal digits; line number of at most 4300 digits; and
    `quoteTailsOk msg`: NO `"` IN THE MESSAGE IS FOLLOWED BY  blanks `,` blanks `{`.  The last condition is necessary: in
    `"((?:[^"]|\\")*)"` the alternative `[^"]` is tried first and also accepts the backslash of `\"`, so the engine first tries
    to END the message at every escaped quote and only moves on if the REST of the pattern cannot match there; a message
    such as `A" , { B` therefore loads as message `A\` with the parameter text ` B", {1` (see `quote_condition_needed`).
    Backslashes in the message (also a trailing one) and newlines are harmless. -/
theorem pte_header_roundtrip (tbl : List PteSrc) (hwf : ∀ e ∈ tbl, e.wf = true) :
    loadPteRows (renderPteHeader tbl) = some (tbl.map normalisePte) := by
  have := pte_header_loaded tbl hwf [] (by intro l hl; cases hl)
  rw [List.append_nil] at this
  exact this

/-- the same for the three-field table the ILOG decoder works on -/
theorem pte_header_roundtrip_table (tbl : List PteSrc) (hwf : ∀ e ∈ tbl, e.wf = true) :
    loadPteTable (renderPteHeader tbl) = some (tbl.map fun e => (normalisePte e).entry) := by
  unfold loadPteTable
  rw [pte_header_roundtrip tbl hwf]
  simp

def demoTable : List PteSrc :=
  [{ pattern := s "0200****", msg := s "This PEROM level = %c%c  ", params := [3, 4], file := s "states.cpp", line := 254 },
   { pattern := s "E2082690", msg := s "P1 IO Bay VRM in \"N-Mode\", ok\\", params := [], file := s "vrm_monitor.cpp", line := 145 },
   { pattern := s "100100**", msg := s "PS%d - Faults Cleared", params := [4, 0, 9, 1], file := s "mps.cpp", line := 0 }]

example : (∀ e ∈ demoTable, e.wf = true) ∧
    renderPteHeader demoTable =
      [s "static struct pte_entry_struct static_pte_entry_table[PTE_TABLE_SIZE] =\n", s "{\n",
       s "  { \"0200****\", \"This PEROM level = %c%c  \", {3, 4}, \"states.cpp\", 254 },\n",
       s "  { \"E2082690\", \"P1 IO Bay VRM in \\\"N-Mode\\\", ok\\\", {}, \"vrm_monitor.cpp\", 145 },\n",
       s "  { \"100100**\", \"PS%d - Faults Cleared\", {4, 0, 9, 1}, \"mps.cpp\", 0 },\n",
       s "  { \"\"        , \"The End\" }\n", s "};\n"] ∧
    loadPteTable (renderPteHeader demoTable) = some
      [{ pattern := s "0200****", fmt := s "This PEROM level = %c%c", params := [3, 4] },
       { pattern := s "E2082690", fmt := s "P1 IO Bay VRM in \"N-Mode\", ok\\", params := [] },
       { pattern := s "100100**", fmt := s "PS%d - Faults Cleared", params := [4, 1] }] := by decide +kernel

/-- the condition on quotes cannot be dropped: this entry is printed as `{ "AB", "A\" , { B", {1}, "f.cpp", 17 },` and the
    real pattern (and the model) read the message `A\` and the parameter text ` B", {1` from it -/
theorem quote_condition_needed :
    let e : PteSrc := { pattern := s "AB", msg := s "A\" , { B", params := [1], file := s "f.cpp", line := 17 }
    e.wf = false ∧
    loadPteRows (renderPteHeader [e]) = some [{ entry := { pattern := s "AB", fmt := s "A\\", params := [1] }, file := s "f.cpp", line := 17 }] := by
  decide +kernel

/-- ★ the groups of an entry line IN ANY LAYOUT: whatever blank runs `w0 … w12` (any of Python's whitespace characters,
    possibly empty) stand where the pattern has `\s*`, `TBL_ENTRY_RE.fullmatch` succeeds and its five groups are exactly the
    pattern, the escaped message, the parameter text, the file and the line-number digits -/
theorem entry_line_groups (w0 w1 w2 w3 w4 w5 w6 w7 w8 w9 w10 w11 w12 : Text)
    (h0 : AllSp w0) (h1 : AllSp w1) (h2 : AllSp w2) (h3 : AllSp w3) (h4 : AllSp w4) (h5 : AllSp w5) (h6 : AllSp w6)
    (h7 : AllSp w7) (h8 : AllSp w8) (h9 : AllSp w9) (h10 : AllSp w10) (h11 : AllSp w11) (h12 : AllSp w12)
    (p : Nat) (pat msg P F : Text) (d : Nat) (ds : Text)
    (hp : p ≠ 34) (hpat : ∀ x ∈ pat, x ≠ 34) (hmsg : quoteTailsOk msg = true) (hP : ∀ x ∈ P, x ≠ 125)
    (hF : ∀ x ∈ F, x ≠ 34) (hd : 48 ≤ d ∧ d ≤ 57) (hds : ∀ x ∈ ds, 48 ≤ x ∧ x ≤ 57) :
    tblEntryRe.fullmatch (entryLine w0 w1 w2 w3 w4 w5 w6 w7 w8 w9 w10 w11 w12 p pat (escapeQuote msg) P F d ds)
      = some [(5, d :: ds), (4, F), (3, P), (2, escapeQuote msg), (1, p :: pat)] :=
  tblEntry_fullmatch w0 w1 w2 w3 w4 w5 w6 w7 w8 w9 w10 w11 w12 h0 h1 h2 h3 h4 h5 h6 h7 h8 h9 h10 h11 h12 p pat msg P F d ds
    hp hpat hmsg hP hF hd hds

/-- a shipped-style line (two blanks, blank after the closing comma, CR already translated) is such a layout -/
example : entryLine (s "  ") (s " ") [] (s " ") [] (s " ") [] (s " ") [] (s " ") (s " ") [] (s " \n") 69 (s "2082690")
      (escapeQuote (s "in \"N-Mode\"   ")) [] (s "vrm_monitor.cpp") 49 (s "45")
    = s "  { \"E2082690\", \"in \\\"N-Mode\\\"   \", {}, \"vrm_monitor.cpp\", 145 }, \n" := by decide +kernel

/-- ★ lines outside the table never contribute entries: whatever stands in front of the start line and behind the end line
    (entry lines included), as long as none of those lines is itself a start line, the loaded table is that of the table part -/
theorem lines_outside_table_ignored (tbl : List PteSrc) (hwf : ∀ e ∈ tbl, e.wf = true) (pre post : List Text)
    (hpre : ∀ l ∈ pre, tblStartRe.fullmatch l = none) (hpost : ∀ l ∈ post, tblStartRe.fullmatch l = none) :
    loadPteRows (pre ++ renderPteHeader tbl ++ post) = some (tbl.map normalisePte) := by
  unfold loadPteRows
  rw [List.append_assoc, loadPteGo_before pre _ hpre]
  exact pte_header_loaded tbl hwf post hpost

/-- the general form, for any file: lines before the first start line are ignored, and outside a table nothing is loaded
    until a start line comes -/
theorem lines_before_start_ignored (pre rest : List Text) (hpre : ∀ l ∈ pre, tblStartRe.fullmatch l = none) :
    loadPteRows (pre ++ rest) = loadPteRows rest :=
  loadPteGo_before pre rest hpre

example : let pre := [s "// x\n", renderPteLine demoTable[0], pteEndLine]
    let post := [s "\n", renderPteLine demoTable[2], s "{\n"]
    (∀ l ∈ pre, tblStartRe.fullmatch l = none) ∧ (∀ l ∈ post, tblStartRe.fullmatch l = none) ∧
    loadPteRows (pre ++ renderPteHeader demoTable ++ post) = some (demoTable.map normalisePte) := by decide +kernel

/-- ★ a line that matches none of the three patterns contributes nothing and does not disturb its neighbours, inside or
    outside the table -/
theorem non_matching_lines_skipped (a b : List Text) (bad : Text) (h1 : tblStartRe.fullmatch bad = none)
    (h2 : tblEndRe.fullmatch bad = none) (h3 : tblEntryRe.fullmatch bad = none) :
    loadPteRows (a ++ bad :: b) = loadPteRows (a ++ b) :=
  loadPteGo_bad_line bad h1 h2 h3 a b false

/-- e.g. an entry line whose closing comma is missing, a comment, an entry with an unescaped quote in the message -/
example : ∀ bad ∈ [s "  { \"0200****\", \"x\", {}, \"f\", 1 }\n", s "  // comment\n", s "  { \"A\", \"in\"side\", {}, \"f\", 1 },\n"],
    tblStartRe.fullmatch bad = none ∧ tblEndRe.fullmatch bad = none ∧ tblEntryRe.fullmatch bad = none := by decide +kernel

/-- ★ end to end, header file → decoded lines: loading the printed header and decoding ILOG bytes with the loaded table gives
    the lines the property describes for the normalised table -/
theorem header_file_to_ilog_lines (tbl : List PteSrc) (hwf : ∀ e ∈ tbl, e.wf = true) (es : List IlogEntry) (tail : Bytes)
    (hes : ∀ e ∈ es, e.WF) (ht : tail.length < 8) :
    (loadPteTable (renderPteHeader tbl)).bind (fun t => parseIlog t (es.flatMap IlogEntry.enc ++ tail)) =
      specIlog (tbl.map fun e => (normalisePte e).entry) es := by
  rw [pte_header_roundtrip_table tbl hwf]
  exact entries_roundtrip _ es tail hes ht

/-- one entry 00:00:01 0002 02003132 decoded with the table loaded from the printed demo header -/
example : (loadPteTable (renderPteHeader demoTable)).bind (fun t => parseIlog t [0, 1, 0, 2, 2, 0, 0x31, 0x32]) =
    some (ilogHeading ++ [s " 0:00:01 0002 02003132 This PEROM level = 12"]) := by decide +kernel

end Pel.C14
