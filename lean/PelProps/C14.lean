import PelProofs.Ilog
import PelGen.Live
/-
  C14 — ILOG decoding reports every entry with the first matching table message.
  Property theorems only; helper lemmas live in PelProofs/Ilog.lean.
-/
namespace Pel.C14

/-! Pins -/
theorem pin_entry_size : ∀ v ∈ Live.ilog_ILOG_ENTRY_SIZE, v = 8 := by decide
theorem pin_error_mask : ∀ v ∈ Live.ilog_ERROR_MASK, v = 0xF0000000 := by decide
theorem pin_error_value : ∀ v ∈ Live.ilog_ERROR_VALUE, v = 0xE0000000 := by decide
theorem pin_reported_mask : ∀ v ∈ Live.ilog_REPORTED_MASK, v = 0x00040000 := by decide
theorem pin_reported_value : ∀ v ∈ Live.ilog_REPORTED_VALUE, v = 0x00040000 := by decide

/-- ★ For every table and every sequence of entries followed by a partial entry (fewer than 8 bytes), the
    decoder outputs the two heading lines and exactly one line per entry that is not all zero, in order,
    each as the property describes (`specIlog`); the trailing partial entry is ignored. -/
theorem entries_roundtrip (tbl : List PteEntry) (es : List IlogEntry) (tail : Bytes)
    (hes : ∀ e ∈ es, e.WF) (ht : tail.length < 8) :
    parseIlog tbl (es.flatMap IlogEntry.enc ++ tail) = specIlog tbl es := by
  unfold parseIlog specIlog
  rw [ilogLoop_entries tbl es tail hes ht]

/-- every byte string is such a sequence: ⌊|b|/8⌋ entries and a tail -/
theorem decompose (b : Bytes) (hb : ∀ x ∈ b, x < 256) :
    ∃ (es : List IlogEntry) (tail : Bytes), (∀ e ∈ es, IlogEntry.WF e) ∧ tail.length < 8 ∧
      b = es.flatMap IlogEntry.enc ++ tail ∧ es.length = b.length / 8 := by
  exact decompose_aux b.length b (Nat.le_refl _) hb

/-- ★ the description is that of the FIRST table entry (header-file order) matching as is or, for a reported
    error, with the reported flag cleared -/
theorem first_match (tbl : List PteEntry) (pte : Nat) (h : pte < 2 ^ 32) :
    getEntry tbl pte = tbl.find? (fun e => specMatches e pte) := by
  exact getEntry_eq_find tbl pte h

/-- parameter `k ∈ 1..4` is byte `k` of the PTE, big-endian -/
theorem params_from_bytes (pte k : Nat) (h : pte < 2 ^ 32) (hk : 1 ≤ k ∧ k ≤ 4) :
    pteByte pte k = pte / 256 ^ (4 - k) % 256 := by
  exact pteByte_div pte k h hk

/-- the timestamp text is H:MM:SS of the stored second counter, dashes exactly for 0xFFFF -/
theorem timestamp_fields (t : Nat) (h : t < 0xFFFF) :
    ∃ hh mm ss, specTimestamp t = fmtDecSp 2 hh ++ [58] ++ fmtDec0 2 mm ++ [58] ++ fmtDec0 2 ss ∧
      hh * 3600 + mm * 60 + ss = t ∧ mm < 60 ∧ ss < 60 := by
  refine ⟨t / 3600, t % 3600 / 60, t % 60, ?_, by omega, by omega, by omega⟩
  unfold specTimestamp
  rw [if_neg (by omega)]

theorem timestamp_dashes : specTimestamp 0xFFFF = s "--------" := by
  rfl

/-- every line shows the sequence number and the PTE exactly as stored: the text at columns 9..12 and
    14..21 parses back to the stored values -/
theorem line_fields (tbl : List PteEntry) (e : IlogEntry) (he : e.WF) (l : Text)
    (h : specIlogLine tbl e = some l) :
    l.take 8 = specTimestamp e.ts ∧
    parseHexText ((l.drop 9).take 4) = e.seq ∧ parseHexText ((l.drop 14).take 8) = e.pte := by
  obtain ⟨hts, hseq, hpte⟩ := he
  have h16a : (16:Nat) ^ 4 = 2 ^ 16 := by decide
  have h16b : (16:Nat) ^ 8 = 2 ^ 32 := by decide
  unfold specIlogLine at h
  cases hd : specDescription tbl e.pte with
  | none => rw [hd] at h; simp at h
  | some m =>
    rw [hd] at h
    simp only [Option.map_some, Option.some.injEq] at h
    subst h
    obtain ⟨c1, c2, c3⟩ := columns (specTimestamp e.ts) (hexFix 4 e.seq) (hexFix 8 e.pte) m
      (specTimestamp_length e.ts hts) (hexFix_length _ _) (hexFix_length _ _)
    rw [c1, c2, c3, parseHexText_hexFix 4 e.seq (by omega), parseHexText_hexFix 8 e.pte (by omega)]
    exact ⟨rfl, rfl, rfl⟩

end Pel.C14
