namespace Pel.C14
end Pel.C14
