import PelProofs.Dump
import PelProofs.HexDumpParse
import PelProps.C13
import PelGen.Live
/-
  C17 — An I/O drawer dump is split into ILOG and trace regions that partition it.
-/
namespace Pel.C17

/-! Pins -/
theorem pin_header_start : ∀ v ∈ Live.traceHeaderStart, v = traceHeaderStart := by decide
theorem pin_buffer_names : ∀ v ∈ Live.traceBufferNames, v = bufferNames := by decide
theorem pin_divider : ∀ v ∈ Live.dividerLine, v = dividerLine := by decide
theorem pin_format_count : ∀ v ∈ Live.hexFormatCount, v = 2 := by decide

/-- `findSub` returns the least index at which the pattern occurs -/
theorem findSub_least (pat b : Bytes) (k : Nat) (h : findSub pat b 0 = some k) :
    k ≤ b.length ∧ pat.isPrefixOf (b.drop k) = true ∧ ∀ j, j < k → pat.isPrefixOf (b.drop j) = false := by
  have := findSub_some_aux pat b 0 k h
  simpa using this.2

theorem findSub_none (pat b : Bytes) (h : findSub pat b 0 = none) :
    ∀ j, j ≤ b.length → pat.isPrefixOf (b.drop j) = false := by
  exact findSub_none_aux pat b 0 h

/-- ★ the regions cover every byte exactly once, in address order -/
theorem partition (b : Bytes) :
    ilogRegion b (bufferOffsets b) ++ (traceRegions b (bufferOffsets b)).flatten = b := by
  exact regions_partition b _ (bufferOffsets_pairwise b)

/-- the offsets are in ascending order and inside the data -/
theorem offsets_sorted (b : Bytes) : (bufferOffsets b).Pairwise (· ≤ ·) ∧ ∀ o ∈ bufferOffsets b, o ≤ b.length := by
  exact ⟨bufferOffsets_pairwise b, bufferOffsets_le b⟩

/-- ★ every trace region begins at a recognised header: the four start bytes followed by one of the six names -/
theorem regions_begin_with_header (b : Bytes) :
    ∀ o ∈ bufferOffsets b, ∃ nm ∈ bufferNames, (traceHeaderStart ++ nm).isPrefixOf (b.drop o) = true := by
  intro o ho
  obtain ⟨nm, hnm, h⟩ := (mem_bufferOffsets b o).mp ho
  exact ⟨nm, hnm, (findSub_least _ b o h).2.1⟩

/-- ★ the ILOG region is everything before the EARLIEST recognised header: no header pattern occurs at an
    offset before the first region boundary -/
theorem no_header_before_first (b : Bytes) (o : Nat) (os : List Nat) (h : bufferOffsets b = o :: os) :
    ∀ nm ∈ bufferNames, ∀ j, j < o → (traceHeaderStart ++ nm).isPrefixOf (b.drop j) = false := by
  intro nm hnm j hj
  have ho : o ≤ b.length := bufferOffsets_le b o (by rw [h]; simp)
  have hsorted := bufferOffsets_pairwise b
  rw [h, List.pairwise_cons] at hsorted
  cases hf : findSub (traceHeaderStart ++ nm) b 0 with
  | none => exact findSub_none _ b hf j (by omega)
  | some k =>
    have hk : k ∈ bufferOffsets b := (mem_bufferOffsets b k).mpr ⟨nm, hnm, hf⟩
    rw [h] at hk
    have hok : o ≤ k := by
      rcases List.mem_cons.mp hk with rfl | hk
      · exact Nat.le_refl _
      · exact hsorted.1 k hk
    exact (findSub_least _ b k hf).2.2 j (by omega)

theorem no_header_means_all_ilog (b : Bytes) (h : bufferOffsets b = []) :
    ilogRegion b (bufferOffsets b) = b ∧
    ∀ nm ∈ bufferNames, ∀ j, j ≤ b.length → (traceHeaderStart ++ nm).isPrefixOf (b.drop j) = false := by
  refine ⟨by rw [h]; rfl, ?_⟩
  intro nm hnm j hj
  cases hf : findSub (traceHeaderStart ++ nm) b 0 with
  | none => exact findSub_none _ b hf j hj
  | some k =>
    have hk : k ∈ bufferOffsets b := (mem_bufferOffsets b k).mpr ⟨nm, hnm, hf⟩
    rw [h] at hk
    simp at hk

/-- ★ each region is reported under its own heading, decoded exactly as the stand-alone decoders decode those bytes -/
theorem composition (tbl : List PteEntry) (ss : List TraceString) (b : Bytes) (hne : b ≠ []) :
    parseDumpData tbl ss b =
      (match parseIlog tbl (ilogRegion b (bufferOffsets b)) with
       | none => none
       | some il => (optAll ((traceRegions b (bufferOffsets b)).map (parseTrace ss))).map fun ts =>
           ([s "ILOG", []] ++ il ++ [[], dividerLine, []]) ++
             (ts.map fun t => [s "Trace", []] ++ t ++ [[], dividerLine, []]).flatten) := by
  have he : b.isEmpty = false := by
    cases b with
    | nil => exact absurd rfl hne
    | cons x r => rfl
  unfold parseDumpData
  simp only [he, Bool.false_eq_true, if_false, formatIlogSection]
  rfl

theorem empty_input (tbl : List PteEntry) (ss : List TraceString) : parseDumpData tbl ss [] = some [] := by
  simp [parseDumpData]

/-- ★ decoding a dump file written in the BMC format (padded or truncated short last line, any comment or
    blank lines) gives the same result as decoding its raw bytes -/
theorem file_equals_raw_bmc (tbl : List PteEntry) (ss : List TraceString) (pad : Bool) (b : Bytes)
    (hb : ∀ x ∈ b, x < 256) (text : List Text)
    (h : (text.map rstripNL).filter (fun t => !isNoise t) = renderBmc pad b) :
    parseDumpFile tbl ss text = parseDumpData tbl ss b := by
  have h1 : parseDump fmtBmc text = b := C13.parse_bmc pad b hb text h
  unfold parseDumpFile
  simp only [h1]
  cases b with
  | nil =>
    rw [renderBmc_nil] at h
    have h2 : parseDump fmtPre text = [] := parseDump_all_noise fmtPre (Or.inr (by decide)) text h
    simp [h2, parseDumpData]
  | cons x r => simp

/-- ★ the same for the pre-BMC format: the BMC template yields no bytes on such a file, so detection falls
    through to the pre-BMC template -/
theorem file_equals_raw_prebmc (tbl : List PteEntry) (ss : List TraceString) (pad : Bool) (b : Bytes)
    (hb : ∀ x ∈ b, x < 256) (text : List Text)
    (h : (text.map rstripNL).filter (fun t => !isNoise t) = renderPre pad b) :
    parseDumpFile tbl ss text = parseDumpData tbl ss b := by
  have h1 : parseDump fmtBmc text = [] := parseDump_bmc_of_pre pad b text h
  have h2 : parseDump fmtPre text = b := C13.parse_prebmc pad b hb text h
  unfold parseDumpFile
  simp only [h1, h2]
  cases b with
  | nil => simp [parseDumpData]
  | cons x r => simp

end Pel.C17
