namespace Pel.C17
end Pel.C17
