import PelProofs.HexDumpParse
import PelGen.Live
/-
  C13 — Hex dumps are lossless: parsing a dump returns the original bytes.
  Property theorems only; helper lemmas live in PelProofs.
-/
namespace Pel.C13

/-! Pins: the three line templates of the live code are the ones these theorems are about. -/
theorem pin_default_format : ∀ f ∈ Live.hexDefaultFormat, f = fmtDefault := by decide
theorem pin_bmc_format : ∀ f ∈ Live.hexBmcFormat, f = fmtBmc := by decide
theorem pin_pre_format : ∀ f ∈ Live.hexPreFormat, f = fmtPre := by decide
/-- the model's pairing of nibbles coincides with the code's `line[i-1:i+1]` on these templates -/
theorem templates_paired : pairedD fmtDefault = true ∧ pairedD fmtBmc = true ∧ pairedD fmtPre = true := by decide

/-- one line per started line of data, for every bytes-per-line setting `l ≥ 1` -/
theorem line_count (l c : Nat) (b : Bytes) (hl : 1 ≤ l) :
    (hexdump l c b).length = ceilDiv b.length l := by
  unfold hexdump ceilDiv
  exact hexdumpFrom_length l c hl b.length b 0 (Nat.le_refl _)

/-- all lines are equally wide (offsets below 2^32 have eight digits) -/
theorem equal_width (l c : Nat) (b : Bytes) (hl : 1 ≤ l) (hc : 1 ≤ c) (hb : b.length ≤ 2 ^ 32) :
    ∀ line ∈ hexdump l c b, line.length = 8 + 5 + charPerLine l c + 5 + l := by
  intro line hline
  obtain ⟨i, hi, rfl⟩ := List.getElem_of_mem hline
  unfold hexdump at *
  rw [hexdumpFrom_getElem l c hl i b 0 hi]
  have hcount := hexdumpFrom_length l c hl b.length b 0 (Nat.le_refl _)
  rw [hcount] at hi
  have hil : i * l < b.length := by
    have := (Nat.lt_div_iff_mul_lt hl).mp hi
    omega
  exact dumpLine_length l c (0 + i * l) _ hl hc (by simp; omega) (by
    have : (16:Nat) ^ 8 = 2 ^ 32 := by decide
    omega)

/-- line `i` begins with its offset `i·l` in eight hex digits -/
theorem offset (l c : Nat) (b : Bytes) (hl : 1 ≤ l) (i : Nat) (hi : i < (hexdump l c b).length)
    (hoff : i * l < 2 ^ 32) : ((hexdump l c b)[i]).take 8 = hexFix 8 (i * l) := by
  unfold hexdump at *
  rw [hexdumpFrom_getElem l c hl i b 0 hi]
  unfold dumpLine
  have : (16:Nat) ^ 8 = 2 ^ 32 := by decide
  rw [fmtHex_eq_hexFix 8 (0 + i * l) (by omega) (by omega)]
  simp [List.take_append]

/-- parsing a default-format dump returns exactly the original bytes -/
theorem parse_hexdump (b : Bytes) (hb : ∀ x ∈ b, x < 256) (hlen : b.length ≤ 2 ^ 32) :
    parseDump fmtDefault (hexdump 16 4 b) = b := by
  unfold hexdump
  have : (16:Nat) ^ 8 = 2 ^ 32 := by decide
  exact parseDump_hexdumpFrom b.length b 0 (Nat.le_refl _) hb (by intro; omega)

/-- Any text whose non-noise lines (after stripping trailing newlines) are the BMC-format rendering of `b`,
    with a padded or a truncated short last line, parses back to `b`: comment and blank lines are ignored. -/
theorem parse_bmc (pad : Bool) (b : Bytes) (hb : ∀ x ∈ b, x < 256) (text : List Text)
    (h : (text.map rstripNL).filter (fun t => !isNoise t) = renderBmc pad b) :
    parseDump fmtBmc text = b := by
  have h1 : parseDump fmtBmc text = parseDump fmtBmc (text.map rstripNL) := by
    simp only [parseDump, List.flatMap_map]
    congr 1; funext t; exact (parseLine_rstrip fmtBmc t).symm
  rw [h1]
  unfold parseDump
  rw [flatMap_filter_of_nil (parseLine fmtBmc) (fun t => !isNoise t) (text.map rstripNL)]
  · rw [h]; exact parseDump_renderBmcFrom pad b.length b 0 (Nat.le_refl _) hb
  · intro x hx hn
    obtain ⟨t, _, rfl⟩ := List.mem_map.mp hx
    apply parseLine_noise fmtBmc _ (Or.inl (by decide))
    have e : rstripNL (rstripNL t) = rstripNL t := rstripChar_idem 10 t
    rw [e]
    simpa using hn

theorem parse_prebmc (pad : Bool) (b : Bytes) (hb : ∀ x ∈ b, x < 256) (text : List Text)
    (h : (text.map rstripNL).filter (fun t => !isNoise t) = renderPre pad b) :
    parseDump fmtPre text = b := by
  have h1 : parseDump fmtPre text = parseDump fmtPre (text.map rstripNL) := by
    simp only [parseDump, List.flatMap_map]
    congr 1; funext t; exact (parseLine_rstrip fmtPre t).symm
  rw [h1]
  unfold parseDump
  rw [flatMap_filter_of_nil (parseLine fmtPre) (fun t => !isNoise t) (text.map rstripNL)]
  · rw [h]; exact parseDump_renderPre pad b.length b (Nat.le_refl _) hb
  · intro x hx hn
    obtain ⟨t, _, rfl⟩ := List.mem_map.mp hx
    apply parseLine_noise fmtPre _ (Or.inr (by decide))
    have e : rstripNL (rstripNL t) = rstripNL t := rstripChar_idem 10 t
    rw [e]
    simpa using hn

/-- the `--hex` display is begin marker, the dump, end marker; the middle parses back to the file's bytes -/
theorem hex_display (b : Bytes) (hb : ∀ x ∈ b, x < 256) (hlen : b.length ≤ 2 ^ 32) :
    ∃ mid, pelHexDisplay b = [s "-------------- PEL Begin  ----------------"] ++ mid ++
        [s "-------------- PEL End    ----------------"] ∧ parseDump fmtDefault mid = b :=
  ⟨hexdump16 b, rfl, parse_hexdump b hb hlen⟩

/-- corollary in the shape of a real dump file: comment/blank lines before and after the data lines -/
theorem parse_bmc_surrounded (pad : Bool) (b : Bytes) (hb : ∀ x ∈ b, x < 256) (before after : List Text)
    (h1 : ∀ t ∈ before, isNoise (rstripNL t) = true) (h2 : ∀ t ∈ after, isNoise (rstripNL t) = true) :
    parseDump fmtBmc (before ++ renderBmc pad b ++ after) = b := by
  apply parse_bmc pad b hb
  simp only [List.map_append, List.filter_append]
  have h3 := filter_real_lines (renderBmc pad b) (renderBmcFrom_real pad b.length b 0 (Nat.le_refl _))
  rw [filter_noise_lines before h1, filter_noise_lines after h2, h3]
  simp

/-! Non-vacuity: the hypotheses are met by concrete inputs with the boundary bytes 0x1F/0x20/0x7E/0x7F, a
    short last line and noise lines (instances of the theorems: `hexdump` is defined by well-founded
    recursion, which the kernel does not unfold, so these go through the theorems, not through evaluation). -/
example : parseDump fmtDefault (hexdump 16 4 [0x1f, 0x20, 0x7e, 0x7f, 0, 255, 1, 2, 3, 4, 5, 6, 7, 8, 9, 10, 11]) =
    [0x1f, 0x20, 0x7e, 0x7f, 0, 255, 1, 2, 3, 4, 5, 6, 7, 8, 9, 10, 11] :=
  parse_hexdump _ (by decide) (by decide)
example : (hexdump 3 2 [1, 2, 3, 4, 5, 6, 7]).length = 3 := line_count 3 2 _ (by decide)
example : parseDump fmtBmc ([s "# comment", []] ++ renderBmc true [0xde, 0xad, 0xbe, 0xef, 1] ++ [[10]]) =
    [0xde, 0xad, 0xbe, 0xef, 1] :=
  parse_bmc_surrounded true _ (by decide) _ _ (by decide) (by decide)
example : parseDump fmtPre (renderPre false [0xde, 0xad, 0xbe]) = [0xde, 0xad, 0xbe] :=
  parseDump_renderPre false 3 _ (by decide) (by decide)

end Pel.C13
