import PelModel.Cli
import PelProofs.CliDir
import PelProofs.Top
/-
  C09 — Unreadable files in a PEL directory never disturb the output for the others.
  In the model the section decoders are readers `Rd α = StateT Bytes (Except Err) α`: they have no way to write to
  standard output at all, so "decoders are silent on stdout" holds by construction; stdout is produced only by the
  mode functions below.
-/
namespace Pel.C09

/-- a file the summary modes (--list, --plid, --src) cannot decode / do not select -/
def junkForSummary (env : Env) (cfg : SelCfg) (f : FileEntry) : Prop :=
  ∀ x, summaryOf env cfg f ≠ .some x
def junkForFull (env : Env) (cfg : SelCfg) (f : FileEntry) : Prop :=
  ∀ x, fullOf env cfg f ≠ .some x
def junkForCount (env : Env) (cfg : SelCfg) (f : FileEntry) : Prop :=
  countOne env cfg f ≠ .some ()

/-- adding a junk file anywhere in the directory (walk order is arbitrary) -/
def withJunk (d1 : Dir) (j : FileEntry) (d2 : Dir) : Dir := d1 ++ j :: d2

/-- names in a directory are distinct -/
def distinctNames (d : Dir) : Prop := (d.map (·.name)).Nodup

/-- the sorted list with a junk file added is the old sorted list with the junk file inserted somewhere -/
theorem sort_with_junk (d1 d2 : Dir) (j : FileEntry) (hd : distinctNames (withJunk d1 j d2)) :
    ∃ a b, sortByName (withJunk d1 j d2) = a ++ j :: b ∧ sortByName (d1 ++ d2) = a ++ b := by
  rw [sortByName_eq, sortByName_eq]
  exact sortBy_with_junk (fun f : FileEntry => f.name) j d2 d1 hd

/-- ★ --list: what is printed, and the exit status, do not change; diagnostics only grow -/
theorem list_noninterference (env : Env) (o : CliOpts) (d1 d2 : Dir) (j : FileEntry)
    (hd : distinctNames (withJunk d1 j d2)) (hj : junkForSummary env o.cfg j) :
    (listMode env o (withJunk d1 j d2)).stdout = (listMode env o (d1 ++ d2)).stdout ∧
    (listMode env o (withJunk d1 j d2)).exit = 0 ∧
    (listMode env o (d1 ++ d2)).stderrLines ≤ (listMode env o (withJunk d1 j d2)).stderrLines := by
  obtain ⟨a, b, h0, h1⟩ := getFileList_junk d1 d2 j o.ext o.rev hd
  unfold listMode withJunk
  simp only []
  rw [h0]
  rcases h1 with h1 | h1 <;> rw [h1]
  · refine ⟨?_, trivial, by rw [List.map_map, List.map_map]; exact countDiag_junk _ a b j⟩
    rw [filterMap_map_junk _ _ a b j]
    cases hs : summaryOf env o.cfg j with
    | some x => exact absurd hs (hj x)
    | skip => rfl
    | diag => rfl
  · exact ⟨rfl, trivial, Nat.le_refl _⟩

/-- ★ --all-pels -/
theorem all_noninterference (env : Env) (o : CliOpts) (d1 d2 : Dir) (j : FileEntry)
    (hd : distinctNames (withJunk d1 j d2)) (hj : junkForFull env o.cfg j) :
    (allMode env o (withJunk d1 j d2)).stdout = (allMode env o (d1 ++ d2)).stdout ∧
    (allMode env o (withJunk d1 j d2)).exit = 0 := by
  obtain ⟨a, b, h0, h1⟩ := getFileList_junk d1 d2 j o.ext o.rev hd
  unfold allMode withJunk
  simp only []
  rw [h0]
  rcases h1 with h1 | h1 <;> rw [h1]
  · refine ⟨?_, trivial⟩
    rw [filterMap_map_junk _ _ a b j]
    cases hs : fullOf env o.cfg j with
    | some x => exact absurd hs (hj x)
    | skip => rfl
    | diag => rfl
  · exact ⟨rfl, trivial⟩

/-- ★ --show-pel-count (junk = files whose two headers cannot be decoded) -/
theorem count_noninterference (env : Env) (o : CliOpts) (d1 d2 : Dir) (j : FileEntry)
    (hd : distinctNames (withJunk d1 j d2)) (hj : junkForCount env o.cfg j) :
    (countMode env o (withJunk d1 j d2)).stdout = (countMode env o (d1 ++ d2)).stdout ∧
    (countMode env o (withJunk d1 j d2)).exit = 0 := by
  obtain ⟨a, b, h0, h1⟩ := getFileList_junk d1 d2 j o.ext false hd
  unfold countMode withJunk keepSome
  simp only []
  rw [h0]
  rcases h1 with h1 | h1 <;> rw [h1]
  · refine ⟨?_, trivial⟩
    rw [filterMap_map_junk _ _ a b j]
    cases hs : countOne env o.cfg j with
    | some x => exact absurd hs hj
    | skip => rfl
    | diag => rfl
  · exact ⟨rfl, trivial⟩

/-- ★ --plid -/
theorem plid_noninterference (env : Env) (o : CliOpts) (x : Text) (d1 d2 : Dir) (j : FileEntry)
    (hd : distinctNames (withJunk d1 j d2)) (hj : junkForSummary env { o.cfg with lookup := true } j) :
    (plidMode env o x (withJunk d1 j d2)).stdout = (plidMode env o x (d1 ++ d2)).stdout ∧
    (plidMode env o x (withJunk d1 j d2)).exit = (plidMode env o x (d1 ++ d2)).exit := by
  obtain ⟨a, b, h0, h1⟩ := getFileList_junk d1 d2 j o.ext o.rev hd
  unfold plidMode withJunk
  cases processId x with
  | none => exact ⟨rfl, rfl⟩
  | some pid =>
    simp only []
    rw [h0]
    rcases h1 with h1 | h1 <;> rw [h1]
    · refine ⟨?_, trivial⟩
      rw [filterMap_map_junk _ _ a b j]
      cases hs : summaryOf env { o.cfg with lookup := true } j with
      | some x => exact absurd hs (hj x)
      | skip => rfl
      | diag => rfl
    · exact ⟨rfl, trivial⟩

/-- ★ --src / --src-exclude -/
theorem src_noninterference (env : Env) (o : CliOpts) (needle ex : Option Text) (d1 d2 : Dir) (j : FileEntry)
    (hd : distinctNames (withJunk d1 j d2)) (hj : junkForSummary env { o.cfg with lookup := true } j) :
    (srcMode env o needle ex (withJunk d1 j d2)).stdout = (srcMode env o needle ex (d1 ++ d2)).stdout ∧
    (srcMode env o needle ex (withJunk d1 j d2)).exit = (srcMode env o needle ex (d1 ++ d2)).exit := by
  obtain ⟨a, b, h0, h1⟩ := getFileList_junk d1 d2 j o.ext o.rev hd
  unfold srcMode withJunk
  refine ite_out _ _ _ _ ?_
  simp only []
  rw [h0]
  rcases h1 with h1 | h1 <;> rw [h1]
  · refine ⟨?_, trivial⟩
    rw [filterMap_map_junk _ _ a b j]
    cases hs : summaryOf env { o.cfg with lookup := true } j with
    | some x => exact absurd hs (hj x)
    | skip => rfl
    | diag => rfl
  · exact ⟨rfl, trivial⟩

/-- ★ --json: the same output files are created for the other PELs -/
theorem json_noninterference (env : Env) (o : CliOpts) (clean : Bool) (d1 d2 : Dir) (j : FileEntry)
    (hj : junkForFull env o.cfg j) :
    (jsonMode env o clean (withJunk d1 j d2)).created = (jsonMode env o clean (d1 ++ d2)).created ∧
    (jsonMode env o clean (withJunk d1 j d2)).removed = (jsonMode env o clean (d1 ++ d2)).removed := by
  unfold jsonMode withJunk
  simp only []
  refine ⟨?_, ?_⟩
  · rw [filter_filterMap_junk]
    cases hs : fullOf env o.cfg j with
    | some x => exact absurd hs (hj x)
    | skip => rfl
    | diag => rfl
  · cases clean
    · rfl
    · simp only [if_true]
      rw [filter_filterMap_junk]
      cases hs : fullOf env o.cfg j with
      | some x => exact absurd hs (hj x)
      | skip => rfl
      | diag => rfl

/-- ★ whatever the directory contains, stdout of the JSON modes is the print-out of ONE document and the exit status is 0 -/
theorem stdout_is_one_document (env : Env) (o : CliOpts) (d : Dir) (hnohex : o.hex = false) :
    (∃ doc, (listMode env o d).stdout = prettyPrint 29 (dumps doc) ++ nl) ∧
    (∃ docs : List J, (allMode env o d).stdout = listFraming (docs.map fun x => prettyPrint 34 (dumps x))) ∧
    (∃ n, (countMode env o d).stdout = s "{\n    \"Number of PELs found\": " ++ natDec n ++ s "\n}\n") ∧
    (listMode env o d).exit = 0 ∧ (allMode env o d).exit = 0 ∧ (countMode env o d).exit = 0 := by
  unfold listMode allMode countMode
  simp only [hnohex, Bool.false_eq_true, if_false]
  exact ⟨⟨_, rfl⟩, ⟨_, congrArg listFraming (List.map_map (f := fun p : FileEntry × (Text × J) => p.2.2)
    (g := fun x => prettyPrint 34 (dumps x))).symm⟩, ⟨_, rfl⟩, trivial, trivial, trivial⟩

/-- with --hex: a sequence of delimited hex dumps, one per decodable selected file -/
theorem hex_is_dump_sequence (env : Env) (o : CliOpts) (d : Dir) (hhex : o.hex = true) :
    ∃ fs : List FileEntry, (∀ f ∈ fs, f ∈ d) ∧ (allMode env o d).stdout = fs.flatMap (fun f => linesOut (pelHexDisplay f.data)) := by
  unfold allMode
  simp only [hhex, if_true]
  refine ⟨List.map (fun p : FileEntry × (Text × J) => p.1) ?l, ?mem, ?eq⟩
  case eq => rw [List.flatMap_map]
  intro f hf
  simp only [List.mem_map, List.mem_filterMap] at hf
  obtain ⟨p, ⟨q, ⟨f', hf', rfl⟩, hq⟩, rfl⟩ := hf
  have hmem := ((mem_getFileList d o.ext o.rev f').1 hf').1
  cases hs : fullOf env o.cfg f' with
  | some x => simp only [hs, Option.some.injEq] at hq; rw [← hq]; exact hmem
  | skip => simp [hs] at hq
  | diag => simp [hs] at hq

/-! ### the WHOLE command: `runMain` = `dispatch` followed by the mode it names, on a `World` (model: PelModel/Top.lean) -/

/-- "`j` is a file the mode this command line reaches cannot decode": the hypothesis of the per-mode theorem of that mode, for the `Config`
    `main()` built (`-l`: `list_noninterference`, `-a`: `all_…`, `-n`: `count_…`, `--plid`: `plid_…`, `--src` / `--src-exclude`: `src_…`);
    no other mode is covered -/
def JunkFor (env : Env) (sel : SelCfg) (j : FileEntry) : Action → Prop
  | .listMode _ => junkForSummary env sel j
  | .allMode _ => junkForFull env sel j
  | .countMode _ => junkForCount env sel j
  | .plidMode _ _ | .srcMode _ _ | .srcExcludeMode _ _ => junkForSummary env { sel with lookup := true } j
  | _ => False

/-- ★ adding an undecodable file `j` anywhere in the `-p` directory (any walk position) changes neither what the WHOLE command prints nor its
    exit status, for every command line that reaches `-l`, `-a`, `-n`, `--plid`, `--src` or `--src-exclude` — whatever else is on the command
    line (selection switches, `-r`, `-e`, `-x`, lower-priority options) and whatever the rest of the world is; nothing in the world changes
    either.  Hypotheses as in the per-mode theorems: distinct names, `j` undecodable for that mode. -/
theorem command_junk_noninterference (env : Env) (a : Args) (w : World) (d1 d2 : Dir) (j : FileEntry)
    (hw : w.dir = withJunk d1 j d2) (hd : distinctNames (withJunk d1 j d2))
    (hj : JunkFor (env.withCfg (dispatch (w.fsView a) a).2) (dispatch (w.fsView a) a).2.sel j (dispatch (w.fsView a) a).1) :
    (runMain env a w).stdout = (runMain env a { w with dir := d1 ++ d2 }).stdout ∧
    (runMain env a w).exit = (runMain env a { w with dir := d1 ++ d2 }).exit ∧
    (runMain env a w).world = w := by
  unfold runMain runMainF
  simp only [fsView_dir]
  generalize (dispatch (w.fsView a) a).2 = c at hj ⊢
  generalize (dispatch (w.fsView a) a).1 = act at hj ⊢
  cases act <;> simp only [JunkFor] at hj <;> simp only [runAction, ofCli, hw]
  case listMode p =>
    obtain ⟨h1, _, _⟩ := list_noninterference (env.withCfg c) c.opts d1 d2 j hd hj
    exact ⟨h1, rfl, trivial⟩
  case allMode p =>
    obtain ⟨h1, _⟩ := all_noninterference (env.withCfg c) c.opts d1 d2 j hd hj
    exact ⟨h1, rfl, trivial⟩
  case countMode p =>
    obtain ⟨h1, _⟩ := count_noninterference (env.withCfg c) c.opts d1 d2 j hd hj
    exact ⟨h1, rfl, trivial⟩
  case plidMode p x =>
    obtain ⟨h1, h2⟩ := plid_noninterference (env.withCfg c) c.opts x d1 d2 j hd hj
    exact ⟨h1, h2, trivial⟩
  case srcMode p sv =>
    obtain ⟨h1, h2⟩ := src_noninterference (env.withCfg c) c.opts (some sv) none d1 d2 j hd hj
    exact ⟨h1, h2, trivial⟩
  case srcExcludeMode p f =>
    obtain ⟨h1, h2⟩ := src_noninterference (env.withCfg c) c.opts none (some (w.exclude.getD [])) d1 d2 j hd hj
    exact ⟨h1, h2, trivial⟩

/-- by induction: any number of undecodable files, appended in any order (each one junk for the mode reached) -/
theorem command_junk_list (env : Env) (a : Args) (w : World) (junk : List FileEntry)
    (hd : distinctNames (junk ++ w.dir))
    (hj : ∀ j ∈ junk, JunkFor (env.withCfg (dispatch (w.fsView a) a).2) (dispatch (w.fsView a) a).2.sel j (dispatch (w.fsView a) a).1) :
    (runMain env a { w with dir := junk ++ w.dir }).stdout = (runMain env a w).stdout ∧
    (runMain env a { w with dir := junk ++ w.dir }).exit = (runMain env a w).exit := by
  induction junk with
  | nil => exact ⟨rfl, rfl⟩
  | cons j js ih =>
    have hd' : distinctNames (js ++ w.dir) := by
      unfold distinctNames at hd ⊢
      simp only [List.cons_append, List.map_cons, List.nodup_cons] at hd
      exact hd.2
    obtain ⟨i1, i2⟩ := ih hd' (fun x hx => hj x (List.mem_cons_of_mem _ hx))
    have key := command_junk_noninterference env a { w with dir := j :: js ++ w.dir } [] (js ++ w.dir) j rfl hd
      (hj j (List.mem_cons_self ..))
    simp only [List.nil_append] at key
    exact ⟨key.1.trans i1, key.2.1.trans i2⟩

/-! Non-vacuity: the empty file is junk for every decoder and every `Config`; `-p /pels -l` in `wDemo` with it and without it. -/
example (env : Env) (cfg : SelCfg) (n : Text) :
    junkForSummary env cfg { name := n, data := [] } ∧ junkForFull env cfg { name := n, data := [] } ∧
    junkForCount env cfg { name := n, data := [] } :=
  ⟨fun _ h => (nomatch h), fun _ h => (nomatch h), fun h => (nomatch h)⟩
example : (runMain envDemo { path := some (s "/pels"), list := true } wDemo).stdout =
    (runMain envDemo { path := some (s "/pels"), list := true } { wDemo with dir := [{ name := s "x_50000001", data := [1, 2, 3] }] }).stdout :=
  (command_junk_noninterference envDemo { path := some (s "/pels"), list := true } wDemo [] [{ name := s "x_50000001", data := [1, 2, 3] }]
    { name := s "junk", data := [] } rfl (by unfold distinctNames withJunk; decide) (fun _ h => (nomatch h))).1

-- with real PELs: `wPels` holds a two-byte file between two PELs; without it every mode prints the same and exits the same
example : (runMain envDemo { path := some (s "/pels"), all := true, every := true } wPels).stdout =
      (runMain envDemo { path := some (s "/pels"), all := true, every := true }
        { wPels with dir := [{ name := s "b_50000002", data := pelHiddenDemo }, { name := s "a_50000001", data := pelDemo }] }).stdout ∧
    (runMain envDemo { path := some (s "/pels"), all := true, every := true } wPels).diagnostics = 1 ∧
    (runMain envDemo { path := some (s "/pels"), count := true, every := true } wPels).stdout = s "{\n    \"Number of PELs found\": 2\n}\n" := by
  decide +kernel

end Pel.C09
