namespace Pel.C09
end Pel.C09
