import PelGen.GenDirModes
import PelProofs.TieDirModes
import PelProps.C08
/-
  Source tie for C08 (stream `dirmodes`, harness/trans_dirmodes.py → PelGen/GenDirModes.lean): `getFileList`, `printPELInHexFormat`,
  `extractAndSummarizePEL`, `listOption`, `extractAllPELsData` and `printPELCount` of peltool.py, regenerated from the source text as
  programs of the output monad `OutM` (PelModel/TransDirModes.lean: stdout text, number of diagnostics, exceptions caught per file,
  `sys.exit`), are the model's `getFileList`, `listMode`, `allMode` and `countMode` (PelModel/Cli.lean) for every environment,
  every `Config` and every directory.  The `Config` is the model's options plus the five id members (`DirCfg`); `DirCfg.opts` is the
  one conversion (the model's `lookup` = "some id member is a non-empty string", TieC07.considerPEL).

  The proofs RUN the generated program symbolically and compare each loop iteration with a hand-written semantic step
  (PelProofs/TieDirModes.lean), so they do not depend on the shape of the generated term.
-/
set_option linter.unusedSimpArgs false
set_option linter.unusedVariables false
namespace Pel.Tie
open Pel.TieDM

/-- `getFileList(path, extension, rev)` -/
theorem getFileList (g : Dir → Option Text → Bool → List FileEntry) (h : Gen.getFileList? = some g) : g = Pel.getFileList := by
  cases h; funext d ext rev
  rw [getFileList_extSel]
  simp only [OutM.value]
  outm_simp
  rw [forEach_fold (step := gflStep ext)]
  · simp only [gflStep_fold]
    simp
  · intro x st
    cases hx : ext with
    | none => simp [tv, gflStep, extSel]; outm_simp; rfl
    | some e =>
      cases e with
      | nil => simp [tv, gflStep, extSel]; outm_simp; rfl
      | cons a e => simp [tv, gflStep, extSel]; outm_simp; split <;> simp_all [loopView, eq_comm]

theorem listOption (g : Env → DirCfg → Dir → CliOut) (h : Gen.listOption? = some g) : g = fun env c d => listMode env c.opts d := by
  cases h; funext env c d
  simp only [OutM.run]
  outm_simp
  rw [forEach_fold (step := sumStep c.hex (rList env c.selCfg))]
  · rw [sumStep_fold, listMode_eq]
    obtain ⟨h1, h2, h3⟩ := list_conv env c.selCfg (Pel.getFileList d c.ext c.rev)
    cases hh : c.hex <;> simp [DirCfg.opts, hh, h1, h2, h3, summaryObj_eq]
  · intro x st
    unfold sumStep rList summaryOf pyParsePELSummary
    cases hps : parseSummary env c.selCfg x.data
    · have hf := parseSummary_facts hps
      cases hh : c.hex <;> dm_close
    all_goals (cases hh : c.hex <;> dm_close)

theorem extractAllPELsData (g : Env → DirCfg → Dir → CliOut) (h : Gen.extractAllPELsData? = some g) :
    g = fun env c d => allMode env c.opts d := by
  cases h; funext env c d
  simp only [OutM.run]
  cases hh : c.hex
  · simp only [hh, Bool.false_eq_true, ↓reduceIte]
    outm_simp
    rw [forEach_fold (step := allStep (rAll env c.selCfg))]
    · obtain ⟨h1, h2, h3⟩ := all_conv env c.selCfg (Pel.getFileList d c.ext c.rev)
      rw [allStep_fold, allMode_eq]
      simp only [DirCfg.opts, hh, h1, h3, ← framing_eq]
      dm_eval
      generalize (okList (fullOf env c.selCfg) (Pel.getFileList d c.ext c.rev)) = ok
      cases ok <;> simp [nl, sepDocs]
    · intro x st
      unfold allStep rAll fullOf pyParsePEL
      cases hp : parsePEL env c.selCfg x.data
      · rename_i eid j
        have hne := pp_dumps_ne_nil 34 j
        cases hl : st.loc <;> dm_close
      all_goals dm_close
  · simp only [hh, Bool.false_eq_true, ↓reduceIte]
    outm_simp
    rw [forEach_fold (step := hexStep (rAll env c.selCfg))]
    · obtain ⟨h1, h2, h3⟩ := all_conv env c.selCfg (Pel.getFileList d c.ext c.rev)
      rw [hexStep_fold, allMode_eq]
      simp [DirCfg.opts, hh, h2, h3]
    · intro x st
      unfold hexStep rAll fullOf pyParsePEL
      cases hp : parsePEL env c.selCfg x.data
      · rename_i eid j
        have hne := pp_dumps_ne_nil 34 j
        dm_close
      all_goals dm_close

theorem printPELCount (g : Env → DirCfg → Dir → CliOut) (h : Gen.printPELCount? = some g) :
    g = fun env c d => countMode env c.opts d := by
  cases h; funext env c d
  simp only [OutM.run]
  outm_simp
  rw [forEach_fold (step := countStep env c.selCfg)]
  · rw [countStep_fold]
    simp [countMode, DirCfg.opts, s, nl]
  · intro x st
    unfold countStep
    rw [countOne_eq]
    unfold countVia pyGeneratePH pyGenerateUH
    cases h1 : generatePHRd env x.data with
    | error e => dm_close
    | ok p1 =>
      obtain ⟨o1, b1⟩ := p1
      cases o1 with
      | none => dm_close
      | some ph =>
        cases h2 : generateUHRd env ph.creator b1 with
        | error e => dm_close
        | ok p2 =>
          obtain ⟨o2, b2⟩ := p2
          cases o2 with
          | none => dm_close
          | some uh => by_cases hc : considerPEL uh.severity uh.actionFlags c.selCfg = true <;> dm_close

/-- `printPELInHexFormat(data)`: begin marker, one line per dump line, end marker; never raises -/
theorem printPELInHexFormat (g : Bytes → OutM Unit (Ctl Unit)) (h : Gen.printPELInHexFormat? = some g) :
    ∀ data (st : PySt Unit), g data st = (.ok (.ret ()), hexOut data st) := by
  cases h; intro data st
  unfold hexOut
  dm_close

/-- `extractAndSummarizePEL(file, config)`: what the model's `summaryOf` says about the file decides what is returned, printed
    (with `-x` the dump is printed HERE and nothing is returned) and reported -/
theorem extractAndSummarizePEL (g : Env → DirCfg → FileEntry → OutM Unit (Ctl (Text × J))) (h : Gen.extractAndSummarizePEL? = some g) :
    ∀ env c f (st : PySt Unit), g env c f st =
      match summaryOf env c.selCfg f with
      | .some (sm, _, _) => if c.hex then (.ok (.ret ([], .str [])), hexOut f.data st) else (.ok (.ret (sm.eid, .obj sm.fields)), st)
      | .skip => (.ok (.ret ([], .str [])), st)
      | .diag => (.ok (.ret ([], .str [])), { st with errs := st.errs + 1 }) := by
  cases h; intro env c f st
  cases hh : c.hex <;>
  (unfold summaryOf pyParsePELSummary hexOut
   cases hps : parseSummary env c.selCfg f.data
   · have hf := parseSummary_facts hps
     dm_close
   all_goals dm_close)

/-! ### the ★ theorems of C08, read with the functions of the source text -/

/-- C08 `file_list` for the translated `getFileList` -/
theorem file_list (g : Dir → Option Text → Bool → List FileEntry) (h : Gen.getFileList? = some g)
    (o : CliOpts) (rev : Bool) (files : C08.AFiles) :
    g (C08.dirOf files) o.ext rev = C08.dirOf (C08.presented o rev files) := by
  rw [getFileList g h]; exact C08.file_list o rev files

/-- C08 ★`count_eq` for the translated `printPELCount` -/
theorem count_eq (g : Env → DirCfg → Dir → CliOut) (h : Gen.printPELCount? = some g)
    (env : Env) (c : DirCfg) (files : C08.AFiles) (hg : C08.GoodDir env files) :
    (g env c (C08.dirOf files)).stdout =
      s "{\n    \"Number of PELs found\": " ++ natDec (C08.selectedIn c.opts false files).length ++ s "\n}\n" := by
  rw [printPELCount g h]; exact C08.count_eq env c.opts files hg

/-- C08 ★`list_eq` for the translated `listOption` -/
theorem list_eq (g : Env → DirCfg → Dir → CliOut) (h : Gen.listOption? = some g)
    (env : Env) (c : DirCfg) (files : C08.AFiles) (hg : C08.GoodDir env files) (hnohex : c.hex = false) :
    (g env c (C08.dirOf files)).stdout =
      prettyPrint 29 (dumps (.obj ((C08.selectedIn c.opts c.rev files).map fun np =>
        (ox (fmtHex 2 np.2.ph.eid), J.obj (C08.specSummary env np.2))))) ++ nl := by
  rw [listOption g h]; exact C08.list_eq env c.opts files hg hnohex

/-- C08 ★`all_eq` for the translated `extractAllPELsData` -/
theorem all_eq (g : Env → DirCfg → Dir → CliOut) (h : Gen.extractAllPELsData? = some g)
    (env : Env) (c : DirCfg) (files : C08.AFiles) (hg : C08.GoodDir env files) (hnohex : c.hex = false) :
    (g env c (C08.dirOf files)).stdout =
      listFraming ((C08.selectedIn c.opts c.rev files).map fun np => prettyPrint 34 (dumps (C08.renderD env np.2))) := by
  rw [extractAllPELsData g h]; exact C08.all_eq env c.opts files hg hnohex

end Pel.Tie
