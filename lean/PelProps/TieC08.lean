import PelGen.GenDirModes
import PelProofs.TieDirModes
import PelProps.C08
/-
  Source tie for C08 (stream `dirmodes`, harness/trans_dirmodes.py → PelGen/GenDirModes.lean): `getFileList`, `printPELInHexFormat`,
  `extractAndSummarizePEL`, `listOption`, `extractAllPELsData` and `printPELCount` of peltool.py, regenerated from the source text as
  programs of the output monad `OutM` (PelModel/TransDirModes.lean: stdout text, number of diagnostics, exceptions caught per file,
  `sys.exit`), are the model's `getFileList`, `listMode`, `allMode` and `countMode` (PelModel/Cli.lean) for every environment,
  every `Config` and every directory.  The `Config` is the model's options plus the five id members (`DirCfg`); `DirCfg.opts` is the
  one conversion (the model's `lookup` = "some id member is a non-empty string", TieC07.considerPEL).

  The proofs RUN the generated program symbolically and compare each loop iteration with a hand-written semantic step
  (PelProofs/TieDirModes.lean), so they do not depend on the shape of the generated term.
-/
set_option linter.unusedSimpArgs false
set_option linter.unusedVariables false
namespace Pel.Tie
open Pel.TieDM

/-- `getFileList(path, extension, rev)` -/
theorem getFileList (g : Dir → Option Text → Bool → List FileEntry) (h : Gen.getFileList? = some g) : g = Pel.getFileList := by
  cases h
  all_goals (
    funext d ext rev
    rw [getFileList_extSel]
    simp only [OutM.value]
    outm_simp
    rw [forEach_fold (step := gflStep ext)]
    · simp only [gflStep_fold]
      simp
    · intro x st
      cases hx : ext with
      | none => simp [tv, gflStep, extSel]; outm_simp; rfl
      | some e =>
        cases e with
        | nil => simp [tv, gflStep, extSel]; outm_simp; rfl
        | cons a e => simp [tv, gflStep, extSel]; outm_simp; split <;> simp_all [loopView, eq_comm])

theorem listOption (g : Env → DirCfg → Dir → CliOut) (h : Gen.listOption? = some g) : g = fun env c d => listMode env c.opts d := by
  cases h
  all_goals (
    funext env c d
    simp only [OutM.run]
    outm_simp
    rw [forEach_fold (step := sumStep c.hex (rList env c.selCfg))]
    · rw [sumStep_fold, listMode_eq]
      obtain ⟨h1, h2, h3⟩ := list_conv env c.selCfg (Pel.getFileList d c.ext c.rev)
      cases hh : c.hex <;> simp [DirCfg.opts, hh, h1, h2, h3, summaryObj_eq]
    · intro x st
      unfold sumStep rList summaryOf pyParsePELSummary
      cases hps : parseSummary env c.selCfg x.data
      · have hf := parseSummary_facts hps
        cases hh : c.hex <;> dm_close
      all_goals (cases hh : c.hex <;> dm_close))

theorem extractAllPELsData (g : Env → DirCfg → Dir → CliOut) (h : Gen.extractAllPELsData? = some g) :
    g = fun env c d => allMode env c.opts d := by
  cases h
  all_goals (
    funext env c d
    simp only [OutM.run]
    cases hh : c.hex
    · simp only [hh, Bool.false_eq_true, ↓reduceIte]
      outm_simp
      rw [forEach_fold (step := allStep (rAll env c.selCfg))]
      · obtain ⟨h1, h2, h3⟩ := all_conv env c.selCfg (Pel.getFileList d c.ext c.rev)
        rw [allStep_fold, allMode_eq]
        simp only [DirCfg.opts, hh, h1, h3, ← framing_eq]
        dm_eval
        generalize (okList (fullOf env c.selCfg) (Pel.getFileList d c.ext c.rev)) = ok
        cases ok <;> simp [nl, sepDocs]
      · intro x st
        unfold allStep rAll fullOf pyParsePEL
        cases hp : parsePEL env c.selCfg x.data
        · rename_i eid j
          have hne := pp_dumps_ne_nil 34 j
          cases hl : st.loc <;> dm_close
        all_goals dm_close
    · simp only [hh, Bool.false_eq_true, ↓reduceIte]
      outm_simp
      rw [forEach_fold (step := hexStep (rAll env c.selCfg))]
      · obtain ⟨h1, h2, h3⟩ := all_conv env c.selCfg (Pel.getFileList d c.ext c.rev)
        rw [hexStep_fold, allMode_eq]
        simp [DirCfg.opts, hh, h2, h3]
      · intro x st
        unfold hexStep rAll fullOf pyParsePEL
        cases hp : parsePEL env c.selCfg x.data
        · rename_i eid j
          have hne := pp_dumps_ne_nil 34 j
          dm_close
        all_goals dm_close)

theorem printPELCount (g : Env → DirCfg → Dir → CliOut) (h : Gen.printPELCount? = some g) :
    g = fun env c d => countMode env c.opts d := by
  cases h
  all_goals (
    funext env c d
    simp only [OutM.run]
    outm_simp
    rw [forEach_fold (step := countStep env c.selCfg)]
    · rw [countStep_fold]
      simp [countMode, DirCfg.opts, s, nl]
    · intro x st
      unfold countStep
      rw [countOne_eq]
      unfold countVia pyGeneratePH pyGenerateUH
      cases h1 : generatePHRd env x.data with
      | error e => dm_close
      | ok p1 =>
        obtain ⟨o1, b1⟩ := p1
        cases o1 with
        | none => dm_close
        | some ph =>
          cases h2 : generateUHRd env ph.creator b1 with
          | error e => dm_close
          | ok p2 =>
            obtain ⟨o2, b2⟩ := p2
            cases o2 with
            | none => dm_close
            | some uh => by_cases hc : considerPEL uh.severity uh.actionFlags c.selCfg = true <;> dm_close)

/-- `printPELInHexFormat(data)`: begin marker, one line per dump line, end marker; never raises -/
theorem printPELInHexFormat (g : Bytes → OutM Unit (Ctl Unit)) (h : Gen.printPELInHexFormat? = some g) :
    ∀ data (st : PySt Unit), g data st = (.ok (.ret ()), hexOut data st) := by
  cases h
  all_goals (
    intro data st
    unfold hexOut
    dm_close)

/-- `extractAndSummarizePEL(file, config)`: what the model's `summaryOf` says about the file decides what is returned, printed
    (with `-x` the dump is printed HERE and nothing is returned) and reported -/
theorem extractAndSummarizePEL (g : Env → DirCfg → FileEntry → OutM Unit (Ctl (Text × J))) (h : Gen.extractAndSummarizePEL? = some g) :
    ∀ env c f (st : PySt Unit), g env c f st =
      match summaryOf env c.selCfg f with
      | .some (sm, _, _) => if c.hex then (.ok (.ret ([], .str [])), hexOut f.data st) else (.ok (.ret (sm.eid, .obj sm.fields)), st)
      | .skip => (.ok (.ret ([], .str [])), st)
      | .diag => (.ok (.ret ([], .str [])), { st with errs := st.errs + 1 }) := by
  cases h
  all_goals (
    intro env c f st
    cases hh : c.hex <;>
    (unfold summaryOf pyParsePELSummary hexOut
     cases hps : parseSummary env c.selCfg f.data
     · have hf := parseSummary_facts hps
       dm_close
     all_goals dm_close))

/-- `parsePELSummary(stream, config)` on a fresh stream over `b` hands back what the model's `parseSummary` says, and writes nothing -/
theorem parsePELSummary (g : Env → DirCfg → Bytes → PyRes (Text × J) × Text × Nat) (h : Gen.parsePELSummary? = some g) :
    ∀ env c b, NamesOk env.T → g env c b = (summaryResult (parseSummary env c.selCfg b), [], 0) := by
  cases h
  all_goals (
    intro env c b hn
    obtain ⟨n1, n2, n3⟩ := hn
    unfold parseSummary parseSummaryRd
    simp only [OutM.result, outm, pyGetItem_apply, pyStrIn_apply, generatePHRdJ, generateUHRdJ, rd_bind_apply, rd_pure_apply, rd_ite_app]
    cases h1 : parseHeader b with
    | error e => rfl
    | ok p1 =>
      obtain ⟨hd1, b1⟩ := p1
      by_cases hid1 : hd1.id ≠ sidPH
      · simp [hid1, summaryResult, outm, pyGetItem_apply, pyStrIn_apply]
      · simp only [hid1, if_false]
        have f2 := decodePH_facts env.T hd1 b1
        cases h2 : decodePH env.T hd1 b1 with
        | error e => rfl
        | ok p2 =>
          obtain ⟨⟨phJ, ph⟩, b2⟩ := p2
          rw [h2] at f2
          obtain ⟨lph, e_ph, k1, k2⟩ := f2
          simp only at e_ph
          subst e_ph
          simp only [outm, pyGetItem_apply, pyStrIn_apply, rd_bind_apply, rd_pure_apply, rd_ite_app]
          cases h3 : parseHeader b2 with
          | error e => rfl
          | ok p3 =>
            obtain ⟨hd2, b3⟩ := p3
            simp only []
            by_cases hid2 : hd2.id ≠ sidUH
            · simp [hid2, summaryResult, outm, pyGetItem_apply, pyStrIn_apply]
            · simp only [hid2, if_false]
              have f4 := decodeUH_facts env.T hd2 ph.creator b3
              cases h4 : decodeUH env.T hd2 ph.creator b3 with
              | error e => rfl
              | ok p4 =>
                obtain ⟨⟨uhJ, uh⟩, b4⟩ := p4
                rw [h4] at f4
                obtain ⟨luh, e_uh, k3, k4⟩ := f4
                simp only at e_uh
                subst e_uh
                simp only [outm, pyGetItem_apply, pyStrIn_apply]
                cases hsel : considerPEL uh.severity uh.actionFlags c.selCfg with
                | false => simp [summaryResult, outm, pyGetItem_apply, pyStrIn_apply]
                | true =>
                  simp only [Bool.not_true, Bool.false_eq_true, if_false, if_true, outm, pyGetItem_apply, pyStrIn_apply]
                  generalize hr : forEach (List.range' 2 (ph.sectionCount - 2)) _ _ = r
                  have hrel : StepRel r (psLoop env ph.creator (ph.sectionCount - 2) { loc := (b4, []), out := [], errs := 0 }) := by
                    rw [← hr]
                    apply sum_loop
                    clear hr
                    intro i st
                    unfold psStep
                    simp only [outm, pyGetItem_apply, pyStrIn_apply, namedBy_apply, rd_map_apply]
                    cases g1 : parseHeader st.loc.1 with
                    | error e => simp [StepRel]
                    | ok q1 =>
                      obtain ⟨hd, c1⟩ := q1
                      simp only [secHdr_eta]
                      cases g2 : decodeSection env ph.creator hd c1 with
                      | error e => simp [StepRel]
                      | ok q2 =>
                        obtain ⟨⟨j, rc⟩, c2⟩ := q2
                        simp only []
                        by_cases hid : hd.id = sidPS
                        · have hps := decodeSection_ps env ph.creator hd hid c1
                          rw [g2] at hps
                          obtain ⟨l, r', e1, e2, e3⟩ := hps
                          simp only at e1 e2
                          subst e1 e2
                          have hb : (hd.id == 20563) = true := by rw [hid]; rfl
                          have hps20 : sidPS = 20563 := rfl
                          simp only [pykeys] at n3 e3
                          simp only [hb, hid, if_true, n3, jItem, objGet?, e3, outm, pyGetItem_apply, pyStrIn_apply, summaryMessage, jIn, pykeys]
                          cases hED : objGet? l [69, 114, 114, 111, 114, 32, 68, 101, 116, 97, 105, 108, 115] with
                          | none => simp [StepRel, addSM, pykeys, jstr, outm, pyGetItem_apply, pyStrIn_apply, rd_pure_apply, hps20]
                          | some v =>
                            cases v with
                            | obj ed =>
                              cases hM : objGet? ed [77, 101, 115, 115, 97, 103, 101] <;>
                                simp [StepRel, addSM, pykeys, jstr, outm, pyGetItem_apply, pyStrIn_apply, jItem, hM, Rd.fail, rd_pure_apply, hps20]
                            | _ => simp [StepRel, addSM, pykeys, jstr, outm, pyGetItem_apply, pyStrIn_apply, jItem, Rd.fail, rd_pure_apply, hps20]
                        · have hb : (hd.id == 20563) = false := by
                            cases hq : hd.id == 20563 with
                            | false => rfl
                            | true => exact absurd (show hd.id = sidPS from (by simpa using hq : hd.id = 20563)) hid
                          simp [hb, hid, StepRel, outm, pyGetItem_apply, pyStrIn_apply]
                  clear hr
                  unfold psLoop at hrel
                  simp only at hrel
                  cases h5 : summarySections env ph.creator (ph.sectionCount - 2) b4 with
                  | error e =>
                    simp only [h5, StepRel] at hrel
                    obtain ⟨r1, r2⟩ := r
                    obtain ⟨e1, e2, e3⟩ := hrel
                    simp only at e1 e2 e3
                    subst e1
                    simp [summaryResult, e2, e3]
                  | ok p5 =>
                    obtain ⟨⟨rc, msg⟩, b5⟩ := p5
                    simp only [h5, StepRel] at hrel
                    subst hrel
                    obtain ⟨v1, hv1⟩ := Option.isSome_iff_exists.1 k1
                    obtain ⟨v2, hv2⟩ := Option.isSome_iff_exists.1 k2
                    obtain ⟨v3, hv3⟩ := Option.isSome_iff_exists.1 k3
                    obtain ⟨v4, hv4⟩ := Option.isSome_iff_exists.1 k4
                    simp only [pykeys] at n1 n2 hv1 hv2 hv3 hv4
                    cases rc <;> cases msg <;>
                      simp [n1, n2, objSet, jItem, objGet?, hv1, hv2, hv3, hv4, addSM, summaryResult, rd_pure_apply, kv, jstr, pykeys])

/-- the primitive `pyParsePELSummary` that the translated modes call (PelModel/TransDirModes.lean) IS the translated
    `parsePELSummary`, run on a fresh stream over the file's bytes: its value, or its exception -/
theorem parsePELSummary_is_primitive (g : Env → DirCfg → Bytes → PyRes (Text × J) × Text × Nat) (h : Gen.parsePELSummary? = some g)
    {σ : Type} (env : Env) (c : DirCfg) (b : Bytes) (hn : NamesOk env.T) (st : PySt σ) :
    (pyParsePELSummary env c b : OutM σ (Text × J)) st = ((g env c b).1, st) := by
  rw [parsePELSummary g h env c b hn]
  unfold pyParsePELSummary summaryResult
  cases parseSummary env c.selCfg b <;> rfl

/-! ### the ★ theorems of C08, read with the functions of the source text -/

/-- C08 `file_list` for the translated `getFileList` -/
theorem file_list (g : Dir → Option Text → Bool → List FileEntry) (h : Gen.getFileList? = some g)
    (o : CliOpts) (rev : Bool) (files : C08.AFiles) :
    g (C08.dirOf files) o.ext rev = C08.dirOf (C08.presented o rev files) := by
  rw [getFileList g h]; exact C08.file_list o rev files

/-- C08 ★`count_eq` for the translated `printPELCount` -/
theorem count_eq (g : Env → DirCfg → Dir → CliOut) (h : Gen.printPELCount? = some g)
    (env : Env) (c : DirCfg) (files : C08.AFiles) (hg : C08.GoodDir env files) :
    (g env c (C08.dirOf files)).stdout =
      s "{\n    \"Number of PELs found\": " ++ natDec (C08.selectedIn c.opts false files).length ++ s "\n}\n" := by
  rw [printPELCount g h]; exact C08.count_eq env c.opts files hg

/-- C08 ★`list_eq` for the translated `listOption` -/
theorem list_eq (g : Env → DirCfg → Dir → CliOut) (h : Gen.listOption? = some g)
    (env : Env) (c : DirCfg) (files : C08.AFiles) (hg : C08.GoodDir env files) (hnohex : c.hex = false) :
    (g env c (C08.dirOf files)).stdout =
      prettyPrint 29 (dumps (.obj ((C08.selectedIn c.opts c.rev files).map fun np =>
        (ox (fmtHex 2 np.2.ph.eid), J.obj (C08.specSummary env np.2))))) ++ nl := by
  rw [listOption g h]; exact C08.list_eq env c.opts files hg hnohex

/-- C08 ★`all_eq` for the translated `extractAllPELsData` -/
theorem all_eq (g : Env → DirCfg → Dir → CliOut) (h : Gen.extractAllPELsData? = some g)
    (env : Env) (c : DirCfg) (files : C08.AFiles) (hg : C08.GoodDir env files) (hnohex : c.hex = false) :
    (g env c (C08.dirOf files)).stdout =
      listFraming ((C08.selectedIn c.opts c.rev files).map fun np => prettyPrint 34 (dumps (C08.renderD env np.2))) := by
  rw [extractAllPELsData g h]; exact C08.all_eq env c.opts files hg hnohex

/-- C08 ★`summary_fields` for the translated `parsePELSummary`: on the encoding of a well-formed, displayable, selected PEL it
    returns the entry id and exactly the members `specSummary` lists (with `Message` when the registry supplies one) -/
theorem summary_fields (g : Env → DirCfg → Bytes → PyRes (Text × J) × Text × Nat) (h : Gen.parsePELSummary? = some g)
    (env : Env) (c : DirCfg) (hn : NamesOk env.T) (p : APel) (hp : p.WF) (hr : ∃ d, render env p = .ok d)
    (hsel : considerPEL p.uh.sev p.uh.af c.selCfg = true) :
    g env c p.enc = (.ok (ox (fmtHex 2 p.ph.eid), .obj (C08.specSummary env p)), [], 0) := by
  rw [parsePELSummary g h env c p.enc hn, C08.summary_fields env c.selCfg p hp hr hsel]
  rfl

end Pel.Tie
