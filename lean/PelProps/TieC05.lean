import PelGen.GenUserData
import PelProofs.TieUserData
import PelProps.C05
/-
  Source tie for C05 (the byte reader).  `PelGen/GenUserData.lean` is regenerated on every run by harness/trans_userdata.py from the
  CURRENT text of pel/datastream.py (`none` = the method left the translatable subset).

  The Python object keeps `data`, `size` and a cursor; the model's reader (PelModel/Reader.lean) keeps the bytes not consumed yet.
  So the tie is a refinement, stated with `DsM.abs` (a method seen as a reader over `DS.rest`) under the invariant `DS.Inv` that the
  generated `__init__` establishes: for EVERY Python integer `n` (negative byte counts included) and for BOTH interpreter modes
  (`opt = true`: `python -O`, `assert` statements do not exist), `get_mem(n)` / `get_int(n)` ARE `getMem n.toNat` / `getInt n.toNat`,
  error kinds included.  The explicit `raise AssertionError` checks are what makes this true for `opt = true`: written as `assert`
  statements they would be translated to `pyAssert opt …`, and the theorems below would be false for `opt = true`.
-/
namespace Pel.Tie

open Pel.TieAux in
/-- generated method = the hand-written object-level method: `rfl` on the unchanged tree; the fall-back compares the two as functions
    of the object after unfolding the monad (harmless rewrites: a comparison written the other way round, temporaries, …) -/
macro "ds_tie " f:ident : tactic => `(tactic| first
  | rfl
  | (funext opt n; unfold $f; rfl)
  | (funext opt n d; unfold $f
     simp only [DS.checkRange, DS.incIndex, DS.getMem, bind, StateT.bind, Except.bind, pure, StateT.pure, Except.pure, DsM.fld, DsM.upd, DsM.raise,
       ne_eq, ite_not, Classical.not_not, Int.not_lt, Int.not_le, gt_iff_lt, ge_iff_le, decide_eq_true_eq, Bool.not_eq_true, decide_eq_false_iff_not,
       Bool.if_true_right, Bool.if_false_right, Bool.if_true_left, Bool.if_false_left, Bool.decide_eq_true, Bool.and_true, Bool.or_false]
     <;> (repeat' split) <;> simp_all <;> omega))

theorem dsInit (g) (h : Pel.Gen.dsInit? = some g) : g = DS.init := by
  cases h <;> first | rfl | (funext a b c; simp [DS.init])
/-- every `DataStream(...)` of pel/peltool constructs the stream big-endian and unsigned -/
theorem dsCtorArgs (g) (h : Pel.Gen.dsCtorArgs? = some g) : g = (some (s "big"), some false) := by
  cases h <;> rfl
theorem dsCheckRange_obj (g) (h : Pel.Gen.dsCheckRange? = some g) : g = DS.checkRange := by
  cases h <;> ds_tie DS.checkRange
theorem dsIncIndex_obj (g) (h : Pel.Gen.dsIncIndex? = some g) : g = DS.incIndex := by
  cases h <;> ds_tie DS.incIndex
theorem dsGetMem_obj (g) (h : Pel.Gen.dsGetMem? = some g) : g = DS.getMem := by
  cases h <;> ds_tie DS.getMem
theorem dsGetInt_obj (g) (h : Pel.Gen.dsGetInt? = some g) : g = DS.getInt := by
  cases h <;> ds_tie DS.getInt

/-- the stream `__init__` builds satisfies the invariant and has consumed nothing -/
theorem dsInit_inv (g) (h : Pel.Gen.dsInit? = some g) (data : Bytes) (bo : Option Text) (sg : Option Bool) :
    (g data bo sg).Inv ∧ (g data bo sg).rest = data ∧ (g data bo sg).byteOrder = bo ∧ (g data bo sg).isSigned = sg := by
  rw [dsInit g h]; exact ⟨DS.init_inv data bo sg, DS.init_rest data bo sg, rfl, rfl⟩

/-- `check_range(n)` regenerated from datastream.py: AssertionError for every `n ≤ 0` in both interpreter modes, else whether `n`
    bytes remain; consumes nothing -/
theorem dsCheckRange (g) (h : Pel.Gen.dsCheckRange? = some g) (opt : Bool) (n : Int) (d : DS) (hd : d.Inv) :
    g opt n d = if n.toNat = 0 then .error .assert else .ok (decide (n.toNat ≤ d.rest.length), d) := by
  rw [dsCheckRange_obj g h]; exact DS.checkRange_abs opt n d hd

/-- `inc_index(n)` regenerated from datastream.py = skipping what `getMem` returns -/
theorem dsIncIndex (g) (h : Pel.Gen.dsIncIndex? = some g) (opt : Bool) (n : Int) (d : DS) (hd : d.Inv) :
    (g opt n).abs d = (Pel.getMem n.toNat >>= fun _ => pure ()) d.rest ∧ (g opt n).Frame d := by
  rw [dsIncIndex_obj g h]; exact ⟨DS.incIndex_abs opt n d hd, DS.incIndex_frame opt n d hd⟩

/-- ★ `get_mem(n)` regenerated from datastream.py IS the model's `getMem` (same bytes, same rest, same error kind), for every integer
    byte count and in both interpreter modes -/
theorem dsGetMem (g) (h : Pel.Gen.dsGetMem? = some g) (opt : Bool) (n : Int) (d : DS) (hd : d.Inv) :
    (g opt n).abs d = Pel.getMem n.toNat d.rest ∧ (g opt n).Frame d := by
  rw [dsGetMem_obj g h]; exact ⟨DS.getMem_abs opt n d hd, DS.getMem_frame opt n d hd⟩

/-- ★ `get_int(n)` regenerated from datastream.py, on a stream constructed the way the decoders construct it, IS the model's `getInt` -/
theorem dsGetInt (g) (h : Pel.Gen.dsGetInt? = some g) (opt : Bool) (n : Int) (d : DS) (hd : d.Inv)
    (hb : d.byteOrder = some (s "big")) (hs : d.isSigned = some false) :
    (g opt n).abs d = (Pel.getInt n.toNat >>= fun v => pure (v : Int)) d.rest ∧ (g opt n).Frame d := by
  rw [dsGetInt_obj g h]; exact ⟨DS.getInt_abs opt n d hd hb hs, DS.getInt_frame opt n d hd hb hs⟩

/-- the whole chain from the source text: a stream constructed over `data` as pel/peltool constructs it, then one `get_int(n)` -/
theorem ds_first_read (gi ga gn) (hi : Pel.Gen.dsInit? = some gi) (ha : Pel.Gen.dsCtorArgs? = some ga) (hn : Pel.Gen.dsGetInt? = some gn)
    (opt : Bool) (n : Int) (data : Bytes) :
    (gn opt n).abs (gi data ga.1 ga.2) = (Pel.getInt n.toNat >>= fun v => pure (v : Int)) data := by
  cases dsCtorArgs ga ha
  obtain ⟨h1, h2, h3, h4⟩ := dsInit_inv gi hi data (some (s "big")) (some false)
  have := (dsGetInt gn hn opt n _ h1 h3 h4).1
  rw [h2] at this
  exact this

/-- ★ `C05.reads_in_bounds` for the method regenerated from datastream.py: a successful `get_mem(n)` returns exactly the next `n`
    bytes of what was not consumed and leaves exactly the rest; `n` was positive.  Holds under `python -O` as well. -/
theorem reads_in_bounds_src (g) (h : Pel.Gen.dsGetMem? = some g) (opt : Bool) (n : Int) (d d' : DS) (m : Bytes) (hd : d.Inv)
    (hr : g opt n d = .ok (m, d')) : d.rest = m ++ d'.rest ∧ (m.length : Int) = n ∧ 0 < n ∧ d'.Inv := by
  obtain ⟨ha, hf⟩ := dsGetMem g h opt n d hd
  have hinv := (hf m d' hr).1
  unfold DsM.abs at ha
  rw [hr] at ha
  obtain ⟨h1, h2, h3⟩ := C05.reads_in_bounds n.toNat d.rest m d'.rest ha.symm
  exact ⟨h1, by omega, by omega, hinv⟩

/-- `C05.read_past_end_fails` for the regenerated method: more bytes than remain are never returned (no short slice) -/
theorem read_past_end_fails_src (g) (h : Pel.Gen.dsGetMem? = some g) (opt : Bool) (n : Int) (d : DS) (hd : d.Inv)
    (hn : (d.rest.length : Int) < n) : ∃ e, g opt n d = .error e := by
  obtain ⟨ha, _⟩ := dsGetMem g h opt n d hd
  obtain ⟨e, he⟩ := C05.read_past_end_fails n.toNat d.rest (by omega)
  unfold DsM.abs at ha
  rw [he] at ha
  cases hg : g opt n d with
  | error e' => exact ⟨e', rfl⟩
  | ok p => rw [hg] at ha; cases ha

end Pel.Tie
