namespace Pel.C06
end Pel.C06
