import PelProofs.JsonAlign
import PelProofs.JsonParse
/-
  C06 — The printed JSON parses back to exactly the decoded document.
  The tool prints `prettyPrint n (json.dumps(doc, indent=4))` (n = 34 for a PEL, 29 for a list/summary).
-/
namespace Pel.C06

/-- ★ The aligner changes the dumped text in exactly one way: extra spaces between the colon that follows a
    COMPLETE object key and the value (`aText` is `dumps` with `alignGap` after each member's colon).
    Holds for every document, whatever characters keys and strings contain. -/
theorem aligned_is_structural (n : Nat) (d : J) : prettyPrint n (dumps d) = aText n d 0 :=
  prettyPrint_dumps n d

/-- ★ The escape-aware key scan stops at the closing quote of the complete key: quotes, colons, braces and
    backslashes inside the key are skipped. -/
theorem key_scan_complete (k rest : Text) (i : Nat) :
    keyScan (k.flatMap escChar ++ 34 :: 58 :: rest) i = some (i + (k.flatMap escChar).length) :=
  keyScan_rendered k rest i

/-- ★ A string that is a list element (not followed by a colon) is never aligned, whatever it contains. -/
theorem string_item_untouched (t rest : Text) (i : Nat) (h : rest.head? ≠ some 58) :
    keyScan (t.flatMap escChar ++ 34 :: rest) i = none :=
  keyScan_item t rest i h

/-- ★ The printed text parses back to exactly the decoded document (for 34, 29 or any other column). -/
theorem printed_parses_back (n : Nat) (d : J) (h : d.wf = true) : loads (prettyPrint n (dumps d)) = .ok d := by
  rw [prettyPrint_dumps]; exact loads_aText n d h

/-- the un-aligned dump parses back as well -/
theorem loads_dumps (d : J) (h : d.wf = true) : loads (aText 0 d 0) = .ok d := loads_aText 0 d h

/-- ★ the `--all-pels` framing (`[`, documents separated by `,`, `]`) parses back to the list of the documents -/
theorem list_parses_back (n : Nat) (ds : List J) (h : ∀ d ∈ ds, d.wf = true) :
    loads (listFraming (ds.map (fun d => prettyPrint n (dumps d)))) = .ok (.arr ds) := by
  have : ds.map (fun d => prettyPrint n (dumps d)) = ds.map (fun d => aText n d 0) := by
    apply List.map_congr_left; intro d _; exact prettyPrint_dumps n d
  rw [this]; exact loads_listFraming n ds h

/-! Non-vacuity and the witnesses of the repaired defect: a list element `world "x": y` and a key `a":b`. -/
example : (J.obj [(s "A", .arr [.str (s "world \"x\": y")]), (s "a\":b", .num 1), (s "k\\", .num 2)]).wf = true := by decide
example : loads (prettyPrint 34 (dumps (J.obj [(s "A", .arr [.str (s "world \"x\": y")]), (s "a\":b", .num 1)]))) =
    .ok (J.obj [(s "A", .arr [.str (s "world \"x\": y")]), (s "a\":b", .num 1)]) :=
  printed_parses_back 34 _ (by decide)

end Pel.C06
