import PelGen.GenPeltool
import PelProofs.TiePeltool
import PelProps.C07
/-
  Source tie for C07 (stream `peltool`): what harness/trans_peltool.py regenerates from the text of user_header.py
  (`UserHeader.isHidden`, `isServiceable`), peltool.py (`considerPELIfSeverityMatches`, `considerPEL`, the `Config` block of
  `main`) and config.py (`Config.__init__`) equals the model of PelModel/Select.lean and PelModel/Main.lean that C07's
  theorems are about.  `self` / `uh` is the pair (severity byte, action-flag word); the `Config` is the model's `SelCfg`
  plus the five id members (`LookupIds`), whose disjunction is the model's `lookup`.
-/
set_option linter.unusedSimpArgs false
namespace Pel.Tie

/-- `UserHeader.isHidden` returns an int; every caller uses its truth value, which is the model's Bool -/
theorem isHidden (g : Nat → Nat → Nat) (h : Gen.isHidden? = some g) : (fun sev af => g sev af != 0) = fun _ af => Pel.isHidden af := by
  cases h <;> first
  | rfl
  | (funext sev af; simp [Pel.isHidden, Nat.and_comm]; done)

theorem isServiceable (g : Nat → Nat → Bool) (h : Gen.isServiceable? = some g) : g = Pel.isServiceable := by
  cases h <;> first
  | rfl
  | (funext sev af
     simp only [Pel.isServiceable]
     generalize (sev != infoSeverity) = b1
     generalize (af &&& reportFlag != 0) = b2
     generalize (af &&& serviceActionFlag != 0) = b3
     generalize Pel.isHidden af = b4
     cases b1 <;> cases b2 <;> cases b3 <;> cases b4 <;> simp)
  | (funext sev af; simp only [Pel.isServiceable]; grind)

/-- the loop with an early `return True` is the model's recursion over the chosen groups -/
theorem considerPELIfSeverityMatches (g : Nat → Nat → SelCfg → LookupIds → Bool) (h : Gen.considerPELIfSeverityMatches? = some g) :
    g = fun sev _ c _ => sevMatches sev c.severities := by
  cases h <;> funext sev af c ids <;> first
  | exact sevMatches_foldr sev c.severities
  | (simp only [foldr_early_true, sevMatches_any]
     first
     | rfl
     | (congr 1; funext x; first | exact BEq.comm | grind))

/-- ★ the early-return chain of `considerPEL` as the source has it is the model's, and the model's `lookup` member is exactly
    "one of `plid`, `src`, `srcExcludeFile`, `bmcID`, `pelID` is set to a non-empty string" -/
theorem considerPEL (g : Nat → Nat → SelCfg → LookupIds → Bool) (h : Gen.considerPEL? = some g) :
    g = fun sev af c ids => Pel.considerPEL sev af { c with lookup := ids.any } := by
  cases h <;> first
  | rfl
  | (funext sev af c ids
     obtain ⟨every, term, sv', ns, hid, only, sevs, lookup⟩ := c
     simp only [LookupIds.any]
     unfold Pel.considerPEL
     dsimp only
     simp only [← cond_eq_ite]
     generalize Pel.isServiceable sev af = sv
     generalize Pel.isHidden af = hd
     generalize sevMatches sev sevs = m
     generalize (sev == critSysTermSeverity) = t
     generalize sevs.isEmpty = e
     generalize truthy ids.plid = l1
     generalize truthy ids.src = l2
     generalize truthy ids.srcExcludeFile = l3
     generalize truthy ids.bmcID = l4
     generalize truthy ids.pelID = l5
     first
     | (cases l1 <;> cases l2 <;> cases l3 <;> cases l4 <;> cases l5 <;> rfl)
     | (cases every <;> cases term <;> cases sv' <;> cases ns <;> cases hid <;> cases only <;> cases sv <;> cases hd <;>
          cases m <;> cases t <;> cases e <;> simp <;> grind))

/-- `Config()` as `Config.__init__` sets it up is the model's default `MainCfg` with no id member set -/
theorem configInit (g : MainCfg × LookupIds) (h : Gen.configInit? = some g) : g = (({} : MainCfg), ({} : LookupIds)) := by
  cases h <;> first
  | rfl
  | decide

/-- the block `config = Config(); if args.x: config.y = …` of `main()` is `mkConfig`, for every severity table -/
theorem mkConfig (g : List (Text × Nat) → Args → MainCfg) (h : Gen.mkConfig? = some g) : g = Pel.mkConfig := by
  cases h <;> first
  | rfl
  | (funext t a; tie_config_block)

/-! ### the ★ theorems of C07, read with the functions of the source text -/

/-- C07 ★`considerPEL_eq_spec` for the translated `considerPEL`: with no id member set it is the documented rule -/
theorem considerPEL_eq_spec (g : Nat → Nat → SelCfg → LookupIds → Bool) (h : Gen.considerPEL? = some g)
    (sev af : Nat) (c : SelCfg) : g sev af c {} = selected sev af c := by
  rw [considerPEL g h]
  exact C07.considerPEL_eq_spec sev af _ rfl

/-- C07 ★`lookup_considers_all` for the translated `considerPEL`: any one id member set to a non-empty string, no switch -/
theorem lookup_considers_all (g : Nat → Nat → SelCfg → LookupIds → Bool) (h : Gen.considerPEL? = some g)
    (sev af : Nat) (ids : LookupIds) (hl : ids.any = true) : g sev af {} ids = true := by
  rw [considerPEL g h]
  simp only [hl]
  exact C07.lookup_considers_all sev af

/-- C07 ★`main_config_switches` for the translated block -/
theorem main_config_switches (g : List (Text × Nat) → Args → MainCfg) (h : Gen.mkConfig? = some g) (t : List (Text × Nat)) (a : Args) :
    (g t a).sel.every = a.every ∧ (g t a).sel.term = a.term ∧ (g t a).sel.serviceable = a.serviceable ∧
    (g t a).sel.nonServiceable = a.nonServiceable ∧ (g t a).sel.hidden = a.hidden ∧ (g t a).sel.only = a.only ∧
    (g t a).sel.severities = a.severities.filterMap (sevLookup t) ∧ (g t a).sel.lookup = false ∧
    (g t a).allowPlugins = (!a.skipPlugins) ∧ (g t a).hex = a.hex ∧ (g t a).rev = a.reverse ∧ (g t a).ext = tv a.extension := by
  rw [mkConfig g h]
  exact C07.main_config_switches t a

end Pel.Tie
