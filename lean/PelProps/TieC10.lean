import PelGen.GenPeltool
import PelProofs.TiePeltool
import PelProps.C10
import PelGen.GenDirModes
import PelProofs.TieDirModes
/-
  Source tie for C10 (stream `peltool`): `processId` of peltool.py as regenerated from the source text is the model's
  `processId` (PelModel/Cli.lean): `none` = the function leaves through `sys.exit(<message>)`.
-/
set_option linter.unusedSimpArgs false
namespace Pel.Tie

theorem processId (g : Text → Option Text) (h : Gen.processId? = some g) : g = Pel.processId := by
  cases h <;> funext t <;> first
  | rfl
  | (simp only [Pel.processId, s_lit_0X]
     split <;> simp_all <;> done)
  | (simp only [Pel.processId, s_lit_0X]
     repeat' split
     all_goals simp_all)

/-- C10 ★`processId_spellings` for the translated function -/
theorem processId_spellings (g : Text → Option Text) (h : Gen.processId? = some g) (v : Nat) (hv : v < 2 ^ 32) :
    g (hexFix 8 v) = some (hexFix 8 v) ∧ g (hexFixL 8 v) = some (hexFix 8 v) ∧
    g (s "0x" ++ hexFix 8 v) = some (hexFix 8 v) ∧ g (s "0x" ++ hexFixL 8 v) = some (hexFix 8 v) ∧
    g (s "0X" ++ hexFix 8 v) = some (hexFix 8 v) ∧ g (s "0X" ++ hexFixL 8 v) = some (hexFix 8 v) := by
  rw [processId g h]
  exact C10.processId_spellings v hv

/-! ### stream `dirmodes` (harness/trans_dirmodes.py, PelGen/GenDirModes.lean): the look-up modes -/
section dirmodes
open Pel.TieDM
set_option linter.unusedVariables false

/-- `parsePelFromPLID(path, config)` with `config.plid = x` is the model's `plidMode … x` -/
theorem parsePelFromPLID (g : Env → DirCfg → Dir → CliOut) (h : Gen.parsePelFromPLID? = some g) :
    ∀ env c d x, c.ids.plid = some x → g env c d = plidMode env c.opts x d := by
  cases h
  all_goals (
    intro env c d x hx
    simp only [OutM.run, hx]
    outm_simp
    cases hp : Pel.processId x with
    | none => simp [plidMode, hp]
    | some pid =>
      have hany := any_of_plid hx (processId_ne_nil hp)
      have hcfg := selCfg_lookup c hany
      try simp only []
      try outm_simp
      rw [forEach_fold (step := sumStep c.hex (rPlid env c.selCfg pid))]
      · obtain ⟨h1, h2, h3⟩ := plid_conv env c.selCfg pid (Pel.getFileList d c.ext c.rev)
        rw [sumStep_fold, plidMode_eq env c.opts x pid d hp]
        cases hh : c.hex <;> simp [DirCfg.opts, hh, h1, h2, h3, hcfg, summaryObj_eq]
      · intro f st
        unfold sumStep rPlid summaryOf pyParsePELSummary
        cases hps : parseSummary env c.selCfg f.data
        · have hf := parseSummary_facts hps
          rw [s_PLID] at hf
          rename_i sm plid src
          by_cases hq : pid = fmtHex 8 plid <;> cases hh : c.hex <;> dm_close
        all_goals (cases hh : c.hex <;> dm_close))

/-- `parseAndPrintPELFile(file, config, exit_on_error)`: what it prints and reports is the model's `printOne`, it returns whether a
    document was printed; with `exit_on_error` a wrong first / second section id ends the process with status 1 -/
theorem parseAndPrintPELFile (g : Env → DirCfg → FileEntry → Bool → OutM Unit (Ctl Bool)) (h : Gen.dirParseAndPrintPELFile? = some g) :
    ∀ env c f x (st : PySt Unit), g env c f x st =
      if (x && fullOfBad env c.selCfg f) = true then (.exit 1, st)
      else (.ok (.ret (match fullOf env c.selCfg f with | .some _ => true | _ => false)), printStep env c f st) := by
  cases h
  all_goals (
    intro env c f x st
    unfold printStep printOne fullOf fullOfBad pyParsePEL
    cases hp : parsePEL env c.selCfg f.data
    · rename_i eid j
      have hne := pp_dumps_ne_nil 34 j
      cases hh : c.hex <;> dm_close
    · dm_close
    · cases x <;> dm_close
    · dm_close)

/-- `parsePelFromID(path, config)` with `config.pelID = e` is the model's `idMode … e` -/
theorem parsePelFromID (g : Env → DirCfg → Dir → CliOut) (h : Gen.parsePelFromID? = some g) :
    ∀ env c d e, c.ids.pelID = some e → g env c d = idMode env c.opts e d := by
  cases h
  all_goals (
    intro env c d e he
    simp only [OutM.run, he]
    outm_simp
    cases hp : Pel.processId e with
    | none => simp [idMode, hp]
    | some pid =>
      have hany := any_of_pelID he (processId_ne_nil hp)
      have hcfg := selCfg_lookup c hany
      try simp only []
      try outm_simp
      rw [forEach_find (p := fun f => isInfix pid f.name) (hit := fun f st => { printStep env c f st with loc := true })]
      · unfold idMode
        simp only [hp]
        cases hf : d.find? (fun f => isInfix pid f.name) with
        | none => simp [s, nl]
        | some f => simp [printStep, DirCfg.opts, hcfg]
      · intro f st
        by_cases hq : isInfix pid f.name = true
        · simp only [hq, if_true]
          unfold printStep printOne fullOf pyParsePEL
          cases hpp : parsePEL env c.selCfg f.data
          · rename_i eid j
            have hne := pp_dumps_ne_nil 34 j
            cases hh : c.hex <;> dm_close
          all_goals dm_close
        · simp only [hq]
          dm_close)

/-- `parsePelFromBmcID(path, config)` with `config.bmcID = n` is the model's `bmcIdMode … n` -/
theorem parsePelFromBmcID (g : Env → DirCfg → Dir → CliOut) (h : Gen.parsePelFromBmcID? = some g) :
    ∀ env c d n, c.ids.bmcID = some n → g env c d = bmcIdMode env c.opts n d := by
  cases h
  all_goals (
    intro env c d n hn
    simp only [OutM.run, hn, bmcIdMode]
    outm_simp
    rw [bmc_loop env c.opts n, ← bmcEnd_go]
    · generalize bmcEnd env c.opts n d { loc := false, out := [], errs := 0 } = st
      cases hl : st.loc <;> simp [hl, s, nl, bmcOut]
    · intro f st
      cases hh : c.hex <;>
      (unfold bmcClass pyGeneratePH
       cases h1 : generatePHRd env f.data with
       | error e => dm_close
       | ok p1 =>
         obtain ⟨o1, b1⟩ := p1
         cases o1 with
         | none => dm_close
         | some ph =>
           by_cases hq : natDec ph.obmcLogID = n
           · have hany := any_of_bmcID hn (by rw [← hq]; exact natDec_ne_nil _)
             subst hq
             have hcfg := selCfg_lookup c hany
             unfold fullOf pyParsePEL
             simp only [DirCfg.opts, hcfg]
             cases hpp : parsePEL env c.selCfg f.data
             · rename_i eid j
               have hne := pp_dumps_ne_nil 34 j
               dm_close
             all_goals dm_close
           · have hq' : ¬ n = natDec ph.obmcLogID := fun h => hq h.symm
             dm_close))

/-- `parsePelFromSRCID(path, config)` is the model's `srcMode` with `config.src` as the needle and the text of the file
    `config.srcExcludeFile` (when that member is set) as the exclude list — provided one of the two is set (which is when `main`
    calls it).  Without that hypothesis the two differ: the model decodes with the look-up exemption and reports a selected PEL
    without primary SRC, the source does neither when both members are empty. -/
theorem parsePelFromSRCID (g : Env → DirCfg → Text → Dir → CliOut) (h : Gen.parsePelFromSRCID? = some g) :
    ∀ env c excl d, (truthy c.ids.src = true ∨ truthy c.ids.srcExcludeFile = true) →
      g env c excl d = srcMode env c.opts c.ids.src (if truthy c.ids.srcExcludeFile then some excl else none) d := by
  cases h
  all_goals (
    intro env c excl d hr
    have hany : c.ids.any = true := by
      simp only [LookupIds.any]
      rcases hr with hr | hr <;> simp [hr]
    have hcfg := selCfg_lookup c hany
    simp only [OutM.run]
    cases hs : tv c.ids.src with
    | some v1 =>
      obtain ⟨hs1, hs2⟩ := (tv_some_iff _ _).1 hs
      simp only []
      by_cases hlen : v1.length > 32
      · simp only [hlen, decide_true, if_true]
        outm_simp
        rw [hs1, srcMode_long _ _ _ _ _ hlen]
      · simp only [hlen, decide_false, Bool.false_eq_true, if_false]
        cases he : tv c.ids.srcExcludeFile with
        | some v2 =>
          obtain ⟨he1, he2⟩ := (tv_some_iff _ _).1 he
          try simp only []
          try outm_simp
          rw [forEach_fold (step := sumStep c.hex (rSrc env c.selCfg c.ids.src (some excl)))]
          · rw [sumStep_fold, srcMode_eq env c.opts c.ids.src _ d (by intro n hn; simp_all)]
            simp only [DirCfg.opts, hcfg]
            cases hh : c.hex <;> simp [hh, truthy, hs, he, summaryObj_eq]
          · intro f st
            cases hh : c.hex <;>
            (unfold sumStep rSrc summaryOf pyParsePELSummary
             cases hps : parseSummary env c.selCfg f.data
             · have hf := parseSummary_facts hps
               rw [s_SRC] at hf
               rename_i sm plid src
               cases src with
               | none => simp_all [outm, loopView, truthy, tv]
               | some rc =>
                 by_cases hi1 : isInfix v1 rc = true <;> by_cases hi2 : isInfix rc excl = true <;>
                   simp_all [outm, loopView, truthy, tv, addSums, nl, pelHexDisplay, hexdump16, linesOut_cons, linesOut_nil, linesOut_append,
                     s_begin, s_end, List.append_assoc, forEach_print]
             all_goals dm_close)
        | none =>
          try simp only []
          try outm_simp
          rw [forEach_fold (step := sumStep c.hex (rSrc env c.selCfg c.ids.src none))]
          · rw [sumStep_fold, srcMode_eq env c.opts c.ids.src _ d (by intro n hn; simp_all)]
            simp only [DirCfg.opts, hcfg]
            cases hh : c.hex <;> simp [hh, truthy, hs, he, summaryObj_eq]
          · intro f st
            cases hh : c.hex <;>
            (unfold sumStep rSrc summaryOf pyParsePELSummary
             cases hps : parseSummary env c.selCfg f.data
             · have hf := parseSummary_facts hps
               rw [s_SRC] at hf
               rename_i sm plid src
               cases src with
               | none => simp_all [outm, loopView, truthy, tv]
               | some rc =>
                 by_cases hi1 : isInfix v1 rc = true <;>
                   simp_all [outm, loopView, truthy, tv, addSums, nl, pelHexDisplay, hexdump16, linesOut_cons, linesOut_nil, linesOut_append,
                     s_begin, s_end, List.append_assoc, forEach_print]
             all_goals dm_close)
    | none =>
      simp only []
      cases he : tv c.ids.srcExcludeFile with
      | some v2 =>
        obtain ⟨he1, he2⟩ := (tv_some_iff _ _).1 he
        try simp only []
        try outm_simp
        rw [forEach_fold (step := sumStep c.hex (rSrc env c.selCfg c.ids.src (some excl)))]
        · rw [sumStep_fold, srcMode_eq env c.opts c.ids.src _ d (by intro n hn; rcases (tv_none_iff _).1 hs with h1 | h1 <;> simp_all)]
          simp only [DirCfg.opts, hcfg]
          cases hh : c.hex <;> simp [hh, truthy, hs, he, summaryObj_eq]
        · intro f st
          cases hh : c.hex <;>
          (unfold sumStep rSrc summaryOf pyParsePELSummary
           cases hps : parseSummary env c.selCfg f.data
           · have hf := parseSummary_facts hps
             rw [s_SRC] at hf
             rename_i sm plid src
             cases src with
             | none => simp_all [outm, loopView, truthy, tv]
             | some rc =>
               rcases (tv_none_iff _).1 hs with hs1 | hs1 <;> by_cases hi2 : isInfix rc excl = true <;>
                 simp_all [outm, loopView, truthy, tv, addSums, nl, pelHexDisplay, hexdump16, linesOut_cons, linesOut_nil, linesOut_append,
                   s_begin, s_end, List.append_assoc, forEach_print]
           all_goals dm_close)
      | none =>
        exfalso
        simp [truthy, hs, he] at hr)

/-! #### the ★ theorems of C10, read with the functions of the source text -/

/-- C10 ★`plid_exact` for the translated `parsePelFromPLID` -/
theorem plid_exact (g : Env → DirCfg → Dir → CliOut) (h : Gen.parsePelFromPLID? = some g)
    (env : Env) (c : DirCfg) (v : Nat) (hv : v < 2 ^ 32) (d : Dir) (x : Text) (hc : c.ids.plid = some x)
    (hx : Pel.processId x = some (hexFix 8 v)) (hnohex : c.hex = false)
    (hplids : ∀ f ∈ d, ∀ sm plid src, parseSummary env { c.opts.cfg with lookup := true } f.data = .summary sm plid src → plid < 2 ^ 32) :
    (g env c d).stdout = prettyPrint 29 (dumps (summaryObj (C10.plidMatches env c.opts v d))) ++ nl ∧ (g env c d).exit = 0 := by
  rw [parsePelFromPLID g h env c d x hc]
  exact C10.plid_exact env c.opts v hv d x hx hnohex hplids

/-- C10 ★`id_lookup` for the translated `parsePelFromID` -/
theorem id_lookup (g : Env → DirCfg → Dir → CliOut) (h : Gen.parsePelFromID? = some g)
    (env : Env) (c : DirCfg) (e pid : Text) (d : Dir) (hc : c.ids.pelID = some e) (hp : Pel.processId e = some pid) :
    (∀ f ∈ d, isInfix pid f.name = false) → (g env c d).stdout = s "PEL not found\n" := by
  rw [parsePelFromID g h env c d e hc]
  exact C10.id_lookup env c.opts e pid d hp

/-- C10 `id_lookup_found` for the translated `parsePelFromID` -/
theorem id_lookup_found (g : Env → DirCfg → Dir → CliOut) (h : Gen.parsePelFromID? = some g)
    (env : Env) (c : DirCfg) (e pid : Text) (d : Dir) (hc : c.ids.pelID = some e) (hp : Pel.processId e = some pid) (f : FileEntry)
    (hf : d.find? (fun f => isInfix pid f.name) = some f) :
    (g env c d).stdout = (printOne env c.opts { c.opts.cfg with lookup := true } f).1 := by
  rw [parsePelFromID g h env c d e hc]
  exact C10.id_lookup_found env c.opts e pid d hp f hf

/-- C10 ★`bmcid_not_found` for the translated `parsePelFromBmcID` -/
theorem bmcid_not_found (g : Env → DirCfg → Dir → CliOut) (h : Gen.parsePelFromBmcID? = some g)
    (env : Env) (c : DirCfg) (n : Text) (d : Dir) (hc : c.ids.bmcID = some n)
    (hn : ∀ f ∈ d, ∀ j ph rest, (do let h1 ← parseHeader; decodePH env.T h1) f.data = .ok ((j, ph), rest) → natDec ph.obmcLogID ≠ n) :
    (g env c d).stdout = s "PEL not found\n" := by
  rw [parsePelFromBmcID g h env c d n hc]
  exact C10.bmcid_not_found env c.opts n d hn

/-- C10 ★`src_exact` for the translated `parsePelFromSRCID`: `--src S` alone lists exactly the PELs whose reference code contains S -/
theorem src_exact (g : Env → DirCfg → Text → Dir → CliOut) (h : Gen.parsePelFromSRCID? = some g)
    (env : Env) (c : DirCfg) (needle excl : Text) (d : Dir) (hc : c.ids.src = some needle) (he : truthy c.ids.srcExcludeFile = false)
    (hn : needle ≠ []) (hl : needle.length ≤ 32) (hnohex : c.hex = false) :
    (g env c excl d).stdout = prettyPrint 29 (dumps (summaryObj (C10.srcMatches env c.opts needle d))) ++ nl := by
  have ht : truthy c.ids.src = true := by
    cases needle with
    | nil => exact absurd rfl hn
    | cons a r => simp [truthy, tv, hc]
  rw [parsePelFromSRCID g h env c excl d (Or.inl ht), hc, he]
  exact C10.src_exact env c.opts needle d hn hl hnohex

end dirmodes

end Pel.Tie
