import PelGen.GenPeltool
import PelProofs.TiePeltool
import PelProps.C10
/-
  Source tie for C10 (stream `peltool`): `processId` of peltool.py as regenerated from the source text is the model's
  `processId` (PelModel/Cli.lean): `none` = the function leaves through `sys.exit(<message>)`.
-/
set_option linter.unusedSimpArgs false
namespace Pel.Tie

theorem processId (g : Text → Option Text) (h : Gen.processId? = some g) : g = Pel.processId := by
  cases h <;> funext t <;> first
  | rfl
  | (simp only [Pel.processId, s_lit_0X]
     split <;> simp_all <;> done)
  | (simp only [Pel.processId, s_lit_0X]
     repeat' split
     all_goals simp_all)

/-- C10 ★`processId_spellings` for the translated function -/
theorem processId_spellings (g : Text → Option Text) (h : Gen.processId? = some g) (v : Nat) (hv : v < 2 ^ 32) :
    g (hexFix 8 v) = some (hexFix 8 v) ∧ g (hexFixL 8 v) = some (hexFix 8 v) ∧
    g (s "0x" ++ hexFix 8 v) = some (hexFix 8 v) ∧ g (s "0x" ++ hexFixL 8 v) = some (hexFix 8 v) ∧
    g (s "0X" ++ hexFix 8 v) = some (hexFix 8 v) ∧ g (s "0X" ++ hexFixL 8 v) = some (hexFix 8 v) := by
  rw [processId g h]
  exact C10.processId_spellings v hv

end Pel.Tie
