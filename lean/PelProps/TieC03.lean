import PelGen.GenSrc
import PelProofs.TieSrc
import PelProps.C03
/-
  Source tie for C03 (SRC section).  `PelGen/GenSrc.lean` is regenerated on every run by harness/trans_src.py from the CURRENT
  text of modules/pel/peltool/src.py (`none` = the function left the translatable subset).  Each theorem: whatever was generated
  IS the model function of PelModel/Src.lean that the C03 theorems are about (full extensional equality, for all inputs).
  Loops of the source are rendered with the combinators of PelModel/TransSrc.lean; PelProofs/TieSrc.lean relates them to the
  model's recursive functions.  Call sites of functions that are not translated (`getErrorDetails`, `parse`,
  `getProcedureDesc`) appear as `errDetailsCall` / `srcDetails` / `procDescCall` with the arguments the source passes.
-/
set_option linter.unusedSimpArgs false
namespace Pel.Tie
open Pel Pel.TieAux Pel.TieSrc

/-- `FRUIdentity.__init__` -/
theorem readFru (g) (h : Pel.Gen.readFru? = some g) : g = Pel.readFru := by
  cases h <;> tie_src Pel.readFru
/-- `PCEIdentity.__init__` -/
theorem readPce (g) (h : Pel.Gen.readPce? = some g) : g = Pel.readPce := by
  cases h <;> tie_src Pel.readPce
/-- `MRU.__init__` (+ `MRUCallout.__init__`) -/
theorem readMru (g) (h : Pel.Gen.readMru? = some g) : g = Pel.readMru := by
  cases h <;> tie_src Pel.readMru
/-- `Callout.__init__` -/
theorem readCallout (g) (h : Pel.Gen.readCallout? = some g) : g = Pel.readCallout := by
  cases h <;> tie_src Pel.readCallout
/-- `Callout.flattenedSize` -/
theorem calloutFlattenedSize (g) (h : Pel.Gen.calloutFlattenedSize? = some g) : g = Pel.Callout.flattenedSize := by
  cases h <;>
  (funext c
   unfold Pel.Callout.flattenedSize
   first
     | rfl
     | (obtain ⟨size, flags, prio, locSize, loc, fru, pce, mru⟩ := c
        cases fru <;> cases pce <;> cases mru <;> first | rfl | (simp only [Option.map, Option.getD]; omega)))
/-- the body of the loop `for callout in callouts` of `SRC.getCallouts` -/
theorem calloutJson (g) (h : Pel.Gen.calloutJson? = some g) : g = Pel.calloutJson := by
  cases h <;>
  (funext T env creator allow c
   obtain ⟨size, flags, prio, locSize, loc, fru, pce, mru⟩ := c
   unfold Pel.calloutJson Pel.calloutJson.objFromList dictOf
   simp only [foldl_join _ (s ",") 44 (by decide), procDesc_if, ne_eq, gt_zero_iff, ne_zero_iff_pos, one_le_iff, ge_one_iff, zero_eq_iff, List.length_eq_zero_iff]
   cases fru <;> cases mru <;> rcases pce with _ | ⟨ds, mtm, sn, _ | nm⟩ <;> rfl)
/-- `SRC.getCallouts` (what it stores in the dictionary it is given) -/
theorem decodeCallouts (g) (h : Pel.Gen.decodeCallouts? = some g) : g = Pel.decodeCallouts := by
  cases h <;> (funext T env creator allow; tie_src Pel.decodeCallouts)
/-- `SRC.__init__` + `SRC.toJSON` -/
theorem decodeSRC (g) (h : Pel.Gen.decodeSRC? = some g) : g = Pel.decodeSRC := by
  cases h <;>
  (funext T env hd creator allow
   rw [decodeSRC_eq]
   refine bind_congr fun v1 => bind_congr fun v2 => bind_congr fun _ => bind_congr fun v4 => bind_congr fun _ => bind_congr fun _ => ?_
   refine getInts_bind_congr 4 8 _ _ fun v7 hw => ?_
   refine bind_congr fun v9 => ?_
   first
     | exact srcTail_shape T env hd creator allow v1 v2 v4 v7 v9 hw
     | (refine Eq.trans ?_ (srcTail_shape T env hd creator allow v1 v2 v4 v7 v9 hw)
        simp only [ne_eq, gt_zero_iff, ne_zero_iff_pos, one_le_iff, ge_one_iff, zero_eq_iff, Nat.and_comm, or_comm, bind_assoc, pure_bind]
        done))

/-! The ★ theorems of `PelProps/C03.lean`, transported to whatever the translator produced from the current source text -/

/-- ★ `C03.src_roundtrip` for the function regenerated from src.py -/
theorem src_roundtrip_src (g) (hg : Pel.Gen.decodeSRC? = some g) (T : Tables) (env : SrcEnv) (h : AHdr) (creator : Text) (allow : Bool)
    (x : ASrc) (hx : x.WF) (id len : Nat) (hd : srcDisplayable env creator allow x = true) (rest : Bytes) :
    g T env (mkSecHdr id len h) creator allow (x.encBody ++ rest) =
      .ok ((renderSrc T env h creator allow x, stripSp x.ascii), rest) := by
  rw [decodeSRC g hg]; exact C03.src_roundtrip T env h creator allow x hx id len hd rest

end Pel.Tie
