import PelModel.Cli
import PelModel.Main
import PelProofs.Cli
import PelProofs.Main
/-
  C11 — Only delete options remove files, and only the files they name.
  In the model a directory is the list of its top-level regular files; the read-only modes (`listMode`, `allMode`,
  `countMode`, `plidMode`, `srcMode`, `idMode`, `bmcIdMode`) are functions `Dir → CliOut` that return no directory at
  all, and subdirectories are not even part of what `deleteMode` / `deleteAllMode` / `jsonMode` receive.  The frame
  conditions that remain to be proved are those of the three modes that do change the directory.
-/
namespace Pel.C11

/-- ★ `--delete E` removes at most one file, and only a top-level file whose name contains the processed id -/
theorem delete_at_most_one (e : Text) (d : Dir) :
    (deleteMode e d).2 = d ∨
    ∃ pid f, processId e = some pid ∧ f ∈ d ∧ isInfix pid f.name = true ∧ (deleteMode e d).2 = d.erase f := by
  cases hp : processId e with
  | none => rw [deleteMode_bad d hp]; exact Or.inl rfl
  | some pid =>
    cases hf : d.find? (fun f => isInfix pid f.name) with
    | none => rw [deleteMode_notfound hp hf]; exact Or.inl rfl
    | some f =>
      rw [deleteMode_found hp hf]
      have hi : isInfix pid f.name = true := List.find?_some (p := fun (f : FileEntry) => isInfix pid f.name) hf
      exact Or.inr ⟨pid, f, rfl, List.mem_of_find?_eq_some hf, hi, rfl⟩

/-- everything else is untouched: every file other than the removed one is still there, unchanged -/
theorem delete_keeps_others (e : Text) (d : Dir) (g : FileEntry) (hg : g ∈ (deleteMode e d).2) : g ∈ d := by
  cases hp : processId e with
  | none => rw [deleteMode_bad d hp] at hg; exact hg
  | some pid =>
    cases hf : d.find? (fun f => isInfix pid f.name) with
    | none => rw [deleteMode_notfound hp hf] at hg; exact hg
    | some f =>
      rw [deleteMode_found hp hf] at hg
      exact List.mem_of_mem_erase hg

theorem delete_length (e : Text) (d : Dir) : d.length ≤ (deleteMode e d).2.length + 1 := by
  cases hp : processId e with
  | none => rw [deleteMode_bad d hp]; exact Nat.le_succ _
  | some pid =>
    cases hf : d.find? (fun f => isInfix pid f.name) with
    | none => rw [deleteMode_notfound hp hf]; exact Nat.le_succ _
    | some f =>
      rw [deleteMode_found hp hf]
      simp only
      rw [List.length_erase_of_mem (List.mem_of_find?_eq_some hf)]
      omega

/-- ★ if no top-level file name contains the id, nothing is removed and "PEL not found" is reported -/
theorem delete_not_found (e pid : Text) (d : Dir) (hp : processId e = some pid) (h : ∀ f ∈ d, isInfix pid f.name = false) :
    deleteMode e d = ({ stdout := s "PEL not found\n", stderrLines := 0, exit := 0 }, d) := by
  have hf : d.find? (fun f => isInfix pid f.name) = none := by
    rw [List.find?_eq_none]
    intro f hfd
    simp [h f hfd]
  exact deleteMode_notfound hp hf

/-- an id of the wrong length is rejected before anything is touched -/
theorem delete_bad_id (e : Text) (d : Dir) (hp : processId e = none) : (deleteMode e d).2 = d ∧ (deleteMode e d).1.exit = 1 := by
  rw [deleteMode_bad d hp]
  exact ⟨rfl, rfl⟩

/-- ★ `--delete-all` removes all the top-level regular files (and nothing else exists in its argument) -/
theorem delete_all (d : Dir) : (deleteAllMode d).2 = [] := by
  rfl

/-- ★ `--json` creates only files named `<pel file>.<entry id>.json`, one per decodable selected input -/
theorem json_creates_only (env : Env) (o : CliOpts) (clean : Bool) (d : Dir) :
    ∀ c ∈ (jsonMode env o clean d).created, ∃ f ∈ d, ∃ eid j, parsePEL env o.cfg f.data = .doc eid j ∧
      c = (f.name ++ [46] ++ eid ++ s ".json", prettyPrint 34 (dumps j)) := by
  intro c hc
  simp only [jsonMode, List.mem_filterMap, List.mem_map, List.mem_filter] at hc
  obtain ⟨p, ⟨f, ⟨hfd, _⟩, hpf⟩, hc⟩ := hc
  subst hpf
  simp only at hc
  cases hfo : fullOf env o.cfg f with
  | some x =>
    obtain ⟨eid, j⟩ := x
    simp only [hfo, Option.some.injEq] at hc
    exact ⟨f, hfd, eid, j, fullOf_some hfo, hc.symm⟩
  | skip => simp [hfo] at hc
  | diag => simp [hfo] at hc

/-- ★ `--json` removes inputs only with `--clean`, and then only inputs whose document was produced -/
theorem json_removes_only (env : Env) (o : CliOpts) (clean : Bool) (d : Dir) :
    (clean = false → (jsonMode env o clean d).removed = []) ∧
    ∀ n ∈ (jsonMode env o clean d).removed, ∃ f ∈ d, f.name = n ∧ ∃ eid j, parsePEL env o.cfg f.data = .doc eid j := by
  refine ⟨fun h => by simp [jsonMode, h], ?_⟩
  intro n hn
  cases clean with
  | false => simp [jsonMode] at hn
  | true =>
    simp only [jsonMode, if_true, List.mem_filterMap, List.mem_map, List.mem_filter] at hn
    obtain ⟨p, ⟨f, ⟨hfd, _⟩, hpf⟩, hc⟩ := hn
    subst hpf
    simp only at hc
    cases hfo : fullOf env o.cfg f with
    | some x =>
      obtain ⟨eid, j⟩ := x
      simp only [hfo, Option.some.injEq] at hc
      exact ⟨f, hfd, hc, eid, j, fullOf_some hfo⟩
    | skip => simp [hfo] at hc
    | diag => simp [hfo] at hc

/-! ### `main()`: which options can make it reach a removing function (model: PelModel/Main.lean) -/

/-- ★ the executable priority chain `dispatch` (the `if` cascade of `main()`, in source order) is exactly the declarative chain `Chain`
    ("the first truthy mode option wins; every earlier one was falsy"), and `Chain` admits no other result -/
theorem main_dispatch_is_chain (fs : FsView) (a : Args) :
    Chain fs a (dispatch fs a).1 (dispatch fs a).2.sel.lookup ∧
    ∀ act lk, Chain fs a act lk → act = (dispatch fs a).1 ∧ lk = (dispatch fs a).2.sel.lookup :=
  ⟨dispatch_chain fs a, fun _ _ h => ⟨(chain_unique h).1.symm, (chain_unique h).2.symm⟩⟩

/-- ★ `main` reaches `deletePELFromPELId(dir, e)` only when `-d e` was given with a non-empty `e`, `deleteAllPELs` only when `-D` was
    given, and passes `delete_after_parsing = True` / calls its own `os.remove` (the `-f` branch) only when `--clean` was given —
    for every file-system answer and every parsed argument vector -/
theorem main_removes_only_on_request (fs : FsView) (a : Args) :
    (∀ d e, (dispatch fs a).1 = .deleteMode d e → a.delete = some e ∧ e ≠ []) ∧
    (∀ d, (dispatch fs a).1 = .deleteAllMode d → a.deleteAll = true) ∧
    (∀ p, (dispatch fs a).1 = .fileMode p true → a.clean = true) ∧
    (∀ d o, (dispatch fs a).1 = .jsonMode d o true → a.clean = true) := by
  have h := dispatch_chain fs a
  generalize (dispatch fs a).1 = act at h
  generalize (dispatch fs a).2.sel.lookup = lk at h
  refine ⟨?_, ?_, ?_, ?_⟩
  · intro d e he; subst he; cases h; rename_i hde; exact tv_some hde
  · intro d he; subst he; cases h; assumption
  · intro p he; cases h <;> simp_all
  · intro d o he; cases h <;> simp_all

/-- every other invocation is read-only at the level of `main`: without (truthy) `-d`, without `-D` and without `--clean`, no removing
    function is reached and no callee is told to delete -/
theorem main_readonly_without_delete_clean (fs : FsView) (a : Args)
    (hd : truthy a.delete = false) (hD : a.deleteAll = false) (hc : a.clean = false) :
    (∀ d e, (dispatch fs a).1 ≠ .deleteMode d e) ∧ (∀ d, (dispatch fs a).1 ≠ .deleteAllMode d) ∧
    (∀ p, (dispatch fs a).1 ≠ .fileMode p true) ∧ (∀ d o, (dispatch fs a).1 ≠ .jsonMode d o true) ∧
    (dispatch fs a).1.mayRemove = false := by
  rw [truthy_eq_false] at hd
  have h := dispatch_chain fs a
  generalize (dispatch fs a).1 = act at h
  generalize (dispatch fs a).2.sel.lookup = lk at h
  cases h <;> simp_all [Action.mayRemove]

/-- ★ the directory: `deletePELFromPELId` / `deleteAllPELs` — and every other directory mode — are called with exactly the `-p` value, and
    only after `os.path.isdir` said it is a directory -/
theorem main_delete_directory (fs : FsView) (a : Args) :
    (∀ d e, (dispatch fs a).1 = .deleteMode d e → a.path = some d ∧ fs.isDir d = true) ∧
    (∀ d, (dispatch fs a).1 = .deleteAllMode d → a.path = some d ∧ fs.isDir d = true) ∧
    (∀ d, (dispatch fs a).1.dir? = some d → a.path = some d ∧ d ≠ [] ∧ fs.isDir d = true) := by
  have key : ∀ d, (dispatch fs a).1.dir? = some d → a.path = some d ∧ d ≠ [] ∧ fs.isDir d = true := by
    intro d
    have h := dispatch_chain fs a
    generalize (dispatch fs a).1 = act at h
    generalize (dispatch fs a).2.sel.lookup = lk at h
    intro hd
    cases h <;> simp only [Action.dir?, Option.some.injEq, reduceCtorEq] at hd <;> subst hd <;>
      exact ⟨(tv_some ‹tv a.path = some _›).1, (tv_some ‹tv a.path = some _›).2, ‹_›⟩
  refine ⟨fun d e h => ?_, fun d h => ?_, key⟩
  · have := key d (by rw [h]; rfl); exact ⟨this.1, this.2.2⟩
  · have := key d (by rw [h]; rfl); exact ⟨this.1, this.2.2⟩

/-- ★ one action per invocation, in priority order: if any of `-f -j -i --bmc-id --plid --src --src-exclude -l -n -a` is given (truthily),
    a simultaneous `-d` / `-D` is not executed; and `-d` takes precedence over `-D` -/
theorem main_lower_priority_delete (fs : FsView) (a : Args)
    (h : truthy a.file = true ∨ a.json = true ∨ truthy a.pelID = true ∨ truthy a.bmcID = true ∨ truthy a.plid = true ∨
         truthy a.src = true ∨ truthy a.srcExclude = true ∨ a.list = true ∨ a.count = true ∨ a.all = true) :
    (∀ d e, (dispatch fs a).1 ≠ .deleteMode d e) ∧ (∀ d, (dispatch fs a).1 ≠ .deleteAllMode d) := by
  simp only [truthy_eq_true] at h
  have hc := dispatch_chain fs a
  generalize (dispatch fs a).1 = act at hc
  generalize (dispatch fs a).2.sel.lookup = lk at hc
  cases hc <;> simp_all

theorem main_delete_before_delete_all (fs : FsView) (a : Args) (h : truthy a.delete = true) :
    ∀ d, (dispatch fs a).1 ≠ .deleteAllMode d := by
  simp only [truthy_eq_true] at h
  have hc := dispatch_chain fs a
  generalize (dispatch fs a).1 = act at hc
  generalize (dispatch fs a).2.sel.lookup = lk at hc
  cases hc <;> simp_all

/-- every action other than one of the four `sys.exit("message")` sites makes `main` itself end with status 0 -/
theorem dispatch_total_exit0 (fs : FsView) (a : Args) :
    (∀ m, (dispatch fs a).1 ≠ .exitMsg m) → mainExit (dispatch fs a).1 = 0 := by
  intro h
  cases hact : (dispatch fs a).1 with
  | exitMsg m => exact absurd hact (h m)
  | _ => rfl

theorem exit_status_of_message (m : ExitSite) : mainExit (.exitMsg m) = 1 ∧ mainStderr (.exitMsg m) = some (exitText m) := ⟨rfl, rfl⟩

/-! Non-vacuity: concrete command lines for each statement above (`/pels` and `/out` are directories, `/x.txt` is a file). -/
def fsDemo : FsView := { isDir := fun p => p == s "/pels" || p == s "/out", isFile := fun p => p == s "/x.txt" }

-- `-p /pels -d 50000001 -D`: the single delete runs, not delete-all
example : dispatch fsDemo { path := some (s "/pels"), delete := some (s "50000001"), deleteAll := true } =
    (.deleteMode (s "/pels") (s "50000001"), {}) := by decide
-- `-p /pels -d "" -D`: an empty id counts as not given, so delete-all runs
example : dispatch fsDemo { path := some (s "/pels"), delete := some [], deleteAll := true } = (.deleteAllMode (s "/pels"), {}) := by decide
-- `-p /pels -l -d 50000001 -D`: listing wins, nothing is deleted
example : dispatch fsDemo { path := some (s "/pels"), list := true, deleteAll := true, delete := some (s "50000001") } =
    (.listMode (s "/pels"), {}) := by decide
-- `-p /nope -D`: not a directory, nothing is called
example : (dispatch fsDemo { path := some (s "/nope"), deleteAll := true }).1 = .exitMsg (.notDir (s "/nope")) := by decide
-- `-f /pels/a --clean -D` (no -p needed): file mode, with the clean flag
example : (dispatch fsDemo { file := some (s "/pels/a"), clean := true, deleteAll := true }).1 = .fileMode (s "/pels/a") true := by decide
example : (dispatch fsDemo { path := some (s "/pels"), json := true, outputDir := some (s "/out"), clean := true }).1 =
    .jsonMode (s "/pels") (s "/out") true := by decide
example : (dispatch fsDemo { path := some (s "/pels"), json := true, outputDir := some (s "/none") }).1 =
    .exitMsg (.noOutputDir (s "/none")) := by decide
-- `--src-exclude /missing`: the id is stored in the Config before the file test fails
example : dispatch fsDemo { path := some (s "/pels"), srcExclude := some (s "/missing") } =
    (.exitMsg (.noExcludeFile (s "/missing")), { sel := { lookup := true } }) := by decide
example : (dispatch fsDemo { deleteAll := true }).1 = .exitMsg .noPath := by decide
example : (dispatch fsDemo { path := some (s "/pels") }).1 = .nothing ∧ mainExit .nothing = 0 := by decide
example : mainExit (dispatch fsDemo { deleteAll := true }).1 = 1 := by decide

end Pel.C11
