import PelModel.Cli
import PelProofs.Cli
/-
  C11 — Only delete options remove files, and only the files they name.
  In the model a directory is the list of its top-level regular files; the read-only modes (`listMode`, `allMode`,
  `countMode`, `plidMode`, `srcMode`, `idMode`, `bmcIdMode`) are functions `Dir → CliOut` that return no directory at
  all, and subdirectories are not even part of what `deleteMode` / `deleteAllMode` / `jsonMode` receive.  The frame
  conditions that remain to be proved are those of the three modes that do change the directory.
-/
namespace Pel.C11

/-- ★ `--delete E` removes at most one file, and only a top-level file whose name contains the processed id -/
theorem delete_at_most_one (e : Text) (d : Dir) :
    (deleteMode e d).2 = d ∨
    ∃ pid f, processId e = some pid ∧ f ∈ d ∧ isInfix pid f.name = true ∧ (deleteMode e d).2 = d.erase f := by
  cases hp : processId e with
  | none => rw [deleteMode_bad d hp]; exact Or.inl rfl
  | some pid =>
    cases hf : d.find? (fun f => isInfix pid f.name) with
    | none => rw [deleteMode_notfound hp hf]; exact Or.inl rfl
    | some f =>
      rw [deleteMode_found hp hf]
      have hi : isInfix pid f.name = true := List.find?_some (p := fun (f : FileEntry) => isInfix pid f.name) hf
      exact Or.inr ⟨pid, f, rfl, List.mem_of_find?_eq_some hf, hi, rfl⟩

/-- everything else is untouched: every file other than the removed one is still there, unchanged -/
theorem delete_keeps_others (e : Text) (d : Dir) (g : FileEntry) (hg : g ∈ (deleteMode e d).2) : g ∈ d := by
  cases hp : processId e with
  | none => rw [deleteMode_bad d hp] at hg; exact hg
  | some pid =>
    cases hf : d.find? (fun f => isInfix pid f.name) with
    | none => rw [deleteMode_notfound hp hf] at hg; exact hg
    | some f =>
      rw [deleteMode_found hp hf] at hg
      exact List.mem_of_mem_erase hg

theorem delete_length (e : Text) (d : Dir) : d.length ≤ (deleteMode e d).2.length + 1 := by
  cases hp : processId e with
  | none => rw [deleteMode_bad d hp]; exact Nat.le_succ _
  | some pid =>
    cases hf : d.find? (fun f => isInfix pid f.name) with
    | none => rw [deleteMode_notfound hp hf]; exact Nat.le_succ _
    | some f =>
      rw [deleteMode_found hp hf]
      simp only
      rw [List.length_erase_of_mem (List.mem_of_find?_eq_some hf)]
      omega

/-- ★ if no top-level file name contains the id, nothing is removed and "PEL not found" is reported -/
theorem delete_not_found (e pid : Text) (d : Dir) (hp : processId e = some pid) (h : ∀ f ∈ d, isInfix pid f.name = false) :
    deleteMode e d = ({ stdout := s "PEL not found\n", stderrLines := 0, exit := 0 }, d) := by
  have hf : d.find? (fun f => isInfix pid f.name) = none := by
    rw [List.find?_eq_none]
    intro f hfd
    simp [h f hfd]
  exact deleteMode_notfound hp hf

/-- an id of the wrong length is rejected before anything is touched -/
theorem delete_bad_id (e : Text) (d : Dir) (hp : processId e = none) : (deleteMode e d).2 = d ∧ (deleteMode e d).1.exit = 1 := by
  rw [deleteMode_bad d hp]
  exact ⟨rfl, rfl⟩

/-- ★ `--delete-all` removes all the top-level regular files (and nothing else exists in its argument) -/
theorem delete_all (d : Dir) : (deleteAllMode d).2 = [] := by
  rfl

/-- ★ `--json` creates only files named `<pel file>.<entry id>.json`, one per decodable selected input -/
theorem json_creates_only (env : Env) (o : CliOpts) (clean : Bool) (d : Dir) :
    ∀ c ∈ (jsonMode env o clean d).created, ∃ f ∈ d, ∃ eid j, parsePEL env o.cfg f.data = .doc eid j ∧
      c = (f.name ++ [46] ++ eid ++ s ".json", prettyPrint 34 (dumps j)) := by
  intro c hc
  simp only [jsonMode, List.mem_filterMap, List.mem_map, List.mem_filter] at hc
  obtain ⟨p, ⟨f, ⟨hfd, _⟩, hpf⟩, hc⟩ := hc
  subst hpf
  simp only at hc
  cases hfo : fullOf env o.cfg f with
  | some x =>
    obtain ⟨eid, j⟩ := x
    simp only [hfo, Option.some.injEq] at hc
    exact ⟨f, hfd, eid, j, fullOf_some hfo, hc.symm⟩
  | skip => simp [hfo] at hc
  | diag => simp [hfo] at hc

/-- ★ `--json` removes inputs only with `--clean`, and then only inputs whose document was produced -/
theorem json_removes_only (env : Env) (o : CliOpts) (clean : Bool) (d : Dir) :
    (clean = false → (jsonMode env o clean d).removed = []) ∧
    ∀ n ∈ (jsonMode env o clean d).removed, ∃ f ∈ d, f.name = n ∧ ∃ eid j, parsePEL env o.cfg f.data = .doc eid j := by
  refine ⟨fun h => by simp [jsonMode, h], ?_⟩
  intro n hn
  cases clean with
  | false => simp [jsonMode] at hn
  | true =>
    simp only [jsonMode, if_true, List.mem_filterMap, List.mem_map, List.mem_filter] at hn
    obtain ⟨p, ⟨f, ⟨hfd, _⟩, hpf⟩, hc⟩ := hn
    subst hpf
    simp only at hc
    cases hfo : fullOf env o.cfg f with
    | some x =>
      obtain ⟨eid, j⟩ := x
      simp only [hfo, Option.some.injEq] at hc
      exact ⟨f, hfd, hc, eid, j, fullOf_some hfo⟩
    | skip => simp [hfo] at hc
    | diag => simp [hfo] at hc

end Pel.C11
