namespace Pel.C11
end Pel.C11
