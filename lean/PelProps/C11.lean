import PelModel.Cli
import PelModel.Main
import PelProofs.Cli
import PelProofs.Main
import PelProofs.Top
import PelModel.Bmc
/-
  C11 — Only delete options remove files, and only the files they name.
  In the model a directory is the list of its top-level regular files; the read-only modes (`listMode`, `allMode`,
  `countMode`, `plidMode`, `srcMode`, `idMode`, `bmcIdMode`) are functions `Dir → CliOut` that return no directory at
  all, and subdirectories are not even part of what `deleteMode` / `deleteAllMode` / `jsonMode` receive.  The frame
  conditions that remain to be proved are those of the three modes that do change the directory.
-/
namespace Pel.C11

/-- ★ `--delete E` removes at most one file, and only a top-level file whose name contains the processed id -/
theorem delete_at_most_one (e : Text) (d : Dir) :
    (deleteMode e d).2 = d ∨
    ∃ pid f, processId e = some pid ∧ f ∈ d ∧ isInfix pid f.name = true ∧ (deleteMode e d).2 = d.erase f := by
  cases hp : processId e with
  | none => rw [deleteMode_bad d hp]; exact Or.inl rfl
  | some pid =>
    cases hf : d.find? (fun f => isInfix pid f.name) with
    | none => rw [deleteMode_notfound hp hf]; exact Or.inl rfl
    | some f =>
      rw [deleteMode_found hp hf]
      have hi : isInfix pid f.name = true := List.find?_some (p := fun (f : FileEntry) => isInfix pid f.name) hf
      exact Or.inr ⟨pid, f, rfl, List.mem_of_find?_eq_some hf, hi, rfl⟩

/-- everything else is untouched: every file other than the removed one is still there, unchanged -/
theorem delete_keeps_others (e : Text) (d : Dir) (g : FileEntry) (hg : g ∈ (deleteMode e d).2) : g ∈ d := by
  cases hp : processId e with
  | none => rw [deleteMode_bad d hp] at hg; exact hg
  | some pid =>
    cases hf : d.find? (fun f => isInfix pid f.name) with
    | none => rw [deleteMode_notfound hp hf] at hg; exact hg
    | some f =>
      rw [deleteMode_found hp hf] at hg
      exact List.mem_of_mem_erase hg

theorem delete_length (e : Text) (d : Dir) : d.length ≤ (deleteMode e d).2.length + 1 := by
  cases hp : processId e with
  | none => rw [deleteMode_bad d hp]; exact Nat.le_succ _
  | some pid =>
    cases hf : d.find? (fun f => isInfix pid f.name) with
    | none => rw [deleteMode_notfound hp hf]; exact Nat.le_succ _
    | some f =>
      rw [deleteMode_found hp hf]
      simp only
      rw [List.length_erase_of_mem (List.mem_of_find?_eq_some hf)]
      omega

/-- ★ if no top-level file name contains the id, nothing is removed and "PEL not found" is reported -/
theorem delete_not_found (e pid : Text) (d : Dir) (hp : processId e = some pid) (h : ∀ f ∈ d, isInfix pid f.name = false) :
    deleteMode e d = ({ stdout := s "PEL not found\n", stderrLines := 0, exit := 0 }, d) := by
  have hf : d.find? (fun f => isInfix pid f.name) = none := by
    rw [List.find?_eq_none]
    intro f hfd
    simp [h f hfd]
  exact deleteMode_notfound hp hf

/-- an id of the wrong length is rejected before anything is touched -/
theorem delete_bad_id (e : Text) (d : Dir) (hp : processId e = none) : (deleteMode e d).2 = d ∧ (deleteMode e d).1.exit = 1 := by
  rw [deleteMode_bad d hp]
  exact ⟨rfl, rfl⟩

/-- ★ `--delete-all` removes all the top-level regular files (and nothing else exists in its argument) -/
theorem delete_all (d : Dir) : (deleteAllMode d).2 = [] := by
  rfl

/-- ★ `--json` creates only files named `<pel file>.<entry id>.json`, one per decodable selected input -/
theorem json_creates_only (env : Env) (o : CliOpts) (clean : Bool) (d : Dir) :
    ∀ c ∈ (jsonMode env o clean d).created, ∃ f ∈ d, ∃ eid j, parsePEL env o.cfg f.data = .doc eid j ∧
      c = (f.name ++ [46] ++ eid ++ s ".json", prettyPrint 34 (dumps j)) := by
  intro c hc
  simp only [jsonMode, List.mem_filterMap, List.mem_map, List.mem_filter] at hc
  obtain ⟨p, ⟨f, ⟨hfd, _⟩, hpf⟩, hc⟩ := hc
  subst hpf
  simp only at hc
  cases hfo : fullOf env o.cfg f with
  | some x =>
    obtain ⟨eid, j⟩ := x
    simp only [hfo, Option.some.injEq] at hc
    exact ⟨f, hfd, eid, j, fullOf_some hfo, hc.symm⟩
  | skip => simp [hfo] at hc
  | diag => simp [hfo] at hc

/-- ★ `--json` removes inputs only with `--clean`, and then only inputs whose document was produced -/
theorem json_removes_only (env : Env) (o : CliOpts) (clean : Bool) (d : Dir) :
    (clean = false → (jsonMode env o clean d).removed = []) ∧
    ∀ n ∈ (jsonMode env o clean d).removed, ∃ f ∈ d, f.name = n ∧ ∃ eid j, parsePEL env o.cfg f.data = .doc eid j := by
  refine ⟨fun h => by simp [jsonMode, h], ?_⟩
  intro n hn
  cases clean with
  | false => simp [jsonMode] at hn
  | true =>
    simp only [jsonMode, if_true, List.mem_filterMap, List.mem_map, List.mem_filter] at hn
    obtain ⟨p, ⟨f, ⟨hfd, _⟩, hpf⟩, hc⟩ := hn
    subst hpf
    simp only at hc
    cases hfo : fullOf env o.cfg f with
    | some x =>
      obtain ⟨eid, j⟩ := x
      simp only [hfo, Option.some.injEq] at hc
      exact ⟨f, hfd, hc, eid, j, fullOf_some hfo⟩
    | skip => simp [hfo] at hc
    | diag => simp [hfo] at hc

/-! ### `main()`: which options can make it reach a removing function (model: PelModel/Main.lean) -/

/-- ★ the executable priority chain `dispatch` (the `if` cascade of `main()`, in source order) is exactly the declarative chain `Chain`
    ("the first truthy mode option wins; every earlier one was falsy"), and `Chain` admits no other result -/
theorem main_dispatch_is_chain (fs : FsView) (a : Args) :
    Chain fs a (dispatch fs a).1 (dispatch fs a).2.sel.lookup ∧
    ∀ act lk, Chain fs a act lk → act = (dispatch fs a).1 ∧ lk = (dispatch fs a).2.sel.lookup :=
  ⟨dispatch_chain fs a, fun _ _ h => ⟨(chain_unique h).1.symm, (chain_unique h).2.symm⟩⟩

/-- ★ `main` reaches `deletePELFromPELId(dir, e)` only when `-d e` was given with a non-empty `e`, `deleteAllPELs` only when `-D` was
    given, and passes `delete_after_parsing = True` / calls its own `os.remove` (the `-f` branch) only when `--clean` was given —
    for every file-system answer and every parsed argument vector -/
theorem main_removes_only_on_request (fs : FsView) (a : Args) :
    (∀ d e, (dispatch fs a).1 = .deleteMode d e → a.delete = some e ∧ e ≠ []) ∧
    (∀ d, (dispatch fs a).1 = .deleteAllMode d → a.deleteAll = true) ∧
    (∀ p, (dispatch fs a).1 = .fileMode p true → a.clean = true) ∧
    (∀ d o, (dispatch fs a).1 = .jsonMode d o true → a.clean = true) := by
  have h := dispatch_chain fs a
  generalize (dispatch fs a).1 = act at h
  generalize (dispatch fs a).2.sel.lookup = lk at h
  refine ⟨?_, ?_, ?_, ?_⟩
  · intro d e he; subst he; cases h; rename_i hde; exact tv_some hde
  · intro d he; subst he; cases h; assumption
  · intro p he; cases h <;> simp_all
  · intro d o he; cases h <;> simp_all

/-- every other invocation is read-only at the level of `main`: without (truthy) `-d`, without `-D` and without `--clean`, no removing
    function is reached and no callee is told to delete -/
theorem main_readonly_without_delete_clean (fs : FsView) (a : Args)
    (hd : truthy a.delete = false) (hD : a.deleteAll = false) (hc : a.clean = false) :
    (∀ d e, (dispatch fs a).1 ≠ .deleteMode d e) ∧ (∀ d, (dispatch fs a).1 ≠ .deleteAllMode d) ∧
    (∀ p, (dispatch fs a).1 ≠ .fileMode p true) ∧ (∀ d o, (dispatch fs a).1 ≠ .jsonMode d o true) ∧
    (dispatch fs a).1.mayRemove = false := by
  rw [truthy_eq_false] at hd
  have h := dispatch_chain fs a
  generalize (dispatch fs a).1 = act at h
  generalize (dispatch fs a).2.sel.lookup = lk at h
  cases h <;> simp_all [Action.mayRemove]

/-- ★ the directory: `deletePELFromPELId` / `deleteAllPELs` — and every other directory mode — are called with exactly the `-p` value, and
    only after `os.path.isdir` said it is a directory -/
theorem main_delete_directory (fs : FsView) (a : Args) :
    (∀ d e, (dispatch fs a).1 = .deleteMode d e → a.path = some d ∧ fs.isDir d = true) ∧
    (∀ d, (dispatch fs a).1 = .deleteAllMode d → a.path = some d ∧ fs.isDir d = true) ∧
    (∀ d, (dispatch fs a).1.dir? = some d → a.path = some d ∧ d ≠ [] ∧ fs.isDir d = true) := by
  have key : ∀ d, (dispatch fs a).1.dir? = some d → a.path = some d ∧ d ≠ [] ∧ fs.isDir d = true := by
    intro d
    have h := dispatch_chain fs a
    generalize (dispatch fs a).1 = act at h
    generalize (dispatch fs a).2.sel.lookup = lk at h
    intro hd
    cases h <;> simp only [Action.dir?, Option.some.injEq, reduceCtorEq] at hd <;> subst hd <;>
      exact ⟨(tv_some ‹tv a.path = some _›).1, (tv_some ‹tv a.path = some _›).2, ‹_›⟩
  refine ⟨fun d e h => ?_, fun d h => ?_, key⟩
  · have := key d (by rw [h]; rfl); exact ⟨this.1, this.2.2⟩
  · have := key d (by rw [h]; rfl); exact ⟨this.1, this.2.2⟩

/-- ★ one action per invocation, in priority order: if any of `-f -j -i --bmc-id --plid --src --src-exclude -l -n -a` is given (truthily),
    a simultaneous `-d` / `-D` is not executed; and `-d` takes precedence over `-D` -/
theorem main_lower_priority_delete (fs : FsView) (a : Args)
    (h : truthy a.file = true ∨ a.json = true ∨ truthy a.pelID = true ∨ truthy a.bmcID = true ∨ truthy a.plid = true ∨
         truthy a.src = true ∨ truthy a.srcExclude = true ∨ a.list = true ∨ a.count = true ∨ a.all = true) :
    (∀ d e, (dispatch fs a).1 ≠ .deleteMode d e) ∧ (∀ d, (dispatch fs a).1 ≠ .deleteAllMode d) := by
  simp only [truthy_eq_true] at h
  have hc := dispatch_chain fs a
  generalize (dispatch fs a).1 = act at hc
  generalize (dispatch fs a).2.sel.lookup = lk at hc
  cases hc <;> simp_all

theorem main_delete_before_delete_all (fs : FsView) (a : Args) (h : truthy a.delete = true) :
    ∀ d, (dispatch fs a).1 ≠ .deleteAllMode d := by
  simp only [truthy_eq_true] at h
  have hc := dispatch_chain fs a
  generalize (dispatch fs a).1 = act at hc
  generalize (dispatch fs a).2.sel.lookup = lk at hc
  cases hc <;> simp_all

/-- every action other than one of the four `sys.exit("message")` sites makes `main` itself end with status 0 -/
theorem dispatch_total_exit0 (fs : FsView) (a : Args) :
    (∀ m, (dispatch fs a).1 ≠ .exitMsg m) → mainExit (dispatch fs a).1 = 0 := by
  intro h
  cases hact : (dispatch fs a).1 with
  | exitMsg m => exact absurd hact (h m)
  | _ => rfl

theorem exit_status_of_message (m : ExitSite) : mainExit (.exitMsg m) = 1 ∧ mainStderr (.exitMsg m) = some (exitText m) := ⟨rfl, rfl⟩

/-! Non-vacuity: concrete command lines for each statement above (`/pels` and `/out` are directories, `/x.txt` is a file). -/
def fsDemo : FsView := { isDir := fun p => p == s "/pels" || p == s "/out", isFile := fun p => p == s "/x.txt" }

-- `-p /pels -d 50000001 -D`: the single delete runs, not delete-all
example : dispatch fsDemo { path := some (s "/pels"), delete := some (s "50000001"), deleteAll := true } =
    (.deleteMode (s "/pels") (s "50000001"), {}) := by decide
-- `-p /pels -d "" -D`: an empty id counts as not given, so delete-all runs
example : dispatch fsDemo { path := some (s "/pels"), delete := some [], deleteAll := true } = (.deleteAllMode (s "/pels"), {}) := by decide
-- `-p /pels -l -d 50000001 -D`: listing wins, nothing is deleted
example : dispatch fsDemo { path := some (s "/pels"), list := true, deleteAll := true, delete := some (s "50000001") } =
    (.listMode (s "/pels"), {}) := by decide
-- `-p /nope -D`: not a directory, nothing is called
example : (dispatch fsDemo { path := some (s "/nope"), deleteAll := true }).1 = .exitMsg (.notDir (s "/nope")) := by decide
-- `-f /pels/a --clean -D` (no -p needed): file mode, with the clean flag
example : (dispatch fsDemo { file := some (s "/pels/a"), clean := true, deleteAll := true }).1 = .fileMode (s "/pels/a") true := by decide
example : (dispatch fsDemo { path := some (s "/pels"), json := true, outputDir := some (s "/out"), clean := true }).1 =
    .jsonMode (s "/pels") (s "/out") true := by decide
example : (dispatch fsDemo { path := some (s "/pels"), json := true, outputDir := some (s "/none") }).1 =
    .exitMsg (.noOutputDir (s "/none")) := by decide
-- `--src-exclude /missing`: the id is stored in the Config before the file test fails
example : dispatch fsDemo { path := some (s "/pels"), srcExclude := some (s "/missing") } =
    (.exitMsg (.noExcludeFile (s "/missing")), { sel := { lookup := true } }) := by decide
example : (dispatch fsDemo { deleteAll := true }).1 = .exitMsg .noPath := by decide
example : (dispatch fsDemo { path := some (s "/pels") }).1 = .nothing ∧ mainExit .nothing = 0 := by decide
example : mainExit (dispatch fsDemo { deleteAll := true }).1 = 1 := by decide

/-! ### the WHOLE command: `runMain` = `dispatch` followed by the mode it names, on a `World` (model: PelModel/Top.lean) -/

/-- a file `--json` writes: `<pel file>.<entry id>.json`, holding the document of a decodable, selected top-level file of the directory -/
def IsJsonOutput (env : Env) (cfg : SelCfg) (d : Dir) (g : FileEntry) : Prop :=
  ∃ f ∈ d, ∃ eid j, parsePEL env cfg f.data = .doc eid j ∧
    g = { name := f.name ++ [46] ++ eid ++ s ".json", data := prettyPrint 34 (dumps j) }

/-- `w'` differs from `w` at most by `--json` output files: nothing disappears, every file keeps its content unless it is (over)written as
    such an output, and whatever is new — in the `-p` directory or in the `-o` directory — is such an output -/
structure OnlyJsonAdded (env : Env) (cfg : SelCfg) (w w' : World) : Prop where
  pathIsDir : w'.pathIsDir = w.pathIsDir
  subdirs : w'.subdirs = w.subdirs
  file : w'.file = w.file
  exclude : w'.exclude = w.exclude
  dirKeeps : ∀ f ∈ w.dir, ∃ g ∈ w'.dir, g.name = f.name ∧ (g = f ∨ IsJsonOutput env cfg w.dir g)
  dirNew : ∀ g ∈ w'.dir, g ∈ w.dir ∨ IsJsonOutput env cfg w.dir g
  outSome : w'.out.isSome = w.out.isSome
  outKeeps : ∀ od od', w.out = some od → w'.out = some od' →
    ∀ f ∈ od, ∃ g ∈ od', g.name = f.name ∧ (g = f ∨ IsJsonOutput env cfg w.dir g)
  outNew : ∀ od od', w.out = some od → w'.out = some od' → ∀ g ∈ od', g ∈ od ∨ IsJsonOutput env cfg w.dir g

theorem OnlyJsonAdded.refl (env : Env) (cfg : SelCfg) (w : World) : OnlyJsonAdded env cfg w w where
  pathIsDir := rfl
  subdirs := rfl
  file := rfl
  exclude := rfl
  dirKeeps := fun f hf => ⟨f, hf, rfl, Or.inl rfl⟩
  dirNew := fun _ hg => Or.inl hg
  outSome := rfl
  outKeeps := fun od od' h h' f hf => by
    rw [h] at h'; cases h'; exact ⟨f, hf, rfl, Or.inl rfl⟩
  outNew := fun od od' h h' g hg => by
    rw [h] at h'; cases h'; exact Or.inl hg

/-- the `-j` branch without `--clean`, for every directory content -/
theorem jsonBranch_only_adds (env : Env) (c : MainCfg) (act : Action) (p out : Text) (w : World) :
    OnlyJsonAdded env c.sel w (jsonBranch env c act p out false w).world ∧
    (out ≠ p → (jsonBranch env c act p out false w).world.dir = w.dir) := by
  have hrm : (jsonMode env c.opts false w.dir).removed = [] := (json_removes_only env c.opts false w.dir).1 rfl
  have hcr : ∀ q ∈ (jsonMode env c.opts false w.dir).created, IsJsonOutput env c.sel w.dir { name := q.1, data := q.2 } := by
    intro q hq
    obtain ⟨f, hf, eid, j, hdoc, hq'⟩ := json_creates_only env c.opts false w.dir q hq
    exact ⟨f, hf, eid, j, hdoc, by rw [hq']⟩
  unfold jsonBranch
  simp only [hrm, removeNames_nil]
  by_cases ho : out = p
  · simp only [ho, if_true, ne_eq, not_true_eq_false, false_implies, and_true]
    refine ⟨rfl, rfl, rfl, rfl, ?_, ?_, rfl, ?_, ?_⟩
    · intro f hf
      obtain ⟨g, hg, hn, hor⟩ := writeFiles_keeps (l := (jsonMode env c.opts false w.dir).created) hf
      refine ⟨g, hg, hn, ?_⟩
      rcases hor with h | ⟨q, hq, h⟩
      · exact Or.inl h
      · exact Or.inr (h ▸ hcr q hq)
    · intro g hg
      rcases mem_writeFiles hg with h | ⟨q, hq, h⟩
      · exact Or.inl h
      · exact Or.inr (h ▸ hcr q hq)
    · intro od od' h h' f hf
      rw [h] at h'; cases h'; exact ⟨f, hf, rfl, Or.inl rfl⟩
    · intro od od' h h' g hg
      rw [h] at h'; cases h'; exact Or.inl hg
  · simp only [ho, if_false, ne_eq, not_false_eq_true, forall_const, and_true]
    refine ⟨rfl, rfl, rfl, rfl, ?_, ?_, ?_, ?_, ?_⟩
    · exact fun f hf => ⟨f, hf, rfl, Or.inl rfl⟩
    · exact fun _ hg => Or.inl hg
    · simp
    · intro od od' h h' f hf
      simp only [h, Option.map_some, Option.some.injEq] at h'
      subst h'
      obtain ⟨g, hg, hn, hor⟩ := writeFiles_keeps (l := (jsonMode env c.opts false w.dir).created) hf
      refine ⟨g, hg, hn, ?_⟩
      rcases hor with h1 | ⟨q, hq, h1⟩
      · exact Or.inl h1
      · exact Or.inr (h1 ▸ hcr q hq)
    · intro od od' h h' g hg
      simp only [h, Option.map_some, Option.some.injEq] at h'
      subst h'
      rcases mem_writeFiles hg with h1 | ⟨q, hq, h1⟩
      · exact Or.inl h1
      · exact Or.inr (h1 ▸ hcr q hq)

/-- ★ the whole command is read-only unless asked otherwise — for ALL decoder environments, command lines, worlds and fault plans:
    (1) a command line without (non-empty) `-d`, without `-D`, without `--clean` and without `--json` leaves the world exactly as it was
        (the `-p` directory's files and their order, its subdirectories, the `-f` file, the exclude file, the output directory);
    (2) with `--json` and without `--clean` nothing disappears and nothing changes except that files named `<pel file>.<entry id>.json`,
        holding the document of a decodable selected top-level file, appear (or are overwritten) in the output directory — which is the
        `-p` directory itself only if `-o` is absent or names it: with `-o` naming another directory the `-p` directory is unchanged -/
theorem command_readonly (fault : Nat → Bool) (env : Env) (a : Args) (w : World) :
    (truthy a.delete = false → a.deleteAll = false → a.clean = false → a.json = false →
      (runMainF fault env a w).world = w) ∧
    (a.json = true → a.clean = false →
      OnlyJsonAdded (env.withCfg (mkConfig severityGroupTable a)) (mkConfig severityGroupTable a).sel w (runMainF fault env a w).world ∧
      (∀ o, tv a.outputDir = some o → tv a.path ≠ some o → (runMainF fault env a w).world.dir = w.dir)) := by
  constructor
  · intro hd hD hc hj
    have hro := (main_readonly_without_delete_clean (w.fsView a) a hd hD hc).2.2.2.2
    have hnj : ∀ p o, (dispatch (w.fsView a) a).1 ≠ .jsonMode p o false := by
      intro p o he
      rw [dispatch_json_inv he] at hj
      exact absurd hj (by decide)
    exact runAction_world_readonly fault _ w _ _ hro hnj
  · intro hj hc
    have h := dispatch_chain (w.fsView a) a
    rw [runMainF_of_chain h]
    generalize (dispatch (w.fsView a) a).1 = act at h
    generalize (dispatch (w.fsView a) a).2.sel.lookup = lk at h
    cases h
    case file f hf =>
      rw [hc]
      have : (runAction fault (env.withCfg (cfgOf a false)) w (.fileMode f false) (cfgOf a false)).world = w :=
        fileBranch_noclean_world fault _ _ f w
      rw [this]
      exact ⟨OnlyJsonAdded.refl _ _ w, fun _ _ _ => rfl⟩
    case noPath => exact ⟨OnlyJsonAdded.refl _ _ w, fun _ _ _ => rfl⟩
    case notDir => exact ⟨OnlyJsonAdded.refl _ _ w, fun _ _ _ => rfl⟩
    case jsonNoOut => exact ⟨OnlyJsonAdded.refl _ _ w, fun _ _ _ => rfl⟩
    case jsonOut p o hf hp hd _ ho hod =>
      rw [hc]
      obtain ⟨h1, h2⟩ := jsonBranch_only_adds (env.withCfg (cfgOf a false)) (cfgOf a false) (.jsonMode p o false) p o w
      refine ⟨h1, fun o' ho' hne => h2 ?_⟩
      rw [ho] at ho'
      cases ho'
      intro heq
      exact hne (heq ▸ hp)
    case jsonIn p hf hp hd _ ho =>
      rw [hc]
      obtain ⟨h1, _⟩ := jsonBranch_only_adds (env.withCfg (cfgOf a false)) (cfgOf a false) (.jsonMode p p false) p p w
      refine ⟨h1, fun o' ho' _ => ?_⟩
      rw [ho] at ho'
      cases ho'
    all_goals simp_all

/-- ★ the delete options remove exactly what they name — at the level of the whole command, when the delete option is REACHED (`-p` names a
    directory and no option of higher priority is on the command line):
    `-d E`: the new world is the old one, or the old one minus ONE top-level regular file of the `-p` directory whose name contains the
    processed id (everything else — the other files and their order, the subdirectories, the `-f` / exclude / output files — is as it was);
    `-D` (no non-empty `-d`): exactly the top-level regular files are gone; the subdirectory names and everything else are unchanged -/
theorem command_delete_exact (fault : Nat → Bool) (env : Env) (a : Args) (w : World) (p : Text)
    (hh : a.NoHigherMode) (hnd : a.NoDisplayMode) (hp : tv a.path = some p) (hd : w.pathIsDir = true) :
    (∀ e, tv a.delete = some e →
      (runMainF fault env a w).world = w ∨
      ∃ pid f, processId e = some pid ∧ f ∈ w.dir ∧ isInfix pid f.name = true ∧
        (runMainF fault env a w).world = { w with dir := w.dir.erase f }) ∧
    (tv a.delete = none → a.deleteAll = true → (runMainF fault env a w).world = { w with dir := [] }) := by
  constructor
  · intro e he
    rw [runMainF_of_chain (chain_delete hh hnd hp hd he)]
    show ({ w with dir := (deleteMode e w.dir).2 } : World) = w ∨ _
    rcases delete_at_most_one e w.dir with h | ⟨pid, f, h1, h2, h3, h4⟩
    · left; rw [h]
    · right; exact ⟨pid, f, h1, h2, h3, by show ({ w with dir := (deleteMode e w.dir).2 } : World) = _; rw [h4]⟩
  · intro he hD
    rw [runMainF_of_chain (chain_deleteAll hh hnd hp hd he hD)]
    rfl

/-- `--json` as composed (`jsonMode` on the directory) visits exactly the files for which `main()` calls `parseAndWriteOutput` (`jsonCalls`
    on the names `os.walk` yields), in the same order, with the output directory and the delete flag `dispatch` computed -/
theorem command_json_calls (a : Args) (w : World) (p out : Text) (clean : Bool)
    (h : (dispatch (w.fsView a) a).1 = .jsonMode p out clean) :
    jsonCalls (dispatch (w.fsView a) a).2 (w.dir.map (·.name)) (dispatch (w.fsView a) a).1 =
      (w.dir.filter (fun f => match (dispatch (w.fsView a) a).2.opts.ext with
        | some e => if e = [] then true else splitext f.name == e
        | none => true)).map fun f => (pathJoin p f.name, out, clean) := by
  rw [h]
  exact jsonMode_inputs_are_jsonCalls _ (dispatch_ext_ne _ a) w.dir p out clean

/-! Non-vacuity (concrete command lines on `wDemo`: `/pels` holds `junk`, `x_50000001` and the subdirectory `archive`). -/

-- `-p /pels -l -D -d 50000001` : read-only, whatever the files contain
example : (runMain envDemo { path := some (s "/pels"), list := true } wDemo).world = wDemo :=
  (command_readonly noFault envDemo _ wDemo).1 (by decide) (by decide) (by decide) (by decide)
-- `-p /pels -D` : both files gone, `archive` and everything else untouched
example : (runMain envDemo { path := some (s "/pels"), deleteAll := true } wDemo).world = { wDemo with dir := [] } := by decide
example : (runMain envDemo { path := some (s "/pels"), deleteAll := true } wDemo).world.subdirs = [s "archive"] := by decide
-- `-p /pels -d 0x50000001` : exactly the file whose name contains the id is gone
example : (runMain envDemo { path := some (s "/pels"), delete := some (s "0x50000001") } wDemo).world =
    { wDemo with dir := [{ name := s "junk", data := [] }] } := by decide
-- `-p /pels -d 5EED0000` : no candidate, nothing removed, "PEL not found"
example : (runMain envDemo { path := some (s "/pels"), delete := some (s "5EED0000") } wDemo).world = wDemo ∧
    (runMain envDemo { path := some (s "/pels"), delete := some (s "5EED0000") } wDemo).stdout = s "PEL not found\n" := by decide
-- `-p /pels -l -D` : the listing wins; `-p /pels -d 50000001 -D` : the single delete wins
example : (runMain envDemo { path := some (s "/pels"), list := true, deleteAll := true } wDemo).world = wDemo ∧
    (runMain envDemo { path := some (s "/pels"), delete := some (s "50000001"), deleteAll := true } wDemo).world =
      { wDemo with dir := [{ name := s "junk", data := [] }] } := by decide
-- the hypotheses of `command_delete_exact` hold for `-p /pels -D` in `wDemo`
example : ({ path := some (s "/pels"), deleteAll := true } : Args).NoHigherMode ∧
    ({ path := some (s "/pels"), deleteAll := true } : Args).NoDisplayMode ∧ wDemo.pathIsDir = true :=
  ⟨⟨rfl, rfl, rfl, rfl, rfl, rfl, rfl⟩, ⟨rfl, rfl, rfl⟩, rfl⟩
-- `-p /pels -j -o /out` on two undecodable files: nothing is created anywhere, two diagnostics
example : (runMain envDemo { path := some (s "/pels"), json := true, outputDir := some (s "/out") } wDemo).world = wDemo ∧
    (runMain envDemo { path := some (s "/pels"), json := true, outputDir := some (s "/out") } wDemo).diagnostics = 2 := by decide

-- with real PELs (`wPels`: a hidden PEL, an undecodable file, a selected PEL): `-j -o /out -E` writes two documents into `/out` and leaves
-- `/pels` alone; `-j -E` writes them into `/pels`; `-j -c -o /out` (default selection) writes one and removes exactly its input
example : (runMain envDemo { path := some (s "/pels"), json := true, outputDir := some (s "/out"), every := true } wPels).world.dir = wPels.dir ∧
    ((runMain envDemo { path := some (s "/pels"), json := true, outputDir := some (s "/out"), every := true } wPels).world.out.map
      (fun d => d.map (·.name))) = some [s "b_50000002.50000002.json", s "a_50000001.50000001.json"] ∧
    ((runMain envDemo { path := some (s "/pels"), json := true, every := true } wPels).world.dir.map (·.name)) =
      [s "b_50000002", s "junk", s "a_50000001", s "b_50000002.50000002.json", s "a_50000001.50000001.json"] ∧
    ((runMain envDemo { path := some (s "/pels"), json := true, clean := true, outputDir := some (s "/out") } wPels).world.dir.map (·.name)) =
      [s "b_50000002", s "junk"] ∧
    ((runMain envDemo { path := some (s "/pels"), json := true, clean := true, outputDir := some (s "/out") } wPels).world.out.map
      (fun d => d.map (·.name))) = some [s "a_50000001.50000001.json"] ∧
    (runMain envDemo { path := some (s "/pels"), json := true, clean := true, outputDir := some (s "/out") } wPels).world.subdirs = [s "archive"] := by
  decide +kernel

/-! ### inside a BMC (`PelModel/Bmc.lean`): no `-p`, `-A` selects the archive below the log directory -/

theorem bmc_update_view (b : BmcWorld) (archive : Bool) : b.update archive (b.view archive) = b := by
  cases archive <;> cases b with | mk l ls ar ars f e o => cases ar <;> rfl

theorem bmcPath_truthy (archive : Bool) : tv (some (bmcPath archive)) = some (bmcPath archive) := by
  cases archive <;> rfl

/-- ★ inside a BMC, too, a command line without `-d`, `-D`, `-c`, `-j` changes nothing: not the log directory, not the archive, not the
    `-f` file, not the `-o` directory — with or without `-A`, for every environment, command line, BMC and fault plan -/
theorem bmc_command_readonly (fault : Nat → Bool) (env : Env) (a : Args) (archive : Bool) (b : BmcWorld)
    (hd : truthy a.delete = false) (hD : a.deleteAll = false) (hc : a.clean = false) (hj : a.json = false) :
    (runMainBmcF fault env a archive b).world = b := by
  have h := (command_readonly fault env (a.inBmc archive) (b.view archive)).1 hd hD hc hj
  show b.update archive (runMainF fault env (a.inBmc archive) (b.view archive)).world = b
  rw [h]; exact bmc_update_view b archive

/-- ★ whatever the command line: without `-A` the archive (a subdirectory of the log directory) keeps every file, with `-A` the log
    directory does; subdirectories and the exclude file are never touched, and an archive directory neither appears nor disappears -/
theorem bmc_other_directory_untouched (fault : Nat → Bool) (env : Env) (a : Args) (archive : Bool) (b : BmcWorld) :
    (archive = false → (runMainBmcF fault env a archive b).world.archive = b.archive) ∧
    (archive = true → (runMainBmcF fault env a archive b).world.logs = b.logs) ∧
    (runMainBmcF fault env a archive b).world.logSubdirs = b.logSubdirs ∧
    (runMainBmcF fault env a archive b).world.archiveSubdirs = b.archiveSubdirs ∧
    (runMainBmcF fault env a archive b).world.exclude = b.exclude ∧
    (runMainBmcF fault env a archive b).world.archive.isSome = b.archive.isSome := by
  cases archive
  · exact ⟨fun _ => rfl, fun h => Bool.noConfusion h, rfl, rfl, rfl, rfl⟩
  · refine ⟨fun h => Bool.noConfusion h, fun _ => rfl, rfl, rfl, rfl, ?_⟩
    show (Option.map _ b.archive).isSome = _
    cases b.archive <;> rfl

/-- ★ `-D` inside a BMC removes exactly the top-level regular files of the directory worked on (the log directory, or the archive with
    `-A`), and `-d E` at most one of them whose name contains the id -/
theorem bmc_command_delete_exact (fault : Nat → Bool) (env : Env) (a : Args) (archive : Bool) (b : BmcWorld)
    (hh : a.NoHigherMode) (hnd : a.NoDisplayMode) :
    (∀ e, tv a.delete = some e →
      (runMainBmcF fault env a archive b).world = b ∨
      ∃ pid f, processId e = some pid ∧ f ∈ (b.view archive).dir ∧ isInfix pid f.name = true ∧
        (runMainBmcF fault env a archive b).world = b.update archive { b.view archive with dir := (b.view archive).dir.erase f }) ∧
    (tv a.delete = none → a.deleteAll = true →
      (runMainBmcF fault env a archive b).world = b.update archive { b.view archive with dir := [] }) := by
  have hh' : (a.inBmc archive).NoHigherMode := ⟨hh.file, hh.json, hh.pelID, hh.bmcID, hh.plid, hh.src, hh.srcExclude⟩
  have hnd' : (a.inBmc archive).NoDisplayMode := ⟨hnd.list, hnd.count, hnd.all⟩
  have hv : (b.view archive).pathIsDir = true := by cases archive <;> rfl
  have h := command_delete_exact fault env (a.inBmc archive) (b.view archive) (bmcPath archive) hh' hnd' (bmcPath_truthy archive) hv
  constructor
  · intro e he
    rcases h.1 e he with h1 | ⟨pid, f, h1, h2, h3, h4⟩
    · left
      show b.update archive (runMainF fault env (a.inBmc archive) (b.view archive)).world = b
      rw [h1]; exact bmc_update_view b archive
    · right
      refine ⟨pid, f, h1, h2, h3, ?_⟩
      show b.update archive (runMainF fault env (a.inBmc archive) (b.view archive)).world = _
      rw [h4]
  · intro he hD
    show b.update archive (runMainF fault env (a.inBmc archive) (b.view archive)).world = _
    rw [h.2 he hD]

/-- a BMC with two files in the log directory and one in the archive -/
def bDemo : BmcWorld :=
  { logs := [{ name := s "junk", data := [] }, { name := s "x_50000001", data := [1] }], logSubdirs := [s "other"],
    archive := some [{ name := s "old_50000001", data := [2] }] }

-- `peltool -D` : the log directory is emptied, the archive below it keeps its file; `peltool -A -D` : the other way round
example : (runMainBmc envDemo { deleteAll := true } false bDemo).world = { bDemo with logs := [] } := by decide
example : (runMainBmc envDemo { deleteAll := true } true bDemo).world = { bDemo with archive := some [] } := by decide
-- `peltool -d 50000001` removes `x_50000001` and not the archived file whose name contains the same id
example : (runMainBmc envDemo { delete := some (s "50000001") } false bDemo).world =
    { bDemo with logs := [{ name := s "junk", data := [] }] } := by decide
-- `peltool -A -l` on a BMC without an archive directory: an empty listing, nothing changes
example : (runMainBmc envDemo { list := true } true { bDemo with archive := none }).world = { bDemo with archive := none } := by decide

end Pel.C11
