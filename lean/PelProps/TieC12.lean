import PelGen.GenEffects
import PelGen.GenPeltool
import PelProofs.TieEffects
import PelProofs.TiePeltool
import PelProps.C12
/-
  Source tie for C12 (stream `effects`): `parseAndWriteOutput` and `parseAndPrintPELFile` of peltool.py, regenerated from the source
  text as computations of the effect monad `Eff.M` (PelModel/TransEffects.lean), perform — under EVERY fault plan — exactly the events
  of the model of this property (PelModel/Clean.lean: `cleanJsonTrace`, `cleanFileTrace`), in that order, with the same step failing;
  so ★`json_remove_after_complete` / ★`file_remove_after_complete` are statements about what the source says now.
  `fault k` = the k-th attempted I/O step of the run fails (open for writing, each `write` of `writelines` — one per character of
  the document —, close, print, `sys.stdout.flush()`, `os.remove`), exactly as `runSteps` counts.
-/
set_option linter.unusedSimpArgs false
namespace Pel.Tie
open Pel.Eff

/-! ### `--json [--clean]`: parseAndWriteOutput -/

/-- ★ for every fault plan, the steps `parseAndWriteOutput(file, out, config, clean)` performs on a readable file are `cleanJsonTrace` of
    what the file decodes to: nothing at all unless a document was produced; then open, one write per character, close, and — only with
    `clean`, only after the close succeeded — the removal of the input; the first failing step ends the sequence.  The function itself
    never raises (the failure is reported on stderr), prints nothing, and the input is among the removed paths iff the trace holds a
    successful `removeIn`.  What a `with` does while an exception propagates (`unwind`) is a `close()` and nothing else. -/
theorem parseAndWriteOutput_trace (g : Sys → Text → Text → CliOpts → Bool → M Unit) (h : Gen.parseAndWriteOutput? = some g)
    (y : Sys) (file out : Text) (c : CliOpts) (clean : Bool) (fault : Nat → Bool) (f : FileEntry) (hr : y.read file = some f.data) :
    let fo := fullOf y.env c.cfg f
    let r := (g y file out c clean).run fault
    r.1 = .ok () ∧
    r.2.trace = cleanJsonTrace (decodeResultOf fo) (docLen fo) clean fault ∧
    (∀ e ∈ r.2.unwind, e.1 = Ev.closeOut) ∧
    r.2.removed = (if inputRemoved r.2.trace then [(file, none)] else []) ∧
    r.2.stdout = [] := by
  cases h <;> (
    simp only [M.run, runFn, thenF, tryExcept, withOpenR, hr, fdRead, run_bind, run_pure, pyParsePEL, fullOf]
    obtain ⟨o, ho⟩ : ∃ o, parsePEL y.env c.cfg f.data = o := ⟨_, rfl⟩
    simp only [ho]
    cases o with
    | doc eid j =>
      simp only [run_pure, prettyPrint_dumps_length, prettyPrint_dumps_length_eq, prettyPrint_dumps_isEmpty, Bool.not_false, if_true, decodeResultOf, docLen,
        cleanJsonTrace, jsonPlan]
      generalize prettyPrint 34 (dumps j) = t
      cases h0 : fault 0 with
      | true => simp [withOpenW, step_fail, h0, runSteps, diag, inputRemoved]
      | false =>
        cases hw : allOk fault 1 t.length with
        | false =>
          simp [withOpenW, step_ok, h0, hw, writelinesStr_fail, runSteps, runSteps_replicate_fail, diag, inputRemoved]
        | true =>
          cases hc : fault (1 + t.length) with
          | true =>
            simp [withOpenW, step_ok, step_fail, h0, hw, hc, writelinesStr_ok, runSteps, runSteps_replicate_ok, diag, inputRemoved]
          | false =>
            cases clean with
            | false =>
              simp [withOpenW, step_ok, step_fail, h0, hw, hc, writelinesStr_ok, runSteps, runSteps_replicate_ok, diag, inputRemoved]
            | true =>
              cases hm : fault (1 + t.length + 1) <;>
              simp [withOpenW, osRemove, step_ok, step_fail, h0, hw, hc, hm, writelinesStr_ok, runSteps, runSteps_replicate_ok, diag,
                inputRemoved]
    | filtered => simp [decodeResultOf, cleanJsonTrace, diag, inputRemoved]
    | badHeader => simp [decodeResultOf, cleanJsonTrace, diag, inputRemoved]
    | error e => simp [decodeResultOf, cleanJsonTrace, diag, inputRemoved])

/-- C12 ★`json_remove_after_complete`, transported to the regenerated `parseAndWriteOutput`: if an attempt to remove the input appears
    anywhere in (a prefix of) what the function did, the PEL was decoded and selected, `clean` was passed, and the output was opened,
    written completely and closed, all without fault, strictly before that attempt — and the clean-up `close()` calls hold no removal -/
theorem translated_json_remove_after_complete (g : Sys → Text → Text → CliOpts → Bool → M Unit) (h : Gen.parseAndWriteOutput? = some g)
    (y : Sys) (file out : Text) (c : CliOpts) (clean : Bool) (fault : Nat → Bool) (f : FileEntry) (hr : y.read file = some f.data)
    (pre : List (Ev × Bool)) (hpre : pre <+: ((g y file out c clean).run fault).2.trace) (ok : Bool) (hrm : (Ev.removeIn, ok) ∈ pre) :
    decodeResultOf (fullOf y.env c.cfg f) = .doc ∧ clean = true ∧
    pre = [(Ev.openOut, true)] ++ List.replicate (docLen (fullOf y.env c.cfg f)) (Ev.write, true) ++ [(Ev.closeOut, true)] ++
      [(Ev.removeIn, ok)] ∧
    ∀ ok', (Ev.removeIn, ok') ∉ ((g y file out c clean).run fault).2.unwind := by
  obtain ⟨_, h2, h3, _, _⟩ := parseAndWriteOutput_trace g h y file out c clean fault f hr
  rw [h2] at hpre
  obtain ⟨a, b, c'⟩ := C12.json_remove_after_complete _ _ clean fault pre hpre ok hrm
  exact ⟨a, b, c', fun ok' hm => by have := h3 _ hm; simp at this⟩

/-- C12 ★`json_input_kept`, transported: no document, no `clean`, or a fault at open / any write / close — the input is not removed -/
theorem translated_json_input_kept (g : Sys → Text → Text → CliOpts → Bool → M Unit) (h : Gen.parseAndWriteOutput? = some g)
    (y : Sys) (file out : Text) (c : CliOpts) (clean : Bool) (fault : Nat → Bool) (f : FileEntry) (hr : y.read file = some f.data)
    (hk : decodeResultOf (fullOf y.env c.cfg f) ≠ .doc ∨ clean = false ∨ ∃ k, k ≤ docLen (fullOf y.env c.cfg f) + 1 ∧ fault k = true) :
    ((g y file out c clean).run fault).2.removed = [] := by
  obtain ⟨_, h2, _, h4, _⟩ := parseAndWriteOutput_trace g h y file out c clean fault f hr
  rw [h4, h2, C12.json_input_kept _ _ clean fault hk]
  rfl

/-- the diagnostics of `parseAndWriteOutput` (the model counts them; their text is pinned here): a PEL that is filtered out or does
    not begin with the two headers, and a decoder exception -/
theorem parseAndWriteOutput_diagnostics (g : Sys → Text → Text → CliOpts → Bool → M Unit) (h : Gen.parseAndWriteOutput? = some g)
    (y : Sys) (file out : Text) (c : CliOpts) (clean : Bool) (fault : Nat → Bool) (data : Bytes) (hr : y.read file = some data) :
    ((parsePEL y.env c.cfg data).isBadHeader = true ∨ (∃ u : Unit, parsePEL y.env c.cfg data = .filtered) →
      ((g y file out c clean).run fault).2.stderr = [s "No PEL parsed for " ++ file]) ∧
    (∀ e, parsePEL y.env c.cfg data = .error e →
      ((g y file out c clean).run fault).2.stderr = [s "No PEL parsed for " ++ file ++ s ": " ++ y.excStr (.decode e)]) := by
  cases h <;> (
    simp only [M.run, runFn, thenF, tryExcept, withOpenR, hr, fdRead, run_bind, run_pure, pyParsePEL]
    obtain ⟨o, ho⟩ : ∃ o, parsePEL y.env c.cfg data = o := ⟨_, rfl⟩
    simp only [ho]
    cases o <;> simp [Outcome.isBadHeader, diag, s])

/-! ### `--file [--clean]`: parseAndPrintPELFile, and what `main()` does with its result -/

/-- ★ `parseAndPrintPELFile(path, config, exit_on_error)` on a readable file, under every fault plan: it returns `printedOf` (`True` iff
    there was a document and both printing it and flushing stdout succeeded) — or leaves through `sys.exit(1)` when the file does not
    begin with the two headers and `exit_on_error` is set —; stdout and the number of diagnostics are `printOne`'s (plus one diagnostic
    when print / flush failed); its steps are `cleanFileTrace` without the removal (print, flush; the first failing step ends the sequence);
    it removes and creates nothing -/
theorem parseAndPrintPELFile (g : Sys → Text → CliOpts → Bool → M Bool) (h : Gen.parseAndPrintPELFile? = some g)
    (y : Sys) (path : Text) (c : CliOpts) (eoe : Bool) (fault : Nat → Bool) (data : Bytes) (hr : y.read path = some data) :
    let f : FileEntry := { name := path, data := data }
    let d := decodeResultOf (fullOf y.env c.cfg f)
    let r := (g y path c eoe).run fault
    r.1 = (if eoe && (parsePEL y.env c.cfg data).isBadHeader then Except.error (.exit 1) else Except.ok (printedOf d fault)) ∧
    r.2.stdout = (if fault 0 then [] else (printOne y.env c c.cfg f).1) ∧
    r.2.stderr.length = (printOne y.env c c.cfg f).2 + (if d == .doc && !printedOf d fault then 1 else 0) ∧
    r.2.trace = cleanFileTrace d false fault ∧ r.2.unwind = [] ∧ r.2.removed = [] ∧ r.2.created = [] := by
  cases h <;> (
    simp only [M.run, runFn, thenF, tryExcept, withOpenR, hr, fdRead, run_bind, run_pure, pyParsePEL, fullOf, printOne]
    obtain ⟨o, ho⟩ : ∃ o, parsePEL y.env c.cfg data = o := ⟨_, rfl⟩
    simp only [ho]
    cases o with
    | doc eid j =>
      have hj := prettyPrint_dumps_isEmpty 34 j
      have hl := prettyPrint_dumps_length 34 j
      have hl' := prettyPrint_dumps_length_eq 34 j
      cases hh : c.hex <;> cases h0 : fault 0 <;> cases h1 : fault 1 <;>
        simp [Outcome.isBadHeader, hj, hl, hl', hh, h0, h1, decodeResultOf, printedOf, cleanFileTrace, filePlan, runSteps, printOut, printHex,
          flushStdout, step, diag]
    | filtered => simp [Outcome.isBadHeader, decodeResultOf, printedOf, cleanFileTrace]
    | badHeader => cases eoe <;> simp [Outcome.isBadHeader, decodeResultOf, printedOf, cleanFileTrace]
    | error e => simp [Outcome.isBadHeader, decodeResultOf, printedOf, cleanFileTrace, diag])

/-- a file that cannot be opened: the exception is caught, reported (text pinned), `False` is returned; no step is performed -/
theorem parseAndPrintPELFile_unreadable (g : Sys → Text → CliOpts → Bool → M Bool) (h : Gen.parseAndPrintPELFile? = some g)
    (y : Sys) (path : Text) (c : CliOpts) (eoe : Bool) (fault : Nat → Bool) (hr : y.read path = none) :
    (g y path c eoe).run fault =
      (.ok false, { stderr := [s "Exception: No PEL parsed for " ++ path ++ s ": " ++ y.excStr .noFile] }) := by
  cases h <;> (
    simp [M.run, runFn, thenF, tryExcept, withOpenR, hr, diag, s])

/-- the diagnostic of `parseAndPrintPELFile` when decoding raises (text pinned) -/
theorem parseAndPrintPELFile_diagnostic (g : Sys → Text → CliOpts → Bool → M Bool) (h : Gen.parseAndPrintPELFile? = some g)
    (y : Sys) (path : Text) (c : CliOpts) (eoe : Bool) (fault : Nat → Bool) (data : Bytes) (hr : y.read path = some data)
    (e : Err) (he : parsePEL y.env c.cfg data = .error e) :
    ((g y path c eoe).run fault).2.stderr = [s "Exception: No PEL parsed for " ++ path ++ s ": " ++ y.excStr (.decode e)] := by
  cases h <;> (
    simp [M.run, runFn, thenF, tryExcept, withOpenR, hr, fdRead, pyParsePEL, he, diag, s])

/-- (`Tie.fileAfterPrint` of TieC11.lean, repeated here so that this module does not depend on the C11 tie) -/
theorem fileAfterPrint_guard (g : Args → Text → Bool → Option Text) (h : Gen.fileAfterPrint? = some g) :
    g = fun a f printed => (Action.fileMode f a.clean).afterPrint printed := by
  cases h <;> first
  | rfl
  | (funext a f printed; simp only [Action.afterPrint]; cases a.clean <;> cases printed <;> simp)

/-- the `-f` branch of `main()` after the `Config` block, from its two regenerated parts: `printed = parseAndPrintPELFile(args.file,
    config, True)`; `if args.clean and printed: os.remove(args.file)` (`Gen.fileAfterPrint?`, tied in TieC11) -/
def fileCommand (gp : Sys → Text → CliOpts → Bool → M Bool) (ga : Args → Text → Bool → Option Text)
    (y : Sys) (a : Args) (file : Text) (c : CliOpts) : M Unit :=
  gp y file c true >>= fun printed =>
    match ga a file printed with
    | some p => osRemove p none
    | none => pure ()

/-- ★ the `-f` branch as the source has it now performs, under every fault plan, exactly `cleanFileTrace`: print, flush, and — only with
    `--clean`, only after both succeeded — the removal of the `-f` file itself; and that file is removed iff the trace holds a successful
    `removeIn` -/
theorem file_command_trace (gp : Sys → Text → CliOpts → Bool → M Bool) (hp : Gen.parseAndPrintPELFile? = some gp)
    (ga : Args → Text → Bool → Option Text) (ha : Gen.fileAfterPrint? = some ga)
    (y : Sys) (a : Args) (file : Text) (c : CliOpts) (fault : Nat → Bool) (data : Bytes) (hr : y.read file = some data) :
    let d := decodeResultOf (fullOf y.env c.cfg { name := file, data := data })
    let r := (fileCommand gp ga y a file c).run fault
    r.2.trace = cleanFileTrace d a.clean fault ∧ r.2.unwind = [] ∧
    r.2.removed = (if inputRemoved r.2.trace then [(file, none)] else []) ∧ r.2.created = [] := by
  rw [fileAfterPrint_guard ga ha]
  cases hp <;> (
    simp only [fileCommand, M.run, runFn, thenF, tryExcept, withOpenR, hr, fdRead, run_bind, run_pure, pyParsePEL, fullOf,
      Action.afterPrint]
    obtain ⟨o, ho⟩ : ∃ o, parsePEL y.env c.cfg data = o := ⟨_, rfl⟩
    simp only [ho]
    cases o with
    | doc eid j =>
      have hj := prettyPrint_dumps_isEmpty 34 j
      have hl := prettyPrint_dumps_length 34 j
      have hl' := prettyPrint_dumps_length_eq 34 j
      cases hcl : a.clean <;> cases hh : c.hex <;> cases h0 : fault 0 <;> cases h1 : fault 1 <;> cases h2 : fault 2 <;>
        simp [hj, hl, hl', hh, h0, h1, h2, decodeResultOf, cleanFileTrace, filePlan, runSteps, printOut, printHex, flushStdout, osRemove, step,
          diag, inputRemoved]
    | filtered => simp [decodeResultOf, cleanFileTrace, inputRemoved]
    | badHeader => simp [decodeResultOf, cleanFileTrace, inputRemoved]
    | error e => simp [decodeResultOf, cleanFileTrace, diag, inputRemoved])

/-- C12 ★`file_remove_after_complete`, transported to the `-f` branch as regenerated: an attempt to remove the `-f` file appears only
    after the document was printed and stdout flushed, both without fault, and only with `--clean` -/
theorem translated_file_remove_after_complete (gp : Sys → Text → CliOpts → Bool → M Bool) (hp : Gen.parseAndPrintPELFile? = some gp)
    (ga : Args → Text → Bool → Option Text) (ha : Gen.fileAfterPrint? = some ga)
    (y : Sys) (a : Args) (file : Text) (c : CliOpts) (fault : Nat → Bool) (data : Bytes) (hr : y.read file = some data)
    (pre : List (Ev × Bool)) (hpre : pre <+: ((fileCommand gp ga y a file c).run fault).2.trace) (ok : Bool)
    (hrm : (Ev.removeIn, ok) ∈ pre) :
    decodeResultOf (fullOf y.env c.cfg { name := file, data := data }) = .doc ∧ a.clean = true ∧
    pre = [(Ev.print, true), (Ev.flushStdout, true), (Ev.removeIn, ok)] := by
  obtain ⟨h1, _⟩ := file_command_trace gp hp ga ha y a file c fault data hr
  rw [h1] at hpre
  exact C12.file_remove_after_complete _ a.clean fault pre hpre ok hrm

/-- ★ the `-f` branch as regenerated IS the model's `fileBranch` (PelModel/Top.lean), for every fault plan and every world in which the
    `-f` name reads as the world's `-f` file: same stdout, same number of diagnostics, same exit status, and the file is gone from the new
    world exactly when the regenerated code removed it -/
theorem file_command_is_fileBranch (gp : Sys → Text → CliOpts → Bool → M Bool) (hp : Gen.parseAndPrintPELFile? = some gp)
    (ga : Args → Text → Bool → Option Text) (ha : Gen.fileAfterPrint? = some ga)
    (y : Sys) (a : Args) (file : Text) (mc : MainCfg) (fault : Nat → Bool) (w : World) (hr : y.read file = w.file) :
    let r := (fileCommand gp ga y a file mc.opts).run fault
    let b := fileBranch fault y.env mc (.fileMode file a.clean) file w
    r.2.stdout = b.stdout ∧ r.2.stderr.length = b.diagnostics ∧ (cliOut r).exit = b.exit ∧
    b.world = (if r.2.removed = [] then w else { w with file := none }) := by
  rw [fileAfterPrint_guard ga ha]
  cases hp <;> (
    cases hw : w.file with
    | none =>
      rw [hw] at hr
      simp [fileCommand, fileBranch, hw, M.run, runFn, thenF, tryExcept, withOpenR, hr, diag, Action.afterPrint, cliOut, mainExit]
    | some data =>
      rw [hw] at hr
      simp only [fileCommand, fileBranch, hw, M.run, runFn, thenF, tryExcept, withOpenR, hr, fdRead, run_bind, run_pure, pyParsePEL, fullOf,
        printOne, Action.afterPrint, MainCfg.opts]
      obtain ⟨o, ho⟩ : ∃ o, parsePEL y.env mc.sel data = o := ⟨_, rfl⟩
      simp only [ho]
      cases o with
      | doc eid j =>
        have hj := prettyPrint_dumps_isEmpty 34 j
        have hl := prettyPrint_dumps_length 34 j
        have hl' := prettyPrint_dumps_length_eq 34 j
        cases hcl : a.clean <;> rcases Bool.eq_false_or_eq_true mc.hex with hh | hh <;> cases h0 : fault 0 <;> cases h1 : fault 1 <;> cases h2 : fault 2 <;>
          simp [hj, hl, hl', hh, h0, h1, h2, decodeResultOf, printedOf, printOut, printHex, flushStdout, osRemove, step, diag, cliOut, mainExit]
      | filtered => simp [decodeResultOf, printedOf, cliOut, mainExit]
      | badHeader => simp [decodeResultOf, printedOf, cliOut, mainExit]
      | error e => simp [decodeResultOf, printedOf, diag, cliOut, mainExit])

end Pel.Tie
