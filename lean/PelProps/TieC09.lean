import PelProps.TieC08
import PelProps.C09
/-
  Source tie for C09 (stream `dirmodes`): the ★ theorems of C09 about `--list`, `--all-pels` and `--show-pel-count` read with the
  functions REGENERATED from the source text of `listOption`, `extractAllPELsData` and `printPELCount` (PelGen/GenDirModes.lean),
  which PelProps/TieC08.lean proves equal to the model's modes.  (The look-up modes `--plid` / `--src` are tied in PelProps/TieC10.lean;
  their lemma library cannot be imported next to the one C09 uses, so their non-interference statements are not repeated here.)
-/
namespace Pel.Tie
open Pel.C09

/-- C09 ★`list_noninterference` for the translated `listOption`: a file that is not a selected decodable PEL changes neither what is
    printed nor the exit status; diagnostics only grow -/
theorem list_noninterference (g : Env → DirCfg → Dir → CliOut) (h : Gen.listOption? = some g)
    (env : Env) (c : DirCfg) (d1 d2 : Dir) (j : FileEntry)
    (hd : distinctNames (withJunk d1 j d2)) (hj : junkForSummary env c.opts.cfg j) :
    (g env c (withJunk d1 j d2)).stdout = (g env c (d1 ++ d2)).stdout ∧
    (g env c (withJunk d1 j d2)).exit = 0 ∧
    (g env c (d1 ++ d2)).stderrLines ≤ (g env c (withJunk d1 j d2)).stderrLines := by
  rw [listOption g h]; exact C09.list_noninterference env c.opts d1 d2 j hd hj

/-- C09 ★`all_noninterference` for the translated `extractAllPELsData` -/
theorem all_noninterference (g : Env → DirCfg → Dir → CliOut) (h : Gen.extractAllPELsData? = some g)
    (env : Env) (c : DirCfg) (d1 d2 : Dir) (j : FileEntry)
    (hd : distinctNames (withJunk d1 j d2)) (hj : junkForFull env c.opts.cfg j) :
    (g env c (withJunk d1 j d2)).stdout = (g env c (d1 ++ d2)).stdout ∧
    (g env c (withJunk d1 j d2)).exit = 0 := by
  rw [extractAllPELsData g h]; exact C09.all_noninterference env c.opts d1 d2 j hd hj

/-- C09 ★`count_noninterference` for the translated `printPELCount` -/
theorem count_noninterference (g : Env → DirCfg → Dir → CliOut) (h : Gen.printPELCount? = some g)
    (env : Env) (c : DirCfg) (d1 d2 : Dir) (j : FileEntry)
    (hd : distinctNames (withJunk d1 j d2)) (hj : junkForCount env c.opts.cfg j) :
    (g env c (withJunk d1 j d2)).stdout = (g env c (d1 ++ d2)).stdout ∧
    (g env c (withJunk d1 j d2)).exit = 0 := by
  rw [printPELCount g h]; exact C09.count_noninterference env c.opts d1 d2 j hd hj

/-- C09 ★`stdout_is_one_document` for the three translated modes: whatever the directory holds, stdout is one JSON document (one
    object, one framed list, one count) and the exit status is 0 -/
theorem stdout_is_one_document (gl ga gc : Env → DirCfg → Dir → CliOut)
    (hl : Gen.listOption? = some gl) (ha : Gen.extractAllPELsData? = some ga) (hc : Gen.printPELCount? = some gc)
    (env : Env) (c : DirCfg) (d : Dir) (hnohex : c.hex = false) :
    (∃ doc, (gl env c d).stdout = prettyPrint 29 (dumps doc) ++ nl) ∧
    (∃ docs : List J, (ga env c d).stdout = listFraming (docs.map fun x => prettyPrint 34 (dumps x))) ∧
    (∃ n, (gc env c d).stdout = s "{\n    \"Number of PELs found\": " ++ natDec n ++ s "\n}\n") ∧
    (gl env c d).exit = 0 ∧ (ga env c d).exit = 0 ∧ (gc env c d).exit = 0 := by
  rw [listOption gl hl, extractAllPELsData ga ha, printPELCount gc hc]
  exact C09.stdout_is_one_document env c.opts d hnohex

end Pel.Tie
