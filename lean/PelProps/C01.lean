namespace Pel.C01
end Pel.C01
