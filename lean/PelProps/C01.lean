import PelProofs.FramesPel
import PelProofs.PelPropsAux
import PelGen.Live
import PelProps.Golden
/-
  C01 — Every PEL section is decoded once, in order, from exactly its own bytes.
-/
namespace Pel.C01

/-! Pins: section ids and the published section names -/
theorem pin_ids :
    (∀ v ∈ Live.sid_privateHeader, v = sidPH) ∧ (∀ v ∈ Live.sid_userHeader, v = sidUH) ∧
    (∀ v ∈ Live.sid_primarySRC, v = sidPS) ∧ (∀ v ∈ Live.sid_secondarySRC, v = sidSS) ∧
    (∀ v ∈ Live.sid_extendedUserHeader, v = sidEH) ∧ (∀ v ∈ Live.sid_failingMTMS, v = sidMT) ∧
    (∀ v ∈ Live.sid_impactedPart, v = sidLP) ∧ (∀ v ∈ Live.sid_userData, v = sidUD) ∧
    (∀ v ∈ Live.sid_extUserData, v = sidED) := by decide
/-- every published two-character type still maps to the same display name in the live table -/
theorem pin_section_names : ∀ p ∈ Golden.sectionNames, ∀ live ∈ Live.sectionNames, lookupT live p.1 = some p.2 := by decide

/-- ★ each entry is decoded from exactly the bytes its section header delimits: whatever follows the section
    (`rest` – a section of any type, or anything else) is left untouched -/
theorem frame_section (env : Env) (creator : Text) (sec : ASection) (hs : sec.WF) (j : J)
    (hr : renderSection env creator sec = .ok j) (rest : Bytes) :
    decodeOne env creator (sec.enc ++ rest) = .ok ((sectionName env.T sec.body.id, j), rest) :=
  (frames_section env creator sec hs j hr).exact rest

/-- the display names of a PEL's optional sections, in log order -/
def names (env : Env) (p : APel) : List Text := p.sections.map (fun sec => sectionName env.T sec.body.id)

/-- ★ a well-formed, selected PEL decodes to exactly the prescribed document, whatever trails the PEL -/
theorem decode_encode (env : Env) (cfg : SelCfg) (p : APel) (hp : p.WF)
    (hsel : considerPEL p.uh.sev p.uh.af cfg = true) (d : J) (hr : render env p = .ok d)
    (hnames : (sectionName env.T sidPH :: sectionName env.T sidUH :: numberNames (names env p) (names env p)).Nodup)
    (trailing : Bytes) :
    parsePEL env cfg (p.enc ++ trailing) = .doc (fmtHex 2 p.ph.eid) d := by
  have h := (frames_pel env cfg p hp hsel d hr hnames).exact trailing
  simp only [parsePEL, h]

/-- ★ exactly one top-level entry per section, in log order, under the numbered display names -/
theorem entries (env : Env) (p : APel) (d : J) (hr : render env p = .ok d) :
    ∃ l, d = .obj l ∧ l.length = p.sections.length + 2 ∧
      l.map (·.1) = sectionName env.T sidPH :: sectionName env.T sidUH :: numberNames (names env p) (names env p) := by
  cases hjs : exceptAll (p.sections.map (renderSection env [p.ph.creator])) with
  | error e => simp [render, hjs] at hr
  | ok js =>
    simp only [render, hjs, Except.ok.injEq] at hr
    subst hr
    have hjl : js.length = p.sections.length := by
      simpa using exceptAll_length _ _ hjs
    have hnl : (numberNames (names env p) (names env p)).length = js.length := by
      rw [numberNames_length, hjl]; simp [names]
    refine ⟨_, rfl, ?_, ?_⟩
    · simp only [List.length_append, List.length_zip, List.length_cons, List.length_nil]
      change _ + min (numberNames (names env p) (names env p)).length _ = _
      rw [hnl]; omega
    · have := List.map_fst_zip (l₁ := numberNames (names env p) (names env p)) (l₂ := js) (by omega)
      simp only [List.map_cons, List.cons_append, List.nil_append]
      rw [← this]; rfl

/-- ★ the numbering rule: a name that occurs once stays bare; a name that occurs more than once gets " k" where k
    counts its earlier occurrences (0,1,2… in order of appearance) -/
theorem numbering_rule (all : List Text) :
    (numberNames all all).length = all.length ∧
    ∀ i (h : i < all.length), (numberNames all all)[i]? =
      some (if (all.filter (· == all[i])).length = 1 then all[i]
            else all[i] ++ [32] ++ natDec ((all.take i).filter (· == all[i])).length) := by
  refine ⟨numberNames_length all all, ?_⟩
  intro i h
  have := numberNames_getElem? all [] i h
  simpa using this

/-- entries are named after the two-character type; unrecognised types are called Unknown -/
theorem name_of_id (T : Tables) (id : Nat) :
    sectionName T id = (lookupT T.sectionNames [(id / 256) % 256, id % 256]).getD (s "Unknown") := rfl

/-- a PEL that the options do not select yields no document (and is not an error) -/
theorem not_selected (env : Env) (cfg : SelCfg) (p : APel) (hp : p.WF)
    (hsel : considerPEL p.uh.sev p.uh.af cfg = false) (trailing : Bytes) :
    parsePEL env cfg (p.enc ++ trailing) = .filtered := by
  obtain ⟨hph, huh, hlen, hsecs⟩ := hp
  have f1 := frames_parseHeader sidPH 40 p.ph.hdr hph.1 (by decide) (by decide)
  have f2 := frames_PH env.T p.ph hph (p.sections.length + 2) (by omega) (8 + 40)
  have f3 := frames_parseHeader sidUH 16 p.uh.hdr huh.1 (by decide) (by decide)
  have f4 := frames_UH env.T p.uh huh [p.ph.creator] (8 + 16)
  have hf : Frames (parsePELRd env cfg) (encHdr sidPH 40 p.ph.hdr ++ (p.ph.encBody (p.sections.length + 2) ++
      (encHdr sidUH 16 p.uh.hdr ++ (p.uh.encBody ++ [])))) .filtered := by
    unfold parsePELRd
    refine Frames.bind f1 ?_
    simp only [mkSecHdr, ne_eq, not_true_eq_false, if_false]
    refine Frames.bind f2 ?_
    simp only
    refine Frames.bind f3 ?_
    simp only [mkSecHdr, not_true_eq_false, if_false]
    refine Frames.bind f4 ?_
    simp only [hsel, Bool.not_false, if_true]
    exact Frames.pure _
  have e : p.enc ++ trailing = (encHdr sidPH 40 p.ph.hdr ++ (p.ph.encBody (p.sections.length + 2) ++
      (encHdr sidUH 16 p.uh.hdr ++ (p.uh.encBody ++ [])))) ++ (p.sections.flatMap (·.enc) ++ trailing) := by
    simp [APel.enc]
  rw [e]
  simp only [parsePEL, hf.exact _]

/-! Non-vacuity: a well-formed PEL with sections PS, UD, UD, ZZ (unknown), MT whose names are numbered. -/
def demoHdr : AHdr := { ver := 1, sub := 0, comp := 0x2000 }
def demoSrc : ASrc :=
  { version := 2, flagsHi := 0, resv1 := 0, wordCount := 9, resv2 := 0, size := 72,
    words := [0x55, 0, 0, 0, 0, 0, 0, 0], ascii := s "BD8D1234                        ", callouts := none }
def demoPH : APH :=
  { hdr := demoHdr, create := [0x20,0x24,3,8,0x18,0x40,0x27,0], commit := [0x20,0x24,3,8,0x18,0x40,0x27,0], creator := 79,
    resv0 := 0, resv1 := 0, obmc := 1, cver := 0, plid := 0x50000001, eid := 0x50000001 }
def demoUH : AUH :=
  { hdr := demoHdr, subsys := 0x8D, scope := 3, sev := 0x40, etype := 0, resv := 0, pd := 0, pv := 0, af := 0xA000, states := 0 }
def demoPel : APel :=
  { ph := demoPH, uh := demoUH,
    sections := [
      { hdr := demoHdr, body := .src true demoSrc },
      { hdr := { ver := 1, sub := 3, comp := 0x2000 }, body := .ud (s "hello") },
      { hdr := { ver := 1, sub := 3, comp := 0x2000 }, body := .ud (s "world") },
      { hdr := demoHdr, body := .other 0x5A5A [1, 2, 3] },
      { hdr := demoHdr, body := .mt { mtm := s "9105-22A", sn := s "SN1234567890" } }] }

example : numberNames [s "Primary SRC", s "User Data", s "User Data", s "Unknown", s "Failing MTMS"]
                      [s "Primary SRC", s "User Data", s "User Data", s "Unknown", s "Failing MTMS"] =
    [s "Primary SRC", s "User Data 0", s "User Data 1", s "Unknown", s "Failing MTMS"] := by decide

theorem demo_wf : demoPel.WF := by
  have hs1 : s "BD8D1234                        " = [66, 68, 56, 68, 49, 50, 51, 52, 32,32,32,32,32,32,32,32,32,32,32,32,32,32,32,32,32,32,32,32,32,32,32,32] := by decide
  have hs2 : s "hello" = [104, 101, 108, 108, 111] := by decide
  have hs3 : s "world" = [119, 111, 114, 108, 100] := by decide
  have hs4 : s "9105-22A" = [57, 49, 48, 53, 45, 50, 50, 65] := by decide
  have hs5 : s "SN1234567890" = [83, 78, 49, 50, 51, 52, 53, 54, 55, 56, 57, 48] := by decide
  simp only [APel.WF, APH.WF, AUH.WF, AHdr.WF, demoPel, demoPH, demoUH, demoHdr, demoSrc, List.forall_mem_cons,
    ASection.WF, ABody.WF, ASrc.WF, AMT.WF, isAscii, ABody.enc, ASrc.encBody, AMT.encBody, hs1, hs2, hs3, hs4, hs5]
  simp [toBE, isSpecialId, sidPH, sidUH, sidPS, sidSS, sidEH, sidMT, sidLP, sidUD, sidED]

end Pel.C01
