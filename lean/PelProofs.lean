import PelProofs.Basic
