import PelModel
/-
  Line-protocol driver: runs the executable model (and the declarative specs) on
  requests written by the Python harness.  One request per line, one reply per line.
-/
open Pel Pel.Proto

def fmtOf (k : Nat) : Text := if k = 0 then fmtDefault else if k = 1 then fmtBmc else fmtPre

def pSelCfg : P SelCfg := do
  let every ← pBool; let term ← pBool; let sv ← pBool; let ns ← pBool; let hd ← pBool
  let only ← pBool; let lookup ← pBool; let sevs ← pList pNum
  pure { every, term, serviceable := sv, nonServiceable := ns, hidden := hd, only, severities := sevs, lookup }

def bits (f : Nat → Bool) (n : Nat) : String := String.ofList ((List.range n).map fun i => if f i then '1' else '0')

structure DrvState where
  tbls : Array (List PteEntry) := #[]
  strs : Array (List TraceString) := #[]
  flds : Array (List HlogField) := #[]

def pPte : P PteEntry := do
  let pattern ← pText; let fmt ← pText; let params ← pList pNum
  pure { pattern, fmt, params }
def pTraceString : P TraceString := do
  let hash ← pNum; let fmt ← pText; let location ← pText
  pure { hash, fmt, location }
def pField : P HlogField := do
  let n ← pText; let sz ← pNum
  pure (n, sz)

def outOptLines (o : Option (List Text)) : String :=
  match o with
  | some ls => "ok " ++ outLines ls
  | none => "unsupported format"

def tblSupported (t : List PteEntry) : Bool := t.all (fun e => patternSupported e.pattern)

/-- requests that read or extend the driver state (tables are sent once and referred to by index) -/
def handleSt (st : DrvState) (op : String) : P (DrvState × String) :=
  match op with
  | "deftbl" => do
      let t ← pList pPte; pEnd
      pure ({ st with tbls := st.tbls.push t }, s!"ok {st.tbls.size}")
  | "defstr" => do
      let t ← pList pTraceString; pEnd
      pure ({ st with strs := st.strs.push t }, s!"ok {st.strs.size}")
  | "deffld" => do
      let t ← pList pField; pEnd
      pure ({ st with flds := st.flds.push t }, s!"ok {st.flds.size}")
  | "ilog" => do
      let i ← pNum; let b ← pBytes; pEnd
      let t := st.tbls[i]!
      if !tblSupported t then pure (st, "unsupported pattern") else
      pure (st, outOptLines (parseIlog t b))
  | "ilogspec" => do
      -- entries (ts seq pte)* and a tail: encoded bytes, model output, spec output
      let i ← pNum
      let es ← pList (do let ts ← pNum; let seq ← pNum; let pte ← pNum; pure ({ ts, seq, pte } : IlogEntry))
      let tail ← pBytes; pEnd
      let t := st.tbls[i]!
      if !tblSupported t then pure (st, "unsupported pattern") else
      let b := es.flatMap IlogEntry.enc ++ tail
      match parseIlog t b, specIlog t es with
      | some m, some sp => pure (st, "ok " ++ outBytes b ++ " " ++ outLines m ++ " " ++ outLines sp)
      | _, _ => pure (st, "unsupported format")
  | "ptematch" => do
      let i ← pNum; let pte ← pNum; pEnd
      let t := st.tbls[i]!
      if !tblSupported t then pure (st, "unsupported pattern") else
      match getEntry t pte with
      | none => pure (st, "ok 0")
      | some e => match pteMessage e pte with
        | some m => pure (st, "ok 1 " ++ outText e.pattern ++ " " ++ outText m)
        | none => pure (st, "unsupported format")
  | "hlog" => do
      let i ← pNum; let b ← pBytes; pEnd
      let f := st.flds[i]!
      if f.any (fun x => x.2 = 0) then pure (st, "err assert") else
      pure (st, "ok " ++ outLines (parseHlog f b) ++ " " ++ outLines (specHlogFields f b))
  | "trace" => do
      let i ← pNum; let b ← pBytes; pEnd
      pure (st, outOptLines (parseTrace st.strs[i]! b))
  | "tracespec" => do
      -- abstract header + well-formed entries (+ pad bytes) + trailing bytes: encoding, model output, spec output
      let i ← pNum
      let ver ← pNum; let hdrLen ← pNum; let timeFlg ← pNum; let endianFlg ← pNum
      let comp ← pBytes; let reserved ← pBytes; let size ← pNum; let timesWrap ← pNum; let nextFree ← pNum
      let es ← pList (do
        let tbh ← pNum; let tbl ← pNum; let tag ← pNum; let hash ← pNum; let line ← pNum; let data ← pBytes
        let pad ← pBytes
        pure (({ tbh, tbl, length := data.length, tag, hash, line, data } : TraceEntry), pad))
      let trailing ← pBytes; pEnd
      let h : TraceHeaderRaw := { ver, hdrLen, timeFlg, endianFlg, comp, reserved, size, timesWrap, nextFree }
      let b := h.enc ++ es.flatMap (fun (e, pad) => e.enc pad) ++ trailing
      match parseTrace st.strs[i]! b, specTrace st.strs[i]! h (es.map (·.1)) with
      | some m, some sp => pure (st, "ok " ++ outBytes b ++ " " ++ outLines m ++ " " ++ outLines sp)
      | _, _ => pure (st, "unsupported format")
  | "tracestr" => do
      let i ← pNum; let h ← pNum; pEnd
      match getTraceString st.strs[i]! h with
      | none => pure (st, "ok 0")
      | some t => pure (st, "ok 1 " ++ outNum t.hash ++ " " ++ outText t.fmt ++ " " ++ outText t.location)
  | "dump" => do
      let i ← pNum; let j ← pNum; let b ← pBytes; pEnd
      let t := st.tbls[i]!
      if !tblSupported t then pure (st, "unsupported pattern") else
      let offs := bufferOffsets b
      let regs := ilogRegion b offs :: traceRegions b offs
      match parseDumpData t st.strs[j]! b with
      | some ls => pure (st, "ok " ++ outLines ls ++ " " ++ outList outBytes regs)
      | none => pure (st, "unsupported format")
  | "dumpfile" => do
      let i ← pNum; let j ← pNum; let ls ← pList pText; pEnd
      let t := st.tbls[i]!
      if !tblSupported t then pure (st, "unsupported pattern") else
      pure (st, outOptLines (parseDumpFile t st.strs[j]! ls))
  | _ => failure

def handle (op : String) : P String :=
  match op with
  | "ping" => pure "ok pong"
  | "fmt" => do
      let f ← pText; let args ← pList pNum; pEnd
      match pyFmt f args with
      | .ok t => pure ("ok 1 " ++ outText t)
      | .error => pure "ok 0"
      | .unsupported => pure "unsupported format"
  | "dumps" => do
      let d ← pJ; pEnd
      pure ("ok " ++ outText (dumps d))
  | "pp" => do
      let desired ← pNum; let t ← pText; pEnd
      pure ("ok " ++ outText (prettyPrint desired t))
  | "ppdoc" => do
      let desired ← pNum; let d ← pJ; pEnd
      pure ("ok " ++ outText (prettyPrint desired (dumps d)))
  | "loads" => do
      let t ← pText; pEnd
      match loads t with
      | .ok v => pure ("ok " ++ outJ v)
      | .bad => pure "ok-bad"
      | .unsupported => pure "unsupported float"
  | "utf8" => do
      let b ← pBytes; pEnd
      match utf8Decode b with
      | some t => pure ("ok 1 " ++ outText t)
      | none => pure "ok 0"
  | "timestamp" => do
      let t ← pNum; pEnd
      pure ("ok " ++ outText (formatTimestamp t))
  | "hexdump" => do
      let l ← pNum; let c ← pNum; let b ← pBytes; pEnd
      if 1 ≤ l ∧ l ≤ 256 ∧ 1 ≤ c ∧ c ≤ 256 then pure ("ok " ++ outLines (hexdump l c b))
      else pure "err assert"
  | "hexparse" => do
      let k ← pNum; let ls ← pList pText; pEnd
      pure ("ok " ++ outBytes (parseDump (fmtOf k) ls))
  | "hexparsefmt" => do
      let f ← pText; let ls ← pList pText; pEnd
      if pairedD f then pure ("ok " ++ outBytes (parseDump f ls)) else pure "unsupported unpaired-D"
  | "render" => do
      let k ← pNum; let pad ← pBool; let b ← pBytes; pEnd
      pure ("ok " ++ outLines (if k = 1 then renderBmc pad b else renderPre pad b))
  | "pelhex" => do
      let b ← pBytes; pEnd
      pure ("ok " ++ outLines (pelHexDisplay b))
  | "selrow" => do
      let af ← pNum; let c ← pSelCfg; pEnd
      pure ("ok " ++ bits (fun sv => considerPEL sv af c) 256 ++ " " ++ bits (fun sv => selected sv af c) 256)
  | _ => pure ("err unknown-op " ++ op)

def handleLine (st : DrvState) (line : String) : DrvState × String :=
  match tokenize line with
  | .word op :: rest =>
    match (handleSt st op).run rest with
    | some ((st', r), _) => (st', r)
    | none =>
      match (handle op).run rest with
      | some (r, _) => (st, r)
      | none => (st, "err bad-request")
  | _ => (st, "err bad-request")

partial def loop (hin : IO.FS.Stream) (hout : IO.FS.Stream) (st : DrvState) : IO Unit := do
  let line ← hin.getLine
  if line.isEmpty then return ()
  let l := (line.dropEndWhile (fun c => c == '\n' || c == '\r')).toString
  let (st', r) := handleLine st l
  hout.putStrLn r
  loop hin hout st'

def main : IO Unit := do
  let hin ← IO.getStdin
  let hout ← IO.getStdout
  loop hin hout {}
  hout.flush
