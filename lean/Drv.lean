import PelModel
/-
  Line-protocol driver: runs the executable model (and the declarative specs) on
  requests written by the Python harness.  One request per line, one reply per line.
-/
open Pel Pel.Proto

def fmtOf (k : Nat) : Text := if k = 0 then fmtDefault else if k = 1 then fmtBmc else fmtPre

def pSelCfg : P SelCfg := do
  let every ← pBool; let term ← pBool; let sv ← pBool; let ns ← pBool; let hd ← pBool
  let only ← pBool; let lookup ← pBool; let sevs ← pList pNum
  pure { every, term, serviceable := sv, nonServiceable := ns, hidden := hd, only, severities := sevs, lookup }

def bits (f : Nat → Bool) (n : Nat) : String := String.ofList ((List.range n).map fun i => if f i then '1' else '0')

def handle (op : String) : P String :=
  match op with
  | "ping" => pure "ok pong"
  | "hexdump" => do
      let l ← pNum; let c ← pNum; let b ← pBytes; pEnd
      if 1 ≤ l ∧ l ≤ 256 ∧ 1 ≤ c ∧ c ≤ 256 then pure ("ok " ++ outLines (hexdump l c b))
      else pure "err assert"
  | "hexparse" => do
      let k ← pNum; let ls ← pList pText; pEnd
      pure ("ok " ++ outBytes (parseDump (fmtOf k) ls))
  | "hexparsefmt" => do
      let f ← pText; let ls ← pList pText; pEnd
      if pairedD f then pure ("ok " ++ outBytes (parseDump f ls)) else pure "unsupported unpaired-D"
  | "render" => do
      let k ← pNum; let pad ← pBool; let b ← pBytes; pEnd
      pure ("ok " ++ outLines (if k = 1 then renderBmc pad b else renderPre pad b))
  | "pelhex" => do
      let b ← pBytes; pEnd
      pure ("ok " ++ outLines (pelHexDisplay b))
  | "selrow" => do
      let af ← pNum; let c ← pSelCfg; pEnd
      pure ("ok " ++ bits (fun sv => considerPEL sv af c) 256 ++ " " ++ bits (fun sv => selected sv af c) 256)
  | _ => pure ("err unknown-op " ++ op)

def handleLine (line : String) : String :=
  match tokenize line with
  | .word op :: rest =>
    match (handle op).run rest with
    | some (r, _) => r
    | none => "err bad-request"
  | _ => "err bad-request"

partial def loop (hin : IO.FS.Stream) (hout : IO.FS.Stream) : IO Unit := do
  let line ← hin.getLine
  if line.isEmpty then return ()
  let l := (line.dropEndWhile (fun c => c == '\n' || c == '\r')).toString
  hout.putStrLn (handleLine l)
  if l == "flush" then hout.flush
  loop hin hout

def main : IO Unit := do
  let hin ← IO.getStdin
  let hout ← IO.getStdout
  loop hin hout
  hout.flush
