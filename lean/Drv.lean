import PelModel
import PelGen.Live
/-
  Line-protocol driver: runs the executable model (and the declarative specs) on
  requests written by the Python harness.  One request per line, one reply per line.
-/
open Pel Pel.Proto

def fmtOf (k : Nat) : Text := if k = 0 then fmtDefault else if k = 1 then fmtBmc else fmtPre

def pSelCfg : P SelCfg := do
  let every ← pBool; let term ← pBool; let sv ← pBool; let ns ← pBool; let hd ← pBool
  let only ← pBool; let lookup ← pBool; let sevs ← pList pNum
  pure { every, term, serviceable := sv, nonServiceable := ns, hidden := hd, only, severities := sevs, lookup }

def bits (f : Nat → Bool) (n : Nat) : String := String.ofList ((List.range n).map fun i => if f i then '1' else '0')

def liveTables (compIds : List (Text × List (Text × Text))) : Tables :=
  { creators := Live.creatorIDs.getD [], sectionNames := Live.sectionNames.getD [],
    subsystems := Live.subsystemValues.getD [], severities := Live.severityValues.getD [],
    eventTypes := Live.eventTypeValues.getD [], eventScopes := Live.eventScopeValues.getD [],
    actionFlags := Live.actionFlagsValues.getD [], transStates := Live.transmissionStates.getD [],
    failingCompTypes := Live.failingComponentType.getD [], calloutPriorities := Live.calloutPriorityValues.getD [],
    compIds := compIds }

def defaultEnv : Env :=
  { T := liveTables [], ud := fun _ => .absent, src := { callout := fun _ => .absent, src := fun _ => .absent },
    allowPlugins := true }

structure DrvState where
  tbls : Array (List PteEntry) := #[]
  strs : Array (List TraceString) := #[]
  flds : Array (List HlogField) := #[]
  env : Env := defaultEnv
  chips : List ChipData := []

def pAHdr : P AHdr := do let ver ← pNum; let sub ← pNum; let comp ← pNum; pure { ver, sub, comp }
def pAPH : P APH := do
  let hdr ← pAHdr; let create ← pBytes; let commit ← pBytes; let creator ← pNum; let resv0 ← pNum; let resv1 ← pNum
  let obmc ← pNum; let cver ← pNum; let plid ← pNum; let eid ← pNum
  pure { hdr, create, commit, creator, resv0, resv1, obmc, cver, plid, eid }
def pAUH : P AUH := do
  let hdr ← pAHdr; let subsys ← pNum; let scope ← pNum; let sev ← pNum; let etype ← pNum; let resv ← pNum
  let pd ← pNum; let pv ← pNum; let af ← pNum; let states ← pNum
  pure { hdr, subsys, scope, sev, etype, resv, pd, pv, af, states }
def pACallout : P ACallout := do
  let flags ← pNum; let priority ← pNum; let loc ← pBytes
  let ff ← pNum; let pn ← pBytes; let ccin ← pBytes; let sn ← pBytes
  let hasPce ← pBool
  let pce ← if hasPce then (do
      let flags ← pNum; let mtm ← pBytes; let sn ← pBytes; let name ← pBytes
      pure (some ({ flags, mtm, sn, name } : APce))) else pure none
  let hasMru ← pBool
  let mru ← if hasMru then (do
      let flagsHi ← pNum; let resv ← pNum
      let items ← pList (do let a ← pNum; let b ← pNum; pure (a, b))
      pure (some ({ flagsHi, resv, items } : AMru))) else pure none
  pure { flags, priority, loc, fru := { flags := ff, pn, ccin, sn }, pce, mru }
def pASection : P ASection := do
  let kind ← pWord
  let hdr ← pAHdr
  match kind with
  | "src" => do
      let primary ← pBool
      let version ← pNum; let flagsHi ← pNum; let resv1 ← pNum; let wordCount ← pNum; let resv2 ← pNum; let size ← pNum
      let words ← pList pNum; let ascii ← pBytes
      let has ← pBool
      let callouts ← if has then (do
          let subId ← pNum; let subFlags ← pNum; let cs ← pList pACallout
          pure (some ({ subId, subFlags, callouts := cs } : ACalloutSec))) else pure none
      pure { hdr, body := .src primary { version, flagsHi, resv1, wordCount, resv2, size, words, ascii, callouts } }
  | "eh" => do
      let mtm ← pBytes; let sn ← pBytes; let fw ← pBytes; let subfw ← pBytes; let resv ← pNum
      let refTime ← pBytes; let resv3 ← pBytes; let sym ← pBytes
      pure { hdr, body := .eh { mtm, sn, fw, subfw, resv, refTime, resv3, sym } }
  | "mt" => do let mtm ← pBytes; let sn ← pBytes; pure { hdr, body := .mt { mtm, sn } }
  | "lp" => do
      let primary ← pNum; let logId ← pNum; let name ← pBytes; let targets ← pList pNum; let pad ← pNum
      pure { hdr, body := .lp { primary, logId, name, targets, pad } }
  | "ud" => do let p ← pBytes; pure { hdr, body := .ud p }
  | "ed" => do let c ← pNum; let r1 ← pNum; let r2 ← pNum; let p ← pBytes; pure { hdr, body := .ed c r1 r2 p }
  | "other" => do let id ← pNum; let p ← pBytes; pure { hdr, body := .other id p }
  | _ => failure
def pAPel : P APel := do
  let ph ← pAPH; let uh ← pAUH; let sections ← pList pASection
  pure { ph, uh, sections }

def pOpt {α} (p : P α) : P (Option α) := do
  let has ← pBool
  if has then (do let x ← p; pure (some x)) else pure none
def pTT : P (Text × Text) := do let a ← pText; let b ← pText; pure (a, b)
def pT3 : P (Text × Text × List (Text × Text)) := do let a ← pText; let b ← pText; let l ← pList pTT; pure (a, b, l)
def pChip : P ChipData := do
  let id ← pText; let type ← pOpt pText; let desc ← pOpt pText
  let attnTypes ← pOpt (pList pTT); let signatures ← pOpt (pList pT3); let registers ← pOpt (pList pT3)
  pure { id, type, desc, attnTypes, signatures, registers }

def pUdPlugin : P UdPlugin := do
  let k ← pWord
  match k with
  | "absent" => pure .absent
  | "echo" => pure .echo
  | "raises" => do let m ← pText; pure (.raises m)
  | "importraises" => do let m ← pText; pure (.importRaises m)
  | "none" => pure .returnsNone
  | "text" => do let t ← pText; pure (.returnsText t)
  | _ => failure
def pSrcPlugin : P SrcPlugin := do
  let k ← pWord
  match k with
  | "absent" => pure .absent
  | "echo" => pure .echo
  | "raises" => pure .raises
  | "text" => do let t ← pText; pure (.returnsText t)
  | _ => failure
def pCalloutPlugin : P CalloutPlugin := do
  let k ← pWord
  match k with
  | "absent" => pure .absent
  | "raises" => pure .raises
  | "table" => do
      let t ← pList (do let k ← pText; let ls ← pList pText; pure (k, ls))
      pure (.table t)
  | _ => failure

/-- one registry entry: reasonCode? type? message argSources? (num desc? prop?)* -/
def pRegEntry : P RegEntry := do
  let reasonCode ← pOpt pText; let type ← pOpt pText; let message ← pText
  let argSources ← pOpt (pList pText)
  let words ← pList (do let num ← pText; let desc ← pOpt pText; let prop ← pOpt pText; pure ({ num, desc, prop } : RegWord))
  pure { reasonCode, type, message, argSources, words }

def lookupFn {β} (l : List (Text × β)) (dflt : β) : Text → β := fun k =>
  match l.find? (fun p => p.1 == k) with
  | some (_, v) => v
  | none => dflt

def outErr : Err → String
  | .range => "range" | .assert => "assert" | .decode => "decode" | .other => "other" | .unsupported => "unsupported"
def outOutcome : Outcome → String
  | .doc eid d => "D " ++ outText eid ++ " " ++ outJ d
  | .filtered => "F"
  | .badHeader => "B"
  | .error .unsupported => "U"
  | .error e => "E " ++ outErr e
def outExcJ : Except Err J → String
  | .ok d => "D " ++ outJ d
  | .error .unsupported => "U"
  | .error e => "E " ++ outErr e

def pPte : P PteEntry := do
  let pattern ← pText; let fmt ← pText; let params ← pList pNum
  pure { pattern, fmt, params }
def pTraceString : P TraceString := do
  let hash ← pNum; let fmt ← pText; let location ← pText
  pure { hash, fmt, location }
def pField : P HlogField := do
  let n ← pText; let sz ← pNum
  pure (n, sz)

def outOptLines (o : Option (List Text)) : String :=
  match o with
  | some ls => "ok " ++ outLines ls
  | none => "unsupported format"

def tblSupported (t : List PteEntry) : Bool := t.all (fun e => patternSupported e.pattern)

/-- requests that read or extend the driver state (tables are sent once and referred to by index) -/
def handleSt (st : DrvState) (op : String) : P (DrvState × String) :=
  match op with
  | "deftbl" => do
      let t ← pList pPte; pEnd
      pure ({ st with tbls := st.tbls.push t }, s!"ok {st.tbls.size}")
  | "defstr" => do
      let t ← pList pTraceString; pEnd
      pure ({ st with strs := st.strs.push t }, s!"ok {st.strs.size}")
  | "deffld" => do
      let t ← pList pField; pEnd
      pure ({ st with flds := st.flds.push t }, s!"ok {st.flds.size}")
  -- the same three, but from the LINES of a header / string file through the model's loaders (Loaders.lean); an index is
  -- allocated in every case (empty table when the file is outside the modelled subset) so that indices stay predictable
  | "deftblfile" => do
      let ls ← pList pText; pEnd
      match loadPteTable ls with
      | some t => pure ({ st with tbls := st.tbls.push t }, s!"ok {st.tbls.size}")
      | none => pure ({ st with tbls := st.tbls.push [] }, s!"unsupported loader {st.tbls.size}")
  | "defstrfile" => do
      let ls ← pList pText; pEnd
      match loadTraceStrings ls with
      | some t => pure ({ st with strs := st.strs.push t }, s!"ok {st.strs.size}")
      | none => pure ({ st with strs := st.strs.push [] }, s!"unsupported loader {st.strs.size}")
  | "deffldfile" => do
      let ls ← pList pText; pEnd
      match loadHlogFields ls with
      | some t => pure ({ st with flds := st.flds.push t }, s!"ok {st.flds.size}")
      | none => pure ({ st with flds := st.flds.push [] }, s!"unsupported loader {st.flds.size}")
  | "setenv" => do
      -- allowPlugins, component-id files, ud / src / callout plugin behaviours (everything else: absent), message registry
      let allow ← pBool
      let compIds ← pList (do let c ← pText; let m ← pList (do let k ← pText; let v ← pText; pure (k, v)); pure (c, m))
      let uds ← pList (do let n ← pText; let b ← pUdPlugin; pure (n, b))
      let srcs ← pList (do let n ← pText; let b ← pSrcPlugin; pure (n, b))
      let cos ← pList (do let n ← pText; let b ← pCalloutPlugin; pure (n, b))
      -- optional trailing message registry (a line that ends here means: empty registry)
      let reg ← (pList pRegEntry <|> pure [])
      pEnd
      let env : Env := { T := liveTables compIds, ud := lookupFn uds .absent,
                         src := { callout := lookupFn cos .absent, src := lookupFn srcs .absent, registry := reg },
                         allowPlugins := allow }
      pure ({ st with env := env }, "ok")
  | "defchips" => do
      let cs ← pList pChip; pEnd
      pure ({ st with chips := cs }, "ok")
  | "sig" => do
      let a ← pText; let b ← pText; let c ← pText; pEnd
      pure (st, "ok " ++ outJ (getSignature st.chips a b c) ++ " " ++
        outJ (specSignatureNoData (parseHexText a) (parseHexText b) (parseHexText c)))
  | "oe500ud" => do
      let sub ← pNum; let data ← pBytes; pEnd
      match oe500Ud st.chips sub data with
      | .json j => pure (st, "ok " ++ outJ j)
      | .raises => pure (st, "ok-raises")
      | .unsupported => pure (st, "unsupported float")
  | "oe500src" => do
      let rc ← pText; let w6 ← pText; let w7 ← pText; let w8 ← pText; pEnd
      pure (st, "ok " ++ outJ (oe500Src st.chips rc w6 w7 w8))
  | "cli" => do
      let mode ← pWord
      let cfg ← pSelCfg; let hex ← pBool; let rev ← pBool; let ext ← pOpt pText
      let arg ← pText; let flag ← pBool
      let d ← pList (do let name ← pText; let data ← pBytes; pure ({ name, data } : FileEntry))
      pEnd
      let o : CliOpts := { cfg, hex, rev, ext }
      let outC (c : CliOut) : String := outText c.stdout ++ " " ++ outNum c.stderrLines ++ " " ++ outNum c.exit
      let names (l : Dir) : String := outList outText (l.map (·.name))
      match mode with
      | "list" => pure (st, "ok " ++ outC (listMode st.env o d))
      | "count" => pure (st, "ok " ++ outC (countMode st.env o d))
      | "all" => pure (st, "ok " ++ outC (allMode st.env o d))
      | "plid" => pure (st, "ok " ++ outC (plidMode st.env o arg d))
      | "src" => pure (st, "ok " ++ outC (srcMode st.env o (some arg) none d))
      | "srcex" => pure (st, "ok " ++ outC (srcMode st.env o none (some arg) d))
      | "id" => pure (st, "ok " ++ outC (idMode st.env o arg d))
      | "bmcid" => pure (st, "ok " ++ outC (bmcIdMode st.env o arg d))
      | "delete" => let (c, d') := deleteMode arg d; pure (st, "ok " ++ outC c ++ " " ++ names d')
      | "deleteall" => let (c, d') := deleteAllMode d; pure (st, "ok " ++ outC c ++ " " ++ names d')
      | "json" =>
        let e := jsonMode st.env o flag d
        pure (st, "ok " ++ outList (fun p => outText p.1 ++ " " ++ outText p.2) e.created ++ " " ++ outList outText e.removed ++ " " ++ outNum e.stderrLines)
      | _ => failure
  | "m2c00" => do
      -- drawers: (version, table index, strings index, fields index)*
      let ds ← pList (do let v ← pNum; let i ← pNum; let j ← pNum; let k ← pNum; pure (v, i, j, k))
      let sub ← pNum; let ver ← pNum; let data ← pBytes; pEnd
      let drawers : List DrawerTables := ds.map fun (v, i, j, k) => { version := v, pte := st.tbls[i]!, strs := st.strs[j]!, fields := st.flds[k]! }
      match m2c00 drawers sub ver data with
      | some j => pure (st, "ok " ++ outJ j)
      | none => pure (st, "unsupported format")
  | "pelraw" => do
      let c ← pSelCfg; let b ← pBytes; pEnd
      pure (st, "ok " ++ outOutcome (parsePEL st.env c b))
  | "pelspec" => do
      let c ← pSelCfg; let p ← pAPel; let trailing ← pBytes; pEnd
      let b := p.enc ++ trailing
      pure (st, "ok " ++ outBytes b ++ " " ++ outOutcome (parsePEL st.env c b) ++ " " ++ outExcJ (render st.env p))
  | "ilog" => do
      let i ← pNum; let b ← pBytes; pEnd
      let t := st.tbls[i]!
      if !tblSupported t then pure (st, "unsupported pattern") else
      pure (st, outOptLines (parseIlog t b))
  | "ilogspec" => do
      -- entries (ts seq pte)* and a tail: encoded bytes, model output, spec output
      let i ← pNum
      let es ← pList (do let ts ← pNum; let seq ← pNum; let pte ← pNum; pure ({ ts, seq, pte } : IlogEntry))
      let tail ← pBytes; pEnd
      let t := st.tbls[i]!
      if !tblSupported t then pure (st, "unsupported pattern") else
      let b := es.flatMap IlogEntry.enc ++ tail
      match parseIlog t b, specIlog t es with
      | some m, some sp => pure (st, "ok " ++ outBytes b ++ " " ++ outLines m ++ " " ++ outLines sp)
      | _, _ => pure (st, "unsupported format")
  | "ptematch" => do
      let i ← pNum; let pte ← pNum; pEnd
      let t := st.tbls[i]!
      if !tblSupported t then pure (st, "unsupported pattern") else
      match getEntry t pte with
      | none => pure (st, "ok 0")
      | some e => match pteMessage e pte with
        | some m => pure (st, "ok 1 " ++ outText e.pattern ++ " " ++ outText m)
        | none => pure (st, "unsupported format")
  | "hlog" => do
      let i ← pNum; let b ← pBytes; pEnd
      let f := st.flds[i]!
      if f.any (fun x => x.2 = 0) then pure (st, "err assert") else
      pure (st, "ok " ++ outLines (parseHlog f b) ++ " " ++ outLines (specHlogFields f b))
  | "trace" => do
      let i ← pNum; let b ← pBytes; pEnd
      pure (st, outOptLines (parseTrace st.strs[i]! b))
  | "tracespec" => do
      -- abstract header + well-formed entries (+ pad bytes) + trailing bytes: encoding, model output, spec output
      let i ← pNum
      let ver ← pNum; let hdrLen ← pNum; let timeFlg ← pNum; let endianFlg ← pNum
      let comp ← pBytes; let reserved ← pBytes; let size ← pNum; let timesWrap ← pNum; let nextFree ← pNum
      let es ← pList (do
        let tbh ← pNum; let tbl ← pNum; let tag ← pNum; let hash ← pNum; let line ← pNum; let data ← pBytes
        let pad ← pBytes
        pure (({ tbh, tbl, length := data.length, tag, hash, line, data } : TraceEntry), pad))
      let trailing ← pBytes; pEnd
      let h : TraceHeaderRaw := { ver, hdrLen, timeFlg, endianFlg, comp, reserved, size, timesWrap, nextFree }
      let b := h.enc ++ es.flatMap (fun (e, pad) => e.enc pad) ++ trailing
      match parseTrace st.strs[i]! b, specTrace st.strs[i]! h (es.map (·.1)) with
      | some m, some sp => pure (st, "ok " ++ outBytes b ++ " " ++ outLines m ++ " " ++ outLines sp)
      | _, _ => pure (st, "unsupported format")
  | "tracestr" => do
      let i ← pNum; let h ← pNum; pEnd
      match getTraceString st.strs[i]! h with
      | none => pure (st, "ok 0")
      | some t => pure (st, "ok 1 " ++ outNum t.hash ++ " " ++ outText t.fmt ++ " " ++ outText t.location)
  | "dump" => do
      let i ← pNum; let j ← pNum; let b ← pBytes; pEnd
      let t := st.tbls[i]!
      if !tblSupported t then pure (st, "unsupported pattern") else
      let offs := bufferOffsets b
      let regs := ilogRegion b offs :: traceRegions b offs
      match parseDumpData t st.strs[j]! b with
      | some ls => pure (st, "ok " ++ outLines ls ++ " " ++ outList outBytes regs)
      | none => pure (st, "unsupported format")
  | "dumpfile" => do
      let i ← pNum; let j ← pNum; let ls ← pList pText; pEnd
      let t := st.tbls[i]!
      if !tblSupported t then pure (st, "unsupported pattern") else
      pure (st, outOptLines (parseDumpFile t st.strs[j]! ls))
  | _ => failure


/-- `main`: the parsed argument namespace, in the field order of `Pel.Args` -/
def pArgs : P Args := do
  let path ← pOpt pText; let skipPlugins ← pBool; let file ← pOpt pText; let list ← pBool; let all ← pBool
  let count ← pBool; let delete ← pOpt pText; let deleteAll ← pBool; let pelID ← pOpt pText; let bmcID ← pOpt pText
  let plid ← pOpt pText; let src ← pOpt pText; let srcExclude ← pOpt pText; let hex ← pBool; let reverse ← pBool
  let extension ← pOpt pText; let every ← pBool; let serviceable ← pBool; let nonServiceable ← pBool; let hidden ← pBool
  let term ← pBool; let severities ← pList pText; let only ← pBool; let json ← pBool; let outputDir ← pOpt pText
  let clean ← pBool
  pure { path, skipPlugins, file, list, all, count, delete, deleteAll, pelID, bmcID, plid, src, srcExclude, hex, reverse,
         extension, every, serviceable, nonServiceable, hidden, term, severities, only, json, outputDir, clean }

def outOpt {α} (f : α → String) : Option α → String
  | none => "0"
  | some x => "1 " ++ f x

def outExitSite : ExitSite → String
  | .noPath => "noPath"
  | .notDir p => "notDir " ++ outText p
  | .noOutputDir d => "noOutputDir " ++ outText d
  | .noExcludeFile f => "noExcludeFile " ++ outText f

def outAction : Action → String
  | .fileMode p c => "file " ++ outText p ++ " " ++ outBool c
  | .exitMsg m => "exit " ++ outExitSite m
  | .jsonMode d o c => "json " ++ outText d ++ " " ++ outText o ++ " " ++ outBool c
  | .idMode d e => "id " ++ outText d ++ " " ++ outText e
  | .bmcIdMode d n => "bmcid " ++ outText d ++ " " ++ outText n
  | .plidMode d x => "plid " ++ outText d ++ " " ++ outText x
  | .srcMode d v => "src " ++ outText d ++ " " ++ outText v
  | .srcExcludeMode d f => "srcex " ++ outText d ++ " " ++ outText f
  | .listMode d => "list " ++ outText d
  | .countMode d => "count " ++ outText d
  | .allMode d => "all " ++ outText d
  | .deleteMode d e => "delete " ++ outText d ++ " " ++ outText e
  | .deleteAllMode d => "deleteall " ++ outText d
  | .nothing => "nothing"

def outMainCfg (c : MainCfg) : String :=
  " ".intercalate [outBool c.sel.every, outBool c.sel.term, outBool c.sel.serviceable, outBool c.sel.nonServiceable,
    outBool c.sel.hidden, outBool c.sel.only, outBool c.sel.lookup, outList outNum c.sel.severities,
    outBool c.allowPlugins, outBool c.hex, outBool c.rev, outOpt outText c.ext]

/-- `caches`: why an import fails, one look-up, a table in canonical form (sorted by module name, first pair of a name) -/
def pFault : P Fault := do
  let k ← pWord
  match k with
  | "notfound" => pure .notFound
  | "importerror" => pure .importError
  | "other" => pure .other
  | _ => failure
def pLookup : P Lookup := do
  let k ← pWord
  match k with
  | "ud" => do let n ← pText; pure (.ud n)
  | "src" => do let n ← pText; pure (.src n)
  | "callout" => do let n ← pText; pure (.callout n)
  | "osrc" => do let n ← pText; pure (.osrc n)
  | "compid" => pure .compId
  | _ => failure
def insertKey {α} (p : Text × α) : List (Text × α) → List (Text × α)
  | [] => [p]
  | q :: r => if p.1 = q.1 then q :: r else if textLt q.1 p.1 then q :: insertKey p r else p :: q :: r
def canonTable {α} (c : List (Text × α)) : List (Text × α) := c.reverse.foldl (fun acc p => insertKey p (acc.filter (fun q => q.1 != p.1))) []
def outCache {β} (c : Cache β) : String :=
  outList (fun p => outText p.1 ++ " " ++ (if p.2.isSome then "1" else "0")) (canonTable c)
def outPte (e : PteEntry) : String := outText e.pattern ++ " " ++ outText e.fmt ++ " " ++ outList outNum e.params
def outTraceString (x : TraceString) : String := outNum x.hash ++ " " ++ outText x.fmt ++ " " ++ outText x.location
def outField (f : HlogField) : String := outText f.1 ++ " " ++ outNum f.2

def handle (op : String) : P String :=
  match op with
  | "ping" => pure "ok pong"
  -- the loaders: lines of the file (as `for line in open(path)` yields them) -> table in the token format of deftbl/defstr/deffld
  | "loadpte" => do
      let ls ← pList pText; pEnd
      match loadPteTable ls with
      | some t => pure ("ok " ++ outList outPte t)
      | none => pure "unsupported loader"
  | "loadpterows" => do
      -- all five fields of every entry: pattern fmt params file line
      let ls ← pList pText; pEnd
      match loadPteRows ls with
      | some t => pure ("ok " ++ outList (fun r => outPte r.entry ++ " " ++ outText r.file ++ " " ++ outNum r.line) t)
      | none => pure "unsupported loader"
  | "loadhlog" => do
      let ls ← pList pText; pEnd
      match loadHlogFields ls with
      | some t => pure ("ok " ++ outList outField t)
      | none => pure "unsupported loader"
  | "loadstrs" => do
      let ls ← pList pText; pEnd
      match loadTraceStrings ls with
      | some t => pure ("ok " ++ outList outTraceString t)
      | none => pure "unsupported loader"
  | "regroups" => do
      -- pattern number (0 START, 1 ENTRY, 2 END, 3 HSTART, 4 HFIELD, 5 HEND, 6 LINE) and a line: `0` = no match, else
      -- `1 n` and for each group 1..n either `0` (did not take part, Python: None) or `1 <text>`
      let k ← pNum; let l ← pText; pEnd
      let pats : List (Re × Nat) := [(tblStartRe, 1), (tblEntryRe, 5), (tblEndRe, 0), (hlogStartRe, 1), (hlogFieldRe, 2), (hlogEndRe, 0), (traceLineRe, 3)]
      match pats[k]? with
      | none => pure "err bad-pattern"
      | some (re, n) =>
        match re.fullmatch l with
        | none => pure "ok 0"
        | some caps => pure ("ok 1 " ++ outList (fun i => outOpt outText (capGet caps (i + 1))) (List.range n))
  | "rematch" => do
      -- which of the seven patterns fullmatch the line (START ENTRY END, HSTART HFIELD HEND, LINE)
      let l ← pText; pEnd
      pure ("ok " ++ String.ofList ([tblStartRe, tblEntryRe, tblEndRe, hlogStartRe, hlogFieldRe, hlogEndRe, traceLineRe].map
        fun r => if (r.fullmatch l).isSome then '1' else '0'))
  | "fmt" => do
      let f ← pText; let args ← pList pNum; pEnd
      match pyFmt f args with
      | .ok t => pure ("ok 1 " ++ outText t)
      | .error => pure "ok 0"
      | .unsupported => pure "unsupported format"
  | "dumps" => do
      let d ← pJ; pEnd
      pure ("ok " ++ outText (dumps d))
  | "pp" => do
      let desired ← pNum; let t ← pText; pEnd
      pure ("ok " ++ outText (prettyPrint desired t))
  | "ppdoc" => do
      let desired ← pNum; let d ← pJ; pEnd
      pure ("ok " ++ outText (prettyPrint desired (dumps d)))
  | "atext" => do
      let desired ← pNum; let d ← pJ; pEnd
      pure ("ok " ++ outText (aText desired d 0) ++ " " ++ outBool d.keysDistinct)
  | "loads" => do
      let t ← pText; pEnd
      match loads t with
      | .ok v => pure ("ok " ++ outJ v)
      | .bad => pure "ok-bad"
      | .unsupported => pure "unsupported float"
  | "utf8" => do
      let b ← pBytes; pEnd
      match utf8Decode b with
      | some t => pure ("ok 1 " ++ outText t)
      | none => pure "ok 0"
  | "clean" => do
      -- kind (0 json / 1 file), decode result (0 doc / 1 filtered / 2 failed), n writes, clean?, fault step (or 999999 = none)
      let kind ← pNum; let dr ← pNum; let n ← pNum; let clean ← pBool; let f ← pNum; pEnd
      let d : DecodeResult := if dr = 0 then .doc else if dr = 1 then .filtered else .failed
      let tr := if kind = 0 then cleanJsonTrace d n clean (fun k => k == f) else cleanFileTrace d clean (fun k => k == f)
      let evName : Ev → String
        | .openOut => "open" | .write => "write" | .closeOut => "close" | .print => "print" | .flushStdout => "flush" | .removeIn => "remove"
      pure ("ok " ++ outList (fun p => evName p.1 ++ (if p.2 then "+" else "!")) tr ++ " " ++ outBool (inputRemoved tr))
  | "timestamp" => do
      let t ← pNum; pEnd
      pure ("ok " ++ outText (formatTimestamp t))
  | "hexdump" => do
      let l ← pNum; let c ← pNum; let b ← pBytes; pEnd
      if 1 ≤ l ∧ l ≤ 256 ∧ 1 ≤ c ∧ c ≤ 256 then pure ("ok " ++ outLines (hexdump l c b))
      else pure "err assert"
  | "hexparse" => do
      let k ← pNum; let ls ← pList pText; pEnd
      pure ("ok " ++ outBytes (parseDump (fmtOf k) ls))
  | "hexparsefmt" => do
      let f ← pText; let ls ← pList pText; pEnd
      if pairedD f then pure ("ok " ++ outBytes (parseDump f ls)) else pure "unsupported unpaired-D"
  | "render" => do
      let k ← pNum; let pad ← pBool; let b ← pBytes; pEnd
      pure ("ok " ++ outLines (if k = 1 then renderBmc pad b else renderPre pad b))
  | "pelhex" => do
      let b ← pBytes; pEnd
      pure ("ok " ++ outLines (pelHexDisplay b))
  | "selrow" => do
      let af ← pNum; let c ← pSelCfg; pEnd
      pure ("ok " ++ bits (fun sv => considerPEL sv af c) 256 ++ " " ++ bits (fun sv => selected sv af c) 256)
  | "main" => do
      -- parsed arguments, the paths for which isdir / isfile answer True, the top-level file names os.walk yields,
      -- and what parseAndPrintPELFile returns
      let a ← pArgs; let dirs ← pList pText; let files ← pList pText; let walk ← pList pText; let printed ← pBool; pEnd
      let fs : FsView := { isDir := fun p => dirs.contains p, isFile := fun p => files.contains p }
      let (act, cfg) := dispatch fs a
      pure ("ok " ++ outAction act ++ " " ++ outMainCfg cfg ++ " " ++ outNum (mainExit act) ++ " " ++ outOpt outText (mainStderr act)
        ++ " " ++ outList (fun c => outText c.1 ++ " " ++ outText c.2.1 ++ " " ++ outBool c.2.2) (jsonCalls cfg walk act)
        ++ " " ++ outOpt outText (act.afterPrint printed))
  | "caches" => do
      -- the import system: ud / src / callout behaviours (everything else: absent), why absent SRC / callout modules fail
      -- (everything else: not found), the configuration directory in listing order (or none); then the ORDERED look-ups.
      -- Reply: userDataParsers, srcParsers, calloutParsers, osrcParsers (name, 0 = None | 1 = module), attempted flag, componentIDs
      let uds ← pList (do let n ← pText; let b ← pUdPlugin; pure (n, b))
      let srcs ← pList (do let n ← pText; let b ← pSrcPlugin; pure (n, b))
      let srcFaults ← pList (do let n ← pText; let f ← pFault; pure (n, f))
      let cos ← pList (do let n ← pText; let b ← pCalloutPlugin; pure (n, b))
      let coFaults ← pList (do let n ← pText; let f ← pFault; pure (n, f))
      let dir ← pOpt (pList (do let f ← pText; let m ← pList pTT; pure (f, m)))
      let ls ← pList pLookup
      pEnd
      let env : ProcEnv :=
        { T := liveTables [], ud := lookupFn uds .absent,
          src := { callout := lookupFn cos .absent, src := lookupFn srcs .absent }, allowPlugins := true,
          srcFault := lookupFn srcFaults .notFound, calloutFault := lookupFn coFaults .notFound, confDir := dir }
      let c := stepCaches env {} ls
      pure ("ok " ++ outCache c.ud ++ " " ++ outCache c.src ++ " " ++ outCache c.callout ++ " " ++ outCache c.osrc ++ " " ++
        outBool c.comp.attempted ++ " " ++
        outList (fun p => outText p.1 ++ " " ++ outList (fun kv => outText kv.1 ++ " " ++ outText kv.2) p.2) (canonTable c.comp.table))
  | _ => pure ("err unknown-op " ++ op)

/-! ### the whole command (`PelModel/Top.lean`): `runmain <Args tokens> <world tokens>` -/

def pFileEntry : P FileEntry := do let name ← pText; let data ← pBytes; pure { name, data }

/-- world tokens: pathIsDir, top-level files (name bytes)* in walk order, subdirectory names, -f content?, exclude text?, -o files? -/
def pWorld : P World := do
  let pathIsDir ← pBool; let dir ← pList pFileEntry; let subdirs ← pList pText
  let file ← pOpt pBytes; let exclude ← pOpt pText; let out ← pOpt (pList pFileEntry)
  pure { pathIsDir, dir, subdirs, file, exclude, out }

def outDirFiles (d : Dir) : String := outList (fun f => outText f.name ++ " " ++ outBytes f.data) d

def outWorld (w : World) : String :=
  " ".intercalate [outBool w.pathIsDir, outDirFiles w.dir, outList outText w.subdirs, outOpt outBytes w.file,
    outOpt outText w.exclude, outOpt outDirFiles w.out]

/-- requests that need the decoder environment of the driver state and the `Args` parser -/
def handleTop (st : DrvState) (op : String) : P String :=
  match op with
  | "runmain" => do
      let a ← pArgs; let w ← pWorld; pEnd
      let r := runMain st.env a w
      pure ("ok " ++ outText r.stdout ++ " " ++ outNum r.diagnostics ++ " " ++ outOpt outText r.message ++ " " ++ outNum r.exit
        ++ " " ++ outWorld r.world)
  | "runmainbmc" => do
      -- inside a BMC: `runmainbmc <-A given> <Args tokens> <logs files> <log subdirs> <archive files?> <archive subdirs> <-f content?> <exclude?> <-o files?>`
      let archive ← pBool; let a ← pArgs
      let logs ← pList pFileEntry; let logSubdirs ← pList pText; let arch ← pOpt (pList pFileEntry); let archiveSubdirs ← pList pText
      let file ← pOpt pBytes; let exclude ← pOpt pText; let out ← pOpt (pList pFileEntry); pEnd
      let r := runMainBmc st.env a archive { logs, logSubdirs, archive := arch, archiveSubdirs, file, exclude, out }
      pure ("ok " ++ outText r.stdout ++ " " ++ outNum r.diagnostics ++ " " ++ outOpt outText r.message ++ " " ++ outNum r.exit
        ++ " " ++ " ".intercalate [outDirFiles r.world.logs, outList outText r.world.logSubdirs, outOpt outDirFiles r.world.archive,
          outList outText r.world.archiveSubdirs, outOpt outBytes r.world.file, outOpt outText r.world.exclude, outOpt outDirFiles r.world.out])
  | _ => failure

def handleLine (st : DrvState) (line : String) : DrvState × String :=
  match tokenize line with
  | .word op :: rest =>
    match (handleSt st op).run rest with
    | some ((st', r), _) => (st', r)
    | none =>
      match (handleTop st op).run rest with
      | some (r, _) => (st, r)
      | none =>
      match (handle op).run rest with
      | some (r, _) => (st, r)
      | none => (st, "err bad-request")
  | _ => (st, "err bad-request")

partial def loop (hin : IO.FS.Stream) (hout : IO.FS.Stream) (st : DrvState) : IO Unit := do
  let line ← hin.getLine
  if line.isEmpty then return ()
  let l := (line.dropEndWhile (fun c => c == '\n' || c == '\r')).toString
  let (st', r) := handleLine st l
  hout.putStrLn r
  loop hin hout st'

def main : IO Unit := do
  let hin ← IO.getStdin
  let hout ← IO.getStdout
  loop hin hout {}
  hout.flush
