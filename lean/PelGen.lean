import PelGen.Live
import PelGen.GenPeltool
import PelGen.GenSections
import PelGen.GenIoDrawer
import PelGen.GenUserData
import PelGen.GenDispatch
import PelGen.GenSrc
import PelGen.GenHexdump
