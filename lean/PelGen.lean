import PelGen.Live
import PelGen.GenPeltool
