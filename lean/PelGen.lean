import PelGen.Live
