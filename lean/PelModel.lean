import PelModel.Basic
import PelModel.Proto
import PelModel.HexDump
import PelModel.Select
