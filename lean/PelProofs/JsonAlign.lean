import PelModel.JsonSpec
import PelProofs.Basic
/- The text-level aligner `prettyPrint` applied to `dumps` is the structural rendering `aText`. -/
namespace Pel

/-! ### the key scan over rendered strings -/

theorem hexL_ne34 (x : Nat) : hexL x ≠ 34 := by unfold hexL; split <;> omega
theorem hexL_ne92 (x : Nat) : hexL x ≠ 92 := by unfold hexL; split <;> omega
theorem hexL_ne10 (x : Nat) : hexL x ≠ 10 := by unfold hexL; split <;> omega

theorem keyScan_plain (c : Nat) (t : Text) (i : Nat) (h1 : c ≠ 92) (h2 : c ≠ 34) :
    keyScan (c :: t) i = keyScan t (i + 1) := by
  rw [keyScan.eq_def]; simp [h1, h2]

theorem keyScan_bs (x : Nat) (t : Text) (i : Nat) : keyScan (92 :: x :: t) i = keyScan t (i + 2) := by
  rw [keyScan.eq_def]; simp

theorem keyScan_hex4 (c : Nat) (t : Text) (i : Nat) : keyScan (hex4L c ++ t) i = keyScan t (i + 4) := by
  simp only [hex4L, List.cons_append, List.nil_append]
  rw [keyScan_plain _ _ _ (hexL_ne92 _) (hexL_ne34 _), keyScan_plain _ _ _ (hexL_ne92 _) (hexL_ne34 _),
    keyScan_plain _ _ _ (hexL_ne92 _) (hexL_ne34 _), keyScan_plain _ _ _ (hexL_ne92 _) (hexL_ne34 _)]

theorem hex4L_length (c : Nat) : (hex4L c).length = 4 := by simp [hex4L]

theorem keyScan_esc (c : Nat) (t : Text) (i : Nat) :
    keyScan (escChar c ++ t) i = keyScan t (i + (escChar c).length) := by
  unfold escChar
  split
  · exact keyScan_bs _ _ _
  split
  · exact keyScan_bs _ _ _
  split
  · exact keyScan_bs _ _ _
  split
  · exact keyScan_bs _ _ _
  split
  · exact keyScan_bs _ _ _
  split
  · exact keyScan_bs _ _ _
  split
  · exact keyScan_bs _ _ _
  split
  · exact keyScan_plain _ _ _ (by omega) (by omega)
  split
  · simp only [List.cons_append, keyScan_bs, keyScan_hex4, List.length_cons, hex4L_length]
  · simp only [List.cons_append, List.append_assoc, keyScan_bs, keyScan_hex4, List.length_cons, hex4L_length,
      List.length_append]

theorem keyScan_flat (k t : Text) (i : Nat) :
    keyScan (k.flatMap escChar ++ t) i = keyScan t (i + (k.flatMap escChar).length) := by
  induction k generalizing i with
  | nil => simp
  | cons c k ih =>
    simp only [List.flatMap_cons, List.append_assoc, keyScan_esc, ih, List.length_append]
    congr 1; omega

/-- the escape-aware scan finds the closing quote of a COMPLETE rendered key, whatever characters the key contains -/
theorem keyScan_rendered (k rest : Text) (i : Nat) :
    keyScan (k.flatMap escChar ++ 34 :: 58 :: rest) i = some (i + (k.flatMap escChar).length) := by
  rw [keyScan_flat, keyScan.eq_def]; simp

/-- a rendered string that is not followed by a colon (a string element of a list) is never taken for a key -/
theorem keyScan_item (t rest : Text) (i : Nat) (h : rest.head? ≠ some 58) :
    keyScan (t.flatMap escChar ++ 34 :: rest) i = none := by
  rw [keyScan_flat]
  cases rest with
  | nil => rw [keyScan.eq_def]; simp
  | cons c r =>
    have : c ≠ 58 := by simpa using h
    rw [keyScan.eq_def]; simp [this]

/-! ### join / split -/

/-- every line preceded by a newline -/
def jt (xs : List Text) : Text := xs.flatMap (fun l => 10 :: l)

theorem jt_nil : jt [] = [] := rfl
theorem jt_cons (x : Text) (xs : List Text) : jt (x :: xs) = 10 :: x ++ jt xs := by simp [jt]
theorem jt_append (xs ys : List Text) : jt (xs ++ ys) = jt xs ++ jt ys := by simp [jt]

theorem joinWith_cons (x : Text) (xs : List Text) : joinWith [10] (x :: xs) = x ++ jt xs := by
  induction xs generalizing x with
  | nil => simp [joinWith, jt]
  | cons y ys ih => rw [joinWith.eq_3 _ _ _ (by simp), ih, jt_cons]; simp

theorem splitNL_ne_nil (t : Text) : splitNL t ≠ [] := by
  cases t with
  | nil => simp [splitNL]
  | cons c r =>
    rw [splitNL]
    split
    · simp
    · split <;> simp

theorem splitNL_nl (r : Text) : splitNL (10 :: r) = [] :: splitNL r := by
  rw [splitNL]
  cases h : splitNL r with
  | nil => exact absurd h (splitNL_ne_nil r)
  | cons l ls => simp

theorem splitNL_char (c : Nat) (r : Text) (hc : c ≠ 10) :
    splitNL (c :: r) = (c :: (splitNL r).headD []) :: (splitNL r).tail := by
  rw [splitNL]
  cases h : splitNL r with
  | nil => exact absurd h (splitNL_ne_nil r)
  | cons l ls => simp [hc]

theorem splitNL_line (l r : Text) (h : 10 ∉ l) : splitNL (l ++ 10 :: r) = l :: splitNL r := by
  induction l with
  | nil => simpa using splitNL_nl r
  | cons c l ih =>
    have hc : c ≠ 10 := by intro e; apply h; simp [e]
    have hl : 10 ∉ l := by intro e; apply h; simp [e]
    rw [List.cons_append, splitNL_char _ _ hc]
    simp [ih hl]

theorem splitNL_last (l : Text) (h : 10 ∉ l) : splitNL l = [l] := by
  induction l with
  | nil => simp [splitNL]
  | cons c l ih =>
    have hc : c ≠ 10 := by intro e; apply h; simp [e]
    have hl : 10 ∉ l := by intro e; apply h; simp [e]
    rw [splitNL_char _ _ hc]
    simp [ih hl]

theorem splitNL_join (x : Text) (xs : List Text) (hx : 10 ∉ x) (hxs : ∀ l ∈ xs, 10 ∉ l) :
    splitNL (x ++ jt xs) = x :: xs := by
  induction xs generalizing x with
  | nil => simpa [jt] using splitNL_last x hx
  | cons y ys ih =>
    rw [jt_cons, List.cons_append, splitNL_line _ _ hx, ih y (hxs y (by simp)) (fun l hl => hxs l (by simp [hl]))]

/-! ### `ppLine` on the kinds of lines `dumps` produces -/

theorem dropWhile_spaces (m c : Nat) (r : Text) (hc : c ≠ 32) :
    (spaces m ++ c :: r).dropWhile (· == 32) = c :: r := by
  induction m with
  | zero => simp [spaces, hc]
  | succ m ih =>
    have : spaces (m + 1) = 32 :: spaces m := by simp [spaces, List.replicate_succ]
    rw [this, List.cons_append, List.dropWhile_cons]
    simpa using ih

theorem keyEndIndex_plain (m c : Nat) (r : Text) (h1 : c ≠ 34) (h2 : c ≠ 32) :
    keyEndIndex (spaces m ++ c :: r) = none := by
  simp only [keyEndIndex, dropWhile_spaces _ _ _ h2]
  split
  · rename_i heq; simp at heq; omega
  · rfl

theorem keyEndIndex_quote (m : Nat) (r : Text) : keyEndIndex (spaces m ++ 34 :: r) = keyScan r (m + 1) := by
  simp only [keyEndIndex, dropWhile_spaces _ _ _ (show (34 : Nat) ≠ 32 by decide)]
  simp

theorem ppLine_plain (n m c : Nat) (r : Text) (h1 : c ≠ 34) (h2 : c ≠ 32) :
    ppLine n (spaces m ++ c :: r) = spaces m ++ c :: r := by
  unfold ppLine
  split
  · rfl
  · rw [keyEndIndex_plain _ _ _ h1 h2]

theorem ppLine_strItem (n m : Nat) (t suf : Text) (h : suf.head? ≠ some 58) :
    ppLine n (spaces m ++ renderStr t ++ suf) = spaces m ++ renderStr t ++ suf := by
  have e : spaces m ++ renderStr t ++ suf = spaces m ++ 34 :: (t.flatMap escChar ++ 34 :: suf) := by
    simp [renderStr]
  rw [e]
  unfold ppLine
  split
  · rfl
  · rw [keyEndIndex_quote, keyScan_item _ _ _ h]

theorem not_mem_spaces (m c : Nat) (h : c ≠ 32) : c ∉ spaces m := by
  simp [spaces, List.mem_replicate, h]

theorem renderStr_length (k : Text) : (renderStr k).length = (k.flatMap escChar).length + 2 := by
  simp [renderStr]

theorem ppLine_member (n m : Nat) (k rest : Text) :
    ppLine n (spaces m ++ renderStr k ++ 58 :: 32 :: rest) =
      spaces m ++ renderStr k ++ 58 ::
        ((if (renderStr k ++ rest).contains 123 then [] else spaces (n - (m + (renderStr k).length - 1)))
          ++ 32 :: rest) := by
  have hcont : (spaces m ++ renderStr k ++ 58 :: 32 :: rest).contains 123 = (renderStr k ++ rest).contains 123 := by
    simp [not_mem_spaces m 123 (by decide)]
  have hkey : keyEndIndex (spaces m ++ renderStr k ++ 58 :: 32 :: rest)
      = some (m + 1 + (k.flatMap escChar).length) := by
    have e : spaces m ++ renderStr k ++ 58 :: 32 :: rest
        = spaces m ++ 34 :: (k.flatMap escChar ++ 34 :: 58 :: 32 :: rest) := by simp [renderStr]
    rw [e, keyEndIndex_quote, keyScan_rendered]
  unfold ppLine
  rw [hcont, hkey]
  by_cases hc : (renderStr k ++ rest).contains 123 = true
  · rw [if_pos hc, if_pos hc]; simp
  · rw [if_neg hc, if_neg hc]
    have hlen : (spaces m ++ renderStr k ++ [58]).length = m + 1 + (k.flatMap escChar).length + 2 := by
      simp [renderStr_length]; omega
    have e2 : spaces m ++ renderStr k ++ 58 :: 32 :: rest = (spaces m ++ renderStr k ++ [58]) ++ 32 :: rest := by
      simp
    have e3 : m + (renderStr k).length - 1 = m + 1 + (k.flatMap escChar).length := by
      rw [renderStr_length]; omega
    simp only []
    rw [e2, List.take_left' hlen, List.drop_left' hlen, e3]
    simp

/-! ### decimal numbers -/

theorem decFix_digits (n v : Nat) : ∀ c ∈ decFix n v, 48 ≤ c ∧ c ≤ 57 := by
  induction n generalizing v with
  | zero => simp [decFix]
  | succ n ih =>
    intro c hc
    simp only [decFix, List.mem_append, List.mem_singleton] at hc
    rcases hc with hc | hc
    · exact ih _ c hc
    · omega

theorem decLenAux_pos (f v : Nat) : 1 ≤ decLenAux f v := by
  cases f with
  | zero => simp [decLenAux]
  | succ f => unfold decLenAux; split <;> omega

theorem natDec_digits (v : Nat) : ∀ c ∈ natDec v, 48 ≤ c ∧ c ≤ 57 := decFix_digits _ _

theorem natDec_shape (v : Nat) : ∃ c r, natDec v = c :: r := by
  cases h : natDec v with
  | nil =>
    have : (natDec v).length = decLen v := by simp [natDec]
    have := decLenAux_pos v v
    simp [h, decLen] at *; omega
  | cons c r => exact ⟨c, r, rfl⟩

theorem intDec_shape (z : Int) : ∃ c r, intDec z = c :: r ∧ c ≠ 34 ∧ c ≠ 32 := by
  cases z with
  | ofNat k =>
    obtain ⟨c, r, e⟩ := natDec_shape k
    have := natDec_digits k c (by simp [e])
    exact ⟨c, r, by simp [intDec, e], by omega, by omega⟩
  | negSucc k => exact ⟨45, natDec (k + 1), by simp [intDec], by decide, by decide⟩

theorem nl_intDec (z : Int) : 10 ∉ intDec z := by
  cases z with
  | ofNat k => intro h; have := natDec_digits k 10 (by simpa [intDec] using h); omega
  | negSucc k =>
    intro h
    simp only [intDec, List.mem_cons] at h
    rcases h with h | h
    · omega
    · have := natDec_digits _ 10 h; omega

/-! ### first lines -/

theorem firstLineOf_shape (x : J) :
    (∃ t, firstLineOf x = renderStr t) ∨ ∃ c r, firstLineOf x = c :: r ∧ c ≠ 34 ∧ c ≠ 32 := by
  cases x with
  | null => exact .inr ⟨110, [117, 108, 108], by decide, by decide, by decide⟩
  | bool b =>
    cases b
    · exact .inr ⟨102, [97, 108, 115, 101], by decide, by decide, by decide⟩
    · exact .inr ⟨116, [114, 117, 101], by decide, by decide, by decide⟩
  | num z => obtain ⟨c, r, e, h1, h2⟩ := intDec_shape z; exact .inr ⟨c, r, by simp [firstLineOf, e], h1, h2⟩
  | str t => exact .inl ⟨t, rfl⟩
  | arr l =>
    cases l
    · exact .inr ⟨91, [93], by decide, by decide, by decide⟩
    · exact .inr ⟨91, [], by simp [firstLineOf]; decide, by decide, by decide⟩
  | obj l =>
    cases l
    · exact .inr ⟨123, [125], by decide, by decide, by decide⟩
    · exact .inr ⟨123, [], by simp [firstLineOf]; decide, by decide, by decide⟩

theorem ppLine_itemLine (n m : Nat) (x : J) (suf : Text) (h : suf.head? ≠ some 58) :
    ppLine n (spaces m ++ firstLineOf x ++ suf) = spaces m ++ firstLineOf x ++ suf := by
  rcases firstLineOf_shape x with ⟨t, e⟩ | ⟨c, r, e, h1, h2⟩
  · rw [e]; exact ppLine_strItem n m t suf h
  · rw [e]
    have := ppLine_plain n m c (r ++ suf) h1 h2
    simpa using this

theorem nl_hex4L (c : Nat) : 10 ∉ hex4L c := by
  simp [hex4L, Ne.symm (hexL_ne10 _)]

theorem nl_escChar (c : Nat) : 10 ∉ escChar c := by
  unfold escChar
  repeat' split
  all_goals simp [nl_hex4L]
  all_goals omega

theorem nl_renderStr (t : Text) : 10 ∉ renderStr t := by
  simp [renderStr, List.mem_flatMap]
  intro c _; exact nl_escChar c

theorem nl_spaces (m : Nat) : 10 ∉ spaces m := not_mem_spaces m 10 (by decide)

theorem nl_firstLineOf (x : J) : 10 ∉ firstLineOf x := by
  cases x with
  | null => decide
  | bool b => cases b <;> decide
  | num z => exact nl_intDec z
  | str t => exact nl_renderStr t
  | arr l => cases l <;> simp [firstLineOf] <;> decide
  | obj l => cases l <;> simp [firstLineOf] <;> decide

/-! ### the shape of `dumpsLines` -/

/-- the lines after the first -/
def tl (d : J) (lvl : Nat) : List Text := (dumpsLines d lvl).tail

theorem dumpsLines_cons (d : J) (lvl : Nat) : dumpsLines d lvl = firstLineOf d :: tl d lvl := by
  cases d with
  | null => simp [tl, dumpsLines, firstLineOf]
  | bool b => cases b <;> simp [tl, dumpsLines, firstLineOf]
  | num z => simp [tl, dumpsLines, firstLineOf]
  | str t => simp [tl, dumpsLines, firstLineOf]
  | arr l => cases l <;> simp [tl, dumpsLines, firstLineOf]
  | obj l => cases l <;> simp [tl, dumpsLines, firstLineOf]

theorem tl_arr (x : J) (xs : List J) (lvl : Nat) :
    tl (.arr (x :: xs)) lvl = dumpsItems (x :: xs) (lvl + 1) ++ [indentOf lvl ++ [93]] := by
  have : s "]" = [93] := by decide
  simp [tl, dumpsLines, this]

theorem tl_obj (kv : Text × J) (kvs : List (Text × J)) (lvl : Nat) :
    tl (.obj (kv :: kvs)) lvl = dumpsMembers (kv :: kvs) (lvl + 1) ++ [indentOf lvl ++ [125]] := by
  have : s "}" = [125] := by decide
  simp [tl, dumpsLines, this]

theorem tl_shape (d : J) (lvl : Nat) :
    tl d lvl = [] ∨ ∃ inner c, (c = 93 ∨ c = 125) ∧ tl d lvl = inner ++ [indentOf lvl ++ [c]] := by
  cases d with
  | null => simp [tl, dumpsLines]
  | bool b => cases b <;> simp [tl, dumpsLines]
  | num z => simp [tl, dumpsLines]
  | str t => simp [tl, dumpsLines]
  | arr l =>
    cases l with
    | nil => simp [tl, dumpsLines]
    | cons x xs => exact .inr ⟨_, 93, .inl rfl, tl_arr x xs lvl⟩
  | obj l =>
    cases l with
    | nil => simp [tl, dumpsLines]
    | cons x xs => exact .inr ⟨_, 125, .inr rfl, tl_obj x xs lvl⟩

theorem dumpsItems_one (x : J) (lvl : Nat) :
    dumpsItems [x] lvl = (indentOf lvl ++ firstLineOf x) :: tl x lvl := by
  rw [dumpsItems, dumpsLines_cons]

theorem dumpsItems_more (x y : J) (r : List J) (lvl : Nat) :
    dumpsItems (x :: y :: r) lvl
      = appendLast ((indentOf lvl ++ firstLineOf x) :: tl x lvl) [44] ++ dumpsItems (y :: r) lvl := by
  rw [dumpsItems, dumpsLines_cons]

theorem dumpsMembers_one (k : Text) (v : J) (lvl : Nat) :
    dumpsMembers [(k, v)] lvl = (indentOf lvl ++ renderStr k ++ 58 :: 32 :: firstLineOf v) :: tl v lvl := by
  have : s ": " = [58, 32] := by decide
  rw [dumpsMembers, dumpsLines_cons, this]; simp

theorem dumpsMembers_more (k : Text) (v : J) (kv : Text × J) (r : List (Text × J)) (lvl : Nat) :
    dumpsMembers ((k, v) :: kv :: r) lvl
      = appendLast ((indentOf lvl ++ renderStr k ++ 58 :: 32 :: firstLineOf v) :: tl v lvl) [44]
        ++ dumpsMembers (kv :: r) lvl := by
  have : s ": " = [58, 32] := by decide
  rw [dumpsMembers, dumpsLines_cons, this]; simp

theorem appendLast_concat (pre : List Text) (l suf : Text) : appendLast (pre ++ [l]) suf = pre ++ [l ++ suf] := by
  simp [appendLast]

/-- a non-empty block of lines ends with a last line -/
theorem block_last (a : Text) (d : J) (lvl : Nat) :
    (tl d lvl = [] ∧ a :: tl d lvl = [] ++ [a]) ∨
    ∃ inner c, (c = 93 ∨ c = 125) ∧ a :: tl d lvl = (a :: inner) ++ [indentOf lvl ++ [c]] := by
  rcases tl_shape d lvl with h | ⟨inner, c, hc, h⟩
  · exact .inl ⟨h, by simp [h]⟩
  · exact .inr ⟨inner, c, hc, by simp [h]⟩

/-! ### no line contains a newline -/

def NL (ls : List Text) : Prop := ∀ l ∈ ls, 10 ∉ l

theorem NL_nil : NL [] := by simp [NL]
theorem NL_cons (l : Text) (ls : List Text) : NL (l :: ls) ↔ 10 ∉ l ∧ NL ls := by simp [NL]
theorem NL_append (a b : List Text) : NL (a ++ b) ↔ NL a ∧ NL b := by
  simp only [NL, List.mem_append]
  constructor
  · intro h; exact ⟨fun l hl => h l (.inl hl), fun l hl => h l (.inr hl)⟩
  · rintro ⟨h1, h2⟩ l (hl | hl)
    · exact h1 l hl
    · exact h2 l hl

theorem nl_closing (lvl c : Nat) (hc : c = 93 ∨ c = 125) : 10 ∉ indentOf lvl ++ [c] := by
  have := nl_spaces (4 * lvl)
  simp only [indentOf, List.mem_append, List.mem_singleton, not_or]
  exact ⟨this, by omega⟩

theorem NL_block_comma (a : Text) (d : J) (lvl : Nat) (h : NL (a :: tl d lvl)) :
    NL (appendLast (a :: tl d lvl) [44]) := by
  have h44 : ∀ l : Text, 10 ∉ l → 10 ∉ l ++ [44] := by
    intro l hl; simp [hl]
  rcases block_last a d lvl with ⟨_, e⟩ | ⟨inner, c, _, e⟩
  · rw [e] at h ⊢
    rw [appendLast_concat]
    simp only [NL_append, NL_cons] at h ⊢
    exact ⟨h.1, h44 _ h.2.1, h.2.2⟩
  · rw [e] at h ⊢
    rw [appendLast_concat]
    simp only [NL_append, NL_cons] at h ⊢
    exact ⟨h.1, h44 _ h.2.1, h.2.2⟩

theorem NL_itemBlock (x : J) (lvl : Nat) (ih : NL (tl x lvl)) :
    NL ((indentOf lvl ++ firstLineOf x) :: tl x lvl) := by
  rw [NL_cons]
  refine ⟨?_, ih⟩
  simp only [List.mem_append, not_or]
  exact ⟨nl_spaces _, nl_firstLineOf x⟩

theorem NL_memberBlock (k : Text) (v : J) (lvl : Nat) (ih : NL (tl v lvl)) :
    NL ((indentOf lvl ++ renderStr k ++ 58 :: 32 :: firstLineOf v) :: tl v lvl) := by
  rw [NL_cons]
  refine ⟨?_, ih⟩
  simp only [List.mem_append, List.mem_cons, not_or]
  exact ⟨⟨nl_spaces _, nl_renderStr k⟩, by decide, by decide, nl_firstLineOf v⟩

mutual
  theorem NL_tl : ∀ (d : J) (lvl : Nat), NL (tl d lvl)
    | .null, _ => by simp [tl, dumpsLines, NL]
    | .bool true, _ => by simp [tl, dumpsLines, NL]
    | .bool false, _ => by simp [tl, dumpsLines, NL]
    | .num _, _ => by simp [tl, dumpsLines, NL]
    | .str _, _ => by simp [tl, dumpsLines, NL]
    | .arr [], _ => by simp [tl, dumpsLines, NL]
    | .arr (x :: xs), lvl => by
      rw [tl_arr, NL_append]
      exact ⟨NL_items (x :: xs) (lvl + 1), by rw [NL_cons]; exact ⟨nl_closing lvl 93 (.inl rfl), NL_nil⟩⟩
    | .obj [], _ => by simp [tl, dumpsLines, NL]
    | .obj (kv :: kvs), lvl => by
      rw [tl_obj, NL_append]
      exact ⟨NL_members (kv :: kvs) (lvl + 1), by rw [NL_cons]; exact ⟨nl_closing lvl 125 (.inr rfl), NL_nil⟩⟩
  theorem NL_items : ∀ (xs : List J) (lvl : Nat), NL (dumpsItems xs lvl)
    | [], _ => by simp [dumpsItems, NL]
    | [x], lvl => by rw [dumpsItems_one]; exact NL_itemBlock x lvl (NL_tl x lvl)
    | x :: y :: r, lvl => by
      rw [dumpsItems_more, NL_append]
      exact ⟨NL_block_comma _ _ _ (NL_itemBlock x lvl (NL_tl x lvl)), NL_items (y :: r) lvl⟩
  theorem NL_members : ∀ (xs : List (Text × J)) (lvl : Nat), NL (dumpsMembers xs lvl)
    | [], _ => by simp [dumpsMembers, NL]
    | [(k, v)], lvl => by rw [dumpsMembers_one]; exact NL_memberBlock k v lvl (NL_tl v lvl)
    | (k, v) :: kv :: r, lvl => by
      rw [dumpsMembers_more, NL_append]
      exact ⟨NL_block_comma _ _ _ (NL_memberBlock k v lvl (NL_tl v lvl)), NL_members (kv :: r) lvl⟩
end

/-! ### alignment of the blocks -/

/-- appending the separating comma to a line commutes with `ppLine` -/
def CommaOk (n : Nat) (l : Text) : Prop := ppLine n (l ++ [44]) = ppLine n l ++ [44]

theorem pp_closing (n lvl c : Nat) (hc : c = 93 ∨ c = 125) :
    ppLine n (indentOf lvl ++ [c]) = indentOf lvl ++ [c] :=
  ppLine_plain n (4 * lvl) c [] (by omega) (by omega)

theorem CommaOk_closing (n lvl c : Nat) (hc : c = 93 ∨ c = 125) : CommaOk n (indentOf lvl ++ [c]) := by
  unfold CommaOk
  rw [pp_closing n lvl c hc]
  have e : indentOf lvl ++ [c] ++ [44] = spaces (4 * lvl) ++ c :: [44] := by simp [indentOf]
  rw [e]
  exact ppLine_plain n (4 * lvl) c [44] (by omega) (by omega)

theorem jt_map_comma (n : Nat) (pre : List Text) (l : Text) (h : CommaOk n l) :
    jt ((appendLast (pre ++ [l]) [44]).map (ppLine n)) = jt ((pre ++ [l]).map (ppLine n)) ++ [44] := by
  unfold CommaOk at h
  rw [appendLast_concat]
  simp only [List.map_append, List.map_cons, List.map_nil, jt_append, jt_cons, jt_nil]
  rw [h]; simp

theorem jt_block_comma (n : Nat) (a : Text) (d : J) (lvl : Nat) (ha : CommaOk n a) :
    jt ((appendLast (a :: tl d lvl) [44]).map (ppLine n)) = jt ((a :: tl d lvl).map (ppLine n)) ++ [44] := by
  rcases block_last a d lvl with ⟨_, e⟩ | ⟨inner, c, hc, e⟩
  · rw [e]; exact jt_map_comma n [] a ha
  · rw [e]; exact jt_map_comma n (a :: inner) _ (CommaOk_closing n lvl c hc)

theorem pp_itemFirst (n lvl : Nat) (x : J) :
    ppLine n (indentOf lvl ++ firstLineOf x) = indentOf lvl ++ firstLineOf x := by
  have := ppLine_itemLine n (4 * lvl) x [] (by simp)
  simpa [indentOf] using this

theorem CommaOk_itemFirst (n lvl : Nat) (x : J) : CommaOk n (indentOf lvl ++ firstLineOf x) := by
  unfold CommaOk
  rw [pp_itemFirst]
  exact ppLine_itemLine n (4 * lvl) x [44] (by simp)

theorem pp_memberFirst (n lvl : Nat) (k : Text) (v : J) :
    ppLine n (indentOf lvl ++ renderStr k ++ 58 :: 32 :: firstLineOf v)
      = indentOf lvl ++ renderStr k ++ [58] ++ alignGap n lvl k v ++ [32] ++ firstLineOf v := by
  unfold indentOf
  rw [ppLine_member]
  simp [alignGap]

theorem CommaOk_memberFirst (n lvl : Nat) (k : Text) (v : J) :
    CommaOk n (indentOf lvl ++ renderStr k ++ 58 :: 32 :: firstLineOf v) := by
  unfold CommaOk
  have e : (indentOf lvl ++ renderStr k ++ 58 :: 32 :: firstLineOf v) ++ [44]
      = spaces (4 * lvl) ++ renderStr k ++ 58 :: 32 :: (firstLineOf v ++ [44]) := by simp [indentOf]
  rw [e, ppLine_member, pp_memberFirst]
  have hc : (renderStr k ++ (firstLineOf v ++ [44])).contains 123 = (renderStr k ++ firstLineOf v).contains 123 := by
    simp
  rw [hc]
  simp [alignGap, indentOf]

theorem jt_itemBlock (n lvl : Nat) (x : J) :
    jt (((indentOf lvl ++ firstLineOf x) :: tl x lvl).map (ppLine n))
      = 10 :: (indentOf lvl ++ (firstLineOf x ++ jt ((tl x lvl).map (ppLine n)))) := by
  rw [List.map_cons, jt_cons, pp_itemFirst]; simp

theorem jt_memberBlock (n lvl : Nat) (k : Text) (v : J) :
    jt (((indentOf lvl ++ renderStr k ++ 58 :: 32 :: firstLineOf v) :: tl v lvl).map (ppLine n))
      = 10 :: (indentOf lvl ++ renderStr k ++ [58] ++ alignGap n lvl k v ++ [32]
          ++ (firstLineOf v ++ jt ((tl v lvl).map (ppLine n)))) := by
  rw [List.map_cons, jt_cons, pp_memberFirst]; simp

/-! ### the structural induction -/

mutual
  theorem align_tl (n : Nat) : ∀ (d : J) (lvl : Nat),
      firstLineOf d ++ jt ((tl d lvl).map (ppLine n)) = aText n d lvl
    | .null, _ => by simp [tl, dumpsLines, firstLineOf, aText, jt]
    | .bool true, _ => by simp [tl, dumpsLines, firstLineOf, aText, jt]
    | .bool false, _ => by simp [tl, dumpsLines, firstLineOf, aText, jt]
    | .num _, _ => by simp [tl, dumpsLines, firstLineOf, aText, jt]
    | .str _, _ => by simp [tl, dumpsLines, firstLineOf, aText, jt]
    | .arr [], _ => by simp [tl, dumpsLines, firstLineOf, aText, jt]
    | .arr (x :: xs), lvl => by
      have e : s "[" = [91] := by decide
      rw [tl_arr, List.map_append, jt_append, align_items n (x :: xs) (lvl + 1) (by simp)]
      simp only [List.map_cons, List.map_nil, jt_cons, jt_nil, pp_closing n lvl 93 (.inl rfl)]
      simp [firstLineOf, aText, e]
    | .obj [], _ => by simp [tl, dumpsLines, firstLineOf, aText, jt]
    | .obj (kv :: kvs), lvl => by
      have e : s "{" = [123] := by decide
      rw [tl_obj, List.map_append, jt_append, align_members n (kv :: kvs) (lvl + 1) (by simp)]
      simp only [List.map_cons, List.map_nil, jt_cons, jt_nil, pp_closing n lvl 125 (.inr rfl)]
      simp [firstLineOf, aText, e]
  theorem align_items (n : Nat) : ∀ (xs : List J) (lvl : Nat), xs ≠ [] →
      jt ((dumpsItems xs lvl).map (ppLine n)) = 10 :: aItems n xs lvl
    | [], _, h => absurd rfl h
    | [x], lvl, _ => by
      rw [dumpsItems_one, jt_itemBlock, align_tl n x lvl]; simp [aItems]
    | x :: y :: r, lvl, _ => by
      rw [dumpsItems_more, List.map_append, jt_append, jt_block_comma n _ x lvl (CommaOk_itemFirst n lvl x),
        jt_itemBlock, align_tl n x lvl, align_items n (y :: r) lvl (by simp)]
      simp [aItems]
  theorem align_members (n : Nat) : ∀ (xs : List (Text × J)) (lvl : Nat), xs ≠ [] →
      jt ((dumpsMembers xs lvl).map (ppLine n)) = 10 :: aMembers n xs lvl
    | [], _, h => absurd rfl h
    | [(k, v)], lvl, _ => by
      rw [dumpsMembers_one, jt_memberBlock, align_tl n v lvl]; simp [aMembers]
    | (k, v) :: kv :: r, lvl, _ => by
      rw [dumpsMembers_more, List.map_append, jt_append, jt_block_comma n _ v lvl (CommaOk_memberFirst n lvl k v),
        jt_memberBlock, align_tl n v lvl, align_members n (kv :: r) lvl (by simp)]
      simp [aMembers]
end

/-- ★ text-level alignment of the dumped document = structural rendering with the gap after each member's colon -/
theorem prettyPrint_dumps (n : Nat) (d : J) : prettyPrint n (dumps d) = aText n d 0 := by
  unfold prettyPrint dumps
  rw [dumpsLines_cons, joinWith_cons, splitNL_join _ _ (nl_firstLineOf d) (NL_tl d 0), List.map_cons,
    joinWith_cons]
  have h := pp_itemFirst n 0 d
  simp only [indentOf, spaces, Nat.mul_zero, List.replicate_zero, List.nil_append] at h
  rw [h]
  exact align_tl n d 0

end Pel
