import PelModel.Dump
import PelProofs.Basic
import PelProofs.HexDumpParse
/- Lemmas about the I/O-drawer dump splitter (C17): header search, sorting, region slicing,
   and the template auto-detection of `parseDumpFile`. -/
namespace Pel

/-! ### `findSub` -/

theorem findSub_some_aux (pat : Bytes) : ∀ (b : Bytes) (i k : Nat), findSub pat b i = some k →
    i ≤ k ∧ k - i ≤ b.length ∧ pat.isPrefixOf (b.drop (k - i)) = true ∧
      ∀ j, j < k - i → pat.isPrefixOf (b.drop j) = false := by
  intro b
  induction b with
  | nil =>
    intro i k h
    simp only [findSub] at h
    split at h
    · rename_i he
      have hk : i = k := by simpa using h
      subst hk
      have hp : pat = [] := by simpa using he
      subst hp
      simp
    · simp at h
  | cons x r ih =>
    intro i k h
    simp only [findSub] at h
    split at h
    · rename_i hp
      have hk : i = k := by simpa using h
      subst hk
      simp [hp]
    · rename_i hp
      obtain ⟨h1, h2, h3, h4⟩ := ih (i + 1) k h
      have e : k - i = (k - (i + 1)) + 1 := by omega
      refine ⟨by omega, ?_, ?_, ?_⟩
      · simp only [List.length_cons]; omega
      · rw [e, List.drop_succ_cons]; exact h3
      · intro j hj
        cases j with
        | zero => exact Bool.eq_false_iff.mpr hp
        | succ j =>
          rw [List.drop_succ_cons]
          exact h4 j (by omega)

theorem findSub_none_aux (pat : Bytes) : ∀ (b : Bytes) (i : Nat), findSub pat b i = none →
    ∀ j, j ≤ b.length → pat.isPrefixOf (b.drop j) = false := by
  intro b
  induction b with
  | nil =>
    intro i h j hj
    simp only [findSub] at h
    split at h
    · simp at h
    · rename_i he
      cases pat with
      | nil => simp at he
      | cons p ps => simp
  | cons x r ih =>
    intro i h j hj
    simp only [findSub] at h
    split at h
    · simp at h
    · rename_i hp
      cases j with
      | zero => exact Bool.eq_false_iff.mpr hp
      | succ j =>
        rw [List.drop_succ_cons]
        exact ih (i + 1) h j (by simpa using hj)

/-! ### insertion sort -/

theorem mem_insertSorted (a x : Nat) : ∀ (l : List Nat), x ∈ insertSorted a l ↔ x = a ∨ x ∈ l := by
  intro l
  induction l with
  | nil => simp [insertSorted]
  | cons y ys ih =>
    simp only [insertSorted]
    split
    · simp
    · simp only [List.mem_cons, ih]
      constructor
      · rintro (h | h | h)
        · exact Or.inr (Or.inl h)
        · exact Or.inl h
        · exact Or.inr (Or.inr h)
      · rintro (h | h | h)
        · exact Or.inr (Or.inl h)
        · exact Or.inl h
        · exact Or.inr (Or.inr h)

theorem pairwise_insertSorted (a : Nat) : ∀ (l : List Nat), l.Pairwise (· ≤ ·) →
    (insertSorted a l).Pairwise (· ≤ ·) := by
  intro l
  induction l with
  | nil => intro _; simp [insertSorted]
  | cons y ys ih =>
    intro h
    rw [List.pairwise_cons] at h
    simp only [insertSorted]
    split
    · rename_i hay
      rw [List.pairwise_cons]
      refine ⟨?_, List.pairwise_cons.mpr h⟩
      intro z hz
      rcases List.mem_cons.mp hz with rfl | hz
      · exact hay
      · exact Nat.le_trans hay (h.1 z hz)
    · rename_i hay
      rw [List.pairwise_cons]
      refine ⟨?_, ih h.2⟩
      intro z hz
      rcases (mem_insertSorted a z ys).mp hz with rfl | hz
      · omega
      · exact h.1 z hz

theorem mem_sortNat (x : Nat) : ∀ (l : List Nat), x ∈ sortNat l ↔ x ∈ l := by
  intro l
  induction l with
  | nil => simp [sortNat]
  | cons y ys ih => simp [sortNat, mem_insertSorted, ih]

theorem pairwise_sortNat : ∀ (l : List Nat), (sortNat l).Pairwise (· ≤ ·) := by
  intro l
  induction l with
  | nil => simp [sortNat]
  | cons y ys ih => exact pairwise_insertSorted y _ ih

theorem mem_bufferOffsets (b : Bytes) (o : Nat) :
    o ∈ bufferOffsets b ↔ ∃ nm ∈ bufferNames, findSub (traceHeaderStart ++ nm) b 0 = some o := by
  unfold bufferOffsets
  rw [mem_sortNat, List.mem_filterMap]

theorem bufferOffsets_pairwise (b : Bytes) : (bufferOffsets b).Pairwise (· ≤ ·) :=
  pairwise_sortNat _

theorem bufferOffsets_le (b : Bytes) : ∀ o ∈ bufferOffsets b, o ≤ b.length := by
  intro o ho
  obtain ⟨nm, _, h⟩ := (mem_bufferOffsets b o).mp ho
  have := (findSub_some_aux _ b 0 o h).2.1
  omega

/-! ### regions -/

theorem take_drop_append_drop (b : Bytes) (o o' : Nat) (h : o ≤ o') :
    (b.drop o).take (o' - o) ++ b.drop o' = b.drop o := by
  have e : b.drop o' = (b.drop o).drop (o' - o) := by
    rw [List.drop_drop]; congr 1; omega
  rw [e, List.take_append_drop]

theorem traceRegions_flatten (b : Bytes) : ∀ (os : List Nat) (o : Nat), (o :: os).Pairwise (· ≤ ·) →
    (traceRegions b (o :: os)).flatten = b.drop o := by
  intro os
  induction os with
  | nil => intro o _; simp [traceRegions]
  | cons o' os ih =>
    intro o h
    rw [List.pairwise_cons] at h
    simp only [traceRegions, List.flatten_cons]
    rw [ih o' h.2]
    exact take_drop_append_drop b o o' (h.1 o' (by simp))

theorem regions_partition (b : Bytes) (offs : List Nat) (h : offs.Pairwise (· ≤ ·)) :
    ilogRegion b offs ++ (traceRegions b offs).flatten = b := by
  cases offs with
  | nil => simp [ilogRegion, traceRegions]
  | cons o os =>
    rw [traceRegions_flatten b os o h]
    simp [ilogRegion]

/-! ### pre-BMC lines under the BMC template -/

theorem preLine_rstrip (pad : Bool) (ck : Bytes) (hne : ck ≠ []) : rstripNL (preLine pad ck) = preLine pad ck := by
  cases pad with
  | true =>
    simp only [preLine, if_true]
    apply rstripNL_append_of_all_ne
    · intro h
      have := congrArg List.length h
      simp at this
    · exact ljust_text_all_ne_nl 16 ck
  | false =>
    simp only [preLine, Bool.false_eq_true, if_false]
    have e : preRaw ck = [] ++ preRaw ck := by simp
    rw [e]
    apply rstripNL_append_of_all_ne
    · intro h
      have h2 := congrArg List.length h
      rw [preRaw_length] at h2
      have : 0 < ck.length := List.length_pos_iff.mpr hne
      simp at h2; omega
    · exact preRaw_all_ne_nl ck

theorem fmtBmc_head : fmtBmc = chA :: chA :: chA :: fmtBmc.drop 3 := by decide

theorem parseGo_bmc_preRaw (ck : Bytes) (hne : ck ≠ []) (R : Text) : parseGo fmtBmc (preRaw ck ++ R) none [] = [] := by
  match ck, hne with
  | b :: bs, _ =>
    rw [fmtBmc_head]
    simp only [preRaw, List.cons_append, List.nil_append]
    rw [parseGo_A _ _ _ _ _ (isHexDigit_hexU _), parseGo_A _ _ _ _ _ (isHexDigit_hexU _)]
    simp [parseGo, isHexDigit]

theorem parseLine_bmc_preLine (pad : Bool) (ck : Bytes) (hne : ck ≠ []) (_hk : ck.length ≤ 16) :
    parseLine fmtBmc (preLine pad ck) = [] := by
  unfold parseLine
  simp only [preLine_rstrip pad ck hne]
  split
  · cases pad with
    | true =>
      simp only [preLine, if_true, ljust, List.append_assoc]
      exact parseGo_bmc_preRaw ck hne _
    | false =>
      simp only [preLine, Bool.false_eq_true, if_false]
      have := parseGo_bmc_preRaw ck hne []
      simpa using this
  · rfl

theorem renderPre_lines (pad : Bool) : ∀ (n : Nat) (b : Bytes), b.length ≤ n →
    ∀ t ∈ renderPre pad b, ∃ ck : Bytes, ck ≠ [] ∧ ck.length ≤ 16 ∧ t = preLine pad ck := by
  intro n
  induction n with
  | zero =>
    intro b h t ht
    have : b = [] := List.length_eq_zero_iff.mp (by omega)
    subst this; unfold renderPre at ht; simp at ht
  | succ n ih =>
    intro b h t ht
    by_cases hne : b = []
    · subst hne; unfold renderPre at ht; simp at ht
    · have hpos : 0 < b.length := List.length_pos_iff.mpr hne
      unfold renderPre at ht
      simp only [hne, dite_false, List.mem_cons] at ht
      rcases ht with rfl | ht
      · exact ⟨b.take 16, take_ne_nil b 16 hne (by omega), by simp; omega, rfl⟩
      · exact ih (b.drop 16) (by simp; omega) t ht

/-- a pre-BMC file yields no bytes under the BMC template -/
theorem parseDump_bmc_of_pre (pad : Bool) (b : Bytes) (text : List Text)
    (h : (text.map rstripNL).filter (fun t => !isNoise t) = renderPre pad b) :
    parseDump fmtBmc text = [] := by
  have h1 : parseDump fmtBmc text = parseDump fmtBmc (text.map rstripNL) := by
    simp only [parseDump, List.flatMap_map]
    congr 1; funext t; exact (parseLine_rstrip fmtBmc t).symm
  rw [h1]
  unfold parseDump
  rw [flatMap_filter_of_nil (parseLine fmtBmc) (fun t => !isNoise t) (text.map rstripNL)]
  · rw [h]
    rw [List.flatMap_eq_nil_iff]
    intro t ht
    obtain ⟨ck, hne, hk, rfl⟩ := renderPre_lines pad b.length b (Nat.le_refl _) t ht
    exact parseLine_bmc_preLine pad ck hne hk
  · intro x hx hn
    obtain ⟨t, _, rfl⟩ := List.mem_map.mp hx
    apply parseLine_noise fmtBmc _ (Or.inl (by decide))
    have e : rstripNL (rstripNL t) = rstripNL t := rstripChar_idem 10 t
    rw [e]
    simpa using hn

/-- a file all of whose lines are noise yields no bytes under either template -/
theorem parseDump_all_noise (fmt : Text) (hf : fmt.head? = some chA ∨ fmt.head? = some chD) (text : List Text)
    (h : (text.map rstripNL).filter (fun t => !isNoise t) = []) : parseDump fmt text = [] := by
  unfold parseDump
  rw [List.flatMap_eq_nil_iff]
  intro t ht
  apply parseLine_noise fmt t hf
  rw [List.filter_eq_nil_iff] at h
  have := h (rstripNL t) (List.mem_map.mpr ⟨t, ht, rfl⟩)
  simpa using this

theorem renderBmc_nil (pad : Bool) : renderBmc pad [] = [] := by
  unfold renderBmc renderBmcFrom; simp

theorem renderPre_nil (pad : Bool) : renderPre pad [] = [] := by
  unfold renderPre; simp

end Pel
