import PelProofs.Main
import PelModel.TransPeltool
/-
  Helper lemmas for the source ties of stream `peltool` (PelProps/TieC01|C07|C10|C11.lean): bit-operation and text-literal
  normal forms, the normal form of one `if args.x: config.y = …` statement, `dispatch` in observable terms from the
  declarative `Chain`, and injectivity of the exit messages.
-/
namespace Pel

/-! ### integers and literals -/

theorem and_255 (x : Nat) : x &&& 255 = x % 256 := Nat.and_two_pow_sub_one_eq_mod x 8
theorem and_65535 (x : Nat) : x &&& 65535 = x % 65536 := Nat.and_two_pow_sub_one_eq_mod x 16
theorem and_15 (x : Nat) : x &&& 15 = x % 16 := Nat.and_two_pow_sub_one_eq_mod x 4
theorem s_lit_0X : s "0X" = [48, 88] := by decide
theorem s_Unknown : s "Unknown" = [85, 110, 107, 110, 111, 119, 110] := by decide

/-! ### `sevMatches` as a fold (a `for` loop with an early `return True`) -/

theorem sevMatches_foldr (sev : Nat) (l : List Nat) :
    l.foldr (fun g rest => if (sev >>> 4 == g) = true then true else rest) false = sevMatches sev l := by
  induction l with
  | nil => rfl
  | cons x xs ih => simp only [List.foldr_cons, sevMatches, ih]

/-- a loop `for x in l: if p(x): return True` followed by `return False` -/
theorem foldr_early_true {α : Type} (p : α → Bool) (l : List α) :
    l.foldr (fun x rest => if p x = true then true else rest) false = l.any p := by
  induction l with
  | nil => rfl
  | cons x xs ih => simp only [List.foldr_cons, List.any_cons, ih]; cases p x <;> rfl

theorem sevMatches_any (sev : Nat) (l : List Nat) : sevMatches sev l = l.any (fun g => sev >>> 4 == g) := by
  induction l with
  | nil => rfl
  | cons x xs ih => simp only [sevMatches, List.any_cons, ih]; cases (sev >>> 4 == x) <;> rfl

/-! ### one statement of the `Config` block, for any `Config` it is applied to -/

theorem when_allowPlugins (c : MainCfg) (b : Bool) :
    c.when b (fun c => { c with allowPlugins := false }) = { c with allowPlugins := !b && c.allowPlugins } := by cases b <;> rfl
theorem when_hex (c : MainCfg) (b : Bool) : c.when b (fun c => { c with hex := true }) = { c with hex := b || c.hex } := by cases b <;> rfl
theorem when_rev (c : MainCfg) (b : Bool) : c.when b (fun c => { c with rev := true }) = { c with rev := b || c.rev } := by cases b <;> rfl
theorem when_serviceable (c : MainCfg) (b : Bool) : c.when b (fun c => { c with sel := { c.sel with serviceable := true } }) =
    { c with sel := { c.sel with serviceable := b || c.sel.serviceable } } := by cases b <;> rfl
theorem when_nonServiceable (c : MainCfg) (b : Bool) : c.when b (fun c => { c with sel := { c.sel with nonServiceable := true } }) =
    { c with sel := { c.sel with nonServiceable := b || c.sel.nonServiceable } } := by cases b <;> rfl
theorem when_term (c : MainCfg) (b : Bool) : c.when b (fun c => { c with sel := { c.sel with term := true } }) =
    { c with sel := { c.sel with term := b || c.sel.term } } := by cases b <;> rfl
theorem when_hidden (c : MainCfg) (b : Bool) : c.when b (fun c => { c with sel := { c.sel with hidden := true } }) =
    { c with sel := { c.sel with hidden := b || c.sel.hidden } } := by cases b <;> rfl
theorem when_only (c : MainCfg) (b : Bool) : c.when b (fun c => { c with sel := { c.sel with only := true } }) =
    { c with sel := { c.sel with only := b || c.sel.only } } := by cases b <;> rfl
theorem when_every (c : MainCfg) (b : Bool) : c.when b (fun c => { c with sel := { c.sel with every := true } }) =
    { c with sel := { c.sel with every := b || c.sel.every } } := by cases b <;> rfl
theorem when_severities (c : MainCfg) (t : List (Text × Nat)) (l : List Text) :
    c.when (!l.isEmpty) (fun c => { c with sel := { c.sel with severities := c.sel.severities ++ l.filterMap (sevLookup t) } }) =
    { c with sel := { c.sel with severities := c.sel.severities ++ l.filterMap (sevLookup t) } } := by
  cases l with
  | nil => simp [MainCfg.when]
  | cons x xs => rfl
theorem when_ext (c : MainCfg) (e : Option Text) :
    c.when (truthy e) (fun c => { c with ext := e }) = { c with ext := (tv e).or c.ext } := by
  cases e with
  | none => rfl
  | some v => cases v <;> rfl

/-- the `Config` block in normal form (all members of `mkConfig` at once, as an equation between records whose members are
    written with the same operators as the `when_*` lemmas produce) -/
theorem mkConfig_normal (t : List (Text × Nat)) (a : Args) :
    mkConfig t a =
      { sel := { every := a.every || false, term := a.term || false, serviceable := a.serviceable || false,
                 nonServiceable := a.nonServiceable || false, hidden := a.hidden || false, only := a.only || false,
                 severities := [] ++ a.severities.filterMap (sevLookup t), lookup := false },
        allowPlugins := !a.skipPlugins && true, hex := a.hex || false, rev := a.reverse || false, ext := (tv a.extension).or none } := by
  rw [mkConfig_eq]; simp

/-! ### `dispatch` in observable terms -/

theorem dispatch_cfg_of_lookup (fs : FsView) (a : Args) :
    (dispatch fs a).2 = (if (dispatch fs a).2.sel.lookup then (mkConfig severityGroupTable a).withLookup else mkConfig severityGroupTable a) := by
  rcases dispatch_cfg fs a with h | h
  · rw [h, mkConfig_lookup]; rfl
  · rw [h]; rfl

/-- what the generated chain has to be compared with, rule by rule of the declarative chain -/
theorem eq_dispatchOutcome_of_chain (g : FsView → Args → PyOutcome × MainCfg)
    (H : ∀ fs a act lk, Chain fs a act lk →
      g fs a = (act.outcome, if lk then (mkConfig severityGroupTable a).withLookup else mkConfig severityGroupTable a)) :
    g = dispatchOutcome := by
  funext fs a
  rw [H fs a _ _ (dispatch_chain fs a), dispatchOutcome, ← dispatch_cfg_of_lookup]

/-! ### the exit messages determine the exit site -/

theorem append_right_cancel_lit {a b l : Text} (h : a ++ l = b ++ l) : a = b := List.append_cancel_right h

theorem exitText_injective : ∀ x y : ExitSite, exitText x = exitText y → x = y := by
  have last : ∀ (p : Text) (c : Nat) (l : Text), (p ++ (l ++ [c])).getLast? = some c := by
    intro p c l; rw [← List.append_assoc]; simp
  have eNoPath : (exitText .noPath).getLast? = some 46 := by decide
  have eNotDir : ∀ p, (exitText (.notDir p)).getLast? = some 121 := fun p =>
    last p 121 [32, 105, 115, 32, 110, 111, 116, 32, 97, 32, 118, 97, 108, 105, 100, 32, 100, 105, 114, 101, 99, 116, 111, 114]
  have eOut : ∀ d, (exitText (.noOutputDir d)).getLast? = some 116 := fun d =>
    last (s "Output directory " ++ d) 116 [32, 100, 111, 101, 115, 110, 39, 116, 32, 101, 120, 105, 115]
  have eIn : ∀ f, (exitText (.noExcludeFile f)).getLast? = some 33 := fun f =>
    last (s "Input " ++ f) 33 [32, 102, 105, 108, 101, 32, 100, 111, 101, 115, 110, 39, 116, 32, 101, 120, 105, 115, 116]
  intro x y h
  have hl := congrArg List.getLast? h
  cases x <;> cases y <;>
    first
    | rfl
    | (simp only [eNoPath, eNotDir, eOut, eIn, Option.some.injEq] at hl; omega)
    | (simp only [exitText] at h
       first
       | (have := List.append_cancel_right h; subst this; rfl)
       | (have := List.append_cancel_left (List.append_cancel_right h); subst this; rfl))

theorem Action.outcome_injective : ∀ x y : Action, x.outcome = y.outcome → x = y := by
  intro x y h
  cases x <;> cases y <;> simp only [Action.outcome, PyOutcome.call.injEq, PyOutcome.exit.injEq, reduceCtorEq] at h <;>
    first
    | rfl
    | exact h
    | exact congrArg Action.exitMsg (exitText_injective _ _ h)

/-- nothing is lost by looking at `dispatch` through `Action.outcome` -/
theorem dispatchOutcome_determines (fs : FsView) (a : Args) (act : Action) (c : MainCfg)
    (h : dispatchOutcome fs a = (act.outcome, c)) : dispatch fs a = (act, c) := by
  simp only [dispatchOutcome, Prod.mk.injEq] at h
  exact Prod.ext (Action.outcome_injective _ _ h.1) h.2

/-! ### the `-j` filter -/

theorem mkConfig_ext_ne_empty (t : List (Text × Nat)) (a : Args) : (mkConfig t a).ext ≠ some [] := by
  rw [mkConfig_eq]
  simp only
  cases h : a.extension with
  | none => simp [tv]
  | some v => cases v <;> simp [tv]

theorem dispatch_ext_ne_empty (fs : FsView) (a : Args) : (dispatch fs a).2.ext ≠ some [] := by
  rcases dispatch_cfg fs a with h | h <;> rw [h]
  · exact mkConfig_ext_ne_empty _ a
  · exact mkConfig_ext_ne_empty _ a

/-! ### tactics shared by the tie modules -/

/-- `<translated Config block> = mkConfig t a`: literally the model's text, or the same statements in another order / shape -/
macro "tie_config_block" : tactic => `(tactic| first
  | rfl
  | (simp only [when_allowPlugins, when_hex, when_rev, when_serviceable, when_nonServiceable, when_term, when_hidden, when_only,
       when_every, when_severities, when_ext, mkConfig_normal]
     done)
  | (simp only [when_allowPlugins, when_hex, when_rev, when_serviceable, when_nonServiceable, when_term, when_hidden, when_only,
       when_every, when_severities, when_ext, mkConfig_normal]
     rfl)
  | (simp only [when_allowPlugins, when_hex, when_rev, when_serviceable, when_nonServiceable, when_term, when_hidden, when_only,
       when_every, when_severities, when_ext, mkConfig_normal]
     simp [Bool.or_comm, Bool.and_comm]
     done))

end Pel
