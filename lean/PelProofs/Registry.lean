import PelModel.PelSpec
/-
  Lemmas about the message-registry model (`errorDetails`, `fillMsg`, `wordDescs`; PelModel/Src.lean) used by C03.
-/
namespace Pel

/-! ### `fillMsg` -/

theorem fillMsg_cons2 (c d : Nat) (rest : Text) (args : List Text) :
    fillMsg (c :: d :: rest) args =
      (if c = 37 ∧ 49 ≤ d ∧ d ≤ 57 then
        match args with
        | [] => none
        | a :: as => (fillMsg rest as).map (a ++ ·)
      else (fillMsg (d :: rest) args).map (c :: ·)) := rfl

theorem fillMsg_cons_ne (c : Nat) (t : Text) (args : List Text) (hc : c ≠ 37) :
    fillMsg (c :: t) args = (fillMsg t args).map (c :: ·) := by
  cases t with
  | nil => simp [fillMsg]
  | cons d rest =>
    rw [fillMsg_cons2, if_neg (by intro h; exact hc h.1)]

theorem fillMsg_seg (seg t : Text) (args : List Text) (hs : ∀ c ∈ seg, c ≠ 37) :
    fillMsg (seg ++ t) args = (fillMsg t args).map (seg ++ ·) := by
  induction seg with
  | nil => simp
  | cons c r ih =>
    rw [List.cons_append, fillMsg_cons_ne c _ _ (hs c (by simp)), ih (fun x hx => hs x (by simp [hx])), Option.map_map]
    rfl

theorem fillMsg_placeholder (d : Nat) (t : Text) (a : Text) (as : List Text) (hd : 1 ≤ d ∧ d ≤ 9) :
    fillMsg (37 :: (48 + d) :: t) (a :: as) = (fillMsg t as).map (a ++ ·) := by
  rw [fillMsg_cons2, if_pos ⟨rfl, by omega, by omega⟩]

theorem fillMsg_placeholder_nil (d : Nat) (t : Text) (hd : 1 ≤ d ∧ d ≤ 9) :
    fillMsg (37 :: (48 + d) :: t) [] = none := by
  rw [fillMsg_cons2, if_pos ⟨rfl, by omega, by omega⟩]

theorem fillMsg_plain (seg : Text) (args : List Text) (hs : ∀ c ∈ seg, c ≠ 37) : fillMsg seg args = some seg := by
  have := fillMsg_seg seg [] args hs
  simpa [fillMsg] using this

/-- the placeholders of a message are filled, in order of occurrence, with the arguments (extra arguments are ignored) -/
theorem fillMsg_join (segs : List Text) : ∀ (digits : List Nat) (args : List Text),
    segs.length = digits.length + 1 → (∀ d ∈ digits, 1 ≤ d ∧ d ≤ 9) → (∀ seg ∈ segs, ∀ c ∈ seg, c ≠ 37) →
    digits.length ≤ args.length →
    fillMsg (joinPlaceholders segs digits) args = some (interleave segs args) := by
  induction segs with
  | nil => intro digits args hl; simp at hl
  | cons seg rest ih =>
    intro digits args hl hd hs ha
    cases rest with
    | nil =>
      simp only [joinPlaceholders, interleave]
      exact fillMsg_plain seg args (hs seg (by simp))
    | cons seg2 rest2 =>
      cases digits with
      | nil => simp at hl
      | cons d ds =>
        cases args with
        | nil => simp at ha
        | cons a as =>
          simp only [joinPlaceholders, interleave]
          rw [List.append_assoc, fillMsg_seg seg _ _ (hs seg (by simp))]
          simp only [List.cons_append, List.nil_append]
          rw [fillMsg_placeholder d _ a as (hd d (by simp)),
            ih ds as (by simp at hl ⊢; omega) (fun x hx => hd x (by simp [hx])) (fun x hx => hs x (by simp [hx]))
              (by simp at ha; omega)]
          simp

/-- more placeholders than arguments: IndexError -/
theorem fillMsg_too_few (segs : List Text) : ∀ (digits : List Nat) (args : List Text),
    segs.length = digits.length + 1 → (∀ d ∈ digits, 1 ≤ d ∧ d ≤ 9) → (∀ seg ∈ segs, ∀ c ∈ seg, c ≠ 37) →
    args.length < digits.length →
    fillMsg (joinPlaceholders segs digits) args = none := by
  induction segs with
  | nil => intro digits args hl; simp at hl
  | cons seg rest ih =>
    intro digits args hl hd hs ha
    cases rest with
    | nil => simp at hl; subst hl; simp at ha
    | cons seg2 rest2 =>
      cases digits with
      | nil => simp at hl
      | cons d ds =>
        simp only [joinPlaceholders]
        rw [List.append_assoc, fillMsg_seg seg _ _ (hs seg (by simp))]
        simp only [List.cons_append, List.nil_append]
        cases args with
        | nil => rw [fillMsg_placeholder_nil d _ (hd d (by simp))]; rfl
        | cons a as =>
          rw [fillMsg_placeholder d _ a as (hd d (by simp)),
            ih ds as (by simp at hl ⊢; omega) (fun x hx => hd x (by simp [hx])) (fun x hx => hs x (by simp [hx]))
              (by simp at ha; omega)]
          rfl

theorem hasBrace_join (segs : List Text) : ∀ (digits : List Nat),
    (∀ d ∈ digits, 1 ≤ d ∧ d ≤ 9) → (∀ seg ∈ segs, ∀ c ∈ seg, c ≠ 123 ∧ c ≠ 125) →
    hasBrace (joinPlaceholders segs digits) = false := by
  induction segs with
  | nil => intro digits _ _; rfl
  | cons seg rest ih =>
    intro digits hd hs
    have hseg : hasBrace seg = false := by
      unfold hasBrace
      rw [List.any_eq_false]
      intro c hc
      have := hs seg (by simp) c hc
      simp [this.1, this.2]
    cases rest with
    | nil => simpa [joinPlaceholders] using hseg
    | cons seg2 rest2 =>
      have hrest : ∀ ds, (∀ d ∈ ds, 1 ≤ d ∧ d ≤ 9) → hasBrace (joinPlaceholders (seg2 :: rest2) ds) = false :=
        fun ds hds => ih ds hds (fun x hx => hs x (by simp [hx]))
      unfold hasBrace at hseg hrest ⊢
      cases digits with
      | nil =>
        simp only [joinPlaceholders, List.any_append, hseg, Bool.false_or]
        exact hrest [] (by simp)
      | cons d ds =>
        have hdd := hd d (by simp)
        simp only [joinPlaceholders, List.any_append, hseg, Bool.false_or, List.any_cons, List.any_nil, Bool.or_false]
        rw [hrest ds (fun x hx => hd x (by simp [hx]))]
        have h1 : (48 + d == 123) = false := by simp; omega
        have h2 : (48 + d == 125) = false := by simp; omega
        simp [h1, h2]

/-! ### argument sources -/

theorem pyWord_ge2 (words : List Nat) (n : Nat) (hn : 2 ≤ n) (hl : n - 2 < words.length) :
    pyWord words n = some (words.getD (n - 2) 0) := by
  unfold pyWord
  rw [if_pos hn, List.getD_eq_getElem?_getD, List.getElem?_eq_getElem hl]
  rfl

theorem argWord_digit (words : List Nat) (src : Text) (c : Nat) (hc : src.getLast? = some c) (h2 : 50 ≤ c ∧ c ≤ 57)
    (hw : words.length = 8) : argWord words src = .ok (srcWordHex words src) := by
  unfold argWord srcWordHex
  rw [hc]
  simp only [Option.getD_some]
  rw [if_neg (by omega), if_pos (by omega), pyWord_ge2 words (c - 48) (by omega) (by omega)]
  rfl

theorem argWords_digits (words : List Nat) (hw : words.length = 8) (srcs : List Text)
    (hs : ∀ src ∈ srcs, ∃ c, src.getLast? = some c ∧ 50 ≤ c ∧ c ≤ 57) :
    argWords words srcs = .ok (srcs.map (srcWordHex words)) := by
  induction srcs with
  | nil => rfl
  | cons a r ih =>
    obtain ⟨c, hc, h2⟩ := hs a (by simp)
    rw [argWords, argWord_digit words a c hc h2 hw, ih (fun x hx => hs x (by simp [hx]))]
    rfl

/-! ### first match -/

theorem regLookup_append_of_no_match (pre post : List RegEntry) (code ty : Text)
    (h : ∀ p ∈ pre, p.isMatch code ty = false) : regLookup (pre ++ post) code ty = regLookup post code ty := by
  unfold regLookup
  induction pre with
  | nil => rfl
  | cons a r ih =>
    rw [List.cons_append, List.find?_cons, h a (by simp)]
    exact ih (fun p hp => h p (by simp [hp]))

theorem regLookup_cons_match (e : RegEntry) (post : List RegEntry) (code ty : Text) (h : e.isMatch code ty = true) :
    regLookup (e :: post) code ty = some e := by
  unfold regLookup
  rw [List.find?_cons, h]

theorem regLookup_none (reg : List RegEntry) (code ty : Text) (h : ∀ p ∈ reg, p.isMatch code ty = false) :
    regLookup reg code ty = none := by
  unfold regLookup
  rw [List.find?_eq_none]
  intro p hp
  simp [h p hp]

/-- what `errorDetails` does with the entry found -/
def detailsOf (e : RegEntry) (words : List Nat) : ErrDet :=
  match buildMessage e words with
  | .fail => .fail
  | .unsupported => .unsupported
  | .ok msg =>
    if msg = [] then .none else
    match wordDescs words e.words [] with
    | .fail => .fail
    | .unsupported => .unsupported
    | .ok descs => .some (objUpdate [kv "Message" (jstr msg)] descs)

theorem errorDetails_eq (reg : List RegEntry) (ascii : Text) (words : List Nat) :
    errorDetails reg ascii words =
      (match regLookup reg (s "0x" ++ (ascii.drop 4).take 4) (ascii.take 2) with
        | none => .none
        | some e => detailsOf e words) := by
  unfold errorDetails detailsOf
  rfl

/-! ### the "Message" member survives `od.update(descs)` unless a description is filed under the key "Message" -/

theorem objSet_head_ne (k0 : Text) (v0 : J) (r : List (Text × J)) (k : Text) (v : J) (h : k0 ≠ k) :
    objSet ((k0, v0) :: r) k v = (k0, v0) :: objSet r k v := by
  rw [objSet, if_neg h]

theorem objSet_keys (l : List (Text × J)) (k : Text) (v : J) : ∀ p ∈ objSet l k v, p.1 = k ∨ p ∈ l := by
  induction l with
  | nil => intro p hp; simp [objSet] at hp; left; rw [hp]
  | cons a r ih =>
    intro p hp
    obtain ⟨k', v'⟩ := a
    rw [objSet] at hp
    split at hp
    · rcases List.mem_cons.1 hp with h | h
      · left; rw [h]
      · right; exact List.mem_cons_of_mem _ h
    · rcases List.mem_cons.1 hp with h | h
      · right; rw [h]; exact List.mem_cons_self
      · rcases ih p h with h' | h'
        · left; exact h'
        · right; exact List.mem_cons_of_mem _ h'

theorem objUpdate_head (k0 : Text) (v0 : J) (descs : List (Text × J)) (h : ∀ p ∈ descs, p.1 ≠ k0) :
    ∀ r, ∃ r', objUpdate ((k0, v0) :: r) descs = (k0, v0) :: r' := by
  unfold objUpdate
  induction descs with
  | nil => intro r; exact ⟨r, rfl⟩
  | cons a t ih =>
    intro r
    rw [List.foldl_cons, objSet_head_ne k0 v0 r a.1 a.2 (fun e => h a (by simp) e.symm)]
    exact ih (fun p hp => h p (by simp [hp])) _

theorem wordDescs_keys (words : List Nat) (ws : List RegWord) : ∀ (acc out : List (Text × J)),
    wordDescs words ws acc = .ok out → ∀ p ∈ out, p ∈ acc ∨ ∃ w ∈ ws, w.prop = some p.1 := by
  induction ws with
  | nil =>
    intro acc out h p hp
    rw [wordDescs] at h
    cases h
    left; exact hp
  | cons w r ih =>
    intro acc out h p hp
    rw [wordDescs] at h
    split at h
    · rcases ih acc out h p hp with h' | ⟨w', hw', hp'⟩
      · left; exact h'
      · right; exact ⟨w', by simp [hw'], hp'⟩
    · split at h
      · cases h
      · split at h
        · cases h
        · split at h
          · cases h
          · rename_i pk hpk
            rcases ih _ out h p hp with h' | ⟨w', hw', hp'⟩
            · rcases objSet_keys _ _ _ p h' with h'' | h''
              · right; exact ⟨w, by simp, by rw [hpk, h'']⟩
              · left; exact h''
            · right; exact ⟨w', by simp [hw'], hp'⟩

end Pel
