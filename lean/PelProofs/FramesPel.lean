import PelProofs.FramesDefs
import PelProofs.FramesSimple
import PelProofs.FramesSection
/- From section-level framing to the whole PEL. -/
namespace Pel

/-! Provided by other files (being proved in parallel): treat as given. -/

/-! Helper lemmas. -/

theorem decodeSections_succ (env : Env) (creator : Text) (n : Nat) :
    decodeSections env creator (n+1) =
      (decodeOne env creator >>= fun p => decodeSections env creator n >>= fun rest => pure (p :: rest)) := by
  simp only [decodeSections, decodeOne, bind_assoc, pure_bind]

theorem exceptAll_cons_ok {α} (a : Except Err α) (l : List (Except Err α)) (js : List α)
    (h : exceptAll (a :: l) = .ok js) : ∃ x js', a = .ok x ∧ exceptAll l = .ok js' ∧ js = x :: js' := by
  cases a with
  | error e => simp [exceptAll] at h
  | ok x =>
    simp only [exceptAll] at h
    split at h
    · rename_i l' hl
      refine ⟨x, l', rfl, hl, ?_⟩
      cases h; rfl
    · cases h

theorem exceptAll_length {α} (l : List (Except Err α)) (js : List α) (h : exceptAll l = .ok js) : js.length = l.length := by
  induction l generalizing js with
  | nil => simp [exceptAll] at h; subst h; rfl
  | cons a l ih =>
    obtain ⟨x, js', _, h2, rfl⟩ := exceptAll_cons_ok a l js h
    simp [ih js' h2]

theorem objSet_freshP (l : List (Text × J)) (k : Text) (v : J) (h : k ∉ l.map (·.1)) : objSet l k v = l ++ [(k, v)] := by
  induction l with
  | nil => rfl
  | cons a l ih =>
    obtain ⟨k', v'⟩ := a
    simp only [List.map_cons, List.mem_cons, not_or] at h
    simp only [objSet, if_neg (Ne.symm h.1), ih h.2, List.cons_append]

theorem countName_eq (name : Text) (l : List (Text × J)) :
    countName name l = ((l.map (·.1)).filter (· == name)).length := by
  simp [countName, List.filter_map, Function.comp_def]

theorem countName_append (name : Text) (a b : List (Text × J)) :
    countName name (a ++ b) = countName name a + countName name b := by
  simp [countName]

theorem numberNames_cons (A : List Text) (n : Text) (R : List Text) :
    numberNames (A ++ n :: R) (n :: R) =
      (if ((A ++ n :: R).filter (· == n)).length = 1 then n
       else n ++ [32] ++ natDec ((A.filter (· == n)).length)) :: numberNames (A ++ n :: R) R := by
  have : (A ++ n :: R).length - (n :: R).length = A.length := by simp
  simp only [numberNames, this, List.take_left']

theorem find_filter_ne (counters : List (Text × Nat)) (n name : Text) (h : name ≠ n) :
    (counters.filter (fun p => p.1 != n)).find? (fun p => p.1 == name) = counters.find? (fun p => p.1 == name) := by
  induction counters with
  | nil => rfl
  | cons a l ih =>
    rw [List.filter_cons]
    split
    · rw [List.find?_cons, List.find?_cons, ih]
    · rename_i hx
      have ha : a.1 = n := by simpa using hx
      have hb : (a.1 == name) = false := by rw [ha]; simpa using Ne.symm h
      rw [List.find?_cons, hb, ih]

theorem buildOutputGo_eq (l : List (Text × J)) : ∀ (pre : List (Text × J)) (counters : List (Text × Nat)) (out : List (Text × J))
    (_hc : ∀ name, countName name (pre ++ l) ≠ 1 →
      ((counters.find? (fun p => p.1 == name)).map (·.2)).getD 0 = countName name pre)
    (_hnodup : (out.map (·.1) ++ numberNames ((pre ++ l).map (·.1)) (l.map (·.1))).Nodup),
    buildOutputGo (pre ++ l) l counters out =
      out ++ (numberNames ((pre ++ l).map (·.1)) (l.map (·.1))).zip (l.map (·.2)) := by
  induction l with
  | nil => intro pre counters out _ _; simp [buildOutputGo, numberNames]
  | cons a r ih =>
    obtain ⟨n, j⟩ := a
    intro pre counters out hc hnodup
    have e : pre ++ (n, j) :: r = (pre ++ [(n, j)]) ++ r := by simp
    have hnn := numberNames_cons (pre.map (·.1)) n (r.map (·.1))
    have hmap : (pre ++ (n, j) :: r).map (·.1) = pre.map (·.1) ++ n :: r.map (·.1) := by simp
    simp only [List.map_cons, hmap, hnn] at hnodup ⊢
    have hcnt : ((pre.map (·.1) ++ n :: r.map (·.1)).filter (· == n)).length = countName n (pre ++ (n, j) :: r) := by
      rw [countName_eq, hmap]
    have hpre : ((pre.map (·.1)).filter (· == n)).length = countName n pre := by rw [countName_eq]
    rw [hcnt, hpre] at hnodup ⊢
    rw [← hmap] at hnodup ⊢
    unfold buildOutputGo
    by_cases h1 : countName n (pre ++ (n, j) :: r) = 1
    · simp only [h1, if_true] at hnodup ⊢
      have hfresh : n ∉ out.map (·.1) := by
        intro hmem
        have := (List.nodup_append.1 hnodup).2.2 n hmem n (by simp)
        exact this rfl
      rw [objSet_freshP out n j hfresh]
      have := ih (pre ++ [(n, j)]) counters (out ++ [(n, j)])
      rw [← e] at this
      rw [this]
      · simp
      · intro name hne
        have hnn : name ≠ n := by intro h; subst h; exact hne h1
        rw [hc name hne, countName_append]
        simp [countName, Ne.symm hnn]
      · simpa using hnodup
    · simp only [h1, if_false] at hnodup ⊢
      have hm := hc n h1
      simp only [hm]
      have hfresh : (n ++ [32] ++ natDec (countName n pre)) ∉ out.map (·.1) := by
        intro hmem
        have := (List.nodup_append.1 hnodup).2.2 _ hmem _ (List.mem_cons_self)
        exact this rfl
      rw [objSet_freshP out _ j hfresh]
      have := ih (pre ++ [(n, j)]) ((n, countName n pre + 1) :: counters.filter (fun p => p.1 != n))
        (out ++ [(n ++ [32] ++ natDec (countName n pre), j)])
      rw [← e] at this
      rw [this]
      · simp
      · intro name hne
        by_cases hnn : name = n
        · subst hnn
          simp [countName]
        · have h' : ¬ (n = name) := Ne.symm hnn
          have hb : (n == name) = false := by simpa using h'
          rw [List.find?_cons]
          simp only [hb, find_filter_ne counters n name hnn, hc name hne, countName_append]
          simp [countName, h']
      · simpa using hnodup

/-! To prove here. -/

/-- the section loop frames the concatenation of the encodings -/
theorem frames_sections (env : Env) (creator : Text) (secs : List ASection) (hs : ∀ sec ∈ secs, sec.WF) (js : List J)
    (hr : exceptAll (secs.map (renderSection env creator)) = .ok js) :
    Frames (decodeSections env creator secs.length) (secs.flatMap (·.enc))
      ((secs.map (fun sec => sectionName env.T sec.body.id)).zip js) := by
  induction secs generalizing js with
  | nil =>
    simp [exceptAll] at hr; subst hr
    exact Frames.pure _
  | cons sec secs ih =>
    obtain ⟨x, js', hx, hjs, rfl⟩ := exceptAll_cons_ok _ _ js hr
    have h1 := frames_section env creator sec (hs sec (by simp)) x hx
    have h2 := ih (fun s hsm => hs s (by simp [hsm])) js' hjs
    have h3 := Frames.bind h1 (f := fun p => decodeSections env creator secs.length >>= fun rest => pure (p :: rest))
      (Frames.bind h2 (f := fun rest => pure ((sectionName env.T sec.body.id, x) :: rest)) (Frames.pure _))
    rw [← decodeSections_succ] at h3
    simpa using h3

/-- `buildOutput`'s two-pass counter is the declarative numbering -/
theorem buildOutput_eq (secs : List (Text × J)) (out : List (Text × J))
    (hnodup : ((out.map (·.1)) ++ numberNames (secs.map (·.1)) (secs.map (·.1))).Nodup) :
    buildOutput secs out = out ++ (numberNames (secs.map (·.1)) (secs.map (·.1))).zip (secs.map (·.2)) := by
  have := buildOutputGo_eq secs [] [] out (by intro name _; simp [countName]) (by simpa using hnodup)
  simpa [buildOutput] using this

theorem objSet_two (a b : Text) (x y : J) (h : a ≠ b) : objSet (objSet [] a x) b y = [(a, x), (b, y)] := by
  simp [objSet, h]

/-- ★ the whole decoder frames the encoding of a well-formed, selected PEL: it yields exactly the prescribed document
    whatever follows the PEL, and fails on every proper prefix -/
theorem frames_pel (env : Env) (cfg : SelCfg) (p : APel) (hp : p.WF)
    (hsel : considerPEL p.uh.sev p.uh.af cfg = true) (d : J) (hr : render env p = .ok d)
    (hnames : (sectionName env.T sidPH :: sectionName env.T sidUH ::
        numberNames (p.sections.map (fun sec => sectionName env.T sec.body.id))
                    (p.sections.map (fun sec => sectionName env.T sec.body.id))).Nodup) :
    Frames (parsePELRd env cfg) p.enc (.doc (fmtHex 2 p.ph.eid) d) := by
  obtain ⟨hph, huh, hlen, hsecs⟩ := hp
  -- unfold the prescribed document
  cases hjs : exceptAll (p.sections.map (renderSection env [p.ph.creator])) with
  | error e => simp [render, hjs] at hr
  | ok js =>
  simp only [render, hjs, Except.ok.injEq] at hr
  subst hr
  have hjl : js.length = p.sections.length := by
    simpa using exceptAll_length _ _ hjs
  -- the five framed pieces
  have f1 := frames_parseHeader sidPH 40 p.ph.hdr hph.1 (by decide) (by decide)
  have f2 := frames_PH env.T p.ph hph (p.sections.length + 2) (by omega) (8 + 40)
  have f3 := frames_parseHeader sidUH 16 p.uh.hdr huh.1 (by decide) (by decide)
  have f4 := frames_UH env.T p.uh huh [p.ph.creator] (8 + 16)
  have f5 := frames_sections env [p.ph.creator] p.sections hsecs js hjs
  have hne : sectionName env.T sidPH ≠ sectionName env.T sidUH := by
    intro h
    have := (List.nodup_cons.1 hnames).1
    exact this (by rw [h]; simp)
  have e : p.enc = encHdr sidPH 40 p.ph.hdr ++ (p.ph.encBody (p.sections.length + 2) ++
      (encHdr sidUH 16 p.uh.hdr ++ (p.uh.encBody ++ (p.sections.flatMap (·.enc) ++ [])))) := by
    simp [APel.enc]
  rw [e]
  unfold parsePELRd
  refine Frames.bind f1 ?_
  simp only [mkSecHdr, ne_eq, not_true_eq_false, if_false]
  refine Frames.bind f2 ?_
  simp only
  refine Frames.bind f3 ?_
  simp only [mkSecHdr, not_true_eq_false, if_false]
  refine Frames.bind f4 ?_
  simp only [hsel, Bool.not_true, Bool.false_eq_true, if_false, Nat.add_sub_cancel]
  refine Frames.bind f5 ?_
  generalize hN : p.sections.map (fun sec => sectionName env.T sec.body.id) = names at hnames ⊢
  have hnl : names.length = js.length := by rw [← hN, hjl]; simp
  have hfst : (names.zip js).map (·.1) = names := by
    have := List.map_fst_zip (l₁ := names) (l₂ := js) (by omega)
    simpa using this
  have hsnd : (names.zip js).map (·.2) = js := by
    have := List.map_snd_zip (l₁ := names) (l₂ := js) (by omega)
    simpa using this
  have hb := buildOutput_eq (names.zip js)
    [(sectionName env.T sidPH, renderPH env.T p.ph), (sectionName env.T sidUH, renderUH env.T p.uh [p.ph.creator])]
    (by rw [hfst]; simpa using hnames)
  rw [objSet_two _ _ _ _ hne, hb, hfst, hsnd]
  exact Frames.pure _

end Pel
