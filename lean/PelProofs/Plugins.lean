import PelModel.Plugins
import PelModel.PelSpec
import PelProofs.Basic
namespace Pel
-- helper lemmas for C18 / C19

/-! ### caches (C19) -/

theorem lookCache_nil {β} (env : Text → β) (n : Text) : lookCache ([] : List (Text × β)) env n = env n := by
  simp [lookCache]

theorem lookCache_cons {β} (m : Text) (v : β) (c : List (Text × β)) (env : Text → β) (n : Text) :
    lookCache ((m, v) :: c) env n = if m = n then v else lookCache c env n := by
  unfold lookCache
  by_cases h : m = n
  · simp [h]
  · have : (m == n) = false := by simpa using h
    simp [this, h]

theorem storeImports_coherent {β} (env : Text → β) (touched : List Text) (c : List (Text × β))
    (hc : ∀ n, lookCache c env n = env n) : ∀ n, lookCache (storeImports c env touched) env n = env n := by
  induction touched generalizing c with
  | nil => simpa [storeImports] using hc
  | cons t ts ih =>
    unfold storeImports
    rw [List.foldl_cons]
    apply ih
    split
    · exact hc
    · intro n
      rw [lookCache_cons]
      split
      · rename_i h; rw [h]
      · exact hc n

theorem through_eq_of_coherent (env : Env) (c : Caches) (hc : Coherent env c) : env.through c = env := by
  obtain ⟨h1, h2, h3⟩ := hc
  have e1 : lookCache c.ud env.ud = env.ud := funext h1
  have e2 : lookCache c.src env.src.src = env.src.src := funext h2
  have e3 : lookCache c.callout env.src.callout = env.src.callout := funext h3
  unfold Env.through
  rw [e1, e2, e3]

/-! ### module names (C18) -/

theorem toLowerAscii_idem (c : Nat) : toLowerAscii (toLowerAscii c) = toLowerAscii c := by
  unfold toLowerAscii
  split <;> (try split) <;> omega

theorem toLowerAscii_hexU (k : Nat) : toLowerAscii (hexU k) = hexL k := by
  unfold toLowerAscii hexU hexL
  split <;> (try split) <;> (try split) <;> omega

theorem hexFix_map_lower (n v : Nat) : (hexFix n v).map toLowerAscii = hexFixL n v := by
  induction n generalizing v with
  | zero => simp [hexFix, hexFixL]
  | succ n ih => simp [hexFix, hexFixL, ih, toLowerAscii_hexU]

theorem map_lower_idem (t : Text) : (t.map toLowerAscii).map toLowerAscii = t.map toLowerAscii := by
  rw [List.map_map]
  apply List.map_congr_left
  intro a _
  exact toLowerAscii_idem a

/-- a "Hex Word n" key is never the "SRC Details" key (first characters 'H' / 'S') -/
theorem hexword_ne_srcDetails (t : Text) : s "Hex Word " ++ t ≠ s "SRC Details" := by
  intro h
  have h1 : s "Hex Word " = 72 :: s "ex Word " := by decide
  have h2 : s "SRC Details" = 83 :: s "RC Details" := by decide
  rw [h1, h2, List.cons_append] at h
  injection h with h _
  exact absurd h (by decide)

end Pel
