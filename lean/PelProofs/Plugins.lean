import PelModel.Plugins
import PelModel.PelSpec
import PelProofs.Basic
namespace Pel
-- helper lemmas for C18 / C19

/-! ### caches (C19) -/

theorem cacheGet_nil {β} (n : Text) : cacheGet ([] : Cache β) n = none := rfl

theorem cacheGet_cons {β} (m : Text) (v : Option β) (c : Cache β) (n : Text) :
    cacheGet ((m, v) :: c) n = if m = n then some v else cacheGet c n := by
  unfold cacheGet
  by_cases h : m = n
  · simp [h]
  · have : (m == n) = false := by simpa using h
    simp [this, h]

theorem cacheGet_none_not_mem {β} (c : Cache β) (m : Text) (h : cacheGet c m = none) : ∀ v, (m, v) ∉ c := by
  induction c with
  | nil => intro v hv; cases hv
  | cons p c ih =>
    obtain ⟨k, w⟩ := p
    rw [cacheGet_cons] at h
    by_cases hk : k = m
    · simp [hk] at h
    · rw [if_neg hk] at h
      intro v hv
      rcases List.mem_cons.1 hv with hv | hv
      · exact hk (by injection hv with h1 _; exact h1.symm)
      · exact ih h v hv

theorem cacheGet_none_not_key {β} (c : Cache β) (m : Text) (h : cacheGet c m = none) : m ∉ c.map (·.1) := by
  intro hm
  obtain ⟨p, hp, rfl⟩ := List.mem_map.1 hm
  exact cacheGet_none_not_mem c p.1 h p.2 hp

/-- what a look-up hands on, as a function of the table: `hit` for a stored value, `miss` for a name that is not a key -/
def seenVia {β γ} (hit : Option β → γ) (miss : Text → γ) (c : Cache β) (n : Text) : γ :=
  match cacheGet c n with
  | some w => hit w
  | none => miss n

theorem seenVia_nil {β γ} (hit : Option β → γ) (miss : Text → γ) (n : Text) : seenVia hit miss [] n = miss n := rfl

/-- storing, under a name that is not a key, a value that is shown as the import is shown changes nothing any look-up sees -/
theorem seenVia_cons_stable {β γ} (hit : Option β → γ) (miss : Text → γ) (c : Cache β) (m : Text) (v : Option β)
    (hnone : cacheGet c m = none) (hv : hit v = miss m) (n : Text) :
    seenVia hit miss ((m, v) :: c) n = seenVia hit miss c n := by
  unfold seenVia
  rw [cacheGet_cons]
  by_cases h : m = n
  · subst h
    simp [hnone, hv]
  · simp [h]

/-! the four sites: what is handed on (`_fst`), and what happens to the table (`_snd`) -/

def udHit (w : Option UdPlugin) : UdPlugin := w.getD .absent

theorem udLookup_fst (env : ProcEnv) (c : Cache UdPlugin) (n : Text) :
    (udLookup env c n).1 = seenVia udHit env.ud c n := by
  unfold udLookup seenVia udHit
  cases cacheGet c n with
  | none => cases h : env.ud n <;> simp
  | some v => cases v <;> rfl

theorem udEntryOk_hit (env : ProcEnv) (n : Text) (v : Option UdPlugin) (h : UdEntryOk env n v) : udHit v = env.ud n := by
  cases v with
  | none => exact h.symm
  | some b => exact h.1.symm

theorem udLookup_snd (env : ProcEnv) (c : Cache UdPlugin) (m : Text) :
    (udLookup env c m).2 = c ∨
    (cacheGet c m = none ∧ ∃ v, (udLookup env c m).2 = (m, v) :: c ∧ UdEntryOk env m v) := by
  unfold udLookup
  cases hg : cacheGet c m with
  | some v => cases v <;> exact .inl rfl
  | none =>
    cases he : env.ud m with
    | absent => exact .inr ⟨rfl, none, rfl, he⟩
    | importRaises msg => exact .inl rfl
    | echo => exact .inr ⟨rfl, some _, rfl, he, by simp, by simp⟩
    | raises msg => exact .inr ⟨rfl, some _, rfl, he, by simp, by simp⟩
    | returnsNone => exact .inr ⟨rfl, some _, rfl, he, by simp, by simp⟩
    | returnsText t => exact .inr ⟨rfl, some _, rfl, he, by simp, by simp⟩

def impOpt {β} : Imp β → Option β
  | .module b => some b
  | .failed _ => none

theorem srcLookup_fst (env : ProcEnv) (c : Cache SrcMod) (n : Text) :
    (srcLookup env c n).1 = seenVia id (fun n => impOpt (env.srcSiteImport n)) c n := by
  unfold srcLookup seenVia
  cases cacheGet c n with
  | none => cases h : env.srcSiteImport n <;> simp [impOpt, h]
  | some v => rfl

theorem srcEntryOk_hit (env : ProcEnv) (n : Text) (v : Option SrcMod) (h : SrcEntryOk env n v) :
    v = impOpt (env.srcSiteImport n) := by
  cases v with
  | none => obtain ⟨f, hf⟩ := h; rw [hf]; rfl
  | some b => unfold SrcEntryOk at h; rw [h]; rfl

theorem srcLookup_snd (env : ProcEnv) (c : Cache SrcMod) (m : Text) :
    (srcLookup env c m).2 = c ∨
    (cacheGet c m = none ∧ ∃ v, (srcLookup env c m).2 = (m, v) :: c ∧ SrcEntryOk env m v) := by
  unfold srcLookup
  cases hg : cacheGet c m with
  | some v => exact .inl rfl
  | none =>
    cases he : env.srcSiteImport m with
    | failed f => exact .inr ⟨rfl, none, rfl, f, he⟩
    | module b => exact .inr ⟨rfl, some b, rfl, he⟩

theorem calloutLookup_fst (env : ProcEnv) (c : Cache CalloutPlugin) (n : Text) :
    (calloutLookup env c n).1 = seenVia id (fun n => impOpt (env.calloutImport n)) c n := by
  unfold calloutLookup seenVia
  cases cacheGet c n with
  | none => cases h : env.calloutImport n <;> simp [impOpt, h]
  | some v => rfl

theorem calloutEntryOk_hit (env : ProcEnv) (n : Text) (v : Option CalloutPlugin) (h : CalloutEntryOk env n v) :
    v = impOpt (env.calloutImport n) := by
  cases v with
  | none => obtain ⟨f, hf⟩ := h; rw [hf]; rfl
  | some b => unfold CalloutEntryOk at h; rw [h]; rfl

theorem calloutLookup_snd (env : ProcEnv) (c : Cache CalloutPlugin) (m : Text) :
    (calloutLookup env c m).2 = c ∨
    (cacheGet c m = none ∧ ∃ v, (calloutLookup env c m).2 = (m, v) :: c ∧ CalloutEntryOk env m v) := by
  unfold calloutLookup
  cases hg : cacheGet c m with
  | some v => exact .inl rfl
  | none =>
    cases he : env.calloutImport m with
    | failed f => exact .inr ⟨rfl, none, rfl, f, he⟩
    | module b => exact .inr ⟨rfl, some b, rfl, he⟩

def osrcHit : Option SrcPlugin → Got SrcPlugin
  | none => .none
  | some b => .module b

/-- a fresh look-up by the wrapper -/
def osrcMiss (env : ProcEnv) (n : Text) : Got SrcPlugin :=
  match env.srcImport n with
  | .module b => .module b
  | .failed .notFound => .none
  | .failed _ => .raised

theorem osrcLookup_fst (env : ProcEnv) (c : Cache SrcPlugin) (n : Text) :
    (osrcLookup env c n).1 = seenVia osrcHit (osrcMiss env) c n := by
  unfold osrcLookup seenVia osrcHit osrcMiss
  cases cacheGet c n with
  | none =>
    cases env.srcImport n with
    | module b => rfl
    | failed f => cases f <;> rfl
  | some v => cases v <;> rfl

theorem osrcEntryOk_hit (env : ProcEnv) (n : Text) (v : Option SrcPlugin) (h : OsrcEntryOk env n v) :
    osrcHit v = osrcMiss env n := by
  cases v with
  | none => unfold OsrcEntryOk at h; unfold osrcMiss; rw [h]; rfl
  | some b => unfold OsrcEntryOk at h; unfold osrcMiss; rw [h]; rfl

theorem osrcLookup_snd (env : ProcEnv) (c : Cache SrcPlugin) (m : Text) :
    (osrcLookup env c m).2 = c ∨
    (cacheGet c m = none ∧ ∃ v, (osrcLookup env c m).2 = (m, v) :: c ∧ OsrcEntryOk env m v) := by
  unfold osrcLookup
  cases hg : cacheGet c m with
  | some v => cases v <;> exact .inl rfl
  | none =>
    cases he : env.srcImport m with
    | module b => exact .inr ⟨rfl, some b, rfl, he⟩
    | failed f =>
      cases f with
      | notFound => exact .inr ⟨rfl, none, rfl, he⟩
      | importError => exact .inl rfl
      | other => exact .inl rfl

/-! stability: a look-up never changes what any later look-up hands on (for ANY table, coherent or not) -/

theorem udLookup_stable (env : ProcEnv) (c : Cache UdPlugin) (m n : Text) :
    (udLookup env (udLookup env c m).2 n).1 = (udLookup env c n).1 := by
  rcases udLookup_snd env c m with h | ⟨hn, v, h, hv⟩
  · rw [h]
  · rw [h, udLookup_fst, udLookup_fst]
    exact seenVia_cons_stable _ _ c m v hn (udEntryOk_hit env m v hv) n

theorem srcLookup_stable (env : ProcEnv) (c : Cache SrcMod) (m n : Text) :
    (srcLookup env (srcLookup env c m).2 n).1 = (srcLookup env c n).1 := by
  rcases srcLookup_snd env c m with h | ⟨hn, v, h, hv⟩
  · rw [h]
  · rw [h, srcLookup_fst, srcLookup_fst]
    exact seenVia_cons_stable _ _ c m v hn (srcEntryOk_hit env m v hv) n

theorem calloutLookup_stable (env : ProcEnv) (c : Cache CalloutPlugin) (m n : Text) :
    (calloutLookup env (calloutLookup env c m).2 n).1 = (calloutLookup env c n).1 := by
  rcases calloutLookup_snd env c m with h | ⟨hn, v, h, hv⟩
  · rw [h]
  · rw [h, calloutLookup_fst, calloutLookup_fst]
    exact seenVia_cons_stable _ _ c m v hn (calloutEntryOk_hit env m v hv) n

theorem osrcLookup_stable (env : ProcEnv) (c : Cache SrcPlugin) (m n : Text) :
    (osrcLookup env (osrcLookup env c m).2 n).1 = (osrcLookup env c n).1 := by
  rcases osrcLookup_snd env c m with h | ⟨hn, v, h, hv⟩
  · rw [h]
  · rw [h, osrcLookup_fst, osrcLookup_fst]
    exact seenVia_cons_stable _ _ c m v hn (osrcEntryOk_hit env m v hv) n

theorem compIdLookup_idem (dir : Option ConfDir) (st : CompIdState) :
    compIdLookup dir (compIdLookup dir st).2 = compIdLookup dir st := by
  unfold compIdLookup
  by_cases he : st.table.isEmpty = true
  · simp only [he, if_true]
    unfold loadAllCompIds
    by_cases ha : st.attempted = true
    · simp [ha, he]
    · cases dir with
      | none => simp [ha, he]
      | some files => simp [ha]
  · simp [he]

theorem compIdLookup_fst (dir : Option ConfDir) (st : CompIdState) :
    (compIdLookup dir st).1 = (compIdLookup dir st).2.table := rfl

theorem compIdLookup_nil (dir : Option ConfDir) : (compIdLookup dir {}).1 = loadConf dir := by
  cases dir <;> rfl

/-- the whole state: what every site hands on -/
structure SameView (env : ProcEnv) (c c' : Caches) : Prop where
  ud : ∀ n, (udLookup env c'.ud n).1 = (udLookup env c.ud n).1
  src : ∀ n, (srcLookup env c'.src n).1 = (srcLookup env c.src n).1
  callout : ∀ n, (calloutLookup env c'.callout n).1 = (calloutLookup env c.callout n).1
  osrc : ∀ n, (osrcLookup env c'.osrc n).1 = (osrcLookup env c.osrc n).1
  comp : (compIdLookup env.confDir c'.comp).1 = (compIdLookup env.confDir c.comp).1

theorem SameView.refl (env : ProcEnv) (c : Caches) : SameView env c c :=
  ⟨fun _ => rfl, fun _ => rfl, fun _ => rfl, fun _ => rfl, rfl⟩

theorem SameView.trans {env : ProcEnv} {a b c : Caches} (h1 : SameView env a b) (h2 : SameView env b c) : SameView env a c :=
  ⟨fun n => (h2.ud n).trans (h1.ud n), fun n => (h2.src n).trans (h1.src n), fun n => (h2.callout n).trans (h1.callout n),
   fun n => (h2.osrc n).trans (h1.osrc n), h2.comp.trans h1.comp⟩

theorem stepLookup_sameView (env : ProcEnv) (c : Caches) (l : Lookup) : SameView env c (stepLookup env c l) := by
  cases l with
  | ud m => exact ⟨fun n => udLookup_stable env c.ud m n, fun _ => rfl, fun _ => rfl, fun _ => rfl, rfl⟩
  | src m => exact ⟨fun _ => rfl, fun n => srcLookup_stable env c.src m n, fun _ => rfl, fun _ => rfl, rfl⟩
  | callout m => exact ⟨fun _ => rfl, fun _ => rfl, fun n => calloutLookup_stable env c.callout m n, fun _ => rfl, rfl⟩
  | osrc m => exact ⟨fun _ => rfl, fun _ => rfl, fun _ => rfl, fun n => osrcLookup_stable env c.osrc m n, rfl⟩
  | compId =>
    refine ⟨fun _ => rfl, fun _ => rfl, fun _ => rfl, fun _ => rfl, ?_⟩
    show (compIdLookup env.confDir (compIdLookup env.confDir c.comp).2).1 = _
    rw [compIdLookup_idem]

theorem stepCaches_sameView (env : ProcEnv) (ls : List Lookup) (c : Caches) : SameView env c (stepCaches env c ls) := by
  induction ls generalizing c with
  | nil => exact SameView.refl env c
  | cons l ls ih =>
    unfold stepCaches
    rw [List.foldl_cons]
    exact (stepLookup_sameView env c l).trans (ih _)

theorem Coherent.of_sameView {env : ProcEnv} {c c' : Caches} (hc : Coherent env c) (h : SameView env c c') : Coherent env c' :=
  ⟨fun n => (h.ud n).trans (hc.1 n), fun n => (h.src n).trans (hc.2.1 n), fun n => (h.callout n).trans (hc.2.2.1 n),
   fun n => (h.osrc n).trans (hc.2.2.2.1 n), h.comp.trans hc.2.2.2.2⟩

/-! the strong invariant behind `cache_contents` -/

structure Exact (env : ProcEnv) (c : Caches) : Prop where
  ud : ∀ n v, (n, v) ∈ c.ud → UdEntryOk env n v
  src : ∀ n v, (n, v) ∈ c.src → SrcEntryOk env n v
  callout : ∀ n v, (n, v) ∈ c.callout → CalloutEntryOk env n v
  osrc : ∀ n v, (n, v) ∈ c.osrc → OsrcEntryOk env n v
  comp : CompStateOk env c.comp
  udKeys : (c.ud.map (·.1)).Nodup
  srcKeys : (c.src.map (·.1)).Nodup
  calloutKeys : (c.callout.map (·.1)).Nodup
  osrcKeys : (c.osrc.map (·.1)).Nodup

theorem Exact.init (env : ProcEnv) : Exact env {} where
  ud := fun _ _ h => nomatch h
  src := fun _ _ h => nomatch h
  callout := fun _ _ h => nomatch h
  osrc := fun _ _ h => nomatch h
  comp := Or.inl ⟨rfl, rfl⟩
  udKeys := List.nodup_nil
  srcKeys := List.nodup_nil
  calloutKeys := List.nodup_nil
  osrcKeys := List.nodup_nil

theorem entries_step {β} {P : Text → Option β → Prop} {c c' : Cache β} {m : Text}
    (hc : ∀ n v, (n, v) ∈ c → P n v) (hk : (c.map (·.1)).Nodup)
    (h : c' = c ∨ (cacheGet c m = none ∧ ∃ v, c' = (m, v) :: c ∧ P m v)) :
    (∀ n v, (n, v) ∈ c' → P n v) ∧ (c'.map (·.1)).Nodup := by
  rcases h with h | ⟨hn, v, h, hv⟩
  · subst h; exact ⟨hc, hk⟩
  · subst h
    refine ⟨?_, ?_⟩
    · intro n w hw
      rcases List.mem_cons.1 hw with hw | hw
      · injection hw with h1 h2; subst h1; subst h2; exact hv
      · exact hc n w hw
    · rw [List.map_cons, List.nodup_cons]
      exact ⟨cacheGet_none_not_key c m hn, hk⟩

theorem compStateOk_step (env : ProcEnv) (st : CompIdState) (h : CompStateOk env st) :
    CompStateOk env (compIdLookup env.confDir st).2 := by
  unfold compIdLookup
  rcases h with ⟨ha, ht⟩ | ⟨ha, ht⟩
  · simp only [ht, List.isEmpty_nil, if_true]
    unfold loadAllCompIds
    simp only [ha, Bool.false_eq_true, if_false]
    cases hd : env.confDir with
    | none => exact .inr ⟨rfl, by simp [loadConf, hd, ht]⟩
    | some files => exact .inr ⟨rfl, by simp [loadConf, hd, ht]⟩
  · by_cases he : st.table.isEmpty = true
    · simp only [he, if_true]
      unfold loadAllCompIds
      simp only [ha, if_true]
      exact .inr ⟨ha, ht⟩
    · simp only [he]
      exact .inr ⟨ha, ht⟩

theorem Exact.step (env : ProcEnv) (c : Caches) (l : Lookup) (h : Exact env c) : Exact env (stepLookup env c l) := by
  cases l with
  | ud m =>
    obtain ⟨h1, h2⟩ := entries_step (P := UdEntryOk env) h.ud h.udKeys (udLookup_snd env c.ud m)
    exact { h with ud := h1, udKeys := h2 }
  | src m =>
    obtain ⟨h1, h2⟩ := entries_step (P := SrcEntryOk env) h.src h.srcKeys (srcLookup_snd env c.src m)
    exact { h with src := h1, srcKeys := h2 }
  | callout m =>
    obtain ⟨h1, h2⟩ := entries_step (P := CalloutEntryOk env) h.callout h.calloutKeys (calloutLookup_snd env c.callout m)
    exact { h with callout := h1, calloutKeys := h2 }
  | osrc m =>
    obtain ⟨h1, h2⟩ := entries_step (P := OsrcEntryOk env) h.osrc h.osrcKeys (osrcLookup_snd env c.osrc m)
    exact { h with osrc := h1, osrcKeys := h2 }
  | compId => exact { h with comp := compStateOk_step env c.comp h.comp }

theorem Exact.steps (env : ProcEnv) (ls : List Lookup) (c : Caches) (h : Exact env c) : Exact env (stepCaches env c ls) := by
  induction ls generalizing c with
  | nil => exact h
  | cons l ls ih =>
    unfold stepCaches
    rw [List.foldl_cons]
    exact ih _ (h.step env c l)

/-! coherent tables show the fresh environment -/

theorem srcImport_module (env : ProcEnv) (n : Text) (b : SrcPlugin) (h : env.srcImport n = .module b) : env.src.src n = b := by
  unfold ProcEnv.srcImport at h
  cases he : env.src.src n <;> rw [he] at h <;> simp at h <;> exact h

theorem srcImport_failed (env : ProcEnv) (n : Text) (f : Fault) (h : env.srcImport n = .failed f) : env.src.src n = .absent := by
  unfold ProcEnv.srcImport at h
  cases he : env.src.src n <;> rw [he] at h <;> simp at h

theorem calloutImport_module (env : ProcEnv) (n : Text) (b : CalloutPlugin) (h : env.calloutImport n = .module b) :
    env.src.callout n = b := by
  unfold ProcEnv.calloutImport at h
  cases he : env.src.callout n <;> rw [he] at h <;> simp at h <;> exact h

theorem calloutImport_failed (env : ProcEnv) (n : Text) (f : Fault) (h : env.calloutImport n = .failed f) :
    env.src.callout n = .absent := by
  unfold ProcEnv.calloutImport at h
  cases he : env.src.callout n <;> rw [he] at h <;> simp at h

theorem udLookup_nil (env : ProcEnv) (n : Text) : (udLookup env [] n).1 = env.ud n := by
  rw [udLookup_fst]; rfl

theorem seenCallout_of_coherent (env : ProcEnv) (c : Caches) (hc : Coherent env c) (n : Text) :
    seenCallout env c n = env.src.callout n := by
  unfold seenCallout
  rw [hc.2.2.1 n, calloutLookup_fst, seenVia_nil]
  cases h : env.calloutImport n with
  | failed f => exact (calloutImport_failed env n f h).symm
  | module b => exact (calloutImport_module env n b h).symm

theorem seenSrc_of_coherent (env : ProcEnv) (c : Caches) (hc : Coherent env c) (n : Text) :
    seenSrc env c n = env.src.src n := by
  unfold seenSrc
  by_cases h0 : n = s "osrc"
  · simp [h0]
  · rw [if_neg h0]
    by_cases h1 : isComponentName n = true
    · rw [if_pos h1, hc.2.1 (s "osrc"), srcLookup_fst, seenVia_nil]
      have hw : impOpt (env.srcSiteImport (s "osrc")) = some .osrcWrapper := by
        unfold ProcEnv.srcSiteImport; simp [impOpt]
      simp only [hw]
      rw [hc.2.2.2.1 n, osrcLookup_fst, seenVia_nil]
      unfold osrcMiss
      cases h : env.srcImport n with
      | module b => exact (srcImport_module env n b h).symm
      | failed f => cases f <;> exact (srcImport_failed env n _ h).symm
    · rw [if_neg h1, hc.2.1 n, srcLookup_fst, seenVia_nil]
      unfold ProcEnv.srcSiteImport
      rw [if_neg h0]
      cases h : env.srcImport n with
      | module b => exact (srcImport_module env n b h).symm
      | failed f => exact (srcImport_failed env n f h).symm

theorem through_eq_of_coherent (env : ProcEnv) (c : Caches) (hc : Coherent env c) : env.through c = env.fresh := by
  have e1 : (fun n => (udLookup env c.ud n).1) = env.ud := funext fun n => (hc.1 n).trans (udLookup_nil env n)
  have e2 : seenSrc env c = env.src.src := funext (seenSrc_of_coherent env c hc)
  have e3 : seenCallout env c = env.src.callout := funext (seenCallout_of_coherent env c hc)
  have e4 : (compIdLookup env.confDir c.comp).1 = loadConf env.confDir := hc.2.2.2.2.trans (compIdLookup_nil _)
  unfold ProcEnv.through ProcEnv.fresh
  rw [e1, e2, e3, e4]

/-! ### module names (C18) -/

theorem toLowerAscii_idem (c : Nat) : toLowerAscii (toLowerAscii c) = toLowerAscii c := by
  unfold toLowerAscii
  split <;> (try split) <;> omega

theorem toLowerAscii_hexU (k : Nat) : toLowerAscii (hexU k) = hexL k := by
  unfold toLowerAscii hexU hexL
  split <;> (try split) <;> (try split) <;> omega

theorem hexFix_map_lower (n v : Nat) : (hexFix n v).map toLowerAscii = hexFixL n v := by
  induction n generalizing v with
  | zero => simp [hexFix, hexFixL]
  | succ n ih => simp [hexFix, hexFixL, ih, toLowerAscii_hexU]

theorem map_lower_idem (t : Text) : (t.map toLowerAscii).map toLowerAscii = t.map toLowerAscii := by
  rw [List.map_map]
  apply List.map_congr_left
  intro a _
  exact toLowerAscii_idem a

/-- a "Hex Word n" key is never the "SRC Details" key (first characters 'H' / 'S') -/
theorem hexword_ne_srcDetails (t : Text) : s "Hex Word " ++ t ≠ s "SRC Details" := by
  intro h
  have h1 : s "Hex Word " = 72 :: s "ex Word " := by decide
  have h2 : s "SRC Details" = 83 :: s "RC Details" := by decide
  rw [h1, h2, List.cons_append] at h
  injection h with h _
  exact absurd h (by decide)

end Pel
