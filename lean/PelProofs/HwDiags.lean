import PelModel.HwDiags
import PelModel.JsonSpec
import PelProofs.Basic
import PelProofs.JsonParse
import PelProofs.JsonAlign
import PelProofs.Frames
/- Helper lemmas for C20 (hardware-diagnostics signatures and register dumps). -/
namespace Pel

/-! ### slicing fixed-width hex words -/

theorem hexFix_add (m n v : Nat) : hexFix (m + n) v = hexFix m (v / 16 ^ n) ++ hexFix n v := by
  induction n generalizing v with
  | zero => simp [hexFix]
  | succ n ih =>
    show hexFix ((m + n) + 1) v = _
    simp only [hexFix]
    rw [ih, List.append_assoc, Nat.div_div_eq_div_mul, Nat.pow_succ, Nat.mul_comm]

theorem hexFixL_add (m n v : Nat) : hexFixL (m + n) v = hexFixL m (v / 16 ^ n) ++ hexFixL n v := by
  induction n generalizing v with
  | zero => simp [hexFixL]
  | succ n ih =>
    show hexFixL ((m + n) + 1) v = _
    simp only [hexFixL]
    rw [ih, List.append_assoc, Nat.div_div_eq_div_mul, Nat.pow_succ, Nat.mul_comm]

theorem parseHexText_hexFix_mod (n v : Nat) : parseHexText (hexFix n v) = v % 16 ^ n := by
  induction n generalizing v with
  | zero => simp [hexFix, parseHexText, Nat.mod_one]
  | succ n ih =>
    simp only [hexFix, parseHexText_snoc, hexVal_hexU, ih]
    rw [Nat.pow_succ, Nat.mul_comm (16 ^ n) 16, Nat.mod_mul]
    omega

theorem parseHexText_hexFixL_mod (n v : Nat) : parseHexText (hexFixL n v) = v % 16 ^ n := by
  induction n generalizing v with
  | zero => simp [hexFixL, parseHexText, Nat.mod_one]
  | succ n ih =>
    simp only [hexFixL, parseHexText_snoc, hexVal_hexL, ih]
    rw [Nat.pow_succ, Nat.mul_comm (16 ^ n) 16, Nat.mod_mul]
    omega

theorem hexFix8_split (v : Nat) :
    hexFix 8 v = hexFix 4 (v / 65536) ++ (hexFix 2 (v / 256) ++ hexFix 2 v) := by
  have h1 := hexFix_add 4 4 v
  have h2 := hexFix_add 2 2 v
  simp only [show (4 + 4 : Nat) = 8 from rfl, show (2 + 2 : Nat) = 4 from rfl,
    show (16 ^ 4 : Nat) = 65536 from rfl, show (16 ^ 2 : Nat) = 256 from rfl] at h1 h2
  rw [h1, h2]

theorem hexFixL8_split (v : Nat) :
    hexFixL 8 v = hexFixL 4 (v / 65536) ++ (hexFixL 2 (v / 256) ++ hexFixL 2 v) := by
  have h1 := hexFixL_add 4 4 v
  have h2 := hexFixL_add 2 2 v
  simp only [show (4 + 4 : Nat) = 8 from rfl, show (2 + 2 : Nat) = 4 from rfl,
    show (16 ^ 4 : Nat) = 65536 from rfl, show (16 ^ 2 : Nat) = 256 from rfl] at h1 h2
  rw [h1, h2]

theorem take4_of_split (x y z : Text) (hx : x.length = 4) : (x ++ (y ++ z)).take 4 = x := by
  rw [← hx]; exact List.take_left' rfl

theorem mid_of_split (x y z : Text) (hx : x.length = 4) (hy : y.length = 2) :
    ((x ++ (y ++ z)).drop 4).take 2 = y := by
  rw [← hx, List.drop_left' rfl, ← hy]; exact List.take_left' rfl

theorem last_of_split (x y z : Text) (hx : x.length = 4) (hy : y.length = 2) (hz : z.length = 2) :
    ((x ++ (y ++ z)).drop 6).take 2 = z := by
  rw [← List.append_assoc, List.drop_left' (by simp [hx, hy]), ← hz]; exact List.take_length

theorem hexFix8_take4 (v : Nat) : (hexFix 8 v).take 4 = hexFix 4 (v / 65536) := by
  rw [hexFix8_split]; exact take4_of_split _ _ _ (by simp)
theorem hexFix8_mid (v : Nat) : ((hexFix 8 v).drop 4).take 2 = hexFix 2 (v / 256) := by
  rw [hexFix8_split]; exact mid_of_split _ _ _ (by simp) (by simp)
theorem hexFix8_last (v : Nat) : ((hexFix 8 v).drop 6).take 2 = hexFix 2 v := by
  rw [hexFix8_split]; exact last_of_split _ _ _ (by simp) (by simp) (by simp)

theorem hexFixL8_take4 (v : Nat) : (hexFixL 8 v).take 4 = hexFixL 4 (v / 65536) := by
  rw [hexFixL8_split]; exact take4_of_split _ _ _ (by simp)
theorem hexFixL8_mid (v : Nat) : ((hexFixL 8 v).drop 4).take 2 = hexFixL 2 (v / 256) := by
  rw [hexFixL8_split]; exact mid_of_split _ _ _ (by simp) (by simp)
theorem hexFixL8_last (v : Nat) : ((hexFixL 8 v).drop 6).take 2 = hexFixL 2 v := by
  rw [hexFixL8_split]; exact last_of_split _ _ _ (by simp) (by simp) (by simp)

theorem parse_hexFix2 (v : Nat) : parseHexText (hexFix 2 v) = v % 256 := parseHexText_hexFix_mod 2 v
theorem parse_hexFixL2 (v : Nat) : parseHexText (hexFixL 2 v) = v % 256 := parseHexText_hexFixL_mod 2 v
theorem parse_hexFix4 (v : Nat) (h : v < 2 ^ 32) : parseHexText (hexFix 4 (v / 65536)) = v / 65536 := by
  rw [parseHexText_hexFix_mod]; show _ % 65536 = _; omega
theorem parse_hexFixL4 (v : Nat) (h : v < 2 ^ 32) : parseHexText (hexFixL 4 (v / 65536)) = v / 65536 := by
  rw [parseHexText_hexFixL_mod]; show _ % 65536 = _; omega

/-- the fields `getSignature` extracts from upper-case words -/
theorem getSignature_upper (cd : List ChipData) (a b c : Nat) (hb : b < 2 ^ 32) :
    getSignature cd (hexFix 8 a) (hexFix 8 b) (hexFix 8 c) =
      .obj [(s "Chip Desc", .str (chipDesc cd (hexFix 8 a) (b / 256 % 256) (b / 65536))),
            (s "Signature", .str (sigDesc cd (hexFix 8 a) (hexFix 4 (c / 65536)) (c / 256 % 256) (c % 256))),
            (s "Attn Type", .str (attnDesc cd (hexFix 8 a) (b % 256)))] := by
  simp only [getSignature, hexFix8_take4, hexFix8_mid, hexFix8_last, parse_hexFix2, parse_hexFix4 b hb]

theorem getSignature_lower (cd : List ChipData) (a b c : Nat) (hb : b < 2 ^ 32) :
    getSignature cd (hexFixL 8 a) (hexFixL 8 b) (hexFixL 8 c) =
      .obj [(s "Chip Desc", .str (chipDesc cd (hexFixL 8 a) (b / 256 % 256) (b / 65536))),
            (s "Signature", .str (sigDesc cd (hexFixL 8 a) (hexFixL 4 (c / 65536)) (c / 256 % 256) (c % 256))),
            (s "Attn Type", .str (attnDesc cd (hexFixL 8 a) (b % 256)))] := by
  simp only [getSignature, hexFixL8_take4, hexFixL8_mid, hexFixL8_last, parse_hexFixL2, parse_hexFixL4 b hb]

/-! ### case folding -/

theorem toUpper_hexL (n : Nat) : toUpperAscii (hexL n) = hexU n := by
  unfold toUpperAscii hexL hexU; split <;> split <;> omega
theorem toUpper_hexU (n : Nat) : toUpperAscii (hexU n) = hexU n := by
  unfold toUpperAscii hexU; split <;> split <;> omega
theorem toLower_hexU (n : Nat) : toLowerAscii (hexU n) = hexL n := by
  unfold toLowerAscii hexL hexU; split <;> split <;> omega
theorem toLower_hexL (n : Nat) : toLowerAscii (hexL n) = hexL n := by
  unfold toLowerAscii hexL; split <;> split <;> omega

theorem toLower_toUpper (c : Nat) : toLowerAscii (toUpperAscii c) = toLowerAscii c := by
  unfold toLowerAscii toUpperAscii; split <;> split <;> (try split) <;> omega
theorem toLower_toLower (c : Nat) : toLowerAscii (toLowerAscii c) = toLowerAscii c := by
  unfold toLowerAscii; split <;> (try split) <;> omega

theorem lowerT_upperT (t : Text) : lowerT (upperT t) = lowerT t := by
  simp [lowerT, upperT, List.map_map, Function.comp_def, toLower_toUpper]
theorem lowerT_lowerT (t : Text) : lowerT (lowerT t) = lowerT t := by
  simp [lowerT, List.map_map, Function.comp_def, toLower_toLower]

theorem upperT_append (a b : Text) : upperT (a ++ b) = upperT a ++ upperT b := by simp [upperT]
theorem lowerT_append (a b : Text) : lowerT (a ++ b) = lowerT a ++ lowerT b := by simp [lowerT]

theorem lowerT_hexFix (n v : Nat) : lowerT (hexFix n v) = hexFixL n v := by
  induction n generalizing v with
  | zero => rfl
  | succ n ih => simp only [hexFix, hexFixL, lowerT_append, ih]; simp [lowerT, toLower_hexU]
theorem lowerT_hexFixL (n v : Nat) : lowerT (hexFixL n v) = hexFixL n v := by
  induction n generalizing v with
  | zero => rfl
  | succ n ih => simp only [hexFixL, lowerT_append, ih]; simp [lowerT, toLower_hexL]
theorem upperT_hexFixL (n v : Nat) : upperT (hexFixL n v) = hexFix n v := by
  induction n generalizing v with
  | zero => rfl
  | succ n ih => simp only [hexFix, hexFixL, upperT_append, ih]; simp [upperT, toUpper_hexL]

theorem upperT_lowerT_hexFix (n v : Nat) : upperT (lowerT (hexFix n v)) = hexFix n v := by
  rw [lowerT_hexFix, upperT_hexFixL]
theorem upperT_lowerT_hexFixL (n v : Nat) : upperT (lowerT (hexFixL n v)) = hexFix n v := by
  rw [lowerT_hexFixL, upperT_hexFixL]

/-! ### look-ups: fall-backs and case-insensitivity -/


theorem s_unknown : s " unknown " = [32] ++ s "unknown" ++ [32] := by decide

theorem chipDesc_none (cd : List ChipData) (ec : Text) (node chip : Nat) (h : chipFor cd ec = none) :
    chipDesc cd ec node chip = s "node " ++ natDec node ++ s " unknown " ++ natDec chip ++ s " (" ++ upperT (lowerT ec) ++ s ")" := by
  simp only [chipDesc, h, Option.bind_none, Option.getD_none, s_unknown, List.append_assoc]

theorem sigDesc_noentry (cd : List ChipData) (ec sid : Text) (inst bit : Nat)
    (h : ((chipFor cd ec).bind (·.signatures)).bind (fun m => lookup3 m (lowerT sid)) = none) :
    sigDesc cd ec sid inst bit = s "id:" ++ upperT (lowerT sid) ++ s "(" ++ natDec inst ++ s ")[" ++ natDec bit ++ s "] " := by
  simp only [sigDesc, h, Option.map_none, Option.bind_none, Option.getD_none, List.append_nil]

theorem attnDesc_none (cd : List ChipData) (ec : Text) (attn : Nat) (h : chipFor cd ec = none) :
    attnDesc cd ec attn = natDec attn := by
  simp only [attnDesc, h, Option.bind_none, Option.getD_none]

theorem chipFor_nil (ec : Text) : chipFor [] ec = none := rfl

theorem getSignature_nil_upper (a b c : Nat) (hb : b < 2^32) :
    getSignature [] (hexFix 8 a) (hexFix 8 b) (hexFix 8 c) = specSignatureNoData a b c := by
  rw [getSignature_upper [] a b c hb, chipDesc_none _ _ _ _ (chipFor_nil _),
    sigDesc_noentry _ _ _ _ _ (by rw [chipFor_nil]; rfl), attnDesc_none _ _ _ (chipFor_nil _),
    upperT_lowerT_hexFix, upperT_lowerT_hexFix]
  rfl

theorem getSignature_nil_lower (a b c : Nat) (hb : b < 2^32) :
    getSignature [] (hexFixL 8 a) (hexFixL 8 b) (hexFixL 8 c) = specSignatureNoData a b c := by
  rw [getSignature_lower [] a b c hb, chipDesc_none _ _ _ _ (chipFor_nil _),
    sigDesc_noentry _ _ _ _ _ (by rw [chipFor_nil]; rfl), attnDesc_none _ _ _ (chipFor_nil _),
    upperT_lowerT_hexFixL, upperT_lowerT_hexFixL]
  rfl

theorem chipFor_upper (cd : List ChipData) (ec : Text) : chipFor cd (upperT ec) = chipFor cd (lowerT ec) := by
  show cd.reverse.find? (fun c => c.id == lowerT (upperT ec)) = cd.reverse.find? (fun c => c.id == lowerT (lowerT ec))
  rw [lowerT_upperT, lowerT_lowerT]

theorem chipDesc_case (cd : List ChipData) (ec : Text) (node chip : Nat) :
    chipDesc cd (upperT ec) node chip = chipDesc cd (lowerT ec) node chip := by
  simp only [chipDesc, chipFor_upper, lowerT_upperT, lowerT_lowerT]

theorem sigDesc_case (cd : List ChipData) (ec sid : Text) (inst bit : Nat) :
    sigDesc cd (upperT ec) (upperT sid) inst bit = sigDesc cd (lowerT ec) (lowerT sid) inst bit := by
  simp only [sigDesc, chipFor_upper, lowerT_upperT, lowerT_lowerT]

theorem attnDesc_case (cd : List ChipData) (ec : Text) (attn : Nat) :
    attnDesc cd (upperT ec) attn = attnDesc cd (lowerT ec) attn := by
  simp only [attnDesc, chipFor_upper]



/-! ### reader steps -/

theorem getMem_bind {α} (n : Nat) (f : Bytes → Rd α) (a rest : Bytes) (ha : a.length = n) (hn : 0 < n) :
    (getMem n >>= f) (a ++ rest) = f a rest := by
  subst ha
  exact bind_ok _ f _ _ a ((Frames.getMem a hn).exact rest)

theorem getMem_toBE_bind {α} (n v : Nat) (f : Bytes → Rd α) (rest : Bytes) (hn : 0 < n) :
    (getMem n >>= f) (toBE n v ++ rest) = f (toBE n v) rest :=
  getMem_bind n f _ rest (toBE_length n v) hn

theorem getInt_toBE_bind {α} (n v : Nat) (f : Nat → Rd α) (rest : Bytes) (hn : 0 < n) (hv : v < 256 ^ n) :
    (getInt n >>= f) (toBE n v ++ rest) = f v rest :=
  bind_ok _ f _ _ v ((Frames.getInt n v hn hv).exact rest)

theorem getInt1_bind {α} (x : Nat) (f : Nat → Rd α) (rest : Bytes) (hx : x < 256) :
    (getInt 1 >>= f) (x :: rest) = f x rest :=
  bind_ok _ f _ _ x ((Frames.getInt1 x hx).exact rest)

theorem bind_pure_ok {α β} (r : Rd α) (g : α → β) (st st' : Bytes) (x : α) (h : r st = .ok (x, st')) :
    (r >>= fun y => pure (g y)) st = .ok (g x, st') := by
  rw [bind_ok r _ st st' x h]; rfl

theorem bytesHexL_append (a b : Bytes) : bytesHexL (a ++ b) = bytesHexL a ++ bytesHexL b := by
  simp [bytesHexL]

theorem hexL_mod256_div (v : Nat) : hexL (v % 256 / 16) = hexL (v / 16) := by
  unfold hexL
  have : v % 256 / 16 % 16 = v / 16 % 16 := by omega
  rw [this]
theorem hexL_mod256 (v : Nat) : hexL (v % 256) = hexL v := by
  unfold hexL
  have : v % 256 % 16 = v % 16 := by omega
  rw [this]

theorem bytesHexL_toBE (n v : Nat) : bytesHexL (toBE n v) = hexFixL (2 * n) v := by
  induction n generalizing v with
  | zero => rfl
  | succ n ih =>
    show _ = hexFixL (2 * n + 1 + 1) v
    simp only [toBE, bytesHexL_append, ih, hexFixL, List.append_assoc]
    have : v / 16 / 16 = v / 256 := by omega
    rw [this]
    simp [bytesHexL, hexL_mod256_div, hexL_mod256]

theorem bytesHexL_length (a : Bytes) : (bytesHexL a).length = 2 * a.length := by
  induction a with
  | nil => rfl
  | cons x a ih => simp only [bytesHexL, List.flatMap_cons] at *; simp [ih]; omega

/-! ### signature lists -/

theorem readSigs_ok (cd : List ChipData) (sigs : List (Nat × Nat × Nat)) (rest : Bytes)
    (hs : ∀ x ∈ sigs, x.1 < 2^32 ∧ x.2.1 < 2^32 ∧ x.2.2 < 2^32) :
    readSigs cd sigs.length (sigs.flatMap (fun x => toBE 4 x.1 ++ toBE 4 x.2.1 ++ toBE 4 x.2.2) ++ rest) =
      .ok (sigs.map (fun x => getSignature cd (hexFixL 8 x.1) (hexFixL 8 x.2.1) (hexFixL 8 x.2.2)), rest) := by
  induction sigs with
  | nil => rfl
  | cons x sigs ih =>
    have ih' := ih (fun y hy => hs y (by simp [hy]))
    simp only [List.length_cons, readSigs, List.flatMap_cons, List.append_assoc, List.map_cons]
    rw [getMem_toBE_bind 4 _ _ _ (by omega), getMem_toBE_bind 4 _ _ _ (by omega), getMem_toBE_bind 4 _ _ _ (by omega)]
    simp only [bytesHexL_toBE]
    exact bind_pure_ok _ _ _ _ _ ih'

/-! ### the plug-in entry point, one sub-type at a time -/


theorem oe500Ud_1 (cd : List ChipData) (data : Bytes) (l : List J) (st : Bytes)
    (h : (getInt 4 >>= fun n => readSigs cd n) data = .ok (l, st)) :
    oe500Ud cd 1 data = .json (.obj [(s "Signature List", .arr l)]) := by
  have h' : (do let n ← getInt 4; readSigs cd n : Rd (List J)) data = .ok (l, st) := h
  simp only [oe500Ud, if_pos, h']

theorem oe500Ud_2 (cd : List ChipData) (data : Bytes) (l : List Text) (st : Bytes)
    (h : (getInt 4 >>= fun n => readChips cd n) data = .ok (l, st)) :
    oe500Ud cd 2 data = .json (.obj [(s "Register Dump", .arr (l.map .str))]) := by
  have h' : (do let n ← getInt 4; readChips cd n : Rd (List Text)) data = .ok (l, st) := h
  simp only [oe500Ud, h']
  rfl

theorem oe500Ud_4 (cd : List ChipData) (a b c d rest : Bytes)
    (ha : a.length = 4) (hb : b.length = 4) (hc : c.length = 8) (hd : d.length = 8) :
    oe500Ud cd 4 (a ++ (b ++ (c ++ (d ++ rest)))) =
      .json (.obj [(s "Hostboot Scratch Registers",
        .obj (objSet [(s "0x" ++ bytesHexL a, .str (s "0x" ++ bytesHexL b))] (s "0x" ++ bytesHexL c) (.str (s "0x" ++ bytesHexL d))))]) := by
  have h' : (do let a ← getMem 4; let b ← getMem 4; let c ← getMem 8; let d ← getMem 8; pure (a, b, c, d) : Rd _)
      (a ++ (b ++ (c ++ (d ++ rest)))) = .ok ((a, b, c, d), rest) := by
    rw [getMem_bind 4 _ a _ ha (by omega), getMem_bind 4 _ b _ hb (by omega), getMem_bind 8 _ c _ hc (by omega),
      getMem_bind 8 _ d _ hd (by omega)]
    rfl
  simp only [oe500Ud, h']
  rfl

theorem oe500Ud_5 (cd : List ChipData) (a b rest : Bytes) (ha : a.length = 4) (hb : b.length = 4) :
    oe500Ud cd 5 (a ++ (b ++ rest)) =
      .json (.obj [(s "Scratch Register Error Signature",
        .obj [(s "Chip ID", .str (s "0x" ++ bytesHexL a)), (s "Signature ID", .str (s "0x" ++ bytesHexL b))])]) := by
  have h' : (do let a ← getMem 4; let b ← getMem 4; pure (a, b) : Rd _) (a ++ (b ++ rest)) = .ok ((a, b), rest) := by
    rw [getMem_bind 4 _ a _ ha (by omega), getMem_bind 4 _ b _ hb (by omega)]
    rfl
  simp only [oe500Ud, h']
  rfl

theorem oe500Ud_3 (cd : List ChipData) (data : Bytes) (t : Text) (j : J)
    (h1 : utf8Decode (rstripChar 0 data) = some t) (h2 : loads t = .ok j) :
    oe500Ud cd 3 data = .json (.obj [(s "Callout List FFDC", j)]) := by
  simp only [oe500Ud, h1, h2]
  rfl

/-! ### register dumps -/


def regLineH (cd : List ChipData) (ec : Text) (id inst : Nat) (data : Bytes) : Text :=
  let nd := regData cd ec (hexFixL 6 id) inst
  s "  " ++ ljust 25 32 (nd.1.take 25) ++ s " (" ++ nd.2 ++ s ") " ++
    upperT (joinWith [32] (chunk4 ((bytesHexL data).length + 1) (bytesHexL data)))

theorem readRegs_ok {ρ : Type} (id inst : ρ → Nat) (data : ρ → Bytes) (cd : List ChipData) (ec : Text)
    (regs : List ρ) (rest : Bytes)
    (hw : ∀ r ∈ regs, inst r < 256 ∧ 1 ≤ (data r).length ∧ (data r).length < 256) :
    readRegs cd ec regs.length (regs.flatMap (fun r => toBE 3 (id r) ++ [inst r, (data r).length] ++ data r) ++ rest) =
      .ok (regs.map (fun r => regLineH cd ec (id r) (inst r) (data r)), rest) := by
  induction regs with
  | nil => rfl
  | cons r regs ih =>
    have ih' := ih (fun y hy => hw y (by simp [hy]))
    obtain ⟨h1, h2, h3⟩ := hw r (by simp)
    simp only [List.length_cons, readRegs, List.flatMap_cons, List.append_assoc, List.map_cons, List.cons_append,
      List.nil_append] at ih' ⊢
    rw [getMem_toBE_bind 3 _ _ _ (by omega), getInt1_bind _ _ _ h1, getInt1_bind _ _ _ h3,
      getMem_bind _ _ (data r) _ rfl (by omega)]
    simp only [bytesHexL_toBE]
    refine (bind_pure_ok _ _ _ _ _ ih').trans ?_
    simp only [regLineH, List.append_assoc, Nat.reduceMul]



theorem readChips_ok {κ ρ : Type} (cec cpos cnode : κ → Nat) (cregs : κ → List ρ)
    (id inst : ρ → Nat) (data : ρ → Bytes) (cd : List ChipData) (chips : List κ) (rest : Bytes)
    (hw : ∀ c ∈ chips, cpos c < 65536 ∧ cnode c < 256 ∧ (cregs c).length < 2^32 ∧
      ∀ r ∈ cregs c, inst r < 256 ∧ 1 ≤ (data r).length ∧ (data r).length < 256) :
    readChips cd chips.length (chips.flatMap (fun c => toBE 4 (cec c) ++ toBE 2 (cpos c) ++ [cnode c] ++
        toBE 4 (cregs c).length ++ (cregs c).flatMap (fun r => toBE 3 (id r) ++ [inst r, (data r).length] ++ data r)) ++ rest) =
      .ok (chips.flatMap (fun c => ljust 60 42 (chipDesc cd (hexFixL 8 (cec c)) (cnode c) (cpos c) ++ [32]) ::
        (cregs c).map (fun r => regLineH cd (hexFixL 8 (cec c)) (id r) (inst r) (data r))), rest) := by
  induction chips with
  | nil => rfl
  | cons c chips ih =>
    have ih' := ih (fun y hy => hw y (by simp [hy]))
    obtain ⟨h1, h2, h3, h4⟩ := hw c (by simp)
    have hr := fun st => readRegs_ok id inst data cd (hexFixL 8 (cec c)) (cregs c) st h4
    simp only [List.length_cons, readChips, List.flatMap_cons, List.append_assoc, List.cons_append,
      List.nil_append] at ih' hr ⊢
    rw [getMem_toBE_bind 4 _ _ _ (by omega), getInt_toBE_bind 2 _ _ _ (by omega) h1, getInt1_bind _ _ _ h2,
      getInt_toBE_bind 4 _ _ _ (by omega) h3]
    simp only [bytesHexL_toBE, Nat.reduceMul]
    rw [bind_ok _ _ _ _ _ (hr _)]
    exact bind_pure_ok _ _ _ _ _ ih'

/-! ### the data column -/


theorem joinWith_cons_cons (sep x y : Text) (r : List Text) :
    joinWith sep (x :: y :: r) = x ++ sep ++ joinWith sep (y :: r) := rfl

theorem filter_id_of_all {t : Text} (h : ∀ x ∈ t, x ≠ 32) : t.filter (· != 32) = t := by
  rw [List.filter_eq_self]
  intro x hx; simpa using h x hx

theorem chunk4_join_filter (fuel : Nat) : ∀ (t : Text), t.length < fuel → (∀ x ∈ t, x ≠ 32) →
    (joinWith [32] (chunk4 fuel t)).filter (· != 32) = t := by
  induction fuel with
  | zero => intro t h; omega
  | succ fuel ih =>
    intro t hl h
    unfold chunk4
    split
    · rename_i ht; subst ht; rfl
    · rename_i ht
      have hd : ∀ x ∈ t.drop 4, x ≠ 32 := fun x hx => h x (List.mem_of_mem_drop hx)
      have htk : ∀ x ∈ t.take 4, x ≠ 32 := fun x hx => h x (List.mem_of_mem_take hx)
      have hlen : (t.drop 4).length < fuel := by
        have : 0 < t.length := List.length_pos_iff.mpr ht
        simp only [List.length_drop]; omega
      have ih' := ih (t.drop 4) hlen hd
      cases hc : chunk4 fuel (t.drop 4) with
      | nil =>
        rw [hc] at ih'
        simp only [joinWith]
        have : t.drop 4 = [] := by simpa [joinWith] using ih'.symm
        rw [filter_id_of_all htk]
        have := List.take_append_drop 4 t
        rw [‹t.drop 4 = []›, List.append_nil] at this
        exact this
      | cons y r =>
        rw [hc] at ih'
        rw [joinWith_cons_cons, List.filter_append, List.filter_append, ih', filter_id_of_all htk]
        simp only [List.filter_cons, List.filter_nil]
        simp [List.take_append_drop]

/-! ### callout FFDC: the stored JSON text is NUL-free ASCII -/


/-- printable-or-control ASCII without NUL -/
def Asc (t : Text) : Prop := ∀ c ∈ t, 1 ≤ c ∧ c < 128

theorem Asc_nil : Asc [] := by intro c h; cases h
theorem Asc_append {a b : Text} : Asc (a ++ b) ↔ Asc a ∧ Asc b := by
  simp only [Asc, List.mem_append]
  constructor
  · intro h; exact ⟨fun c hc => h c (Or.inl hc), fun c hc => h c (Or.inr hc)⟩
  · rintro ⟨h1, h2⟩ c (hc | hc)
    · exact h1 c hc
    · exact h2 c hc
theorem Asc_cons {x : Nat} {a : Text} : Asc (x :: a) ↔ (1 ≤ x ∧ x < 128) ∧ Asc a := by
  simp only [Asc, List.mem_cons]
  constructor
  · intro h; exact ⟨h x (Or.inl rfl), fun c hc => h c (Or.inr hc)⟩
  · rintro ⟨h1, h2⟩ c (hc | hc)
    · subst hc; exact h1
    · exact h2 c hc

theorem Asc_spaces (k : Nat) : Asc (spaces k) := by
  intro c hc
  simp only [spaces, List.mem_replicate] at hc
  omega
theorem Asc_indentOf (lvl : Nat) : Asc (indentOf lvl) := Asc_spaces _
theorem Asc_natDec (v : Nat) : Asc (natDec v) := by
  intro c hc; have := natDec_digits v c hc; omega
theorem Asc_intDec (k : Int) : Asc (intDec k) := by
  cases k with
  | ofNat k => exact Asc_natDec k
  | negSucc k => exact Asc_cons.mpr ⟨by omega, Asc_natDec _⟩
theorem hexL_range (x : Nat) : 1 ≤ hexL x ∧ hexL x < 128 := by unfold hexL; split <;> omega
theorem Asc_hex4L (c : Nat) : Asc (hex4L c) := by
  intro x hx
  simp only [hex4L, List.mem_cons, List.not_mem_nil, or_false] at hx
  rcases hx with h | h | h | h <;> subst h <;> exact hexL_range _
theorem Asc_escChar (c : Nat) : Asc (escChar c) := by
  unfold escChar
  repeat' split
  all_goals first
    | (intro x hx; simp only [List.mem_cons, List.not_mem_nil, or_false] at hx; omega)
    | exact Asc_cons.mpr ⟨by omega, Asc_cons.mpr ⟨by omega, Asc_hex4L _⟩⟩
    | exact Asc_append.mpr ⟨Asc_cons.mpr ⟨by omega, Asc_cons.mpr ⟨by omega, Asc_hex4L _⟩⟩,
        Asc_cons.mpr ⟨by omega, Asc_cons.mpr ⟨by omega, Asc_hex4L _⟩⟩⟩
theorem Asc_flatMap_escChar (t : Text) : Asc (t.flatMap escChar) := by
  induction t with
  | nil => exact Asc_nil
  | cons c t ih => rw [List.flatMap_cons]; exact Asc_append.mpr ⟨Asc_escChar c, ih⟩
theorem Asc_renderStr (t : Text) : Asc (renderStr t) := by
  unfold renderStr
  exact Asc_append.mpr ⟨Asc_append.mpr ⟨Asc_cons.mpr ⟨by omega, Asc_nil⟩, Asc_flatMap_escChar t⟩, Asc_cons.mpr ⟨by omega, Asc_nil⟩⟩
theorem Asc_alignGap (n lvl : Nat) (k : Text) (v : J) : Asc (alignGap n lvl k v) := by
  unfold alignGap; split
  · exact Asc_nil
  · exact Asc_spaces _

theorem Asc_lit2 (a b : Nat) (ha : 1 ≤ a ∧ a < 128) (hb : 1 ≤ b ∧ b < 128) : Asc [a, b] :=
  Asc_cons.mpr ⟨ha, Asc_cons.mpr ⟨hb, Asc_nil⟩⟩
theorem Asc_lit1 (a : Nat) (ha : 1 ≤ a ∧ a < 128) : Asc [a] := Asc_cons.mpr ⟨ha, Asc_nil⟩

mutual
  theorem Asc_aText (n : Nat) : ∀ (d : J) (lvl : Nat), Asc (aText n d lvl)
    | .null, _ => by rw [aText, s_null]; intro c hc; simp at hc; omega
    | .bool true, _ => by rw [aText, s_true]; intro c hc; simp at hc; omega
    | .bool false, _ => by rw [aText, s_false]; intro c hc; simp at hc; omega
    | .num k, _ => by rw [aText]; exact Asc_intDec k
    | .str t, _ => by rw [aText]; exact Asc_renderStr t
    | .arr [], _ => by rw [aText, s_arr]; exact Asc_lit2 _ _ (by omega) (by omega)
    | .arr (x :: xs), lvl => by
      rw [aText]
      exact Asc_append.mpr ⟨Asc_append.mpr ⟨Asc_append.mpr ⟨Asc_append.mpr ⟨Asc_lit2 _ _ (by omega) (by omega),
        Asc_aItems n (x :: xs) (lvl + 1)⟩, Asc_lit1 _ (by omega)⟩, Asc_indentOf lvl⟩, Asc_lit1 _ (by omega)⟩
    | .obj [], _ => by rw [aText, s_obj]; exact Asc_lit2 _ _ (by omega) (by omega)
    | .obj (kv :: kvs), lvl => by
      rw [aText]
      exact Asc_append.mpr ⟨Asc_append.mpr ⟨Asc_append.mpr ⟨Asc_append.mpr ⟨Asc_lit2 _ _ (by omega) (by omega),
        Asc_aMembers n (kv :: kvs) (lvl + 1)⟩, Asc_lit1 _ (by omega)⟩, Asc_indentOf lvl⟩, Asc_lit1 _ (by omega)⟩
  theorem Asc_aItems (n : Nat) : ∀ (l : List J) (lvl : Nat), Asc (aItems n l lvl)
    | [], _ => by rw [aItems]; exact Asc_nil
    | [x], lvl => by rw [aItems]; exact Asc_append.mpr ⟨Asc_indentOf lvl, Asc_aText n x lvl⟩
    | x :: y :: r, lvl => by
      rw [aItems]
      exact Asc_append.mpr ⟨Asc_append.mpr ⟨Asc_append.mpr ⟨Asc_indentOf lvl, Asc_aText n x lvl⟩,
        Asc_lit2 _ _ (by omega) (by omega)⟩, Asc_aItems n (y :: r) lvl⟩
  theorem Asc_aMembers (n : Nat) : ∀ (l : List (Text × J)) (lvl : Nat), Asc (aMembers n l lvl)
    | [], _ => by rw [aMembers]; exact Asc_nil
    | [(k, v)], lvl => by
      rw [aMembers]
      exact Asc_append.mpr ⟨Asc_append.mpr ⟨Asc_append.mpr ⟨Asc_append.mpr ⟨Asc_append.mpr ⟨Asc_indentOf lvl, Asc_renderStr k⟩,
        Asc_lit1 _ (by omega)⟩, Asc_alignGap n lvl k v⟩, Asc_lit1 _ (by omega)⟩, Asc_aText n v lvl⟩
    | (k, v) :: kv :: r, lvl => by
      rw [aMembers]
      exact Asc_append.mpr ⟨Asc_append.mpr ⟨Asc_append.mpr ⟨Asc_append.mpr ⟨Asc_append.mpr ⟨Asc_append.mpr ⟨Asc_append.mpr
        ⟨Asc_indentOf lvl, Asc_renderStr k⟩,
        Asc_lit1 _ (by omega)⟩, Asc_alignGap n lvl k v⟩, Asc_lit1 _ (by omega)⟩, Asc_aText n v lvl⟩,
        Asc_lit2 _ _ (by omega) (by omega)⟩, Asc_aMembers n (kv :: r) lvl⟩
end

theorem utf8Decode_ascii (t : Bytes) (h : ∀ c ∈ t, c < 128) : utf8Decode t = some t := by
  induction t with
  | nil => rfl
  | cons c t ih =>
    have hc : c < 0x80 := h c (by simp)
    have ih' := ih (fun x hx => h x (by simp [hx]))
    unfold utf8Decode; rw [if_pos hc, ih']; rfl

theorem dropWhile_zero_replicate (pad : Nat) (y : Text) :
    (List.replicate pad 0 ++ y).dropWhile (· == 0) = y.dropWhile (· == 0) := by
  induction pad with
  | zero => rfl
  | succ pad ih => rw [List.replicate_succ, List.cons_append, List.dropWhile_cons]; simp [ih]

theorem rstrip_nul_padding (x : Text) (pad : Nat) (h : ∀ c ∈ x, c ≠ 0) :
    rstripChar 0 (x ++ List.replicate pad 0) = x := by
  unfold rstripChar
  rw [List.reverse_append, List.reverse_replicate, dropWhile_zero_replicate]
  cases hr : x.reverse with
  | nil => simp at hr; subst hr; rfl
  | cons a r =>
    have ha : a ≠ 0 := h a (by rw [← List.mem_reverse, hr]; simp)
    have hb : (a == 0) = false := by simp [ha]
    rw [List.dropWhile_cons, hb, ← hr]; simp

theorem callout_decode (n : Nat) (d : J) (pad : Nat) :
    utf8Decode (rstripChar 0 (aText n d 0 ++ List.replicate pad 0)) = some (aText n d 0) := by
  have ha := Asc_aText n d 0
  rw [rstrip_nul_padding _ _ (fun c hc => by have := ha c hc; omega)]
  exact utf8Decode_ascii _ (fun c hc => (ha c hc).2)

end Pel
