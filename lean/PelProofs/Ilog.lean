import PelModel.Ilog
import PelProofs.Basic
/- Helper lemmas for C14 (ILOG decoding). -/
namespace Pel

/-! ### decimal widths -/

theorem decLenAux_le (f v w : Nat) (hf : v ≤ f) (h : v < 10 ^ w) (hw : 0 < w) : decLenAux f v ≤ w := by
  induction f generalizing v w with
  | zero => simp [decLenAux]; omega
  | succ f ih =>
    unfold decLenAux
    split
    · omega
    · rename_i h10
      match w, hw with
      | 1, _ => simp at h; omega
      | w+2, _ =>
        have h2 : v / 10 < 10 ^ (w+1) := by
          rw [Nat.pow_succ] at h
          exact Nat.div_lt_of_lt_mul (by omega)
        have := ih (v / 10) (w+1) (by omega) h2 (by omega)
        omega

theorem decLen_le (v w : Nat) (h : v < 10 ^ w) (hw : 0 < w) : decLen v ≤ w :=
  decLenAux_le v v w (Nat.le_refl _) h hw

theorem natDec_length (v : Nat) : (natDec v).length = decLen v := by
  simp [natDec]

theorem fmtDecSp2_length (v : Nat) (h : v < 100) : (fmtDecSp 2 v).length = 2 := by
  have := decLen_le v 2 (by omega) (by omega)
  simp only [fmtDecSp, List.length_append, List.length_replicate, natDec_length]
  omega

theorem fmtDec02_length (v : Nat) (h : v < 100) : (fmtDec0 2 v).length = 2 := by
  have := decLen_le v 2 (by omega) (by omega)
  simp only [fmtDec0, decFix_length]
  omega

theorem dashes_length : (s "--------").length = 8 := by decide

theorem specTimestamp_length (t : Nat) (h : t < 2 ^ 16) : (specTimestamp t).length = 8 := by
  unfold specTimestamp
  split
  · exact dashes_length
  · have h1 := fmtDecSp2_length (t / 3600) (by omega)
    have h2 := fmtDec02_length (t % 3600 / 60) (by omega)
    have h3 := fmtDec02_length (t % 60) (by omega)
    simp only [List.length_append, List.length_singleton, h1, h2, h3]

theorem formatTimestamp_eq (t : Nat) (h : t < 2 ^ 16) : formatTimestamp t = specTimestamp t := by
  unfold formatTimestamp specTimestamp
  by_cases h1 : t = 0xFFFF
  · subst h1; rfl
  · have h2 : ¬ t ≥ 0xFFFF := by omega
    rw [if_neg h2, if_neg h1]
    have e1 : (t - t / 3600 * 3600) / 60 = t % 3600 / 60 := by omega
    have e2 : t - t / 3600 * 3600 - t % 3600 / 60 * 60 = t % 60 := by omega
    simp only [e1, e2]

/-! ### matching -/

theorem mask_eq : (0xFFFFFFFF - 0x00040000 : Nat) = 0xFFFBFFFF := by decide

theorem pteMatches_eq (e : PteEntry) (pte : Nat) (h : pte < 2 ^ 32) :
    pteMatches e pte = specMatches e pte := by
  have h16 : (16:Nat) ^ 8 = 2 ^ 32 := by decide
  have hm : pte &&& 0xFFFBFFFF < 16 ^ 8 := by
    have := @Nat.and_le_right pte 0xFFFBFFFF
    omega
  unfold pteMatches specMatches isExactMatch
  rw [mask_eq, fmtHex_eq_hexFix 8 pte (by omega) (by omega), fmtHex_eq_hexFix 8 _ hm (by omega)]
  cases wildMatch e.pattern (hexFix 8 pte) <;> cases isReportedError pte <;> simp

theorem getEntry_eq_find (tbl : List PteEntry) (pte : Nat) (h : pte < 2 ^ 32) :
    getEntry tbl pte = tbl.find? (fun e => specMatches e pte) := by
  induction tbl with
  | nil => rfl
  | cons e es ih =>
    simp only [getEntry, List.find?_cons, pteMatches_eq e pte h, ih]
    cases specMatches e pte <;> simp

theorem pteByte_eq (pte p : Nat) (h : pte < 2 ^ 32) : pteByte pte p = (toBE 4 pte).getD (p - 1) 0 := by
  unfold pteByte
  rw [Nat.mod_eq_of_lt h]

theorem pteByte_div (pte k : Nat) (h : pte < 2 ^ 32) (hk : 1 ≤ k ∧ k ≤ 4) :
    pteByte pte k = pte / 256 ^ (4 - k) % 256 := by
  rw [pteByte_eq pte k h]
  obtain ⟨h1, h4⟩ := hk
  have : k = 1 ∨ k = 2 ∨ k = 3 ∨ k = 4 := by omega
  rcases this with rfl | rfl | rfl | rfl <;> simp [toBE] <;> omega

/-! ### one line -/

theorem ilogLine_eq (tbl : List PteEntry) (e : IlogEntry) (he : e.WF) :
    ilogLine tbl e.ts e.seq e.pte = specIlogLine tbl e := by
  obtain ⟨hts, hseq, hpte⟩ := he
  have h16a : (16:Nat) ^ 4 = 2 ^ 16 := by decide
  have h16b : (16:Nat) ^ 8 = 2 ^ 32 := by decide
  have hfun : pteByte e.pte = fun p => (toBE 4 e.pte).getD (p - 1) 0 := by
    funext p; exact pteByte_eq e.pte p hpte
  unfold ilogLine specIlogLine specDescription
  rw [getEntry_eq_find tbl e.pte hpte, formatTimestamp_eq e.ts hts,
    fmtHex_eq_hexFix 4 e.seq (by omega) (by omega), fmtHex_eq_hexFix 8 e.pte (by omega) (by omega)]
  cases List.find? (fun e' => specMatches e' e.pte) tbl with
  | none => rfl
  | some x =>
    simp only [pteMessage, validParams, hfun]
    cases pyFmtOrRaw x.fmt
      (List.map (fun p => (toBE 4 e.pte).getD (p - 1) 0) (List.filter (fun p => decide (1 ≤ p) && decide (p ≤ 4)) x.params)) <;> rfl

/-! ### the loop -/

theorem ilogLoop_short (tbl : List PteEntry) (b : Bytes) (h : b.length < 8) : ilogLoop tbl b = some [] := by
  unfold ilogLoop
  rw [dif_neg (by omega)]

theorem split8 (a b c r : List Nat) (ha : a.length = 2) (hb : b.length = 2) (hc : c.length = 4) :
    (a ++ b ++ c ++ r).take 2 = a ∧ ((a ++ b ++ c ++ r).drop 2).take 2 = b ∧
    ((a ++ b ++ c ++ r).drop 4).take 4 = c ∧ (a ++ b ++ c ++ r).drop 8 = r := by
  match a, ha, b, hb, c, hc with
  | [_, _], _, [_, _], _, [_, _, _, _], _ => simp

theorem enc_length (e : IlogEntry) : e.enc.length = 8 := by
  simp [IlogEntry.enc]

theorem ilogLoop_enc (tbl : List PteEntry) (e : IlogEntry) (rest : Bytes) (he : e.WF) :
    ilogLoop tbl (e.enc ++ rest) =
      match ilogLoop tbl rest with
      | none => none
      | some r =>
        if e.ts = 0 ∧ e.seq = 0 ∧ e.pte = 0 then some r
        else match ilogLine tbl e.ts e.seq e.pte with
          | none => none
          | some l => some (l :: r) := by
  obtain ⟨hts, hseq, hpte⟩ := he
  have h2 : (256:Nat) ^ 2 = 2 ^ 16 := by decide
  have h4 : (256:Nat) ^ 4 = 2 ^ 32 := by decide
  obtain ⟨s1, s2, s3, s4⟩ := split8 (toBE 2 e.ts) (toBE 2 e.seq) (toBE 4 e.pte) rest
    (toBE_length _ _) (toBE_length _ _) (toBE_length _ _)
  conv => lhs; unfold ilogLoop
  have hl : 8 ≤ (e.enc ++ rest).length := by rw [List.length_append, enc_length]; omega
  rw [dif_pos hl]
  simp only [IlogEntry.enc, s1, s2, s3, s4]
  rw [fromBE_toBE 2 e.ts (by omega), fromBE_toBE 2 e.seq (by omega), fromBE_toBE 4 e.pte (by omega)]
  rfl

theorem isZero_iff (e : IlogEntry) : e.isZero = true ↔ (e.ts = 0 ∧ e.seq = 0 ∧ e.pte = 0) := by
  simp [IlogEntry.isZero, and_assoc]

theorem ilogLoop_entries (tbl : List PteEntry) (es : List IlogEntry) (tail : Bytes)
    (hes : ∀ e ∈ es, e.WF) (ht : tail.length < 8) :
    ilogLoop tbl (es.flatMap IlogEntry.enc ++ tail) =
      optAll ((es.filter (fun e => !e.isZero)).map (specIlogLine tbl)) := by
  induction es with
  | nil => simpa [optAll] using ilogLoop_short tbl tail ht
  | cons e es ih =>
    have he : e.WF := hes e (by simp)
    have ih' := ih (fun x hx => hes x (by simp [hx]))
    rw [List.flatMap_cons, List.append_assoc, ilogLoop_enc tbl e _ he, ih', ilogLine_eq tbl e he]
    by_cases hz : e.isZero = true
    · have hz' := (isZero_iff e).mp hz
      simp only [List.filter_cons, hz, Bool.not_true, Bool.false_eq_true, if_false, if_pos hz']
      cases optAll (List.map (specIlogLine tbl) (List.filter (fun e => !e.isZero) es)) <;> rfl
    · have hz' : ¬ (e.ts = 0 ∧ e.seq = 0 ∧ e.pte = 0) := fun h => hz ((isZero_iff e).mpr h)
      have hz2 : e.isZero = false := by simpa using hz
      simp only [List.filter_cons, hz2, Bool.not_false, if_true, if_neg hz', List.map_cons]
      cases specIlogLine tbl e with
      | none =>
        simp only [optAll]
        cases optAll (List.map (specIlogLine tbl) (List.filter (fun e => !e.isZero) es)) <;> rfl
      | some l =>
        simp only [optAll]
        cases optAll (List.map (specIlogLine tbl) (List.filter (fun e => !e.isZero) es)) <;> rfl

/-! ### decomposition -/

theorem toBE_succ_mul (n v x : Nat) (hx : x < 256) : toBE (n + 1) (v * 256 + x) = toBE n v ++ [x] := by
  have e1 : (v * 256 + x) / 256 = v := by omega
  have e2 : (v * 256 + x) % 256 = x := by omega
  simp only [toBE, e1, e2]

theorem toBE1 (a : Nat) (ha : a < 256) : toBE 1 a = [a] := by
  simp [toBE, Nat.mod_eq_of_lt ha]

theorem toBE2_pair (a b : Nat) (ha : a < 256) (hb : b < 256) : toBE 2 (a * 256 + b) = [a, b] := by
  rw [toBE_succ_mul 1 a b hb, toBE1 a ha]; rfl

theorem toBE4_quad (a b c d : Nat) (ha : a < 256) (hb : b < 256) (hc : c < 256) (hd : d < 256) :
    toBE 4 (((a * 256 + b) * 256 + c) * 256 + d) = [a, b, c, d] := by
  rw [toBE_succ_mul 3 _ d hd, toBE_succ_mul 2 _ c hc, toBE_succ_mul 1 a b hb, toBE1 a ha]; rfl

theorem decompose_short (b : Bytes) (h : b.length < 8) :
    ∃ (es : List IlogEntry) (tail : Bytes), (∀ e ∈ es, IlogEntry.WF e) ∧ tail.length < 8 ∧
      b = es.flatMap IlogEntry.enc ++ tail ∧ es.length = b.length / 8 := by
  refine ⟨[], b, by simp, h, by simp, ?_⟩
  simp only [List.length_nil]
  omega

theorem decompose_aux (n : Nat) : ∀ b : Bytes, b.length ≤ n → (∀ x ∈ b, x < 256) →
    ∃ (es : List IlogEntry) (tail : Bytes), (∀ e ∈ es, IlogEntry.WF e) ∧ tail.length < 8 ∧
      b = es.flatMap IlogEntry.enc ++ tail ∧ es.length = b.length / 8 := by
  induction n with
  | zero =>
    intro b hn _
    have : b = [] := List.eq_nil_of_length_eq_zero (by omega)
    subst this
    exact ⟨[], [], by simp, by simp, by simp, by simp⟩
  | succ n ih =>
    intro b hn hb
    match b, hn, hb with
    | a0 :: a1 :: a2 :: a3 :: a4 :: a5 :: a6 :: a7 :: rest, hn, hb =>
      have h0 : a0 < 256 := hb a0 (by simp)
      have h1 : a1 < 256 := hb a1 (by simp)
      have h2 : a2 < 256 := hb a2 (by simp)
      have h3 : a3 < 256 := hb a3 (by simp)
      have h4 : a4 < 256 := hb a4 (by simp)
      have h5 : a5 < 256 := hb a5 (by simp)
      have h6 : a6 < 256 := hb a6 (by simp)
      have h7 : a7 < 256 := hb a7 (by simp)
      obtain ⟨es, tail, hwf, htl, heq, hlen⟩ := ih rest (by simp at hn; omega)
        (fun x hx => hb x (by simp [hx]))
      refine ⟨⟨a0 * 256 + a1, a2 * 256 + a3, ((a4 * 256 + a5) * 256 + a6) * 256 + a7⟩ :: es, tail,
        ?_, htl, ?_, ?_⟩
      · intro e he
        rcases List.mem_cons.mp he with rfl | he
        · refine ⟨?_, ?_, ?_⟩ <;> simp only <;> omega
        · exact hwf e he
      · rw [List.flatMap_cons, List.append_assoc, ← heq]
        simp only [IlogEntry.enc, toBE2_pair a0 a1 h0 h1, toBE2_pair a2 a3 h2 h3,
          toBE4_quad a4 a5 a6 a7 h4 h5 h6 h7]
        rfl
      · simp only [List.length_cons, hlen]
        omega
    | [], _, _ => exact decompose_short _ (by simp)
    | [_], _, _ => exact decompose_short _ (by simp)
    | [_, _], _, _ => exact decompose_short _ (by simp)
    | [_, _, _], _, _ => exact decompose_short _ (by simp)
    | [_, _, _, _], _, _ => exact decompose_short _ (by simp)
    | [_, _, _, _, _], _, _ => exact decompose_short _ (by simp)
    | [_, _, _, _, _, _], _, _ => exact decompose_short _ (by simp)
    | [_, _, _, _, _, _, _], _, _ => exact decompose_short _ (by simp)

/-! ### columns of a line -/

theorem columns (A B C m : Text) (hA : A.length = 8) (hB : B.length = 4) (hC : C.length = 8) :
    (A ++ [32] ++ B ++ [32] ++ C ++ [32] ++ m).take 8 = A ∧
    ((A ++ [32] ++ B ++ [32] ++ C ++ [32] ++ m).drop 9).take 4 = B ∧
    ((A ++ [32] ++ B ++ [32] ++ C ++ [32] ++ m).drop 14).take 8 = C := by
  refine ⟨?_, ?_, ?_⟩
  · have e : A ++ [32] ++ B ++ [32] ++ C ++ [32] ++ m = A ++ ([32] ++ B ++ [32] ++ C ++ [32] ++ m) := by
      simp
    rw [e, List.take_left' hA]
  · have e : A ++ [32] ++ B ++ [32] ++ C ++ [32] ++ m = (A ++ [32]) ++ (B ++ ([32] ++ C ++ [32] ++ m)) := by
      simp
    rw [e, List.drop_left' (by simp [hA]), List.take_left' hB]
  · have e : A ++ [32] ++ B ++ [32] ++ C ++ [32] ++ m = (A ++ [32] ++ B ++ [32]) ++ (C ++ ([32] ++ m)) := by
      simp
    rw [e, List.drop_left' (by simp [hA, hB]), List.take_left' hC]

end Pel
