import PelModel.TransOutput
import PelProofs.JsonAlign
/-
  Lemmas for the source tie of `buildOutput`, `keyEndIndex` and `prettyPrint` (stream `output`, PelProps/TieC01.lean, TieC06.lean):
  loop rules (invariant + variant) for the combinators of PelModel/TransOutput.lean, and the model functions restated in the
  index vocabulary of the Python text.  Nothing here mentions a generated definition.
-/
namespace Pel

/-- close a leaf of a case analysis from the hypotheses of the case (`subst_vars` first: an equation `34 = c` left by a test written
    the other way round would otherwise be used by `simp_all` as a rewrite rule for the literal) -/
macro "tie_leaf" : tactic => `(tactic| first
  | (subst_vars; simp_all; done)
  | omega)

/-- a bind after an `if` whose branches were joined: into the branches -/
theorem opt_bind_ite {α β : Type} (c : Prop) [Decidable c] (a b : Option α) (f : α → Option β) :
    (if c then a else b).bind f = if c then a.bind f else b.bind f := by
  split <;> rfl

/-! ### the `while` rule -/

/-- what one pass through the body must establish: `Inv` again with a smaller variant and the same answer, or the answer itself -/
def LoopStep.ok {σ ρ : Type} (Inv : σ → Prop) (μ : σ → Nat) (R : σ → Option ρ) (st : σ) : Option (LoopStep σ ρ) → Prop
  | some (.next st') => Inv st' ∧ μ st' < μ st ∧ R st' = R st
  | some (.ret v) => R st = some v
  | none => False

@[simp] theorem LoopStep.ok_next {σ ρ : Type} (Inv : σ → Prop) (μ : σ → Nat) (R : σ → Option ρ) (st st' : σ) :
    LoopStep.ok Inv μ R st (some (.next st')) ↔ (Inv st' ∧ μ st' < μ st ∧ R st' = R st) := Iff.rfl
@[simp] theorem LoopStep.ok_ret {σ ρ : Type} (Inv : σ → Prop) (μ : σ → Nat) (R : σ → Option ρ) (st : σ) (v : ρ) :
    LoopStep.ok Inv μ R st (some (.ret v)) ↔ R st = some v := Iff.rfl
@[simp] theorem LoopStep.ok_none {σ ρ : Type} (Inv : σ → Prop) (μ : σ → Nat) (R : σ → Option ρ) (st : σ) :
    LoopStep.ok Inv μ R st none ↔ False := Iff.rfl
theorem LoopStep.ok_ite {σ ρ : Type} (Inv : σ → Prop) (μ : σ → Nat) (R : σ → Option ρ) (st : σ) (c : Prop) [Decidable c]
    (a b : Option (LoopStep σ ρ)) :
    LoopStep.ok Inv μ R st (if c then a else b) ↔ (if c then LoopStep.ok Inv μ R st a else LoopStep.ok Inv μ R st b) := by
  split <;> rfl

/-- `while` rule: under the invariant, either the condition is false and the rest of the function gives the answer `R`, or it is
    true and one pass through the body is `ok`.  Then the fuelled loop equals `R` whenever the fuel exceeds the variant. -/
theorem pyWhile_rule {σ ρ : Type} {cond : σ → Option Bool} {body : σ → Option (LoopStep σ ρ)} {k : σ → Option ρ}
    (Inv : σ → Prop) (μ : σ → Nat) (R : σ → Option ρ)
    (hstep : ∀ st, Inv st →
      (cond st = some false ∧ k st = R st) ∨ (cond st = some true ∧ LoopStep.ok Inv μ R st (body st))) :
    ∀ fuel st, Inv st → μ st < fuel → pyWhile cond body k fuel st = R st := by
  intro fuel
  induction fuel with
  | zero => intro st _ h; omega
  | succ f ih =>
    intro st hi hf
    rcases hstep st hi with ⟨hc, hk⟩ | ⟨hc, hb⟩
    · simp [pyWhile, hc, hk]
    · cases hbs : body st with
      | none => simp [hbs, LoopStep.ok] at hb
      | some r =>
        cases r with
        | next st' =>
          simp only [hbs, LoopStep.ok_next] at hb
          simp only [pyWhile, hc, hbs, Option.bind_eq_bind, Option.bind_some, if_true]
          rw [← hb.2.2]; exact ih st' hb.1 (by omega)
        | ret v =>
          simp only [hbs, LoopStep.ok_ret] at hb
          simp [pyWhile, hc, hbs, hb]

/-! ### the `for` rule -/

/-- the computation does not raise and its value satisfies `P` -/
def OptSat {α : Type} (P : α → Prop) : Option α → Prop
  | some x => P x
  | none => False

@[simp] theorem OptSat_some {α : Type} (P : α → Prop) (x : α) : OptSat P (some x) ↔ P x := Iff.rfl
@[simp] theorem OptSat_none {α : Type} (P : α → Prop) : OptSat P none ↔ False := Iff.rfl
theorem OptSat_ite {α : Type} (P : α → Prop) (c : Prop) [Decidable c] (a b : Option α) :
    OptSat P (if c then a else b) ↔ (if c then OptSat P a else OptSat P b) := by
  split <;> rfl
theorem OptSat_elim {α : Type} {P : α → Prop} {o : Option α} (h : OptSat P o) : ∃ x, o = some x ∧ P x := by
  cases o with
  | none => exact h.elim
  | some x => exact ⟨x, rfl, h⟩
/-- a computation that satisfies `P`, followed by a continuation that gives `r` on every value satisfying `P` -/
theorem bind_eq_of_sat {α β : Type} {P : α → Prop} {o : Option α} {k : α → Option β} {r : Option β}
    (h : OptSat P o) (hk : ∀ x, P x → k x = r) : (o >>= k) = r := by
  obtain ⟨x, rfl, hx⟩ := OptSat_elim h
  exact hk x hx

/-- `for` rule (Hoare style): `Inv 0` holds at the start and every pass takes `Inv i` to `Inv (i+1)` without raising -/
theorem pyFor_range_rule {σ : Type} {body : Int → σ → Option σ} (n : Nat) (Inv : Nat → σ → Prop)
    (hstep : ∀ i st, i < n → Inv i st → OptSat (Inv (i + 1)) (body (i : Int) st)) :
    ∀ st, Inv 0 st → OptSat (Inv n) (pyFor (pyRange (n : Int)) body st) := by
  have key : ∀ (m : Nat), m ≤ n → ∀ st, Inv 0 st →
      OptSat (Inv m) (((List.range m).map Int.ofNat).foldlM (fun st x => body x st) st) := by
    intro m
    induction m with
    | zero => intro _ st h; simpa using h
    | succ m ih =>
      intro hm st h
      obtain ⟨st1, h1, i1⟩ := OptSat_elim (ih (by omega) st h)
      rw [List.range_succ, List.map_append, List.foldlM_append, h1]
      simpa using hstep m st1 (by omega) i1
  intro st h
  simpa [pyFor, pyRange] using key n (Nat.le_refl n) st h

/-! ### indices, slices -/

theorem pyAt?_nat {α : Type} (l : List α) (n : Nat) : pyAt? l (n : Int) = l[n]? := by simp [pyAt?]

theorem pyAt?_zero {α : Type} (l : List α) : pyAt? l 0 = l[0]? := pyAt?_nat l 0
theorem pyAt?_one {α : Type} (l : List α) : pyAt? l 1 = l[1]? := pyAt?_nat l 1

theorem getElem?_of_drop {α : Type} {l : List α} {n : Nat} {c : α} {r : List α} (h : l.drop n = c :: r) : l[n]? = some c := by
  have := List.getElem?_drop (xs := l) (i := n) (j := 0); simp [h] at this; exact this.symm

theorem drop_add_of_drop {α : Type} {l rest : List α} {n : Nat} (h : l.drop n = rest) (k : Nat) : l.drop (n + k) = rest.drop k := by
  subst h; rw [List.drop_drop]

theorem pyCharAt_of_drop {l : Text} {n c : Nat} {r : Text} (h : l.drop n = c :: r) : pyCharAt l (n : Int) = some [c] := by
  simp [pyCharAt, pyAt?_nat, getElem?_of_drop h]

theorem pySl_nat {α : Type} (l : List α) (x y : Nat) : pySl l (some (x : Int)) (some (y : Int)) = (l.take y).drop x := by
  have h1 : ¬ ((x : Int) < 0) := by omega
  have h2 : ¬ ((y : Int) < 0) := by omega
  simp only [pySl, Option.map_some, Option.getD_some, pyBound, h1, h2, if_false, Int.toNat_natCast]
  rw [← List.take_eq_take_min]
  by_cases h : x ≤ l.length
  · rw [Nat.min_eq_left h]
  · rw [List.drop_eq_nil_of_le (by simp; omega), List.drop_eq_nil_of_le (by simp; omega)]

theorem pySl_to_nat {α : Type} (l : List α) (y : Nat) : pySl l none (some (y : Int)) = l.take y := by
  have h2 : ¬ ((y : Int) < 0) := by omega
  simp only [pySl, Option.map_some, Option.map_none, Option.getD_some, Option.getD_none, pyBound, h2, if_false, Int.toNat_natCast,
    List.drop_zero]
  rw [← List.take_eq_take_min]

theorem pySl_from_nat {α : Type} (l : List α) (x : Nat) : pySl l (some (x : Int)) none = l.drop x := by
  have h1 : ¬ ((x : Int) < 0) := by omega
  simp only [pySl, Option.map_some, Option.map_none, Option.getD_some, Option.getD_none, pyBound, h1, if_false, Int.toNat_natCast,
    List.take_length]
  by_cases h : x ≤ l.length
  · rw [Nat.min_eq_left h]
  · rw [List.drop_eq_nil_of_le (by omega), List.drop_eq_nil_of_le (by omega)]

/-- a slice whose bounds are offsets from a known position `n`: a slice of what is left at `n` -/
theorem pySl_of_drop {α : Type} {l rest : List α} {n : Nat} (hd : l.drop n = rest) (a b : Int) (ha : 0 ≤ a) (hb : 0 ≤ b) :
    pySl l (some ((n : Int) + a)) (some ((n : Int) + b)) = (rest.take b.toNat).drop a.toNat := by
  obtain ⟨a, rfl⟩ := Int.eq_ofNat_of_zero_le ha
  obtain ⟨b, rfl⟩ := Int.eq_ofNat_of_zero_le hb
  subst hd
  rw [← Int.natCast_add, ← Int.natCast_add, pySl_nat]
  simp only [Int.toNat_natCast, List.drop_take, List.drop_drop]
  congr 1; omega

/-! ### `keyEndIndex` -/

/-- the Python result of `keyEndIndex`: the index, or -1 -/
def encIdx : Option Nat → Int
  | some k => (k : Int)
  | none => -1

@[simp] theorem encIdx_some (k : Nat) : encIdx (some k) = (k : Int) := rfl
@[simp] theorem encIdx_none : encIdx none = -1 := rfl
/-- the encoding loses nothing -/
theorem encIdx_injective (a b : Option Nat) (h : encIdx a = encIdx b) : a = b := by
  cases a <;> cases b <;> simp [encIdx] at h ⊢ <;> omega
theorem encIdx_nonneg (o : Option Nat) : 0 ≤ encIdx o ↔ o.isSome = true := by
  cases o <;> simp [encIdx]

/-- `len(line) - len(line.lstrip(chars))` is the position where the stripped text starts -/
theorem lstrip_facts (chars line : Text) :
    ∃ n : Nat, pyLen line - pyLen (pyLstrip chars line) = (n : Int) ∧ line.drop n = pyLstrip chars line ∧
      n = line.length - (pyLstrip chars line).length := by
  refine ⟨line.length - (pyLstrip chars line).length, ?_, ?_, rfl⟩
  · have : (pyLstrip chars line).length ≤ line.length := by
      unfold pyLstrip; exact (List.dropWhile_sublist _).length_le
    simp only [pyLen]; omega
  · unfold pyLstrip
    have h := List.takeWhile_append_dropWhile (p := fun c => chars.contains c) (l := line)
    have hl : line.length = (line.takeWhile fun c => chars.contains c).length + (line.dropWhile fun c => chars.contains c).length := by
      rw [← List.length_append, h]
    have : line.length - (line.dropWhile fun c => chars.contains c).length = (line.takeWhile fun c => chars.contains c).length := by omega
    rw [this]
    have e := List.drop_left (l₁ := line.takeWhile fun c => chars.contains c) (l₂ := line.dropWhile fun c => chars.contains c)
    rw [h] at e; exact e

theorem pyLstrip_space (line : Text) : pyLstrip [32] line = line.dropWhile (· == 32) := by
  unfold pyLstrip; congr 1; funext c; cases h : (c == 32) <;> simp_all

/-- the model's scan, one character at a time, in the words of the Python loop -/
theorem keyScan_cons (c : Nat) (r : Text) (i : Nat) :
    keyScan (c :: r) i =
      if c = 92 then keyScan (r.drop 1) (i + 2)
      else if c = 34 then (if r.take 1 = [58] then some i else none)
      else keyScan r (i + 1) := by
  rw [keyScan.eq_def]
  cases r with
  | nil => simp [keyScan]
  | cons x r' =>
    by_cases h1 : c = 92
    · simp [h1]
    · by_cases h2 : c = 34
      · by_cases h3 : x = 58 <;> simp [h2, h3]
      · simp [h1, h2]

theorem keyScan_nil (i : Nat) : keyScan [] i = none := rfl

/-- the model's `keyEndIndex` in the words of the Python text -/
theorem keyEndIndex_eq (line : Text) :
    keyEndIndex line =
      if (pyLstrip [32] line).head? = some 34
      then keyScan ((pyLstrip [32] line).drop 1) (line.length - (pyLstrip [32] line).length + 1)
      else none := by
  simp only [keyEndIndex, pyLstrip_space]
  generalize line.dropWhile (· == 32) = b
  cases b with
  | nil => simp
  | cons c r =>
    by_cases h : c = 34
    · subst h; simp
    · simp only [List.head?_cons, Option.some.injEq, h, if_false]
      split
      · rename_i heq; simp only [List.cons.injEq] at heq; exact absurd heq.1 h
      · rfl

/-- what the scan answers from index `i` on: the specification of the `while` loop of `keyEndIndex` -/
def scanFrom (line : Text) (i : Int) : Option Int := some (encIdx (keyScan (line.drop i.toNat) i.toNat))

theorem scanFrom_cons {line : Text} {n c : Nat} {r : Text} (h : line.drop n = c :: r) :
    scanFrom line (n : Int) = some (encIdx (keyScan (c :: r) n)) := by
  simp [scanFrom, h]

theorem scanFrom_add {line rest : Text} {n : Nat} (h : line.drop n = rest) (k : Int) (hk : 0 ≤ k) :
    scanFrom line ((n : Int) + k) = some (encIdx (keyScan (rest.drop k.toNat) (n + k.toNat))) := by
  obtain ⟨k, rfl⟩ := Int.eq_ofNat_of_zero_le hk
  have e : ((n : Int) + (k : Int)).toNat = n + k := by omega
  simp [scanFrom, e, drop_add_of_drop h]

theorem scanFrom_end {line : Text} {n : Nat} (h : line.length ≤ n) : scanFrom line (n : Int) = some (-1) := by
  simp [scanFrom, List.drop_eq_nil_of_le h, keyScan_nil]

/-! ### `prettyPrint` -/

theorem pySplit1_nl (t : Text) : pySplit1 10 t = splitNL t := by
  induction t with
  | nil => rfl
  | cons c r ih =>
    simp only [pySplit1, splitNL, ih]
    cases splitNL r <;> rfl

theorem pyInStr_single (c : Nat) (l : Text) : pyInStr [c] l = l.contains c := by
  induction l with
  | nil => rfl
  | cons x r ih =>
    simp only [pyInStr, ih, List.contains_cons]
    cases h : (x == c) <;> cases h' : (c == x) <;> simp_all [List.isPrefixOf]

theorem pyMulStr_single (n : Int) (c : Nat) : pyMulStr n [c] = List.replicate n.toNat c := by
  simp only [pyMulStr]
  induction n.toNat with
  | zero => rfl
  | succ k ih => simp [List.replicate_succ, ih]

/-- the first `i` items rewritten by `f`: the list `lines` after `i` passes of `for i in range(len(lines)): lines[i] = f(lines[i])` -/
def mapPrefix {α : Type} (f : α → α) (i : Nat) (l : List α) : List α := (l.take i).map f ++ l.drop i

theorem mapPrefix_zero {α : Type} (f : α → α) (l : List α) : mapPrefix f 0 l = l := by simp [mapPrefix]
theorem mapPrefix_all {α : Type} (f : α → α) (l : List α) : mapPrefix f l.length l = l.map f := by simp [mapPrefix]
theorem mapPrefix_length {α : Type} (f : α → α) (i : Nat) (l : List α) : (mapPrefix f i l).length = l.length := by
  simp [mapPrefix]; omega
theorem mapPrefix_getElem? {α : Type} (f : α → α) (i : Nat) (l : List α) (h : i < l.length) :
    (mapPrefix f i l)[i]? = some l[i] := by
  have h1 : ((l.take i).map f).length = i := by simp; omega
  rw [mapPrefix, List.getElem?_append_right (by omega), h1]
  simp [h]
theorem mapPrefix_set {α : Type} (f : α → α) (i : Nat) (l : List α) (h : i < l.length) :
    (mapPrefix f i l).set i (f l[i]) = mapPrefix f (i + 1) l := by
  have h1 : ((l.take i).map f).length = i := by simp; omega
  rw [mapPrefix, List.set_append_right _ _ (by omega), h1, Nat.sub_self]
  rw [mapPrefix, List.take_add_one, List.map_append]
  have hd : l.drop i = l[i] :: l.drop (i + 1) := (List.drop_eq_getElem_cons h)
  rw [hd, List.set_cons_zero]
  simp only [List.getElem?_eq_getElem h, Option.toList_some, List.map_cons, List.map_nil, List.append_assoc, List.cons_append, List.nil_append]
theorem mapPrefix_fix {α : Type} (f : α → α) (i : Nat) (l : List α) (h : i < l.length) (hf : f l[i] = l[i]) :
    mapPrefix f (i + 1) l = mapPrefix f i l := by
  rw [← mapPrefix_set f i l h, hf]
  apply List.ext_getElem?
  intro j
  by_cases hj : i = j
  · subst hj; rw [List.getElem?_set_self (by rw [mapPrefix_length]; exact h), mapPrefix_getElem? f i l h]
  · rw [List.getElem?_set_ne hj]

theorem pyAt?_mapPrefix {α : Type} (f : α → α) (i : Nat) (l : List α) (h : i < l.length) :
    pyAt? (mapPrefix f i l) (i : Int) = some l[i] := by
  rw [pyAt?_nat, mapPrefix_getElem? f i l h]

theorem pyListSet?_nat {α : Type} (l : List α) (i : Nat) (v : α) (h : i < l.length) : pyListSet? l (i : Int) v = some (l.set i v) := by
  simp [pyListSet?, h]

/-! ### `buildOutput` -/

theorem pyDictSet_eq_objSet (d : List (Text × J)) (k : Text) (v : J) : pyDictSet d k v = objSet d k v := by
  induction d with
  | nil => rfl
  | cons a r ih => obtain ⟨k', v'⟩ := a; simp only [pyDictSet, objSet, ih]

theorem pyDictGet?_set {κ ν : Type} [DecidableEq κ] (d : List (κ × ν)) (k k' : κ) (v : ν) :
    pyDictGet? (pyDictSet d k v) k' = if k = k' then some v else pyDictGet? d k' := by
  induction d with
  | nil => simp [pyDictSet, pyDictGet?]
  | cons a r ih =>
    obtain ⟨k0, v0⟩ := a
    by_cases h0 : k0 = k
    · subst h0; by_cases h1 : k0 = k' <;> simp [pyDictSet, pyDictGet?, h1]
    · by_cases h1 : k0 = k'
      · subst h1; simp [pyDictSet, pyDictGet?, h0, Ne.symm h0]
      · simp [pyDictSet, pyDictGet?, h0, h1, ih]

theorem pyDictHas_eq {κ ν : Type} [DecidableEq κ] (d : List (κ × ν)) (k : κ) : pyDictHas d k = (pyDictGet? d k).isSome := by
  induction d with
  | nil => rfl
  | cons a r ih =>
    obtain ⟨k0, v0⟩ := a
    have ih' : r.any (fun p => decide (p.1 = k)) = (pyDictGet? r k).isSome := ih
    by_cases h0 : k0 = k <;> simp [pyDictHas, pyDictGet?, h0, ih']

/- (the next two lemmas are also in PelProofs/FramesPel.lean, which cannot be imported next to PelProofs/JsonParse.lean) -/
theorem ctr_find_filter_ne (counters : List (Text × Nat)) (n name : Text) (h : name ≠ n) :
    (counters.filter (fun p => p.1 != n)).find? (fun p => p.1 == name) = counters.find? (fun p => p.1 == name) := by
  induction counters with
  | nil => rfl
  | cons a l ih =>
    rw [List.filter_cons]
    split
    · rw [List.find?_cons, List.find?_cons, ih]
    · rename_i hx
      have ha : a.1 = n := by simpa using hx
      have hb : (a.1 == name) = false := by rw [ha]; simpa using Ne.symm h
      rw [List.find?_cons, hb, ih]

theorem countName_app (name : Text) (a b : List (Text × J)) :
    countName name (a ++ b) = countName name a + countName name b := by
  simp [countName]

/-- the model's per-name counter -/
def ctr (counters : List (Text × Nat)) (name : Text) : Nat := ((counters.find? (fun p => p.1 == name)).map (·.2)).getD 0

theorem ctr_update (counters : List (Text × Nat)) (n name : Text) (v : Nat) :
    ctr ((n, v) :: counters.filter (fun p => p.1 != n)) name = if name = n then v else ctr counters name := by
  by_cases h : name = n
  · subst h; simp [ctr]
  · have : (n == name) = false := by simpa using Ne.symm h
    simp only [ctr, List.find?_cons, this, ctr_find_filter_ne counters n name h, if_neg h]

theorem countName_take_succ (name : Text) (all : List (Text × J)) (i : Nat) (h : i < all.length) :
    countName name (all.take (i + 1)) = countName name (all.take i) + (if all[i].1 = name then 1 else 0) := by
  rw [List.take_add_one, countName_app, List.getElem?_eq_getElem h]
  by_cases hn : all[i].1 = name <;> simp [countName, hn]

theorem countName_pos_of_getElem (all : List (Text × J)) (i : Nat) (h : i < all.length) : countName all[i].1 all ≠ 0 := by
  have hm : all[i] ∈ all.filter (fun p => p.1 == all[i].1) := by simp [List.mem_filter]
  intro h0
  simp only [countName, List.length_eq_zero_iff] at h0
  rw [h0] at hm; cases hm

theorem buildOutputGo_cons (all : List (Text × J)) (p : Text × J) (r : List (Text × J)) (counters : List (Text × Nat)) (out : List (Text × J)) :
    buildOutputGo all (p :: r) counters out =
      if countName p.1 all = 1 then buildOutputGo all r counters (objSet out p.1 p.2)
      else buildOutputGo all r ((p.1, ctr counters p.1 + 1) :: counters.filter (fun q => q.1 != p.1))
             (objSet out (p.1 ++ [32] ++ natDec (ctr counters p.1)) p.2) := by
  obtain ⟨name, j⟩ := p
  simp only [buildOutputGo, ctr]

theorem intDec_natCast (m : Nat) : intDec (m : Int) = natDec m := rfl

/-- a list of one-member dictionaries (what `sectionFun` leaves in each fresh `OrderedDict`): item `i` -/
theorem pyAt?_singletons {α : Type} (all : List α) (i : Nat) (h : i < all.length) :
    pyAt? (all.map fun p => [p]) (i : Int) = some [all[i]] := by
  simp [pyAt?_nat, h]

/-- after the first pass over the first `i` sections: every name seen so far is mapped to [its number of occurrences so far, 0] -/
def CountsInv (all : List (Text × J)) (i : Nat) (counts : List (Text × List Int)) : Prop :=
  ∀ name, pyDictGet? counts name =
    if countName name (all.take i) = 0 then none else some [(countName name (all.take i) : Int), 0]

/-- during the second pass: the dictionary holds [total, next number] for every name, where the next numbers are the model's
    counters, and running the model on the remaining sections from here gives the model's final answer -/
def OutInv (all out0 : List (Text × J)) (i : Nat) (st : List (Text × J) × List (Text × List Int)) : Prop :=
  ∃ counters : List (Text × Nat),
    (∀ name, countName name all ≠ 0 → pyDictGet? st.2 name = some [(countName name all : Int), (ctr counters name : Int)]) ∧
    buildOutputGo all (all.drop i) counters st.1 = buildOutput all out0

theorem CountsInv_zero (all : List (Text × J)) : CountsInv all 0 [] := by
  intro name; simp [countName, pyDictGet?]

/-- one pass of the first loop: the entry of the section's name becomes [occurrences so far + 1, 0] -/
theorem CountsInv_step (all : List (Text × J)) (i : Nat) (hi : i < all.length) (counts : List (Text × List Int))
    (hinv : CountsInv all i counts) :
    CountsInv all (i + 1) (pyDictSet counts all[i].1 [(countName all[i].1 (all.take i) : Int) + 1, 0]) := by
  intro name
  rw [pyDictGet?_set, hinv name, countName_take_succ name all i hi]
  by_cases hn : all[i].1 = name
  · subst hn
    simp
  · simp [hn]

theorem OutInv_zero (all out0 : List (Text × J)) (counts : List (Text × List Int)) (hc : CountsInv all all.length counts) :
    OutInv all out0 0 (out0, counts) := by
  refine ⟨[], ?_, ?_⟩
  · intro name hpos
    have := hc name
    rw [List.take_length] at this
    simp [this, hpos, ctr]
  · simp [Pel.buildOutput]

/-- one pass of the second loop for a name that occurs once -/
theorem OutInv_step_once (all out0 : List (Text × J)) (i : Nat) (hi : i < all.length) (out : List (Text × J))
    (cts : List (Text × List Int)) (hinv : OutInv all out0 i (out, cts)) (h1 : countName all[i].1 all = 1) :
    OutInv all out0 (i + 1) (pyDictSet out all[i].1 all[i].2, cts) := by
  obtain ⟨counters, hrel, hgo⟩ := hinv
  refine ⟨counters, hrel, ?_⟩
  rw [List.drop_eq_getElem_cons hi, buildOutputGo_cons, if_pos h1] at hgo
  simpa [pyDictSet_eq_objSet] using hgo

/-- one pass of the second loop for a name that occurs more than once: numbered with the model's counter, which goes up by one -/
theorem OutInv_step_more (all out0 : List (Text × J)) (i : Nat) (hi : i < all.length) (out : List (Text × J))
    (cts : List (Text × List Int)) (counters : List (Text × Nat))
    (hrel : ∀ name, countName name all ≠ 0 → pyDictGet? cts name = some [(countName name all : Int), (ctr counters name : Int)])
    (hgo : buildOutputGo all (all.drop i) counters out = Pel.buildOutput all out0) (h1 : countName all[i].1 all ≠ 1) :
    OutInv all out0 (i + 1)
      (pyDictSet out (all[i].1 ++ [32] ++ intDec (ctr counters all[i].1 : Int)) all[i].2,
       pyDictSet cts all[i].1 [(countName all[i].1 all : Int), (ctr counters all[i].1 : Int) + 1]) := by
  refine ⟨(all[i].1, ctr counters all[i].1 + 1) :: counters.filter (fun q => q.1 != all[i].1), ?_, ?_⟩
  · intro name hpos
    simp only [pyDictGet?_set, ctr_update]
    by_cases hn : all[i].1 = name
    · subst hn; simp
    · simp [hn, Ne.symm hn, hrel name hpos]
  · rw [List.drop_eq_getElem_cons hi, buildOutputGo_cons, if_neg h1] at hgo
    simpa [pyDictSet_eq_objSet, intDec_natCast] using hgo

theorem OutInv_final (all out0 : List (Text × J)) (st : List (Text × J) × List (Text × List Int)) (h : OutInv all out0 all.length st) :
    st.1 = Pel.buildOutput all out0 := by
  obtain ⟨counters, _, hgo⟩ := h
  simpa [buildOutputGo] using hgo

end Pel
