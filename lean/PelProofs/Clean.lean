import PelModel.Clean
namespace Pel
-- helper lemmas for C12

/-- every recorded event is a planned step -/
theorem runSteps_fst_mem (p : List Ev) (k : Nat) (fault : Nat → Bool) :
    ∀ x ∈ runSteps p k fault, x.1 ∈ p := by
  induction p generalizing k with
  | nil => intro x hx; simp [runSteps] at hx
  | cons e es ih =>
    intro x hx
    simp only [runSteps] at hx
    split at hx
    · simp only [List.mem_singleton] at hx; subst hx; simp
    · simp only [List.mem_cons] at hx
      rcases hx with hx | hx
      · subst hx; simp
      · exact List.mem_cons_of_mem _ (ih _ x hx)

theorem runSteps_not_mem (p : List Ev) (k : Nat) (fault : Nat → Bool) (e : Ev) (ok : Bool) (h : e ∉ p) :
    (e, ok) ∉ runSteps p k fault := fun hx => h (runSteps_fst_mem p k fault _ hx)

/-- if the removal is the last planned step and appears in an executed prefix, the prefix is the whole plan,
    every earlier step having succeeded -/
theorem runSteps_prefix_remove (p : List Ev) (hp : Ev.removeIn ∉ p) (k : Nat) (fault : Nat → Bool)
    (pre : List (Ev × Bool)) (hpre : pre <+: runSteps (p ++ [Ev.removeIn]) k fault) (ok : Bool)
    (hrm : (Ev.removeIn, ok) ∈ pre) : pre = p.map (fun e => (e, true)) ++ [(Ev.removeIn, ok)] := by
  induction p generalizing k pre with
  | nil =>
    simp only [List.nil_append, runSteps] at hpre
    simp only [List.map_nil, List.nil_append]
    cases pre with
    | nil => simp at hrm
    | cons a as =>
      have hlen := hpre.length_le
      have has : as = [] := by
        cases as with
        | nil => rfl
        | cons b bs => split at hlen <;> simp at hlen
      subst has
      simp only [List.mem_singleton] at hrm
      rw [hrm]
  | cons e es ih =>
    have he : e ≠ Ev.removeIn := fun h => hp (by simp [h])
    have hes : Ev.removeIn ∉ es := fun h => hp (List.mem_cons_of_mem _ h)
    simp only [List.cons_append, runSteps] at hpre
    cases pre with
    | nil => simp at hrm
    | cons a as =>
      split at hpre
      · have hlen := hpre.length_le
        have has : as = [] := by
          cases as with
          | nil => rfl
          | cons b bs => simp at hlen
        subst has
        obtain ⟨t, ht⟩ := hpre
        simp only [List.cons_append, List.nil_append, List.cons.injEq] at ht
        simp only [List.mem_singleton] at hrm
        rw [← hrm] at ht
        exact absurd (congrArg Prod.fst ht.1).symm he
      · rw [List.cons_prefix_cons] at hpre
        obtain ⟨ha, hpre'⟩ := hpre
        subst ha
        simp only [List.mem_cons, Prod.mk.injEq] at hrm
        rcases hrm with hrm | hrm
        · exact absurd hrm.1.symm he
        · rw [ih hes (k + 1) as hpre' hrm]
          simp

/-- a successful removal is recorded exactly when no step up to and including it faults -/
theorem runSteps_removed_iff (p : List Ev) (hp : Ev.removeIn ∉ p) (k : Nat) (fault : Nat → Bool) :
    (Ev.removeIn, true) ∈ runSteps (p ++ [Ev.removeIn]) k fault ↔ ∀ j, j ≤ p.length → fault (k + j) = false := by
  induction p generalizing k with
  | nil =>
    simp only [List.nil_append, runSteps, List.length_nil, Nat.le_zero_eq]
    constructor
    · intro h j hj
      subst hj
      cases hf : fault k with
      | false => simp
      | true => simp [hf] at h
    · intro h
      have := h 0 rfl
      simp only [Nat.add_zero] at this
      simp [this]
  | cons e es ih =>
    have he : e ≠ Ev.removeIn := fun h => hp (by simp [h])
    have hes : Ev.removeIn ∉ es := fun h => hp (List.mem_cons_of_mem _ h)
    simp only [List.cons_append, runSteps, List.length_cons]
    cases hf : fault k with
    | true =>
      simp only [if_true, List.mem_singleton, Prod.mk.injEq]
      constructor
      · intro h; exact absurd h.1.symm he
      · intro h
        have := h 0 (Nat.zero_le _)
        simp only [Nat.add_zero] at this
        rw [hf] at this; exact absurd this (by decide)
    | false =>
      simp only [Bool.false_eq_true, if_false, List.mem_cons, Prod.mk.injEq]
      rw [ih hes (k + 1)]
      constructor
      · intro h j hj
        rcases h with h | h
        · exact absurd h.1.symm he
        · cases j with
          | zero => simpa using hf
          | succ j =>
            have := h j (by omega)
            rw [show k + (j + 1) = k + 1 + j by omega]; exact this
      · intro h
        refine Or.inr (fun j hj => ?_)
        have := h (j + 1) (by omega)
        rw [show k + 1 + j = k + (j + 1) by omega]; exact this

theorem jsonPlan_true (n : Nat) :
    jsonPlan n true = ([Ev.openOut] ++ List.replicate n Ev.write ++ [Ev.closeOut]) ++ [Ev.removeIn] := by
  simp [jsonPlan]

theorem jsonPlan_false (n : Nat) :
    jsonPlan n false = [Ev.openOut] ++ List.replicate n Ev.write ++ [Ev.closeOut] := by
  simp [jsonPlan]

theorem jsonBody_no_remove (n : Nat) : Ev.removeIn ∉ [Ev.openOut] ++ List.replicate n Ev.write ++ [Ev.closeOut] := by
  simp [List.mem_replicate]

theorem jsonBody_length (n : Nat) : ([Ev.openOut] ++ List.replicate n Ev.write ++ [Ev.closeOut]).length = n + 2 := by
  simp

theorem inputRemoved_iff (tr : List (Ev × Bool)) : inputRemoved tr = true ↔ (Ev.removeIn, true) ∈ tr := by
  simp [inputRemoved]

theorem inputRemoved_false_iff (tr : List (Ev × Bool)) : inputRemoved tr = false ↔ (Ev.removeIn, true) ∉ tr := by
  rw [← inputRemoved_iff]; cases inputRemoved tr <;> simp

end Pel
