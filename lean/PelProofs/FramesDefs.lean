import PelModel.PelSpec
import PelProofs.Frames
/- Shared vocabulary for the section-level framing lemmas. -/
namespace Pel

def mkSecHdr (id len : Nat) (h : AHdr) : SecHdr := { id := id, len := len, ver := h.ver, sub := h.sub, comp := h.comp }

/-- read one optional section: header, then the consumer chosen by the id; yields (display name, entry) -/
def decodeOne (env : Env) (creator : Text) : Rd (Text × J) := do
  let h ← parseHeader
  let (j, _) ← decodeSection env creator h
  pure (sectionName env.T h.id, j)

end Pel
