import PelModel.Select
import PelProofs.Basic
namespace Pel

theorem isHidden_eq (af : Nat) : isHidden af = specHidden af := rfl

theorem isServiceable_eq (sev af : Nat) : isServiceable sev af = specServiceable sev af := by
  unfold isServiceable specServiceable
  simp only [isHidden_eq, infoSeverity, reportFlag, serviceActionFlag]
  by_cases h1 : sev = 0
  · subst h1
    by_cases h4 : af &&& 0x8000 = 0 <;> simp [h4]
  · simp [h1]
    by_cases h2 : af &&& 0x2000 = 0 <;> simp [h2]

theorem sevMatches_eq (sev : Nat) (gs : List Nat) : sevMatches sev gs = gs.contains (sev / 16) := by
  induction gs with
  | nil => simp [sevMatches]
  | cons g gs ih =>
    have e : sev >>> 4 = sev / 16 := by rw [Nat.shiftRight_eq_div_pow]
    simp only [sevMatches, ih, e, List.contains_cons]
    by_cases h : sev / 16 = g
    · simp [h]
    · have h' : ¬ g = sev / 16 := fun x => h x.symm
      simp [h, h']

end Pel
