import PelModel.TransEffects
import PelModel.Top
import PelProofs.JsonAlign
import PelProofs.Clean
import PelProofs.Cli
/-
  Helper lemmas for the source tie of stream `effects` (PelProps/TieC11.lean, TieC12.lean): running the effect monad of
  PelModel/TransEffects.lean symbolically, loops over a directory, `writelines`, `runSteps`, the document text is never empty,
  `jsonMode` is the concatenation of its steps.
-/
namespace Pel

/-! ### a decoded document is never the empty text -/

theorem firstLineOf_ne_nil (x : J) : firstLineOf x ≠ [] := by
  rcases firstLineOf_shape x with ⟨t, e⟩ | ⟨c, r, e, _, _⟩
  · rw [e]; simp [renderStr]
  · rw [e]; simp

theorem dumps_ne_nil (d : J) : dumps d ≠ [] := by
  rw [dumps, dumpsLines_cons, joinWith_cons]
  have := firstLineOf_ne_nil d
  cases h : firstLineOf d with
  | nil => exact absurd h this
  | cons c r => simp

theorem ppLine_ne_nil (n : Nat) (l : Text) (h : l ≠ []) : ppLine n l ≠ [] := by
  unfold ppLine
  split
  · exact h
  · split
    · exact h
    · rename_i ind _
      intro he
      have hl := congrArg List.length he
      simp only [List.length_append, List.length_take, List.length_drop, List.length_nil] at hl
      have : l.length ≠ 0 := by simpa using h
      omega

theorem prettyPrint_ne_nil (n : Nat) (t : Text) (h : t ≠ []) : prettyPrint n t ≠ [] := by
  unfold prettyPrint
  cases t with
  | nil => exact absurd rfl h
  | cons c r =>
    by_cases hc : c = 10
    · subst hc
      rw [splitNL_nl]
      cases hs : splitNL r with
      | nil => exact absurd hs (splitNL_ne_nil r)
      | cons l ls => simp [List.map, joinWith_cons, jt_cons]
    · rw [splitNL_char c r hc, List.map_cons, joinWith_cons]
      have := ppLine_ne_nil n (c :: (splitNL r).headD []) (by simp)
      intro he
      exact this (List.append_eq_nil_iff.mp he).1

/-- `json_string` of a decoded, selected PEL is not `""`: the tests `if json_string:` / `len(json_string) != 0` of the source
    separate exactly the model's `.doc` outcome from the others -/
theorem prettyPrint_dumps_ne_nil (n : Nat) (d : J) : prettyPrint n (dumps d) ≠ [] :=
  prettyPrint_ne_nil n _ (dumps_ne_nil d)

theorem prettyPrint_dumps_isEmpty (n : Nat) (d : J) : (prettyPrint n (dumps d)).isEmpty = false := by
  cases hx : prettyPrint n (dumps d) with
  | nil => exact absurd hx (prettyPrint_dumps_ne_nil n d)
  | cons _ _ => rfl

theorem prettyPrint_dumps_length (n : Nat) (d : J) : ((prettyPrint n (dumps d)).length != 0) = true := by
  cases hx : prettyPrint n (dumps d) with
  | nil => exact absurd hx (prettyPrint_dumps_ne_nil n d)
  | cons _ _ => simp

theorem prettyPrint_dumps_length_eq (n : Nat) (d : J) : ((prettyPrint n (dumps d)).length == 0) = false := by
  cases hx : prettyPrint n (dumps d) with
  | nil => exact absurd hx (prettyPrint_dumps_ne_nil n d)
  | cons _ _ => simp

/-- the first or second section is not the Private / User Header (`parsePEL` then returns `("", "")`, or exits with `exit_on_error`) -/
def Outcome.isBadHeader : Outcome → Bool
  | .badHeader => true
  | _ => false

end Pel

namespace Pel.Eff

/-! ### running a computation symbolically -/

@[simp] theorem run_pure {α} (a : α) (fault : Nat → Bool) (st : St) : (pure a : M α) fault st = (.ok a, st) := rfl
@[simp] theorem run_bind {α β} (x : M α) (f : α → M β) (fault : Nat → Bool) (st : St) :
    (x >>= f) fault st = match x fault st with
      | (.ok a, st') => f a fault st'
      | (.error e, st') => (.error e, st') := rfl
@[simp] theorem run_raise {α} (e : Exc) (fault : Nat → Bool) (st : St) : (raise e : M α) fault st = (.error e, st) := rfl

theorem step_ok (ev : Ev) (eff : St → St) (fault : Nat → Bool) (st : St) (h : fault st.k = false) :
    step ev eff fault st = (.ok (), eff (st.ok ev)) := by
  simp [step, h]
theorem step_fail (ev : Ev) (eff : St → St) (fault : Nat → Bool) (st : St) (h : fault st.k = true) :
    step ev eff fault st = (.error (.osError ev), st.fail ev) := by
  simp [step, h]
@[simp] theorem step_noFault (ev : Ev) (eff : St → St) (st : St) : step ev eff noFault st = (.ok (), eff (st.ok ev)) := rfl

@[simp] theorem isException_ite (c : Prop) [Decidable c] (a b : Exc) :
    (if c then a else b).isException = if c then a.isException else b.isException := by
  split <;> rfl
@[simp] theorem isException_osError (ev : Ev) : (Exc.osError ev).isException = true := rfl
@[simp] theorem isException_noFile : Exc.noFile.isException = true := rfl
@[simp] theorem isException_decode (e : Err) : (Exc.decode e).isException = true := rfl
@[simp] theorem isException_exit (n : Nat) : (Exc.exit n).isException = false := rfl
@[simp] theorem isException_exitMsg : Exc.exitMsg.isException = false := rfl

/-! ### loops over a directory -/

/-- a loop whose body `continue`s on the entries that fail a test and ends the loop (`break`) at the first one that passes -/
theorem forEachS_find_run {α σ} (xs : List α) (s0 : σ) (body : α → σ → M (Loop σ)) (P : α → Bool) (fault : Nat → Bool)
    (post : α → St → Except Exc σ × St)
    (h1 : ∀ x st, P x = false → body x s0 fault st = (.ok (.next s0), st))
    (h2 : ∀ x st, P x = true → body x s0 fault st =
      (match post x st with | (.ok s', st') => (.ok (.brk s'), st') | (.error e, st') => (.error e, st')))
    (st : St) :
    forEachS xs s0 body fault st = match xs.find? P with | none => (.ok s0, st) | some x => post x st := by
  induction xs generalizing st with
  | nil => rfl
  | cons x xs ih =>
    cases hp : P x with
    | false =>
      simp only [forEachS, h1 x st hp, List.find?, hp]
      exact ih st
    | true =>
      simp only [forEachS, h2 x st hp, List.find?, hp]
      rcases post x st with ⟨r, st'⟩
      cases r <;> rfl

/-- a loop whose body always goes on to the next entry -/
theorem forEachS_all_run {α σ} (xs : List α) (s0 : σ) (body : α → σ → M (Loop σ)) (fault : Nat → Bool) (post : α → St → St)
    (h : ∀ x st, body x s0 fault st = (.ok (.next s0), post x st)) (st : St) :
    forEachS xs s0 body fault st = (.ok s0, xs.foldl (fun st x => post x st) st) := by
  induction xs generalizing st with
  | nil => rfl
  | cons x xs ih => simp only [forEachS, h x st, List.foldl]; exact ih _

/-! ### `writelines`, and `runSteps` over a run of equal steps -/

/-- no step with index `k … k+n-1` faults -/
def allOk (fault : Nat → Bool) (k : Nat) : Nat → Bool
  | 0 => true
  | n + 1 => !fault k && allOk fault (k + 1) n

theorem runSteps_replicate_ok (e : Ev) (n k : Nat) (fault : Nat → Bool) (rest : List Ev) (h : allOk fault k n = true) :
    runSteps (List.replicate n e ++ rest) k fault = List.replicate n (e, true) ++ runSteps rest (k + n) fault := by
  induction n generalizing k with
  | zero => simp
  | succ n ih =>
    simp only [allOk, Bool.and_eq_true, Bool.not_eq_true'] at h
    simp only [List.replicate_succ, List.cons_append, runSteps, h.1, Bool.false_eq_true, if_false]
    rw [ih (k + 1) h.2, show k + 1 + n = k + (n + 1) by omega]

theorem runSteps_replicate_fail (e : Ev) (n k : Nat) (fault : Nat → Bool) (rest : List Ev) (h : allOk fault k n = false) :
    runSteps (List.replicate n e ++ rest) k fault = runSteps (List.replicate n e) k fault := by
  induction n generalizing k with
  | zero => simp [allOk] at h
  | succ n ih =>
    simp only [List.replicate_succ, List.cons_append, runSteps]
    cases hf : fault k with
    | true => simp
    | false =>
      simp only [allOk, hf, Bool.not_false, Bool.true_and] at h
      simp [ih (k + 1) h]

@[simp] theorem removeIn_not_mem_writes (ok : Bool) (n k : Nat) (fault : Nat → Bool) :
    (Ev.removeIn, ok) ∉ runSteps (List.replicate n Ev.write) k fault :=
  runSteps_not_mem _ _ _ _ _ (by simp [List.mem_replicate])

theorem appendCur_appendCur (a b : Text) (s : St) : appendCur a (appendCur b s) = appendCur (b ++ a) s := by
  unfold appendCur
  cases h : s.created with
  | nil => simp [h]
  | cons pc r => obtain ⟨p, c⟩ := pc; simp

/-- the log after `t` was written completely -/
def St.wrote (st : St) (t : Text) : St :=
  { appendCur t st with k := st.k + t.length, trace := st.trace ++ List.replicate t.length (Ev.write, true) }

theorem writelinesStr_ok (t : Text) (fault : Nat → Bool) (st : St) (h : allOk fault st.k t.length = true) :
    writelinesStr t fault st = (.ok (), st.wrote t) := by
  induction t generalizing st with
  | nil =>
    simp only [writelinesStr, run_pure, St.wrote, List.length_nil, Nat.add_zero, List.replicate_zero, List.append_nil]
    unfold appendCur
    cases hc : st.created with
    | nil => rfl
    | cons pc r => obtain ⟨p, c⟩ := pc; simp [← hc]
  | cons c cs ih =>
    simp only [List.length_cons, allOk, Bool.and_eq_true, Bool.not_eq_true'] at h
    simp only [writelinesStr, step_ok _ _ _ _ h.1]
    have hk : (appendCur [c] (st.ok Ev.write)).k = st.k + 1 := by
      unfold appendCur St.ok; split <;> rfl
    rw [ih _ (by rw [hk]; exact h.2)]
    simp only [St.wrote, appendCur_appendCur, List.length_cons, List.replicate_succ, Prod.mk.injEq, true_and]
    unfold appendCur St.ok
    cases hc : st.created with
    | nil => simp [hc, Nat.add_assoc, Nat.add_comm 1]
    | cons pc r => obtain ⟨p, c'⟩ := pc; simp [hc, Nat.add_assoc, Nat.add_comm 1]

/-! projections of the log after a step (simp normal forms for symbolic runs) -/
@[simp] theorem St.ok_k (st : St) (ev : Ev) : (st.ok ev).k = st.k + 1 := rfl
@[simp] theorem St.ok_trace (st : St) (ev : Ev) : (st.ok ev).trace = st.trace ++ [(ev, true)] := rfl
@[simp] theorem St.ok_unwind (st : St) (ev : Ev) : (st.ok ev).unwind = st.unwind := rfl
@[simp] theorem St.ok_stdout (st : St) (ev : Ev) : (st.ok ev).stdout = st.stdout := rfl
@[simp] theorem St.ok_stderr (st : St) (ev : Ev) : (st.ok ev).stderr = st.stderr := rfl
@[simp] theorem St.ok_created (st : St) (ev : Ev) : (st.ok ev).created = st.created := rfl
@[simp] theorem St.ok_removed (st : St) (ev : Ev) : (st.ok ev).removed = st.removed := rfl
@[simp] theorem St.fail_k (st : St) (ev : Ev) : (st.fail ev).k = st.k + 1 := rfl
@[simp] theorem St.fail_trace (st : St) (ev : Ev) : (st.fail ev).trace = st.trace ++ [(ev, false)] := rfl
@[simp] theorem St.fail_unwind (st : St) (ev : Ev) : (st.fail ev).unwind = st.unwind := rfl
@[simp] theorem St.fail_stdout (st : St) (ev : Ev) : (st.fail ev).stdout = st.stdout := rfl
@[simp] theorem St.fail_stderr (st : St) (ev : Ev) : (st.fail ev).stderr = st.stderr := rfl
@[simp] theorem St.fail_created (st : St) (ev : Ev) : (st.fail ev).created = st.created := rfl
@[simp] theorem St.fail_removed (st : St) (ev : Ev) : (st.fail ev).removed = st.removed := rfl
@[simp] theorem appendCur_k (t : Text) (st : St) : (appendCur t st).k = st.k := by unfold appendCur; split <;> rfl
@[simp] theorem appendCur_trace (t : Text) (st : St) : (appendCur t st).trace = st.trace := by unfold appendCur; split <;> rfl
@[simp] theorem appendCur_unwind (t : Text) (st : St) : (appendCur t st).unwind = st.unwind := by unfold appendCur; split <;> rfl
@[simp] theorem appendCur_stdout (t : Text) (st : St) : (appendCur t st).stdout = st.stdout := by unfold appendCur; split <;> rfl
@[simp] theorem appendCur_stderr (t : Text) (st : St) : (appendCur t st).stderr = st.stderr := by unfold appendCur; split <;> rfl
@[simp] theorem appendCur_removed (t : Text) (st : St) : (appendCur t st).removed = st.removed := by unfold appendCur; split <;> rfl
@[simp] theorem appendCur_created_cons (t : Text) (st : St) (p c : Text) (r : List (Text × Text)) (h : st.created = (p, c) :: r) :
    (appendCur t st).created = (p, c ++ t) :: r := by unfold appendCur; simp [h]
@[simp] theorem St.wrote_k (st : St) (t : Text) : (st.wrote t).k = st.k + t.length := rfl
@[simp] theorem St.wrote_trace (st : St) (t : Text) : (st.wrote t).trace = st.trace ++ List.replicate t.length (Ev.write, true) := rfl
@[simp] theorem St.wrote_unwind (st : St) (t : Text) : (st.wrote t).unwind = st.unwind := by simp [St.wrote]
@[simp] theorem St.wrote_stdout (st : St) (t : Text) : (st.wrote t).stdout = st.stdout := by simp [St.wrote]
@[simp] theorem St.wrote_stderr (st : St) (t : Text) : (st.wrote t).stderr = st.stderr := by simp [St.wrote]
@[simp] theorem St.wrote_removed (st : St) (t : Text) : (st.wrote t).removed = st.removed := by simp [St.wrote]
@[simp] theorem St.wrote_created (st : St) (t : Text) : (st.wrote t).created = (appendCur t st).created := rfl

/-- the log a `writelines` leaves behind that stops at the first failing write -/
def St.writeFail (fault : Nat → Bool) : Text → St → St
  | [], st => st
  | c :: cs, st => if fault st.k then st.fail .write else St.writeFail fault cs (appendCur [c] (st.ok .write))

theorem writelinesStr_fail (t : Text) (fault : Nat → Bool) (st : St) (h : allOk fault st.k t.length = false) :
    writelinesStr t fault st = (.error (.osError .write), St.writeFail fault t st) := by
  induction t generalizing st with
  | nil => simp [allOk] at h
  | cons c cs ih =>
    cases hf : fault st.k with
    | true => simp [writelinesStr, step_fail _ _ _ _ hf, St.writeFail, hf]
    | false =>
      simp only [List.length_cons, allOk, hf, Bool.not_false, Bool.true_and] at h
      simp only [writelinesStr, step_ok _ _ _ _ hf, St.writeFail, hf, Bool.false_eq_true, if_false]
      rw [ih _ (by simpa using h)]

@[simp] theorem St.writeFail_trace (fault : Nat → Bool) (t : Text) (st : St) :
    (St.writeFail fault t st).trace = st.trace ++ runSteps (List.replicate t.length Ev.write) st.k fault := by
  induction t generalizing st with
  | nil => simp [St.writeFail, runSteps]
  | cons c cs ih =>
    simp only [St.writeFail, List.length_cons, List.replicate_succ, runSteps]
    cases hf : fault st.k <;> simp [ih]
@[simp] theorem St.writeFail_unwind (fault : Nat → Bool) (t : Text) (st : St) : (St.writeFail fault t st).unwind = st.unwind := by
  induction t generalizing st with
  | nil => rfl
  | cons c cs ih => simp only [St.writeFail]; split <;> simp [ih]
@[simp] theorem St.writeFail_removed (fault : Nat → Bool) (t : Text) (st : St) : (St.writeFail fault t st).removed = st.removed := by
  induction t generalizing st with
  | nil => rfl
  | cons c cs ih => simp only [St.writeFail]; split <;> simp [ih]
@[simp] theorem St.writeFail_stderr (fault : Nat → Bool) (t : Text) (st : St) : (St.writeFail fault t st).stderr = st.stderr := by
  induction t generalizing st with
  | nil => rfl
  | cons c cs ih => simp only [St.writeFail]; split <;> simp [ih]
@[simp] theorem St.writeFail_stdout (fault : Nat → Bool) (t : Text) (st : St) : (St.writeFail fault t st).stdout = st.stdout := by
  induction t generalizing st with
  | nil => rfl
  | cons c cs ih => simp only [St.writeFail]; split <;> simp [ih]


@[simp] theorem allOk_noFault (k n : Nat) : allOk noFault k n = true := by
  induction n generalizing k with
  | zero => rfl
  | succ n ih => simp [allOk, ih, noFault]

/-! ### removing directory entries -/

/-- the log after `os.remove(os.path.join(path, x.name))` succeeded for the directory entry `x` -/
def St.rmEntry (path : Text) (x : FileEntry) (st : St) : St :=
  { st.ok .removeIn with removed := st.removed ++ [(pathJoin path x.name, some x)] }

theorem foldl_rmEntry (path : Text) (P : FileEntry → Bool) (xs : List FileEntry) (st : St) :
    let st' := xs.foldl (fun st x => if P x then st.rmEntry path x else st) st
    st'.removed = st.removed ++ (xs.filter P).map (fun x => (pathJoin path x.name, some x)) ∧
    st'.stdout = st.stdout ∧ st'.stderr = st.stderr ∧ st'.created = st.created ∧ st'.unwind = st.unwind := by
  induction xs generalizing st with
  | nil => simp
  | cons x xs ih =>
    simp only [List.foldl_cons, List.filter_cons]
    cases hp : P x with
    | false => simpa using ih st
    | true =>
      have := ih (st.rmEntry path x)
      simp only [if_true] at this ⊢
      obtain ⟨h1, h2, h3, h4, h5⟩ := this
      refine ⟨?_, h2, h3, h4, h5⟩
      rw [h1]; simp [St.rmEntry]

theorem foldl_erase_self {α} [BEq α] [LawfulBEq α] (l : List α) : l.foldl List.erase l = [] := by
  induction l with
  | nil => rfl
  | cons x xs ih => simp [List.foldl_cons, ih]

/-! ### the `-j` loop -/

/-- the `parseAndWriteOutput` calls of the `-j` loop of `main()`, one after the other -/
def runCalls (g : Sys → Text → Text → CliOpts → Bool → M Unit) (y : Sys) (c : CliOpts) : List (Text × Text × Bool) → M Unit
  | [] => pure ()
  | (f, out, clean) :: r => g y f out c clean >>= fun _ => runCalls g y c r

end Pel.Eff

namespace Pel

/-- number of characters of the document (= number of `write` calls `writelines` makes) -/
def docLen : FileRes (Text × J) → Nat
  | .some (_, j) => (prettyPrint 34 (dumps j)).length
  | _ => 0

theorem filter_noext (l : List FileEntry) :
    l.filter (fun f => match (none : Option Text) with
      | some e => if e = [] then true else splitext f.name == e
      | none => true) = l := List.filter_eq_self.mpr (fun _ _ => rfl)

/-- `jsonMode` without an extension filter is the concatenation of its one-file steps -/
theorem jsonMode_cons (env : Env) (o : CliOpts) (ho : o.ext = none) (clean : Bool) (f : FileEntry) (d : Dir) :
    (jsonMode env o clean (f :: d)).created = (jsonMode env o clean [f]).created ++ (jsonMode env o clean d).created ∧
    (jsonMode env o clean (f :: d)).removed = (jsonMode env o clean [f]).removed ++ (jsonMode env o clean d).removed ∧
    (jsonMode env o clean (f :: d)).stderrLines = (jsonMode env o clean [f]).stderrLines + (jsonMode env o clean d).stderrLines := by
  simp only [jsonMode, ho, filter_noext, List.map_cons, List.map_nil]
  cases clean <;> cases fullOf env o.cfg f <;> simp
  all_goals omega

/-- the extension filter may be applied beforehand (as `main()` does) -/
theorem jsonMode_prefiltered (env : Env) (o : CliOpts) (clean : Bool) (d : Dir) :
    jsonMode env o clean d = jsonMode env { o with ext := none } clean (d.filter (fun f => match o.ext with
      | some e => if e = [] then true else splitext f.name == e
      | none => true)) := by
  simp only [jsonMode, filter_noext]
  rfl

end Pel
